import RModel.Lemmas.CaseModelDetect
/-
  C18 lemmas, part 5: the fourteen styles.  `rendWords ws st` is the exact token list that the tokenizer returns on
  `toStyle A ws st`; on it `map lower` gives back the words and `toStyle · st` gives back the rendering.
-/
open B
set_option linter.unusedSimpArgs false

namespace CaseModel

variable {A : Acr}

def Words (ws : List Bytes) : Prop := ∀ w ∈ ws, Word w
def LowerWords (ws : List Bytes) : Prop := ∀ w ∈ ws, LowerWord w
/-- no word triggers acronym handling (clauses N1, N2 of `NeutralWord`) -/
def Neutral (A : Acr) (ws : List Bytes) : Prop := ∀ w ∈ ws, NeutralWord A w

instance (ws : List Bytes) : Decidable (Words ws) := by unfold Words; infer_instance
instance (ws : List Bytes) : Decidable (LowerWords ws) := by unfold LowerWords; infer_instance
instance (A : Acr) (ws : List Bytes) : Decidable (Neutral A ws) := by unfold Neutral; infer_instance

theorem Words.lowerWords {ws : List Bytes} (h : Words ws) : LowerWords ws := fun w hw => (h w hw).lowerWord

theorem Words.tail {w : Bytes} {ws : List Bytes} (h : Words (w :: ws)) : Words ws :=
  fun x hx => h x (List.mem_cons_of_mem _ hx)
theorem LowerWords.tail {w : Bytes} {ws : List Bytes} (h : LowerWords (w :: ws)) : LowerWords ws :=
  fun x hx => h x (List.mem_cons_of_mem _ hx)
theorem Neutral.tail {w : Bytes} {ws : List Bytes} (h : Neutral A (w :: ws)) : Neutral A ws :=
  fun x hx => h x (List.mem_cons_of_mem _ hx)

theorem map_id_of {f : Bytes → Bytes} : ∀ {ws : List Bytes}, (∀ w ∈ ws, f w = w) → ws.map f = ws
  | [], _ => rfl
  | w :: ws, h => by
    rw [List.map_cons, h w (List.mem_cons_self ..), map_id_of (fun x hx => h x (List.mem_cons_of_mem _ hx))]

theorem map_congr_of {f g : Bytes → Bytes} : ∀ {ws : List Bytes}, (∀ w ∈ ws, f w = g w) → ws.map f = ws.map g
  | [], _ => rfl
  | w :: ws, h => by
    rw [List.map_cons, List.map_cons, h w (List.mem_cons_self ..),
      map_congr_of (fun x hx => h x (List.mem_cons_of_mem _ hx))]

theorem map_lower_lowerWords {ws : List Bytes} (h : LowerWords ws) : ws.map lower = ws :=
  map_id_of (fun w hw => lower_of_lower (h w hw).2)

theorem map_capOrKeep_lowerWords {ws : List Bytes} (h : LowerWords ws) :
    ws.map (capOrKeep A) = ws.map capitalizeFirst :=
  map_congr_of (fun w hw => capOrKeep_lower (h w hw))

-- tokenizing each family -----------------------------------------------------------------------------------------------

theorem parse_lower_sep (hA : AcrOk A) {d : UInt8} (hd : isDelim d = true) {ws : List Bytes}
    (h : LowerWords ws) : parse A (joinWith [d] ws) = ws :=
  parse_join hd ws (fun r hr => good_lower hA (h r hr).1 (h r hr).2)

theorem parse_upper_sep (hA : AcrOk A) (hS : AcrStable A) {d : UInt8} (hd : isDelim d = true) {ws : List Bytes}
    (h : LowerWords ws) (hN : ∀ w ∈ ws, NeutralUpper A w) :
    parse A (joinWith [d] (ws.map upper)) = ws.map upper := by
  apply parse_join hd
  intro r hr
  rw [List.mem_map] at hr
  obtain ⟨w, hw, rfl⟩ := hr
  exact good_upper hA hS (upper_ne_nil (h w hw).1) (upper_all_upper (h w hw).2) (hN w hw).noAcrPair

theorem parse_cap_sep (hA : AcrOk A) (hS : AcrStable A) {d : UInt8} (hd : isDelim d = true) {ws : List Bytes}
    (h : Words ws) (hN : ∀ w ∈ ws, NeutralCap A w) :
    parse A (joinWith [d] (ws.map capitalizeFirst)) = ws.map capitalizeFirst := by
  apply parse_join hd
  intro r hr
  rw [List.mem_map] at hr
  obtain ⟨w, hw, rfl⟩ := hr
  exact good_cap hA hS (isCap_capitalizeFirst (h w hw)) (hN w hw)

theorem parse_sentence_words (hA : AcrOk A) (hS : AcrStable A) {w : Bytes} {ws : List Bytes} (hw : Word w)
    (hN : NeutralCap A w) (h : LowerWords ws) :
    parse A (joinWith [32] (capitalizeFirst w :: ws)) = capitalizeFirst w :: ws := by
  apply parse_join (by decide)
  intro r hr
  rcases List.mem_cons.mp hr with rfl | hr
  · exact good_cap hA hS (isCap_capitalizeFirst hw) hN
  · exact good_lower hA (h r hr).1 (h r hr).2

-- the exact token list ------------------------------------------------------------------------------------------------------

/-- the tokens of `toStyle A ws st` (for the twelve styles that keep word boundaries) -/
def rendWords (ws : List Bytes) : Style → List Bytes
  | .snake | .kebab | .dot | .lowerSentence => ws
  | .screamingSnake | .screamingTrain | .upperSentence => ws.map upper
  | .title | .train | .pascal => ws.map capitalizeFirst
  | .camel => match ws with | [] => [] | w :: r => w :: r.map capitalizeFirst
  | .sentence => match ws with | [] => [] | w :: r => capitalizeFirst w :: r
  | .lowerFlat | .upperFlat => ws

def V12 : List Style :=
  [.snake, .kebab, .camel, .pascal, .screamingSnake, .title, .train, .screamingTrain, .dot, .sentence,
   .lowerSentence, .upperSentence]

theorem caps_of_words {ws : List Bytes} (h : Words ws) : ∀ x ∈ ws.map capitalizeFirst, IsCap x := by
  intro x hx
  rw [List.mem_map] at hx
  obtain ⟨w, hw, rfl⟩ := hx
  exact isCap_capitalizeFirst (h w hw)

theorem caps_neutral {ws : List Bytes} (h : ∀ w ∈ ws, NeutralCap A w) :
    ∀ x ∈ ws.map capitalizeFirst, A.flm x ≠ some 1 := by
  intro x hx
  rw [List.mem_map] at hx
  obtain ⟨w, hw, rfl⟩ := hx
  exact h w hw

/-- the toStyle renderings of lower-case words, written with `joinWith`/`concat` over rendered words -/
theorem toStyle_words (A : Acr) {ws : List Bytes} (h : LowerWords ws) (st : Style) :
    toStyle A ws st = match st with
      | .snake => joinWith [95] ws
      | .kebab => joinWith [45] ws
      | .dot => joinWith [46] ws
      | .lowerSentence => joinWith [32] ws
      | .screamingSnake => joinWith [95] (ws.map upper)
      | .screamingTrain => joinWith [45] (ws.map upper)
      | .upperSentence => joinWith [32] (ws.map upper)
      | .title => joinWith [32] (ws.map capitalizeFirst)
      | .train => joinWith [45] (ws.map capitalizeFirst)
      | .pascal => concat (ws.map capitalizeFirst)
      | .camel => (match ws with | [] => [] | w :: r => w ++ concat (r.map capitalizeFirst))
      | .sentence => (match ws with | [] => [] | w :: r => joinWith [32] (capitalizeFirst w :: r))
      | .lowerFlat => concat ws
      | .upperFlat => concat (ws.map upper) := by
  cases st <;> simp only [toStyle, map_lower_lowerWords h, map_capOrKeep_lowerWords h]
  · cases ws with
    | nil => rfl
    | cons w r => simp only [lower_of_lower (h w (List.mem_cons_self ..)).2, map_capOrKeep_lowerWords h.tail]
  · cases ws with
    | nil => rfl
    | cons w r => simp only [map_lower_lowerWords h.tail]

theorem parse_rendWords (hA : AcrOk A) (hS : AcrStable A) {ws : List Bytes} (hw : Words ws)
    (hN : Neutral A ws) {st : Style} (hst : st ∈ V12) : parse A (toStyle A ws st) = rendWords ws st := by
  have hl := hw.lowerWords
  have hNu : ∀ w ∈ ws, NeutralUpper A w := fun w h => (hN w h).1
  have hNc : ∀ w ∈ ws, NeutralCap A w := fun w h => (hN w h).2
  rw [toStyle_words A hl]
  cases st <;> simp only [rendWords]
  · exact parse_lower_sep hA (by decide) hl
  · exact parse_lower_sep hA (by decide) hl
  · cases ws with
    | nil => rfl
    | cons w r =>
      exact parse_camel hA hS (hl w (List.mem_cons_self ..)) (caps_of_words hw.tail)
        (caps_neutral (fun x hx => hNc x (List.mem_cons_of_mem _ hx)))
  · cases ws with
    | nil => rfl
    | cons w r =>
      exact parse_pascal hA hS (isCap_capitalizeFirst (hw w (List.mem_cons_self ..)))
        (hNc w (List.mem_cons_self ..)) (caps_of_words hw.tail)
  · exact parse_upper_sep hA hS (by decide) hl hNu
  · exact parse_cap_sep hA hS (by decide) hw hNc
  · exact parse_cap_sep hA hS (by decide) hw hNc
  · exact parse_upper_sep hA hS (by decide) hl hNu
  · exact parse_lower_sep hA (by decide) hl
  · exact absurd hst (by decide)
  · exact absurd hst (by decide)
  · cases ws with
    | nil => rfl
    | cons w r =>
      exact parse_sentence_words hA hS (hw w (List.mem_cons_self ..)) (hNc w (List.mem_cons_self ..)) hl.tail
  · exact parse_lower_sep hA (by decide) hl
  · exact parse_upper_sep hA hS (by decide) hl hNu

theorem map_lower_upper_words {ws : List Bytes} (h : LowerWords ws) : (ws.map upper).map lower = ws := by
  rw [List.map_map]; exact map_id_of (fun w hw => lower_upper_of_lower (h w hw).2)

theorem map_lower_cap_words {ws : List Bytes} (h : LowerWords ws) : (ws.map capitalizeFirst).map lower = ws := by
  rw [List.map_map]; exact map_id_of (fun w hw => lower_capitalizeFirst (h w hw).2)

theorem map_lower_rendWords {ws : List Bytes} (h : LowerWords ws) (st : Style) :
    (rendWords ws st).map lower = ws := by
  cases st <;> simp only [rendWords, map_lower_lowerWords h, map_lower_upper_words h, map_lower_cap_words h]
  · cases ws with
    | nil => rfl
    | cons w r =>
      simp only [List.map_cons, lower_of_lower (h w (List.mem_cons_self ..)).2, map_lower_cap_words h.tail]
  · cases ws with
    | nil => rfl
    | cons w r =>
      simp only [List.map_cons, lower_capitalizeFirst (h w (List.mem_cons_self ..)).2, map_lower_lowerWords h.tail]

-- re-rendering the tokens ---------------------------------------------------------------------------------------------

theorem map_upper_upper_words {ws : List Bytes} (h : LowerWords ws) : (ws.map upper).map upper = ws.map upper := by
  rw [List.map_map]; exact map_congr_of (fun w hw => upper_upper_of_lower (h w hw).2)

theorem map_cap_cap_words {ws : List Bytes} (h : Words ws) :
    (ws.map capitalizeFirst).map capitalizeFirst = ws.map capitalizeFirst := by
  rw [List.map_map]; exact map_congr_of (fun w hw => capitalizeFirst_cap (isCap_capitalizeFirst (h w hw)))

theorem map_capOrKeep_cap_words {ws : List Bytes} (h : Words ws) :
    (ws.map capitalizeFirst).map (capOrKeep A) = ws.map capitalizeFirst := by
  rw [List.map_map]; exact map_congr_of (fun w hw => capOrKeep_cap (isCap_capitalizeFirst (h w hw)))

theorem toStyle_rendWords {ws : List Bytes} (hw : Words ws) (st : Style) :
    toStyle A (rendWords ws st) st = toStyle A ws st := by
  have hl := hw.lowerWords
  cases st <;> simp only [rendWords, toStyle, map_upper_upper_words hl, map_cap_cap_words hw,
    map_capOrKeep_cap_words hw, map_capOrKeep_lowerWords hl]
  · cases ws with
    | nil => rfl
    | cons w r => simp only [map_capOrKeep_cap_words hw.tail, map_capOrKeep_lowerWords hl.tail]
  · cases ws with
    | nil => rfl
    | cons w r =>
      simp only [capitalizeFirst_cap (isCap_capitalizeFirst (hw w (List.mem_cons_self ..)))]

-- flat styles: the tokens of an alphanumeric string concatenate back to it -------------------------------------

theorem concat_append (xs ys : List Bytes) : concat (xs ++ ys) = concat xs ++ concat ys := by
  induction xs with
  | nil => rfl
  | cons x xs ih => simp only [List.cons_append, concat_cons, ih, List.append_assoc]

theorem concat_flush (cur : Bytes) (acc : List Bytes) : concat (flush cur acc) = concat acc ++ cur := by
  cases cur with
  | nil => simp only [flush_nil, List.append_nil]
  | cons c cs =>
    rw [flush_ne_nil (by simp), concat_append]
    simp only [concat_cons, concat_nil, List.append_nil]

theorem acrAccept_some_pos (hA : AcrOk A) {rest : Bytes} {n : Nat} (h : acrAccept A rest = some n) : 1 ≤ n := by
  unfold acrAccept at h
  cases hf : A.flm rest with
  | none => rw [hf] at h; exact absurd h (by simp)
  | some m =>
    rw [hf] at h
    have hm := (hA _ _ hf).1
    simp only at h
    split at h
    · exact absurd h (by simp)
    · split at h
      · exact absurd h (by simp)
      · simp only [Option.some.injEq] at h; omega

theorem upperSplit_some_pos {rest : Bytes} {n : Nat} (h : upperSplit A rest = some n) : 1 ≤ n := by
  simp only [upperSplit] at h
  split at h
  · split at h
    · next hc =>
      simp only [Bool.and_eq_true, decide_eq_true_eq] at hc
      split at h
      · next m hm =>
        have := List.mem_of_find?_eq_some hm
        simp only [List.mem_reverse, List.mem_range'_1] at this
        simp only [Option.some.injEq] at h; omega
      · simp only [Option.some.injEq] at h; omega
    · exact absurd h (by simp)
  · exact absurd h (by simp)

theorem take_append_drop_pred {n : Nat} (hn : 1 ≤ n) (b : UInt8) (rest : Bytes) :
    (b :: rest).take n ++ rest.drop (n - 1) = b :: rest := by
  obtain ⟨m, rfl⟩ : ∃ m, n = m + 1 := ⟨n - 1, by omega⟩
  simp only [List.take_succ_cons, Nat.add_sub_cancel, List.cons_append, List.take_append_drop]

/-- on alphanumeric input the tokenizer only cuts: the tokens concatenate to the input -/
theorem concat_tok (hA : AcrOk A) : ∀ (s : Bytes) (prev : Option UInt8) (cur : Bytes) (skip : Nat)
    (acc : List Bytes), (∀ c ∈ s, isAlnum c = true) →
    concat (tok A prev cur skip s acc) = concat acc ++ cur ++ s.drop skip
  | [], prev, cur, skip, acc, _ => by
    simp only [tok_nil, concat_flush, List.drop_nil, List.append_nil]
  | b :: rest, prev, cur, skip + 1, acc, h => by
    rw [tok_skip, concat_tok hA rest _ _ _ _ (fun c hc => h c (List.mem_cons_of_mem _ hc))]
    rfl
  | b :: rest, prev, cur, 0, acc, h => by
    have hb : isAlnum b = true := h b (List.mem_cons_self ..)
    have hd : isDelim b = false := by cc
    have hr : ∀ c ∈ rest, isAlnum c = true := fun c hc => h c (List.mem_cons_of_mem _ hc)
    simp only [tok, hd, hb, Bool.false_eq_true, ↓reduceIte, List.drop_zero]
    split
    · next n hj =>
      -- a jump: only with an empty buffer, and it consumes at least one byte
      have hcur : cur = [] ∧ 1 ≤ n := by
        cases cur with
        | cons c cs => simp only [List.isEmpty_cons, Bool.false_eq_true, ↓reduceIte] at hj; exact absurd hj (by simp)
        | nil =>
          refine ⟨rfl, ?_⟩
          simp only [List.isEmpty_nil, ↓reduceIte] at hj
          split at hj
          · next m hm => simp only [Option.some.injEq] at hj; subst hj; exact acrAccept_some_pos hA hm
          · split at hj
            · exact upperSplit_some_pos hj
            · exact absurd hj (by simp)
      rw [concat_tok hA rest _ _ _ _ hr, concat_append, hcur.1]
      simp only [concat_cons, concat_nil, List.append_nil, List.append_assoc,
        take_append_drop_pred hcur.2]
    · have key : ∀ c : Bool, concat (if c = true then tok A (some b) [b] 0 rest (acc ++ [cur])
          else tok A (some b) (cur ++ [b]) 0 rest acc) = concat acc ++ cur ++ b :: rest := by
        intro c
        cases c
        · simp only [Bool.false_eq_true, ↓reduceIte]
          rw [concat_tok hA rest _ _ _ _ hr]
          simp only [List.append_assoc, List.drop_zero, List.singleton_append]
        · simp only [↓reduceIte]
          rw [concat_tok hA rest _ _ _ _ hr, concat_append]
          simp only [concat_cons, concat_nil, List.append_nil, List.append_assoc, List.drop_zero,
            List.singleton_append]
      split <;> exact key _

theorem concat_parse (hA : AcrOk A) {s : Bytes} (h : ∀ c ∈ s, isAlnum c = true) : concat (parse A s) = s := by
  rw [parse, concat_tok hA s none [] 0 [] h]; rfl

theorem concat_map_lower : ∀ (ts : List Bytes), concat (ts.map lower) = lower (concat ts)
  | [] => rfl
  | t :: ts => by simp only [List.map_cons, concat_cons, concat_map_lower ts, lower, List.map_append]

theorem concat_map_upper : ∀ (ts : List Bytes), concat (ts.map upper) = upper (concat ts)
  | [] => rfl
  | t :: ts => by simp only [List.map_cons, concat_cons, concat_map_upper ts, upper, List.map_append]

theorem mem_concat {x : UInt8} : ∀ {ws : List Bytes}, x ∈ concat ws → ∃ w ∈ ws, x ∈ w
  | [], h => absurd h (by simp)
  | w :: ws, h => by
    rw [concat_cons, List.mem_append] at h
    rcases h with h | h
    · exact ⟨w, List.mem_cons_self .., h⟩
    · obtain ⟨w', hw', hx⟩ := mem_concat h
      exact ⟨w', List.mem_cons_of_mem _ hw', hx⟩

theorem concat_lower_all {ws : List Bytes} (h : ∀ w ∈ ws, ∀ c ∈ w, isLower c = true) :
    ∀ c ∈ concat ws, isLower c = true := by
  intro c hc
  obtain ⟨w, hw, hx⟩ := mem_concat hc
  exact h w hw c hx

/-- lowerFlat / upperFlat: re-rendering the tokens of the rendering gives the rendering; needs no neutrality
    (the tokenizer may cut the flat string anywhere, concatenation undoes it) -/
theorem render_idem_lowerFlat (hA : AcrOk A) {ws : List Bytes} (h : ∀ w ∈ ws, ∀ c ∈ w, isLower c = true) :
    toStyle A (parse A (toStyle A ws .lowerFlat)) .lowerFlat = toStyle A ws .lowerFlat := by
  have h1 : ws.map lower = ws := map_id_of (fun w hw => lower_of_lower (h w hw))
  have hc := concat_lower_all h
  simp only [toStyle, h1, concat_map_lower]
  rw [concat_parse hA (fun c hx => lower_alnum (hc c hx)), lower_of_lower hc]

theorem render_idem_upperFlat (hA : AcrOk A) {ws : List Bytes} (h : ∀ w ∈ ws, ∀ c ∈ w, isLower c = true) :
    toStyle A (parse A (toStyle A ws .upperFlat)) .upperFlat = toStyle A ws .upperFlat := by
  have hc := concat_lower_all h
  have hu := upper_all_upper hc
  simp only [toStyle, concat_map_upper]
  rw [concat_parse hA (fun c hx => upper_alnum (hu c hx)), upper_upper_of_lower hc]

-- detection of rendered multi-word names ----------------------------------------------------------------------------

theorem sb_95_45 : (((95 : UInt8)) == 45) = false := by decide
theorem sb_95_46 : (((95 : UInt8)) == 46) = false := by decide
theorem sb_95_32 : (((95 : UInt8)) == 32) = false := by decide
theorem sb_45_95 : (((45 : UInt8)) == 95) = false := by decide
theorem sb_45_46 : (((45 : UInt8)) == 46) = false := by decide
theorem sb_45_32 : (((45 : UInt8)) == 32) = false := by decide
theorem sb_46_95 : (((46 : UInt8)) == 95) = false := by decide
theorem sb_46_45 : (((46 : UInt8)) == 45) = false := by decide
theorem sb_46_32 : (((46 : UInt8)) == 32) = false := by decide
theorem sb_32_95 : (((32 : UInt8)) == 95) = false := by decide
theorem sb_32_45 : (((32 : UInt8)) == 45) = false := by decide
theorem sb_32_46 : (((32 : UInt8)) == 46) = false := by decide

theorem ne_nil_of_two {ws : List Bytes} (h2 : 2 ≤ ws.length) : ws ≠ [] := by
  intro h; rw [h] at h2; exact absurd h2 (by decide)

theorem alpha_lowerWords {ws : List Bytes} (h : LowerWords ws) : AlphaWords ws :=
  fun w hw x hx => lower_alpha ((h w hw).2 x hx)

theorem alpha_upperWords {ws : List Bytes} (h : LowerWords ws) : AlphaWords (ws.map upper) := by
  intro r hr x hx
  rw [List.mem_map] at hr
  obtain ⟨w, hw, rfl⟩ := hr
  exact upper_alpha (upper_all_upper (h w hw).2 x hx)

theorem alpha_cap {r : Bytes} (h : IsCap r) : ∀ x ∈ r, isAlpha x = true := by
  obtain ⟨u, l0, l', rfl, hu, hl⟩ := h
  intro x hx
  rcases List.mem_cons.mp hx with rfl | hx
  · exact upper_alpha hu
  · exact lower_alpha (hl x hx)

theorem alpha_capWords {rs : List Bytes} (h : ∀ r ∈ rs, IsCap r) : AlphaWords rs :=
  fun r hr => alpha_cap (h r hr)

theorem anyU_lowerWords {ws : List Bytes} (h : LowerWords ws) : ws.any (fun r => r.any isUpper) = false :=
  any_any_false (fun w hw x hx => lower_not_upper ((h w hw).2 x hx))

theorem anyL_lowerWords {ws : List Bytes} (hne : ws ≠ []) (h : LowerWords ws) :
    ws.any (fun r => r.any isLower) = true := by
  obtain ⟨w, ws', rfl⟩ := List.exists_cons_of_ne_nil hne
  obtain ⟨c, cs, rfl⟩ := List.exists_cons_of_ne_nil (h w (List.mem_cons_self ..)).1
  exact any_any_true (List.mem_cons_self ..) (List.mem_cons_self ..)
    ((h _ (List.mem_cons_self ..)).2 c (List.mem_cons_self ..))

theorem anyL_upperWords {ws : List Bytes} (h : LowerWords ws) :
    (ws.map upper).any (fun r => r.any isLower) = false := by
  apply any_any_false
  intro r hr x hx
  rw [List.mem_map] at hr
  obtain ⟨w, hw, rfl⟩ := hr
  exact upper_not_lower (upper_all_upper (h w hw).2 x hx)

theorem anyU_upperWords {ws : List Bytes} (hne : ws ≠ []) (h : LowerWords ws) :
    (ws.map upper).any (fun r => r.any isUpper) = true := by
  obtain ⟨w, ws', rfl⟩ := List.exists_cons_of_ne_nil hne
  obtain ⟨c, cs, rfl⟩ := List.exists_cons_of_ne_nil (h w (List.mem_cons_self ..)).1
  exact any_any_true (r := upper (c :: cs)) (x := toUpper c) (by simp) (by simp [upper])
    (toUpper_of_lower ((h _ (List.mem_cons_self ..)).2 c (List.mem_cons_self ..)))

theorem anyU_of_cap {rs : List Bytes} {r : Bytes} (hr : r ∈ rs) (h : IsCap r) :
    rs.any (fun r => r.any isUpper) = true := by
  obtain ⟨u, l0, l', rfl, hu, hl⟩ := h
  exact any_any_true hr (List.mem_cons_self ..) hu

theorem anyL_of_cap {rs : List Bytes} {r : Bytes} (hr : r ∈ rs) (h : IsCap r) :
    rs.any (fun r => r.any isLower) = true := by
  obtain ⟨u, l0, l', rfl, hu, hl⟩ := h
  exact any_any_true hr (x := l0) (by simp) (hl l0 (List.mem_cons_self ..))

theorem sep_flags (d : UInt8) (hda : isAlpha d = false) {rs : List Bytes} (h2 : 2 ≤ rs.length)
    (ha : AlphaWords rs) {up lo : Bool} (hu : rs.any (fun r => r.any isUpper) = up)
    (hl : rs.any (fun r => r.any isLower) = lo) :
    contains (joinWith [d] rs) 95 = (d == 95) ∧ contains (joinWith [d] rs) 45 = (d == 45) ∧
    contains (joinWith [d] rs) 46 = (d == 46) ∧ contains (joinWith [d] rs) 32 = (d == 32) ∧
    (joinWith [d] rs).any isUpper = up ∧ (joinWith [d] rs).any isLower = lo := by
  refine ⟨contains_joinWith (by decide) h2 ha, contains_joinWith (by decide) h2 ha,
    contains_joinWith (by decide) h2 ha, contains_joinWith (by decide) h2 ha, ?_, ?_⟩
  · rw [any_joinWith_of_not_sep isUpper (by cc), hu]
  · rw [any_joinWith_of_not_sep isLower (by cc), hl]

theorem concat_flags {rs : List Bytes} (ha : AlphaWords rs) {up lo : Bool}
    (hu : rs.any (fun r => r.any isUpper) = up) (hl : rs.any (fun r => r.any isLower) = lo) :
    contains (concat rs) 95 = false ∧ contains (concat rs) 45 = false ∧
    contains (concat rs) 46 = false ∧ contains (concat rs) 32 = false ∧
    (concat rs).any isUpper = up ∧ (concat rs).any isLower = lo :=
  ⟨contains_concat (by decide) ha, contains_concat (by decide) ha, contains_concat (by decide) ha,
    contains_concat (by decide) ha, by rw [any_concat, hu], by rw [any_concat, hl]⟩

theorem detect_snake (A : Acr) {ws : List Bytes} (h2 : 2 ≤ ws.length) (h : LowerWords ws) :
    detectStyle A (joinWith [95] ws) = some .snake := by
  obtain ⟨f1, f2, f3, f4, f5, f6⟩ := sep_flags 95 (by decide) h2 (alpha_lowerWords h) (anyU_lowerWords h)
    (anyL_lowerWords (ne_nil_of_two h2) h)
  simp only [detectStyle, isEmpty_of_any f6, f1, f2, f3, f4, f5, f6, sb_95_45, sb_95_46, sb_95_32, sb_45_95, sb_45_46, sb_45_32, sb_46_95, sb_46_45, sb_46_32, sb_32_95, sb_32_45, sb_32_46, beq_self_eq_true,
    Bool.false_and, Bool.false_eq_true, ↓reduceIte]

theorem detect_kebab (A : Acr) {ws : List Bytes} (h2 : 2 ≤ ws.length) (h : LowerWords ws) :
    detectStyle A (joinWith [45] ws) = some .kebab := by
  obtain ⟨f1, f2, f3, f4, f5, f6⟩ := sep_flags 45 (by decide) h2 (alpha_lowerWords h) (anyU_lowerWords h)
    (anyL_lowerWords (ne_nil_of_two h2) h)
  simp only [detectStyle, isEmpty_of_any f6, f1, f2, f3, f4, f5, f6, sb_95_45, sb_95_46, sb_95_32, sb_45_95, sb_45_46, sb_45_32, sb_46_95, sb_46_45, sb_46_32, sb_32_95, sb_32_45, sb_32_46, beq_self_eq_true,
    Bool.false_and, Bool.false_eq_true, ↓reduceIte]

theorem detect_lowerSentence (A : Acr) {ws : List Bytes} (h2 : 2 ≤ ws.length) (h : LowerWords ws) :
    detectStyle A (joinWith [32] ws) = some .lowerSentence := by
  obtain ⟨f1, f2, f3, f4, f5, f6⟩ := sep_flags 32 (by decide) h2 (alpha_lowerWords h) (anyU_lowerWords h)
    (anyL_lowerWords (ne_nil_of_two h2) h)
  simp only [detectStyle, isEmpty_of_any f6, f1, f2, f3, f4, f5, f6, sb_95_45, sb_95_46, sb_95_32, sb_45_95, sb_45_46, sb_45_32, sb_46_95, sb_46_45, sb_46_32, sb_32_95, sb_32_45, sb_32_46, beq_self_eq_true,
    Bool.false_and, Bool.false_eq_true, ↓reduceIte]

theorem head_ne_dot {w : Bytes} (ws : List Bytes) (hw : LowerWord w) :
    ((joinWith [46] (w :: ws)).head? == some 46) = false := by
  rw [head?_joinWith ws hw.1]
  obtain ⟨c, cs, rfl⟩ := List.exists_cons_of_ne_nil hw.1
  have hc : isLower c = true := hw.2 c (List.mem_cons_self ..)
  cases hb : ((c :: cs).head? == some (46 : UInt8)) with
  | false => rfl
  | true =>
    rw [beq_iff_eq] at hb
    simp only [List.head?_cons, Option.some.injEq] at hb
    rw [hb] at hc
    exact absurd hc (by decide)

theorem detect_dot (A : Acr) {ws : List Bytes} (h2 : 2 ≤ ws.length) (h : LowerWords ws) :
    detectStyle A (joinWith [46] ws) = some .dot := by
  obtain ⟨f1, f2, f3, f4, f5, f6⟩ := sep_flags 46 (by decide) h2 (alpha_lowerWords h) (anyU_lowerWords h)
    (anyL_lowerWords (ne_nil_of_two h2) h)
  obtain ⟨w, ws', rfl⟩ := List.exists_cons_of_ne_nil (ne_nil_of_two h2)
  have hh := head_ne_dot ws' (h w (List.mem_cons_self ..))
  simp only [detectStyle, isEmpty_of_any f6, f1, f2, f3, f4, f5, f6, hh, sb_95_45, sb_95_46, sb_95_32, sb_45_95, sb_45_46, sb_45_32, sb_46_95, sb_46_45, sb_46_32, sb_32_95, sb_32_45, sb_32_46, beq_self_eq_true,
    Bool.false_and, Bool.false_eq_true, ↓reduceIte, Bool.not_false, Bool.and_self]

theorem detect_screamingSnake (A : Acr) {ws : List Bytes} (h2 : 2 ≤ ws.length) (h : LowerWords ws) :
    detectStyle A (joinWith [95] (ws.map upper)) = some .screamingSnake := by
  obtain ⟨f1, f2, f3, f4, f5, f6⟩ := sep_flags 95 (by decide) (by rw [List.length_map]; exact h2)
    (alpha_upperWords h) (anyU_upperWords (ne_nil_of_two h2) h) (anyL_upperWords h)
  simp only [detectStyle, isEmpty_of_any f5, f1, f2, f3, f4, f5, f6, sb_95_45, sb_95_46, sb_95_32, sb_45_95, sb_45_46, sb_45_32, sb_46_95, sb_46_45, sb_46_32, sb_32_95, sb_32_45, sb_32_46, beq_self_eq_true,
    Bool.false_and, Bool.false_eq_true, ↓reduceIte]

theorem detect_screamingTrain (A : Acr) {ws : List Bytes} (h2 : 2 ≤ ws.length) (h : LowerWords ws) :
    detectStyle A (joinWith [45] (ws.map upper)) = some .screamingTrain := by
  obtain ⟨f1, f2, f3, f4, f5, f6⟩ := sep_flags 45 (by decide) (by rw [List.length_map]; exact h2)
    (alpha_upperWords h) (anyU_upperWords (ne_nil_of_two h2) h) (anyL_upperWords h)
  simp only [detectStyle, isEmpty_of_any f5, f1, f2, f3, f4, f5, f6, sb_95_45, sb_95_46, sb_95_32, sb_45_95, sb_45_46, sb_45_32, sb_46_95, sb_46_45, sb_46_32, sb_32_95, sb_32_45, sb_32_46, beq_self_eq_true,
    Bool.false_and, Bool.false_eq_true, ↓reduceIte]

theorem detect_upperSentence (A : Acr) {ws : List Bytes} (h2 : 2 ≤ ws.length) (h : LowerWords ws) :
    detectStyle A (joinWith [32] (ws.map upper)) = some .upperSentence := by
  obtain ⟨f1, f2, f3, f4, f5, f6⟩ := sep_flags 32 (by decide) (by rw [List.length_map]; exact h2)
    (alpha_upperWords h) (anyU_upperWords (ne_nil_of_two h2) h) (anyL_upperWords h)
  simp only [detectStyle, isEmpty_of_any f5, f1, f2, f3, f4, f5, f6, sb_95_45, sb_95_46, sb_95_32, sb_45_95, sb_45_46, sb_45_32, sb_46_95, sb_46_45, sb_46_32, sb_32_95, sb_32_45, sb_32_46, beq_self_eq_true,
    Bool.false_and, Bool.false_eq_true, ↓reduceIte]

theorem all_true_of {p : Bytes → Bool} {rs : List Bytes} (h : ∀ r ∈ rs, p r = true) : rs.all p = true := by
  rw [List.all_eq_true]; exact h

theorem detect_title (A : Acr) {rs : List Bytes} (h2 : 2 ≤ rs.length) (h : ∀ r ∈ rs, IsCap r) :
    detectStyle A (joinWith [32] rs) = some .title := by
  obtain ⟨r, rs', rfl⟩ := List.exists_cons_of_ne_nil (ne_nil_of_two h2)
  have hr := h r (List.mem_cons_self ..)
  obtain ⟨f1, f2, f3, f4, f5, f6⟩ := sep_flags 32 (by decide) h2 (alpha_capWords h)
    (anyU_of_cap (List.mem_cons_self ..) hr) (anyL_of_cap (List.mem_cons_self ..) hr)
  have ht : isTitleCase (joinWith [32] (r :: rs')) = true := by
    rw [isTitleCase, splitOn_joinWith 32 _ (by simp) (alpha_ne_sep (by decide) (alpha_capWords h))]
    exact all_true_of (fun x hx => isTitleWord_cap (h x hx))
  simp only [detectStyle, isEmpty_of_any f6, f1, f2, f3, f4, f5, f6, ht, sb_95_45, sb_95_46, sb_95_32, sb_45_95, sb_45_46, sb_45_32, sb_46_95, sb_46_45, sb_46_32, sb_32_95, sb_32_45, sb_32_46, beq_self_eq_true,
    Bool.false_and, Bool.false_eq_true, ↓reduceIte]

theorem detect_train (A : Acr) {rs : List Bytes} (h2 : 2 ≤ rs.length) (h : ∀ r ∈ rs, IsCap r) :
    detectStyle A (joinWith [45] rs) = some .train := by
  obtain ⟨r, rs', rfl⟩ := List.exists_cons_of_ne_nil (ne_nil_of_two h2)
  have hr := h r (List.mem_cons_self ..)
  obtain ⟨f1, f2, f3, f4, f5, f6⟩ := sep_flags 45 (by decide) h2 (alpha_capWords h)
    (anyU_of_cap (List.mem_cons_self ..) hr) (anyL_of_cap (List.mem_cons_self ..) hr)
  have ht : isTrainCase A (joinWith [45] (r :: rs')) = true := by
    rw [isTrainCase, splitOn_joinWith 45 _ (by simp) (alpha_ne_sep (by decide) (alpha_capWords h))]
    apply all_true_of
    intro x hx
    have hne : x.isEmpty = false := by
      obtain ⟨u, l0, l', rfl, _⟩ := h x hx; rfl
    simp only [hne, isTitleWord_cap (h x hx), Bool.not_false, Bool.true_or, Bool.and_self]
  simp only [detectStyle, isEmpty_of_any f6, f1, f2, f3, f4, f5, f6, ht, sb_95_45, sb_95_46, sb_95_32, sb_45_95, sb_45_46, sb_45_32, sb_46_95, sb_46_45, sb_46_32, sb_32_95, sb_32_45, sb_32_46, beq_self_eq_true,
    Bool.false_and, Bool.false_eq_true, ↓reduceIte]

theorem detect_sentence (A : Acr) {r w : Bytes} {ws : List Bytes} (hr : IsCap r) (h : LowerWords (w :: ws)) :
    detectStyle A (joinWith [32] (r :: w :: ws)) = some .sentence := by
  have ha : AlphaWords (r :: w :: ws) := by
    intro x hx
    rcases List.mem_cons.mp hx with rfl | hx
    · exact alpha_cap hr
    · exact alpha_lowerWords h x hx
  obtain ⟨f1, f2, f3, f4, f5, f6⟩ := sep_flags 32 (by decide) (rs := r :: w :: ws) (by simp) ha
    (anyU_of_cap (List.mem_cons_self ..) hr) (anyL_of_cap (List.mem_cons_self ..) hr)
  have hsplit := splitOn_joinWith 32 (r :: w :: ws) (by simp) (alpha_ne_sep (by decide) ha)
  have ht : isTitleCase (joinWith [32] (r :: w :: ws)) = false := by
    rw [isTitleCase, hsplit]
    simp only [List.all_cons, isTitleWord_lower (h w (List.mem_cons_self ..)).2, Bool.false_and, Bool.and_false]
  have hs : isSentenceCase (joinWith [32] (r :: w :: ws)) = true := by
    rw [isSentenceCase, hsplit]
    simp only [isTitleWord_cap hr, Bool.true_and]
    apply all_true_of
    intro x hx
    have hne : x.isEmpty = false := by
      obtain ⟨c, cs, rfl⟩ := List.exists_cons_of_ne_nil (h x hx).1; rfl
    have hall : x.all (fun c => !isUpper c) = true := by
      rw [List.all_eq_true]; intro c hc; rw [lower_not_upper ((h x hx).2 c hc)]; rfl
    simp only [hne, hall, Bool.not_false, Bool.and_self]
  simp only [detectStyle, isEmpty_of_any f6, f1, f2, f3, f4, f5, f6, ht, hs, sb_95_45, sb_95_46, sb_95_32, sb_45_95, sb_45_46, sb_45_32, sb_46_95, sb_46_45, sb_46_32, sb_32_95, sb_32_45, sb_32_46, beq_self_eq_true,
    Bool.false_and, Bool.false_eq_true, ↓reduceIte]

theorem detect_pascal (A : Acr) {rs : List Bytes} (hne : rs ≠ []) (h : ∀ r ∈ rs, IsCap r) :
    detectStyle A (concat rs) = some .pascal := by
  obtain ⟨r, rs', rfl⟩ := List.exists_cons_of_ne_nil hne
  have hr := h r (List.mem_cons_self ..)
  obtain ⟨f1, f2, f3, f4, f5, f6⟩ := concat_flags (alpha_capWords h)
    (anyU_of_cap (List.mem_cons_self ..) hr) (anyL_of_cap (List.mem_cons_self ..) hr)
  have hh : (concat (r :: rs')).head? = r.head? := head?_concat rs' (isCap_ne_nil hr)
  obtain ⟨u, l0, l', rfl, hu, hl⟩ := hr
  simp only [detectStyle, isEmpty_of_any f6, f1, f2, f3, f4, f5, f6, hh, List.head?_cons, hu,
    Bool.false_and, Bool.false_eq_true, ↓reduceIte]

theorem detect_camel (A : Acr) {w r : Bytes} {rs : List Bytes} (hw : LowerWord w) (h : ∀ x ∈ r :: rs, IsCap x) :
    detectStyle A (w ++ concat (r :: rs)) = some .camel := by
  have hr := h r (List.mem_cons_self ..)
  have ha : AlphaWords (w :: r :: rs) := by
    intro x hx
    rcases List.mem_cons.mp hx with rfl | hx
    · exact fun c hc => lower_alpha (hw.2 c hc)
    · exact alpha_capWords h x hx
  obtain ⟨f1, f2, f3, f4, f5, f6⟩ := concat_flags ha
    (anyU_of_cap (List.mem_cons_of_mem _ (List.mem_cons_self ..)) hr)
    (anyL_of_cap (List.mem_cons_of_mem _ (List.mem_cons_self ..)) hr)
  rw [concat_cons w] at f1 f2 f3 f4 f5 f6
  have hh : (w ++ concat (r :: rs)).head? = w.head? := by
    have := head?_concat (r :: rs) hw.1
    rwa [concat_cons w] at this
  obtain ⟨c, cs, rfl⟩ := List.exists_cons_of_ne_nil hw.1
  have hc : isLower c = true := hw.2 c (List.mem_cons_self ..)
  simp only [detectStyle, isEmpty_of_any f6, f1, f2, f3, f4, f5, f6, hh, List.head?_cons, hc,
    lower_not_upper hc, Bool.false_and, Bool.false_eq_true, ↓reduceIte]

/-- a rendered name of at least two words is recognised as the style it was rendered in -/
theorem detect_toStyle (A : Acr) {ws : List Bytes} (h2 : 2 ≤ ws.length) (hw : Words ws) {st : Style}
    (hst : st ∈ V12) : detectStyle A (toStyle A ws st) = some st := by
  have hl := hw.lowerWords
  have hcaps := caps_of_words hw
  have h2c : 2 ≤ (ws.map capitalizeFirst).length := by rw [List.length_map]; exact h2
  rw [toStyle_words A hl]
  cases st <;> simp only []
  · exact detect_snake A h2 hl
  · exact detect_kebab A h2 hl
  · match ws, h2, hw, hl with
    | w :: x :: r, _, hw, hl =>
      exact detect_camel A (hl w (List.mem_cons_self ..)) (caps_of_words hw.tail)
  · exact detect_pascal A (by intro h; rw [h] at h2c; exact absurd h2c (by decide)) hcaps
  · exact detect_screamingSnake A h2 hl
  · exact detect_title A h2c hcaps
  · exact detect_train A h2c hcaps
  · exact detect_screamingTrain A h2 hl
  · exact detect_dot A h2 hl
  · exact absurd hst (by decide)
  · exact absurd hst (by decide)
  · match ws, h2, hw, hl with
    | w :: x :: r, _, hw, hl =>
      exact detect_sentence A (isCap_capitalizeFirst (hw w (List.mem_cons_self ..))) hl.tail
  · exact detect_lowerSentence A h2 hl
  · exact detect_upperSentence A h2 hl

/-- the flat renderings are not recognised as any style with visible word boundaries -/
theorem detect_lowerFlat (A : Acr) {ws : List Bytes} (h : LowerWords ws) :
    detectStyle A (concat ws) = none := by
  by_cases hne : ws = []
  · rw [hne]; rfl
  · obtain ⟨f1, f2, f3, f4, f5, f6⟩ := concat_flags (alpha_lowerWords h) (anyU_lowerWords h)
      (anyL_lowerWords hne h)
    simp only [detectStyle, isEmpty_of_any f6, f1, f2, f3, f4, f5, f6, Bool.false_and, Bool.false_eq_true,
      ↓reduceIte]

theorem detect_upperFlat (A : Acr) {ws : List Bytes} (h : LowerWords ws) :
    detectStyle A (concat (ws.map upper)) = none := by
  by_cases hne : ws = []
  · rw [hne]; rfl
  · obtain ⟨f1, f2, f3, f4, f5, f6⟩ := concat_flags (alpha_upperWords h) (anyU_upperWords hne h)
      (anyL_upperWords h)
    simp only [detectStyle, isEmpty_of_any f5, f1, f2, f3, f4, f5, f6, Bool.false_and, Bool.false_eq_true,
      ↓reduceIte]

end CaseModel
