import RModel.Model.Fs
import RModel.Model.Apply
/-
  Helper lemmas for the rename phase (STEP 3 of `apply_plan`): prefix-substitution algebra,
  the reference semantics `finalPath`, the sorting facts for `sortRens`, the re-basing lemma and
  the tree-level induction.  Property theorems are in `RModel/Props/C02ren.lean`.
-/

namespace RenamePhase
open Fs Apply

-- generic list facts ---------------------------------------------------------------------------

theorem snoc_induction {α : Type _} {P : List α → Prop} (hnil : P [])
    (hsnoc : ∀ l a, P l → P (l ++ [a])) : ∀ l, P l := by
  intro l
  have h : ∀ m : List α, P m.reverse := by
    intro m
    induction m with
    | nil => exact hnil
    | cons a m ih => rw [List.reverse_cons]; exact hsnoc _ _ ih
  have := h l.reverse
  rwa [List.reverse_reverse] at this

theorem eq_dropLast_snoc {α : Type _} (l : List α) (h : l ≠ []) : ∃ a, l = l.dropLast ++ [a] :=
  ⟨l.getLast h, (List.dropLast_concat_getLast h).symm⟩

-- prefixes and `subst` --------------------------------------------------------------------------

theorem pre_iff {a q : Path} : pre a q = true ↔ ∃ s, q = a ++ s := by
  unfold pre
  rw [List.isPrefixOf_iff_prefix]
  constructor
  · rintro ⟨s, hs⟩; exact ⟨s, hs.symm⟩
  · rintro ⟨s, hs⟩; exact ⟨s, hs.symm⟩

theorem pre_append (a s : Path) : pre a (a ++ s) = true := pre_iff.2 ⟨s, rfl⟩

theorem pre_refl (a : Path) : pre a a = true := pre_iff.2 ⟨[], by simp⟩

theorem pre_trans {a b c : Path} (h1 : pre a b = true) (h2 : pre b c = true) : pre a c = true := by
  obtain ⟨s, rfl⟩ := pre_iff.1 h1
  obtain ⟨s', rfl⟩ := pre_iff.1 h2
  exact pre_iff.2 ⟨s ++ s', by simp⟩

theorem pre_length {a q : Path} (h : pre a q = true) : a.length ≤ q.length := by
  obtain ⟨s, rfl⟩ := pre_iff.1 h
  simp

theorem pre_eq_of_length {a q : Path} (h : pre a q = true) (hl : q.length ≤ a.length) : a = q := by
  obtain ⟨s, rfl⟩ := pre_iff.1 h
  have : s.length = 0 := by simp at hl; omega
  have : s = [] := List.eq_nil_of_length_eq_zero this
  simp [this]

/-- a prefix of `p ++ [c]` is either the whole or a prefix of `p` -/
theorem pre_snoc {a p : Path} {c : Bytes} (h : pre a (p ++ [c]) = true) :
    a = p ++ [c] ∨ pre a p = true := by
  by_cases hl : (p ++ [c]).length ≤ a.length
  · exact Or.inl (pre_eq_of_length h hl)
  · right
    obtain ⟨s, hs⟩ := pre_iff.1 h
    have hne : s ≠ [] := by
      intro h0; subst h0; simp at hs; rw [← hs] at hl; exact hl (Nat.le_refl _)
    obtain ⟨x, hx⟩ := eq_dropLast_snoc s hne
    rw [hx, ← List.append_assoc] at hs
    have := List.append_inj' hs (by simp)
    exact pre_iff.2 ⟨_, this.1⟩

theorem pre_take {a q : Path} (h : pre a q = true) : q.take a.length = a := by
  obtain ⟨s, rfl⟩ := pre_iff.1 h
  simp

theorem subst_append (a b s : Path) : subst a b (a ++ s) = b ++ s := by
  unfold subst
  rw [if_pos (pre_append a s)]
  simp

theorem subst_of_not_pre {a b q : Path} (h : pre a q = false) : subst a b q = q := by
  unfold subst
  rw [h]; rfl

theorem subst_self (a q : Path) : subst a a q = q := by
  cases h : pre a q with
  | false => exact subst_of_not_pre h
  | true =>
    obtain ⟨s, rfl⟩ := pre_iff.1 h
    exact subst_append a a s

theorem subst_length {a b q : Path} (h : a.length = b.length) : (subst a b q).length = q.length := by
  cases hp : pre a q with
  | false => rw [subst_of_not_pre hp]
  | true =>
    obtain ⟨s, rfl⟩ := pre_iff.1 hp
    rw [subst_append]; simp [h]

-- reference semantics ----------------------------------------------------------------------------

/-- new last component planned for the node originally at `p`, if any -/
def newName (rs : List Ren) (p : Path) : Option Bytes :=
  (rs.find? (fun r => r.path == p)).bind (fun r => r.newPath.getLast?)

def go (rs : List Ren) : Path → Path → Path
  | _, [] => []
  | pre, c :: rest => (newName rs (pre ++ [c])).getD c :: go rs (pre ++ [c]) rest

/-- final location of the node originally at `q` -/
def finalPath (rs : List Ren) (q : Path) : Path := go rs [] q

def moveAll (rs : List Ren) (t : Tree) : Tree := t.map (fun e => (finalPath rs e.1, e.2))

theorem go_length (rs : List Ren) (p q : Path) : (go rs p q).length = q.length := by
  induction q generalizing p with
  | nil => rfl
  | cons c q ih => simp [go, ih]

theorem finalPath_length (rs : List Ren) (q : Path) : (finalPath rs q).length = q.length :=
  go_length rs [] q

theorem go_append (rs : List Ren) (p s s' : Path) :
    go rs p (s ++ s') = go rs p s ++ go rs (p ++ s) s' := by
  induction s generalizing p with
  | nil => simp [go]
  | cons c s ih =>
    simp only [List.cons_append, go, ih]
    simp

theorem finalPath_append (rs : List Ren) (p s : Path) :
    finalPath rs (p ++ s) = finalPath rs p ++ go rs p s := by
  unfold finalPath
  rw [go_append]; simp

theorem finalPath_snoc (rs : List Ren) (p : Path) (c : Bytes) :
    finalPath rs (p ++ [c]) = finalPath rs p ++ [(newName rs (p ++ [c])).getD c] := by
  rw [finalPath_append]; rfl

theorem finalPath_nil (rs : List Ren) : finalPath rs [] = [] := rfl

theorem finalPath_eq_nil {rs : List Ren} {p : Path} : finalPath rs p = [] ↔ p = [] := by
  constructor
  · intro h
    have := finalPath_length rs p
    rw [h] at this
    exact List.eq_nil_of_length_eq_zero this.symm
  · intro h; subst h; rfl

/-- `go` only depends on the names of the extensions of `p` inside `p ++ s` -/
theorem go_congr (rs rs' : List Ren) (p s : Path)
    (h : ∀ s1 s2, s = s1 ++ s2 → s1 ≠ [] → newName rs (p ++ s1) = newName rs' (p ++ s1)) :
    go rs p s = go rs' p s := by
  induction s generalizing p with
  | nil => rfl
  | cons c s ih =>
    simp only [go]
    rw [h [c] s rfl (by simp)]
    rw [ih (p ++ [c])]
    intro s1 s2 hs hne
    have := h (c :: s1) s2 (by simp [hs]) (by simp)
    simpa using this

theorem go_eq_self (rs : List Ren) (p s : Path)
    (h : ∀ s1 s2, s = s1 ++ s2 → s1 ≠ [] → newName rs (p ++ s1) = none) :
    go rs p s = s := by
  induction s generalizing p with
  | nil => rfl
  | cons c s ih =>
    simp only [go]
    rw [h [c] s rfl (by simp)]
    rw [ih (p ++ [c])]
    · rfl
    · intro s1 s2 hs hne
      have := h (c :: s1) s2 (by simp [hs]) (by simp)
      simpa using this

theorem finalPath_congr (rs rs' : List Ren) (q : Path)
    (h : ∀ u, pre u q = true → newName rs u = newName rs' u) : finalPath rs q = finalPath rs' q := by
  unfold finalPath
  apply go_congr
  intro s1 s2 hs _
  simp only [List.nil_append]
  exact h s1 (pre_iff.2 ⟨s2, hs⟩)

-- `newName` ---------------------------------------------------------------------------------------

def Distinct (rs : List Ren) : Prop := rs.Pairwise (fun x y => x.path ≠ y.path)

theorem newName_none {rs : List Ren} {u : Path} (h : ∀ r ∈ rs, r.path ≠ u) : newName rs u = none := by
  unfold newName
  have : rs.find? (fun r => r.path == u) = none := by
    rw [List.find?_eq_none]
    intro r hr
    simpa using h r hr
  rw [this]; rfl

theorem newName_some {rs : List Ren} {u : Path} {c : Bytes} (h : newName rs u = some c) :
    ∃ r ∈ rs, r.path = u ∧ r.newPath.getLast? = some c := by
  unfold newName at h
  cases hf : rs.find? (fun r => r.path == u) with
  | none => rw [hf] at h; cases h
  | some r =>
    rw [hf] at h
    refine ⟨r, List.mem_of_find?_eq_some hf, ?_, h⟩
    have := List.find?_some hf
    simpa using this

theorem newName_of_mem {rs : List Ren} (hd : Distinct rs) {r : Ren} (hr : r ∈ rs) :
    newName rs r.path = r.newPath.getLast? := by
  unfold newName
  induction rs with
  | nil => cases hr
  | cons x rs ih =>
    rw [List.find?_cons]
    cases hx : (x.path == r.path) with
    | true =>
      have hxe : x.path = r.path := by simpa using hx
      rcases List.mem_cons.1 hr with h | h
      · subst h; rfl
      · have := (List.pairwise_cons.1 hd).1 r h
        exact absurd hxe this
    | false =>
      have hxe : ¬ x.path = r.path := by simpa using hx
      rcases List.mem_cons.1 hr with h | h
      · subst h; exact absurd rfl hxe
      · exact ih (List.pairwise_cons.1 hd).2 h

-- guards (list-level form used by the lemmas) -------------------------------------------------------

/-- only the last component changes -/
def LastOnly (rs : List Ren) : Prop :=
  ∀ r ∈ rs, r.path ≠ [] ∧ r.newPath ≠ [] ∧ r.newPath.dropLast = r.path.dropLast

/-- two renames with the same destination have the same source -/
def DistinctDests (rs : List Ren) : Prop :=
  ∀ r ∈ rs, ∀ r' ∈ rs, r.newPath = r'.newPath → r.path = r'.path

/-- no planned destination (other than an identity rename) is a prefix of `q` -/
def Fresh (rs : List Ren) (q : Path) : Prop :=
  ∀ r ∈ rs, pre r.newPath q = true → r.newPath = r.path

theorem Fresh.prefix {rs : List Ren} {p q : Path} (h : Fresh rs q) (hp : pre p q = true) : Fresh rs p :=
  fun r hr hpre => h r hr (pre_trans hpre hp)

theorem Fresh.mono {rs rs' : List Ren} {q : Path} (h : Fresh rs q) (hs : ∀ r ∈ rs', r ∈ rs) : Fresh rs' q :=
  fun r hr hpre => h r (hs r hr) hpre

theorem lastOnly_shape {rs : List Ren} (h : LastOnly rs) {r : Ren} (hr : r ∈ rs) :
    ∃ par x c, r.path = par ++ [x] ∧ r.newPath = par ++ [c] := by
  obtain ⟨h1, h2, h3⟩ := h r hr
  obtain ⟨x, hx⟩ := eq_dropLast_snoc r.path h1
  obtain ⟨c, hc⟩ := eq_dropLast_snoc r.newPath h2
  exact ⟨r.path.dropLast, x, c, hx, by rw [← h3]; exact hc⟩

theorem newName_lastOnly {rs : List Ren} (h : LastOnly rs) {p : Path} {a c : Bytes}
    (hn : newName rs (p ++ [a]) = some c) : ∃ r ∈ rs, r.path = p ++ [a] ∧ r.newPath = p ++ [c] := by
  obtain ⟨r, hr, hp, hl⟩ := newName_some hn
  refine ⟨r, hr, hp, ?_⟩
  obtain ⟨par, x, c', h1, h2⟩ := lastOnly_shape h hr
  rw [h1] at hp
  have := List.append_inj' hp (by simp)
  rw [h2, List.getLast?_concat] at hl
  rw [h2, this.1]
  simp at hl
  rw [hl]

/-- the renamed name of a child determines the child (destinations are distinct and fresh) -/
theorem name_inj {rs : List Ren} (hlo : LastOnly rs) (hdd : DistinctDests rs) {p : Path} {a b : Bytes}
    (fa : Fresh rs (p ++ [a])) (fb : Fresh rs (p ++ [b]))
    (h : (newName rs (p ++ [a])).getD a = (newName rs (p ++ [b])).getD b) : a = b := by
  cases ha : newName rs (p ++ [a]) with
  | none =>
    cases hb : newName rs (p ++ [b]) with
    | none => rw [ha, hb] at h; exact h
    | some c2 =>
      rw [ha, hb] at h
      simp only [Option.getD_none, Option.getD_some] at h
      obtain ⟨r, hr, hp, hnp⟩ := newName_lastOnly hlo hb
      have := fa r hr (by rw [hnp, ← h]; exact pre_refl _)
      rw [hnp, hp] at this
      have := List.append_inj' this (by simp)
      have h3 : c2 = b := by simpa using this.2
      rw [h, h3]
  | some c1 =>
    cases hb : newName rs (p ++ [b]) with
    | none =>
      rw [ha, hb] at h
      simp only [Option.getD_none, Option.getD_some] at h
      obtain ⟨r, hr, hp, hnp⟩ := newName_lastOnly hlo ha
      have := fb r hr (by rw [hnp, h]; exact pre_refl _)
      rw [hnp, hp] at this
      have := List.append_inj' this (by simp)
      have h3 : c1 = a := by simpa using this.2
      rw [← h, h3]
    | some c2 =>
      rw [ha, hb] at h
      simp only [Option.getD_some] at h
      obtain ⟨r1, hr1, hp1, hnp1⟩ := newName_lastOnly hlo ha
      obtain ⟨r2, hr2, hp2, hnp2⟩ := newName_lastOnly hlo hb
      have := hdd r1 hr1 r2 hr2 (by rw [hnp1, hnp2, h])
      rw [hp1, hp2] at this
      have := List.append_inj' this (by simp)
      simpa using this.2

theorem go_inj {rs : List Ren} (hlo : LastOnly rs) (hdd : DistinctDests rs) :
    ∀ (u p v : Path), u.length = v.length → Fresh rs (p ++ u) → Fresh rs (p ++ v) →
      go rs p u = go rs p v → u = v := by
  intro u
  induction u with
  | nil =>
    intro p v hl _ _ _
    exact (List.eq_nil_of_length_eq_zero (by simpa using hl.symm)).symm
  | cons a u ih =>
    intro p v hl fu fv h
    cases v with
    | nil => simp at hl
    | cons b v =>
      simp only [go, List.cons.injEq] at h
      have hab : a = b := by
        apply name_inj hlo hdd (p := p) _ _ h.1
        · exact fu.prefix (pre_iff.2 ⟨u, by simp⟩)
        · exact fv.prefix (pre_iff.2 ⟨v, by simp⟩)
      subst hab
      have := ih (p ++ [a]) v (by simpa using hl) (by simpa using fu) (by simpa using fv) h.2
      rw [this]

theorem finalPath_inj {rs : List Ren} (hlo : LastOnly rs) (hdd : DistinctDests rs) {u v : Path}
    (fu : Fresh rs u) (fv : Fresh rs v) (h : finalPath rs u = finalPath rs v) : u = v := by
  have hl : u.length = v.length := by
    rw [← finalPath_length rs u, ← finalPath_length rs v, h]
  exact go_inj hlo hdd u [] v hl (by simpa using fu) (by simpa using fv) h

/-- the image of `q` lies below the image of `u` only if `q` lies below `u` -/
theorem pre_of_pre_finalPath {rs : List Ren} (hlo : LastOnly rs) (hdd : DistinctDests rs) {u q : Path}
    (fu : Fresh rs u) (fq : Fresh rs q) (h : pre (finalPath rs u) (finalPath rs q) = true) :
    pre u q = true := by
  have hl : u.length ≤ q.length := by
    have := pre_length h
    rwa [finalPath_length, finalPath_length] at this
  have hq : q = q.take u.length ++ q.drop u.length := (List.take_append_drop _ _).symm
  have h2 : finalPath rs (q.take u.length) = finalPath rs u := by
    have h3 := pre_take h
    rw [hq, finalPath_append, finalPath_length] at h3
    rw [List.take_left' (by rw [finalPath_length]; simp [List.length_take]; omega)] at h3
    exact h3
  have := finalPath_inj hlo hdd (fq.prefix (pre_iff.2 ⟨_, hq⟩)) fu h2
  exact pre_iff.2 ⟨q.drop u.length, by conv => lhs; rw [hq, this]⟩

-- one more rename ------------------------------------------------------------------------------------

theorem newName_append_ne (done : List Ren) (r : Ren) {u : Path} (h : u ≠ r.path) :
    newName (done ++ [r]) u = newName done u := by
  unfold newName
  rw [List.find?_append]
  have : [r].find? (fun r => r.path == u) = none := by
    rw [List.find?_eq_none]
    intro y hy
    have : y = r := by simpa using hy
    subst this
    simpa using fun e => h e.symm
  rw [this, Option.or_none]

theorem newName_append_self (done : List Ren) (r : Ren) (h : ∀ d ∈ done, d.path ≠ r.path) :
    newName (done ++ [r]) r.path = r.newPath.getLast? := by
  unfold newName
  rw [List.find?_append]
  have : done.find? (fun d => d.path == r.path) = none := by
    rw [List.find?_eq_none]
    intro y hy
    simpa using h y hy
  rw [this]
  simp

theorem length_ne_of_append_ne_nil {p s : Path} (hs : s ≠ []) : p ++ s ≠ p := by
  intro h
  have := congrArg List.length h
  simp at this
  exact hs this

/-- STEP lemma: executing the re-based rename of `r` on the image under `finalPath done`
    yields the image under `finalPath (done ++ [r])`. -/
theorem step (done : List Ren) (r : Ren) (par : Path) (x c : Bytes)
    (hp : r.path = par ++ [x]) (hn : r.newPath = par ++ [c])
    (hnot : ∀ d ∈ done, d.path ≠ r.path)
    (hlo : LastOnly done) (hdd : DistinctDests done)
    (q : Path) (fq : Fresh done q) (fr : Fresh done r.path) :
    subst (finalPath done r.path) (finalPath done par ++ [c]) (finalPath done q)
      = finalPath (done ++ [r]) q := by
  cases hpre : pre r.path q with
  | true =>
    obtain ⟨s, rfl⟩ := pre_iff.1 hpre
    rw [finalPath_append done, subst_append, finalPath_append (done ++ [r]), hp,
      finalPath_snoc (done ++ [r])]
    have h1 : finalPath (done ++ [r]) par = finalPath done par := by
      apply finalPath_congr
      intro u hu
      apply newName_append_ne
      intro he
      have := pre_length hu
      rw [he, hp] at this
      simp at this
      omega
    have h2 : newName (done ++ [r]) (par ++ [x]) = some c := by
      rw [← hp, newName_append_self done r hnot, hn, List.getLast?_concat]
    have h3 : go (done ++ [r]) (par ++ [x]) s = go done (par ++ [x]) s := by
      apply go_congr
      intro s1 s2 _ hne
      apply newName_append_ne
      rw [hp]
      exact length_ne_of_append_ne_nil hne
    rw [h1, h2, h3]
    rfl
  | false =>
    have h1 : pre (finalPath done r.path) (finalPath done q) = false := by
      cases h : pre (finalPath done r.path) (finalPath done q) with
      | false => rfl
      | true =>
        have := pre_of_pre_finalPath hlo hdd fr fq h
        rw [hpre] at this; cases this
    rw [subst_of_not_pre h1]
    symm
    apply finalPath_congr
    intro u hu
    apply newName_append_ne
    intro he
    rw [he, hpre] at hu
    cases hu

-- re-basing -------------------------------------------------------------------------------------------

/-- processing order: no later source is a prefix of (or equal to) an earlier one -/
def Ord (L : List Ren) : Prop := L.Pairwise (fun x y => pre y.path x.path = false)

theorem Ord.distinct {L : List Ren} (h : Ord L) : Distinct L := by
  apply List.Pairwise.imp _ h
  intro a b hab he
  rw [he, pre_refl] at hab
  cases hab

/-- the list `renames_performed` after the renames `done` (as it turns out) -/
def perfOf (L done : List Ren) : List (Path × Path) := done.map (fun d => (d.path, finalPath L d.path))

theorem perfOf_snoc (L done : List Ren) (r : Ren) :
    perfOf L (done ++ [r]) = perfOf L done ++ [(r.path, finalPath L r.path)] := by
  simp [perfOf]

theorem rebase_snoc (perf : List (Path × Path)) (e : Path × Path) (p : Path) :
    rebase (perf ++ [e]) p = if pre e.1 p then e.2 ++ p.drop e.1.length else rebase perf p := by
  simp [rebase, List.foldl_append]

theorem trailingSlash_false (perf : List (Path × Path)) (p : Path) (h : ∀ e ∈ perf, e.1 ≠ p) :
    trailingSlash perf p = false := by
  induction perf using snoc_induction with
  | hnil => rfl
  | hsnoc l e ih =>
    have h1 : trailingSlash (l ++ [e]) p = if pre e.1 p then e.1 == p else trailingSlash l p := by
      simp [trailingSlash, List.foldl_append]
    rw [h1, ih (fun e' he' => h e' (List.mem_append_left _ he'))]
    have : (e.1 == p) = false := by simpa using h e (by simp)
    rw [this]
    simp

/-- RE-BASING lemma: if every source that is a prefix of `p` has already been performed (and the
    performed ones are in a prefix-respecting order, recorded with their final paths), then
    "the last matching prefix wins" computes the final path of `p`. -/
theorem rebase_eq_finalPath (L : List Ren) (done : List Ren) (hord : Ord done) (p : Path)
    (hall : ∀ x ∈ L, pre x.path p = true → x ∈ done) :
    rebase (perfOf L done) p = finalPath L p := by
  induction done using snoc_induction with
  | hnil =>
    symm
    apply go_eq_self
    intro s1 s2 hs _
    apply newName_none
    intro x hx he
    have := hall x hx (by rw [he]; exact pre_iff.2 ⟨s2, by simpa using hs⟩)
    cases this
  | hsnoc l d ih =>
    rw [perfOf_snoc, rebase_snoc]
    have hord' := List.pairwise_append.1 hord
    cases hpre : pre d.path p with
    | true =>
      obtain ⟨s, rfl⟩ := pre_iff.1 hpre
      simp only [if_true, List.drop_left]
      rw [finalPath_append]
      congr 1
      symm
      apply go_eq_self
      intro s1 s2 hs hne
      apply newName_none
      intro x hx he
      have hm := hall x hx (by rw [he, hs]; exact pre_iff.2 ⟨s2, by simp⟩)
      rcases List.mem_append.1 hm with hm | hm
      · have := hord'.2.2 x hm d (by simp)
        rw [he, pre_append] at this
        cases this
      · have : x = d := by simpa using hm
        subst this
        exact length_ne_of_append_ne_nil hne he.symm
    | false =>
      simp only [Bool.false_eq_true, if_false]
      apply ih hord'.1
      intro x hx hp
      rcases List.mem_append.1 (hall x hx hp) with hm | hm
      · exact hm
      · have : x = d := by simpa using hm
        subst this
        rw [hpre] at hp; cases hp

theorem rebase_snoc_path (perf : List (Path × Path)) (par : Path) (y : Bytes)
    (h : ∀ e ∈ perf, e.1 ≠ par ++ [y]) : rebase perf (par ++ [y]) = rebase perf par ++ [y] := by
  induction perf using snoc_induction with
  | hnil => rfl
  | hsnoc l e ih =>
    rw [rebase_snoc, rebase_snoc, ih (fun e' he' => h e' (List.mem_append_left _ he'))]
    cases hpre : pre e.1 par with
    | true =>
      rw [pre_trans hpre (pre_append par [y])]
      simp only [if_true]
      rw [List.drop_append_of_le_length (pre_length hpre)]
      simp
    | false =>
      have : pre e.1 (par ++ [y]) = false := by
        cases h2 : pre e.1 (par ++ [y]) with
        | false => rfl
        | true =>
          rcases pre_snoc h2 with h3 | h3
          · exact absurd h3 (h e (by simp))
          · rw [hpre] at h3; cases h3
      rw [this]
      simp

theorem finalPath_done_eq (L done : List Ren) (hdL : Distinct L) (hdd : Distinct done)
    (hsub : ∀ x ∈ done, x ∈ L) (p : Path) (hall : ∀ x ∈ L, pre x.path p = true → x ∈ done) :
    finalPath done p = finalPath L p := by
  apply finalPath_congr
  intro u hu
  by_cases hex : ∃ x ∈ L, x.path = u
  · obtain ⟨x, hx, rfl⟩ := hex
    rw [newName_of_mem hdL hx, newName_of_mem hdd (hall x hx hu)]
  · rw [newName_none, newName_none]
    · intro r hr he; exact hex ⟨r, hr, he⟩
    · intro r hr he; exact hex ⟨r, hsub r hr, he⟩

/-- every source is fresh (no planned destination is a prefix of a source, identity renames aside) -/
def FreshSrc (L : List Ren) : Prop := ∀ x ∈ L, Fresh L x.path

/-- everything we need to know when `r` is the next rename -/
theorem split_facts (done : List Ren) (r : Ren) (todo : List Ren)
    (hord : Ord (done ++ r :: todo)) (hlo : LastOnly (done ++ r :: todo))
    (hfs : FreshSrc (done ++ r :: todo)) :
    ∃ par x c, r.path = par ++ [x] ∧ r.newPath = par ++ [c] ∧
      (∀ d ∈ done, d.path ≠ r.path) ∧ (∀ d ∈ done, d.path ≠ r.newPath) ∧
      rebase (perfOf (done ++ r :: todo) done) r.path = finalPath done r.path ∧
      rebase (perfOf (done ++ r :: todo) done) r.newPath = finalPath done par ++ [c] ∧
      finalPath done par ++ [c] = finalPath (done ++ r :: todo) r.path ∧
      finalPath done r.path = finalPath done par ++ [x] := by
  have hrL : r ∈ done ++ r :: todo := by simp
  have hsub : ∀ d ∈ done, d ∈ done ++ r :: todo := fun d hd => List.mem_append_left _ hd
  obtain ⟨par, x, c, hp, hn⟩ := lastOnly_shape hlo hrL
  have hord' := List.pairwise_append.1 hord
  have hdL := hord.distinct
  have hdd : Distinct done := (Ord.distinct hord'.1)
  have hnot : ∀ d ∈ done, d.path ≠ r.path := by
    intro d hd he
    have := hord'.2.2 d hd r (by simp)
    rw [he, pre_refl] at this; cases this
  have hnot2 : ∀ d ∈ done, d.path ≠ r.newPath := by
    intro d hd he
    have := hfs d (hsub d hd) r hrL (by rw [he]; exact pre_refl _)
    exact hnot d hd (by rw [he, this])
  have hall : ∀ y ∈ done ++ r :: todo, pre y.path par = true → y ∈ done := by
    intro y hy hpre
    rcases List.mem_append.1 hy with hm | hm
    · exact hm
    · rcases List.mem_cons.1 hm with hm | hm
      · subst hm
        have := pre_length hpre
        rw [hp] at this; simp at this; omega
      · have := (List.pairwise_cons.1 hord'.2.1).1 y hm
        rw [hp, pre_trans hpre (pre_append par [x])] at this
        cases this
  have hreb : rebase (perfOf (done ++ r :: todo) done) par = finalPath (done ++ r :: todo) par :=
    rebase_eq_finalPath _ done hord'.1 par hall
  have hfd : finalPath done par = finalPath (done ++ r :: todo) par :=
    finalPath_done_eq _ done hdL hdd hsub par hall
  have hperf1 : ∀ y, (∀ d ∈ done, d.path ≠ par ++ [y]) →
      ∀ e ∈ perfOf (done ++ r :: todo) done, e.1 ≠ par ++ [y] := by
    intro y hy e he
    simp only [perfOf, List.mem_map] at he
    obtain ⟨d, hd, rfl⟩ := he
    exact hy d hd
  have h5 : finalPath done r.path = finalPath done par ++ [x] := by
    rw [hp, finalPath_snoc, newName_none (by rw [← hp]; exact hnot)]
    rfl
  refine ⟨par, x, c, hp, hn, hnot, hnot2, ?_, ?_, ?_, h5⟩
  · rw [h5, hp, rebase_snoc_path _ _ _ (hperf1 x (by rw [← hp]; exact hnot)), hreb, hfd]
  · rw [hn, rebase_snoc_path _ _ _ (hperf1 c (by rw [← hn]; exact hnot2)), hreb, hfd]
  · rw [hfd]
    conv => rhs; rw [hp, finalPath_snoc, ← hp, newName_of_mem hdL hrL, hn, List.getLast?_concat]
    rfl

-- path level: the sequence of substitutions actually executed ---------------------------------------

def execAux : List (Path × Path) → List Ren → Path → Path
  | _, [], q => q
  | perf, r :: rs, q =>
    execAux (perf ++ [(r.path, rebase perf r.newPath)]) rs
      (subst (rebase perf r.path) (rebase perf r.newPath) q)

/-- what STEP 3 does to an arbitrary original path (errors ignored) -/
def execPath (rs : List Ren) (q : Path) : Path := execAux [] rs q

theorem execAux_eq (todo : List Ren) : ∀ (done : List Ren),
    Ord (done ++ todo) → LastOnly (done ++ todo) → DistinctDests (done ++ todo) →
    FreshSrc (done ++ todo) → ∀ q, Fresh (done ++ todo) q →
    execAux (perfOf (done ++ todo) done) todo (finalPath done q) = finalPath (done ++ todo) q := by
  induction todo with
  | nil => intro done _ _ _ _ q _; simp [execAux]
  | cons r todo ih =>
    intro done hord hlo hdd hfs q fq
    obtain ⟨par, x, c, hp, hn, hnot, _, h1, h2, h3, _⟩ := split_facts done r todo hord hlo hfs
    have hsub : ∀ d ∈ done, d ∈ done ++ r :: todo := fun d hd => List.mem_append_left _ hd
    have hrL : r ∈ done ++ r :: todo := by simp
    simp only [execAux]
    rw [h1, h2]
    rw [step done r par x c hp hn hnot (fun d hd => hlo d (hsub d hd))
      (fun a ha b hb => hdd a (hsub a ha) b (hsub b hb)) q (fq.mono hsub) ((hfs r hrL).mono hsub)]
    rw [h3, ← perfOf_snoc]
    have hL : done ++ r :: todo = (done ++ [r]) ++ todo := by simp
    rw [hL] at hord hlo hdd hfs fq ⊢
    exact ih (done ++ [r]) hord hlo hdd hfs q fq

theorem execPath_eq (L : List Ren) (hord : Ord L) (hlo : LastOnly L) (hdd : DistinctDests L)
    (hfs : FreshSrc L) (q : Path) (fq : Fresh L q) : execPath L q = finalPath L q := by
  have := execAux_eq L [] (by simpa using hord) (by simpa using hlo) (by simpa using hdd)
    (by simpa using hfs) q (by simpa using fq)
  simp only [List.nil_append] at this
  rw [← this]
  have h0 : finalPath [] q = q := by
    apply go_eq_self; intro s1 s2 _ _; rfl
  rw [h0]; rfl

-- sorting facts -----------------------------------------------------------------------------------------

theorem insertBy_perm (le : Ren → Ren → Bool) (x : Ren) (l : List Ren) :
    List.Perm (insertBy le x l) (x :: l) := by
  induction l with
  | nil => exact List.Perm.refl _
  | cons y ys ih =>
    simp only [insertBy]
    split
    · exact List.Perm.refl _
    · exact (ih.cons y).trans (List.Perm.swap x y ys)

theorem sortBy_perm (le : Ren → Ren → Bool) (l : List Ren) : List.Perm (sortBy le l) l := by
  induction l with
  | nil => exact List.Perm.refl _
  | cons x xs ih =>
    simp only [sortBy]
    exact (insertBy_perm le x _).trans (ih.cons x)

theorem insertBy_sorted (le : Ren → Ren → Bool)
    (htot : ∀ a b, le a b = false → le b a = true)
    (htr : ∀ a b c, le a b = true → le b c = true → le a c = true) (x : Ren) (l : List Ren)
    (h : l.Pairwise (fun a b => le a b = true)) :
    (insertBy le x l).Pairwise (fun a b => le a b = true) := by
  induction l with
  | nil => simp [insertBy]
  | cons y ys ih =>
    simp only [insertBy]
    have hc := List.pairwise_cons.1 h
    cases hxy : le x y with
    | true =>
      simp only [if_true]
      refine List.pairwise_cons.2 ⟨?_, h⟩
      intro z hz
      rcases List.mem_cons.1 hz with hz | hz
      · subst hz; exact hxy
      · exact htr _ _ _ hxy (hc.1 z hz)
    | false =>
      simp only [Bool.false_eq_true, if_false]
      refine List.pairwise_cons.2 ⟨?_, ih hc.2⟩
      intro z hz
      have hz' := (insertBy_perm le x ys).mem_iff.1 hz
      rcases List.mem_cons.1 hz' with hz' | hz'
      · subst hz'; exact htot _ _ hxy
      · exact hc.1 z hz'

theorem sortBy_sorted (le : Ren → Ren → Bool)
    (htot : ∀ a b, le a b = false → le b a = true)
    (htr : ∀ a b c, le a b = true → le b c = true → le a c = true) (l : List Ren) :
    (sortBy le l).Pairwise (fun a b => le a b = true) := by
  induction l with
  | nil => simp [sortBy]
  | cons x xs ih => exact insertBy_sorted le htot htr x _ ih

theorem kind_file_iff (r : Ren) : (r.kind == Kind.file) = !(r.kind == Kind.dir) := by
  cases r.kind <;> rfl

/-- `sortRens` only reorders -/
theorem sortRens_perm (rs : List Ren) : List.Perm (sortRens rs) rs := by
  unfold sortRens
  refine ((sortBy_perm _ _).append (sortBy_perm _ _)).trans ?_
  have : rs.filter (fun r => r.kind == Kind.file) = rs.filter (fun r => !(r.kind == Kind.dir)) :=
    List.filter_congr (fun r _ => kind_file_iff r)
  rw [this]
  exact List.filter_append_perm _ rs

theorem mem_sortRens {rs : List Ren} {r : Ren} : r ∈ sortRens rs ↔ r ∈ rs :=
  (sortRens_perm rs).mem_iff

/-- the directory part of the order -/
def dirPart (rs : List Ren) : List Ren :=
  sortBy (fun a b => decide (depth a.path ≤ depth b.path)) (rs.filter (fun r => r.kind == .dir))

/-- the file part of the order -/
def filePart (rs : List Ren) : List Ren :=
  sortBy (fun a b => decide (depth b.path ≤ depth a.path)) (rs.filter (fun r => r.kind == .file))

theorem sortRens_eq (rs : List Ren) : sortRens rs = dirPart rs ++ filePart rs := rfl

theorem mem_dirPart {rs : List Ren} {r : Ren} : r ∈ dirPart rs ↔ r ∈ rs ∧ r.kind = .dir := by
  unfold dirPart
  rw [(sortBy_perm _ _).mem_iff, List.mem_filter]
  simp

theorem mem_filePart {rs : List Ren} {r : Ren} : r ∈ filePart rs ↔ r ∈ rs ∧ r.kind = .file := by
  unfold filePart
  rw [(sortBy_perm _ _).mem_iff, List.mem_filter]
  simp

/-- directories come in non-decreasing depth -/
theorem dirPart_sorted (rs : List Ren) :
    (dirPart rs).Pairwise (fun a b => a.path.length ≤ b.path.length) := by
  have := sortBy_sorted (fun a b => decide (depth a.path ≤ depth b.path))
    (by
      intro a b h
      have h' : decide (depth a.path ≤ depth b.path) = false := h
      have := of_decide_eq_false h'
      exact decide_eq_true (by omega))
    (by
      intro a b c h1 h2
      have h1' : decide (depth a.path ≤ depth b.path) = true := h1
      have h2' : decide (depth b.path ≤ depth c.path) = true := h2
      have := of_decide_eq_true h1'
      have := of_decide_eq_true h2'
      exact decide_eq_true (by omega))
    (rs.filter (fun r => r.kind == .dir))
  exact this.imp (by intro a b h; exact of_decide_eq_true h)

/-- files come in non-increasing depth -/
theorem filePart_sorted (rs : List Ren) :
    (filePart rs).Pairwise (fun a b => b.path.length ≤ a.path.length) := by
  have := sortBy_sorted (fun a b => decide (depth b.path ≤ depth a.path))
    (by
      intro a b h
      have h' : decide (depth b.path ≤ depth a.path) = false := h
      have := of_decide_eq_false h'
      exact decide_eq_true (by omega))
    (by
      intro a b c h1 h2
      have h1' : decide (depth b.path ≤ depth a.path) = true := h1
      have h2' : decide (depth c.path ≤ depth b.path) = true := h2
      have := of_decide_eq_true h1'
      have := of_decide_eq_true h2'
      exact decide_eq_true (by omega))
    (rs.filter (fun r => r.kind == .file))
  exact this.imp (by intro a b h; exact of_decide_eq_true h)

/-- file-kind sources have nothing renamed below them -/
def FileLeaf (rs : List Ren) : Prop :=
  ∀ f ∈ rs, f.kind = .file → ∀ r ∈ rs, pre f.path r.path = true → f.path = r.path

theorem Distinct.perm {l1 l2 : List Ren} (p : List.Perm l1 l2) (h : Distinct l1) : Distinct l2 :=
  (p.pairwise_iff (fun h e => h e.symm)).1 h

/-- the order of STEP 3 respects prefixes: no later source is a prefix of an earlier one -/
theorem sortRens_ord (rs : List Ren) (hd : Distinct rs) (hfl : FileLeaf rs) : Ord (sortRens rs) := by
  have hdS : Distinct (sortRens rs) := Distinct.perm (sortRens_perm rs).symm hd
  rw [sortRens_eq] at hdS ⊢
  have hdS' := List.pairwise_append.1 hdS
  refine List.pairwise_append.2 ⟨?_, ?_, ?_⟩
  · refine (dirPart_sorted rs).imp₂ ?_ hdS'.1
    intro a b hlen hne
    cases h : pre b.path a.path with
    | false => rfl
    | true => exact absurd (pre_eq_of_length h hlen).symm hne
  · refine ((filePart_sorted rs).and hdS'.2.1).imp_of_mem ?_
    intro a b ha hb ⟨_, hne⟩
    cases h : pre b.path a.path with
    | false => rfl
    | true =>
      have := hfl b (mem_filePart.1 hb).1 (mem_filePart.1 hb).2 a (mem_filePart.1 ha).1 h
      exact absurd this.symm hne
  · intro a ha b hb
    cases h : pre b.path a.path with
    | false => rfl
    | true =>
      have := hfl b (mem_filePart.1 hb).1 (mem_filePart.1 hb).2 a (mem_dirPart.1 ha).1 h
      exact absurd this.symm (hdS'.2.2 a ha b hb)

-- tree level -------------------------------------------------------------------------------------------

theorem lookup_map_inj (F : Path → Path) (t : Tree) (p : Path)
    (hinj : ∀ e ∈ t, F e.1 = F p → e.1 = p) :
    lookup (t.map (fun e => (F e.1, e.2))) (F p) = lookup t p := by
  unfold lookup
  induction t with
  | nil => rfl
  | cons e t ih =>
    simp only [List.map_cons, List.find?_cons]
    by_cases he : e.1 = p
    · simp [he]
    · have h1 : (e.1 == p) = false := by simpa using he
      have h2 : (F e.1 == F p) = false := by
        simpa using fun h => he (hinj e (by simp) h)
      rw [h1, h2]
      exact ih (fun e' he' => hinj e' (List.mem_cons_of_mem _ he'))

theorem lookup_map_none (F : Path → Path) (t : Tree) (b : Path) (h : ∀ e ∈ t, F e.1 ≠ b) :
    lookup (t.map (fun e => (F e.1, e.2))) b = none := by
  unfold lookup
  have : (t.map (fun e => (F e.1, e.2))).find? (fun e => e.1 == b) = none := by
    rw [List.find?_eq_none]
    intro e he
    simp only [List.mem_map] at he
    obtain ⟨e', he', rfl⟩ := he
    simpa using h e' he'
  rw [this]

theorem lookup_some_of_mem (t : Tree) (p : Path) (h : ∃ e ∈ t, e.1 = p) : ∃ n, lookup t p = some n := by
  unfold lookup
  cases hf : t.find? (fun e => e.1 == p) with
  | some e => exact ⟨e.2, rfl⟩
  | none =>
    rw [List.find?_eq_none] at hf
    obtain ⟨e, he, hp⟩ := h
    have := hf e he
    simp [hp] at this

theorem mem_of_lookup_some {t : Tree} {p : Path} {n : Node} (h : lookup t p = some n) :
    ∃ e ∈ t, e.1 = p := by
  unfold lookup at h
  cases hf : t.find? (fun e => e.1 == p) with
  | none => rw [hf] at h; cases h
  | some e =>
    refine ⟨e, List.mem_of_find?_eq_some hf, ?_⟩
    have := List.find?_some hf
    simpa using this

/-- `rename` onto a free sibling name is the prefix substitution on every key -/
theorem rename_move (T : Tree) (a b : Path) (na : Node) (h1 : lookup T a = some na)
    (h2 : parentOk T b = .ok ()) (h3 : a.length = b.length) (h4 : a ≠ b → lookup T b = none) :
    rename T a b = .ok (T.map (fun e => (subst a b e.1, e.2))) := by
  simp only [rename, h1, h2]
  by_cases hab : a = b
  · subst hab
    simp [subst_self]
  · have hb : (a == b) = false := by simpa using hab
    have hp : pre a b = false := by
      cases h : pre a b with
      | false => rfl
      | true => exact absurd (pre_eq_of_length h (by omega)) hab
    simp [hb, hp, h4 hab]

/-- what the tree has to provide (list-level form) -/
structure TreeOk (t : Tree) (L : List Ren) : Prop where
  fresh : ∀ e ∈ t, Fresh L e.1
  src : ∀ r ∈ L, ∃ e ∈ t, e.1 = r.path
  par : ∀ r ∈ L, r.path.dropLast ≠ [] → ∃ m, lookup t r.path.dropLast = some (.dir m)

theorem TreeOk.freshSrc {t : Tree} {L : List Ren} (h : TreeOk t L) : FreshSrc L := by
  intro r hr
  obtain ⟨e, he, hp⟩ := h.src r hr
  rw [← hp]
  exact h.fresh e he

def mapTree (F : Path → Path) (t : Tree) : Tree := t.map (fun e => (F e.1, e.2))

theorem renameTS_step (t : Tree) (done : List Ren) (r : Ren) (todo : List Ren)
    (hord : Ord (done ++ r :: todo)) (hlo : LastOnly (done ++ r :: todo))
    (hdd : DistinctDests (done ++ r :: todo)) (htree : TreeOk t (done ++ r :: todo)) :
    renameTS (mapTree (finalPath done) t)
        (rebase (perfOf (done ++ r :: todo) done) r.path)
        (trailingSlash (perfOf (done ++ r :: todo) done) r.path)
        (rebase (perfOf (done ++ r :: todo) done) r.newPath)
        (trailingSlash (perfOf (done ++ r :: todo) done) r.newPath)
      = .ok (mapTree (finalPath (done ++ [r])) t) ∧
    rebase (perfOf (done ++ r :: todo) done) r.newPath = finalPath (done ++ r :: todo) r.path := by
  have hfs := htree.freshSrc
  obtain ⟨par, x, c, hp, hn, hnot, hnot2, h1, h2, h3, h5⟩ := split_facts done r todo hord hlo hfs
  have hsub : ∀ d ∈ done, d ∈ done ++ r :: todo := fun d hd => List.mem_append_left _ hd
  have hrL : r ∈ done ++ r :: todo := by simp
  have hlo' : LastOnly done := fun d hd => hlo d (hsub d hd)
  have hdd' : DistinctDests done := fun a ha b hb => hdd a (hsub a ha) b (hsub b hb)
  have hfr : Fresh done r.path := (hfs r hrL).mono hsub
  have hfk : ∀ e ∈ t, Fresh done e.1 := fun e he => (htree.fresh e he).mono hsub
  have hfpar : Fresh done par := hfr.prefix (by rw [hp]; exact pre_append par [x])
  refine ⟨?_, by rw [h2, h3]⟩
  have hs1 : trailingSlash (perfOf (done ++ r :: todo) done) r.path = false := by
    apply trailingSlash_false
    intro e he
    simp only [perfOf, List.mem_map] at he
    obtain ⟨d, hd, rfl⟩ := he
    exact hnot d hd
  have hs2 : trailingSlash (perfOf (done ++ r :: todo) done) r.newPath = false := by
    apply trailingSlash_false
    intro e he
    simp only [perfOf, List.mem_map] at he
    obtain ⟨d, hd, rfl⟩ := he
    exact hnot2 d hd
  rw [hs1, hs2, h1, h2]
  have hren : renameTS (mapTree (finalPath done) t) (finalPath done r.path) false
      (finalPath done par ++ [c]) false
      = rename (mapTree (finalPath done) t) (finalPath done r.path) (finalPath done par ++ [c]) := by
    simp [renameTS]
  rw [hren]
  -- the source is there
  obtain ⟨na, hna⟩ := lookup_some_of_mem t r.path (htree.src r hrL)
  have hl1 : lookup (mapTree (finalPath done) t) (finalPath done r.path) = some na := by
    rw [← hna]
    apply lookup_map_inj
    intro e he heq
    exact finalPath_inj hlo' hdd' (hfk e he) hfr heq
  -- the parent of the destination is a directory
  have hl2 : parentOk (mapTree (finalPath done) t) (finalPath done par ++ [c]) = .ok () := by
    unfold parentOk
    simp only [List.dropLast_concat]
    by_cases hpar : par = []
    · subst hpar; rfl
    · have hne : (finalPath done par).isEmpty = false := by
        cases h : (finalPath done par).isEmpty with
        | false => rfl
        | true =>
          have := finalPath_eq_nil.1 (List.isEmpty_iff.1 h)
          exact absurd this hpar
      have hdl : r.path.dropLast = par := by rw [hp]; simp
      obtain ⟨m, hm⟩ := htree.par r hrL (by rw [hdl]; exact hpar)
      rw [hdl] at hm
      have : lookup (mapTree (finalPath done) t) (finalPath done par) = some (.dir m) := by
        rw [← hm]
        apply lookup_map_inj
        intro e he heq
        exact finalPath_inj hlo' hdd' (hfk e he) hfpar heq
      simp [hne, this]
  -- the destination is free
  have hl4 : finalPath done r.path ≠ finalPath done par ++ [c] →
      lookup (mapTree (finalPath done) t) (finalPath done par ++ [c]) = none := by
    intro hne
    apply lookup_map_none
    intro e he heq
    have hlen : e.1.length = par.length + 1 := by
      have := congrArg List.length heq
      rw [finalPath_length] at this
      simpa [finalPath_length] using this
    have hne0 : e.1 ≠ [] := by intro h0; rw [h0] at hlen; simp at hlen
    obtain ⟨y, hy⟩ := eq_dropLast_snoc e.1 hne0
    rw [hy, finalPath_snoc] at heq
    have hinj := List.append_inj' heq (by simp)
    have hq' : e.1.dropLast = par := by
      apply finalPath_inj hlo' hdd' _ hfpar hinj.1
      exact (hfk e he).prefix (by rw [hy]; simp only [List.dropLast_concat]; exact pre_append _ _)
    rw [hq'] at hinj hy
    cases hnm : newName done (par ++ [y]) with
    | none =>
      rw [hnm] at hinj
      have hyc : y = c := by simpa using hinj.2
      have := htree.fresh e he r hrL (by rw [hn, hy, hyc]; exact pre_refl _)
      apply hne
      rw [hn, hp] at this
      have hcx := (List.append_inj' this (by simp)).2
      rw [h5, hcx]
    | some c' =>
      rw [hnm] at hinj
      have hcc : c' = c := by simpa using hinj.2
      obtain ⟨d, hd, hdp, hdn⟩ := newName_lastOnly hlo' hnm
      have := hdd d (hsub d hd) r hrL (by rw [hdn, hn, hcc])
      exact hnot d hd this
  rw [rename_move _ _ _ na hl1 hl2 (by rw [h5]; simp) hl4]
  congr 1
  simp only [mapTree, List.map_map]
  apply List.map_congr_left
  intro e he
  simp only [Function.comp]
  rw [step done r par x c hp hn hnot hlo' hdd' e.1 (hfk e he) hfr]

theorem renamePhase_aux (t : Tree) (todo : List Ren) : ∀ (done : List Ren),
    Ord (done ++ todo) → LastOnly (done ++ todo) → DistinctDests (done ++ todo) →
    TreeOk t (done ++ todo) →
    renamePhase (mapTree (finalPath done) t) (perfOf (done ++ todo) done) todo =
      { outcome := .ok, tree := mapTree (finalPath (done ++ todo)) t,
        performed := perfOf (done ++ todo) (done ++ todo) } := by
  induction todo with
  | nil => intro done _ _ _ _; simp [renamePhase]
  | cons r todo ih =>
    intro done hord hlo hdd htree
    obtain ⟨hs1, hs2⟩ := renameTS_step t done r todo hord hlo hdd htree
    rw [renamePhase]
    simp only [hs1]
    rw [hs2, ← perfOf_snoc]
    have hL : done ++ r :: todo = (done ++ [r]) ++ todo := by simp
    rw [hL] at hord hlo hdd htree ⊢
    exact ih (done ++ [r]) hord hlo hdd htree

theorem mapTree_nil (t : Tree) : mapTree (finalPath []) t = t := by
  have h0 : ∀ q, finalPath [] q = q := by
    intro q; apply go_eq_self; intro s1 s2 _ _; rfl
  simp [mapTree, h0]

/-- TREE-LEVEL theorem for any prefix-respecting order -/
theorem renamePhase_eq (t : Tree) (L : List Ren) (hord : Ord L) (hlo : LastOnly L)
    (hdd : DistinctDests L) (htree : TreeOk t L) :
    renamePhase t [] L =
      { outcome := .ok, tree := moveAll L t, performed := perfOf L L } := by
  have := renamePhase_aux t L [] (by simpa using hord) (by simpa using hlo) (by simpa using hdd)
    (by simpa using htree)
  rw [mapTree_nil] at this
  simpa [perfOf, mapTree, moveAll] using this

-- user-level guards (decidable) and what they give ------------------------------------------------------

def isDirNode : Option Node → Bool
  | some (.dir _) => true
  | _ => false

theorem isDirNode_iff {o : Option Node} : isDirNode o = true ↔ ∃ m, o = some (.dir m) := by
  constructor
  · intro h
    match o, h with
    | some (.dir m), _ => exact ⟨m, rfl⟩
  · rintro ⟨m, rfl⟩; rfl

def GDistinctSources (rs : List Ren) : Prop := rs.Pairwise (fun a b => a.path ≠ b.path)

def GTreeWF (t : Tree) : Prop :=
  t.Pairwise (fun a b => a.1 ≠ b.1) ∧ (∀ e ∈ t, e.1 ≠ []) ∧
  (∀ e ∈ t, e.1.dropLast ≠ [] → isDirNode (lookup t e.1.dropLast) = true)

def GKindsOk (t : Tree) (rs : List Ren) : Prop :=
  ∀ r ∈ rs, (lookup t r.path).isSome = true ∧ (r.kind = .dir ↔ isDirNode (lookup t r.path) = true)

def GDestFree (t : Tree) (rs : List Ren) : Prop :=
  ∀ r ∈ rs,
    (∀ e ∈ t, e.1 ≠ r.path → e.1.dropLast = r.path.dropLast → e.1.getLast? ≠ r.newPath.getLast?) ∧
    (∀ r' ∈ rs, r'.path ≠ r.path → r'.path.dropLast = r.path.dropLast →
      r'.newPath.getLast? ≠ r.newPath.getLast?)

theorem GDestFree.distinctDests {t : Tree} {rs : List Ren} (hlo : LastOnly rs) (h : GDestFree t rs) :
    DistinctDests rs := by
  intro r hr r' hr' he
  by_cases hpp : r.path = r'.path
  · exact hpp
  · exfalso
    have h1 := (hlo r hr).2.2
    have h2 := (hlo r' hr').2.2
    exact (h r' hr').2 r hr hpp (by rw [← h1, ← h2, he]) (by rw [he])

/-- every non-empty proper prefix of a key is a directory key -/
theorem prefix_closed {t : Tree} (hwf : GTreeWF t) (p : Path) (hp : p ≠ []) :
    ∀ s, s ≠ [] → (∃ e ∈ t, e.1 = p ++ s) → isDirNode (lookup t p) = true := by
  intro s
  induction s using snoc_induction with
  | hnil => intro h; exact absurd rfl h
  | hsnoc s' y ih =>
    intro _ ⟨e, he, hk⟩
    have hdl : e.1.dropLast = p ++ s' := by rw [hk, ← List.append_assoc]; simp
    have hd := hwf.2.2 e he (by rw [hdl]; simp [hp])
    rw [hdl] at hd
    by_cases hs' : s' = []
    · subst hs'; simpa using hd
    · obtain ⟨m, hm⟩ := isDirNode_iff.1 hd
      exact ih hs' (mem_of_lookup_some hm)

theorem key_of_prefix {t : Tree} (hwf : GTreeWF t) {p : Path} (hp : p ≠ []) {e : Path × Node}
    (he : e ∈ t) (hpre : pre p e.1 = true) : ∃ e' ∈ t, e'.1 = p := by
  obtain ⟨s, hs⟩ := pre_iff.1 hpre
  by_cases h0 : s = []
  · subst h0; exact ⟨e, he, by simpa using hs⟩
  · obtain ⟨m, hm⟩ := isDirNode_iff.1 (prefix_closed hwf p hp s h0 ⟨e, he, hs⟩)
    exact mem_of_lookup_some hm

theorem fresh_keys {t : Tree} {rs : List Ren} (hwf : GTreeWF t) (hlo : LastOnly rs)
    (hdf : GDestFree t rs) : ∀ e ∈ t, Fresh rs e.1 := by
  intro e he r hr hpre
  obtain ⟨e', he', hk⟩ := key_of_prefix hwf (hlo r hr).2.1 he hpre
  by_cases heq : e'.1 = r.path
  · rw [← hk, heq]
  · exfalso
    refine (hdf r hr).1 e' he' heq ?_ ?_
    · rw [hk]; exact (hlo r hr).2.2
    · rw [hk]

theorem treeOk_of_guards {t : Tree} {rs : List Ren} (hwf : GTreeWF t) (hlo : LastOnly rs)
    (hk : GKindsOk t rs) (hdf : GDestFree t rs) : TreeOk t rs where
  fresh := fresh_keys hwf hlo hdf
  src := by
    intro r hr
    have := (hk r hr).1
    cases hl : lookup t r.path with
    | none => rw [hl] at this; cases this
    | some n => exact mem_of_lookup_some hl
  par := by
    intro r hr hne
    have := (hk r hr).1
    cases hl : lookup t r.path with
    | none => rw [hl] at this; cases this
    | some n =>
      obtain ⟨e, he, hp⟩ := mem_of_lookup_some hl
      have := hwf.2.2 e he (by rw [hp]; exact hne)
      rw [hp] at this
      exact isDirNode_iff.1 this

theorem fileLeaf_of_guards {t : Tree} {rs : List Ren} (hwf : GTreeWF t) (hlo : LastOnly rs)
    (hk : GKindsOk t rs) : FileLeaf rs := by
  intro f hf hkind r hr hpre
  by_cases heq : f.path = r.path
  · exact heq
  · exfalso
    obtain ⟨s, hs⟩ := pre_iff.1 hpre
    have hs0 : s ≠ [] := by
      intro h0; subst h0; exact heq (by simpa using hs.symm)
    have hsome := (hk r hr).1
    cases hl : lookup t r.path with
    | none => rw [hl] at hsome; cases hsome
    | some n =>
      obtain ⟨e, he, hp⟩ := mem_of_lookup_some hl
      have := prefix_closed hwf f.path (hlo f hf).1 s hs0 ⟨e, he, by rw [hp, hs]⟩
      have := ((hk f hf).2).2 this
      rw [hkind] at this
      cases this

theorem TreeOk.of_mem {t : Tree} {L rs : List Ren} (h : TreeOk t rs) (hm : ∀ r, r ∈ L ↔ r ∈ rs) :
    TreeOk t L where
  fresh := fun e he => (h.fresh e he).mono (fun r hr => (hm r).1 hr)
  src := fun r hr => h.src r ((hm r).1 hr)
  par := fun r hr => h.par r ((hm r).1 hr)

theorem finalPath_sortRens (rs : List Ren) (hd : Distinct rs) (q : Path) :
    finalPath (sortRens rs) q = finalPath rs q :=
  finalPath_done_eq rs (sortRens rs) hd (Distinct.perm (sortRens_perm rs).symm hd)
    (fun _ hx => mem_sortRens.1 hx) q (fun _ hx _ => mem_sortRens.2 hx)

/-- PATH-LEVEL theorem for the real order -/
theorem execPath_sortRens (rs : List Ren) (hd : Distinct rs) (hfl : FileLeaf rs) (hlo : LastOnly rs)
    (hdd : DistinctDests rs) (hfs : FreshSrc rs) (q : Path) (fq : Fresh rs q) :
    execPath (sortRens rs) q = finalPath rs q := by
  have hm : ∀ r ∈ sortRens rs, r ∈ rs := fun _ h => mem_sortRens.1 h
  rw [← finalPath_sortRens rs hd q]
  apply execPath_eq _ (sortRens_ord rs hd hfl)
  · exact fun r hr => hlo r (hm r hr)
  · exact fun a ha b hb => hdd a (hm a ha) b (hm b hb)
  · exact fun r hr => (hfs r (hm r hr)).mono hm
  · exact fq.mono hm

/-- TREE-LEVEL theorem for the real order, from the user-level guards -/
theorem renamePhase_sortRens (t : Tree) (rs : List Ren) (hlo : LastOnly rs) (h2 : GDistinctSources rs)
    (h3 : GTreeWF t) (h4 : GKindsOk t rs) (h5 : GDestFree t rs) :
    renamePhase t [] (sortRens rs) =
      { outcome := .ok, tree := moveAll rs t,
        performed := (sortRens rs).map (fun r => (r.path, finalPath rs r.path)) } := by
  have hm : ∀ r ∈ sortRens rs, r ∈ rs := fun _ h => mem_sortRens.1 h
  have hdd := h5.distinctDests hlo
  have := renamePhase_eq t (sortRens rs) (sortRens_ord rs h2 (fileLeaf_of_guards h3 hlo h4))
    (fun r hr => hlo r (hm r hr)) (fun a ha b hb => hdd a (hm a ha) b (hm b hb))
    ((treeOk_of_guards h3 hlo h4 h5).of_mem (fun _ => mem_sortRens))
  rw [this]
  simp only [moveAll, perfOf, finalPath_sortRens rs h2]

-- corollaries ---------------------------------------------------------------------------------------------

theorem finalPath_eq_self (rs : List Ren) (q : Path) (h : ∀ r ∈ rs, pre r.path q = false) :
    finalPath rs q = q := by
  apply go_eq_self
  intro s1 s2 hs _
  apply newName_none
  intro r hr he
  have := h r hr
  rw [he, hs] at this
  simp only [List.nil_append] at this
  rw [pre_append] at this
  cases this

theorem moveAll_nodes (rs : List Ren) (t : Tree) : (moveAll rs t).map (·.2) = t.map (·.2) := by
  simp [moveAll, List.map_map, Function.comp_def]

theorem moveAll_keys (rs : List Ren) (t : Tree) :
    (moveAll rs t).map (·.1) = t.map (fun e => finalPath rs e.1) := by
  simp [moveAll, List.map_map, Function.comp_def]

/-- after the phase every original key is found, with its node, at its final path -/
theorem lookup_moveAll {t : Tree} {rs : List Ren} (hlo : LastOnly rs) (h3 : GTreeWF t)
    (h5 : GDestFree t rs) {e : Path × Node} (he : e ∈ t) :
    lookup (moveAll rs t) (finalPath rs e.1) = lookup t e.1 := by
  have hfk := fresh_keys h3 hlo h5
  apply lookup_map_inj
  intro e' he' heq
  exact finalPath_inj hlo (h5.distinctDests hlo) (hfk e' he') (hfk e he) heq

/-- the final path of a planned source: final path of its parent, then the planned new name -/
theorem finalPath_source {rs : List Ren} (hlo : LastOnly rs) (hd : Distinct rs) {r : Ren} (hr : r ∈ rs) :
    ∃ c, r.newPath = r.path.dropLast ++ [c] ∧
      finalPath rs r.path = finalPath rs r.path.dropLast ++ [c] := by
  obtain ⟨par, x, c, hp, hn⟩ := lastOnly_shape hlo hr
  refine ⟨c, by rw [hn, hp]; simp, ?_⟩
  conv => lhs; rw [hp, finalPath_snoc, ← hp, newName_of_mem hd hr, hn, List.getLast?_concat]
  rw [hp]; simp

-- the content phase does not disturb the guards ------------------------------------------------------------

/-- same keys in the same order, same "is a directory" and "exists" answers -/
def SameShape (t t' : Tree) : Prop :=
  t'.map (·.1) = t.map (·.1) ∧
  ∀ q, isDirNode (lookup t' q) = isDirNode (lookup t q) ∧ (lookup t' q).isSome = (lookup t q).isSome

theorem SameShape.refl (t : Tree) : SameShape t t := ⟨rfl, fun _ => ⟨rfl, rfl⟩⟩

theorem SameShape.trans {a b c : Tree} (h1 : SameShape a b) (h2 : SameShape b c) : SameShape a c :=
  ⟨h2.1.trans h1.1, fun q => ⟨(h2.2 q).1.trans (h1.2 q).1, (h2.2 q).2.trans (h1.2 q).2⟩⟩

theorem lookup_map_node (g : Path → Node → Node) (t : Tree) (q : Path) :
    lookup (t.map (fun e => (e.1, g e.1 e.2))) q = (lookup t q).map (g q) := by
  unfold lookup
  induction t with
  | nil => rfl
  | cons e t ih =>
    simp only [List.map_cons, List.find?_cons]
    by_cases he : e.1 = q
    · simp [he]
    · have : (e.1 == q) = false := by simpa using he
      rw [this]; exact ih

def setNode (p : Path) (c : Bytes) (k : Path) (n : Node) : Node :=
  if k == p then (match n with | .file _ m => .file c m | n => n) else n

theorem setContent_eq (t : Tree) (p : Path) (c : Bytes) :
    setContent t p c = t.map (fun e => (e.1, setNode p c e.1 e.2)) := by
  unfold setContent
  apply List.map_congr_left
  intro e _
  unfold setNode
  by_cases h : (e.1 == p) = true
  · rw [if_pos h, if_pos h]; cases e.2 <;> rfl
  · rw [if_neg h, if_neg h]

theorem sameShape_setContent (t : Tree) (p : Path) (c : Bytes) : SameShape t (setContent t p c) := by
  rw [setContent_eq]
  refine ⟨by simp [List.map_map, Function.comp_def], fun q => ?_⟩
  rw [lookup_map_node]
  cases lookup t q with
  | none => exact ⟨rfl, rfl⟩
  | some n =>
    refine ⟨?_, rfl⟩
    simp only [Option.map_some, setNode]
    split
    · cases n <;> rfl
    · rfl

theorem sameShape_contentPhase (hs : List Hunk) (fs : List Path) :
    ∀ t, SameShape t (contentPhase hs t fs).2 := by
  induction fs with
  | nil => intro t; exact SameShape.refl t
  | cons f fs ih =>
    intro t
    simp only [contentPhase]
    split
    · split
      · exact SameShape.refl t
      · split
        · exact (sameShape_setContent t f _).trans (ih _)
        · exact SameShape.refl t
        · exact SameShape.refl t
    · exact SameShape.refl t

theorem forall_keys {t t' : Tree} (h : t'.map (·.1) = t.map (·.1)) {P : Path → Prop}
    (hp : ∀ e ∈ t, P e.1) : ∀ e ∈ t', P e.1 := by
  intro e he
  have : e.1 ∈ t'.map (·.1) := List.mem_map.2 ⟨e, he, rfl⟩
  rw [h] at this
  obtain ⟨e0, he0, hk⟩ := List.mem_map.1 this
  rw [← hk]; exact hp e0 he0

theorem GTreeWF.sameShape {t t' : Tree} (h : GTreeWF t) (hs : SameShape t t') : GTreeWF t' := by
  refine ⟨?_, forall_keys hs.1 (P := fun k => k ≠ []) h.2.1, ?_⟩
  · have h1 : (t.map (·.1)).Pairwise (· ≠ ·) := List.pairwise_map.2 h.1
    rw [← hs.1] at h1
    exact List.pairwise_map.1 h1
  · have := forall_keys hs.1 (P := fun k => k.dropLast ≠ [] → isDirNode (lookup t k.dropLast) = true) h.2.2
    intro e he hne
    rw [(hs.2 _).1]
    exact this e he hne

theorem GKindsOk.sameShape {t t' : Tree} {rs : List Ren} (h : GKindsOk t rs) (hs : SameShape t t') :
    GKindsOk t' rs := by
  intro r hr
  rw [(hs.2 _).1, (hs.2 _).2]
  exact h r hr

theorem GDestFree.sameShape {t t' : Tree} {rs : List Ren} (h : GDestFree t rs) (hs : SameShape t t') :
    GDestFree t' rs := by
  intro r hr
  refine ⟨?_, (h r hr).2⟩
  exact forall_keys hs.1
    (P := fun k => k ≠ r.path → k.dropLast = r.path.dropLast → k.getLast? ≠ r.newPath.getLast?)
    (h r hr).1

-- the pre-flight check of `apply_plan` and STEP 4 ----------------------------------------------------------

theorem preflight_of_fresh {t : Tree} {rs : List Ren} (hf : ∀ e ∈ t, Fresh rs e.1) :
    preflightOk t rs = true := by
  unfold preflightOk
  rw [List.all_eq_true]
  intro r hr
  cases hl : lookup t r.newPath with
  | none => simp
  | some n =>
    obtain ⟨e, he, hk⟩ := mem_of_lookup_some hl
    have := hf e he r hr (by rw [hk]; exact pre_refl _)
    simp [this]

/-- the second half of `GDestFree`: renamed siblings get different new names -/
def SiblingDestsDistinct (rs : List Ren) : Prop :=
  ∀ r ∈ rs, ∀ r' ∈ rs, r'.path ≠ r.path → r'.path.dropLast = r.path.dropLast →
    r'.newPath.getLast? ≠ r.newPath.getLast?

/-- the pre-flight check is exactly the first half of `GDestFree` -/
theorem destFree_of_preflight {t : Tree} {rs : List Ren} (hlo : LastOnly rs)
    (hpf : preflightOk t rs = true) (h2 : SiblingDestsDistinct rs) : GDestFree t rs := by
  intro r hr
  refine ⟨?_, h2 r hr⟩
  intro e he hne hdl hlast
  unfold preflightOk at hpf
  rw [List.all_eq_true] at hpf
  have hr' := hpf r hr
  obtain ⟨h1, h2', h3⟩ := hlo r hr
  have hk : e.1 = r.newPath := by
    have he0 : e.1 ≠ [] := by
      intro h0
      rw [h0, List.getLast?_nil] at hlast
      obtain ⟨c, hc⟩ := eq_dropLast_snoc r.newPath h2'
      rw [hc, List.getLast?_concat] at hlast
      cases hlast
    obtain ⟨a, ha⟩ := eq_dropLast_snoc e.1 he0
    obtain ⟨c, hc⟩ := eq_dropLast_snoc r.newPath h2'
    rw [ha, hc, List.getLast?_concat, List.getLast?_concat] at hlast
    rw [ha, hc, hdl, h3, Option.some.inj hlast]
  have hsome : ∃ n, lookup t r.newPath = some n := lookup_some_of_mem t _ ⟨e, he, hk⟩
  obtain ⟨n, hn⟩ := hsome
  have hne' : r.newPath ≠ [] := h2'
  simp only [hn, Option.isNone_some, Bool.or_false, Bool.or_eq_true, List.isEmpty_iff,
    beq_iff_eq] at hr'
  rcases hr' with h0 | h0
  · exact hne' h0
  · exact hne (hk.trans h0)

-- the pre-flight loop as the code runs it (repo commit 01297aa added the shared-destination test) ----------------

/-- a refusal of the pre-flight loop is one of the two documented ones -/
theorem preflight_some {t : Tree} : ∀ (rs seen : List Ren) {o : Outcome},
    preflight t seen rs = some o → o = .sharedDest ∨ o = .destExists := by
  intro rs
  induction rs with
  | nil => intro seen o h; simp [preflight] at h
  | cons r rs ih =>
    intro seen o h
    unfold preflight at h
    split at h
    · exact ih _ h
    · split at h
      · exact Or.inl (Option.some.inj h).symm
      · split at h
        · exact Or.inr (Option.some.inj h).symm
        · exact ih _ h

/-- the loop passes only if no planned destination exists (the check that was there before 01297aa) -/
theorem preflightOk_of_none {t : Tree} : ∀ (rs seen : List Ren),
    preflight t seen rs = none → preflightOk t rs = true := by
  intro rs
  induction rs with
  | nil => intro seen _; rfl
  | cons r rs ih =>
    intro seen h
    unfold preflight at h
    unfold preflightOk
    rw [List.all_cons, Bool.and_eq_true]
    split at h
    · rename_i hs
      refine ⟨?_, ih _ h⟩
      unfold skipRen at hs
      rw [Bool.or_eq_true] at hs
      rcases hs with hs | hs <;> simp [hs]
    · split at h
      · cases h
      · split at h
        · cases h
        · rename_i hl
          refine ⟨?_, ih _ h⟩
          have : (lookup t r.newPath).isNone = true := by
            cases hx : lookup t r.newPath with
            | none => rfl
            | some n => rw [hx] at hl; simp at hl
          simp [this]

/-- the loop passes when no planned destination exists and no two renames share a destination -/
theorem preflight_none_of {t : Tree} : ∀ (rs seen : List Ren),
    preflightOk t rs = true → DistinctDests rs →
    (∀ r ∈ rs, ∀ s ∈ seen, s.newPath = r.newPath → s.path = r.path) →
    preflight t seen rs = none := by
  intro rs
  induction rs with
  | nil => intro seen _ _ _; rfl
  | cons r rs ih =>
    intro seen hok hdd hseen
    unfold preflightOk at hok
    rw [List.all_cons, Bool.and_eq_true] at hok
    have hdd' : DistinctDests rs := fun a ha b hb => hdd a (List.mem_cons_of_mem _ ha) b (List.mem_cons_of_mem _ hb)
    have hseen' : ∀ x ∈ rs, ∀ s ∈ seen, s.newPath = x.newPath → s.path = x.path :=
      fun x hx => hseen x (List.mem_cons_of_mem _ hx)
    unfold preflight
    split
    · exact ih _ hok.2 hdd' hseen'
    · rename_i hs
      have hshare : sharesDest seen r = false := by
        unfold sharesDest
        cases ExecFlags.sharedDestRefused
        · rfl
        · rw [Bool.true_and, List.any_eq_false]
          intro s hsm
          simp only [Bool.and_eq_true, beq_iff_eq, bne_iff_ne, ne_eq, not_and, Decidable.not_not]
          exact fun he => hseen r (List.mem_cons_self) s hsm he
      rw [hshare]
      simp only [Bool.false_eq_true, if_false]
      have hnone : (lookup t r.newPath).isSome = false := by
        have h1 := hok.1
        unfold skipRen at hs
        cases hx : lookup t r.newPath with
        | none => rfl
        | some n =>
          rw [hx] at h1
          simp only [Option.isNone_some, Bool.or_false] at h1
          exact absurd h1 hs
      rw [hnone]
      simp only [Bool.false_eq_true, if_false]
      refine ih _ hok.2 hdd' ?_
      intro x hx s hsm he
      rcases List.mem_cons.mp hsm with rfl | hsm
      · exact hdd s List.mem_cons_self x (List.mem_cons_of_mem _ hx) he
      · exact hseen' x hx s hsm he

/-- with the shared-destination test in the code, a plan that passes the loop has no two renames (that the loop
    does not skip) with one destination and different sources -/
theorem distinct_of_preflight_none {t : Tree} (hflag : ExecFlags.sharedDestRefused = true) :
    ∀ (rs seen : List Ren), preflight t seen rs = none →
      (∀ r ∈ rs, skipRen r = false → ∀ s ∈ seen, s.newPath = r.newPath → s.path = r.path) ∧
      rs.Pairwise (fun a b => skipRen a = false → skipRen b = false → a.newPath = b.newPath → a.path = b.path) := by
  intro rs
  induction rs with
  | nil => intro seen _; exact ⟨fun _ h => (by cases h), List.Pairwise.nil⟩
  | cons r rs ih =>
    intro seen h
    unfold preflight at h
    split at h
    · rename_i hs
      obtain ⟨h1, h2⟩ := ih _ h
      refine ⟨?_, List.Pairwise.cons ?_ h2⟩
      · intro x hx hxs
        rcases List.mem_cons.mp hx with rfl | hx
        · rw [hs] at hxs; cases hxs
        · exact h1 x hx hxs
      · intro b _ ha; rw [hs] at ha; cases ha
    · split at h
      · cases h
      · rename_i hs hsh
        split at h
        · cases h
        · obtain ⟨h1, h2⟩ := ih _ h
          have hsh' : ∀ s ∈ seen, s.newPath = r.newPath → s.path = r.path := by
            intro s hsm he
            unfold sharesDest at hsh
            rw [hflag, Bool.true_and] at hsh
            have hf : seen.any (fun s => s.newPath == r.newPath && s.path != r.path) = false := by
              simpa using hsh
            have := List.any_eq_false.mp hf s hsm
            simp only [Bool.and_eq_true, beq_iff_eq, bne_iff_ne, ne_eq, not_and, Decidable.not_not] at this
            exact this he
          refine ⟨?_, List.Pairwise.cons ?_ h2⟩
          · intro x hx hxs s hsm he
            rcases List.mem_cons.mp hx with rfl | hx
            · exact hsh' s hsm he
            · exact h1 x hx hxs s (List.mem_cons_of_mem _ hsm) he
          · intro b hb _ hbs he
            exact h1 b hb hbs r List.mem_cons_self he

theorem pairwise_forall_of_symm {α : Type _} {R : α → α → Prop} (hsym : ∀ a b, R a b → R b a) :
    ∀ {l : List α}, l.Pairwise R → ∀ a ∈ l, ∀ b ∈ l, a ≠ b → R a b := by
  intro l
  induction l with
  | nil => intro _ a ha; cases ha
  | cons x xs ih =>
    intro h a ha b hb hne
    rw [List.pairwise_cons] at h
    rcases List.mem_cons.mp ha with hax | ha'
    · rcases List.mem_cons.mp hb with hbx | hb'
      · exact absurd (hax.trans hbx.symm) hne
      · rw [hax]; exact h.1 b hb'
    · rcases List.mem_cons.mp hb with hbx | hb'
      · rw [hbx]; exact hsym _ _ (h.1 a ha')
      · exact ih h.2 a ha' b hb' hne

/-- the second half of `GDestFree` is what the shared-destination test of the pre-flight loop checks (together with
    the exists test for a destination that is the source of an identity rename) -/
theorem siblingDests_of_preflight_none {t : Tree} {rs : List Ren} (hflag : ExecFlags.sharedDestRefused = true)
    (hlo : LastOnly rs) (hk : GKindsOk t rs) (hp : preflight t [] rs = none) : SiblingDestsDistinct rs := by
  intro r hr r' hr' hne hdl hlast
  obtain ⟨hr1, hr2, hr3⟩ := hlo r hr
  obtain ⟨hr1', hr2', hr3'⟩ := hlo r' hr'
  have heq : r'.newPath = r.newPath := by
    obtain ⟨a, ha⟩ := eq_dropLast_snoc r.newPath hr2
    obtain ⟨c, hc⟩ := eq_dropLast_snoc r'.newPath hr2'
    rw [ha, hc, List.getLast?_concat, List.getLast?_concat] at hlast
    rw [ha, hc, hr3, hr3', hdl, Option.some.inj hlast]
  have hok := preflightOk_of_none _ _ hp
  unfold preflightOk at hok
  rw [List.all_eq_true] at hok
  have hempty : ∀ x : Ren, x.newPath ≠ [] → x.newPath.isEmpty = false := by
    intro x hx; cases hxx : x.newPath with
    | nil => exact absurd hxx hx
    | cons _ _ => rfl
  -- a rename the loop skips is an identity rename
  have hskip : ∀ x : Ren, x.newPath ≠ [] → skipRen x = true → x.newPath = x.path := by
    intro x hx hs
    unfold skipRen at hs
    rw [hempty x hx, Bool.false_or] at hs
    exact beq_iff_eq.mp hs
  -- a destination that is an existing source cannot pass the exists test
  have hocc : ∀ x ∈ rs, ∀ y ∈ rs, skipRen x = false → x.newPath = y.path → False := by
    intro x hx y hy hs he
    have h1 := hok x hx
    unfold skipRen at hs
    have hex := (hk y hy).1
    rw [← he] at hex
    cases hl : lookup t x.newPath with
    | none => rw [hl] at hex; cases hex
    | some n =>
      rw [hl] at h1
      simp only [Option.isNone_some, Bool.or_false] at h1
      rw [h1] at hs; cases hs
  cases hs : skipRen r with
  | true =>
    have hid := hskip r hr2 hs
    cases hs' : skipRen r' with
    | true => exact hne ((hskip r' hr2' hs').symm.trans (heq.trans hid))
    | false => exact hocc r' hr' r hr hs' (heq.trans hid)
  | false =>
    cases hs' : skipRen r' with
    | true => exact hocc r hr r' hr' hs (heq.symm.trans (hskip r' hr2' hs'))
    | false =>
      have hpw := (distinct_of_preflight_none hflag rs [] hp).2
      have hrr : r' ≠ r := fun h => hne (by rw [h])
      have := pairwise_forall_of_symm
        (R := fun a b : Ren => skipRen a = false → skipRen b = false → a.newPath = b.newPath → a.path = b.path)
        (fun a b h hb ha he => (h ha hb he.symm).symm) hpw r' hr' r hr hrr hs' hs heq
      exact hne this

/-- with the shared-destination test in the code (01297aa), the pre-flight loop of `apply_plan` is EXACTLY the guard
    `GDestFree` of the composition theorems: it passes iff every destination is free and no two renamed siblings get
    one name -/
theorem destFree_iff_preflight_loop {t : Tree} {rs : List Ren} (hflag : ExecFlags.sharedDestRefused = true)
    (hlo : LastOnly rs) (h3 : GTreeWF t) (hk : GKindsOk t rs) :
    GDestFree t rs ↔ preflight t [] rs = none := by
  constructor
  · intro h5
    exact preflight_none_of rs [] (preflight_of_fresh (fresh_keys h3 hlo h5)) (h5.distinctDests hlo)
      (fun _ _ _ hs => by cases hs)
  · intro hp
    exact destFree_of_preflight hlo (preflightOk_of_none _ _ hp) (siblingDests_of_preflight_none hflag hlo hk hp)

theorem applyPlan_pass {t : Tree} {p : Plan} (h : preflight t [] p.rens = none) :
    applyPlan t p = applyCore t p := by
  unfold applyPlan; rw [h]

/-- the guards of the composition theorems make the pre-flight loop pass -/
theorem preflight_of_guards {t : Tree} {rs : List Ren} (hlo : LastOnly rs) (h3 : GTreeWF t)
    (h5 : GDestFree t rs) : preflight t [] rs = none :=
  preflight_none_of rs [] (preflight_of_fresh (fresh_keys h3 hlo h5)) (h5.distinctDests hlo)
    (fun _ _ _ hs => by cases hs)

/-- STEP 4 looks for every path at its final location: an exact entry of `renames_performed`, else
    the last recorded prefix -/
theorem currentPath_eq_finalPath (L : List Ren) (hord : Ord L) (f : Path) :
    currentPath (perfOf L L) f = finalPath L f := by
  unfold currentPath
  cases hf : (perfOf L L).find? (fun pr => pr.1 == f) with
  | some pr =>
    have hm := List.mem_of_find?_eq_some hf
    have hp := List.find?_some hf
    simp only [perfOf, List.mem_map] at hm
    obtain ⟨d, _, rfl⟩ := hm
    have : d.path = f := by simpa using hp
    simp only [this]
  | none =>
    exact rebase_eq_finalPath L L hord f (fun _ hx _ => hx)

/-- the whole of `applyPlan`: the pre-flight check passes; when the content phase succeeds the rename phase
    succeeds, and only STEP 4 (reading back edited files) can still fail.  On success the tree the content phase
    left is moved by `moveAll`.  (Since repo commit 6667a82 a STEP 4 failure rolls the renames back, so the tree
    is no longer `moveAll …` in that case; before it, it was.) -/
theorem applyPlan_moves (t : Tree) (p : Plan) (hlo : LastOnly p.rens) (h2 : GDistinctSources p.rens)
    (h3 : GTreeWF t) (h4 : GKindsOk t p.rens) (h5 : GDestFree t p.rens)
    (hc : (contentPhase p.hunks t (sortedFiles p.hunks)).1 = .ok) :
    ((applyPlan t p).outcome = .ok ∧
      (applyPlan t p).tree = moveAll p.rens (contentPhase p.hunks t (sortedFiles p.hunks)).2) ∨
    (applyPlan t p).outcome = .backupFailed ∨ (∃ e, (applyPlan t p).outcome = .rollbackFailed e) := by
  have hs := sameShape_contentPhase p.hunks (sortedFiles p.hunks) t
  have hr := renamePhase_sortRens (contentPhase p.hunks t (sortedFiles p.hunks)).2 p.rens hlo h2
    (h3.sameShape hs) (h4.sameShape hs) (h5.sameShape hs)
  rw [applyPlan_pass (preflight_of_guards hlo h3 h5)]
  unfold applyCore
  cases hcp : contentPhase p.hunks t (sortedFiles p.hunks) with
  | mk o t1 =>
    rw [hcp] at hc hr
    simp only at hc hr
    subst hc
    simp only [hr, Bool.not_true, Bool.false_eq_true, if_false]
    unfold backupPhase
    split
    · exact Or.inl ⟨rfl, rfl⟩
    · split
      · split
        · exact Or.inr (Or.inl rfl)
        · exact Or.inr (Or.inr ⟨_, rfl⟩)
      · exact Or.inr (Or.inl rfl)

/-- … and when every edited file can be read back at the place STEP 4 looks for it, `applyPlan` succeeds
    and the tree is exactly `moveAll` of what the content phase left -/
theorem applyPlan_moves_ok (t : Tree) (p : Plan) (hlo : LastOnly p.rens) (h2 : GDistinctSources p.rens)
    (h3 : GTreeWF t) (h4 : GKindsOk t p.rens) (h5 : GDestFree t p.rens)
    (hc : (contentPhase p.hunks t (sortedFiles p.hunks)).1 = .ok)
    (hread : (sortedFiles p.hunks).all (fun f =>
        readable (renamePhase (contentPhase p.hunks t (sortedFiles p.hunks)).2 [] (sortRens p.rens)).tree
          (currentPath (renamePhase (contentPhase p.hunks t (sortedFiles p.hunks)).2 [] (sortRens p.rens)).performed f))
        = true) :
    (applyPlan t p).outcome = .ok ∧
      (applyPlan t p).tree = moveAll p.rens (contentPhase p.hunks t (sortedFiles p.hunks)).2 := by
  have hs := sameShape_contentPhase p.hunks (sortedFiles p.hunks) t
  have hr := renamePhase_sortRens (contentPhase p.hunks t (sortedFiles p.hunks)).2 p.rens hlo h2
    (h3.sameShape hs) (h4.sameShape hs) (h5.sameShape hs)
  rw [applyPlan_pass (preflight_of_guards hlo h3 h5)]
  unfold applyCore
  cases hcp : contentPhase p.hunks t (sortedFiles p.hunks) with
  | mk o t1 =>
    rw [hcp] at hc hr hread
    simp only at hc hr hread
    subst hc
    simp only [hr, Bool.not_true, Bool.false_eq_true, if_false]
    unfold backupPhase
    rw [hr] at hread
    rw [if_pos hread]
    exact ⟨rfl, rfl⟩

/-- a plan whose destination exists is refused before anything is touched (by one of the two pre-flight tests:
    an earlier rename of the plan may share a destination, which is found first) -/
theorem applyPlan_preflight_refusal (t : Tree) (p : Plan) {o : Outcome} (h : preflight t [] p.rens = some o) :
    applyPlan t p = { outcome := o, tree := t } := by
  unfold applyPlan; rw [h]

theorem applyPlan_refused (t : Tree) (p : Plan) (h : preflightOk t p.rens = false) :
    ((applyPlan t p).outcome = .destExists ∨ (applyPlan t p).outcome = .sharedDest) ∧ (applyPlan t p).tree = t := by
  cases hp : preflight t [] p.rens with
  | none => rw [preflightOk_of_none _ _ hp] at h; cases h
  | some o =>
    rw [applyPlan_preflight_refusal t p hp]
    rcases preflight_some _ _ hp with rfl | rfl
    · exact ⟨Or.inr rfl, rfl⟩
    · exact ⟨Or.inl rfl, rfl⟩

theorem currentPath_sortRens (rs : List Ren) (hd : Distinct rs) (hfl : FileLeaf rs) (f : Path) :
    currentPath ((sortRens rs).map (fun r => (r.path, finalPath rs r.path))) f = finalPath rs f := by
  have := currentPath_eq_finalPath (sortRens rs) (sortRens_ord rs hd hfl) f
  simp only [perfOf, finalPath_sortRens rs hd] at this
  exact this

end RenamePhase
