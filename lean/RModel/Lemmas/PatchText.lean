import RModel.Base.Lit
import RModel.Model.Patch
/- helper lemmas about `Patch.lines` and `Patch.rewriteGo` (used by C01 `rewriteHeaders_only_headers`) -/
namespace PatchText
open Patch

theorem lines_cons_ne (c : UInt8) (cs : Bytes) (h : c ≠ 10) :
    lines (c :: cs) = (match lines cs with | [] => [[c]] | l :: ls => (c :: l) :: ls) := by
  rw [lines]; simp only [h, if_false]; cases lines cs <;> rfl

theorem lines_cons_nl (cs : Bytes) : lines (10 :: cs) = [10] :: lines cs := by
  rw [lines]; simp

theorem lines_line_append (s t : Bytes) (hs : (10 : UInt8) ∉ s) :
    lines (s ++ [10] ++ t) = (s ++ [10]) :: lines t := by
  induction s with
  | nil => simp [lines_cons_nl]
  | cons c s ih =>
    have hc : c ≠ 10 := fun h => hs (by simp [h])
    have hs' : (10 : UInt8) ∉ s := fun h => hs (List.mem_cons_of_mem _ h)
    have e : c :: s ++ [10] ++ t = c :: (s ++ [10] ++ t) := by simp
    rw [e, lines_cons_ne _ _ hc, ih hs']
    simp

theorem concat_lines (s : Bytes) : B.concat (lines s) = s := by
  induction s with
  | nil => rfl
  | cons c s ih =>
    by_cases hc : c = 10
    · subst hc; rw [lines_cons_nl]; simp [B.concat] at ih ⊢; exact ih
    · rw [lines_cons_ne _ _ hc]
      cases hl : lines s with
      | nil => rw [hl] at ih; simp [B.concat] at ih ⊢; exact ih
      | cons l ls => rw [hl] at ih; simp [B.concat] at ih ⊢; exact ih

theorem rewriteGo_false (a b : Bytes) (ls : List Bytes) : rewriteGo a b false ls = B.concat ls := by
  induction ls with
  | nil => rfl
  | cons l ls ih => simp [rewriteGo, ih, B.concat]

/-- once the text starts with `@@` nothing is rewritten any more -/
theorem rewriteGo_body (a b body : Bytes) (h : sw body b!"@@" = true) :
    rewriteGo a b true (lines body) = body := by
  match body, h with
  | [], h => simp [sw, List.isPrefixOf] at h
  | [_], h => simp [sw, List.isPrefixOf] at h
  | c1 :: c2 :: rest, h =>
    have h12 : c1 = 64 ∧ c2 = 64 := by
      simp [sw, List.isPrefixOf] at h; exact ⟨h.1.symm, h.2.symm⟩
    obtain ⟨h1, h2⟩ := h12
    subst h1; subst h2
    have hcl := concat_lines (64 :: 64 :: rest)
    have hl : ∃ l ls, lines (64 :: 64 :: rest) = (64 :: 64 :: l) :: ls := by
      rw [lines_cons_ne _ _ (by decide), lines_cons_ne _ _ (by decide)]
      cases lines rest with
      | nil => exact ⟨[], [], rfl⟩
      | cons l' ls' => exact ⟨l', ls', rfl⟩
    obtain ⟨l, ls, hl⟩ := hl
    rw [hl] at hcl ⊢
    have hsw : sw (64 :: 64 :: l) b!"@@" = true := by simp [sw, List.isPrefixOf]
    simp only [rewriteGo, hsw, if_true, Bool.not_false, rewriteGo_false]
    exact hcl

/-- one line of text: no `\n` except the last byte -/
def IsLine (l : Bytes) : Prop := ∃ s, l = s ++ [10] ∧ (10 : UInt8) ∉ s

/-- the header loop on `l1 ++ l2 ++ body`: two rewritten lines, then `body` untouched -/
theorem rewriteGo_shape (l1 l2 body a b : Bytes) (h1 : IsLine l1) (h2 : IsLine l2)
    (p1 : sw l1 b!"--- " = true) (p2 : sw l2 b!"+++ " = true) (p3 : sw body b!"@@" = true) :
    rewriteGo a b true (splitPreservingNewlines (l1 ++ l2 ++ body))
      = b!"--- " ++ a ++ eol l1 ++ (b!"+++ " ++ b ++ eol l2 ++ body) := by
  obtain ⟨s1, rfl, hs1⟩ := h1
  obtain ⟨s2, rfl, hs2⟩ := h2
  unfold splitPreservingNewlines
  have e : s1 ++ [10] ++ (s2 ++ [10]) ++ body = s1 ++ [10] ++ (s2 ++ [10] ++ body) := by simp
  rw [e, lines_line_append s1 _ hs1, lines_line_append s2 _ hs2]
  have n1 : sw (s1 ++ [10]) b!"@@" = false := by
    match s1, p1 with
    | c :: _, p1 =>
      have : c = 45 := by simp [sw, List.isPrefixOf] at p1; exact p1.1.symm
      subst this; simp [sw, List.isPrefixOf]
  have n2 : sw (s2 ++ [10]) b!"@@" = false := by
    match s2, p2 with
    | c :: _, p2 =>
      have : c = 43 := by simp [sw, List.isPrefixOf] at p2; exact p2.1.symm
      subst this; simp [sw, List.isPrefixOf]
  have n3 : sw (s2 ++ [10]) b!"--- " = false := by
    match s2, p2 with
    | c :: _, p2 =>
      have : c = 43 := by simp [sw, List.isPrefixOf] at p2; exact p2.1.symm
      subst this; simp [sw, List.isPrefixOf]
  simp only [rewriteGo, n1, n2, n3, p1, p2, Bool.false_eq_true, if_false, if_true, Bool.not_true,
    rewriteGo_body a b body p3]


end PatchText
