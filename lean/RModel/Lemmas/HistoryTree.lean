import RModel.Model.History
import RModel.Model.HistorySpec
import RModel.Model.HistoryTree
/- the flat-file tree side has the undo round-trip law that `C10.refines_spec_partial` assumes -/

namespace HistoryTree
open History HistorySpec

theorem get_set_same (t : Tree) (f c0 c : Bytes) (h : get t f = some c0) : get (set t f c) f = some c := by
  induction t with
  | nil => simp [get] at h
  | cons e es ih =>
    by_cases he : e.1 = f
    · simp [set, get, he]
    · have h' : get es f = some c0 := by simpa [get, he] using h
      have := ih h'
      simpa [set, get, he] using this

theorem set_set (t : Tree) (f c0 c : Bytes) (h : get t f = some c0) : set (set t f c) f c0 = t := by
  induction t with
  | nil => simp [get] at h
  | cons e es ih =>
    by_cases he : e.1 = f
    · have : e.2 = c0 := by simpa [get, he] using h
      simp [set, he]
      rw [← this, ← he]
    · have h' : get es f = some c0 := by simpa [get, he] using h
      simp [set, he]
      exact ih h'

theorem set_same (t : Tree) (f c : Bytes) (h : get t f = some c) : set t f c = t := by
  induction t with
  | nil => rfl
  | cons e es ih =>
    by_cases he : e.1 = f
    · have : e.2 = c := by simpa [get, he] using h
      simp [set, he]
      rw [← this, ← he]
    · have h' : get es f = some c := by simpa [get, he] using h
      simp [set, he]
      exact ih h'

theorem revertFiles_append (t : Tree) (ok : Bool) (xs ys : Backup) :
    revertFiles t ok (xs ++ ys) =
      (match revertFiles t ok xs with
       | .ok t1 => revertFiles t1 true ys
       | .failed t1 => revertFiles t1 false ys) := by
  induction xs generalizing t ok with
  | nil => cases ok <;> simp [revertFiles]
  | cons x xs ih =>
    obtain ⟨f, a, b⟩ := x
    simp only [List.cons_append, revertFiles]
    split
    · exact ih _ _
    · exact ih _ _

theorem applyFiles_roundtrip (p : Plan) (fs : List Bytes) :
    ∀ (t : Tree) (b0 : Backup) (wrote : Bool) (t' : Tree) (b : Backup),
      applyFiles p t b0 wrote fs = .ok t' b →
      ∃ bnew, b = b0 ++ bnew ∧ revertFiles t' true bnew.reverse = .ok t ∧ ∀ e ∈ bnew, e.1 ∈ fs := by
  induction fs with
  | nil =>
    intro t b0 wrote t' b h
    simp [applyFiles] at h
    obtain ⟨h1, h2⟩ := h
    subst h1; subst h2
    exact ⟨[], by simp, by simp [revertFiles], by simp⟩
  | cons f fs ih =>
    intro t b0 wrote t' b h
    unfold applyFiles at h
    cases hg : get t f with
    | none => simp [hg] at h; split at h <;> cases h
    | some c =>
      simp only [hg] at h
      cases ha : Edits.applyEdits c (editsFor p f) with
      | error x => simp [ha] at h; split at h <;> cases h
      | ok c' =>
        simp only [ha] at h
        obtain ⟨bnew, hb, hrev, hmem⟩ := ih _ _ _ _ _ h
        by_cases hc : c' = c
        · subst hc
          simp at hb
          rw [set_same t f c' hg] at hrev
          exact ⟨bnew, hb, hrev, fun e he => List.mem_cons_of_mem _ (hmem e he)⟩
        · have hne : (c' == c) = false := by simpa using hc
          simp only [hne] at hb
          refine ⟨(f, c', c) :: bnew, by simp [hb], ?_, ?_⟩
          · rw [List.reverse_cons, revertFiles_append, hrev]
            simp [revertFiles, get_set_same t f c c' hg, set_set t f c c' hg]
          · intro e he
            simp at he
            rcases he with he | he
            · subst he; simp
            · exact List.mem_cons_of_mem _ (hmem e he)

/-- undoing with the reverse patches an apply wrote, on the tree it produced, restores the tree it started from -/
theorem roundTrip : RoundTrip ops := by
  intro t p t' b h
  have h' : applyFiles p t [] false (planFiles p) = .ok t' b := h
  obtain ⟨bnew, hb, hrev, hmem⟩ := applyFiles_roundtrip p (planFiles p) t [] false t' b h'
  simp at hb
  subst hb
  show revertFiles t' true (b.filter (fun e => (planFiles p).contains e.1)).reverse = .ok t
  have : b.filter (fun e => (planFiles p).contains e.1) = b := by
    rw [List.filter_eq_self]
    intro e he
    simpa using hmem e he
  rw [this]
  exact hrev

end HistoryTree
