import RModel.Model.Matcher
import RModel.Model.Hunks
/- line numbers, line starts and `lines_with_terminator` -/
namespace Matcher

def isNl (b : UInt8) : Bool := b.toNat == 10
def nlCount (s : Bytes) : Nat := (s.filter (fun b => b.toNat == 10)).length

theorem lineNo_eq (c : Bytes) (p : Nat) : lineNo c p = nlCount (c.take p) + 1 := rfl

theorem nlCount_append (a b : Bytes) : nlCount (a ++ b) = nlCount a + nlCount b := by
  simp [nlCount, List.filter_append]

theorem trailingRun_le (s : Bytes) : trailingRun s ≤ s.length := by
  unfold trailingRun
  have := (List.takeWhile_sublist (fun b : UInt8 => b.toNat != 10) (l := s.reverse)).length_le
  simpa using this

theorem mem_takeWhile_sat {p : UInt8 → Bool} {l : Bytes} {b : UInt8} (h : b ∈ l.takeWhile p) : p b = true := by
  induction l with
  | nil => simp at h
  | cons x xs ih =>
    simp only [List.takeWhile_cons] at h
    split at h
    · rename_i hx
      rcases List.mem_cons.mp h with rfl | h
      · exact hx
      · exact ih h
    · simp at h

theorem takeWhile_all {p : UInt8 → Bool} (l : Bytes) (h : ∀ b ∈ l, p b = true) : l.takeWhile p = l := by
  induction l with
  | nil => rfl
  | cons x xs ih =>
    simp only [List.takeWhile_cons, h x List.mem_cons_self, if_true]
    rw [ih (fun b hb => h b (List.mem_cons_of_mem _ hb))]

theorem noNl_of_count_zero {y : Bytes} (h : nlCount y = 0) : ∀ b ∈ y, (b.toNat != 10) = true := by
  intro b hb
  unfold nlCount at h
  have := List.length_eq_zero_iff.mp h
  have hnot : b ∉ y.filter (fun b => b.toNat == 10) := by rw [this]; simp
  rw [List.mem_filter] at hnot
  cases hh : (b.toNat == 10) with
  | true => exact absurd ⟨hb, hh⟩ hnot
  | false => simp [bne, hh]

/-- appending newline-free bytes extends the trailing run -/
theorem trailingRun_append_noNl (x y : Bytes) (h : ∀ b ∈ y, (b.toNat != 10) = true) :
    trailingRun (x ++ y) = trailingRun x + y.length := by
  unfold trailingRun
  rw [List.reverse_append, List.takeWhile_append]
  have hall : (y.reverse.takeWhile (fun b => b.toNat != 10)) = y.reverse := by
    apply takeWhile_all
    intro b hb
    exact h b (List.mem_reverse.mp hb)
  rw [hall]
  simp
  omega

/-- positions with the same line number have the same line start -/
theorem lineStart_eq_of_lineNo_eq (c : Bytes) (p q : Nat) (hpq : p ≤ q) (hq : q ≤ c.length)
    (h : lineNo c p = lineNo c q) : lineStart c p = lineStart c q := by
  have hsplit : c.take q = c.take p ++ (c.take q).drop p := by
    have : c.take p = (c.take q).take p := by rw [List.take_take]; congr 1; omega
    rw [this, List.take_append_drop]
  have hcount : nlCount ((c.take q).drop p) = 0 := by
    simp only [lineNo_eq] at h
    have := nlCount_append (c.take p) ((c.take q).drop p)
    rw [← hsplit] at this
    omega
  have hrun := trailingRun_append_noNl (c.take p) ((c.take q).drop p) (noNl_of_count_zero hcount)
  rw [← hsplit] at hrun
  unfold lineStart
  rw [hrun]
  have h1 := trailingRun_le (c.take p)
  simp only [List.length_take, List.length_drop] at *
  omega

theorem lineStart_le (c : Bytes) (p : Nat) (hp : p ≤ c.length) : lineStart c p ≤ p := by
  unfold lineStart
  simp only [List.length_take]
  omega

/-- the bytes of the trailing run are newline-free -/
theorem noNl_tail_run (x : Bytes) : ∀ b ∈ x.drop (x.length - trailingRun x), (b.toNat != 10) = true := by
  intro b hb
  have hk := trailingRun_le x
  have hpre : (x.reverse.takeWhile (fun b => b.toNat != 10)) <+: x.reverse := List.takeWhile_prefix _
  have hpre2 : (x.drop (x.length - trailingRun x)).reverse <+: x.reverse := by
    refine ⟨(x.take (x.length - trailingRun x)).reverse, ?_⟩
    rw [← List.reverse_append, List.take_append_drop]
  have hlen : (x.drop (x.length - trailingRun x)).reverse.length
      = (x.reverse.takeWhile (fun b => b.toNat != 10)).length := by
    simp only [List.length_reverse, List.length_drop]
    unfold trailingRun at hk ⊢
    omega
  have heq : (x.drop (x.length - trailingRun x)).reverse = x.reverse.takeWhile (fun b => b.toNat != 10) := by
    have h1 := List.prefix_of_prefix_length_le hpre2 hpre (by omega)
    exact h1.eq_of_length hlen
  have : b ∈ x.reverse.takeWhile (fun b => b.toNat != 10) := by
    rw [← heq]; simpa using hb
  exact mem_takeWhile_sat this

end Matcher

namespace Hunks
open Matcher

/-- up to and including the first newline -/
def takeLine : Bytes → Bytes
  | [] => []
  | c :: cs => if c.toNat == 10 then [c] else c :: takeLine cs

theorem takeLine_prefix (s : Bytes) : takeLine s <+: s := by
  induction s with
  | nil => exact List.prefix_refl _
  | cons c cs ih =>
    simp only [takeLine]
    split
    · exact ⟨cs, rfl⟩
    · obtain ⟨t, ht⟩ := ih
      exact ⟨t, by simp [ht]⟩

theorem takeLine_pos {s : Bytes} (h : s ≠ []) : 0 < (takeLine s).length := by
  cases s with
  | nil => exact absurd rfl h
  | cons c cs => simp only [takeLine]; split <;> simp

theorem linesWT_eq (s : Bytes) (h : s ≠ []) :
    linesWT s = takeLine s :: linesWT (s.drop (takeLine s).length) := by
  induction s with
  | nil => exact absurd rfl h
  | cons c cs ih =>
    simp only [linesWT, takeLine]
    split
    · simp
    · cases cs with
      | nil => simp [linesWT, takeLine]
      | cons d ds =>
        rw [ih (by simp)]
        simp

/-- newline-free prefix passes through -/
theorem takeLine_append_noNl (a b : Bytes) (h : ∀ x ∈ a, (x.toNat != 10) = true) :
    takeLine (a ++ b) = a ++ takeLine b := by
  induction a with
  | nil => rfl
  | cons x xs ih =>
    have hx := h x List.mem_cons_self
    have hx' : (x.toNat == 10) = false := by simpa [bne] using hx
    simp only [List.cons_append, takeLine, hx', Bool.false_eq_true, if_false]
    rw [ih (fun y hy => h y (List.mem_cons_of_mem _ hy))]

/-- before the end of the first line there is no newline -/
theorem noNl_before_takeLine (s : Bytes) (p : Nat) (hp : p < (takeLine s).length) :
    nlCount (s.take p) = 0 := by
  induction s generalizing p with
  | nil => simp [nlCount]
  | cons c cs ih =>
    cases p with
    | zero => simp [nlCount]
    | succ k =>
      simp only [takeLine] at hp
      split at hp
      · simp at hp
      · rename_i hc
        simp only [List.length_cons] at hp
        have := ih k (by omega)
        simp only [nlCount, List.take_succ_cons, List.filter_cons, hc, Bool.false_eq_true, if_false] at this ⊢
        exact this

/-- the first line ends with a newline unless it is the whole input -/
theorem takeLine_last (s : Bytes) (h : (takeLine s).length < s.length) :
    ∃ t, takeLine s = t ++ [10] ∧ nlCount t = 0 := by
  induction s with
  | nil => simp at h
  | cons c cs ih =>
    simp only [takeLine] at h ⊢
    split
    · rename_i hc
      refine ⟨[], ?_, by simp [nlCount]⟩
      have : c = 10 := by
        have : c.toNat = 10 := by simpa using hc
        exact UInt8.toNat_inj.mp (by simpa using this)
      simp [this]
    · rename_i hc
      rw [if_neg hc] at h
      simp only [List.length_cons] at h
      obtain ⟨t, ht, hn⟩ := ih (by omega)
      refine ⟨c :: t, by simp [ht], ?_⟩
      have hc' : (c.toNat == 10) = false := by simpa using hc
      simpa [nlCount, List.filter_cons, hc'] using hn

/-- a block that ends with a newline cuts the trailing run -/
theorem trailingRun_after_nl (t x : Bytes) : trailingRun (t ++ [10] ++ x) = trailingRun x := by
  unfold trailingRun
  simp only [List.reverse_append, List.reverse_cons, List.reverse_nil, List.nil_append, List.singleton_append]
  rw [List.takeWhile_append]
  split
  · rename_i hall
    have hx : List.takeWhile (fun b : UInt8 => b.toNat != 10) x.reverse = x.reverse := by
      have hsub := List.takeWhile_prefix (fun b : UInt8 => b.toNat != 10) (l := x.reverse)
      obtain ⟨r, hr⟩ := hsub
      have hl := congrArg List.length hr
      simp only [List.length_append] at hl
      have : r = [] := List.length_eq_zero_iff.mp (by omega)
      subst this
      simpa using hr
    rw [hx]
    simp
  · rfl

/-- the line that contains position `p` is the `lineNo`-th element of `lines_with_terminator`, and it
    starts at `lineStart` -/
theorem lineOf_at (n : Nat) : ∀ (s : Bytes) (p : Nat), s.length ≤ n → p < s.length →
    (linesWT s)[nlCount (s.take p)]? = some (takeLine (s.drop (lineStart s p))) := by
  induction n with
  | zero => intro s p hs hp; omega
  | succ n ih =>
    intro s p hs hp
    have hne : s ≠ [] := by intro h; subst h; simp at hp
    rw [linesWT_eq s hne]
    by_cases hlt : p < (takeLine s).length
    · have h0 := noNl_before_takeLine s p hlt
      have hrun := trailingRun_append_noNl [] (s.take p) (noNl_of_count_zero h0)
      simp only [List.nil_append] at hrun
      have hls : lineStart s p = 0 := by
        unfold lineStart
        rw [hrun]
        simp [trailingRun]
      rw [h0, hls]
      try simp
    · have hT : (takeLine s).length < s.length := by omega
      obtain ⟨t, ht, htn⟩ := takeLine_last s hT
      obtain ⟨s', hs'⟩ := takeLine_prefix s
      have hlenT : (takeLine s).length = t.length + 1 := by rw [ht]; simp
      have hs : s = t ++ [10] ++ s' := by
        calc s = takeLine s ++ s' := hs'.symm
          _ = t ++ [10] ++ s' := by rw [ht]
      have hdrop : s.drop (takeLine s).length = s' := by
        rw [hlenT]
        conv => lhs; rw [hs]
        simp
      have htake : s.take p = t ++ [10] ++ s'.take (p - (t.length + 1)) := by
        conv => lhs; rw [hs]
        rw [List.take_append]
        simp only [List.length_append, List.length_cons, List.length_nil]
        rw [List.take_of_length_le (by simp; omega)]
      have hcount : nlCount (s.take p) = nlCount (s'.take (p - (t.length + 1))) + 1 := by
        rw [htake, nlCount_append, nlCount_append, htn]
        simp [nlCount]
        omega
      have hs'len : s'.length + (t.length + 1) = s.length := by
        conv => rhs; rw [hs]
        simp; omega
      have hls : lineStart s p = (t.length + 1) + lineStart s' (p - (t.length + 1)) := by
        unfold lineStart
        rw [htake, trailingRun_after_nl]
        have := trailingRun_le (s'.take (p - (t.length + 1)))
        simp only [List.length_append, List.length_take, List.length_cons, List.length_nil] at *
        omega
      rw [hcount, hdrop, hls]
      simp only [List.getElem?_cons_succ]
      rw [ih s' (p - (t.length + 1)) (by omega) (by omega)]
      congr 2
      conv => rhs; rw [hs]
      rw [← List.drop_drop]
      simp

end Hunks
