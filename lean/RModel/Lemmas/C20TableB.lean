import RModel.Lemmas.C20Base
/- C20: part B of the decision table, kernel-evaluated (`decide +kernel`, no `native_decide`). -/
namespace C20
open Wrap Cli

set_option maxRecDepth 1000000 in
theorem tableB : tableOn ((Gen.Wrappers.builders.drop cutA).take cutB) = true := by decide +kernel

end C20
