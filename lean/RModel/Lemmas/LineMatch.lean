import RModel.Lemmas.LineProfile
/-
  C06 lemmas, part 4: the exact pass on a line `d₁ ++ x ++ d₂` — leftmost-first alternation over the keys ordered by
  escaped length, the boundary test, the immediate identifier context.
-/
open B CaseModel

namespace LinePipeline

/-- delimiter byte: ANY byte that is not an ASCII letter or digit and not `-` or `_` — ASCII punctuation, white space and
    control bytes, and every byte of a non-ASCII character (typographic quotes, CJK brackets, a byte-order mark …) -/
def neutralByte (c : UInt8) : Bool := !isAlnum c && c != 45 && c != 95

def NeutralDelim (d : Bytes) : Prop := ∀ c ∈ d, neutralByte c = true

instance (d : Bytes) : Decidable (NeutralDelim d) := by unfold NeutralDelim; infer_instance

/-- the text after the occurrence starts at a character boundary (always so in a valid UTF-8 line whose occurrence is
    ASCII): its first byte is not a UTF-8 continuation byte -/
def CharStart (d : Bytes) : Prop := ∀ z, d.head? = some z → Edits.isCont z = false

instance (d : Bytes) : Decidable (CharStart d) := by
  unfold CharStart
  cases d with
  | nil => exact isTrue (fun z h => by cases h)
  | cons c d =>
    by_cases h : Edits.isCont c = false
    · exact isTrue (fun z hz => by simp only [List.head?_cons, Option.some.injEq] at hz; rw [← hz]; exact h)
    · exact isFalse (fun hh => h (hh c rfl))

-- ordering of the alternatives ------------------------------------------------------------------------------------------

theorem mem_insertByLen {k x : Bytes} : ∀ {l : List Bytes}, x ∈ insertByLen k l ↔ x = k ∨ x ∈ l
  | [] => by simp [insertByLen]
  | y :: ys => by
    simp only [insertByLen]
    split
    · simp
    · simp only [List.mem_cons, mem_insertByLen (l := ys)]
      constructor
      · rintro (h | h | h)
        · exact Or.inr (Or.inl h)
        · exact Or.inl h
        · exact Or.inr (Or.inr h)
      · rintro (h | h | h)
        · exact Or.inr (Or.inl h)
        · exact Or.inl h
        · exact Or.inr (Or.inr h)

theorem mem_sortKeys {x : Bytes} : ∀ {ks : List Bytes}, x ∈ sortKeys ks ↔ x ∈ ks
  | [] => by simp [sortKeys]
  | k :: ks => by
    have ih := mem_sortKeys (x := x) (ks := ks)
    simp only [sortKeys, List.foldr_cons] at ih ⊢
    rw [mem_insertByLen, ih, List.mem_cons]

def Desc (l : List Bytes) : Prop := l.Pairwise (fun a b => escLen b ≤ escLen a)

theorem desc_insertByLen {k : Bytes} : ∀ {l : List Bytes}, Desc l → Desc (insertByLen k l)
  | [], _ => by simp [insertByLen, Desc]
  | y :: ys, h => by
    simp only [insertByLen]
    have hy := List.pairwise_cons.mp h
    split
    · rename_i hlt
      refine List.pairwise_cons.mpr ⟨?_, h⟩
      intro b hb
      rcases List.mem_cons.mp hb with rfl | hb
      · omega
      · have := hy.1 b hb; omega
    · rename_i hge
      refine List.pairwise_cons.mpr ⟨?_, desc_insertByLen hy.2⟩
      intro b hb
      rcases mem_insertByLen.mp hb with rfl | hb
      · omega
      · exact hy.1 b hb

theorem desc_sortKeys : ∀ (ks : List Bytes), Desc (sortKeys ks)
  | [] => by simp [sortKeys, Desc]
  | k :: ks => by
    have := desc_insertByLen (k := k) (desc_sortKeys ks)
    simpa [sortKeys] using this

theorem find?_desc_max {p : Bytes → Bool} : ∀ {l : List Bytes} {k : Bytes}, Desc l → l.find? p = some k →
    ∀ k' ∈ l, p k' = true → escLen k' ≤ escLen k
  | [], _, _, h => by simp at h
  | a :: l, k, hd, h => by
    have ha := List.pairwise_cons.mp hd
    intro k' hk' hp
    by_cases hpa : p a = true
    · simp only [List.find?_cons, hpa] at h
      cases h
      rcases List.mem_cons.mp hk' with rfl | hk'
      · exact Nat.le_refl _
      · exact ha.1 k' hk'
    · simp only [List.find?_cons, hpa] at h
      rcases List.mem_cons.mp hk' with rfl | hk'
      · exact absurd hp hpa
      · exact find?_desc_max ha.2 h k' hk' hp

/-- what the alternation returns at a position: a key that is a prefix of the rest and has maximal escaped length among
    the keys that are -/
theorem firstAlt_spec {ks : List Bytes} {rest k : Bytes} (h : firstAlt (sortKeys ks) rest = some k) :
    k ∈ ks ∧ k ≠ [] ∧ k <+: rest ∧ ∀ k' ∈ ks, k' ≠ [] → k' <+: rest → escLen k' ≤ escLen k := by
  unfold firstAlt at h
  have hs := List.find?_some h
  have hm := List.mem_of_find?_eq_some h
  simp only [Bool.and_eq_true, Bool.not_eq_true', List.isEmpty_eq_false_iff] at hs
  refine ⟨mem_sortKeys.mp hm, hs.1, List.isPrefixOf_iff_prefix.mp hs.2, ?_⟩
  intro k' hk' hne hp
  refine find?_desc_max (desc_sortKeys ks) h k' (mem_sortKeys.mpr hk') ?_
  simp only [Bool.and_eq_true, Bool.not_eq_true', List.isEmpty_eq_false_iff]
  exact ⟨hne, List.isPrefixOf_iff_prefix.mpr hp⟩

theorem firstAlt_isSome {ks : List Bytes} {rest x : Bytes} (hx : x ∈ ks) (hne : x ≠ []) (hp : x <+: rest) :
    (firstAlt (sortKeys ks) rest).isSome = true := by
  unfold firstAlt
  rw [List.find?_isSome]
  refine ⟨x, mem_sortKeys.mpr hx, ?_⟩
  simp only [Bool.and_eq_true, Bool.not_eq_true', List.isEmpty_eq_false_iff]
  exact ⟨hne, List.isPrefixOf_iff_prefix.mpr hp⟩

theorem firstAlt_none_of_head {alts : List Bytes} {c : UInt8} {rest : Bytes}
    (h : ∀ k ∈ alts, k.head? ≠ some c) : firstAlt alts (c :: rest) = none := by
  unfold firstAlt
  rw [List.find?_eq_none]
  intro k hk
  simp only [Bool.and_eq_true, Bool.not_eq_true', List.isEmpty_eq_false_iff, not_and]
  intro hne hp
  obtain ⟨a, k', rfl⟩ := List.exists_cons_of_ne_nil hne
  have := List.isPrefixOf_iff_prefix.mp hp
  obtain ⟨t, ht⟩ := this
  simp only [List.cons_append, List.cons.injEq] at ht
  exact h _ hk (by rw [ht.1]; rfl)

-- escaped length and prefixes -------------------------------------------------------------------------------------------------

theorem escLen_append (a b : Bytes) : escLen (a ++ b) = escLen a + escLen b := by
  simp only [escLen, List.length_append, List.filter_append]; omega

theorem escLen_pos {b : Bytes} (h : b ≠ []) : 0 < escLen b := by
  obtain ⟨c, cs, rfl⟩ := List.exists_cons_of_ne_nil h
  simp only [escLen, List.length_cons]; omega

-- find_iter on d₁ ++ x ++ d₂ --------------------------------------------------------------------------------------------------

/-- no non-empty alternative starts with a byte of `d` -/
def NoStart (alts : List Bytes) (d : Bytes) : Prop := ∀ c ∈ d, ∀ k ∈ alts, k.head? ≠ some c

theorem findIter_noStart {alts : List Bytes} : ∀ (d rest : Bytes) (pos : Nat), NoStart alts d →
    findIter alts pos 0 (d ++ rest) = findIter alts (pos + d.length) 0 rest
  | [], _, _, _ => by simp
  | c :: d, rest, pos, h => by
    rw [List.cons_append, findIter, firstAlt_none_of_head (h c (List.mem_cons_self ..))]
    simp only []
    rw [findIter_noStart d rest (pos + 1) (fun c' hc' => h c' (List.mem_cons_of_mem _ hc'))]
    simp only [List.length_cons]; congr 1; omega

theorem findIter_skip {alts : List Bytes} : ∀ (s t : Bytes) (pos : Nat),
    findIter alts pos s.length (s ++ t) = findIter alts (pos + s.length) 0 t
  | [], _, _ => by simp
  | c :: s, t, pos => by
    rw [List.cons_append, List.length_cons, findIter, findIter_skip s t (pos + 1)]
    congr 1; omega

theorem findIter_nil_of_noStart {alts : List Bytes} (d : Bytes) (pos : Nat) (h : NoStart alts d) :
    findIter alts pos 0 d = [] := by
  have := findIter_noStart d [] pos h
  rw [List.append_nil] at this
  rw [this]; rfl

/-- the regex pass finds exactly the occurrence -/
theorem findIter_occurrence {ks : List Bytes} {d₁ x d₂ : Bytes}
    (hx : x ∈ ks) (hne : x ≠ []) (h1 : NoStart (sortKeys ks) d₁) (h2 : NoStart (sortKeys ks) d₂)
    (hext : ∀ k ∈ ks, k <+: x ++ d₂ → x.length < k.length → False) :
    findIter (sortKeys ks) 0 0 (d₁ ++ x ++ d₂) = [(d₁.length, x)] := by
  rw [List.append_assoc, findIter_noStart d₁ _ 0 h1]
  obtain ⟨c, x', rfl⟩ := List.exists_cons_of_ne_nil hne
  have hsome := firstAlt_isSome (rest := c :: x' ++ d₂) hx hne (List.prefix_append _ _)
  obtain ⟨k, hk⟩ := Option.isSome_iff_exists.mp hsome
  obtain ⟨hkm, hkne, hkp, hmax⟩ := firstAlt_spec hk
  have hle := hmax _ hx hne (List.prefix_append _ _)
  -- k and x are both prefixes of the rest: one is a prefix of the other
  have hkx : k = c :: x' := by
    rcases Nat.lt_or_ge (c :: x').length k.length with hlt | hge
    · exact (hext k hkm hkp hlt).elim
    · have hpre : k <+: c :: x' := List.prefix_of_prefix_length_le hkp (List.prefix_append _ _) hge
      obtain ⟨t, ht⟩ := hpre
      cases t with
      | nil => simpa using ht
      | cons a t =>
        rw [← ht, escLen_append] at hle
        have := escLen_pos (b := a :: t) (by simp)
        omega
  subst hkx
  rw [List.cons_append, findIter, ← List.cons_append, hk]
  simp only [Nat.zero_add, List.length_cons, Nat.add_sub_cancel]
  rw [findIter_skip x' d₂, findIter_nil_of_noStart d₂ _ h2]

theorem findIter_nil_of_none {alts : List Bytes} : ∀ (s : Bytes) (pos : Nat),
    (∀ i, i < s.length → firstAlt alts (s.drop i) = none) → findIter alts pos 0 s = []
  | [], _, _ => rfl
  | c :: s, pos, h => by
    have h0 := h 0 (by simp)
    simp only [List.drop_zero] at h0
    rw [findIter, h0]
    exact findIter_nil_of_none s (pos + 1) (fun i hi => by
      have := h (i + 1) (by simp only [List.length_cons]; omega)
      simpa using this)

end LinePipeline
