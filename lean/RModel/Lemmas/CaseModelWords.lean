import RModel.Lemmas.CaseModel
/-
  C18 lemmas, part 2: ASCII case conversion on words, the shapes of rendered words, the hump styles
  (tokenizer in the middle of a capitalised word), and `parse ∘ render` for each family of styles, stated on
  the exact token list (`rendWords`).
-/
open B

namespace CaseModel

-- ASCII case conversion --------------------------------------------------------------------------------------

theorem toNat_sub32 {c : UInt8} (h : 32 ≤ c.toNat) : (c - 32).toNat = c.toNat - 32 := by
  rw [UInt8.toNat_sub]
  have h32 : (32 : UInt8).toNat = 32 := rfl
  have := c.toNat_lt
  rw [h32]; omega

theorem toNat_add32 {c : UInt8} (h : c.toNat < 224) : (c + 32).toNat = c.toNat + 32 := by
  rw [UInt8.toNat_add]
  have h32 : (32 : UInt8).toNat = 32 := rfl
  rw [h32]; omega

theorem toUpper_of_lower {c : UInt8} (h : isLower c = true) : isUpper (toUpper c) = true := by
  have h32 : 32 ≤ c.toNat := by cc
  simp only [toUpper, h, ↓reduceIte, isUpper, toNat_sub32 h32]
  cc

theorem toLower_of_upper {c : UInt8} (h : isUpper c = true) : isLower (toLower c) = true := by
  have h32 : c.toNat < 224 := by cc
  simp only [toLower, h, ↓reduceIte, isLower, toNat_add32 h32]
  cc

theorem toLower_id {c : UInt8} (h : isUpper c = false) : toLower c = c := by
  simp only [toLower, h, Bool.false_eq_true, ↓reduceIte]

theorem toUpper_id {c : UInt8} (h : isLower c = false) : toUpper c = c := by
  simp only [toUpper, h, Bool.false_eq_true, ↓reduceIte]

theorem toLower_toUpper_of_lower {c : UInt8} (h : isLower c = true) : toLower (toUpper c) = c := by
  have hu := toUpper_of_lower h
  rw [toLower, if_pos hu, toUpper, if_pos h, UInt8.sub_add_cancel]

theorem toUpper_toUpper_of_lower {c : UInt8} (h : isLower c = true) : toUpper (toUpper c) = toUpper c :=
  toUpper_id (upper_not_lower (toUpper_of_lower h))

theorem lower_id : ∀ {w : Bytes}, (∀ c ∈ w, isUpper c = false) → lower w = w
  | [], _ => rfl
  | c :: w, h => by
    have := lower_id (w := w) (fun x hx => h x (List.mem_cons_of_mem _ hx))
    simp only [lower, List.map_cons] at this ⊢
    rw [toLower_id (h c (List.mem_cons_self ..)), this]

theorem upper_id : ∀ {w : Bytes}, (∀ c ∈ w, isLower c = false) → upper w = w
  | [], _ => rfl
  | c :: w, h => by
    have := upper_id (w := w) (fun x hx => h x (List.mem_cons_of_mem _ hx))
    simp only [upper, List.map_cons] at this ⊢
    rw [toUpper_id (h c (List.mem_cons_self ..)), this]

theorem lower_of_lower {w : Bytes} (h : ∀ c ∈ w, isLower c = true) : lower w = w :=
  lower_id (fun c hc => lower_not_upper (h c hc))

theorem upper_all_upper {w : Bytes} (h : ∀ c ∈ w, isLower c = true) : ∀ c ∈ upper w, isUpper c = true := by
  intro c hc
  simp only [upper, List.mem_map] at hc
  obtain ⟨x, hx, rfl⟩ := hc
  exact toUpper_of_lower (h x hx)

theorem lower_upper_of_lower : ∀ {w : Bytes}, (∀ c ∈ w, isLower c = true) → lower (upper w) = w
  | [], _ => rfl
  | c :: w, h => by
    have := lower_upper_of_lower (w := w) (fun x hx => h x (List.mem_cons_of_mem _ hx))
    simp only [lower, upper, List.map_cons] at this ⊢
    rw [toLower_toUpper_of_lower (h c (List.mem_cons_self ..)), this]

theorem upper_upper_of_lower {w : Bytes} (h : ∀ c ∈ w, isLower c = true) : upper (upper w) = upper w :=
  upper_id (fun c hc => upper_not_lower (upper_all_upper h c hc))

theorem upper_length (w : Bytes) : (upper w).length = w.length := by simp only [upper, List.length_map]
theorem lower_length (w : Bytes) : (lower w).length = w.length := by simp only [lower, List.length_map]

theorem upper_ne_nil {w : Bytes} (h : w ≠ []) : upper w ≠ [] := by
  cases w with
  | nil => exact absurd rfl h
  | cons c w => simp [upper]

-- words and their renderings ------------------------------------------------------------------------------------

/-- non-empty, lower-case ASCII letters only -/
def LowerWord (w : Bytes) : Prop := w ≠ [] ∧ ∀ c ∈ w, isLower c = true
/-- at least two lower-case ASCII letters -/
def Word (w : Bytes) : Prop := 2 ≤ w.length ∧ ∀ c ∈ w, isLower c = true

instance (w : Bytes) : Decidable (LowerWord w) := by unfold LowerWord; infer_instance
instance (w : Bytes) : Decidable (Word w) := by unfold Word; infer_instance

theorem Word.lowerWord {w : Bytes} (h : Word w) : LowerWord w :=
  ⟨by intro h0; rw [h0] at h; exact absurd h.1 (by decide), h.2⟩

theorem capitalizeFirst_lower_cons {c : UInt8} {cs : Bytes} (h : ∀ x ∈ c :: cs, isLower x = true) :
    capitalizeFirst (c :: cs) = toUpper c :: cs := by
  have hc : isLower c = true := h c (List.mem_cons_self ..)
  have hcs : lower cs = cs := lower_of_lower (fun x hx => h x (List.mem_cons_of_mem _ hx))
  simp only [capitalizeFirst, List.all_cons, lower_not_upper hc, Bool.false_and, Bool.false_eq_true, ↓reduceIte,
    hcs]

theorem isCap_capitalizeFirst {w : Bytes} (h : Word w) : IsCap (capitalizeFirst w) := by
  obtain ⟨hl, hw⟩ := h
  match w, hl, hw with
  | c :: l0 :: l', _, hw =>
    rw [capitalizeFirst_lower_cons hw]
    exact ⟨toUpper c, l0, l', rfl, toUpper_of_lower (hw c (List.mem_cons_self ..)),
      fun x hx => hw x (List.mem_cons_of_mem _ hx)⟩

theorem lower_capitalizeFirst {w : Bytes} (h : ∀ c ∈ w, isLower c = true) : lower (capitalizeFirst w) = w := by
  cases w with
  | nil => rfl
  | cons c cs =>
    rw [capitalizeFirst_lower_cons h]
    simp only [lower, List.map_cons]
    rw [toLower_toUpper_of_lower (h c (List.mem_cons_self ..))]
    have := lower_of_lower (w := cs) (fun x hx => h x (List.mem_cons_of_mem _ hx))
    simp only [lower] at this
    rw [this]

theorem upper_capitalizeFirst {w : Bytes} (h : ∀ c ∈ w, isLower c = true) :
    upper (capitalizeFirst w) = upper w := by
  cases w with
  | nil => rfl
  | cons c cs =>
    rw [capitalizeFirst_lower_cons h]
    simp only [upper, List.map_cons]
    rw [toUpper_toUpper_of_lower (h c (List.mem_cons_self ..))]

theorem keepAcr_of_has_lower {A : Acr} {t : Bytes} {x : UInt8} (hx : x ∈ t) (hl : isLower x = true) :
    keepAcr A t = false := by
  simp only [keepAcr, all_false_of_mem hx (lower_not_upper hl), Bool.false_and]

theorem capOrKeep_lower {A : Acr} {w : Bytes} (h : LowerWord w) : capOrKeep A w = capitalizeFirst w := by
  obtain ⟨c, cs, rfl⟩ := List.exists_cons_of_ne_nil h.1
  simp only [capOrKeep, keepAcr_of_has_lower (List.mem_cons_self ..) (h.2 c (List.mem_cons_self ..)),
    Bool.false_eq_true, ↓reduceIte]

/-- re-capitalising a capitalised word changes nothing -/
theorem capitalizeFirst_cap {r : Bytes} (h : IsCap r) : capitalizeFirst r = r := by
  obtain ⟨u, l0, l', rfl, hu, hl⟩ := h
  have h1 : (u :: l0 :: l').all isUpper = false :=
    all_false_of_mem (x := l0) (by simp) (lower_not_upper (hl l0 (List.mem_cons_self ..)))
  simp only [capitalizeFirst, h1, Bool.false_and, Bool.false_eq_true, ↓reduceIte, toUpper_id (upper_not_lower hu),
    lower_of_lower hl]

theorem capOrKeep_cap {A : Acr} {r : Bytes} (h : IsCap r) : capOrKeep A r = r := by
  have hc := capitalizeFirst_cap h
  obtain ⟨u, l0, l', rfl, hu, hl⟩ := h
  simp only [capOrKeep, hc, ite_self]

theorem lower_cap {r : Bytes} (h : IsCap r) : ∀ c ∈ (lower r), isLower c = true := by
  obtain ⟨u, l0, l', rfl, hu, hl⟩ := h
  intro c hc
  simp only [lower, List.map_cons, List.mem_cons] at hc
  rcases hc with rfl | hc
  · exact toLower_of_upper hu
  · have : c ∈ lower (l0 :: l') := by simpa only [lower, List.map_cons, List.mem_cons] using hc
    rw [lower_of_lower hl] at this
    exact hl c this

-- neutrality ------------------------------------------------------------------------------------------------------

/-- N1: on the upper-cased word the trie does not find an acronym that is directly followed by another one -/
def NeutralUpper (A : Acr) (w : Bytes) : Prop :=
  match A.flm (upper w) with
  | some n => n = w.length ∨ A.flm ((upper w).drop n) = none
  | none => True

/-- N2: on the capitalised word the trie does not find a one-letter acronym -/
def NeutralCap (A : Acr) (w : Bytes) : Prop := A.flm (capitalizeFirst w) ≠ some 1

def NeutralWord (A : Acr) (w : Bytes) : Prop := NeutralUpper A w ∧ NeutralCap A w

instance (A : Acr) (w : Bytes) : Decidable (NeutralUpper A w) := by
  unfold NeutralUpper; split <;> infer_instance
instance (A : Acr) (w : Bytes) : Decidable (NeutralCap A w) := by unfold NeutralCap; infer_instance
instance (A : Acr) (w : Bytes) : Decidable (NeutralWord A w) := by unfold NeutralWord; infer_instance

theorem NeutralUpper.noAcrPair {A : Acr} {w : Bytes} (h : NeutralUpper A w) : NoAcrPair A (upper w) := by
  intro n hn
  simp only [NeutralUpper, hn] at h
  rw [upper_length]; exact h

variable {A : Acr}

-- the hump styles: boundaries from lower → upper transitions only ---------------------------------------------

theorem shouldSplit_lower_upper {b p : UInt8} (hp : isLower p = true) (hb : isUpper b = true) (cur tail : Bytes) :
    shouldSplit A p cur b tail = true := by
  simp only [shouldSplit, lower_not_upper hp, hp, hb, Bool.and_false, Bool.false_and, Bool.false_eq_true,
    ↓reduceIte, Bool.and_self]

theorem concat_cons (c : Bytes) (cs : List Bytes) : concat (c :: cs) = c ++ concat cs := rfl
@[simp] theorem concat_nil : concat ([] : List Bytes) = [] := rfl

/-- in the middle of a word (non-empty buffer, previous byte lower-case) a sequence of capitalised words is
    split exactly at the capitals -/
theorem tok_caps : ∀ (cs : List Bytes) (cur : Bytes) (p : UInt8) (acc : List Bytes), cur ≠ [] →
    isLower p = true → (∀ c ∈ cs, IsCap c) → tok A (some p) cur 0 (concat cs) acc = acc ++ cur :: cs
  | [], cur, p, acc, hcur, _, _ => by
    simp only [concat_nil, tok_nil, flush_ne_nil hcur]
  | c :: cs, cur, p, acc, hcur, hp, h => by
    obtain ⟨u, l0, l', rfl, hu, hl⟩ := h c (List.mem_cons_self ..)
    rw [concat_cons, List.cons_append,
      tok_split hcur (upper_not_delim hu) (upper_alnum hu) _ _ (shouldSplit_lower_upper hp hu ..),
      tok_lower_run _ _ (l0 :: l') [u] u (by simp) hl]
    obtain ⟨q, hq, hql⟩ := prevAfter_all isLower (l0 :: l') (some u) (by simp) hl
    rw [hq, tok_caps cs _ q _ (by simp) hql (fun x hx => h x (List.mem_cons_of_mem _ hx))]
    simp only [List.append_assoc, List.cons_append, List.nil_append]

theorem prevAfter_cap {r : Bytes} (h : IsCap r) (prev : Option UInt8) :
    ∃ q, prevAfter prev r = some q ∧ isLower q = true := by
  obtain ⟨u, l0, l', rfl, _, hl⟩ := h
  exact prevAfter_all isLower (l0 :: l') (some u) (by simp) hl

/-- PascalCase: only the first word is looked up in the trie -/
theorem parse_pascal (hA : AcrOk A) (hS : AcrStable A) {c : Bytes} {cs : List Bytes} (hc : IsCap c)
    (hN : A.flm c ≠ some 1) (hcs : ∀ x ∈ cs, IsCap x) : parse A (concat (c :: cs)) = c :: cs := by
  obtain ⟨q, hq, hql⟩ := prevAfter_cap hc none
  rw [parse, concat_cons, tok_cap_start hA hS hc hN, hq, tok_caps cs c q [] (isCap_ne_nil hc) hql hcs]
  rfl

theorem headIs_concat_caps : ∀ {cs : List Bytes}, (∀ x ∈ cs, IsCap x) →
    headIs (fun c => isLower c || isDigit c) (concat cs) = false
  | [], _ => rfl
  | c :: cs, h => by
    obtain ⟨u, l0, l', rfl, hu, _⟩ := h c (List.mem_cons_self ..)
    show (isLower u || isDigit u) = false
    rw [upper_not_lower hu, upper_not_digit hu]; rfl

/-- camelCase: the lower-case first word may be taken by the trie, in which case the second word starts a token
    and is looked up as well -/
theorem parse_camel (hA : AcrOk A) (hS : AcrStable A) {w : Bytes} {cs : List Bytes} (hw : LowerWord w)
    (hcs : ∀ x ∈ cs, IsCap x) (hN : ∀ x ∈ cs, A.flm x ≠ some 1) : parse A (w ++ concat cs) = w :: cs := by
  obtain ⟨q, hq, hql⟩ := prevAfter_all isLower w none hw.1 hw.2
  rw [parse]
  rcases tok_lower_start hA hw.1 hw.2 (headIs_concat_caps hcs) none [] with h | h
  · rw [h, hq, tok_caps cs w q [] hw.1 hql hcs]; rfl
  · rw [h, hq]
    cases cs with
    | nil => rfl
    | cons c cs =>
      have hc := hcs c (List.mem_cons_self ..)
      obtain ⟨q', hq', hql'⟩ := prevAfter_cap hc (some q)
      rw [concat_cons, tok_cap_start hA hS hc (hN c (List.mem_cons_self ..)), hq',
        tok_caps cs c q' _ (isCap_ne_nil hc) hql' (fun x hx => hcs x (List.mem_cons_of_mem _ hx))]
      rfl

end CaseModel
