import RModel.Model.History
import RModel.Model.HistorySpec
/-
  The status invariant behind `C10.refines_spec_partial`: what the implementation's eligibility scans
  (`revert_of == id` exists / no `redo-<id>-…` exists) say about the abstract applied / undone flag.
  With "redo only once" the entries of one operation form a chain  X, redo-X-…, redo-redo-X-…-…, …  in which
  every element but the last has been reverted and redone; the operation is applied iff the last one has no revert.
-/

namespace History
open HistorySpec

section
variable {Tree H : Type} [DecidableEq H]

theorem hasRevertOf_append (es : List (Entry H)) (n : Entry H) (j : EId H) :
    hasRevertOf (es ++ [n]) j = (hasRevertOf es j || (n.revertOf == some j)) := by
  simp [hasRevertOf, List.any_append]

theorem hasRedoOf_append (es : List (Entry H)) (n : Entry H) (j : EId H) :
    hasRedoOf (es ++ [n]) j =
      (hasRedoOf es j || (n.revertOf.isNone && isRedoOf j n.id)) := by
  unfold hasRedoOf
  rw [List.any_append]
  simp only [List.any_cons, List.any_nil, Bool.or_false]

theorem hasId_append_eq (es : List (Entry H)) (n : Entry H) (j : EId H) :
    hasId (es ++ [n]) j = (hasId es j || (n.id == j)) := by
  simp [hasId, List.any_append]

theorem hasId_of_mem (es : List (Entry H)) (e : Entry H) (h : e ∈ es) : hasId es e.id = true := by
  simp [hasId]; exact ⟨e, h, rfl⟩

theorem find_push_ne (s : Spec Tree H) (r x : EId H) (pre post : Tree) (h : x ≠ r) :
    find (push s r pre post) x = find s x := by
  unfold find push
  rw [List.find?_append]
  have : List.find? (fun o => o.root == x) [({ root := r, applied := true, pre := pre, post := post } : Op Tree H)] = none := by
    simp; exact fun hh => h hh.symm
  rw [this]; simp

theorem find_push_eq (s : Spec Tree H) (r : EId H) (pre post : Tree) (hnew : ∀ o ∈ s, o.root ≠ r) (o' : Op Tree H)
    (h : find (push s r pre post) r = some o') : o'.applied = true := by
  unfold find push at h
  rw [List.find?_append] at h
  have : List.find? (fun o => o.root == r) s = none := by
    rw [List.find?_eq_none]; intro x hx; simpa using hnew x hx
  rw [this] at h
  simp at h
  rw [← h]

theorem find_setApplied_inv (s : Spec Tree H) (r x : EId H) (b : Bool) (o' : Op Tree H)
    (h : find (setApplied s r b) x = some o') :
    ∃ o, find s x = some o ∧ o'.applied = (if x = r then b else o.applied) := by
  unfold find setApplied at *
  rw [List.find?_map] at h
  have hc : ((fun (o : Op Tree H) => o.root == x) ∘ fun o => if (o.root == r) = true then { o with applied := b } else o)
      = (fun o => o.root == x) := by
    funext o
    simp only [Function.comp]
    by_cases hr : (o.root == r) = true <;> simp [hr]
  rw [hc] at h
  cases hf : List.find? (fun o => o.root == x) s with
  | none => simp [hf] at h
  | some o =>
    have hroot : o.root = x := by simpa using List.find?_some hf
    simp [hf] at h
    refine ⟨o, rfl, ?_⟩
    rw [← h, hroot]
    by_cases hx : x = r <;> simp [hx]

/-- the status invariant -/
structure Status (es : List (Entry H)) (s : Spec Tree H) : Prop where
  /-- an entry without a revert carries an applied operation -/
  unrevApplied : ∀ e ∈ es, e.revertOf = none → hasRevertOf es e.id = false →
    ∀ o, find s e.id.root = some o → o.applied = true
  /-- an entry that was reverted and not redone since carries an undone operation -/
  revUndone : ∀ e ∈ es, e.revertOf = none → hasRevertOf es e.id = true → hasRedoOf es e.id = false →
    ∀ o, find s e.id.root = some o → o.applied = false
  /-- per operation at most one entry has not been redone (the last of its chain) -/
  oneOpen : ∀ e1 ∈ es, ∀ e2 ∈ es, e1.revertOf = none → e2.revertOf = none → e1.id.root = e2.id.root →
    hasRedoOf es e1.id = false → hasRedoOf es e2.id = false → e1.id = e2.id
  redoRev : ∀ i, hasRedoOf es i = true → hasRevertOf es i = true
  rootPresent : ∀ e ∈ es, e.revertOf = none → hasId es e.id.root = true
  revTarget : ∀ e ∈ es, ∀ j, e.revertOf = some j → hasId es j = true

theorem status_init : Status ([] : List (Entry H)) ([] : Spec Tree H) where
  unrevApplied := by intro e he; simp at he
  revUndone := by intro e he; simp at he
  oneOpen := by intro e he; simp at he
  redoRev := by intro i h; simp [hasRedoOf] at h
  rootPresent := by intro e he; simp at he
  revTarget := by intro e he; simp at he

/-- a reverted id is present; so an absent id has neither a revert nor a redo -/
theorem Status.no_revert_of_absent {es : List (Entry H)} {s : Spec Tree H} (st : Status es s) (i : EId H)
    (h : hasId es i = false) : hasRevertOf es i = false := by
  cases hh : hasRevertOf es i with
  | false => rfl
  | true =>
    simp [hasRevertOf] at hh
    obtain ⟨e, he, hr⟩ := hh
    rw [st.revTarget e he i hr] at h; cases h

theorem Status.no_redo_of_absent {es : List (Entry H)} {s : Spec Tree H} (st : Status es s) (i : EId H)
    (h : hasId es i = false) : hasRedoOf es i = false := by
  cases hh : hasRedoOf es i with
  | false => rfl
  | true =>
    have h1 := st.redoRev i hh
    rw [st.no_revert_of_absent i h] at h1; cases h1

/-- a successful rename appends a plan id that was absent -/
theorem status_rename (es : List (Entry H)) (s : Spec Tree H) (st : Status es s) (h : H) (pre post : Tree)
    (hfresh : hasId es (.plan h) = false) (hnew : ∀ o ∈ s, o.root ≠ .plan h) :
    Status (es ++ [{ id := .plan h, revertOf := none }]) (push s (.plan h) pre post) := by
  have hrv : ∀ j, hasRevertOf (es ++ [({ id := .plan h, revertOf := none } : Entry H)]) j = hasRevertOf es j := by
    intro j; rw [hasRevertOf_append]; simp
  have hrd : ∀ j, hasRedoOf (es ++ [({ id := .plan h, revertOf := none } : Entry H)]) j = hasRedoOf es j := by
    intro j; rw [hasRedoOf_append]; simp [isRedoOf]
  have hroot : ∀ e ∈ es, e.revertOf = none → e.id.root ≠ .plan h := by
    intro e he hn hh
    have := st.rootPresent e he hn
    rw [hh, hfresh] at this; cases this
  constructor
  · intro e he hn hr o ho
    rw [hrv] at hr
    simp only [List.mem_append, List.mem_singleton] at he
    rcases he with he | he
    · rw [find_push_ne s _ _ _ _ (hroot e he hn)] at ho
      exact st.unrevApplied e he hn hr o ho
    · subst he
      exact find_push_eq s _ _ _ hnew o ho
  · intro e he hn hr hd o ho
    rw [hrv] at hr; rw [hrd] at hd
    simp only [List.mem_append, List.mem_singleton] at he
    rcases he with he | he
    · rw [find_push_ne s _ _ _ _ (hroot e he hn)] at ho
      exact st.revUndone e he hn hr hd o ho
    · subst he
      rw [st.no_revert_of_absent _ hfresh] at hr; cases hr
  · intro e1 he1 e2 he2 hn1 hn2 hrt hd1 hd2
    rw [hrd] at hd1 hd2
    simp only [List.mem_append, List.mem_singleton] at he1 he2
    rcases he1 with he1 | he1 <;> rcases he2 with he2 | he2
    · exact st.oneOpen e1 he1 e2 he2 hn1 hn2 hrt hd1 hd2
    · subst he2; exact absurd hrt (hroot e1 he1 hn1)
    · subst he1; exact absurd hrt.symm (hroot e2 he2 hn2)
    · subst he1; subst he2; rfl
  · intro i hi
    rw [hrd] at hi; rw [hrv]; exact st.redoRev i hi
  · intro e he hn
    rw [hasId_append_eq]
    simp only [List.mem_append, List.mem_singleton] at he
    rcases he with he | he
    · simp [st.rootPresent e he hn]
    · subst he; simp [EId.root]
  · intro e he j hj
    rw [hasId_append_eq]
    simp only [List.mem_append, List.mem_singleton] at he
    rcases he with he | he
    · simp [st.revTarget e he j hj]
    · subst he; cases hj

/-- a successful undo of `i` appends `revert i c` -/
theorem status_undo (es : List (Entry H)) (s : Spec Tree H) (st : Status es s) (i : EId H) (c : Nat) (ei : Entry H)
    (hei : ei ∈ es) (hid : ei.id = i) (hnone : ei.revertOf = none) (hnorev : hasRevertOf es i = false) :
    Status (es ++ [{ id := .revert i c, revertOf := some i }]) (setApplied s i.root false) := by
  have hrv : ∀ j, hasRevertOf (es ++ [({ id := .revert i c, revertOf := some i } : Entry H)]) j
      = (hasRevertOf es j || (i == j)) := by
    intro j; rw [hasRevertOf_append]; simp
  have hrd : ∀ j, hasRedoOf (es ++ [({ id := .revert i c, revertOf := some i } : Entry H)]) j = hasRedoOf es j := by
    intro j; rw [hasRedoOf_append]; simp
  have hnoredo : hasRedoOf es i = false := by
    cases hh : hasRedoOf es i with
    | false => rfl
    | true => rw [st.redoRev i hh] at hnorev; cases hnorev
  constructor
  · intro e he hn hr o' ho'
    rw [hrv] at hr
    simp only [List.mem_append, List.mem_singleton] at he
    rcases he with he | he
    · simp at hr
      obtain ⟨hr1, hne⟩ := hr
      obtain ⟨o, ho, happ⟩ := find_setApplied_inv s _ _ _ o' ho'
      by_cases hroot : e.id.root = i.root
      · exfalso
        have hd : hasRedoOf es e.id = false := by
          cases hh : hasRedoOf es e.id with
          | false => rfl
          | true => rw [st.redoRev e.id hh] at hr1; cases hr1
        have := st.oneOpen e he ei hei hn hnone (by rw [hid]; exact hroot) hd (by rw [hid]; exact hnoredo)
        exact hne (by rw [this, hid])
      · rw [happ]; simp [hroot]
        exact st.unrevApplied e he hn hr1 o ho
    · subst he; cases hn
  · intro e he hn hr hd o' ho'
    rw [hrv] at hr; rw [hrd] at hd
    simp only [List.mem_append, List.mem_singleton] at he
    rcases he with he | he
    · obtain ⟨o, ho, happ⟩ := find_setApplied_inv s _ _ _ o' ho'
      by_cases hroot : e.id.root = i.root
      · rw [happ]; simp [hroot]
      · rw [happ]; simp [hroot]
        by_cases hie : i = e.id
        · exact absurd (by rw [hie]) hroot
        · simp [hie] at hr
          exact st.revUndone e he hn hr hd o ho
    · subst he; cases hn
  · intro e1 he1 e2 he2 hn1 hn2 hrt hd1 hd2
    rw [hrd] at hd1 hd2
    simp only [List.mem_append, List.mem_singleton] at he1 he2
    rcases he1 with he1 | he1 <;> rcases he2 with he2 | he2
    · exact st.oneOpen e1 he1 e2 he2 hn1 hn2 hrt hd1 hd2
    · subst he2; cases hn2
    · subst he1; cases hn1
    · subst he1; cases hn1
  · intro j hj
    rw [hrd] at hj; rw [hrv]; simp [st.redoRev j hj]
  · intro e he hn
    rw [hasId_append_eq]
    simp only [List.mem_append, List.mem_singleton] at he
    rcases he with he | he
    · simp [st.rootPresent e he hn]
    · subst he; cases hn
  · intro e he j hj
    rw [hasId_append_eq]
    simp only [List.mem_append, List.mem_singleton] at he
    rcases he with he | he
    · simp [st.revTarget e he j hj]
    · subst he
      have : i = j := by simpa using hj
      subst this
      have := hasId_of_mem es ei hei
      rw [hid] at this; simp [this]

/-- a successful redo of `i` appends `redo i c`, which was absent -/
theorem status_redo (es : List (Entry H)) (s : Spec Tree H) (st : Status es s) (i : EId H) (c : Nat) (ei : Entry H)
    (hei : ei ∈ es) (hid : ei.id = i) (hnone : ei.revertOf = none) (hrev : hasRevertOf es i = true)
    (hnoredo : hasRedoOf es i = false) (hfresh : hasId es (.redo i c) = false) :
    Status (es ++ [{ id := .redo i c, revertOf := none }]) (setApplied s i.root true) := by
  have hrv : ∀ j, hasRevertOf (es ++ [({ id := .redo i c, revertOf := none } : Entry H)]) j = hasRevertOf es j := by
    intro j; rw [hasRevertOf_append]; simp
  have hrd : ∀ j, hasRedoOf (es ++ [({ id := .redo i c, revertOf := none } : Entry H)]) j
      = (hasRedoOf es j || (i == j)) := by
    intro j; rw [hasRedoOf_append]; simp [isRedoOf]
  constructor
  · intro e he hn hr o' ho'
    rw [hrv] at hr
    obtain ⟨o, ho, happ⟩ := find_setApplied_inv s _ _ _ o' ho'
    simp only [List.mem_append, List.mem_singleton] at he
    rcases he with he | he
    · rw [happ]
      by_cases hroot : e.id.root = i.root
      · simp [hroot]
      · simp [hroot]; exact st.unrevApplied e he hn hr o ho
    · subst he
      rw [happ]; simp [EId.root]
  · intro e he hn hr hd o' ho'
    rw [hrv] at hr; rw [hrd] at hd
    simp at hd
    obtain ⟨hd1, hne⟩ := hd
    obtain ⟨o, ho, happ⟩ := find_setApplied_inv s _ _ _ o' ho'
    simp only [List.mem_append, List.mem_singleton] at he
    rcases he with he | he
    · by_cases hroot : e.id.root = i.root
      · exfalso
        have := st.oneOpen e he ei hei hn hnone (by rw [hid]; exact hroot) hd1 (by rw [hid]; exact hnoredo)
        exact hne (by rw [this, hid])
      · rw [happ]; simp [hroot]
        exact st.revUndone e he hn hr hd1 o ho
    · subst he
      rw [st.no_revert_of_absent _ hfresh] at hr; cases hr
  · intro e1 he1 e2 he2 hn1 hn2 hrt hd1 hd2
    rw [hrd] at hd1 hd2
    simp at hd1 hd2
    simp only [List.mem_append, List.mem_singleton] at he1 he2
    rcases he1 with he1 | he1 <;> rcases he2 with he2 | he2
    · exact st.oneOpen e1 he1 e2 he2 hn1 hn2 hrt hd1.1 hd2.1
    · subst he2
      exfalso
      have := st.oneOpen e1 he1 ei hei hn1 hnone (by rw [hid]; simpa [EId.root] using hrt) hd1.1 (by rw [hid]; exact hnoredo)
      exact hd1.2 (by rw [this, hid])
    · subst he1
      exfalso
      have := st.oneOpen e2 he2 ei hei hn2 hnone (by rw [hid]; simpa [EId.root] using hrt.symm) hd2.1 (by rw [hid]; exact hnoredo)
      exact hd2.2 (by rw [this, hid])
    · subst he1; subst he2; rfl
  · intro j hj
    rw [hrd] at hj; rw [hrv]
    simp at hj
    rcases hj with hj | hj
    · exact st.redoRev j hj
    · subst hj; exact hrev
  · intro e he hn
    rw [hasId_append_eq]
    simp only [List.mem_append, List.mem_singleton] at he
    rcases he with he | he
    · simp [st.rootPresent e he hn]
    · subst he
      have := st.rootPresent ei hei hnone
      rw [hid] at this
      simp [EId.root, this]
  · intro e he j hj
    rw [hasId_append_eq]
    simp only [List.mem_append, List.mem_singleton] at he
    rcases he with he | he
    · simp [st.revTarget e he j hj]
    · subst he; cases hj

end
end History
