import RModel.Lemmas.Exec
/-
  Program-level rollback: under ONE injected failure (`Inj.fail k e`) in the rename phase of the repaired
  `apply_plan` (rollback with the pairs as executed, log errors ignored), the tree is restored exactly.

  Two small logics on top of `Exec.M`:
    SafeQ  — "quiet" states: no injection, or the one injected failure has already fired (k < n); every call
             behaves normally, nothing crashes;
    SafeS  — states with a pending or fired `fail k e`: a fragment either ends normally, or reports an error only
             because the injected failure fired inside it (then the state is quiet).
  Property theorems are in `RModel/Props/C04.lean`.
-/

namespace ExecL
open Fs Apply Exec RenamePhase

-- quiet states --------------------------------------------------------------------------------------------------------

def Quiet (s : St) : Prop := s.inj = .none ∨ ∃ k e, s.inj = .fail k e ∧ k < s.n

theorem quiet_mono {s s' : St} (h : Quiet s) (hi : s'.inj = s.inj) (hn : s.n ≤ s'.n) : Quiet s' := by
  rcases h with h | ⟨k, e, h, hk⟩
  · exact Or.inl (hi.trans h)
  · exact Or.inr ⟨k, e, hi.trans h, by omega⟩

theorem doOp_quiet (op : Op) (s : St) (h : Quiet s) : doOp op s = stepOp op s := by
  unfold doOp
  rcases h with h | ⟨k, e, h, hk⟩
  · rw [h]
  · rw [h]
    have : ¬ k = s.n := by omega
    simp only [this, if_false]

def SatQ {α : Type} (s : St) (Q : α → Tree → Prop) (E : Tree → Prop) : Res α → Prop
  | .ok a s' => s'.inj = s.inj ∧ s.n ≤ s'.n ∧ Q a s'.t
  | .err _ s' => s'.inj = s.inj ∧ s.n ≤ s'.n ∧ E s'.t
  | .crash _ => False

def SafeQ {α : Type} (P : Tree → Prop) (x : M α) (Q : α → Tree → Prop) (E : Tree → Prop) : Prop :=
  ∀ s : St, Quiet s → P s.t → SatQ s Q E (x s)

theorem safeQ_pure {α : Type} {P : Tree → Prop} {Q : α → Tree → Prop} {E : Tree → Prop} (a : α)
    (h : ∀ t, P t → Q a t) : SafeQ P (pure a : M α) Q E := by
  intro s _ hp
  exact ⟨rfl, Nat.le_refl _, h _ hp⟩

theorem safeQ_throw {α : Type} {P : Tree → Prop} {Q : α → Tree → Prop} {E : Tree → Prop} (f : Fail)
    (h : ∀ t, P t → E t) : SafeQ P (Exec.throw f : M α) Q E := by
  intro s _ hp
  exact ⟨rfl, Nat.le_refl _, h _ hp⟩

theorem safeQ_getTree {P : Tree → Prop} {E : Tree → Prop} : SafeQ P getTree (fun a t => a = t ∧ P t) E := by
  intro s _ hp
  exact ⟨rfl, Nat.le_refl _, rfl, hp⟩

theorem safeQ_bind {α β : Type} {P : Tree → Prop} {x : M α} {f : α → M β} {Q : α → Tree → Prop}
    {Q' : β → Tree → Prop} {E : Tree → Prop} (hx : SafeQ P x Q E) (hf : ∀ a, SafeQ (Q a) (f a) Q' E) :
    SafeQ P (x >>= f) Q' E := by
  intro s hq hp
  have h1 := hx s hq hp
  show SatQ s Q' E (M.bind x f s)
  unfold M.bind
  cases hxs : x s with
  | ok a s1 =>
    rw [hxs] at h1
    obtain ⟨hi1, hn1, hq1⟩ := h1
    have h2 := hf a s1 (quiet_mono hq hi1 hn1) hq1
    show SatQ s Q' E (f a s1)
    cases hfs : f a s1 with
    | ok b s2 => rw [hfs] at h2; exact ⟨h2.1.trans hi1, by have := h2.2.1; omega, h2.2.2⟩
    | err e s2 => rw [hfs] at h2; exact ⟨h2.1.trans hi1, by have := h2.2.1; omega, h2.2.2⟩
    | crash s2 => rw [hfs] at h2; exact h2
  | err e s1 => rw [hxs] at h1; exact h1
  | crash s1 => rw [hxs] at h1; exact h1

theorem safeQ_weaken {α : Type} {P P' : Tree → Prop} {x : M α} {Q Q' : α → Tree → Prop} {E E' : Tree → Prop}
    (h : SafeQ P x Q E) (hp : ∀ t, P' t → P t) (hq : ∀ a t, Q a t → Q' a t) (he : ∀ t, E t → E' t) :
    SafeQ P' x Q' E' := by
  intro s hqs hs
  have := h s hqs (hp _ hs)
  cases hx : x s with
  | ok a s' => rw [hx] at this; exact ⟨this.1, this.2.1, hq _ _ this.2.2⟩
  | err e s' => rw [hx] at this; exact ⟨this.1, this.2.1, he _ this.2.2⟩
  | crash s' => rw [hx] at this; exact this

theorem safeQ_assume {α : Type} {P : Tree → Prop} {x : M α} {Q : α → Tree → Prop} {E : Tree → Prop} (H : Prop)
    (h1 : ∀ t, P t → H) (h2 : H → SafeQ P x Q E) : SafeQ P x Q E := by
  intro s hq hp
  exact h2 (h1 _ hp) s hq hp

theorem safeQ_doOp {P : Tree → Prop} {Q : Unit → Tree → Prop} {E : Tree → Prop} (op : Op)
    (h1 : ∀ t t', P t → execOp t op = .ok t' → Q () t')
    (h2 : ∀ t e, P t → execOp t op = .error e → E t) : SafeQ P (doOp op) Q E := by
  intro s hq hp
  rw [doOp_quiet op s hq]
  unfold stepOp
  cases he : execOp s.t op with
  | ok t' => exact ⟨rfl, by simp [Exec.rec], h1 _ _ hp he⟩
  | error e => exact ⟨rfl, by simp [Exec.rec], h2 _ _ hp he⟩

theorem safeQ_tryOp {P : Tree → Prop} {Q : Unit → Tree → Prop} {E E' : Tree → Prop} (op : Op)
    (h1 : ∀ t t', P t → execOp t op = .ok t' → Q () t')
    (h2 : ∀ t e, P t → execOp t op = .error e → E t) :
    SafeQ P (tryOp op) (fun r t => match r with | none => Q () t | some _ => E t) E' := by
  intro s hq hp
  unfold tryOp
  rw [doOp_quiet op s hq]
  unfold stepOp
  cases he : execOp s.t op with
  | ok t' => exact ⟨rfl, by simp [Exec.rec], h1 _ _ hp he⟩
  | error e => exact ⟨rfl, by simp [Exec.rec], h2 _ _ hp he⟩

/-- in a quiet state a log line always ends normally (both variants) -/
theorem safeQ_logM {P : Tree → Prop} {E : Tree → Prop} (cfg : Cfg) : SafeQ P (logM cfg) (fun _ t => P t) E := by
  unfold logM logMF
  by_cases hl : cfg.log.isSome = true
  · simp only [hl, if_true]
    cases ExecFlags.logErrorsIgnored with
    | false =>
      simp only [Bool.false_eq_true, if_false]
      refine safeQ_doOp .logLine ?_ ?_
      · intro t t' hp he; simp only [execOp] at he; cases he; exact hp
      · intro t e _ he; simp only [execOp] at he; cases he
    | true =>
      simp only [if_true]
      intro s hq hp
      have hunf : ignoreErr (doOp .logLine) s =
          M.bind (Exec.tryCatch (doOp .logLine)) (fun _ => (pure () : M Unit)) s := rfl
      rw [hunf]
      unfold M.bind Exec.tryCatch
      rw [doOp_quiet _ s hq]
      unfold stepOp
      simp only [execOp]
      exact ⟨rfl, by simp [Exec.rec], hp⟩
  · simp only [hl, Bool.false_eq_true, if_false]
    exact safeQ_pure () (fun _ hp => hp)

-- executing and reverting a list of renames -----------------------------------------------------------------------------

theorem execAll_snoc (l : List (Path × Path)) (a b : Path) : ∀ t : Tree,
    execAll t (l ++ [(a, b)]) =
      (match execAll t l with
       | some tm => (match rename tm a b with | .ok t' => some t' | .error _ => none)
       | none => none) := by
  induction l with
  | nil => intro t; simp [execAll]; cases rename t a b <;> rfl
  | cons x l ih =>
    intro t
    obtain ⟨c, d⟩ := x
    simp only [List.cons_append, execAll]
    cases rename t c d with
    | ok t1 => exact ih t1
    | error e => rfl

theorem revAlongB_cons (t : Tree) (a b : Path) (rest : List (Path × Path)) :
    revAlongB t ((a, b) :: rest) =
      (!(a == b) && (lookup t b).isNone && t.all (fun e => !pre b e.1) &&
        (match rename t a b with
         | .ok t' => decide (parentOk t' a = .ok ()) && revAlongB t' rest
         | .error _ => true)) := rfl

theorem revAlongB_snoc (l : List (Path × Path)) (a b : Path) : ∀ (t tm : Tree), execAll t l = some tm →
    revAlongB t (l ++ [(a, b)]) = (revAlongB t l && revAlongB tm [(a, b)]) := by
  induction l with
  | nil => intro t tm h; simp [execAll] at h; subst h; simp [revAlongB]
  | cons x l ih =>
    intro t tm h
    obtain ⟨c, d⟩ := x
    simp only [execAll] at h
    cases hr : rename t c d with
    | error e => rw [hr] at h; cases h
    | ok t1 =>
      rw [hr] at h
      simp only [List.cons_append]
      rw [revAlongB_cons t c d (l ++ [(a, b)]), revAlongB_cons t c d l]
      simp only [hr]
      rw [ih t1 tm h]
      simp only [Bool.and_assoc]

/-- what `RevAlong` says about one rename -/
theorem revAlong_single {tm : Tree} {a b : Path} (h : revAlongB tm [(a, b)] = true) :
    a ≠ b ∧ lookup tm b = none ∧ (∀ e ∈ tm, pre b e.1 = false) ∧
    ∀ t', rename tm a b = .ok t' → parentOk t' a = .ok () := by
  unfold revAlongB at h
  simp only [Bool.and_eq_true, Bool.not_eq_true', beq_eq_false_iff_ne, ne_eq, Option.isNone_iff_eq_none,
    List.all_eq_true] at h
  obtain ⟨⟨⟨hab, hfree⟩, hunder⟩, hnext⟩ := h
  refine ⟨hab, hfree, fun e he => by simpa using hunder e he, ?_⟩
  intro t' hr
  rw [hr] at hnext
  simpa [revAlongB] using hnext

/-- after `rename a b` onto a free name the old name is gone -/
theorem rename_src_gone {t t' : Tree} {a b : Path} (h : rename t a b = .ok t') (hab : a ≠ b)
    (hfree : lookup t b = none) (hunder : ∀ e ∈ t, pre b e.1 = false) : lookup t' a = none := by
  unfold rename at h
  cases hla : lookup t a with
  | none => simp [hla] at h
  | some na =>
    simp only [hla] at h
    cases hp : parentOk t b with
    | error e => simp [hp] at h
    | ok u =>
      have habb : (a == b) = false := by simpa using hab
      simp only [hp, habb, Bool.false_eq_true, if_false] at h
      by_cases hpre : pre a b = true
      · simp [hpre] at h
      · simp only [hpre, Bool.false_eq_true, if_false, hfree] at h
        cases h
        obtain ⟨ea, hea, heak⟩ := mem_of_lookup_some hla
        have hba : pre b a = false := by rw [← heak]; exact hunder ea hea
        apply lookup_map_none
        intro e he hEq
        cases hq : pre a e.1 with
        | true =>
          obtain ⟨r, hr⟩ := pre_iff.1 hq
          rw [hr, subst_append] at hEq
          have : pre b a = true := pre_iff.2 ⟨r, hEq.symm⟩
          rw [hba] at this; cases this
        | false =>
          rw [subst_of_not_pre hq] at hEq
          rw [hEq, pre_refl] at hq
          cases hq

theorem execOp_rename_plain {t : Tree} {a b : Path} (h : lookup t b = none) :
    execOp t (.rename a b false false) = rename t a b := by
  rw [execOp_rename_free h]
  unfold renameTS
  simp

/-- in a quiet state `rollbackLoop` over the executed pairs, last first, restores the tree exactly and reports no error -/
theorem safeQ_rollbackLoop (cfg : Cfg) : ∀ (l : List (Path × Path)) (t0 tn : Tree) (b0 : Bool),
    execAll t0 l = some tn → RevAlong t0 l →
    SafeQ (fun t => t = tn) (rollbackLoop cfg l.reverse b0) (fun b' t => t = t0 ∧ b' = b0) (fun _ => False) := by
  intro l
  induction l using snoc_induction with
  | hnil =>
    intro t0 tn b0 h _
    simp [execAll] at h
    subst h
    simp only [List.reverse_nil, rollbackLoop]
    exact safeQ_pure b0 (fun t h => ⟨h, rfl⟩)
  | hsnoc l x ih =>
    intro t0 tn b0 hex hg
    obtain ⟨a, b⟩ := x
    rw [execAll_snoc] at hex
    cases hm : execAll t0 l with
    | none => simp only [hm] at hex; cases hex
    | some tm =>
      simp only [hm] at hex
      cases hr : rename tm a b with
      | error e => simp only [hr] at hex; cases hex
      | ok tn' =>
        simp only [hr] at hex
        cases hex
        unfold RevAlong at hg
        rw [revAlongB_snoc l a b t0 tm hm, Bool.and_eq_true] at hg
        obtain ⟨hgl, hgs⟩ := hg
        obtain ⟨hab, hfree, hunder, hpar⟩ := revAlong_single hgs
        have hgone := rename_src_gone hr hab hfree hunder
        have hback : rename tn b a = .ok tm := rename_inverse hr hab hfree hunder (hpar _ hr)
        simp only [List.reverse_append, List.reverse_cons, List.reverse_nil, List.nil_append, List.singleton_append,
          rollbackLoop]
        refine safeQ_bind (safeQ_logM cfg) (fun _ => ?_)
        refine safeQ_bind (Q := fun r t => t = tm ∧ r = none)
          (safeQ_weaken (safeQ_tryOp (Q := fun _ t => t = tm) (E := fun _ => False) (E' := fun _ => False)
            (.rename b a false false) ?_ ?_) (fun _ h => h) ?_ (fun _ h => h)) (fun r => ?_)
        · intro t t' ht he
          subst ht
          rw [execOp_rename_plain hgone, hback] at he
          cases he; rfl
        · intro t e ht he
          subst ht
          rw [execOp_rename_plain hgone, hback] at he
          cases he
        · intro r t h
          cases r with
          | none => exact ⟨h, rfl⟩
          | some e => exact absurd h id
        · refine safeQ_assume (r = none) (fun _ h => h.2) (fun hrn => ?_)
          subst hrn
          simp only [Option.isSome_none, Bool.or_false]
          exact safeQ_weaken (ih t0 tm b0 hm hgl) (fun _ h => h.1) (fun _ _ h => h) (fun _ h => h)

/-- … and so does `rollback` as a whole -/
theorem safeQ_rollbackM (cfg : Cfg) (l : List (Path × Path)) (t0 tn : Tree) (hex : execAll t0 l = some tn)
    (hg : RevAlong t0 l) :
    SafeQ (fun t => t = tn) (rollbackM cfg l) (fun _ t => t = t0) (fun _ => False) := by
  unfold rollbackM
  refine safeQ_bind (safeQ_logM cfg) (fun _ => ?_)
  refine safeQ_bind (safeQ_rollbackLoop cfg l t0 tn false hex hg) (fun b => ?_)
  refine safeQ_assume (b = false) (fun _ h => h.2) (fun hb => ?_)
  subst hb
  simp only [Bool.false_eq_true, if_false]
  exact safeQ_weaken (safeQ_logM cfg) (fun _ h => h.1) (fun _ _ h => h) (fun _ h => h)

-- one pending injected failure ----------------------------------------------------------------------------------------------

def SatS {α : Type} (k : Nat) (e : Errno) (Q : α → Tree → Prop) (E : Tree → Prop) : Res α → Prop
  | .ok a s' => s'.inj = .fail k e ∧ Q a s'.t
  | .err _ s' => s'.inj = .fail k e ∧ k < s'.n ∧ E s'.t
  | .crash _ => False

/-- under the injection `fail k e` (pending or already fired): `x` ends normally with `Q`, or it reports an error, and then
    only because the injected failure has fired (the state is quiet from then on) and `E` holds -/
def SafeS {α : Type} (k : Nat) (e : Errno) (P : Tree → Prop) (x : M α) (Q : α → Tree → Prop) (E : Tree → Prop) : Prop :=
  ∀ s : St, s.inj = .fail k e → P s.t → SatS k e Q E (x s)

theorem safeS_pure {α : Type} {k : Nat} {e : Errno} {P : Tree → Prop} {Q : α → Tree → Prop} {E : Tree → Prop} (a : α)
    (h : ∀ t, P t → Q a t) : SafeS k e P (pure a : M α) Q E := by
  intro s hi hp
  exact ⟨hi, h _ hp⟩

theorem safeS_bind {α β : Type} {k : Nat} {e : Errno} {P : Tree → Prop} {x : M α} {f : α → M β}
    {Q : α → Tree → Prop} {Q' : β → Tree → Prop} {E : Tree → Prop} (hx : SafeS k e P x Q E)
    (hf : ∀ a, SafeS k e (Q a) (f a) Q' E) : SafeS k e P (x >>= f) Q' E := by
  intro s hi hp
  have h1 := hx s hi hp
  show SatS k e Q' E (M.bind x f s)
  unfold M.bind
  cases hxs : x s with
  | ok a s1 => rw [hxs] at h1; exact hf a s1 h1.1 h1.2
  | err f' s1 => rw [hxs] at h1; exact h1
  | crash s1 => rw [hxs] at h1; exact h1

theorem safeS_weaken {α : Type} {k : Nat} {e : Errno} {P P' : Tree → Prop} {x : M α} {Q Q' : α → Tree → Prop}
    {E E' : Tree → Prop} (h : SafeS k e P x Q E) (hp : ∀ t, P' t → P t) (hq : ∀ a t, Q a t → Q' a t)
    (he : ∀ t, E t → E' t) : SafeS k e P' x Q' E' := by
  intro s hi hs
  have := h s hi (hp _ hs)
  cases hx : x s with
  | ok a s' => rw [hx] at this; exact ⟨this.1, hq _ _ this.2⟩
  | err f s' => rw [hx] at this; exact ⟨this.1, this.2.1, he _ this.2.2⟩
  | crash s' => rw [hx] at this; exact this

/-- a call that cannot fail by itself from a `P` state: it ends normally, or the injected failure fires at it and
    leaves the tree as it was -/
theorem safeS_doOp {k : Nat} {e : Errno} {P : Tree → Prop} {Q : Unit → Tree → Prop} (op : Op)
    (h : ∀ t, P t → ∃ t', execOp t op = .ok t' ∧ Q () t') : SafeS k e P (doOp op) Q P := by
  intro s hi hp
  unfold doOp
  rw [hi]
  by_cases hk : k = s.n
  · simp only [hk, if_true]
    exact ⟨by simp [Exec.rec, hi, hk], by simp [Exec.rec], hp⟩
  · simp only [hk, if_false]
    unfold stepOp
    obtain ⟨t', he, hq⟩ := h _ hp
    rw [he]
    exact ⟨by simp [Exec.rec, hi], hq⟩

theorem doOp_fail_no_crash (op : Op) (s : St) (k : Nat) (e : Errno) (hi : s.inj = .fail k e) (s' : St) :
    doOp op s ≠ .crash s' := by
  unfold doOp stepOp
  rw [hi]
  by_cases hk : k = s.n
  · simp [hk]
  · simp only [hk, if_false]
    cases execOp s.t op <;> simp

/-- log errors are not failures: they are ignored, or the command has no log file -/
def LogQuiet (cfg : Cfg) : Prop := ExecFlags.logErrorsIgnored = true ∨ cfg.log.isSome = false

theorem safeS_logM {k : Nat} {e : Errno} {P : Tree → Prop} (cfg : Cfg) (hlq : LogQuiet cfg) :
    SafeS k e P (logM cfg) (fun _ t => P t) (fun _ => False) := by
  unfold logM logMF
  by_cases hl : cfg.log.isSome = true
  · simp only [hl, if_true]
    rcases hlq with h | h
    · rw [h]
      simp only [if_true]
      intro s hi hp
      have hunf : ignoreErr (doOp .logLine) s =
          M.bind (Exec.tryCatch (doOp .logLine)) (fun _ => (pure () : M Unit)) s := rfl
      rw [hunf]
      unfold M.bind Exec.tryCatch
      rcases doOp_log_cases s with ⟨s', h1, h2, h3, _⟩ | ⟨e', s', h1, h2, h3, _⟩ | ⟨s', h1, _⟩
      · rw [h1]; exact ⟨h3.trans hi, h2 ▸ hp⟩
      · rw [h1]; exact ⟨h3.trans hi, h2 ▸ hp⟩
      · exact absurd h1 (doOp_fail_no_crash _ s k e hi s')
    · rw [hl] at h; cases h
  · simp only [hl, Bool.false_eq_true, if_false]
    exact safeS_pure () (fun _ hp => hp)

theorem safeS_repeat_log {k : Nat} {e : Errno} {P : Tree → Prop} (cfg : Cfg) (hlq : LogQuiet cfg) : ∀ n,
    SafeS k e P (Exec.repeatM n (logM cfg)) (fun _ t => P t) (fun _ => False) := by
  intro n
  induction n with
  | zero => unfold Exec.repeatM; exact safeS_pure () (fun _ h => h)
  | succ n ih => unfold Exec.repeatM; exact safeS_bind (safeS_logM cfg hlq) (fun _ => ih)

/-- `if let Err(f) = x() { handler; return Err(f) }`: when `x` reports the (injected) failure the handler runs in a
    quiet state -/
theorem safeS_tryCatch {β : Type} {k : Nat} {e : Errno} {P : Tree → Prop} {x : M Unit} {h : Option Fail → M β}
    {Q : Unit → Tree → Prop} {E : Tree → Prop} {Q' Q'' : β → Tree → Prop} {E' : Tree → Prop}
    (hx : SafeS k e P x Q E) (hnp : NoPanic x) (hnone : SafeS k e (Q ()) (h none) Q' E')
    (hsome : ∀ f, SafeQ E (h (some f)) Q'' E') (hraise : ∀ f (s : St) b s', h (some f) s ≠ .ok b s') :
    SafeS k e P (Exec.tryCatch x >>= h) Q' E' := by
  intro s hi hp
  have h1 := hx s hi hp
  show SatS k e Q' E' (M.bind (Exec.tryCatch x) h s)
  unfold M.bind Exec.tryCatch
  cases hxs : x s with
  | ok a s1 => rw [hxs] at h1; exact hnone s1 h1.1 h1.2
  | crash s1 => rw [hxs] at h1; exact h1
  | err f s1 =>
    rw [hxs] at h1
    obtain ⟨hi1, hk1, he1⟩ := h1
    have hq : Quiet s1 := Or.inr ⟨k, e, hi1, hk1⟩
    have key : ∀ f', f = f' → f' ≠ .panic → SatS k e Q' E' (h (some f') s1) := by
      intro f' _ _
      have h2 := hsome f' s1 hq he1
      cases hh : h (some f') s1 with
      | ok b s2 => exact absurd hh (hraise _ _ _ _)
      | err g s2 => rw [hh] at h2; exact ⟨h2.1.trans hi1, by have := h2.2.1; omega, h2.2.2⟩
      | crash s2 => rw [hh] at h2; exact h2
    cases f with
    | panic => exact absurd hxs (hnp s s1)
    | io e' => exact key _ rfl (by simp)
    | mismatch => exact key _ rfl (by simp)
    | unreadable => exact key _ rfl (by simp)
    | destExists => exact key _ rfl (by simp)
    | rollbackErr => exact key _ rfl (by simp)
    | patchFailed => exact key _ rfl (by simp)
    | dupId => exact key _ rfl (by simp)

-- the rename phase under one injected failure ------------------------------------------------------------------------------

/-- the decidable-by-running guard: the fault-free rename phase succeeds from `t`, every rename goes onto a free name
    under which nothing lives, no path carries a trailing slash, and each source's parent directory survives -/
def phaseOkB : Tree → List (Path × Path) → List Ren → Bool
  | _, _, [] => true
  | t, perf, r :: rs =>
    !trailingSlash perf r.path && !trailingSlash perf r.newPath &&
    !(rebase perf r.path == rebase perf r.newPath) && (lookup t (rebase perf r.newPath)).isNone &&
    t.all (fun e => !pre (rebase perf r.newPath) e.1) &&
    (match rename t (rebase perf r.path) (rebase perf r.newPath) with
     | .ok t' => decide (parentOk t' (rebase perf r.path) = .ok ()) &&
                 phaseOkB t' (perf ++ [(r.path, rebase perf r.newPath)]) rs
     | .error _ => false)

/-- rollback_restores_paths at program level: with the pairs as executed and log errors out of the way, ONE injected
    failure anywhere in the rename phase — at a rename, at a log line — ends either normally or with the tree exactly as
    it was when the phase started; for every plan, tree and fault index -/
theorem safeS_renameLoop (k : Nat) (e : Errno) (cfg : Cfg) (hlq : LogQuiet cfg) (t0 : Tree) :
    ∀ (rs : List Ren) (perf exec : List (Path × Path)) (tj : Tree),
      execAll t0 exec = some tj → RevAlong t0 exec → phaseOkB tj perf rs = true →
      SafeS k e (fun t => t = tj) (renameLoopF true cfg perf exec rs) (fun _ _ => True) (fun t => t = t0) := by
  intro rs
  induction rs with
  | nil =>
    intro perf exec tj _ _ _
    unfold renameLoopF
    exact safeS_pure perf (fun _ _ => trivial)
  | cons r rs ih =>
    intro perf exec tj hex hg hok
    unfold phaseOkB at hok
    simp only [Bool.and_eq_true, Bool.not_eq_true', beq_eq_false_iff_ne, ne_eq, Option.isNone_iff_eq_none,
      List.all_eq_true] at hok
    obtain ⟨⟨⟨⟨⟨hs1, hs2⟩, hab⟩, hfree⟩, hunder⟩, hnext⟩ := hok
    cases hr : rename tj (rebase perf r.path) (rebase perf r.newPath) with
    | error e' => rw [hr] at hnext; cases hnext
    | ok t' =>
      rw [hr] at hnext
      simp only [Bool.and_eq_true, decide_eq_true_eq] at hnext
      obtain ⟨hpar, hrest⟩ := hnext
      have hex' : execAll t0 (exec ++ [(rebase perf r.path, rebase perf r.newPath)]) = some t' := by
        rw [execAll_snoc]; simp only [hex, hr]
      have hsingle : revAlongB tj [(rebase perf r.path, rebase perf r.newPath)] = true := by
        rw [revAlongB_cons]
        simp only [hr, revAlongB, Bool.and_true, Bool.and_eq_true, Bool.not_eq_true', beq_eq_false_iff_ne, ne_eq,
          Option.isNone_iff_eq_none, List.all_eq_true, decide_eq_true_eq]
        exact ⟨⟨⟨hab, hfree⟩, hunder⟩, hpar⟩
      have hg' : RevAlong t0 (exec ++ [(rebase perf r.path, rebase perf r.newPath)]) := by
        unfold RevAlong at hg ⊢
        rw [revAlongB_snoc exec _ _ t0 tj hex, hg, hsingle]; rfl
      unfold renameLoopF
      refine safeS_bind (safeS_weaken (safeS_repeat_log cfg hlq _) (fun _ h => h) (fun _ _ h => h)
        (fun _ h => absurd h id)) (fun _ => ?_)
      dsimp only
      rw [hs1, hs2]
      refine safeS_tryCatch (Q := fun _ t => t = t') (E := fun t => t = tj) (Q'' := fun _ _ => True) ?_ ?_ ?_ ?_ ?_
      · -- the rename itself
        refine safeS_bind (safeS_weaken (safeS_logM cfg hlq) (fun _ h => h) (fun _ _ h => h) (fun _ h => absurd h id))
          (fun _ => ?_)
        refine safeS_doOp _ ?_
        intro t ht
        subst ht
        refine ⟨t', ?_, rfl⟩
        rw [execOp_rename_plain hfree]; exact hr
      · exact np_bind (np_logM cfg) (fun _ => np_doOp _)
      · -- it succeeded: the "Successfully renamed" line, then the rest of the loop
        refine safeS_tryCatch (Q := fun _ t => t = t') (E := fun _ => False) (Q'' := fun _ _ => True)
          (safeS_logM cfg hlq) (np_logM cfg) (ih _ _ t' hex' hg' hrest) ?_ ?_
        · intro f s _ hp; exact absurd hp id
        · intro f s b s'
          exact bind_ne_ok _ _ _ _ _ (fun _ s1 => bind_throw_ne_ok _ _ _ _ _)
      · -- the injected failure fired at the rename (or its log line): roll back what was executed
        intro f
        refine safeQ_bind (safeQ_logM cfg) (fun _ => ?_)
        refine safeQ_bind (Q := fun _ t => t = t0) ?_ (fun _ => safeQ_throw f (fun _ h => h))
        have : rollbackPairs true perf exec = exec := rfl
        rw [this]
        exact safeQ_weaken (safeQ_rollbackM cfg exec t0 tj hex hg) (fun _ h => h) (fun _ _ h => h)
          (fun _ h => absurd h id)
      · intro f s b s'
        exact bind_ne_ok _ _ _ _ _ (fun _ s1 => bind_throw_ne_ok _ _ _ _ _)

-- leftover temp files ------------------------------------------------------------------------------------------------------

/-- with the truncating create (`File::create`), a file that a killed process left at the temp name — whatever it holds —
    never makes a later content edit fail: the atomic replace runs to its normal end, the target holds the complete new
    content and the temp name is free again -/
theorem safeQ_replaceFile_leftover (f : Path) (c c' x : Bytes) (m mx : Nat) (hne : tmpPath f ≠ f) :
    SafeQ (fun t => lookup t (tmpPath f) = some (.file x mx) ∧ lookup t f = some (.file c m) ∧
        parentOk t (tmpPath f) = .ok ())
      (replaceFileX false f c' m)
      (fun _ t => lookup t f = some (.file c' m) ∧ lookup t (tmpPath f) = none) (fun _ => False) := by
  have hfn : f ≠ tmpPath f := fun h => hne h.symm
  unfold replaceFileX
  refine safeQ_bind (Q := fun _ t => (∃ m1, lookup t (tmpPath f) = some (.file [] m1)) ∧ lookup t f = some (.file c m))
    (safeQ_doOp _ ?_ ?_) (fun _ => ?_)
  · intro t t' ⟨hl, hf, _⟩ he
    obtain ⟨hfr, _, htr⟩ := frame_openw he
    exact ⟨htr rfl, by rw [hfr f hfn]; exact hf⟩
  · intro t e ⟨hl, _, hp⟩ he
    simp [execOp, hp, hl] at he
  refine safeQ_bind (Q := fun _ t => (∃ m1, lookup t (tmpPath f) = some (.file c' m1)) ∧ lookup t f = some (.file c m))
    ?_ (fun _ => ?_)
  · unfold writeAll
    by_cases hce : c'.isEmpty = true
    · simp only [hce, if_true]
      refine safeQ_pure () ?_
      intro t ⟨⟨m1, hl⟩, hf⟩
      have : c' = [] := by simpa using hce
      exact ⟨⟨m1, this ▸ hl⟩, hf⟩
    · simp only [hce, Bool.false_eq_true, if_false]
      refine safeQ_doOp _ ?_ ?_
      · intro t t' ⟨⟨m1, hl⟩, hf⟩ he
        obtain ⟨hfr, c1, m2, h0, h1⟩ := frame_write he
        rw [hl] at h0; cases h0
        exact ⟨⟨m1, by simpa using h1⟩, by rw [hfr f hfn]; exact hf⟩
      · intro t e ⟨⟨m1, hl⟩, _⟩ he
        simp [execOp, hl] at he
  refine safeQ_bind (Q := fun _ t => lookup t (tmpPath f) = some (.file c' m) ∧ lookup t f = some (.file c m))
    (safeQ_doOp _ ?_ ?_) (fun _ => ?_)
  · intro t t' ⟨⟨m1, hl⟩, hf⟩ he
    obtain ⟨hfr, hm⟩ := frame_chmod he
    exact ⟨hm c' m1 hl, by rw [hfr f hfn]; exact hf⟩
  · intro t e ⟨⟨m1, hl⟩, _⟩ he
    simp [execOp, hl] at he
  refine safeQ_doOp _ ?_ ?_
  · intro t t' ⟨hl, hf⟩ he
    obtain ⟨hb, ha, _⟩ := rename_file_over_file hl hf hne he
    exact ⟨hb, ha⟩
  · intro t e ⟨hl, hf⟩ he
    have hb : (tmpPath f == f) = false := by simpa using hne
    simp [execOp, hl, hf, hb] at he

end ExecL
