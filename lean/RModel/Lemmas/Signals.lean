import RModel.Model.Signals
/-
  Helper definitions and lemmas for C13 (`Props/C13.lean`): the safety predicate along a run, the core invariant
  `runFrom_safe`, erasure of signal events, and the two phases "inside the prompt" / "after the prompt".
-/

namespace Signals

variable {ε ω : Type}

/-- no handler exits unconditionally -/
def NoExitAlways (H : Handlers) : Prop := ∀ s, (H s).exitAlways = none

/-- a signal event in the list whose handler stores the flag -/
def flagged (H : Handlers) (items : List (Item ε)) : Bool :=
  items.any (fun i => match i with | .sig s => (H s).setsFlag | _ => false)

/-- along the list no handler can exit: none exits unconditionally, and none that exits under the prompt is
    delivered while the prompt is active (`p` = prompt active at the start) -/
def safe (H : Handlers) : Bool → List (Item ε) → Bool
  | _, [] => true
  | p, .eff _ :: r => safe H p r
  | _, .promptOn :: r => safe H true r
  | _, .promptOff :: r => safe H false r
  | p, .sig s :: r => (H s).exitAlways.isNone && (!p || (H s).exitUnderPrompt.isNone) && safe H p r

theorem frozen (H : Handlers) (ap : ε → ω → ω) (rel : ω → ω) (st : St ω) (h : st.exited.isSome = true) (items : List (Item ε)) :
    runFrom H ap rel st items = st := by
  induction items with
  | nil => rfl
  | cons i r ih =>
    simp only [runFrom, List.foldl_cons] at ih ⊢
    have : step H ap rel st i = st := by simp [step, h]
    rw [this]; exact ih

theorem handle_safe (rel : ω → ω) (h : Handler) (st : St ω) (hA : h.exitAlways = none)
    (hP : st.prompt = false ∨ h.exitUnderPrompt = none) :
    handle rel h st = (if h.setsFlag then { st with flag := true } else st) := by
  unfold handle
  rw [hA]
  cases hP with
  | inl hp => simp [hp]
  | inr hu => simp [hu]

/-- the core invariant: along a safe list the effects are applied in order, nothing exits, and the flag is the
    disjunction of the flag-storing events -/
theorem runFrom_safe (H : Handlers) (ap : ε → ω → ω) (rel : ω → ω) (items : List (Item ε)) :
    ∀ st : St ω, st.exited = none → safe H st.prompt items = true →
      (runFrom H ap rel st items).world = applyAll ap st.world (effects items) ∧
      (runFrom H ap rel st items).exited = none ∧
      (runFrom H ap rel st items).flag = (st.flag || flagged H items) := by
  induction items with
  | nil => intro st he _; simp [runFrom, applyAll, effects, flagged, he]
  | cons i r ih =>
    intro st he hs
    have hstep : ∀ st' : St ω, step H ap rel st i = st' → runFrom H ap rel st (i :: r) = runFrom H ap rel st' r := by
      intro st' h; simp [runFrom, List.foldl_cons, h]
    cases i with
    | eff e =>
      have h1 : step H ap rel st (.eff e) = { st with world := ap e st.world } := by simp [step, he]
      rw [hstep _ h1]
      have := ih { st with world := ap e st.world } he (by simpa [safe] using hs)
      simpa [effects, applyAll, flagged] using this
    | promptOn =>
      have h1 : step H ap rel st .promptOn = { st with prompt := true } := by simp [step, he]
      rw [hstep _ h1]
      have := ih { st with prompt := true } he (by simpa [safe] using hs)
      simpa [effects, applyAll, flagged] using this
    | promptOff =>
      have h1 : step H ap rel st .promptOff = { st with prompt := false } := by simp [step, he]
      rw [hstep _ h1]
      have := ih { st with prompt := false } he (by simpa [safe] using hs)
      simpa [effects, applyAll, flagged] using this
    | sig s =>
      simp only [safe, Bool.and_eq_true, Option.isNone_iff_eq_none, Bool.or_eq_true, Bool.not_eq_true'] at hs
      obtain ⟨⟨hA, hP⟩, hr⟩ := hs
      have h1 : step H ap rel st (.sig s) = (if (H s).setsFlag then { st with flag := true } else st) := by
        simp [step, he, handle_safe rel (H s) st hA hP]
      rw [hstep _ h1]
      cases hf : (H s).setsFlag with
      | true =>
        have := ih { st with flag := true } he (by simpa using hr)
        simpa [effects, flagged, hf] using this
      | false =>
        have := ih st he hr
        simpa [effects, flagged, hf] using this

theorem effects_erase (items : List (Item ε)) : effects (erase items) = effects items := by
  induction items with
  | nil => rfl
  | cons i r ih =>
    cases i <;> simp_all [erase, effects, isSig]

theorem safe_noPrompt (H : Handlers) (hH : NoExitAlways H) (items : List (Item ε))
    (hnp : ∀ i ∈ items, isPrompt i = false) : safe H false items = true := by
  induction items with
  | nil => rfl
  | cons i r ih =>
    have hr := ih (fun j hj => hnp j (List.mem_cons_of_mem _ hj))
    cases i with
    | eff e => simpa [safe] using hr
    | promptOn => have := hnp .promptOn List.mem_cons_self; simp [isPrompt] at this
    | promptOff => have := hnp .promptOff List.mem_cons_self; simp [isPrompt] at this
    | sig s => simp [safe, hH s, hr]

theorem safe_erase (H : Handlers) (p : Bool) (items : List (Item ε)) : safe H p (erase items) = true := by
  induction items generalizing p with
  | nil => rfl
  | cons i r ih =>
    cases i with
    | eff e => simpa [erase, isSig, safe] using ih p
    | promptOn => simpa [erase, isSig, safe] using ih true
    | promptOff => simpa [erase, isSig, safe] using ih false
    | sig s => simpa [erase, isSig] using ih p

theorem flagged_erase (H : Handlers) (items : List (Item ε)) : flagged H (erase items) = false := by
  induction items with
  | nil => rfl
  | cons i r ih =>
    cases i <;> simp_all [erase, flagged, isSig]

/-- the program `pre ; prompt ; post` -/
def withPrompt (pre post : List ε) : List (Item ε) :=
  pre.map .eff ++ [.promptOn, .promptOff] ++ post.map .eff

theorem effects_map_eff (es : List ε) : effects (es.map Item.eff) = es := by
  induction es with
  | nil => rfl
  | cons e r ih => simp [effects, ih]

theorem applyAll_append (ap : ε → ω → ω) (w : ω) (a b : List ε) :
    applyAll ap w (a ++ b) = applyAll ap (applyAll ap w a) b := by
  simp [applyAll, List.foldl_append]

/-- after the prompt: the rest of the run has no prompt step, so it is safe -/
theorem after_prompt (H : Handlers) (hH : NoExitAlways H) (ap : ε → ω → ω) (rel : ω → ω) (post : List ε) (items : List (Item ε))
    (st : St ω) (he : st.exited = none) (hp : st.prompt = false) (herase : erase items = post.map .eff) :
    (runFrom H ap rel st items).world = applyAll ap st.world post ∧ (runFrom H ap rel st items).exited = none := by
  have hnp : ∀ i ∈ items, isPrompt i = false := by
    intro i hi
    cases i with
    | eff e => rfl
    | sig s => rfl
    | promptOn =>
      have : Item.promptOn ∈ erase items := by simp [erase, isSig, hi]
      rw [herase] at this; simp at this
    | promptOff =>
      have : Item.promptOff ∈ erase items := by simp [erase, isSig, hi]
      rw [herase] at this; simp at this
  have h := runFrom_safe H ap rel items st he (by rw [hp]; exact safe_noPrompt H hH items hnp)
  refine ⟨?_, h.2.1⟩
  rw [h.1, ← effects_erase, herase, effects_map_eff]

/-- inside the prompt -/
theorem in_prompt (H : Handlers) (hH : NoExitAlways H) (ap : ε → ω → ω) (rel : ω → ω) (post : List ε) (items : List (Item ε)) :
    ∀ st : St ω, st.exited = none → st.prompt = true → erase items = .promptOff :: post.map .eff →
      ((runFrom H ap rel st items).exited = none → (runFrom H ap rel st items).world = applyAll ap st.world post) ∧
      (∀ c, (runFrom H ap rel st items).exited = some c →
        ∃ s, (H s).exitUnderPrompt = some c ∧ (runFrom H ap rel st items).world = exitWorld rel (H s) st.world) := by
  induction items with
  | nil => intro st _ _ h; simp [erase] at h
  | cons i r ih =>
    intro st he hp herase
    have hstep : ∀ st' : St ω, step H ap rel st i = st' → runFrom H ap rel st (i :: r) = runFrom H ap rel st' r := by
      intro st' h; simp [runFrom, List.foldl_cons, h]
    cases i with
    | eff e => simp [erase, isSig] at herase
    | promptOn => simp [erase, isSig] at herase
    | promptOff =>
      have ht : erase r = post.map .eff := by simpa [erase, isSig] using herase
      have h1 : step H ap rel st .promptOff = { st with prompt := false } := by simp [step, he]
      rw [hstep _ h1]
      have := after_prompt H hH ap rel post r { st with prompt := false } he rfl ht
      refine ⟨fun _ => this.1, fun c hc => ?_⟩
      rw [this.2] at hc; cases hc
    | sig s =>
      have ht : erase r = .promptOff :: post.map .eff := by simpa [erase, isSig] using herase
      cases hu : (H s).exitUnderPrompt with
      | some c0 =>
        have h1 : step H ap rel st (.sig s) =
            { st with exited := some c0, world := exitWorld rel (H s) st.world } := by
          simp [step, he, handle, hH s, hp, hu]
        rw [hstep _ h1, frozen H ap rel _ (by simp) r]
        refine ⟨fun h => by simp at h, fun c hc => ⟨s, ?_, rfl⟩⟩
        simp at hc; rw [hu, hc]
      | none =>
        have h1 : step H ap rel st (.sig s) = (if (H s).setsFlag then { st with flag := true } else st) := by
          simp [step, he, handle_safe rel (H s) st (hH s) (Or.inr hu)]
        rw [hstep _ h1]
        cases hf : (H s).setsFlag with
        | true => simpa [hf] using ih { st with flag := true } he hp ht
        | false => simpa [hf] using ih st he hp ht

theorem erase_map_eff (l : List ε) : erase (l.map Item.eff) = l.map Item.eff := by
  induction l with
  | nil => rfl
  | cons e r ih =>
    have : erase (Item.eff e :: r.map Item.eff) = Item.eff e :: erase (r.map Item.eff) := by
      simp [erase, isSig]
    rw [List.map_cons, this, ih]

theorem erase_append (a b : List (Item ε)) : erase (a ++ b) = erase a ++ erase b := by
  simp [erase, List.filter_append]

theorem erase_withPrompt (pre post : List ε) : erase (withPrompt pre post) = withPrompt pre post := by
  unfold withPrompt
  rw [erase_append, erase_append, erase_map_eff, erase_map_eff]
  simp [erase, isSig]

theorem effects_append (a b : List (Item ε)) : effects (a ++ b) = effects a ++ effects b := by
  induction a with
  | nil => rfl
  | cons i r ih => cases i <;> simp [effects, ih]

theorem effects_withPrompt (pre post : List ε) : effects (withPrompt pre post) = pre ++ post := by
  simp [withPrompt, effects_append, effects_map_eff, effects]

/-- a list without signal events is safe -/
theorem safe_noSig (H : Handlers) (items : List (Item ε)) (h : ∀ i ∈ items, isSig i = false) :
    ∀ p, safe H p items = true := by
  induction items with
  | nil => intro p; rfl
  | cons i r ih =>
    intro p
    have hr := ih (fun j hj => h j (List.mem_cons_of_mem _ hj))
    cases i with
    | eff e => simpa [safe] using hr p
    | promptOn => simpa [safe] using hr true
    | promptOff => simpa [safe] using hr false
    | sig s => have := h _ List.mem_cons_self; simp [isSig] at this

/-- if every handler stores the flag and none exits unconditionally, a run that did not exit inside a handler has the
    flag set iff a signal event occurred -/
theorem runFrom_flag (H : Handlers) (hH : NoExitAlways H) (hF : ∀ s, (H s).setsFlag = true) (ap : ε → ω → ω)
    (rel : ω → ω) (items : List (Item ε)) :
    ∀ st : St ω, st.exited = none → (runFrom H ap rel st items).exited = none →
      (runFrom H ap rel st items).flag = (st.flag || items.any isSig) := by
  induction items with
  | nil => intro st _ _; simp [runFrom]
  | cons i r ih =>
    intro st he hfin
    have hstep : ∀ st' : St ω, step H ap rel st i = st' → runFrom H ap rel st (i :: r) = runFrom H ap rel st' r := by
      intro st' h; simp [runFrom, List.foldl_cons, h]
    cases i with
    | eff e =>
      have h1 : step H ap rel st (.eff e) = { st with world := ap e st.world } := by simp [step, he]
      rw [hstep _ h1] at hfin ⊢
      simpa [isSig] using ih { st with world := ap e st.world } he hfin
    | promptOn =>
      have h1 : step H ap rel st .promptOn = { st with prompt := true } := by simp [step, he]
      rw [hstep _ h1] at hfin ⊢
      simpa [isSig] using ih { st with prompt := true } he hfin
    | promptOff =>
      have h1 : step H ap rel st .promptOff = { st with prompt := false } := by simp [step, he]
      rw [hstep _ h1] at hfin ⊢
      simpa [isSig] using ih { st with prompt := false } he hfin
    | sig s =>
      cases hx : (if st.prompt then (H s).exitUnderPrompt else none) with
      | some c0 =>
        have h1 : step H ap rel st (.sig s) = { st with exited := some c0, world := exitWorld rel (H s) st.world } := by
          simp [step, he, handle, hH s, hx]
        rw [hstep _ h1, frozen H ap rel _ (by simp) r] at hfin
        simp at hfin
      | none =>
        have h1 : step H ap rel st (.sig s) = { st with flag := true } := by
          simp [step, he, handle, hH s, hx, hF s]
        rw [hstep _ h1] at hfin ⊢
        simpa [isSig] using ih { st with flag := true } he hfin

theorem pre_keeps_user (pre : List Eff) (hpre : ∀ e ∈ pre, e = .lockCreate ∨ e = .other) (w : World) :
    (applyAll apEff w pre).user = w.user ∧ (applyAll apEff w pre).history = w.history := by
  induction pre generalizing w with
  | nil => exact ⟨rfl, rfl⟩
  | cons e r ih =>
    simp only [applyAll, List.foldl_cons]
    have h1 := ih (fun e' he' => hpre e' (List.mem_cons_of_mem _ he')) (apEff e w)
    simp only [applyAll] at h1
    rcases hpre e List.mem_cons_self with rfl | rfl <;> simpa [apEff] using h1

theorem relWorld_facts (w : World) :
    (relWorld w).lock = false ∧ (relWorld w).user = w.user ∧ (relWorld w).history = w.history := by
  unfold relWorld
  cases h : w.lock <;> simp [h]

end Signals
