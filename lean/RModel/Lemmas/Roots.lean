import RModel.Model.Hunks
/- de-duplication of walker entries over several search roots -/
namespace Hunks

theorem dedupAux_mem {α} (seen : List Bytes) (es : List (Bytes × α)) :
    ∀ e ∈ dedupAux seen es, e ∈ es ∧ e.1 ∉ seen := by
  induction es generalizing seen with
  | nil => intro e h; simp [dedupAux] at h
  | cons x xs ih =>
    intro e h
    simp only [dedupAux] at h
    split at h
    · obtain ⟨h1, h2⟩ := ih seen e h
      exact ⟨List.mem_cons_of_mem _ h1, h2⟩
    · rename_i hx
      rcases List.mem_cons.mp h with rfl | h
      · exact ⟨List.mem_cons_self, hx⟩
      · obtain ⟨h1, h2⟩ := ih (x.1 :: seen) e h
        exact ⟨List.mem_cons_of_mem _ h1, fun hm => h2 (List.mem_cons_of_mem _ hm)⟩

theorem dedupAux_pairwise {α} (seen : List Bytes) (es : List (Bytes × α)) :
    (dedupAux seen es).Pairwise (fun a b => a.1 ≠ b.1) := by
  induction es generalizing seen with
  | nil => simp [dedupAux]
  | cons x xs ih =>
    simp only [dedupAux]
    split
    · exact ih seen
    · refine List.pairwise_cons.mpr ⟨?_, ih (x.1 :: seen)⟩
      intro b hb heq
      exact (dedupAux_mem (x.1 :: seen) xs b hb).2 (by rw [heq]; exact List.mem_cons_self)

/-- every file the walker reached is still planned (exactly once) -/
theorem dedupAux_complete {α} (seen : List Bytes) (es : List (Bytes × α)) :
    ∀ e ∈ es, e.1 ∉ seen → ∃ e' ∈ dedupAux seen es, e'.1 = e.1 := by
  induction es generalizing seen with
  | nil => intro e h; simp at h
  | cons x xs ih =>
    intro e he hs
    simp only [dedupAux]
    split
    · rename_i hx
      rcases List.mem_cons.mp he with rfl | he
      · exact absurd hx hs
      · exact ih seen e he hs
    · rcases List.mem_cons.mp he with rfl | he
      · exact ⟨e, List.mem_cons_self, rfl⟩
      · by_cases hk : e.1 = x.1
        · exact ⟨x, List.mem_cons_self, hk.symm⟩
        · obtain ⟨e', h1, h2⟩ := ih (x.1 :: seen) e he (by
            intro hm
            rcases List.mem_cons.mp hm with h | h
            · exact hk h
            · exact hs h)
          exact ⟨e', List.mem_cons_of_mem _ h1, h2⟩

theorem eq_of_key_eq {α} {l : List (Bytes × α)} (h : l.Pairwise (fun a b => a.1 ≠ b.1)) :
    ∀ a ∈ l, ∀ b ∈ l, a.1 = b.1 → a = b := by
  induction l with
  | nil => intro a ha; simp at ha
  | cons x xs ih =>
    obtain ⟨hx, hxs⟩ := List.pairwise_cons.mp h
    intro a ha b hb hab
    rcases List.mem_cons.mp ha with rfl | ha' <;> rcases List.mem_cons.mp hb with rfl | hb'
    · rfl
    · exact absurd hab (hx b hb')
    · exact absurd hab.symm (hx a ha')
    · exact ih hxs a ha' b hb' hab

end Hunks
