import RModel.Model.LineEnv
import RModel.Lemmas.LineCompose
/-
  C06 lemmas, part 8: the composed one-line model (`Model/LineEnv.lean`).

  * `envReal_coerceOk`      the real coercion decision has the contract `CoerceOk`
  * `scanIdents_spans`      every identifier the extractor reports starts with a letter or `_` and ends with a letter, a
                            digit or `_` (both alternatives of the regex, with the back-tracking of `\b`)
  * `findAllG_within`       … and every reported segment (after dot splitting) lies inside such a span
  * `envReal_compound_nil`  on `d₁ ++ x ++ d₂` with neutral delimiters and `x` a key: every identifier of the line lies
                            inside the exact match, so the compound pass adds nothing and drops nothing
  * `lineHunksReal_occurrence`  the composed pipeline is `LinePipeline.lineHunks (cfgReal c)` on such a line
-/
open B CaseModel

namespace LinePipeline

-- ══ coercion ══════════════════════════════════════════════════════════════════════════════════════════════════════

theorem stripPrefix_eq_extractPrefix : ∀ (s : Bytes), stripPrefix s = (RenamePlan.extractPrefix s).2
  | [] => rfl
  | [a] => by
    by_cases h : a = 95
    · subst h; rfl
    · simp [stripPrefix, RenamePlan.extractPrefix, h]
  | a :: b :: r => by
    by_cases ha : a = 95
    · subst ha
      by_cases hb : b = 95
      · subst hb; rfl
      · simp [stripPrefix, RenamePlan.extractPrefix, hb]
    · simp [stripPrefix, RenamePlan.extractPrefix, ha]

/-- the first exit of `apply_coercion` -/
theorem applyCoercion_none_of_guard (T : RenamePlan.Tables) {ctx old : Bytes} (new : Bytes)
    (h : coerceGuard ctx old = true) : RenamePlan.applyCoercion T ctx old new = none := by
  unfold coerceGuard at h
  rw [stripPrefix_eq_extractPrefix] at h
  unfold RenamePlan.applyCoercion
  simp only [h, ↓reduceIte]

theorem coerceReal_none_of_guard (T : RenamePlan.Tables) {ctx old : Bytes} (new : Bytes)
    (h : coerceGuard ctx old = true) : coerceReal T ctx old new = none := by
  unfold coerceReal
  rw [applyCoercion_none_of_guard T new h]

theorem envReal_coerceOk (c : Cfg) : (envReal c).CoerceOk :=
  fun _ _ new h => coerceReal_none_of_guard coerceTables new h

theorem envReal_heurOk {c : Cfg} (h : c.env.HeurOk) : (envReal c).HeurOk := h

-- ══ the identifier extractor ═════════════════════════════════════════════════════════════════════════════════════

/-- last byte of an identifier: a letter, a digit or `_` -/
def okEnd (c : UInt8) : Bool := isAlnum c || c == 95

/-- a span `(s, e)` reported for the text `cs` that starts at absolute position `pos` -/
def SpanOK (pos : Nat) (cs : Bytes) (se : Nat × Nat) : Prop :=
  pos ≤ se.1 ∧ se.1 < se.2 ∧ (∃ a, (cs.drop (se.1 - pos)).head? = some a ∧ Compound.isIdStart a = true) ∧
    (∃ z, (cs.take (se.2 - pos)).getLast? = some z ∧ okEnd z = true) ∧ se.2 - pos ≤ cs.length

theorem dropWhile_nil_all {α} (p : α → Bool) : ∀ (l : List α), l.dropWhile p = [] → ∀ x ∈ l, p x = true
  | [], _, _, hx => by simp at hx
  | a :: l, h, x, hx => by
    rw [List.dropWhile_cons] at h
    split at h
    · rename_i hp
      rcases List.mem_cons.mp hx with rfl | hx
      · exact hp
      · exact dropWhile_nil_all p l h x hx
    · simp at h

theorem mem_takeWhile_imp' {α} {p : α → Bool} : ∀ {l : List α} {x : α}, x ∈ l.takeWhile p → p x = true
  | [], _, h => by simp at h
  | a :: l, x, h => by
    rw [List.takeWhile_cons] at h
    split at h
    · rename_i hp
      rcases List.mem_cons.mp h with rfl | h
      · exact hp
      · exact mem_takeWhile_imp' h
    · simp at h

theorem head?_dropWhile_not {α} (p : α → Bool) : ∀ (l : List α) (z : α), (l.dropWhile p).head? = some z → p z = false
  | [], _, h => by simp at h
  | a :: l, z, h => by
    rw [List.dropWhile_cons] at h
    split at h
    · exact head?_dropWhile_not p l z h
    · rename_i hp
      simp only [List.head?_cons, Option.some.injEq] at h
      subst h; simpa using hp

theorem getLast?_cons_of_ne {α} {a : α} {l : List α} (h : l ≠ []) : (a :: l).getLast? = l.getLast? := by
  obtain ⟨b, l', rfl⟩ := List.exists_cons_of_ne_nil h
  simp [List.getLast?_cons_cons]

theorem spanOK_shift {pos : Nat} {c : UInt8} {cs : Bytes} {se : Nat × Nat} (h : SpanOK (pos + 1) cs se) :
    SpanOK pos (c :: cs) se := by
  obtain ⟨h1, h2, ⟨a, ha, hia⟩, ⟨z, hz, hiz⟩, hb⟩ := h
  refine ⟨by omega, h2, ⟨a, ?_, hia⟩, ⟨z, ?_, hiz⟩, by simp only [List.length_cons]; omega⟩
  · rw [show se.1 - pos = (se.1 - (pos + 1)) + 1 by omega, List.drop_succ_cons]; exact ha
  · rw [show se.2 - pos = (se.2 - (pos + 1)) + 1 by omega, List.take_succ_cons]
    have hne : cs.take (se.2 - (pos + 1)) ≠ [] := by
      intro hh; rw [hh] at hz; simp at hz
    rw [getLast?_cons_of_ne hne]; exact hz

/-- the identifier alternative: the run of identifier bytes with trailing `-` / `.` given back -/
theorem identLen_spec {c : UInt8} (cs : Bytes) (hc : Compound.isIdStart c = true) :
    0 < Compound.identLen (c :: cs) ∧ Compound.identLen (c :: cs) ≤ (c :: cs).length ∧
      ∃ z, ((c :: cs).take (Compound.identLen (c :: cs))).getLast? = some z ∧ okEnd z = true := by
  have hdef : Compound.identLen (c :: cs) =
      (((c :: cs).takeWhile Compound.isIdChar).reverse.dropWhile (fun c => c == 45 || c == 46)).length := rfl
  rw [hdef]
  have hcid : Compound.isIdChar c = true := by
    simp only [Compound.isIdStart, Bool.or_eq_true] at hc
    simp only [Compound.isIdChar, isAlnum, Bool.or_eq_true]
    rcases hc with h | h
    · exact Or.inl (Or.inl (Or.inl (Or.inl h)))
    · exact Or.inl (Or.inl (Or.inr h))
  have hcp : (c == 45 || c == 46) = false := by
    simp only [Compound.isIdStart, isAlpha, isUpper, isLower, Bool.or_eq_true, Bool.and_eq_true, decide_eq_true_eq,
      beq_iff_eq] at hc
    cases h45 : c == 45 with
    | true => rw [beq_iff_eq] at h45; subst h45; revert hc; decide
    | false =>
      cases h46 : c == 46 with
      | true => rw [beq_iff_eq] at h46; subst h46; revert hc; decide
      | false => rfl
  generalize hrun : (c :: cs).takeWhile Compound.isIdChar = run
  have hpre : run <+: (c :: cs) := by rw [← hrun]; exact List.takeWhile_prefix _
  have hcmem : c ∈ run := by
    rw [← hrun, List.takeWhile_cons, hcid]; exact List.mem_cons_self ..
  generalize hr : run.reverse.dropWhile (fun c => c == 45 || c == 46) = r
  have hsplit : run.reverse = run.reverse.takeWhile (fun c => c == 45 || c == 46) ++ r := by
    rw [← hr]; exact (List.takeWhile_append_dropWhile ..).symm
  have hrne : r ≠ [] := by
    intro hnil
    rw [hnil] at hr
    have := dropWhile_nil_all _ _ hr c (by simpa using hcmem)
    rw [hcp] at this; exact absurd this (by decide)
  obtain ⟨z, r', hrz⟩ := List.exists_cons_of_ne_nil hrne
  have hzp : (z == 45 || z == 46) = false :=
    head?_dropWhile_not _ run.reverse z (by rw [hr, hrz]; rfl)
  have hzrun : z ∈ run := by
    have : z ∈ run.reverse := by rw [hsplit, hrz]; simp
    simpa using this
  have hzid : Compound.isIdChar z = true := by
    rw [← hrun] at hzrun; exact (mem_takeWhile_imp' hzrun)
  have hrun2 : run = r.reverse ++ (run.reverse.takeWhile (fun c => c == 45 || c == 46)).reverse := by
    have := congrArg List.reverse hsplit
    simpa using this
  refine ⟨by rw [hrz]; simp, ?_, z, ?_, ?_⟩
  · have l1 : r.length ≤ run.reverse.length := by
      rw [← hr]; exact (List.dropWhile_sublist _).length_le
    have l2 := hpre.length_le
    simp only [List.length_reverse] at l1
    omega
  · obtain ⟨t, ht⟩ := hpre
    have htake : (c :: cs).take r.length = r.reverse := by
      rw [← ht, hrun2, List.append_assoc, ← List.length_reverse]
      exact List.take_left' rfl
    rw [htake, hrz]; simp
  · simp only [Compound.isIdChar, Bool.or_eq_true] at hzid
    simp only [Bool.or_eq_false_iff] at hzp
    simp only [okEnd, Bool.or_eq_true]
    rcases hzid with ((h | h) | h) | h
    · exact Or.inl h
    · exact Or.inr h
    · rw [hzp.1] at h; exact absurd h (by decide)
    · rw [hzp.2] at h; exact absurd h (by decide)

/-- end of a complete group of the Title alternative: a positive position whose last byte is a lower-case letter -/
def TitleEnd (s : Bytes) (n : Nat) : Prop :=
  0 < n ∧ n ≤ s.length ∧ ∃ z, (s.take n).getLast? = some z ∧ isLower z = true

theorem titleWordLen_spec {s : Bytes} {n : Nat} (h : Compound.titleWordLen s = some n) : TitleEnd s n := by
  unfold Compound.titleWordLen at h
  split at h
  · rename_i c d r
    split at h
    · rename_i hcd
      simp only [Option.some.injEq] at h
      subst h
      have hle : (r.takeWhile isLower).length ≤ r.length := (List.takeWhile_prefix (l := r) isLower).length_le
      refine ⟨by omega, by simp only [List.length_cons]; omega, ?_⟩
      have htake : (c :: d :: r).take (2 + (r.takeWhile isLower).length) = c :: d :: r.takeWhile isLower := by
        rw [show 2 + (r.takeWhile isLower).length = (r.takeWhile isLower).length + 1 + 1 by omega,
          List.take_succ_cons, List.take_succ_cons]
        congr 2
        exact (List.prefix_iff_eq_take.mp (List.takeWhile_prefix (l := r) isLower)).symm
      rw [htake, getLast?_cons_of_ne (by simp)]
      have hall : ∀ y ∈ d :: r.takeWhile isLower, isLower y = true := by
        intro y hy
        rcases List.mem_cons.mp hy with rfl | hy
        · simp only [Bool.and_eq_true] at hcd; exact hcd.2
        · exact mem_takeWhile_imp' hy
      cases hl : (d :: r.takeWhile isLower).getLast? with
      | none => simp at hl
      | some z => exact ⟨z, rfl, hall z (List.mem_of_getLast? hl)⟩
    · simp at h
  · simp at h

theorem titleEnd_add {s : Bytes} {a n : Nat} (h : TitleEnd (s.drop a) n) : TitleEnd s (a + n) := by
  obtain ⟨hn, hle, z, hz, hl⟩ := h
  refine ⟨by omega, by rw [List.length_drop] at hle; omega, z, ?_, hl⟩
  rw [List.take_add, List.getLast?_append, hz]; rfl

theorem titleEnds_spec {s : Bytes} : ∀ (fuel : Nat) (t : Bytes) (off : Nat) (acc : List Nat), t = s.drop off →
    (∀ n ∈ acc, TitleEnd s n) → ∀ n ∈ Compound.titleEnds fuel t off acc, TitleEnd s n
  | 0, _, _, _, _, hacc => by simpa [Compound.titleEnds] using hacc
  | fuel + 1, t, off, acc, ht, hacc => by
    subst ht
    intro n hn
    unfold Compound.titleEnds at hn
    simp only at hn
    split at hn
    · exact hacc n hn
    · split at hn
      · exact hacc n hn
      · rename_i m hm
        refine titleEnds_spec fuel _ _ _ ?_ ?_ n hn
        · rw [List.drop_drop]; congr 1; omega
        · intro k hk
          rcases List.mem_cons.mp hk with rfl | hk
          · have := titleWordLen_spec hm
            rw [List.drop_drop] at this
            exact titleEnd_add this
          · exact hacc k hk

theorem titleLen_spec {s : Bytes} {n : Nat} (h : Compound.titleLen s = some n) : TitleEnd s n := by
  unfold Compound.titleLen at h
  split at h
  · simp at h
  · rename_i n0 h0
    have hmem := List.mem_of_find?_eq_some h
    refine titleEnds_spec (s := s) s.length (s.drop n0) n0 [n0] rfl ?_ n hmem
    intro k hk
    simp only [List.mem_singleton] at hk
    subst hk
    exact titleWordLen_spec h0

theorem lower_okEnd {z : UInt8} (h : isLower z = true) : okEnd z = true := by
  simp only [okEnd, isAlnum, isAlpha, h, Bool.or_true, Bool.true_or]

/-- the span that starts at `c` and the rest of the scan, for either answer of the word-boundary test -/
theorem scanIdents_step (title : Bool) (c : UInt8) (cs : Bytes) (pos : Nat) (atB : Bool) (se : Nat × Nat)
    (ih : ∀ prev skip, ∀ se ∈ Compound.scanIdents title prev skip (pos + 1) cs, SpanOK (pos + 1) cs se)
    (h : se ∈ (if (atB && Compound.isIdStart c) = true then
        (pos, pos + match (if title = true then Compound.titleLen (c :: cs) else none) with
          | some n => n | none => Compound.identLen (c :: cs)) ::
          Compound.scanIdents title (some c)
            ((match (if title = true then Compound.titleLen (c :: cs) else none) with
              | some n => n | none => Compound.identLen (c :: cs)) - 1) (pos + 1) cs
      else Compound.scanIdents title (some c) 0 (pos + 1) cs)) : SpanOK pos (c :: cs) se := by
  split at h
  · rename_i hcond
    simp only [Bool.and_eq_true] at hcond
    rcases List.mem_cons.mp h with rfl | h
    · have hlen : 0 < (match (if title = true then Compound.titleLen (c :: cs) else none) with
            | some n => n | none => Compound.identLen (c :: cs)) ∧
          (match (if title = true then Compound.titleLen (c :: cs) else none) with
            | some n => n | none => Compound.identLen (c :: cs)) ≤ (c :: cs).length ∧
          ∃ z, ((c :: cs).take (match (if title = true then Compound.titleLen (c :: cs) else none) with
            | some n => n | none => Compound.identLen (c :: cs))).getLast? = some z ∧ okEnd z = true := by
        split
        · rename_i n hn
          have ht : Compound.titleLen (c :: cs) = some n := by
            split at hn
            · exact hn
            · simp at hn
          obtain ⟨hp, hle, z, hz, hl⟩ := titleLen_spec ht
          exact ⟨hp, hle, z, hz, lower_okEnd hl⟩
        · exact identLen_spec cs hcond.2
      obtain ⟨hpos, hle, z, hz, hok⟩ := hlen
      refine ⟨Nat.le_refl _, by simp only; omega, ⟨c, by simp, hcond.2⟩, ⟨z, ?_, hok⟩, ?_⟩
      · simp only [Nat.add_sub_cancel_left]
        exact hz
      · simp only [Nat.add_sub_cancel_left]
        exact hle
    · exact spanOK_shift (ih _ _ se h)
  · exact spanOK_shift (ih _ _ se h)

/-- every span the regex scan reports -/
theorem scanIdents_spans (title : Bool) : ∀ (cs : Bytes) (prev : Option UInt8) (skip pos : Nat),
    ∀ se ∈ Compound.scanIdents title prev skip pos cs, SpanOK pos cs se
  | [], _, skip, _ => by intro se h; cases skip <;> simp [Compound.scanIdents] at h
  | c :: cs, prev, skip + 1, pos => by
    intro se h
    rw [Compound.scanIdents] at h
    exact spanOK_shift (scanIdents_spans title cs _ _ _ se h)
  | c :: cs, none, 0, pos => by
    intro se h
    unfold Compound.scanIdents at h
    exact scanIdents_step title c cs pos true se (fun p k => scanIdents_spans title cs p k (pos + 1)) h
  | c :: cs, some p, 0, pos => by
    intro se h
    unfold Compound.scanIdents at h
    exact scanIdents_step title c cs pos (!Compound.isWord p) se
      (fun p k => scanIdents_spans title cs p k (pos + 1)) h

-- dot splitting ---------------------------------------------------------------------------------------------------------

/-- total length of the parts plus one separator each -/
def totLen (parts : List Bytes) : Nat := (parts.map (fun p => p.length + 1)).sum

theorem totLen_splitOn_go (d : UInt8) : ∀ (s cur : Bytes), totLen (splitOn.go d s cur) = s.length + cur.length + 1
  | [], cur => by simp [splitOn.go, totLen]
  | c :: cs, cur => by
    rw [splitOn.go]
    split
    · simp only [totLen, List.map_cons, List.sum_cons, List.length_reverse, List.length_cons]
      have := totLen_splitOn_go d cs []
      simp only [totLen, List.length_nil] at this
      omega
    · rw [totLen_splitOn_go d cs (c :: cur)]
      simp only [List.length_cons]; omega

theorem totLen_splitOn (s : Bytes) (d : UInt8) : totLen (splitOn s d) = s.length + 1 := by
  unfold splitOn; rw [totLen_splitOn_go]; simp

theorem splitDots_within (trim : Bool) : ∀ (parts : List Bytes) (pos : Nat),
    ∀ x ∈ Compound.splitDots trim pos parts, pos ≤ x.1 ∧ x.2.1 + 1 ≤ pos + totLen parts
  | [], _ => by intro x h; simp [Compound.splitDots] at h
  | p :: ps, pos => by
    intro x h
    rw [Compound.splitDots] at h
    have hseg : (if trim = true then p.dropWhile (fun x => x == 45) else p).length ≤ p.length := by
      split
      · exact (List.dropWhile_sublist _).length_le
      · exact Nat.le_refl _
    generalize (if trim = true then p.dropWhile (fun x => x == 45) else p) = seg at h hseg
    have htot : totLen (p :: ps) = p.length + 1 + totLen ps := by simp [totLen]
    rcases List.mem_append.mp h with h | h
    · split at h
      · simp at h
      · simp only [List.mem_singleton] at h
        subst h
        simp only
        omega
    · have := splitDots_within trim ps _ x h
      omega

/-- every identifier handed to the compound matcher lies inside a span of the regex scan -/
theorem findAllG_within (trim : Bool) (styles : List Style) (content : Bytes) :
    ∀ x ∈ Compound.findAllG trim styles content,
      ∃ se ∈ Compound.scanIdents (styles.contains .title) none 0 0 content, se.1 ≤ x.1 ∧ x.2.1 ≤ se.2 := by
  intro x hx
  unfold Compound.findAllG at hx
  simp only [List.mem_flatMap] at hx
  obtain ⟨se, hse, hx⟩ := hx
  refine ⟨se, hse, ?_⟩
  obtain ⟨_, hlt, _, _, _⟩ := scanIdents_spans _ content none 0 0 se hse
  obtain ⟨s, e⟩ := se
  simp only at hx hlt ⊢
  split at hx
  · have := splitDots_within trim _ s x hx
    rw [totLen_splitOn] at this
    have hl : ((content.drop s).take (e - s)).length ≤ e - s := by
      rw [List.length_take]; exact Nat.min_le_left _ _
    omega
  · simp only [List.mem_singleton] at hx
    subst hx
    exact ⟨Nat.le_refl _, Nat.le_refl _⟩

-- ══ the line `d₁ ++ x ++ d₂` ═══════════════════════════════════════════════════════════════════════════════════════

theorem neutral_not_idStart {c : UInt8} (h : neutralByte c = true) : Compound.isIdStart c = false := by
  simp only [neutralByte, Bool.and_eq_true, Bool.not_eq_true', bne_iff_ne, ne_eq] at h
  simp only [Compound.isIdStart, Bool.or_eq_false_iff, beq_eq_false_iff_ne, ne_eq]
  refine ⟨?_, h.2⟩
  have := h.1.1
  simp only [isAlnum, Bool.or_eq_false_iff] at this
  exact this.1

theorem neutral_not_okEnd {c : UInt8} (h : neutralByte c = true) : okEnd c = false := by
  simp only [neutralByte, Bool.and_eq_true, Bool.not_eq_true', bne_iff_ne, ne_eq] at h
  simp only [okEnd, Bool.or_eq_false_iff, beq_eq_false_iff_ne, ne_eq]
  exact ⟨h.1.1, h.2⟩

/-- a span of the regex scan on `d₁ ++ x ++ d₂` lies inside `x` -/
theorem span_inside {d₁ x d₂ : Bytes} (h1 : NeutralDelim d₁) (h2 : NeutralDelim d₂) {se : Nat × Nat}
    (h : SpanOK 0 (d₁ ++ x ++ d₂) se) : d₁.length ≤ se.1 ∧ se.2 ≤ d₁.length + x.length := by
  obtain ⟨_, hlt, ⟨a, ha, hia⟩, ⟨z, hz, hiz⟩, hb⟩ := h
  simp only [Nat.sub_zero] at ha hz hb
  rw [List.head?_drop] at ha
  have hs : d₁.length ≤ se.1 := by
    apply Nat.le_of_not_lt
    intro hlt'
    rw [List.append_assoc, List.getElem?_append_left hlt'] at ha
    have := neutral_not_idStart (h1 a (List.mem_of_getElem? ha))
    rw [this] at hia; exact absurd hia (by decide)
  refine ⟨hs, ?_⟩
  apply Nat.le_of_not_lt
  intro hgt
  -- the last byte of the span would lie in d₂
  have hpos : 0 < se.2 := by omega
  have hget : (d₁ ++ x ++ d₂)[se.2 - 1]? = some z := by
    rw [← hz, List.getLast?_take]
    have hne : se.2 ≠ 0 := by omega
    simp only [hne, ↓reduceIte]
    have hlt3 : se.2 - 1 < (d₁ ++ x ++ d₂).length := by omega
    rw [List.getElem?_eq_getElem hlt3]; rfl
  have hk : d₂[se.2 - 1 - (d₁.length + x.length)]? = some z := by
    rw [← hget, List.getElem?_append_right (by simp only [List.length_append]; omega)]
    simp only [List.length_append]
  have := neutral_not_okEnd (h2 z (List.mem_of_getElem? hk))
  rw [this] at hiz; exact absurd hiz (by decide)

/-- the exact pass on the line (the statement of `C06.exact_pass_finds_occurrence`, here for the lemmas below) -/
theorem exactMatches_occurrence {ks : List Bytes} {d₁ x d₂ : Bytes} (hx : x ∈ ks) (hk : ∀ k ∈ ks, Ends k)
    (h1 : NeutralDelim d₁) (h2 : NeutralDelim d₂) :
    exactMatches (d₁ ++ x ++ d₂) ks = [(d₁.length, x)] := by
  have hne : x ≠ [] := by obtain ⟨⟨c, cs, h, _⟩, _⟩ := hk x hx; rw [h]; simp
  unfold exactMatches
  rw [findIter_occurrence hx hne (noStart_neutral hk h1) (noStart_neutral hk h2)
    (fun k hkm hp hlt => no_extension (hk k hkm) h2 hp hlt)]
  simp only [List.filter_cons, isBoundary_neutral h1 h2, if_true, List.filter_nil]

/-- no identifier of the line reaches outside the exact match: the compound matcher is never asked -/
theorem compoundCands_nil {c : Cfg} {d₁ x d₂ : Bytes} (h1 : NeutralDelim d₁) (h2 : NeutralDelim d₂) :
    compoundCands c (d₁ ++ x ++ d₂) [(d₁.length, d₁.length + x.length)] = [] := by
  unfold compoundCands
  rw [List.filterMap_eq_nil_iff]
  intro y hy
  obtain ⟨se, hse, hle1, hle2⟩ := findAllG_within _ _ _ y hy
  have hin := span_inside h1 h2 (scanIdents_spans _ _ none 0 0 se hse)
  unfold Compound.compoundOf
  have : ([(d₁.length, d₁.length + x.length)].any fun x_1 =>
      match x_1 with
      | (ps, pe) => decide (ps ≤ y.1) && decide (pe ≥ y.2.1)) = true := by
    simp only [List.any_cons, List.any_nil, Bool.or_false, Bool.and_eq_true, decide_eq_true_eq]
    omega
  rw [this]; rfl

theorem containsKey_of_get {m : SMap} {k v : Bytes} (h : m.get k = some v) : m.containsKey k = true := by
  unfold SMap.containsKey
  unfold SMap.get at h
  cases hl : m.lookup k with
  | none => rw [hl] at h; simp at h
  | some l => rfl

/-- `find_enhanced_matches` on the line: exactly the exact match -/
theorem finalMs_occurrence {c : Cfg} {d₁ x d₂ : Bytes}
    (hskip : skipExact c.A c.search (stylesSlice c.opts) = false)
    (hx : x ∈ c.vmap.keys) (hk : ∀ k ∈ c.vmap.keys, Ends k) (h1 : NeutralDelim d₁) (h2 : NeutralDelim d₂) :
    finalMs c (d₁ ++ x ++ d₂) =
      [Compound.mkM (d₁ ++ x ++ d₂) d₁.length (d₁.length + x.length) x x] := by
  unfold finalMs exactOf
  simp only [hskip, Bool.false_eq_true, ↓reduceIte, exactMatches_occurrence hx hk h1 h2, spansOf, List.map_cons,
    List.map_nil, compoundCands_nil h1 h2, List.append_nil]
  simp [Compound.sortM, Compound.insertM, Compound.resolveStep]

/-- on `d₁ ++ x ++ d₂` (neutral delimiters, `x` a key of the map, every key starting and ending with a letter) the compound
    pass contributes no hunk — for EVERY neutral delimiter, `.`, white space and non-ASCII bytes included -/
theorem envReal_compound_nil {c : Cfg} {d₁ x d₂ : Bytes} {v : Bytes}
    (hskip : skipExact c.A c.search (stylesSlice c.opts) = false)
    (hx : x ∈ c.vmap.keys) (hk : ∀ k ∈ c.vmap.keys, Ends k) (hget : c.vmap.get x = some v)
    (h1 : NeutralDelim d₁) (h2 : NeutralDelim d₂) :
    (envReal c).compound (d₁ ++ x ++ d₂) = [] := by
  show compoundHunks c _ = []
  unfold compoundHunks
  rw [finalMs_occurrence hskip hx hk h1 h2]
  simp [Compound.mkM, containsKey_of_get hget]

/-- … and the overlap resolution keeps the exact match -/
theorem keptExact_occurrence {c : Cfg} {d₁ x d₂ : Bytes} {v : Bytes}
    (hskip : skipExact c.A c.search (stylesSlice c.opts) = false)
    (hx : x ∈ c.vmap.keys) (hk : ∀ k ∈ c.vmap.keys, Ends k) (hget : c.vmap.get x = some v)
    (h1 : NeutralDelim d₁) (h2 : NeutralDelim d₂) :
    keptExact c (d₁ ++ x ++ d₂) = exactMatches (d₁ ++ x ++ d₂) c.vmap.keys := by
  unfold keptExact
  rw [finalMs_occurrence hskip hx hk h1 h2, exactMatches_occurrence hx hk h1 h2]
  simp [Compound.mkM, containsKey_of_get hget]

/-- the pre-filter lets the file through: a key occurs in it -/
theorem prefilter_occurrence {c : Cfg} {d₁ x d₂ : Bytes} (hx : x ∈ c.vmap.keys) (hk : ∀ k ∈ c.vmap.keys, Ends k)
    (h1 : NeutralDelim d₁) : prefilter c (d₁ ++ x ++ d₂) = true := by
  obtain ⟨⟨a, cs, hxc, hca⟩, _⟩ := hk x hx
  unfold prefilter matcherPatterns
  rw [List.any_eq_true]
  refine ⟨x, List.mem_append_left _ hx, ?_⟩
  have hhead : ∀ z ∈ d₁, x.head? ≠ some z := by
    intro z hz hh
    rw [hxc] at hh
    simp only [List.head?_cons, Option.some.injEq] at hh
    subst hh
    have := h1 _ hz
    rw [alpha_not_neutral hca] at this
    exact absurd this (by decide)
  have := findSub_occurrence (d₂ := d₂) (by rw [hxc]; simp) hhead
  unfold findSub at this
  rw [this]; rfl

/-- the composed pipeline coincides with `LinePipeline.lineHunks` run with the real environment on such a line -/
theorem lineHunksReal_occurrence {c : Cfg} {d₁ x d₂ : Bytes} {v : Bytes}
    (hskip : skipExact c.A c.search (stylesSlice c.opts) = false)
    (hx : x ∈ c.vmap.keys) (hk : ∀ k ∈ c.vmap.keys, Ends k) (hget : c.vmap.get x = some v)
    (h1 : NeutralDelim d₁) (h2 : NeutralDelim d₂) :
    lineHunksReal c (d₁ ++ x ++ d₂) = lineHunks (cfgReal c) (d₁ ++ x ++ d₂) := by
  unfold lineHunksReal lineHunks
  have hv : (cfgReal c).vmap = c.vmap := rfl
  have hs : skipExact (cfgReal c).A (cfgReal c).search (stylesSlice (cfgReal c).opts) = false := hskip
  have hc : (cfgReal c).env.compound (d₁ ++ x ++ d₂) = [] := envReal_compound_nil hskip hx hk hget h1 h2
  simp only [prefilter_occurrence hx hk h1, Bool.not_true, Bool.false_eq_true, ↓reduceIte, hs, hv,
    keptExact_occurrence hskip hx hk hget h1 h2, exactMatches_occurrence hx hk h1 h2, exactHunks, hc, List.map_nil,
    List.append_nil]
  cases hunkReplacement (cfgReal c).A (cfgReal c).env c.vmap (d₁ ++ x ++ d₂) d₁.length x (cfgReal c).replace with
  | none => rfl
  | some r => simp [sortEdits, insertEdit]

theorem rewriteLineReal_occurrence {c : Cfg} {d₁ x d₂ : Bytes} {v : Bytes}
    (hskip : skipExact c.A c.search (stylesSlice c.opts) = false)
    (hx : x ∈ c.vmap.keys) (hk : ∀ k ∈ c.vmap.keys, Ends k) (hget : c.vmap.get x = some v)
    (h1 : NeutralDelim d₁) (h2 : NeutralDelim d₂) :
    rewriteLineReal c (d₁ ++ x ++ d₂) = rewriteLine (cfgReal c) (d₁ ++ x ++ d₂) := by
  unfold rewriteLineReal rewriteLine
  rw [lineHunksReal_occurrence hskip hx hk hget h1 h2]
  rfl

end LinePipeline
