import RModel.Lemmas.C20Base
/- C20: the generated verdict re-derived by kernel evaluation. -/
namespace C20
open Wrap Cli

set_option maxRecDepth 1000000 in
/-- the generated verdict is what the model computes: exactly the `knownBad` entries for which some probed
    valuation falls under this entry (and no other that names a field) and has its command line rejected
    or misread -/
theorem verdict_exact_lemma : liveSlugsOf G Gen.Wrappers.builders = live := by decide +kernel

end C20
