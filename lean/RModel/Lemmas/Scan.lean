import RModel.Model.Scan
import RModel.Lemmas.SortPerm
/-
  Helper lemmas for C14 (`Props/C14.lean`): the hunk order is a total preorder whose symmetric part is key
  equality; the probe block is the identity on trees; frame lemmas for effect programs.
-/

namespace Scan
open SortPerm

variable {F : Type} [DecidableEq F]

theorem hunkLe_total {fle : F → F → Bool} (ord : FileOrder fle) (a b : Hunk F) :
    hunkLe fle a b = true ∨ hunkLe fle b a = true := by
  unfold hunkLe
  by_cases hf : a.file = b.file
  · rw [if_pos hf, if_pos hf.symm]
    by_cases hl : a.line = b.line
    · rw [if_pos hl, if_pos hl.symm]; simp only [decide_eq_true_eq]; omega
    · rw [if_neg hl, if_neg (fun h => hl h.symm)]; simp only [decide_eq_true_eq]; omega
  · rw [if_neg hf, if_neg (fun h => hf h.symm)]; exact ord.total _ _

theorem hunkLe_trans {fle : F → F → Bool} (ord : FileOrder fle) (a b c : Hunk F)
    (hab : hunkLe fle a b = true) (hbc : hunkLe fle b c = true) : hunkLe fle a c = true := by
  unfold hunkLe at *
  by_cases h1 : a.file = b.file
  · by_cases h2 : b.file = c.file
    · have h3 : a.file = c.file := h1.trans h2
      simp only [h1, h2, if_true] at hab hbc ⊢
      by_cases l1 : a.line = b.line <;> by_cases l2 : b.line = c.line <;> by_cases l3 : a.line = c.line <;>
        simp_all <;> omega
    · have h3 : ¬ a.file = c.file := fun h => h2 (h1.symm.trans h)
      simp only [h2, h3, if_false] at hbc ⊢
      rw [h1]; exact hbc
  · by_cases h2 : b.file = c.file
    · have h3 : ¬ a.file = c.file := fun h => h1 (h.trans h2.symm)
      simp only [h1, h3, if_false] at hab ⊢
      rw [← h2]; exact hab
    · simp only [h1, h2, if_false] at hab hbc
      by_cases h3 : a.file = c.file
      · exfalso
        rw [← h3] at hbc
        exact h1 (ord.antisymm _ _ hab hbc)
      · simp only [h3, if_false]
        exact ord.trans _ _ _ hab hbc

theorem hunkLe_preorder {fle : F → F → Bool} (ord : FileOrder fle) : TotalPreorder (hunkLe fle) :=
  ⟨hunkLe_total ord, hunkLe_trans ord⟩

/-- two hunks that are `≤` each other have the same key -/
theorem hunkLe_antisymm_key {fle : F → F → Bool} (ord : FileOrder fle) (a b : Hunk F)
    (hab : hunkLe fle a b = true) (hba : hunkLe fle b a = true) :
    a.file = b.file ∧ a.line = b.line ∧ a.byteOffset = b.byteOffset := by
  unfold hunkLe at *
  by_cases hf : a.file = b.file
  · rw [if_pos hf] at hab
    rw [if_pos hf.symm] at hba
    by_cases hl : a.line = b.line
    · rw [if_pos hl] at hab
      rw [if_pos hl.symm] at hba
      simp only [decide_eq_true_eq] at hab hba
      exact ⟨hf, hl, by omega⟩
    · rw [if_neg hl] at hab
      rw [if_neg (fun h => hl h.symm)] at hba
      simp only [decide_eq_true_eq] at hab hba
      omega
  · rw [if_neg hf] at hab
    rw [if_neg (fun h => hf h.symm)] at hba
    exact absurd (ord.antisymm _ _ hab hba) hf

omit [DecidableEq F] in
theorem length_flatMap_sum (scanFile : F → List (Hunk F)) (files : List F) :
    (files.flatMap scanFile).length = (files.map (fun f => (scanFile f).length)).sum := by
  induction files with
  | nil => rfl
  | cons f r ih => simp [List.flatMap_cons, ih]

def probeBlock : List FsOp :=
  [.mkdir .probeDir, .openw .probeFile, .write .probeFile, .unlink .probeFile, .rmdir .probeDir]

/-- create-and-remove of a fresh probe directory is the identity on trees -/
theorem probe_block_identity (t : T) (h1 : t .probeDir = none) (h2 : t .probeFile = none) : exec t probeBlock = t := by
  funext q
  simp only [exec, probeBlock, List.foldl_cons, List.foldl_nil, applyOp, h1, if_true]
  by_cases hd : q = .probeDir
  · subst hd; simp [upd, h1]
  · by_cases hf : q = .probeFile
    · subst hf; simp [upd, h2]
    · simp [upd, hd, hf]

theorem exec_append (t : T) (a b : List FsOp) : exec t (a ++ b) = exec (exec t a) b := by
  simp [exec, List.foldl_append]

/-- frame: an operation changes only the paths it writes -/
theorem applyOp_frame (t : T) (op : FsOp) (q : P) (hq : q ∉ written op) : applyOp t op q = t q := by
  cases op with
  | mkdir p =>
    simp only [written, List.mem_cons, List.not_mem_nil, or_false] at hq
    simp only [applyOp]; split <;> simp [upd, hq]
  | openw p => simp only [written, List.mem_cons, List.not_mem_nil, or_false] at hq; simp [applyOp, upd, hq]
  | write p =>
    simp only [written, List.mem_cons, List.not_mem_nil, or_false] at hq
    unfold applyOp
    cases ht : t p with
    | none => simp [ht]
    | some nd =>
      cases nd with
      | dir => simp [ht]
      | file n => simp [ht, upd, hq]
  | unlink p => simp only [written, List.mem_cons, List.not_mem_nil, or_false] at hq; simp [applyOp, upd, hq]
  | rmdir p => simp only [written, List.mem_cons, List.not_mem_nil, or_false] at hq; simp [applyOp, upd, hq]
  | rename a b =>
    simp only [written, List.mem_cons, List.not_mem_nil, or_false, not_or] at hq
    simp [applyOp, upd, hq.1, hq.2]
  | link a b =>
    simp only [written, List.mem_cons, List.not_mem_nil, or_false] at hq
    simp only [applyOp]; split <;> simp [upd, hq]

theorem exec_frame (prog : List FsOp) (t : T) (q : P) (hq : ∀ op ∈ prog, q ∉ written op) : exec t prog q = t q := by
  induction prog generalizing t with
  | nil => rfl
  | cons op r ih =>
    simp only [exec, List.foldl_cons] at ih ⊢
    rw [ih (applyOp t op) (fun o ho => hq o (List.mem_cons_of_mem _ ho))]
    exact applyOp_frame t op q (hq op List.mem_cons_self)

def ignoreBlock : List FsOp := [.openw .ignoreTmp, .write .ignoreTmp, .rename .ignoreTmp .ignoreFile]

theorem program_autoinit (cmd : Cmd) (d ex pr : Bool) :
    program ⟨cmd, d, ex, true, pr⟩ = ignoreBlock ++ program ⟨cmd, d, ex, false, pr⟩ := by
  simp [program, programG, programGP, ignoreBlock]

/-- the ignore-file steps change the ignore file and nothing else (the temp file is fresh and gone afterwards) -/
theorem ignore_block_frame (t : T) (h : t .ignoreTmp = none) (q : P) (hq : q ≠ .ignoreFile) :
    exec t ignoreBlock q = t q := by
  by_cases hq2 : q = .ignoreTmp
  · subst hq2
    simp [exec, ignoreBlock, applyOp, upd, h]
  · apply exec_frame
    intro op hop
    simp only [ignoreBlock, List.mem_cons, List.not_mem_nil, or_false] at hop
    rcases hop with rfl | rfl | rfl <;> simp [written, hq, hq2]

/-- the order-preserving de-duplication yields a sublist: relative order is never changed -/
theorem dedupAux_sublist {α κ : Type} [DecidableEq κ] (key : α → κ) (l : List α) :
    ∀ seen, (dedupAux key seen l).Sublist l := by
  induction l with
  | nil => intro _; exact List.Sublist.refl _
  | cons x xs ih =>
    intro seen
    unfold dedupAux
    split
    · exact List.Sublist.cons _ (ih seen)
    · exact List.Sublist.cons_cons _ (ih _)

end Scan
