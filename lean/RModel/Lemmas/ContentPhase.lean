import RModel.Model.Apply
import RModel.Lemmas.RenamePhase
import RModel.Lemmas.PathOrder
/-
  STEP 2 of `apply_plan` as ONE equation: when the content phase succeeds on a tree with distinct keys, the tree it leaves
  is the original tree with every planned file's bytes replaced by `applyEdits` of ITS ORIGINAL bytes, and nothing else
  touched — as a `List.map` over the tree, so order, keys, modes, directories and links are visibly unchanged.
  Used by `C02ren.apply_exact`.
-/
namespace ContentPhase
open Fs Apply RenamePhase

/-- what the plan says about the node at `k`: a regular file named by a hunk gets its edits, everything else stays -/
def editNode (hs : List Hunk) (fs : List Path) (k : Path) (n : Node) : Node :=
  if k ∈ fs then
    match n with
    | .file c m =>
      (match Edits.applyEdits c (editsFor hs k) with
       | .ok c' => .file c' m
       | .error _ => n)
    | n => n
  else n

/-- the reference result of the content phase -/
def editAll (hs : List Hunk) (fs : List Path) (t : Tree) : Tree := t.map (fun e => (e.1, editNode hs fs e.1 e.2))

theorem editNode_nil (hs : List Hunk) (k : Path) (n : Node) : editNode hs [] k n = n := by
  simp [editNode]

theorem editAll_nil (hs : List Hunk) (t : Tree) : editAll hs [] t = t := by
  unfold editAll
  conv => rhs; rw [← List.map_id t]
  apply List.map_congr_left
  intro e _
  rw [editNode_nil]; rfl

/-- with distinct keys, the entry carrying a key is the one `lookup` finds -/
theorem node_of_mem {t : Tree} (hd : t.Pairwise (fun a b => a.1 ≠ b.1)) {e : Path × Node} (he : e ∈ t) :
    lookup t e.1 = some e.2 := by
  induction t with
  | nil => cases he
  | cons x xs ih =>
    rw [List.pairwise_cons] at hd
    unfold lookup
    rcases List.mem_cons.mp he with rfl | he'
    · simp [List.find?_cons]
    · have hne : (x.1 == e.1) = false := by
        have := hd.1 e he'
        exact beq_false_of_ne this
      simp only [List.find?_cons, hne]
      have := ih hd.2 he'
      unfold lookup at this
      exact this

theorem keys_setContent (t : Tree) (p : Path) (c : Bytes) : (setContent t p c).map (·.1) = t.map (·.1) := by
  rw [setContent_eq]
  simp [List.map_map, Function.comp_def]

theorem pairwise_setContent {t : Tree} (hd : t.Pairwise (fun a b => a.1 ≠ b.1)) (p : Path) (c : Bytes) :
    (setContent t p c).Pairwise (fun a b => a.1 ≠ b.1) := by
  have h1 : (t.map (·.1)).Pairwise (· ≠ ·) := List.pairwise_map.2 hd
  rw [← keys_setContent t p c] at h1
  exact List.pairwise_map.1 h1

/-- THE CONTENT PHASE, EXACTLY.  For every hunk list, every list of distinct file keys and every tree with distinct keys:
    if the phase succeeds, the result is `editAll` of the ORIGINAL tree. -/
theorem contentPhase_exact (hs : List Hunk) : ∀ (fs : List Path) (t t1 : Tree),
    fs.Pairwise (fun a b => a ≠ b) → t.Pairwise (fun a b => a.1 ≠ b.1) →
    contentPhase hs t fs = (.ok, t1) → t1 = editAll hs fs t := by
  intro fs
  induction fs with
  | nil =>
    intro t t1 _ _ h
    simp only [contentPhase, Prod.mk.injEq, true_and] at h
    rw [editAll_nil]; exact h.symm
  | cons f fs ih =>
    intro t t1 hfs hd h
    rw [List.pairwise_cons] at hfs
    simp only [contentPhase] at h
    cases hl : lookup t f with
    | none => simp [hl] at h
    | some n =>
      cases n with
      | dir m => simp [hl] at h
      | link tg => simp [hl] at h
      | file c m =>
        simp only [hl] at h
        by_cases hv : Utf8.valid c = true
        · simp only [hv, Bool.not_true, Bool.false_eq_true, if_false] at h
          cases ha : Edits.applyEdits c (editsFor hs f) with
          | error e => rw [ha] at h; cases e <;> simp at h
          | ok c' =>
            rw [ha] at h
            simp only at h
            have := ih (setContent t f c') t1 hfs.2 (pairwise_setContent hd f c') h
            rw [this, setContent_eq]
            unfold editAll
            rw [List.map_map]
            apply List.map_congr_left
            intro e he
            simp only [Function.comp_def]
            congr 1
            by_cases hk : e.1 = f
            · -- the entry that carries the key: it is the file `lookup` found
              have hnode : e.2 = .file c m := by
                have := node_of_mem hd he
                rw [hk, hl] at this
                exact (Option.some.inj this).symm
              have hnot : f ∉ fs := fun hm => hfs.1 f hm rfl
              rw [hk, hnode]
              simp only [setNode, beq_self_eq_true, ↓reduceIte, editNode, hnot, List.mem_cons, true_or, ha]
            · have hne : (e.1 == f) = false := beq_false_of_ne hk
              simp only [setNode, hne, Bool.false_eq_true, ↓reduceIte, editNode, List.mem_cons, hk, false_or]
        · simp [hv] at h

/-- … for the files of a plan (the keys of the `BTreeMap` are distinct for every hunk list) -/
theorem contentPhase_plan_exact (hs : List Hunk) (t t1 : Tree) (hd : t.Pairwise (fun a b => a.1 ≠ b.1))
    (h : contentPhase hs t (sortedFiles hs) = (.ok, t1)) : t1 = editAll hs (sortedFiles hs) t :=
  contentPhase_exact hs _ t t1 (PathOrder.sortedFiles_nodup hs) hd h

end ContentPhase
