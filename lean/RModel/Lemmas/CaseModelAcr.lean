import RModel.Lemmas.CaseModelWords
/-
  C18 lemmas, part 3: the trie contract (`AcrOk`, `AcrStable`) holds for every concrete acronym list whose
  entries are alphanumeric (`acrOf acrs`).
-/
open B

namespace CaseModel

/-- the `Option`-valued maximum used by `flmOf` -/
def optMax (best : Option Nat) (n : Nat) : Option Nat :=
  match best with | none => some n | some m => some (max m n)

theorem foldl_optMax_some : ∀ (l : List Nat) (m : Nat), l.foldl optMax (some m) = some (l.foldl max m)
  | [], _ => rfl
  | a :: l, m => by simp only [List.foldl_cons, optMax, foldl_optMax_some l]

theorem foldl_max_spec : ∀ (l : List Nat) (m : Nat),
    (l.foldl max m = m ∨ l.foldl max m ∈ l) ∧ m ≤ l.foldl max m ∧ ∀ k ∈ l, k ≤ l.foldl max m
  | [], m => ⟨Or.inl rfl, Nat.le_refl _, fun _ h => absurd h (by simp)⟩
  | a :: l, m => by
    obtain ⟨h1, h2, h3⟩ := foldl_max_spec l (max m a)
    simp only [List.foldl_cons]
    refine ⟨?_, ?_, ?_⟩
    · rcases h1 with h | h
      · rw [h]
        rcases Nat.le_total m a with hle | hle
        · right; rw [Nat.max_eq_right hle]; exact List.mem_cons_self ..
        · left; exact Nat.max_eq_left hle
      · right; exact List.mem_cons_of_mem _ h
    · exact Nat.le_trans (Nat.le_max_left ..) h2
    · intro k hk
      rcases List.mem_cons.mp hk with rfl | hk
      · exact Nat.le_trans (Nat.le_max_right ..) h2
      · exact h3 k hk

theorem foldl_optMax_spec {l : List Nat} {n : Nat} (h : l.foldl optMax none = some n) :
    n ∈ l ∧ ∀ k ∈ l, k ≤ n := by
  cases l with
  | nil => exact absurd h (by simp)
  | cons a l =>
    simp only [List.foldl_cons, optMax, foldl_optMax_some, Option.some.injEq] at h
    obtain ⟨h1, h2, h3⟩ := foldl_max_spec l a
    rw [h] at h1 h2 h3
    refine ⟨?_, ?_⟩
    · rcases h1 with h | h
      · rw [h]; exact List.mem_cons_self ..
      · exact List.mem_cons_of_mem _ h
    · intro k hk
      rcases List.mem_cons.mp hk with rfl | hk
      · exact h2
      · exact h3 k hk

theorem foldl_optMax_of_max {l : List Nat} {n : Nat} (hn : n ∈ l) (hmax : ∀ k ∈ l, k ≤ n) :
    l.foldl optMax none = some n := by
  cases l with
  | nil => exact absurd hn (by simp)
  | cons a l =>
    simp only [List.foldl_cons, optMax, foldl_optMax_some, Option.some.injEq]
    obtain ⟨h1, h2, h3⟩ := foldl_max_spec l a
    have hle : l.foldl max a ≤ n := by
      rcases h1 with h | h
      · rw [h]; exact hmax a (List.mem_cons_self ..)
      · exact hmax _ (List.mem_cons_of_mem _ h)
    have hge : n ≤ l.foldl max a := by
      rcases List.mem_cons.mp hn with rfl | hk
      · exact h2
      · exact h3 n hk
    omega

/-- the candidate test of `flmOf` -/
def flmCand (acrs : List Bytes) (rest : Bytes) (n : Nat) : Bool :=
  decide (0 < n) && decide (n ≤ rest.length) && acrs.any (fun a => lower a == lower (rest.take n))

def flmLens (acrs : List Bytes) : List Nat :=
  (acrs.map List.length).foldl (fun acc n => if acc.contains n then acc else n :: acc) []

theorem flmOf_eq (acrs : List Bytes) (rest : Bytes) :
    flmOf acrs rest = ((flmLens acrs).filter (flmCand acrs rest)).foldl optMax none := rfl

theorem flmCand_prefix {acrs : List Bytes} {x t : Bytes} {n : Nat} (hn : n ≤ x.length) :
    flmCand acrs (x ++ t) n = flmCand acrs x n := by
  have h1 : decide (n ≤ (x ++ t).length) = true := by rw [List.length_append]; exact decide_eq_true (by omega)
  have h2 : decide (n ≤ x.length) = true := decide_eq_true hn
  simp only [flmCand, List.take_append_of_le_length hn, h1, h2]

theorem isAlnum_toLower_iff (c : UInt8) : isAlnum (toLower c) = isAlnum c := by
  cases hu : isUpper c with
  | false => rw [toLower_id hu]
  | true => rw [lower_alnum (toLower_of_upper hu), upper_alnum hu]

theorem acrStable_acrOf (acrs : List Bytes) : AcrStable (acrOf acrs) := by
  intro x t n hf hn
  show flmOf acrs x = some n
  have hf' : flmOf acrs (x ++ t) = some n := hf
  rw [flmOf_eq] at hf' ⊢
  obtain ⟨hmem, hmax⟩ := foldl_optMax_spec hf'
  rw [List.mem_filter] at hmem
  apply foldl_optMax_of_max
  · rw [List.mem_filter]
    exact ⟨hmem.1, by rw [← flmCand_prefix hn]; exact hmem.2⟩
  · intro k hk
    rw [List.mem_filter] at hk
    apply hmax k
    rw [List.mem_filter]
    refine ⟨hk.1, ?_⟩
    have hkx : k ≤ x.length := by
      have := hk.2
      simp only [flmCand, Bool.and_eq_true, decide_eq_true_eq] at this
      exact this.1.2
    rw [flmCand_prefix hkx]; exact hk.2

theorem acrOk_acrOf {acrs : List Bytes} (h : ∀ a ∈ acrs, ∀ c ∈ a, isAlnum c = true) : AcrOk (acrOf acrs) := by
  intro rest n hf
  have hf' : flmOf acrs rest = some n := hf
  rw [flmOf_eq] at hf'
  obtain ⟨hmem, _⟩ := foldl_optMax_spec hf'
  rw [List.mem_filter] at hmem
  have hc := hmem.2
  simp only [flmCand, Bool.and_eq_true, decide_eq_true_eq, List.any_eq_true, beq_iff_eq] at hc
  obtain ⟨⟨h0, hlen⟩, a, ha, heq⟩ := hc
  refine ⟨h0, hlen, ?_⟩
  intro c hc
  have : toLower c ∈ lower (rest.take n) := by
    simp only [lower, List.mem_map]; exact ⟨c, hc, rfl⟩
  rw [← heq] at this
  simp only [lower, List.mem_map] at this
  obtain ⟨y, hy, hyc⟩ := this
  rw [← isAlnum_toLower_iff c, ← hyc, isAlnum_toLower_iff]
  exact h a ha y hy

/-- the decidable side condition on an acronym list -/
def acrsAlnum (acrs : List Bytes) : Bool := acrs.all (fun a => a.all isAlnum)

theorem acrOk_of_acrsAlnum {acrs : List Bytes} (h : acrsAlnum acrs = true) : AcrOk (acrOf acrs) := by
  apply acrOk_acrOf
  intro a ha c hc
  simp only [acrsAlnum, List.all_eq_true] at h
  exact h a ha c hc

end CaseModel
