import RModel.Model.Scope
/- helper lemmas for Props/C09.lean: the walk prunes below any rejected component -/
namespace Scope

theorem cfg_mem_allCfgs (W : WalkerCfg) (l : Nat) : W.cfg l ∈ W.allCfgs := by
  unfold WalkerCfg.cfg WalkerCfg.allCfgs
  cases h : W.arms.find? (fun a => a.1.contains l) with
  | none => simp
  | some a =>
    have := List.mem_of_find?_eq_some h
    simp only [List.mem_append, List.mem_map, List.mem_singleton]
    exact Or.inl ⟨a, this, rfl⟩

/-- a property of every arm holds for the configuration of every level -/
theorem cfg_all (W : WalkerCfg) (q : LevelCfg → Bool) (h : W.allCfgs.all q = true) (l : Nat) : q (W.cfg l) = true :=
  List.all_eq_true.mp h _ (cfg_mem_allCfgs W l)

/-- the walk fails as soon as one step on the way fails -/
theorem walkedFrom_step_false (c : LevelCfg) (s : Site)
    (a : RelPath) (n : Name) (b : RelPath) :
    ∀ pre, stepOk c s (pre ++ a) n = false → walkedFrom c s pre (a ++ n :: b) = false := by
  induction a with
  | nil => intro pre h; simp at h; simp [walkedFrom, h]
  | cons x a ih =>
    intro pre h
    have := ih (pre ++ [x]) (by simpa [List.append_assoc] using h)
    simp [walkedFrom, this]

/-- … or one proper ancestor is not descended into -/
theorem walkedFrom_descend_false (c : LevelCfg) (s : Site)
    (a : RelPath) (n : Name) (b : RelPath) (hb : b ≠ []) :
    ∀ pre, descends c (s.ty (pre ++ a ++ [n])) = false → walkedFrom c s pre (a ++ n :: b) = false := by
  induction a with
  | nil =>
    intro pre h
    have : b.isEmpty = false := by cases b <;> simp_all
    simp at h
    simp [walkedFrom, h, this]
  | cons x a ih =>
    intro pre h
    have := ih (pre ++ [x]) (by simpa [List.append_assoc] using h)
    simp [walkedFrom, this]

theorem mem_split {α} {n : α} {p : List α} (h : n ∈ p) : ∃ a b, p = a ++ n :: b := List.append_of_mem h

/-- a component whose name the filter rejects, at any depth, prunes the entry -/
theorem walked_false_of_filtered (c : LevelCfg) (s : Site)
    (p : RelPath) (n : Name) (hn : n ∈ p) (hf : c.filtered.contains n = true) : walked c s p = false := by
  obtain ⟨a, b, rfl⟩ := mem_split hn
  exact walkedFrom_step_false c s a n b [] (by simp only [List.nil_append, stepOk, hf]; simp)

/-- an honoured ignore file that matches the entry or one of its ancestors prunes the entry -/
theorem walked_false_of_ignored (c : LevelCfg) (s : Site)
    (a : RelPath) (n : Name) (b : RelPath) (k : IgnKind) (hk : honoured c (inGitAt c s a) k = true)
    (hi : s.ign k (a ++ [n]) = true ∨ (c.parents = true ∧ s.ignAbove k (a ++ [n]) = true)) :
    walked c s (a ++ n :: b) = false := by
  apply walkedFrom_step_false c s a n b []
  have : ignoredBy c (inGitAt c s a) s (a ++ [n]) = true := by
    unfold ignoredBy
    rw [List.any_eq_true]
    refine ⟨k, by cases k <;> simp [allKinds], ?_⟩
    rcases hi with hi | ⟨hp, hi⟩
    · simp [hk, hi]
    · simp [hk, hp, hi]
  simp only [List.nil_append, stepOk, this]; simp

/-- with `hidden(true)` a dot-component prunes the entry -/
theorem walked_false_of_hidden (c : LevelCfg) (s : Site)
    (p : RelPath) (n : Name) (hn : n ∈ p) (hh : c.hidden = true) (hd : isHidden n = true) : walked c s p = false := by
  obtain ⟨a, b, rfl⟩ := mem_split hn
  exact walkedFrom_step_false c s a n b [] (by simp only [List.nil_append, stepOk, hh, hd]; simp)

/-- nothing below a symlink is reached unless links are followed -/
theorem walked_false_below_symlink (c : LevelCfg) (s : Site)
    (a : RelPath) (n : Name) (b : RelPath) (hb : b ≠ []) (hl : c.followLinks = false) (ht : s.ty (a ++ [n]) = .symlink) :
    walked c s (a ++ n :: b) = false := by
  apply walkedFrom_descend_false c s a n b hb []
  simp [ht, descends, hl]

theorem isBinary_of_nul (S : SniffCfg) (buf : Bytes) (hb : S.boms.any (fun m => m.isPrefixOf buf) = false)
    (hz : B.contains (buf.take S.maxScan) 0 = true) : isBinary S buf = true := by
  simp [isBinary, hb, hz]

theorem forall_le3 (P : Nat → Prop) (h0 : P 0) (h1 : P 1) (h2 : P 2) (h3 : P 3) : ∀ l, l ≤ 3 → P l := by
  intro l hl
  match l, hl with
  | 0, _ => exact h0
  | 1, _ => exact h1
  | 2, _ => exact h2
  | 3, _ => exact h3

end Scope
