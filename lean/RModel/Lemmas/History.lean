import RModel.Model.History
import RModel.Model.HistorySpec
/- helper lemmas for Props/C10.lean: effect of one command on `entries`, run-level induction -/

namespace History
open HistorySpec

section
variable {Tree Plan Backup H : Type} [DecidableEq H]

theorem addEntry_none (es : List (Entry H)) (e : Entry H) (h : hasId es e.id = true) : addEntry es e = none := by
  simp [addEntry, h]

theorem addEntry_some (es : List (Entry H)) (e : Entry H) (h : hasId es e.id = false) :
    addEntry es e = some (es ++ [e]) := by
  simp [addEntry, h]

/-- the three ways `apply_plan` under a given id ends -/
theorem applyWithId_cases (cfg : Cfg) (ops : Ops Tree Plan Backup H) (w : World Tree Plan Backup H) (id : EId H) (p : Plan) :
    ((applyWithId cfg ops w id p).2 = .ok ∧ hasId w.entries id = false ∧
      (applyWithId cfg ops w id p).1.entries = w.entries ++ [{ id := id, revertOf := none }] ∧
      ∃ t' b, ops.apply w.tree p = .ok t' b ∧ (applyWithId cfg ops w id p).1.tree = t') ∨
    ((applyWithId cfg ops w id p).2 = .rejected ∧ (applyWithId cfg ops w id p).1 = w) ∨
    ((applyWithId cfg ops w id p).2 = .failed ∧ (applyWithId cfg ops w id p).1.entries = w.entries) := by
  unfold applyWithId
  by_cases he : (cfg.earlyDupCheck && hasId w.entries id) = true
  · simp only [he, if_true]; simp
  · simp only [he]
    cases h : ops.apply w.tree p with
    | rejected => simp
    | partly t' => simp
    | ok t' b =>
      by_cases hd : hasId w.entries id = true
      · by_cases hpb : cfg.planBeforeEntry = true <;> simp [addEntry, hd, hpb]
      · have hd' : hasId w.entries id = false := by simpa using hd
        simp [addEntry, hd']

theorem stepRename_cases (cfg : Cfg) (ops : Ops Tree Plan Backup H) (w : World Tree Plan Backup H) (s r : Bytes) :
    ((stepRename cfg ops w s r).2 = .ok ∧ hasId w.entries (.plan (ops.hash (s ++ r) w.clock)) = false ∧
      (stepRename cfg ops w s r).1.entries = w.entries ++ [{ id := .plan (ops.hash (s ++ r) w.clock), revertOf := none }]) ∨
    (((stepRename cfg ops w s r).2 = .rejected ∨ (stepRename cfg ops w s r).2 = .noop) ∧ (stepRename cfg ops w s r).1 = w) ∨
    ((stepRename cfg ops w s r).2 = .failed ∧ (stepRename cfg ops w s r).1.entries = w.entries) := by
  unfold stepRename
  by_cases he : ops.isEmpty (ops.scan w.tree s r) = true
  · simp [he]
  · simp only [he]
    rcases applyWithId_cases cfg ops w (.plan (ops.hash (s ++ r) w.clock)) (ops.scan w.tree s r) with h | h | h
    · exact Or.inl ⟨h.1, h.2.1, h.2.2.1⟩
    · exact Or.inr (Or.inl ⟨Or.inl h.1, h.2⟩)
    · exact Or.inr (Or.inr h)

theorem stepUndo_cases (cfg : Cfg) (ops : Ops Tree Plan Backup H) (w : World Tree Plan Backup H) (t : Target H) :
    ((stepUndo cfg ops w t).2 = .ok ∧ ∃ i e, resolve w.entries true t = some i ∧ findEntry w.entries i = some e ∧
      e.revertOf = none ∧ hasRevertOf w.entries i = false ∧ hasId w.entries (revertId cfg i w.clock) = false ∧
      (stepUndo cfg ops w t).1.entries = w.entries ++ [{ id := revertId cfg i w.clock, revertOf := some i }]) ∨
    ((stepUndo cfg ops w t).2 = .rejected ∧ (stepUndo cfg ops w t).1 = w) ∨
    ((stepUndo cfg ops w t).2 = .failed ∧ (stepUndo cfg ops w t).1.entries = w.entries) := by
  unfold stepUndo
  cases hr : resolve w.entries true t with
  | none => simp
  | some i =>
    simp only []
    cases hf : findEntry w.entries i with
    | none => simp
    | some e =>
      simp only []
      by_cases h1 : e.revertOf.isSome = true
      · simp [h1]
      · by_cases h2 : hasRevertOf w.entries i = true
        · simp [h1, h2]
        · have h1' : e.revertOf = none := by
            cases hh : e.revertOf with
            | none => rfl
            | some x => simp [hh] at h1
          have h2' : hasRevertOf w.entries i = false := by simpa using h2
          simp only [h1, h2]
          cases hp : lookup w.plans i with
          | none => simp
          | some p =>
            cases hb : lookup w.backups i with
            | none => simp
            | some b =>
              simp only []
              cases hv : ops.revert w.tree p b with
              | failed t' => by_cases hpv : cfg.undoPrevalidate = true <;> simp [hpv]
              | ok t' =>
                simp only []
                by_cases hd : hasId w.entries (revertId cfg i w.clock) = true
                · simp [addEntry, hd]
                · have hd' : hasId w.entries (revertId cfg i w.clock) = false := by simpa using hd
                  simp [addEntry, hd']
                  exact ⟨e, hf, h1', h2'⟩

theorem stepRedo_cases (cfg : Cfg) (ops : Ops Tree Plan Backup H) (w : World Tree Plan Backup H) (t : Target H) :
    ((stepRedo cfg ops w t).2 = .ok ∧ ∃ i, resolve w.entries false t = some i ∧ hasId w.entries i = true ∧
      hasRevertOf w.entries i = true ∧ hasId w.entries (.redo i w.clock) = false ∧
      (stepRedo cfg ops w t).1.entries = w.entries ++ [{ id := .redo i w.clock, revertOf := none }]) ∨
    ((stepRedo cfg ops w t).2 = .rejected ∧ (stepRedo cfg ops w t).1 = w) ∨
    ((stepRedo cfg ops w t).2 = .failed ∧ (stepRedo cfg ops w t).1.entries = w.entries) := by
  cases hr : resolve w.entries false t with
  | none =>
    have heq : stepRedo cfg ops w t = (w, .rejected) := by unfold stepRedo; simp [hr]
    rw [heq]; simp
  | some i =>
    by_cases h1 : hasId w.entries i = true
    · by_cases h2 : hasRevertOf w.entries i = true
      · by_cases h3 : (cfg.redoOnce && hasRedoOf w.entries i) = true
        · have heq : stepRedo cfg ops w t = (w, .rejected) := by unfold stepRedo; simp only [hr, h1, h2, h3]; simp
          rw [heq]; simp
        · cases hp : lookup w.plans i with
          | none =>
            have heq : stepRedo cfg ops w t = (w, .rejected) := by unfold stepRedo; simp only [hr, h1, h2, h3, hp]; simp
            rw [heq]; simp
          | some p =>
          by_cases h4 : (cfg.redoPrevalidate && !(ops.apply w.tree p).isOk) = true
          · have heq : stepRedo cfg ops w t = (w, .rejected) := by
              unfold stepRedo; simp only [hr, h1, h2, h3, hp, h4]; simp
            rw [heq]; simp
          have heq : stepRedo cfg ops w t = applyWithId cfg ops w (.redo i w.clock) p := by
            unfold stepRedo; simp only [hr, h1, h2, h3, hp, h4]; simp
          rw [heq]
          rcases applyWithId_cases cfg ops w (.redo i w.clock) p with h | h | h
          · exact Or.inl ⟨h.1, i, rfl, h1, h2, h.2.1, h.2.2.1⟩
          · exact Or.inr (Or.inl h)
          · exact Or.inr (Or.inr h)
      · have heq : stepRedo cfg ops w t = (w, .rejected) := by unfold stepRedo; simp [hr, h1, h2]
        rw [heq]; simp
    · have heq : stepRedo cfg ops w t = (w, .rejected) := by unfold stepRedo; simp [hr, h1]
      rw [heq]; simp

/-- summary used by the run-level inductions -/
theorem step_cases (cfg : Cfg) (ops : Ops Tree Plan Backup H) (w : World Tree Plan Backup H) (c : Cmd H) :
    ((step cfg ops w c).2 = .ok ∧ ∃ e, (step cfg ops w c).1.entries = w.entries ++ [e] ∧ hasId w.entries e.id = false) ∨
    ((step cfg ops w c).2 ≠ .ok ∧ (step cfg ops w c).1.entries = w.entries) := by
  cases c with
  | rename s r =>
    rcases stepRename_cases cfg ops w s r with h | h | h
    · exact Or.inl ⟨h.1, _, h.2.2, h.2.1⟩
    · refine Or.inr ⟨?_, by rw [show step cfg ops w (.rename s r) = stepRename cfg ops w s r from rfl, h.2]⟩
      rcases h.1 with h1 | h1 <;> simp [step, h1]
    · exact Or.inr ⟨by simp [step, h.1], h.2⟩
  | undo t =>
    rcases stepUndo_cases cfg ops w t with h | h | h
    · obtain ⟨h1, i, e, _, _, _, _, hd, he⟩ := h
      exact Or.inl ⟨h1, _, he, hd⟩
    · exact Or.inr ⟨by simp [step, h.1], by rw [show step cfg ops w (.undo t) = stepUndo cfg ops w t from rfl, h.2]⟩
    · exact Or.inr ⟨by simp [step, h.1], h.2⟩
  | redo t =>
    rcases stepRedo_cases cfg ops w t with h | h | h
    · obtain ⟨h1, i, _, _, _, hd, he⟩ := h
      exact Or.inl ⟨h1, _, he, hd⟩
    · exact Or.inr ⟨by simp [step, h.1], by rw [show step cfg ops w (.redo t) = stepRedo cfg ops w t from rfl, h.2]⟩
    · exact Or.inr ⟨by simp [step, h.1], h.2⟩
  | tick => exact Or.inr ⟨by simp [step], rfl⟩

theorem step_appends (cfg : Cfg) (ops : Ops Tree Plan Backup H) (w : World Tree Plan Backup H) (c : Cmd H) :
    ((step cfg ops w c).2 = .ok ∧ AppendsOne w.entries (step cfg ops w c).1.entries) ∨
    ((step cfg ops w c).2 ≠ .ok ∧ (step cfg ops w c).1.entries = w.entries) := by
  rcases step_cases cfg ops w c with h | h
  · exact Or.inl ⟨h.1, h.2⟩
  · exact Or.inr h

theorem step_fresh (cfg : Cfg) (ops : Ops Tree Plan Backup H) (w : World Tree Plan Backup H) (c : Cmd H) (e : Entry H)
    (h : (step cfg ops w c).1.entries = w.entries ++ [e]) : hasId w.entries e.id = false := by
  rcases step_cases cfg ops w c with ⟨_, e', he, hf⟩ | ⟨_, he⟩
  · rw [he] at h
    have : e' = e := by simpa using h
    rw [← this]; exact hf
  · rw [he] at h
    have := congrArg List.length h
    simp at this

theorem step_rejected (cfg : Cfg) (ops : Ops Tree Plan Backup H) (w : World Tree Plan Backup H) (c : Cmd H)
    (h : (step cfg ops w c).2 = .rejected) : (step cfg ops w c).1 = w := by
  cases c with
  | rename s r =>
    rcases stepRename_cases cfg ops w s r with h' | h' | h'
    · simp [step, h'.1] at h
    · exact h'.2
    · simp [step, h'.1] at h
  | undo t =>
    rcases stepUndo_cases cfg ops w t with h' | h' | h'
    · simp [step, h'.1] at h
    · exact h'.2
    · simp [step, h'.1] at h
  | redo t =>
    rcases stepRedo_cases cfg ops w t with h' | h' | h'
    · simp [step, h'.1] at h
    · exact h'.2
    · simp [step, h'.1] at h
  | tick => simp [step] at h

theorem undo_ok (cfg : Cfg) (ops : Ops Tree Plan Backup H) (w : World Tree Plan Backup H) (t : Target H)
    (h : (step cfg ops w (.undo t)).2 = .ok) :
    ∃ i e, resolve w.entries true t = some i ∧ findEntry w.entries i = some e ∧ e.revertOf = none ∧
      hasRevertOf w.entries i = false ∧
      (step cfg ops w (.undo t)).1.entries = w.entries ++ [{ id := revertId cfg i w.clock, revertOf := some i }] := by
  rcases stepUndo_cases cfg ops w t with h' | h' | h'
  · obtain ⟨_, i, e, a, b, c, d, _, f⟩ := h'
    exact ⟨i, e, a, b, c, d, f⟩
  · simp [step, h'.1] at h
  · simp [step, h'.1] at h

theorem redo_ok (cfg : Cfg) (ops : Ops Tree Plan Backup H) (w : World Tree Plan Backup H) (t : Target H)
    (h : (step cfg ops w (.redo t)).2 = .ok) :
    ∃ i, resolve w.entries false t = some i ∧ hasId w.entries i = true ∧ hasRevertOf w.entries i = true ∧
      (step cfg ops w (.redo t)).1.entries = w.entries ++ [{ id := .redo i w.clock, revertOf := none }] := by
  rcases stepRedo_cases cfg ops w t with h' | h' | h'
  · obtain ⟨_, i, a, b, c, _, f⟩ := h'
    exact ⟨i, a, b, c, f⟩
  · simp [step, h'.1] at h
  · simp [step, h'.1] at h

-- run-level ---------------------------------------------------------------------------------------

theorem run_prefix (cfg : Cfg) (ops : Ops Tree Plan Backup H) (w : World Tree Plan Backup H) (cs : List (Cmd H)) :
    w.entries <+: (run cfg ops w cs).1.entries := by
  induction cs generalizing w with
  | nil => simp [run]
  | cons c cs ih =>
    simp only [run]
    have h1 : w.entries <+: (step cfg ops w c).1.entries := by
      rcases step_cases cfg ops w c with ⟨_, e, he, _⟩ | ⟨_, he⟩
      · rw [he]; exact List.prefix_append _ _
      · rw [he]; exact List.prefix_refl _
    exact List.IsPrefix.trans h1 (ih (step cfg ops w c).1)

theorem run_length (cfg : Cfg) (ops : Ops Tree Plan Backup H) (w : World Tree Plan Backup H) (cs : List (Cmd H)) :
    (run cfg ops w cs).1.entries.length = w.entries.length + (run cfg ops w cs).2.count .ok := by
  induction cs generalizing w with
  | nil => simp [run]
  | cons c cs ih =>
    simp only [run]
    rw [ih (step cfg ops w c).1]
    rcases step_cases cfg ops w c with ⟨hk, e, he, _⟩ | ⟨hk, he⟩
    · rw [he, hk]; simp; omega
    · rw [he]
      have : (List.count Outcome.ok ((step cfg ops w c).2 :: (run cfg ops (step cfg ops w c).1 cs).2))
          = List.count Outcome.ok (run cfg ops (step cfg ops w c).1 cs).2 := by
        rw [List.count_cons]; simp [hk]
      rw [this]

theorem hasId_false_iff (es : List (Entry H)) (i : EId H) : hasId es i = false ↔ i ∉ es.map (·.id) := by
  simp [hasId]

theorem run_nodup (cfg : Cfg) (ops : Ops Tree Plan Backup H) (w : World Tree Plan Backup H) (cs : List (Cmd H))
    (h : (w.entries.map (·.id)).Nodup) : ((run cfg ops w cs).1.entries.map (·.id)).Nodup := by
  induction cs generalizing w with
  | nil => simpa [run] using h
  | cons c cs ih =>
    simp only [run]
    apply ih
    rcases step_cases cfg ops w c with ⟨_, e, he, hf⟩ | ⟨_, he⟩
    · rw [he, List.map_append, List.nodup_append]
      refine ⟨h, by simp, ?_⟩
      intro a ha b hb
      simp at hb
      subst hb
      intro hab
      subst hab
      exact ((hasId_false_iff _ _).1 hf) ha
    · rw [he]; exact h

omit [DecidableEq H] in
theorem latestUndo_spec (es : List (Entry H)) (i : EId H) (h : latestUndo es = some i) :
    ∃ e ∈ es, e.id = i ∧ e.revertOf = none := by
  unfold latestUndo at h
  cases hf : es.reverse.find? (fun e => e.revertOf.isNone) with
  | none => simp [hf] at h
  | some e =>
    simp [hf] at h
    have hm := List.mem_of_find?_eq_some hf
    have hp := List.find?_some hf
    refine ⟨e, by simpa using hm, h, ?_⟩
    cases hh : e.revertOf with
    | none => rfl
    | some x => simp [hh] at hp

theorem latestRedo_spec (es : List (Entry H)) (i : EId H) (h : latestRedo es = some i) :
    hasRevertOf es i = true := by
  unfold latestRedo at h
  cases hf : es.reverse.find? (fun e => e.revertOf.isSome) with
  | none => simp [hf] at h
  | some e =>
    simp [hf] at h
    have hm := List.mem_of_find?_eq_some hf
    simp [hasRevertOf]
    exact ⟨e, by simpa using hm, h⟩

theorem fresh_of_injective (ops : Ops Tree Plan Backup H)
    (hinj : ∀ k k' s s', ops.hash k s = ops.hash k' s' → k = k' ∧ s = s')
    (es : List (Entry H)) (key : Bytes) (now : Nat)
    (h : ∀ e ∈ es, (∀ h', e.id ≠ .plan h') ∨ (∃ k s, e.id = .plan (ops.hash k s) ∧ ¬ (k = key ∧ s = now))) :
    hasId es (.plan (ops.hash key now)) = false := by
  rw [hasId_false_iff]
  intro hm
  simp at hm
  obtain ⟨e, he, hid⟩ := hm
  rcases h e he with h1 | ⟨k, s, hk, hne⟩
  · exact h1 _ hid
  · rw [hk] at hid
    have := hinj _ _ _ _ (EId.plan.inj hid)
    exact hne this

-- the repairs, as hypotheses on the configuration -----------------------------------------------------------------------

/-- c3d511b: with the early check, an id that is already present is refused with the world untouched -/
theorem applyWithId_dup_current (cfg : Cfg) (hE : cfg.earlyDupCheck = true) (ops : Ops Tree Plan Backup H) (w : World Tree Plan Backup H)
    (id : EId H) (p : Plan) (hd : hasId w.entries id = true) : applyWithId cfg ops w id p = (w, .rejected) := by
  unfold applyWithId
  simp [hd, hE]

/-- … so the only way `apply_plan` fails after a change is a partial apply of the tree side -/
theorem applyWithId_failed_current (cfg : Cfg) (hE : cfg.earlyDupCheck = true) (ops : Ops Tree Plan Backup H)
    (w : World Tree Plan Backup H) (id : EId H) (p : Plan) (h : (applyWithId cfg ops w id p).2 = .failed) : ∃ t', ops.apply w.tree p = .partly t' := by
  unfold applyWithId at h
  by_cases hd : hasId w.entries id = true
  · simp [hd, hE] at h
  · have hd' : hasId w.entries id = false := by simpa using hd
    cases ha : ops.apply w.tree p with
    | rejected => simp [ha, hd', hE] at h
    | partly t' => exact ⟨t', rfl⟩
    | ok t' b => simp [ha, hd', hE, addEntry] at h

theorem stepRename_dup_current (cfg : Cfg) (hE : cfg.earlyDupCheck = true) (ops : Ops Tree Plan Backup H) (w : World Tree Plan Backup H) (s r : Bytes)
    (hd : hasId w.entries (.plan (ops.hash (s ++ r) w.clock)) = true) :
    (stepRename cfg ops w s r).1 = w ∧ (stepRename cfg ops w s r).2 ≠ .ok := by
  unfold stepRename
  by_cases he : ops.isEmpty (ops.scan w.tree s r) = true
  · simp [he]
  · simp [he, applyWithId_dup_current cfg hE ops w _ _ hd]

theorem stepRename_failed_current (cfg : Cfg) (hE : cfg.earlyDupCheck = true) (ops : Ops Tree Plan Backup H) (w : World Tree Plan Backup H) (s r : Bytes)
    (h : (stepRename cfg ops w s r).2 = .failed) :
    ∃ t', ops.apply w.tree (ops.scan w.tree s r) = .partly t' := by
  unfold stepRename at h
  by_cases he : ops.isEmpty (ops.scan w.tree s r) = true
  · simp [he] at h
  · simp only [he] at h
    exact applyWithId_failed_current cfg hE ops w _ _ h

/-- 07a4584: an id that has a redo entry is refused -/
theorem stepRedo_redone_current (cfg : Cfg) (hR : cfg.redoOnce = true) (ops : Ops Tree Plan Backup H) (w : World Tree Plan Backup H) (t : Target H) (i : EId H)
    (hr : resolve w.entries false t = some i) (h : hasRedoOf w.entries i = true) :
    stepRedo cfg ops w t = (w, .rejected) := by
  unfold stepRedo
  simp only [hr]
  by_cases h1 : hasId w.entries i = true
  · by_cases h2 : hasRevertOf w.entries i = true
    · simp [h1, h2, h, hR]
    · simp [h1, h2]
  · simp [h1]

theorem stepRedo_ok_current (cfg : Cfg) (hR : cfg.redoOnce = true) (ops : Ops Tree Plan Backup H) (w : World Tree Plan Backup H) (t : Target H)
    (h : (stepRedo cfg ops w t).2 = .ok) :
    ∃ i, resolve w.entries false t = some i ∧ hasRedoOf w.entries i = false ∧
      hasRedoOf (stepRedo cfg ops w t).1.entries i = true := by
  rcases stepRedo_cases cfg ops w t with h' | h' | h'
  · obtain ⟨_, i, hr, _, _, _, he⟩ := h'
    refine ⟨i, hr, ?_, ?_⟩
    · cases hh : hasRedoOf w.entries i with
      | false => rfl
      | true => rw [stepRedo_redone_current cfg hR ops w t i hr hh] at h; cases h
    · rw [he]; simp [hasRedoOf, isRedoOf]
  · rw [h'.1] at h; cases h
  · rw [h'.1] at h; cases h

/-- with the redo pre-validation (and the early id check) a redo never fails after a change -/
theorem stepRedo_never_failed (cfg : Cfg) (hE : cfg.earlyDupCheck = true) (hP : cfg.redoPrevalidate = true)
    (ops : Ops Tree Plan Backup H) (w : World Tree Plan Backup H) (t : Target H) :
    (stepRedo cfg ops w t).2 ≠ .failed := by
  intro h
  unfold stepRedo at h
  cases hr : resolve w.entries false t with
  | none => simp [hr] at h
  | some i =>
    simp only [hr] at h
    by_cases h1 : hasId w.entries i = true
    · by_cases h2 : hasRevertOf w.entries i = true
      · by_cases h3 : (cfg.redoOnce && hasRedoOf w.entries i) = true
        · simp [h1, h2, h3] at h
        · cases hp : lookup w.plans i with
          | none => simp [h1, h2, h3, hp] at h
          | some p =>
            by_cases h4 : (ops.apply w.tree p).isOk = true
            · simp only [h1, h2, h3, hp, h4, hP] at h
              simp at h
              obtain ⟨t', ht'⟩ := applyWithId_failed_current cfg hE ops w _ p h
              rw [ht'] at h4; simp [ApplyRes.isOk] at h4
            · simp [h1, h2, h3, hp, h4, hP] at h
      · simp [h1, h2] at h
    · simp [h1] at h

/-- with the undo pre-validation an undo fails after a change only on a duplicate revert id -/
theorem stepUndo_failed_prevalidated (cfg : Cfg) (hU : cfg.undoPrevalidate = true)
    (ops : Ops Tree Plan Backup H) (w : World Tree Plan Backup H) (t : Target H)
    (h : (stepUndo cfg ops w t).2 = .failed) :
    ∃ i, resolve w.entries true t = some i ∧ hasRevertOf w.entries i = false ∧
      hasId w.entries (revertId cfg i w.clock) = true := by
  unfold stepUndo at h
  cases hr : resolve w.entries true t with
  | none => simp [hr] at h
  | some i =>
    simp only [hr] at h
    cases hf : findEntry w.entries i with
    | none => simp [hf] at h
    | some e =>
      simp only [hf] at h
      by_cases h1 : e.revertOf.isSome = true
      · simp [h1] at h
      · by_cases h2 : hasRevertOf w.entries i = true
        · simp [h1, h2] at h
        · simp only [h1, h2] at h
          cases hp : lookup w.plans i with
          | none => simp [hp] at h
          | some p =>
            cases hb : lookup w.backups i with
            | none => simp [hp, hb] at h
            | some b =>
              simp only [hp, hb] at h
              cases hv : ops.revert w.tree p b with
              | failed t' => simp [hv, hU] at h
              | ok t' =>
                simp only [hv] at h
                by_cases hd : hasId w.entries (revertId cfg i w.clock) = true
                · exact ⟨i, rfl, by simpa using h2, hd⟩
                · have hd' : hasId w.entries (revertId cfg i w.clock) = false := by simpa using hd
                  simp [addEntry, hd'] at h

/-- ids of the form `revert-<j>-…` belong to entries that revert `j` -/
def RevForm (es : List (Entry H)) : Prop := ∀ e ∈ es, ∀ j c, e.id = .revert j c → e.revertOf = some j

theorem revForm_append (es : List (Entry H)) (n : Entry H) (h : RevForm es)
    (hn : ∀ j c, n.id = .revert j c → n.revertOf = some j) : RevForm (es ++ [n]) := by
  intro e he j c hid
  simp only [List.mem_append, List.mem_singleton] at he
  rcases he with he | he
  · exact h e he j c hid
  · subst he; exact hn j c hid

theorem step_revForm (cfg : Cfg) (hRI : cfg.revertIdOfRoot = false) (ops : Ops Tree Plan Backup H) (w : World Tree Plan Backup H) (c : Cmd H)
    (h : RevForm w.entries) : RevForm (step cfg ops w c).1.entries := by
  cases c with
  | rename s r =>
    show RevForm (stepRename cfg ops w s r).1.entries
    rcases stepRename_cases cfg ops w s r with h' | h' | h'
    · rw [h'.2.2]; exact revForm_append _ _ h (by intro j c hh; cases hh)
    · rw [h'.2]; exact h
    · rw [h'.2]; exact h
  | undo t =>
    show RevForm (stepUndo cfg ops w t).1.entries
    rcases stepUndo_cases cfg ops w t with h' | h' | h'
    · obtain ⟨_, i, e, _, _, _, _, _, he⟩ := h'
      rw [he]; exact revForm_append _ _ h (by intro j c hh; simp [revertId, hRI] at hh; simp [hh.1])
    · rw [h'.2]; exact h
    · rw [h'.2]; exact h
  | redo t =>
    show RevForm (stepRedo cfg ops w t).1.entries
    rcases stepRedo_cases cfg ops w t with h' | h' | h'
    · obtain ⟨_, i, _, _, _, _, he⟩ := h'
      rw [he]; exact revForm_append _ _ h (by intro j c hh; cases hh)
    · rw [h'.2]; exact h
    · rw [h'.2]; exact h
  | tick => exact h

theorem run_revForm (cfg : Cfg) (hRI : cfg.revertIdOfRoot = false) (ops : Ops Tree Plan Backup H) (w : World Tree Plan Backup H) (cs : List (Cmd H))
    (h : RevForm w.entries) : RevForm (run cfg ops w cs).1.entries := by
  induction cs generalizing w with
  | nil => simpa [run] using h
  | cons c cs ih => simp only [run]; exact ih _ (step_revForm cfg hRI ops w c h)

/-- in a history whose revert ids are well-formed, a prevalidated undo never fails after a change -/
theorem stepUndo_never_failed (cfg : Cfg) (hU : cfg.undoPrevalidate = true) (hRI : cfg.revertIdOfRoot = false)
    (ops : Ops Tree Plan Backup H) (w : World Tree Plan Backup H) (t : Target H) (hF : RevForm w.entries) :
    (stepUndo cfg ops w t).2 ≠ .failed := by
  intro h
  obtain ⟨i, _, hnr, hd⟩ := stepUndo_failed_prevalidated cfg hU ops w t h
  simp [hasId] at hd
  obtain ⟨e, he, hid⟩ := hd
  have := hF e he i w.clock (by simpa [revertId, hRI] using hid)
  have hr : hasRevertOf w.entries i = true := by simp [hasRevertOf]; exact ⟨e, he, this⟩
  rw [hnr] at hr; cases hr

theorem hasRedoOf_prefix (es es' : List (Entry H)) (i : EId H) (hp : es <+: es') (h : hasRedoOf es i = true) :
    hasRedoOf es' i = true := by
  obtain ⟨t, rfl⟩ := hp
  simp [hasRedoOf, List.any_append] at *
  exact Or.inl h

end
end History
