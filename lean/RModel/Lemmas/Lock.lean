import RModel.Model.Lock
/-
  Helper lemmas for C12: the inductive invariant of the lock transition system in the situations in
  which the lock does work: the lock file is absent or belongs to a scheduled live holder, nobody
  outlives the stale timeout, and either terminated processes linger (`exits = false`) or there are at
  most two processes.  (With three processes and exits the lock is broken: `C12_witness_exit_race`.)
-/
namespace Lock

theorem upd_same {α} (f : Nat → α) (i : Nat) (v : α) : upd f i v i = v := by simp [upd]
theorem upd_other {α} (f : Nat → α) (i j : Nat) (v : α) (h : j ≠ i) : upd f i v j = f j := by simp [upd, h]

theorem inoOf_inj {p q : Nat} (h : inoOf p = inoOf q) : p = q := by
  unfold inoOf at h; omega
theorem pidOf_inj {p q : Nat} (h : pidOf p = pidOf q) : p = q := by
  unfold pidOf at h; omega

/-- content written by a scheduled process inside the time window (or nothing yet) -/
def Harmless (s : State) (t0 : Nat) (c : Content) : Prop :=
  (c = .empty ∧ s.abandon = .none) ∨ ∃ p ts, c = .pidts (pidOf p) ts ∧ p < s.n ∧ t0 ≤ ts ∧ ts ≤ s.now

/-- The inductive invariant.  `t0` = earliest timestamp around, `T` = latest clock value considered. -/
structure Inv (T t0 : Nat) (s : State) : Prop where
  mode : s.exits = false ∨ s.n ≤ 2
  window : T ≤ t0 + staleTimeout
  clockLo : t0 ≤ s.now
  idle : ∀ p, s.n ≤ p → s.pc p = .start
  liveness : ∀ p, p < s.n → s.alive (pidOf p) = true ∨ ((s.pc p).terminal = true ∧ s.exits = true)
  /-- a pending unlink can only exist when there is nothing to unlink and nobody left to create anything -/
  pend : ∀ q b, s.pc q = .unlinkPending b →
    s.cell = none ∧ ∀ r, r < s.n → r ≠ q → s.alive (pidOf r) = false
  reads : ∀ p c, s.pc p = .readDone c → Harmless s t0 c
  /-- every inode somebody can still read (linked, or held open) has harmless content -/
  inodes : ∀ i, (s.cell = some i ∨ ∃ q, s.pc q = .opened i) → Harmless s t0 (s.files i)
  stamps : ∀ p ts, (s.pc p = .mkdir ts ∨ s.pc p = .create ts ∨ s.pc p = .created ts) → t0 ≤ ts ∧ ts ≤ s.now
  ownedCell : ∀ i, s.cell = some i →
    ∃ p, i = inoOf p ∧ (s.pc p).owns = true ∧ ∀ q, (s.pc q).owns = true → q = p
  freeCell : s.cell = none → ∀ q, (s.pc q).owns = false
  notStolen : s.stolen = false
  /-- unparsable lock files may be removed only if lock files are never visible incomplete -/
  publish : s.abandon ≠ .none → s.atomicPublish = true
  /-- this invariant is about the unguarded shape (`step`); the guarded one has `GInv` -/
  unguarded : s.guarded = false

theorem Harmless.mono {s s' : State} {t0 : Nat} {c : Content}
    (ha : s'.n = s.n) (hb : s'.abandon = s.abandon) (hn : s.now ≤ s'.now) (h : Harmless s t0 c) :
    Harmless s' t0 c := by
  cases h with
  | inl h => exact Or.inl ⟨h.1, by rw [hb]; exact h.2⟩
  | inr h =>
    obtain ⟨p, ts, hc, hp, h1, h2⟩ := h
    exact Or.inr ⟨p, ts, hc, by rw [ha]; exact hp, h1, Nat.le_trans h2 hn⟩

theorem owns_not_terminal {v : Pc} (h : v.owns = true) : v.terminal = false := by
  cases v <;> first | rfl | cases h

/-- the decision on harmless content: fall through, give up, or (only when the writer has left) unlink -/
theorem decide_harmless {s : State} {T t0 : Nat} {c : Content} (hw : T ≤ t0 + staleTimeout)
    (hT : s.now ≤ T) (h : Harmless s t0 c) :
    decide' s.debug s.saturating s.staleNeedsDead s.abandon s.now s.alive c = .mkdir s.now ∨
    (∃ pid, decide' s.debug s.saturating s.staleNeedsDead s.abandon s.now s.alive c = .failed (.alreadyRunning pid)) ∨
    (∃ o, o < s.n ∧ s.alive (pidOf o) = false ∧ decide' s.debug s.saturating s.staleNeedsDead s.abandon s.now s.alive c = .unlinkPending .orphaned) := by
  cases h with
  | inl h => obtain ⟨h1, h2⟩ := h; subst h1; exact Or.inl (by simp [decide', h2])
  | inr h =>
    obtain ⟨o, ts, hc, ho, h1, h2⟩ := h
    subst hc
    have hlt : ¬ (s.now < ts) := by omega
    have hst : ¬ (wrapSub s.now ts > staleTimeout) := by
      unfold wrapSub staleTimeout at *
      rw [if_pos h2]; omega
    have hsat : ¬ (s.now - ts > staleTimeout) := by
      unfold staleTimeout at *; omega
    cases hal : s.alive (pidOf o) with
    | true => exact Or.inr (Or.inl ⟨pidOf o, by cases hs : s.saturating <;> cases hn : s.staleNeedsDead <;> simp [decide', hlt, hst, hsat, hal]⟩)
    | false => exact Or.inr (Or.inr ⟨o, ho, hal, by cases hs : s.saturating <;> cases hn : s.staleNeedsDead <;> simp [decide', hlt, hst, hsat, hal]⟩)

/-- the lock file of an owner is linked at the lock path -/
theorem Inv.owner_linked' {T t0 : Nat} {s : State} (h : Inv T t0 s) (p : Nat)
    (hp : (s.pc p).owns = true) : s.cell = some (inoOf p) := by
  cases hcell : s.cell with
  | none => have := h.freeCell hcell p; rw [this] at hp; cases hp
  | some i =>
    obtain ⟨o, hio, _, huniq⟩ := h.ownedCell i hcell
    rw [hio, huniq p hp]

/-- a step that only moves the live process `p` to a program point with the same ownership status -/
theorem Inv.pcUpdate {T t0 : Nat} {s : State} (h : Inv T t0 s) (p : Nat) (v : Pc)
    (hp : p < s.n) (hal : s.alive (pidOf p) = true)
    (hpend : ∀ q b, s.pc q = .unlinkPending b → q = p)
    (hown : v.owns = (s.pc p).owns)
    (hterm : (s.pc p).terminal = false)
    (_hstart : v ≠ .start)
    (hop : ∀ i, v = .opened i → s.cell = some i)
    (hnu : ∀ b, v = .unlinkPending b → s.cell = none ∧ ∀ r, r < s.n → r ≠ p → s.alive (pidOf r) = false)
    (hrd : ∀ c, v = .readDone c → Harmless s t0 c)
    (hst : ∀ ts, (v = .mkdir ts ∨ v = .create ts ∨ v = .created ts) → t0 ≤ ts ∧ ts ≤ s.now) :
    Inv T t0 { s with pc := upd s.pc p v } := by
  have hfun : ∀ q, (upd s.pc p v q).owns = (s.pc q).owns := by
    intro q
    by_cases hq : q = p
    · subst hq; rw [upd_same]; exact hown
    · rw [upd_other _ _ _ _ hq]
  constructor
  · exact h.mode
  · exact h.window
  · exact h.clockLo
  · intro q hq
    have hqp : q ≠ p := by intro e; subst e; exact absurd hp (Nat.not_lt.mpr hq)
    show upd s.pc p v q = .start
    rw [upd_other _ _ _ _ hqp]; exact h.idle q hq
  · intro q hq
    by_cases hqp : q = p
    · subst hqp; exact Or.inl hal
    · show _ ∨ ((upd s.pc p v q).terminal = true ∧ _)
      rw [upd_other _ _ _ _ hqp]; exact h.liveness q hq
  · intro q b hc
    by_cases hq : q = p
    · subst hq
      have hc' : upd s.pc q v q = .unlinkPending b := hc
      rw [upd_same] at hc'
      exact hnu b hc'
    · have hc' : upd s.pc p v q = .unlinkPending b := hc
      rw [upd_other _ _ _ _ hq] at hc'
      exact absurd (hpend q b hc') hq
  · intro q c hc
    by_cases hq : q = p
    · subst hq
      have hc' : upd s.pc q v q = .readDone c := hc
      rw [upd_same] at hc'
      exact hrd c hc'
    · have hc' : upd s.pc p v q = .readDone c := hc
      rw [upd_other _ _ _ _ hq] at hc'
      exact h.reads q c hc'
  · intro i hi
    rcases hi with hc | ⟨q, hq⟩
    · exact h.inodes i (Or.inl hc)
    · by_cases hqp : q = p
      · subst hqp
        have hq' : upd s.pc q v q = .opened i := hq
        rw [upd_same] at hq'
        exact h.inodes i (Or.inl (hop i hq'))
      · have hq' : upd s.pc p v q = .opened i := hq
        rw [upd_other _ _ _ _ hqp] at hq'
        exact h.inodes i (Or.inr ⟨q, hq'⟩)
  · intro q ts hc
    by_cases hq : q = p
    · subst hq
      have hc' : upd s.pc q v q = .mkdir ts ∨ upd s.pc q v q = .create ts ∨ upd s.pc q v q = .created ts := hc
      rw [upd_same] at hc'
      exact hst ts hc'
    · have hc' : upd s.pc p v q = .mkdir ts ∨ upd s.pc p v q = .create ts ∨ upd s.pc p v q = .created ts := hc
      rw [upd_other _ _ _ _ hq] at hc'
      exact h.stamps q ts hc'
  · intro i hi
    obtain ⟨o, hio, hoo, huniq⟩ := h.ownedCell i hi
    refine ⟨o, hio, ?_, ?_⟩
    · show (upd s.pc p v o).owns = true; rw [hfun]; exact hoo
    · intro q hq
      have hq' : (upd s.pc p v q).owns = true := hq
      rw [hfun] at hq'
      exact huniq q hq'
  · intro hc q
    show (upd s.pc p v q).owns = false
    rw [hfun]; exact h.freeCell hc q
  · exact h.notStolen
  · exact h.publish
  · exact h.unguarded

theorem Inv.tick {T t0 : Nat} {s : State} (h : Inv T t0 s) (d : Nat) :
    Inv T t0 { s with now := s.now + d } := by
  have hm : ∀ c, Harmless s t0 c → Harmless { s with now := s.now + d } t0 c :=
    fun c hc => Harmless.mono (s := s) (s' := { s with now := s.now + d }) rfl rfl (Nat.le_add_right _ _) hc
  constructor
  · exact h.mode
  · exact h.window
  · exact Nat.le_trans h.clockLo (Nat.le_add_right _ _)
  · exact h.idle
  · exact h.liveness
  · exact h.pend
  · exact fun p c hc => hm c (h.reads p c hc)
  · exact fun i hi => hm _ (h.inodes i hi)
  · intro p ts hc
    have := h.stamps p ts hc
    exact ⟨this.1, Nat.le_trans this.2 (Nat.le_add_right _ _)⟩
  · exact h.ownedCell
  · exact h.freeCell
  · exact h.notStolen
  · exact h.publish
  · exact h.unguarded

theorem Inv.filesUpdate {T t0 : Nat} {s : State} (h : Inv T t0 s) (i : Nat) (c : Content)
    (hc : Harmless s t0 c) : Inv T t0 { s with files := upd s.files i c } := by
  constructor
  · exact h.mode
  · exact h.window
  · exact h.clockLo
  · exact h.idle
  · exact h.liveness
  · exact h.pend
  · exact h.reads
  · intro j hjr
    by_cases hj : j = i
    · subst hj; show Harmless _ t0 (upd s.files j c j); rw [upd_same]; exact hc
    · show Harmless _ t0 (upd s.files i c j); rw [upd_other _ _ _ _ hj]; exact h.inodes j hjr
  · exact h.stamps
  · exact h.ownedCell
  · exact h.freeCell
  · exact h.notStolen
  · exact h.publish
  · exact h.unguarded

/-- a terminated process leaving (its pid becomes dead) -/
theorem Inv.exitStep {T t0 : Nat} {s s' : State} (h : Inv T t0 s) (p : Nat) (hp : p < s.n)
    (hterm : (s.pc p).terminal = true)
    (hs : (if s.exits = true ∧ s.alive (pidOf p) = true
            then some { s with alive := upd s.alive (pidOf p) false } else none) = some s') :
    Inv T t0 s' := by
  by_cases hc : s.exits = true ∧ s.alive (pidOf p) = true
  · rw [if_pos hc] at hs
    simp only [Option.some.injEq] at hs; subst hs
    constructor
    · exact h.mode
    · exact h.window
    · exact h.clockLo
    · exact h.idle
    · intro q hq
      by_cases hqp : q = p
      · subst hqp; exact Or.inr ⟨hterm, hc.1⟩
      · have hne : pidOf q ≠ pidOf p := fun e => hqp (pidOf_inj e)
        show upd s.alive (pidOf p) false (pidOf q) = true ∨ _
        rw [upd_other _ _ _ _ hne]; exact h.liveness q hq
    · intro q b hq
      -- an unlink pending elsewhere would mean `p` is already dead
      have hqp : q ≠ p := by intro e; subst e; rw [hq] at hterm; cases hterm
      have := (h.pend q b hq).2 p hp (fun e => hqp e.symm)
      rw [this] at hc; cases hc.2
    · exact h.reads
    · exact h.inodes
    · exact h.stamps
    · exact h.ownedCell
    · exact h.freeCell
    · exact h.notStolen
    · exact h.publish
    · exact h.unguarded
  · rw [if_neg hc] at hs; cases hs

/-- the lock path gets linked to `p`'s inode (`create_new`, or `hard_link` of the finished temporary file) -/
theorem Inv.link {T t0 : Nat} {s : State} (h : Inv T t0 s) (p : Nat) (v : Pc) (hp : p < s.n)
    (hal : s.alive (pidOf p) = true) (hcell : s.cell = none)
    (hvo : v.owns = true)
    (hvn : ∀ b, v ≠ .unlinkPending b) (hvr : ∀ c, v ≠ .readDone c) (hvop : ∀ i, v ≠ .opened i)
    (hvs : ∀ ts, (v = .mkdir ts ∨ v = .create ts ∨ v = .created ts) → t0 ≤ ts ∧ ts ≤ s.now)
    (hfile : Harmless s t0 (s.files (inoOf p))) :
    Inv T t0 { s with cell := some (inoOf p), pc := upd s.pc p v } := by
  have hfree := h.freeCell hcell
  constructor
  · exact h.mode
  · exact h.window
  · exact h.clockLo
  · intro q hq
    have hqp : q ≠ p := by intro e; subst e; exact absurd hp (Nat.not_lt.mpr hq)
    show upd s.pc p _ q = .start
    rw [upd_other _ _ _ _ hqp]; exact h.idle q hq
  · intro q hq
    by_cases hqp : q = p
    · subst hqp; exact Or.inl hal
    · show _ ∨ ((upd s.pc p _ q).terminal = true ∧ _)
      rw [upd_other _ _ _ _ hqp]; exact h.liveness q hq
  · intro q b hc
    by_cases hq : q = p
    · subst hq
      have hc' : upd s.pc q v q = .unlinkPending b := hc
      rw [upd_same] at hc'; exact absurd hc' (hvn b)
    · have hc' : upd s.pc p v q = .unlinkPending b := hc
      rw [upd_other _ _ _ _ hq] at hc'
      -- a pending unlink elsewhere means everybody else, `p` included, is dead
      have := (h.pend q b hc').2 p hp (fun e => hq e.symm)
      rw [this] at hal; cases hal
  · intro q c hc
    by_cases hq : q = p
    · subst hq
      have hc' : upd s.pc q v q = .readDone c := hc
      rw [upd_same] at hc'; exact absurd hc' (hvr c)
    · have hc' : upd s.pc p v q = .readDone c := hc
      rw [upd_other _ _ _ _ hq] at hc'
      exact h.reads q c hc'
  · intro j hj
    rcases hj with hc | ⟨q, hq⟩
    · have hc' : some (inoOf p) = some j := hc
      cases hc'; exact hfile
    · by_cases hqp : q = p
      · subst hqp
        have hq' : upd s.pc q v q = .opened j := hq
        rw [upd_same] at hq'; exact absurd hq' (hvop j)
      · have hq' : upd s.pc p v q = .opened j := hq
        rw [upd_other _ _ _ _ hqp] at hq'
        exact h.inodes j (Or.inr ⟨q, hq'⟩)
  · intro q ts' hc
    by_cases hq : q = p
    · subst hq
      have hc' : upd s.pc q v q = .mkdir ts' ∨ upd s.pc q v q = .create ts' ∨ upd s.pc q v q = .created ts' := hc
      rw [upd_same] at hc'
      exact hvs ts' hc'
    · have hc' : upd s.pc p v q = .mkdir ts' ∨ upd s.pc p v q = .create ts' ∨ upd s.pc p v q = .created ts' := hc
      rw [upd_other _ _ _ _ hq] at hc'
      exact h.stamps q ts' hc'
  · intro i hi
    have hi' : some (inoOf p) = some i := hi
    cases hi'
    refine ⟨p, rfl, ?_, ?_⟩
    · show (upd s.pc p v p).owns = true; rw [upd_same]; exact hvo
    · intro q hq
      by_cases hqp : q = p
      · exact hqp
      · have hq' : (upd s.pc p v q).owns = true := hq
        rw [upd_other _ _ _ _ hqp, hfree q] at hq'
        cases hq'
  · intro hc; cases hc
  · exact h.notStolen
  · exact h.publish
  · exact h.unguarded

/-- an owner unlinks the lock path (Drop, or `release_held_locks` at the prompt): under the invariant the
    file there is its own -/
theorem Inv.unlinkOwn {T t0 : Nat} {s : State} (h : Inv T t0 s) (p i : Nat) (hp : p < s.n)
    (hal : s.alive (pidOf p) = true) (hpo : (s.pc p).owns = true) (hcell : s.cell = some i) :
    Inv T t0 { s with cell := none, stolen := s.stolen || steals s p i, pc := upd s.pc p .done } := by
  obtain ⟨o, hio, hoo, huniq⟩ := h.ownedCell i hcell
  have hpo' := huniq p hpo
  subst hpo'
  subst hio
  constructor
  · exact h.mode
  · exact h.window
  · exact h.clockLo
  · intro q hq
    have hqp : q ≠ p := by intro e; subst e; exact absurd hp (Nat.not_lt.mpr hq)
    show upd s.pc p _ q = .start
    rw [upd_other _ _ _ _ hqp]; exact h.idle q hq
  · intro q hq
    by_cases hqp : q = p
    · subst hqp; exact Or.inl hal
    · show _ ∨ ((upd s.pc p _ q).terminal = true ∧ _)
      rw [upd_other _ _ _ _ hqp]; exact h.liveness q hq
  · intro q b hc
    by_cases hq : q = p
    · subst hq
      have hc' : upd s.pc q .done q = .unlinkPending b := hc
      rw [upd_same] at hc'; cases hc'
    · have hc' : upd s.pc p .done q = .unlinkPending b := hc
      rw [upd_other _ _ _ _ hq] at hc'
      exact ⟨rfl, (h.pend q b hc').2⟩
  · intro q c hc
    by_cases hq : q = p
    · subst hq
      have hc' : upd s.pc q .done q = .readDone c := hc
      rw [upd_same] at hc'; cases hc'
    · have hc' : upd s.pc p .done q = .readDone c := hc
      rw [upd_other _ _ _ _ hq] at hc'
      exact h.reads q c hc'
  · intro j hj
    rcases hj with hc | ⟨q, hq⟩
    · cases hc
    · by_cases hqp : q = p
      · subst hqp
        have hq' : upd s.pc q .done q = .opened j := hq
        rw [upd_same] at hq'; cases hq'
      · have hq' : upd s.pc p .done q = .opened j := hq
        rw [upd_other _ _ _ _ hqp] at hq'
        exact h.inodes j (Or.inr ⟨q, hq'⟩)
  · intro q ts' hc
    by_cases hq : q = p
    · subst hq
      have hc' : upd s.pc q .done q = .mkdir ts' ∨ upd s.pc q .done q = .create ts'
          ∨ upd s.pc q .done q = .created ts' := hc
      rw [upd_same] at hc'
      rcases hc' with hc' | hc' | hc' <;> cases hc'
    · have hc' : upd s.pc p .done q = .mkdir ts' ∨ upd s.pc p .done q = .create ts'
          ∨ upd s.pc p .done q = .created ts' := hc
      rw [upd_other _ _ _ _ hq] at hc'
      exact h.stamps q ts' hc'
  · intro i hi; cases hi
  · intro _ q
    by_cases hq : q = p
    · subst hq; show (upd s.pc q .done q).owns = false; rw [upd_same]; rfl
    · show (upd s.pc p .done q).owns = false
      rw [upd_other _ _ _ _ hq]
      cases hqo : (s.pc q).owns with
      | false => rfl
      | true => exact absurd (huniq q hqo) hq
  · show (s.stolen || steals s p (inoOf p)) = false
    rw [h.notStolen]
    simp [steals, inoOf]
  · exact h.publish
  · exact h.unguarded

/-- a process that can still make a call is alive -/
theorem Inv.stepper_alive {T t0 : Nat} {s s' : State} (h : Inv T t0 s) {p : Nat}
    (hs : step s p = some s') : p < s.n ∧ s.alive (pidOf p) = true := by
  unfold step at hs
  by_cases hp : p < s.n
  · refine ⟨hp, ?_⟩
    rcases h.liveness p hp with hal | ⟨hterm, _⟩
    · exact hal
    · rw [if_pos hp] at hs
      cases hal : s.alive (pidOf p) with
      | true => rfl
      | false =>
        exfalso
        cases hpc : s.pc p <;> rw [hpc] at hterm <;> (try (cases hterm; done)) <;>
          (rw [hpc] at hs; simp [hal] at hs)
  · rw [if_neg hp] at hs; cases hs

/-- while a process can make a call, only that process can have an unlink pending -/
theorem Inv.pend_only_stepper {T t0 : Nat} {s s' : State} (h : Inv T t0 s) {p : Nat}
    (hs : step s p = some s') : ∀ q b, s.pc q = .unlinkPending b → q = p := by
  intro q b hq
  have ⟨hp, hal⟩ := h.stepper_alive hs
  by_cases hqp : q = p
  · exact hqp
  · have := (h.pend q b hq).2 p hp (fun e => hqp e.symm)
    rw [this] at hal; cases hal

/-- Every call of every process preserves the invariant, as long as the clock is inside the window. -/
theorem Inv.stepP {T t0 : Nat} {s s' : State} (h : Inv T t0 s) (hT : s.now ≤ T) (p : Nat)
    (hs : step s p = some s') : Inv T t0 s' := by
  have ⟨hp, hal⟩ := h.stepper_alive hs
  have hpend := h.pend_only_stepper hs
  unfold step at hs
  rw [if_pos hp] at hs
  cases hpc : s.pc p with
  | start =>
    rw [hpc] at hs; simp only at hs
    cases hcell : s.cell with
    | none =>
      rw [hcell] at hs; simp only [Option.some.injEq] at hs; subst hs
      have key := h.pcUpdate p (.mkdir s.now) hp hal hpend (by rw [hpc]; rfl) (by rw [hpc]; rfl) (by intro hv; cases hv) (by intro j hj; cases hj)
        (by intro b hb; cases hb) (by intro c hc; cases hc)
        (by intro ts hts; rcases hts with hts | hts | hts <;> cases hts; exact ⟨h.clockLo, Nat.le_refl _⟩)
      rw [hcell] at key; exact key
    | some i =>
      rw [hcell] at hs; simp only [Option.some.injEq] at hs; subst hs
      have key := h.pcUpdate p (.sawPresent) hp hal hpend (by rw [hpc]; rfl) (by rw [hpc]; rfl) (by intro hv; cases hv) (by intro j hj; cases hj)
        (by intro b hb; cases hb) (by intro c hc; cases hc)
        (by intro ts hts; rcases hts with hts | hts | hts <;> cases hts)
      rw [hcell] at key; exact key
  | sawPresent =>
    rw [hpc] at hs; simp only at hs
    cases hcell : s.cell with
    | none =>
      rw [hcell] at hs; simp only [Option.some.injEq] at hs; subst hs
      have key := h.pcUpdate p (.failed .readFailed) hp hal hpend (by rw [hpc]; rfl) (by rw [hpc]; rfl) (by intro hv; cases hv) (by intro j hj; cases hj)
        (by intro b hb; cases hb) (by intro c hc; cases hc)
        (by intro ts hts; rcases hts with hts | hts | hts <;> cases hts)
      rw [hcell] at key; exact key
    | some i =>
      rw [hcell] at hs; simp only [Option.some.injEq] at hs; subst hs
      have key := h.pcUpdate p (.opened i) hp hal hpend (by rw [hpc]; rfl) (by rw [hpc]; rfl) (by intro hv; cases hv) (by intro j hj; cases hj; exact hcell)
        (by intro b hb; cases hb) (by intro c hc; cases hc)
        (by intro ts hts; rcases hts with hts | hts | hts <;> cases hts)
      rw [hcell] at key; exact key
  | opened i =>
    rw [hpc] at hs; simp only at hs
    have hvalid : s.files i ≠ .invalid := by
      intro hinv
      rcases h.inodes i (Or.inr ⟨p, hpc⟩) with he | ⟨o, ts, hc, _⟩
      · rw [hinv] at he; cases he.1
      · rw [hinv] at hc; cases hc
    rw [if_neg hvalid] at hs; simp only [Option.some.injEq] at hs; subst hs
    have key := h.pcUpdate p (.readDone (s.files i)) hp hal hpend (by rw [hpc]; rfl) (by rw [hpc]; rfl) (by intro hv; cases hv) (by intro j hj; cases hj)
      (by intro b hb; cases hb) (by intro c hc; cases hc; exact h.inodes i (Or.inr ⟨p, hpc⟩))
      (by intro ts hts; rcases hts with hts | hts | hts <;> cases hts)
    exact key
  | readDone c =>
    rw [hpc] at hs; simp only [Option.some.injEq] at hs; subst hs
    have hd := decide_harmless h.window hT (h.reads p c hpc)
    rcases hd with hd | ⟨pid, hd⟩ | ⟨o, ho, hod, hd⟩
    · rw [hd]
      have key := h.pcUpdate p (.mkdir s.now) hp hal hpend (by rw [hpc]; rfl) (by rw [hpc]; rfl) (by intro hv; cases hv) (by intro j hj; cases hj)
        (by intro b hb; cases hb) (by intro c hc; cases hc)
        (by intro ts hts; rcases hts with hts | hts | hts <;> cases hts; exact ⟨h.clockLo, Nat.le_refl _⟩)
      exact key
    · rw [hd]
      have key := h.pcUpdate p (.failed (.alreadyRunning pid)) hp hal hpend (by rw [hpc]; rfl) (by rw [hpc]; rfl) (by intro hv; cases hv) (by intro j hj; cases hj)
        (by intro b hb; cases hb) (by intro c hc; cases hc)
        (by intro ts hts; rcases hts with hts | hts | hts <;> cases hts)
      exact key
    · rw [hd]
      -- the writer `o` has left: then there are at most two processes, the other one is gone,
      -- and the lock file it owned is gone with it
      have hop : o ≠ p := by intro e; subst e; rw [hal] at hod; cases hod
      have hoterm : (s.pc o).terminal = true ∧ s.exits = true := by
        rcases h.liveness o ho with ha | ht
        · rw [ha] at hod; cases hod
        · exact ht
      have hn2 : s.n ≤ 2 := by
        rcases h.mode with hm | hm
        · rw [hm] at hoterm; cases hoterm.2
        · exact hm
      have hcellnone : s.cell = none := by
        cases hcell : s.cell with
        | none => rfl
        | some i =>
          obtain ⟨x, _, hxo, _⟩ := h.ownedCell i hcell
          have hxn : x < s.n := by
            apply Nat.lt_of_not_le
            intro hle
            rw [h.idle x hle] at hxo; cases hxo
          have hxp : x ≠ p := by intro e; subst e; rw [hpc] at hxo; cases hxo
          have hxo' : x ≠ o := by
            intro e; subst e
            rw [owns_not_terminal hxo] at hoterm; cases hoterm.1
          omega
      have key := h.pcUpdate p (.unlinkPending .orphaned) hp hal hpend (by rw [hpc]; rfl) (by rw [hpc]; rfl)
        (by intro hv; cases hv) (by intro j hj; cases hj)
        (by
          intro b _
          refine ⟨hcellnone, ?_⟩
          intro r hr hrp
          have : r = o := by omega
          subst this; exact hod)
        (by intro c hc; cases hc)
        (by intro ts hts; rcases hts with hts | hts | hts <;> cases hts)
      exact key
  | locked => rw [hpc] at hs; cases hs
  | unlinkPending b =>
    rw [hpc] at hs; simp only at hs
    have hcell := (h.pend p b hpc).1
    rw [hcell] at hs; simp only [Option.some.injEq] at hs; subst hs
    have key := h.pcUpdate p (.failed (.removeFailed b)) hp hal hpend (by rw [hpc]; rfl) (by rw [hpc]; rfl) (by intro hv; cases hv) (by intro j hj; cases hj)
      (by intro b hb; cases hb) (by intro c hc; cases hc)
      (by intro ts hts; rcases hts with hts | hts | hts <;> cases hts)
    rw [hcell] at key; exact key
  | mkdir ts =>
    rw [hpc] at hs; simp only [Option.some.injEq] at hs; subst hs
    have key := h.pcUpdate p (.create ts) hp hal hpend (by rw [hpc]; rfl) (by rw [hpc]; rfl) (by intro hv; cases hv) (by intro j hj; cases hj)
      (by intro b hb; cases hb) (by intro c hc; cases hc)
      (by intro ts' hts; rcases hts with hts | hts | hts <;> cases hts; exact h.stamps p ts (Or.inl hpc))
    exact key
  | create ts =>
    rw [hpc] at hs; simp only at hs
    cases hcell : s.cell with
    | some i =>
      rw [hcell] at hs; simp only [Option.some.injEq] at hs; subst hs
      have key := h.pcUpdate p (.failed .createExists) hp hal hpend (by rw [hpc]; rfl) (by rw [hpc]; rfl) (by intro hv; cases hv) (by intro j hj; cases hj)
        (by intro b hb; cases hb) (by intro c hc; cases hc)
        (by intro ts hts; rcases hts with hts | hts | hts <;> cases hts)
      rw [hcell] at key; exact key
    | none =>
      rw [hcell] at hs; simp only at hs
      have hst := h.stamps p ts (Or.inr (Or.inl hpc))
      by_cases hat : s.atomicPublish = true
      · rw [if_pos hat] at hs; simp only [Option.some.injEq] at hs; subst hs
        have h1 := h.filesUpdate (inoOf p) (.pidts (pidOf p) ts) (Or.inr ⟨p, ts, rfl, hp, hst.1, hst.2⟩)
        exact h1.link p .holding hp hal hcell rfl (by intro b hb; cases hb) (by intro c hc; cases hc)
          (by intro j hj; cases hj) (by intro ts' hts; rcases hts with hts | hts | hts <;> cases hts)
          (by show Harmless _ t0 (upd s.files (inoOf p) _ (inoOf p)); rw [upd_same]
              exact Or.inr ⟨p, ts, rfl, hp, hst.1, hst.2⟩)
      · rw [if_neg hat] at hs; simp only [Option.some.injEq] at hs; subst hs
        have hab : s.abandon = .none := by
          cases hab : s.abandon with
          | none => rfl
          | empty => exact absurd (h.publish (by rw [hab]; intro e; cases e)) hat
          | unparsable => exact absurd (h.publish (by rw [hab]; intro e; cases e)) hat
        have h1 := h.filesUpdate (inoOf p) .empty (Or.inl ⟨rfl, hab⟩)
        exact h1.link p (.created ts) hp hal hcell rfl (by intro b hb; cases hb) (by intro c hc; cases hc)
          (by intro j hj; cases hj)
          (by intro ts' hts; rcases hts with hts | hts | hts <;> cases hts; exact hst)
          (by show Harmless _ t0 (upd s.files (inoOf p) _ (inoOf p)); rw [upd_same]; exact Or.inl ⟨rfl, hab⟩)
  | created ts =>
    rw [hpc] at hs; simp only [Option.some.injEq] at hs; subst hs
    have hst := h.stamps p ts (Or.inr (Or.inr hpc))
    have h1 := h.filesUpdate (inoOf p) (.pidts (pidOf p) ts)
      (Or.inr ⟨p, ts, rfl, hp, hst.1, hst.2⟩)
    exact h1.pcUpdate p .holding hp hal hpend (by show _ = (s.pc p).owns; rw [hpc]; rfl)
      (by show (s.pc p).terminal = false; rw [hpc]; rfl) (by intro hv; cases hv) (by intro j hj; cases hj)
      (by intro b hb; cases hb)
      (by intro c hc; cases hc) (by intro ts hts; rcases hts with hts | hts | hts <;> cases hts)
  | holding =>
    rw [hpc] at hs; simp only [Option.some.injEq] at hs; subst hs
    have key := h.pcUpdate p (.dropCheck) hp hal hpend (by rw [hpc]; rfl) (by rw [hpc]; rfl) (by intro hv; cases hv) (by intro j hj; cases hj)
      (by intro b hb; cases hb) (by intro c hc; cases hc)
      (by intro ts hts; rcases hts with hts | hts | hts <;> cases hts)
    exact key
  | dropCheck =>
    rw [hpc] at hs; simp only at hs
    cases hcell : s.cell with
    | none =>
      have := h.freeCell hcell p
      rw [hpc] at this; cases this
    | some i =>
      rw [hcell] at hs; simp only at hs
      -- under the invariant the linked file is the owner's own, so a content check changes nothing
      have hown : ¬ (s.dropChecks = true ∧ i ≠ inoOf p) := by
        intro hne
        have hlink := h.owner_linked' p (by rw [hpc]; rfl)
        rw [hcell] at hlink
        cases hlink
        exact hne.2 rfl
      rw [if_neg hown] at hs; simp only [Option.some.injEq] at hs; subst hs
      have key := h.pcUpdate p (.dropUnlink) hp hal hpend (by rw [hpc]; rfl) (by rw [hpc]; rfl) (by intro hv; cases hv) (by intro j hj; cases hj)
        (by intro b hb; cases hb) (by intro c hc; cases hc)
        (by intro ts hts; rcases hts with hts | hts | hts <;> cases hts)
      rw [hcell] at key; exact key
  | dropUnlink =>
    rw [hpc] at hs; simp only at hs
    cases hcell : s.cell with
    | none =>
      have := h.freeCell hcell p
      rw [hpc] at this; cases this
    | some i =>
      rw [hcell] at hs; simp only [Option.some.injEq] at hs; subst hs
      exact h.unlinkOwn p i hp hal (by rw [hpc]; rfl) hcell
  | done =>
    rw [hpc] at hs
    exact h.exitStep p hp (by rw [hpc]; rfl) hs
  | failed e =>
    rw [hpc] at hs
    exact h.exitStep p hp (by rw [hpc]; rfl) hs
  | panicked =>
    rw [hpc] at hs
    exact h.exitStep p hp (by rw [hpc]; rfl) hs

theorem step_now {s s' : State} {p : Nat} (hs : step s p = some s') : s'.now = s.now := by
  unfold step at hs
  split at hs
  · split at hs <;> (try split at hs) <;> (try split at hs) <;> first
      | (cases hs; rfl)
      | cases hs
  · cases hs

theorem gstep_now {s s' : State} {p : Nat} (hs : gstep s p = some s') : s'.now = s.now := by
  unfold gstep at hs
  split at hs
  · split at hs <;> (try split at hs) <;> (try split at hs) <;> (try split at hs) <;> first
      | (cases hs; rfl)
      | cases hs
  · cases hs

theorem promptExit_now (s : State) (p : Nat) : (promptExit s p).now = s.now := by
  unfold promptExit
  split
  · split
    · split <;> rfl
    · rfl
  · rfl

theorem Inv.promptExit {T t0 : Nat} {s : State} (h : Inv T t0 s) (p : Nat) : Inv T t0 (Lock.promptExit s p) := by
  unfold Lock.promptExit
  by_cases hc : p < s.n ∧ s.pc p = .holding ∧ (s.guarded = true → s.guard = none)
  · rw [if_pos hc]
    have hpo : (s.pc p).owns = true := by rw [hc.2.1]; rfl
    have hal : s.alive (pidOf p) = true := by
      rcases h.liveness p hc.1 with ha | ⟨ht, _⟩
      · exact ha
      · rw [hc.2.1] at ht; cases ht
    cases hcell : s.cell with
    | none => have := h.freeCell hcell p; rw [this] at hpo; cases hpo
    | some i =>
      have hown : ¬ (s.dropChecks = true ∧ i ≠ inoOf p) := by
        intro hne
        have hlink := h.owner_linked' p hpo
        rw [hcell] at hlink
        cases hlink
        exact hne.2 rfl
      show Inv T t0 (if s.dropChecks = true ∧ i ≠ inoOf p then _ else _)
      rw [if_neg hown]
      exact h.unlinkOwn p i hc.1 hal hpo hcell
  · rw [if_neg hc]; exact h

theorem now_le_stepEv (s : State) (e : Ev) : s.now ≤ (stepEv s e).now := by
  cases e with
  | tick d => exact Nat.le_add_right _ _
  | proc p =>
    show s.now ≤ (if s.guarded = true then (gstep s p).getD s else (step s p).getD s).now
    split
    · cases hs : gstep s p with
      | none => exact Nat.le_refl _
      | some s' => show s.now ≤ s'.now; rw [gstep_now hs]; exact Nat.le_refl _
    · cases hs : step s p with
      | none => exact Nat.le_refl _
      | some s' => show s.now ≤ s'.now; rw [step_now hs]; exact Nat.le_refl _
  | promptInt p => show s.now ≤ (promptExit s p).now; rw [promptExit_now]; exact Nat.le_refl _

theorem now_le_run (es : List Ev) : ∀ s : State, s.now ≤ (run s es).now := by
  induction es with
  | nil => intro s; exact Nat.le_refl _
  | cons e es ih => intro s; exact Nat.le_trans (now_le_stepEv s e) (ih _)

theorem Inv.stepEv {T t0 : Nat} {s : State} (h : Inv T t0 s) (e : Ev) (hT : (stepEv s e).now ≤ T) :
    Inv T t0 (Lock.stepEv s e) := by
  cases e with
  | tick d => exact h.tick d
  | proc p =>
    have hT' : s.now ≤ T := Nat.le_trans (now_le_stepEv s (.proc p)) hT
    show Inv T t0 (if s.guarded = true then (gstep s p).getD s else (step s p).getD s)
    rw [if_neg (by rw [h.unguarded]; intro e; cases e)]
    cases hs : step s p with
    | none => exact h
    | some s' => exact h.stepP hT' p hs
  | promptInt p => exact h.promptExit p

/-- The invariant holds along every schedule whose clock stays inside the window. -/
theorem Inv.run {T t0 : Nat} (es : List Ev) : ∀ {s : State}, Inv T t0 s → (run s es).now ≤ T →
    Inv T t0 (Lock.run s es) := by
  induction es with
  | nil => intro s h _; exact h
  | cons e es ih =>
    intro s h hT
    have h1 : (Lock.stepEv s e).now ≤ T := Nat.le_trans (now_le_run es _) hT
    exact ih (h.stepEv e h1) hT

/-- what the invariant gives: at most one owner (hence at most one holder) … -/
theorem Inv.owners_unique {T t0 : Nat} {s : State} (h : Inv T t0 s) (p q : Nat)
    (hp : (s.pc p).owns = true) (hq : (s.pc q).owns = true) : p = q := by
  cases hcell : s.cell with
  | none => have := h.freeCell hcell p; rw [this] at hp; cases hp
  | some i =>
    obtain ⟨o, _, _, huniq⟩ := h.ownedCell i hcell
    rw [huniq p hp, huniq q hq]

/-- … whose lock file stays linked until the owner itself removes it … -/
theorem Inv.owner_linked {T t0 : Nat} {s : State} (h : Inv T t0 s) (p : Nat)
    (hp : (s.pc p).owns = true) : s.cell = some (inoOf p) := by
  cases hcell : s.cell with
  | none => have := h.freeCell hcell p; rw [this] at hp; cases hp
  | some i =>
    obtain ⟨o, hio, _, huniq⟩ := h.ownedCell i hcell
    rw [hio, huniq p hp]

/-- … and once nobody owns the lock any more the file is gone -/
theorem Inv.released {T t0 : Nat} {s : State} (h : Inv T t0 s)
    (hall : ∀ p, (s.pc p).owns = false) : s.cell = none := by
  cases hcell : s.cell with
  | none => rfl
  | some i =>
    obtain ⟨o, _, hoo, _⟩ := h.ownedCell i hcell
    rw [hall o] at hoo; cases hoo

/-! ### malformed lock file: nobody ever gets in -/

/-- program points a process can be at while an unparseable lock file sits at the path -/
def stuckOk (f0 : Content) : Pc → Bool
  | .start | .sawPresent | .mkdir _ | .create _ => true
  | .opened i => i == 0
  | .readDone c => c == f0
  | .failed e => e == .createExists || e == .readInvalid
  | _ => false

structure Stuck (f0 : Content) (s : State) : Prop where
  malformed : f0 = .empty ∨ f0 = .garbage ∨ f0 = .invalid
  policy : (f0 = .empty → s.abandon = .none) ∧ (f0 = .garbage → s.abandon ≠ .unparsable)
  strictRead : f0 = .invalid → s.lossyRead = false
  unguarded : s.guarded = false
  cell : s.cell = some 0
  file : s.files 0 = f0
  pcs : ∀ p, stuckOk f0 (s.pc p) = true

theorem stuckOk_decide (f0 : Content) (h : f0 = .empty ∨ f0 = .garbage ∨ f0 = .invalid) (d sat nd : Bool) (ab : Abandon)
    (hpol : (f0 = .empty → ab = .none) ∧ (f0 = .garbage → ab ≠ .unparsable)) (now : Nat) (al : Nat → Bool) :
    stuckOk f0 (decide' d sat nd ab now al f0) = true := by
  rcases h with h | h | h <;> subst h
  · rw [hpol.1 rfl]; rfl
  · have := hpol.2 rfl
    cases ab <;> first | rfl | exact absurd rfl this
  · rfl

theorem Stuck.pcUpdate {f0 : Content} {s : State} (h : Stuck f0 s) (p : Nat) (v : Pc)
    (hv : stuckOk f0 v = true) : Stuck f0 { s with pc := upd s.pc p v } := by
  refine ⟨h.malformed, h.policy, h.strictRead, h.unguarded, h.cell, h.file, ?_⟩
  intro q
  by_cases hq : q = p
  · subst hq; show stuckOk f0 (upd s.pc q v q) = true; rw [upd_same]; exact hv
  · show stuckOk f0 (upd s.pc p v q) = true; rw [upd_other _ _ _ _ hq]; exact h.pcs q

theorem Stuck.stepP {f0 : Content} {s s' : State} (h : Stuck f0 s) (p : Nat) (hs : step s p = some s') :
    Stuck f0 s' := by
  have hcell := h.cell
  have hok := h.pcs p
  unfold step at hs
  by_cases hp : p < s.n
  · rw [if_pos hp] at hs
    cases hpc : s.pc p with
    | start =>
      rw [hpc, hcell] at hs; simp only [Option.some.injEq] at hs; subst hs
      have key := h.pcUpdate p .sawPresent rfl
      rw [hcell] at key; exact key
    | sawPresent =>
      rw [hpc, hcell] at hs; simp only [Option.some.injEq] at hs; subst hs
      have key := h.pcUpdate p (.opened 0) rfl
      rw [hcell] at key; exact key
    | opened i =>
      rw [hpc] at hs hok; simp only at hs
      have hi : i = 0 := by simpa [stuckOk] using hok
      subst hi
      by_cases hinv : s.files 0 = .invalid
      · have hstrict : s.lossyRead = false := h.strictRead (by rw [← h.file]; exact hinv)
        rw [if_pos hinv, if_neg (by rw [hstrict]; intro e; cases e)] at hs
        simp only [Option.some.injEq] at hs; subst hs
        exact h.pcUpdate p _ rfl
      · rw [if_neg hinv] at hs; simp only [Option.some.injEq] at hs; subst hs
        exact h.pcUpdate p _ (by rw [h.file]; simp [stuckOk])
    | readDone c =>
      rw [hpc] at hs hok; simp only [Option.some.injEq] at hs; subst hs
      have hc : c = f0 := by simpa [stuckOk] using hok
      subst hc
      exact h.pcUpdate p _ (stuckOk_decide c h.malformed _ _ _ _ h.policy _ _)
    | mkdir ts =>
      rw [hpc] at hs; simp only [Option.some.injEq] at hs; subst hs
      exact h.pcUpdate p (.create ts) rfl
    | create ts =>
      rw [hpc, hcell] at hs; simp only [Option.some.injEq] at hs; subst hs
      have key := h.pcUpdate p (.failed .createExists) rfl
      rw [hcell] at key; exact key
    | failed e =>
      rw [hpc] at hs
      by_cases hc : s.exits = true ∧ s.alive (pidOf p) = true
      · rw [if_pos hc] at hs; simp only [Option.some.injEq] at hs; subst hs
        exact ⟨h.malformed, h.policy, h.strictRead, h.unguarded, h.cell, h.file, h.pcs⟩
      · rw [if_neg hc] at hs; cases hs
    | unlinkPending b => rw [hpc] at hok; cases hok
    | locked => rw [hpc] at hok; cases hok
    | created ts => rw [hpc] at hok; cases hok
    | holding => rw [hpc] at hok; cases hok
    | dropCheck => rw [hpc] at hok; cases hok
    | dropUnlink => rw [hpc] at hok; cases hok
    | done => rw [hpc] at hok; cases hok
    | panicked => rw [hpc] at hok; cases hok
  · rw [if_neg hp] at hs; cases hs

theorem Stuck.run {f0 : Content} (es : List Ev) : ∀ {s : State}, Stuck f0 s → Stuck f0 (Lock.run s es) := by
  induction es with
  | nil => intro s h; exact h
  | cons e es ih =>
    intro s h
    apply ih
    cases e with
    | tick d => exact ⟨h.malformed, h.policy, h.strictRead, h.unguarded, h.cell, h.file, h.pcs⟩
    | proc p =>
      show Stuck f0 (if s.guarded = true then (gstep s p).getD s else (step s p).getD s)
      rw [if_neg (by rw [h.unguarded]; intro e; cases e)]
      cases hs : step s p with
      | none => exact h
      | some s' => exact h.stepP p hs
    | promptInt p =>
      show Stuck f0 (promptExit s p)
      unfold promptExit
      by_cases hc : p < s.n ∧ s.pc p = .holding ∧ (s.guarded = true → s.guard = none)
      · have := h.pcs p; rw [hc.2.1] at this; cases this
      · rw [if_neg hc]; exact h

/-! ### small facts about single steps -/

theorem step_pc_other {s s' : State} {q r : Nat} (hs : step s q = some s') (h : r ≠ q) : s'.pc r = s.pc r := by
  unfold step at hs
  split at hs
  · split at hs <;> (try split at hs) <;> (try split at hs) <;> first
      | (cases hs; exact upd_other _ _ _ _ h)
      | (cases hs; rfl)
      | cases hs
  · cases hs

theorem drop_releases (s : State) (p : Nat) (hp : p < s.n) (hpc : s.pc p = .holding) (hg : s.guarded = false)
    (hd : s.dropChecks = false ∨ s.cell = some (inoOf p)) :
    (runP s [p, p, p]).cell = none ∧ (runP s [p, p, p]).pc p = .done := by
  have e1 : stepEv s (.proc p) = { s with pc := upd s.pc p .dropCheck } := by
    show (if s.guarded = true then _ else (step s p).getD s) = _
    rw [if_neg (by rw [hg]; intro e; cases e)]
    simp [step, hp, hpc]
  show (run (stepEv s (.proc p)) [.proc p, .proc p]).cell = none ∧ (run (stepEv s (.proc p)) [.proc p, .proc p]).pc p = .done
  rw [e1]
  cases hc : s.cell with
  | none =>
    simp [run, stepEv, step, hp, hc, hg, upd_same] <;> split <;> simp_all [upd_same]
  | some i =>
    have hno : ¬ (s.dropChecks = true ∧ i ≠ inoOf p) := by
      rcases hd with hd | hd
      · rw [hd]; simp
      · rw [hc] at hd; cases hd; simp
    simp [run, stepEv, step, hp, hc, hg, upd_same, hno] <;> split <;> simp_all [upd_same]

end Lock
