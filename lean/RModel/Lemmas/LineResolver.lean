import RModel.Lemmas.LineConstraints
/-
  C06 lemmas, part 2: the resolver's fallback chain returns a member of the list of styles compatible with the match.
-/
open B CaseModel

namespace LinePipeline

theorem mem_filterCompatible {A : Acr} {text : Bytes} {styles : List Style} {st : Style} :
    st ∈ filterCompatible A text styles ↔ st ∈ styles ∧ canMatchStyle A text st = true := by
  simp only [filterCompatible, List.mem_filter]

theorem filterCompatible_idem (A : Acr) (text : Bytes) (styles : List Style) :
    filterCompatible A text (filterCompatible A text styles) = filterCompatible A text styles := by
  simp only [filterCompatible, List.filter_filter, Bool.and_self]

theorem find?_contains_mem {l possible : List Style} {s : Style}
    (h : l.find? (fun x => possible.contains x) = some s) : s ∈ possible := by
  have := List.find?_some h
  simpa using this

theorem defaultFallback_mem {A : Acr} {possible : List Style} (repl : Bytes) (rp : List Style) (hne : possible ≠ []) :
    defaultFallback A possible repl rp ∈ possible := by
  have hsub : ∀ s, s ∈ possible.filter (fun s => rp.contains s) → s ∈ possible := fun s hs => (List.mem_filter.mp hs).1
  unfold defaultFallback
  simp only []
  split
  · rename_i s hs
    exact hsub s (by rw [hs]; exact List.mem_singleton.mpr rfl)
  · split
    · rename_i s hs
      split at hs
      · exact absurd hs (by simp)
      · split at hs
        · split at hs
          · rename_i rs _ hc
            cases hs
            exact hsub _ (by simpa using hc)
          · exact hsub _ (find?_contains_mem hs)
        · exact hsub _ (find?_contains_mem hs)
    · split
      · rename_i s hs; exact find?_contains_mem hs
      · obtain ⟨a, l, rfl⟩ := List.exists_cons_of_ne_nil hne
        exact List.mem_cons_self ..

theorem replacementPreference_mem {A : Acr} {possible : List Style} (repl : Bytes) (rp : List Style) (hne : possible ≠ [])
    (hflat : possible.all isFlat = false) : replacementPreference A possible repl rp ∈ possible := by
  unfold replacementPreference
  split
  · rename_i rs _
    split
    · rename_i hc; simpa using hc
    · split
      · rename_i hc; rw [hflat] at hc; exact absurd hc (by simp)
      · exact defaultFallback_mem repl rp hne
  · exact defaultFallback_mem repl rp hne

theorem allStyles_nodup : Gen.allStyles.Nodup := by decide

theorem canMatch_snake_of_lowerFlat {A : Acr} {text : Bytes} (h : canMatchStyle A text .lowerFlat = true) :
    canMatchStyle A text .snake = true := by
  simp only [canMatchStyle, Gen.styleConstraints, checkSep, Gen.allSeparators, List.all_cons, List.all_nil,
    Bool.and_eq_true, Bool.or_eq_true, Bool.not_eq_true', Bool.and_true] at h ⊢
  refine ⟨h.1, Or.inl (by decide), ?_, ?_, ?_⟩
  · exact h.2.2.1
  · exact h.2.2.2.1
  · exact h.2.2.2.2

/-- two or more compatible styles are never only the flat ones: a text that may be lower-flat may also be snake -/
theorem ambiguous_not_all_flat {A : Acr} {text : Bytes} (h : isAmbiguous A text Gen.allStyles = true) :
    (filterCompatible A text Gen.allStyles).all isFlat = false := by
  simp only [isAmbiguous, decide_eq_true_eq] at h
  cases hall : (filterCompatible A text Gen.allStyles).all isFlat with
  | false => rfl
  | true =>
    exfalso
    have hnd : (filterCompatible A text Gen.allStyles).Nodup := List.Pairwise.filter _ allStyles_nodup
    rw [List.all_eq_true] at hall
    have hsnake : Style.lowerFlat ∈ filterCompatible A text Gen.allStyles → False := by
      intro hm
      have := canMatch_snake_of_lowerFlat (mem_filterCompatible.mp hm).2
      have hs : Style.snake ∈ filterCompatible A text Gen.allStyles := mem_filterCompatible.mpr ⟨by decide, this⟩
      exact absurd (hall _ hs) (by decide)
    match hl : filterCompatible A text Gen.allStyles, h with
    | a :: b :: rest, _ =>
      rw [hl] at hnd hall hsnake
      have hab : a ≠ b := (List.pairwise_cons.mp hnd).1 b (List.mem_cons_self ..)
      have ha := hall a (List.mem_cons_self ..)
      have hb := hall b (List.mem_cons_of_mem _ (List.mem_cons_self ..))
      cases a <;> cases b <;> first
        | exact absurd ha (by decide)
        | exact absurd hb (by decide)
        | exact absurd rfl hab
        | exact hsnake (List.mem_cons_self ..)
        | exact hsnake (List.mem_cons_of_mem _ (List.mem_cons_self ..))

/-- whatever the context heuristics say (as long as they pick from the list they are given), the style chosen for an
    ambiguous match is one of the styles compatible with the matched text -/
theorem resolve_mem {A : Acr} {heur : List Style → Option Style} {matched : Bytes} (repl : Bytes) (rp : List Style)
    (hamb : isAmbiguous A matched Gen.allStyles = true) (hh : ∀ l s, heur l = some s → s ∈ l) :
    resolve A heur matched repl rp ∈ filterCompatible A matched Gen.allStyles := by
  have hne : filterCompatible A matched Gen.allStyles ≠ [] := by
    intro h0
    simp only [isAmbiguous, h0, List.length_nil, decide_eq_true_eq] at hamb
    exact absurd hamb (by decide)
  unfold resolve
  simp only [hamb, Bool.not_true, Bool.false_eq_true, ↓reduceIte, filterCompatible_idem]
  split
  · rename_i he
    rw [List.isEmpty_iff] at he
    exact absurd he hne
  · split
    · rename_i s hs; exact hh _ _ hs
    · exact replacementPreference_mem repl rp hne (ambiguous_not_all_flat hamb)

end LinePipeline
