import RModel.Model.LinePipeline
import RModel.Lemmas.CaseModelStyles
/-
  C06 lemmas, part 1: what `can_match_style` implies about a text (first letter, upper/lower-case letters), for every
  text; the resolver returns a member of the list of compatible styles.
-/
open B CaseModel

namespace LinePipeline

-- consequences of the case patterns, for every text -----------------------------------------------------------------

theorem checkCase_ne_nil {A : Acr} {text : Bytes} {c : CaseConstraint} (h : checkCase A text c = true) : text ≠ [] := by
  intro hn; subst hn; simp [checkCase] at h

theorem checkCase_allUpper {A : Acr} {text : Bytes} (h : checkCase A text .allUppercase = true) :
    hasLower text = false := by
  cases text with
  | nil => simp [checkCase] at h
  | cons c cs => simpa [checkCase] using h

theorem checkCase_allLower {A : Acr} {text : Bytes} (h : checkCase A text .allLowercase = true) :
    hasUpper text = false := by
  cases text with
  | nil => simp [checkCase] at h
  | cons c cs => simpa [checkCase] using h

theorem checkCase_title {A : Acr} {c : UInt8} {cs : Bytes} (h : checkCase A (c :: cs) .titlePattern = true) :
    isUpper c = true ∧ cs.any isUpper = false := by
  simp only [checkCase, Bool.and_eq_true, List.all_eq_true] at h
  refine ⟨h.1, ?_⟩
  rw [List.any_eq_false]
  intro x hx hu
  have := h.2 x hx
  simp only [Bool.or_eq_true, Bool.not_eq_true'] at this
  rcases this with hl | ha
  · simp only [isUpper, isLower, Bool.and_eq_true, decide_eq_true_eq] at hu hl; omega
  · simp only [isAlpha, hu, Bool.true_or] at ha; exact absurd ha (by decide)

theorem checkCase_camel {A : Acr} {c : UInt8} {cs : Bytes} (h : checkCase A (c :: cs) .camelPattern = true) :
    isLower c = true := by
  simp only [checkCase, Bool.and_eq_true] at h; exact h.1

theorem checkCase_pascal {A : Acr} {c : UInt8} {cs : Bytes} (h : checkCase A (c :: cs) .pascalPattern = true) :
    isUpper c = true ∧ hasConsecutiveUpper A (c :: cs) = false := by
  simp only [checkCase, Bool.and_eq_true, Bool.not_eq_true'] at h; exact h

theorem checkCase_titleWords {A : Acr} {c : UInt8} {cs : Bytes} (h : checkCase A (c :: cs) .titleWordsPattern = true) :
    isUpper c = true := by
  simp only [checkCase, List.all_eq_true] at h
  -- the first piece of the split starts with `c` unless `c` is the space itself, and then the first piece is empty
  have key : ∀ (s cur : Bytes), ∃ p ps, splitOn.go 32 s cur = p :: ps ∧
      (cur ≠ [] → p.head? = cur.getLast?) ∧ (cur = [] → ∀ x r, s = x :: r → (x == 32) = false → p.head? = some x) ∧
      (cur = [] → ∀ x r, s = x :: r → (x == 32) = true → p = []) := by
    intro s
    induction s with
    | nil => intro cur; exact ⟨cur.reverse, [], rfl, fun h => by simp [List.head?_reverse], by simp, by simp⟩
    | cons y ys ih =>
      intro cur
      by_cases hy : (y == 32) = true
      · refine ⟨cur.reverse, splitOn.go 32 ys [], by simp [splitOn.go, hy], fun h => by simp [List.head?_reverse], ?_, ?_⟩
        · intro _ x r hxr hx; cases hxr; rw [hy] at hx; exact absurd hx (by decide)
        · intro hc _ _ _ _; subst hc; rfl
      · obtain ⟨p, ps, hp, h1, _, _⟩ := ih (y :: cur)
        refine ⟨p, ps, by simp [splitOn.go, hy, hp], ?_, ?_, ?_⟩
        · intro hc
          rw [h1 (by simp), List.getLast?_cons_cons_of_ne hc]
        · intro hc x r hxr _; cases hxr; subst hc
          rw [h1 (by simp)]; rfl
        · intro _ x r hxr hx; cases hxr; exact absurd hx hy
  obtain ⟨p, ps, hp, _, h2, h3⟩ := key (c :: cs) []
  have hall := h p (by simp [splitOn, hp])
  by_cases hc : (c == 32) = true
  · rw [h3 rfl c cs rfl hc] at hall; exact absurd hall (by simp)
  · have := h2 rfl c cs rfl (by simpa using hc)
    cases p with
    | nil => simp at this
    | cons q qs =>
      simp only [List.head?_cons, Option.some.injEq] at this
      subst this
      simp only [Bool.and_eq_true] at hall
      exact hall.1
where
  List.getLast?_cons_cons_of_ne {α} {a : α} {l : List α} (h : l ≠ []) : (a :: l).getLast? = l.getLast? := by
    cases l with
    | nil => exact absurd rfl h
    | cons b t => simp [List.getLast?_cons_cons]

-- first letter ------------------------------------------------------------------------------------------------------------

/-- does a text satisfying the pattern start with an upper-case letter (given that it starts with a letter) -/
def kindUpper : CaseConstraint → Bool
  | .allLowercase | .camelPattern => false
  | _ => true

/-- does the rendering in this style start with an upper-case letter -/
def styleUpper : Style → Bool
  | .snake | .kebab | .dot | .lowerSentence | .lowerFlat | .camel => false
  | _ => true

/-- the generated constraint table and the renderer agree on the case of the first letter, style by style -/
theorem table_first_letter (st : Style) : kindUpper (Gen.styleConstraints st).1 = styleUpper st := by
  cases st <;> rfl

theorem alpha_not_lower_upper {c : UInt8} (ha : isAlpha c = true) (hl : isLower c = false) : isUpper c = true := by
  simp only [isAlpha, hl, Bool.or_false] at ha; exact ha

theorem checkCase_first {A : Acr} {c : UInt8} {cs : Bytes} {k : CaseConstraint} (h : checkCase A (c :: cs) k = true)
    (hc : isAlpha c = true) : isUpper c = kindUpper k := by
  cases k with
  | allUppercase =>
    have := checkCase_allUpper h
    simp only [hasLower, List.any_cons, Bool.or_eq_false_iff] at this
    exact alpha_not_lower_upper hc this.1
  | allLowercase =>
    have := checkCase_allLower h
    simp only [hasUpper, List.any_cons, Bool.or_eq_false_iff] at this
    exact this.1
  | titlePattern => exact (checkCase_title h).1
  | camelPattern => exact lower_not_upper (checkCase_camel h)
  | pascalPattern => exact (checkCase_pascal h).1
  | titleWordsPattern => exact checkCase_titleWords h

theorem isUpper_toUpper_alpha {d : UInt8} (hd : isAlpha d = true) : isUpper (toUpper d) = true := by
  cases hl : isLower d with
  | true => exact toUpper_of_lower hl
  | false => rw [toUpper_id hl]; exact alpha_not_lower_upper hd hl

theorem isUpper_toLower_alpha {d : UInt8} (hd : isAlpha d = true) : isUpper (toLower d) = false := by
  cases hu : isUpper d with
  | true => exact lower_not_upper (toLower_of_upper hu)
  | false => rw [toLower_id hu]; exact hu

theorem capitalizeFirst_head {d : UInt8} (t : Bytes) (hd : isAlpha d = true) :
    ∃ e r, capitalizeFirst (d :: t) = e :: r ∧ isUpper e = true := by
  by_cases hall : ((d :: t).all isUpper && decide ((d :: t).length ≤ 2)) = true
  · refine ⟨d, t, ?_, ?_⟩
    · show (if ((d :: t).all isUpper && decide ((d :: t).length ≤ 2)) = true then d :: t else toUpper d :: lower t) = _
      rw [if_pos hall]
    · simp only [Bool.and_eq_true, List.all_eq_true] at hall
      exact hall.1 d (List.mem_cons_self ..)
  · refine ⟨toUpper d, lower t, ?_, isUpper_toUpper_alpha hd⟩
    show (if ((d :: t).all isUpper && decide ((d :: t).length ≤ 2)) = true then d :: t else toUpper d :: lower t) = _
    rw [if_neg hall]

theorem capOrKeep_head {A : Acr} {d : UInt8} (t : Bytes) (hd : isAlpha d = true) :
    ∃ e r, capOrKeep A (d :: t) = e :: r ∧ isUpper e = true := by
  unfold capOrKeep
  split
  · rename_i hk
    simp only [keepAcr, Bool.and_eq_true, List.all_eq_true] at hk
    exact ⟨d, t, rfl, hk.1 d (List.mem_cons_self ..)⟩
  · exact capitalizeFirst_head t hd

theorem joinWith_head (sep : Bytes) (e : UInt8) (r : Bytes) (rs : List Bytes) :
    ∃ r', joinWith sep ((e :: r) :: rs) = e :: r' := by
  cases rs with
  | nil => exact ⟨r, rfl⟩
  | cons b l => exact ⟨r ++ sep ++ joinWith sep (b :: l), rfl⟩

/-- the first byte of a rendering of tokens whose first token starts with a letter -/
theorem toStyle_first {A : Acr} {d : UInt8} (t : Bytes) (ts : List Bytes) (st : Style) (hd : isAlpha d = true) :
    ∃ e r, toStyle A ((d :: t) :: ts) st = e :: r ∧ isUpper e = styleUpper st := by
  have hlo : ∀ sep, ∃ e r, joinWith sep (((d :: t) :: ts).map lower) = e :: r ∧ isUpper e = false := fun sep => by
    obtain ⟨r', h⟩ := joinWith_head sep (toLower d) (lower t) (ts.map lower)
    exact ⟨_, _, h, isUpper_toLower_alpha hd⟩
  have hup : ∀ sep, ∃ e r, joinWith sep (((d :: t) :: ts).map upper) = e :: r ∧ isUpper e = true := fun sep => by
    obtain ⟨r', h⟩ := joinWith_head sep (toUpper d) (upper t) (ts.map upper)
    exact ⟨_, _, h, isUpper_toUpper_alpha hd⟩
  cases st with
  | snake => exact hlo _
  | kebab => exact hlo _
  | dot => exact hlo _
  | lowerSentence => exact hlo _
  | screamingSnake => exact hup _
  | screamingTrain => exact hup _
  | upperSentence => exact hup _
  | camel => exact ⟨toLower d, lower t ++ concat (ts.map (capOrKeep A)), rfl, isUpper_toLower_alpha hd⟩
  | pascal =>
    obtain ⟨e, r, h, he⟩ := capOrKeep_head (A := A) t hd
    exact ⟨e, r ++ concat (ts.map (capOrKeep A)), by simp only [toStyle, List.map_cons, concat_cons, h, List.cons_append], he⟩
  | title =>
    obtain ⟨e, r, h, he⟩ := capitalizeFirst_head t hd
    obtain ⟨r', h'⟩ := joinWith_head [32] e r (ts.map capitalizeFirst)
    exact ⟨e, r', by simp only [toStyle, List.map_cons, h, h'], he⟩
  | train =>
    obtain ⟨e, r, h, he⟩ := capOrKeep_head (A := A) t hd
    obtain ⟨r', h'⟩ := joinWith_head [45] e r (ts.map (capOrKeep A))
    exact ⟨e, r', by simp only [toStyle, List.map_cons, h, h'], he⟩
  | sentence =>
    obtain ⟨e, r, h, he⟩ := capitalizeFirst_head t hd
    obtain ⟨r', h'⟩ := joinWith_head [32] e r (ts.map lower)
    exact ⟨e, r', by simp only [toStyle, h, h'], he⟩
  | lowerFlat => exact ⟨toLower d, lower t ++ concat (ts.map lower), rfl, isUpper_toLower_alpha hd⟩
  | upperFlat => exact ⟨toUpper d, upper t ++ concat (ts.map upper), rfl, isUpper_toUpper_alpha hd⟩

/-- every style compatible with a text renders any replacement with the same first-letter case as the text -/
theorem canMatch_keeps_first_letter {A : Acr} {c d : UInt8} {cs t : Bytes} {ts : List Bytes} {st : Style}
    (h : canMatchStyle A (c :: cs) st = true) (hc : isAlpha c = true) (hd : isAlpha d = true) :
    ∃ e r, toStyle A ((d :: t) :: ts) st = e :: r ∧ isUpper e = isUpper c := by
  simp only [canMatchStyle, Bool.and_eq_true] at h
  obtain ⟨e, r, he, hu⟩ := toStyle_first (A := A) t ts st hd
  exact ⟨e, r, he, by rw [hu, checkCase_first h.1 hc, table_first_letter]⟩

-- all upper case ----------------------------------------------------------------------------------------------------------

theorem splitOn_go_first : ∀ (s cur : Bytes), ∃ ps,
    splitOn.go 32 s cur = (cur.reverse ++ s.takeWhile (fun x => !(x == 32))) :: ps
  | [], cur => ⟨[], by simp [splitOn.go]⟩
  | y :: ys, cur => by
    by_cases hy : (y == 32) = true
    · exact ⟨splitOn.go 32 ys [], by simp [splitOn.go, hy, List.takeWhile]⟩
    · obtain ⟨ps, h⟩ := splitOn_go_first ys (y :: cur)
      exact ⟨ps, by simp [splitOn.go, hy, h, List.takeWhile]⟩

theorem checkCase_titleWords_second {A : Acr} {c c' : UInt8} {cs : Bytes}
    (h : checkCase A (c :: c' :: cs) .titleWordsPattern = true) (hc' : isUpper c' = true) : False := by
  simp only [checkCase, List.all_eq_true] at h
  have hc32 : (c' == 32) = false := by
    cases h32 : c' == 32 with
    | false => rfl
    | true => rw [beq_iff_eq] at h32; subst h32; exact absurd hc' (by decide)
  by_cases hc : (c == 32) = true
  · have : splitOn (c :: c' :: cs) 32 = [] :: splitOn.go 32 (c' :: cs) [] := by simp [splitOn, splitOn.go, hc]
    have := h [] (by rw [this]; exact List.mem_cons_self ..)
    exact absurd this (by simp)
  · obtain ⟨ps, hp⟩ := splitOn_go_first (c :: c' :: cs) []
    have hmem := h _ (by simp only [splitOn]; rw [hp]; exact List.mem_cons_self ..)
    simp only [List.reverse_nil, List.nil_append, List.takeWhile, hc, hc32, Bool.not_false, Bool.not_eq_true,
      Bool.and_eq_true, List.all_cons, Bool.or_eq_true, Bool.not_eq_true'] at hmem
    rcases hmem.2.1 with hl | ha
    · rw [upper_not_lower hc'] at hl; exact absurd hl (by decide)
    · simp only [isAlpha, hc', Bool.true_or] at ha; exact absurd ha (by decide)

def kindAllUpper : CaseConstraint → Bool
  | .allUppercase => true
  | _ => false

def styleAllUpper : Style → Bool
  | .screamingSnake | .screamingTrain | .upperSentence | .upperFlat => true
  | _ => false

theorem table_all_upper (st : Style) : kindAllUpper (Gen.styleConstraints st).1 = styleAllUpper st := by
  cases st <;> rfl

theorem toUpper_not_lower (c : UInt8) : isLower (toUpper c) = false := by
  cases hl : isLower c with
  | true => exact upper_not_lower (toUpper_of_lower hl)
  | false => rw [toUpper_id hl]; exact hl

theorem any_lower_map_upper (ts : List Bytes) : (ts.map upper).any (fun r => r.any isLower) = false := by
  apply any_any_false
  intro r hr x hx
  rw [List.mem_map] at hr
  obtain ⟨w, _, rfl⟩ := hr
  simp only [upper, List.mem_map] at hx
  obtain ⟨y, _, rfl⟩ := hx
  exact toUpper_not_lower y

theorem toStyle_all_upper {A : Acr} (toks : List Bytes) {st : Style} (h : styleAllUpper st = true) :
    hasLower (toStyle A toks st) = false := by
  cases st <;> first
    | exact absurd h (by decide)
    | (simp only [toStyle, hasLower]
       first
         | (rw [any_joinWith_of_not_sep isLower (by decide)]; exact any_lower_map_upper toks)
         | (rw [any_concat]; exact any_lower_map_upper toks))

/-- an all-upper-case text (starting with two capitals, not read as an acronym run) is compatible only with styles that
    render every replacement without lower-case letters -/
theorem canMatch_keeps_all_upper {A : Acr} {c c' : UInt8} {cs : Bytes} {st : Style} (toks : List Bytes)
    (h : canMatchStyle A (c :: c' :: cs) st = true) (hc : isUpper c = true) (hc' : isUpper c' = true)
    (hcu : hasConsecutiveUpper A (c :: c' :: cs) = true) : hasLower (toStyle A toks st) = false := by
  simp only [canMatchStyle, Bool.and_eq_true] at h
  apply toStyle_all_upper
  rw [← table_all_upper]
  generalize (Gen.styleConstraints st).1 = k at h
  cases k with
  | allUppercase => rfl
  | allLowercase =>
    have := checkCase_allLower h.1
    simp only [hasUpper, List.any_cons, hc, Bool.true_or] at this
    exact absurd this (by decide)
  | titlePattern =>
    have := (checkCase_title h.1).2
    simp only [List.any_cons, hc', Bool.true_or] at this
    exact absurd this (by decide)
  | camelPattern => exact absurd (checkCase_camel h.1) (by rw [upper_not_lower hc]; decide)
  | pascalPattern => exact absurd (checkCase_pascal h.1).2 (by rw [hcu]; decide)
  | titleWordsPattern => exact (checkCase_titleWords_second h.1 hc').elim

end LinePipeline
