import RModel.Model.RenamePlan
import RModel.Lemmas.RenamePlan
import RModel.Lemmas.CaseModelWords
import RModel.Lemmas.CaseModelAcr
/-
  File-name coercion (`coercion.rs::apply_coercion`, model `RenamePlan.applyCoercion`) never produces an unusable file
  name: for a slash-free container and a replacement that has a letter or digit and no `/`, whatever it returns is
  non-empty, slash-free and not `.`.  This discharges the contract `C08.CoerceSafe`, which used to be a hypothesis of the
  planner theorems ("file-name coercion enters through a contract").

  Route: `tokenize` yields non-empty alphanumeric words, and at least one when the text has a letter or digit;
  `render_tokens` of such words has a letter or digit and otherwise only `_ - . space`; `replace_case_insensitive` copies
  bytes of the container or of the rendering, and inserts the rendering at least once when the pattern occurs.
-/
namespace CoerceSafeL
open B RenamePlan CaseModel

-- bytes ---------------------------------------------------------------------------------------------------------------------

theorem isAlnum_toUpper (c : UInt8) (h : isAlnum c = true) : isAlnum (toUpper c) = true := by
  cases hl : isLower c with
  | false => rw [toUpper_id hl]; exact h
  | true => exact upper_alnum (toUpper_of_lower hl)

theorem isAlnum_toLower (c : UInt8) (h : isAlnum c = true) : isAlnum (toLower c) = true := by
  rw [isAlnum_toLower_iff]; exact h

theorem alnum_ne_slash {c : UInt8} (h : isAlnum c = true) : c ≠ 47 := by
  intro hc; subst hc; revert h; decide

/-- non-empty, letters and digits only -/
def AlnumWord (t : Bytes) : Prop := t ≠ [] ∧ ∀ c ∈ t, isAlnum c = true

theorem alnumWord_lower {t : Bytes} (h : AlnumWord t) : AlnumWord (lower t) := by
  refine ⟨by intro h0; exact h.1 (List.map_eq_nil_iff.mp h0), ?_⟩
  intro c hc
  obtain ⟨x, hx, rfl⟩ := List.mem_map.mp hc
  exact isAlnum_toLower x (h.2 x hx)

theorem alnumWord_upper {t : Bytes} (h : AlnumWord t) : AlnumWord (upper t) := by
  refine ⟨by intro h0; exact h.1 (List.map_eq_nil_iff.mp h0), ?_⟩
  intro c hc
  obtain ⟨x, hx, rfl⟩ := List.mem_map.mp hc
  exact isAlnum_toUpper x (h.2 x hx)

theorem alnumWord_capitalize {t : Bytes} (h : AlnumWord t) : AlnumWord (capitalize t) := by
  cases t with
  | nil => exact absurd rfl h.1
  | cons c cs =>
    refine ⟨by simp [capitalize], ?_⟩
    intro x hx
    simp only [capitalize, List.mem_cons] at hx
    rcases hx with rfl | hx
    · exact isAlnum_toUpper c (h.2 c List.mem_cons_self)
    · exact h.2 x (List.mem_cons_of_mem _ hx)

-- tokenize ------------------------------------------------------------------------------------------------------------------

structure TokInv (st : TokSt) : Prop where
  toks : ∀ t ∈ st.toks, AlnumWord t
  cur : ∀ c ∈ st.cur, isAlnum c = true

theorem tokFlush_inv {st : TokSt} (h : TokInv st) : ∀ t ∈ tokFlush st, AlnumWord t := by
  unfold tokFlush
  split
  · exact h.toks
  · rename_i hne
    intro t ht
    rcases List.mem_append.mp ht with ht | ht
    · exact h.toks t ht
    · simp only [List.mem_singleton] at ht
      subst ht
      exact alnumWord_lower ⟨by intro h0; rw [h0] at hne; exact hne rfl, h.cur⟩

theorem mem_snoc_alnum {cur : Bytes} {c : UInt8} (hcur : ∀ x ∈ cur, isAlnum x = true) (hc : isAlnum c = true) :
    ∀ x ∈ cur ++ [c], isAlnum x = true := by
  intro x hx
  rcases List.mem_append.mp hx with hx | hx
  · exact hcur x hx
  · simp only [List.mem_singleton] at hx; subst hx; exact hc

theorem tokStep_inv {st : TokSt} (h : TokInv st) (c : UInt8) : TokInv (tokStep st c) := by
  unfold tokStep
  split
  · exact ⟨tokFlush_inv h, fun _ hx => by cases hx⟩
  · split
    · rename_i hu
      have hc := upper_alnum hu
      split
      · exact ⟨tokFlush_inv h, mem_snoc_alnum (fun _ hx => by cases hx) hc⟩
      · exact ⟨h.toks, mem_snoc_alnum h.cur hc⟩
    · split
      · rename_i hl
        have hc := lower_alnum hl
        split
        · refine ⟨?_, ?_⟩
          · simp only
            split
            · exact h.toks
            · rename_i hne
              intro t ht
              rcases List.mem_append.mp ht with ht | ht
              · exact h.toks t ht
              · simp only [List.mem_singleton] at ht
                subst ht
                exact alnumWord_lower ⟨by intro h0; rw [h0] at hne; exact hne rfl,
                  fun x hx => h.cur x ((List.dropLast_sublist _).subset hx)⟩
          · simp only
            apply mem_snoc_alnum _ hc
            intro x hx
            split at hx
            · rename_i l hl'
              simp only [List.mem_singleton] at hx
              subst hx
              exact h.cur _ (List.mem_of_getLast? hl')
            · cases hx
        · exact ⟨h.toks, mem_snoc_alnum h.cur hc⟩
      · split
        · rename_i hd
          have hc : isAlnum c = true := by
            simp only [isAlnum, hd, Bool.or_true]
          exact ⟨h.toks, mem_snoc_alnum h.cur hc⟩
        · exact ⟨tokFlush_inv h, fun _ hx => by cases hx⟩

theorem foldl_tokStep_inv (s : Bytes) : ∀ (st : TokSt), TokInv st → TokInv (s.foldl tokStep st) := by
  induction s with
  | nil => intro st h; exact h
  | cons c s ih => intro st h; exact ih _ (tokStep_inv h c)

/-- every word `tokenize` returns is non-empty and alphanumeric -/
theorem tokenize_words (s : Bytes) : ∀ t ∈ tokenize s, AlnumWord t :=
  tokFlush_inv (foldl_tokStep_inv s {} ⟨fun _ h => (by cases h), fun _ h => (by cases h)⟩)

/-- something has been collected -/
def Prog (st : TokSt) : Prop := st.toks ≠ [] ∨ st.cur ≠ []

theorem tokFlush_ne_nil {st : TokSt} (h : Prog st) : tokFlush st ≠ [] := by
  unfold tokFlush
  split
  · rename_i he
    rcases h with h | h
    · exact h
    · exact absurd (List.isEmpty_iff.mp he) h
  · simp

theorem tokStep_prog_of_alnum (st : TokSt) {c : UInt8} (hc : isAlnum c = true) : Prog (tokStep st c) := by
  have hnd : isDelim c = false := by
    cases hd : isDelim c with
    | false => rfl
    | true => rw [delim_not_alnum hd] at hc; cases hc
  unfold tokStep
  rw [if_neg (by simp [hnd])]
  split
  · split <;> exact Or.inr (by simp)
  · split
    · split <;> exact Or.inr (by simp)
    · split
      · exact Or.inr (by simp)
      · rename_i hu hl hd
        simp only [isAlnum, isAlpha, Bool.or_eq_true] at hc
        rcases hc with (hc | hc) | hc
        · exact absurd hc hu
        · exact absurd hc hl
        · exact absurd hc hd

theorem tokStep_prog {st : TokSt} (h : Prog st) (c : UInt8) : Prog (tokStep st c) := by
  by_cases hc : isAlnum c = true
  · exact tokStep_prog_of_alnum st hc
  · have hu : isUpper c = false := not_alnum_not_upper (by simpa using hc)
    have hl : isLower c = false := not_alnum_not_lower (by simpa using hc)
    have hd : isDigit c = false := by
      cases hd : isDigit c with
      | false => rfl
      | true => exact absurd (by simp [isAlnum, hd]) hc
    unfold tokStep
    have : Prog { toks := tokFlush st, cur := [], prevL := false, prevU := false, consU := 0 } :=
      Or.inl (tokFlush_ne_nil h)
    split
    · exact this
    · rw [if_neg (by simp [hu]), if_neg (by simp [hl]), if_neg (by simp [hd])]
      exact this

theorem foldl_tokStep_prog (s : Bytes) : ∀ (st : TokSt), Prog st ∨ s.any isAlnum = true → Prog (s.foldl tokStep st) := by
  induction s with
  | nil =>
    intro st h
    rcases h with h | h
    · exact h
    · simp at h
  | cons c s ih =>
    intro st h
    apply ih
    rcases h with h | h
    · exact Or.inl (tokStep_prog h c)
    · simp only [List.any_cons, Bool.or_eq_true] at h
      rcases h with h | h
      · exact Or.inl (tokStep_prog_of_alnum st h)
      · exact Or.inr h

/-- a text with a letter or digit has at least one word -/
theorem tokenize_ne_nil {s : Bytes} (h : s.any isAlnum = true) : tokenize s ≠ [] :=
  tokFlush_ne_nil (foldl_tokStep_prog s {} (Or.inr h))

-- render_tokens -------------------------------------------------------------------------------------------------------------

/-- bytes a rendering may contain: letters, digits and the four separators -/
def okByte (c : UInt8) : Prop := isAlnum c = true ∨ c = 95 ∨ c = 45 ∨ c = 32 ∨ c = 46

theorem okByte_ne_slash {c : UInt8} (h : okByte c) : c ≠ 47 := by
  rcases h with h | h | h | h | h
  · exact alnum_ne_slash h
  all_goals (subst h; decide)

theorem joinWith_ok {sep : Bytes} (hsep : ∀ c ∈ sep, okByte c) :
    ∀ {ts : List Bytes}, (∀ t ∈ ts, AlnumWord t) → ∀ c ∈ joinWith sep ts, okByte c
  | [], _, c, hc => by simp [joinWith] at hc
  | [w], h, c, hc => by
    simp only [joinWith] at hc
    exact Or.inl ((h w List.mem_cons_self).2 c hc)
  | w :: w' :: ws, h, c, hc => by
    simp only [joinWith, List.mem_append] at hc
    rcases hc with (hc | hc) | hc
    · exact Or.inl ((h w List.mem_cons_self).2 c hc)
    · exact hsep c hc
    · exact joinWith_ok hsep (fun t ht => h t (List.mem_cons_of_mem _ ht)) c hc

theorem joinWith_head {sep : Bytes} : ∀ {ts : List Bytes} {w : Bytes} {c : UInt8}, ts.head? = some w → c ∈ w →
    c ∈ joinWith sep ts
  | [w'], w, c, h, hc => by
    simp only [List.head?_cons, Option.some.injEq] at h; subst h; simpa [joinWith] using hc
  | w' :: w'' :: ws, w, c, h, hc => by
    simp only [List.head?_cons, Option.some.injEq] at h; subst h
    simp only [joinWith, List.mem_append]
    exact Or.inl (Or.inl hc)

theorem concat_ok : ∀ {ts : List Bytes}, (∀ t ∈ ts, AlnumWord t) → ∀ c ∈ concat ts, okByte c
  | [], _, c, hc => by simp [concat] at hc
  | w :: ws, h, c, hc => by
    simp only [concat, List.foldr_cons, List.mem_append] at hc
    rcases hc with hc | hc
    · exact Or.inl ((h w List.mem_cons_self).2 c hc)
    · exact concat_ok (fun t ht => h t (List.mem_cons_of_mem _ ht)) c hc

theorem concat_head {w : Bytes} {ws : List Bytes} {c : UInt8} (hc : c ∈ w) : c ∈ concat (w :: ws) := by
  simp only [concat, List.foldr_cons, List.mem_append]; exact Or.inl hc

theorem map_words {f : Bytes → Bytes} (hf : ∀ t, AlnumWord t → AlnumWord (f t)) {ts : List Bytes}
    (h : ∀ t ∈ ts, AlnumWord t) : ∀ t ∈ ts.map f, AlnumWord t := by
  intro t ht
  obtain ⟨x, hx, rfl⟩ := List.mem_map.mp ht
  exact hf x (h x hx)

/-- a rendering of alphanumeric words contains only letters, digits and separators … -/
theorem renderTokens_ok {ts : List Bytes} (h : ∀ t ∈ ts, AlnumWord t) (st : CStyle) :
    ∀ c ∈ renderTokens ts st, okByte c := by
  have s95 : ∀ c ∈ ([95] : Bytes), okByte c := fun c hc => by simp at hc; exact Or.inr (Or.inl hc)
  have s45 : ∀ c ∈ ([45] : Bytes), okByte c := fun c hc => by simp at hc; exact Or.inr (Or.inr (Or.inl hc))
  have s32 : ∀ c ∈ ([32] : Bytes), okByte c := fun c hc => by simp at hc; exact Or.inr (Or.inr (Or.inr (Or.inl hc)))
  have s46 : ∀ c ∈ ([46] : Bytes), okByte c := fun c hc => by simp at hc; exact Or.inr (Or.inr (Or.inr (Or.inr hc)))
  have hU := map_words (fun t => alnumWord_upper) h
  have hC := map_words (fun t => alnumWord_capitalize) h
  cases st <;> simp only [renderTokens]
  case snake => exact joinWith_ok s95 h
  case kebab => exact joinWith_ok s45 h
  case camel =>
    cases ts with
    | nil => intro c hc; cases hc
    | cons t rest =>
      intro c hc
      simp only [List.mem_append] at hc
      rcases hc with hc | hc
      · exact Or.inl ((h t List.mem_cons_self).2 c hc)
      · exact concat_ok (map_words (fun t => alnumWord_capitalize) (fun x hx => h x (List.mem_cons_of_mem _ hx))) c hc
  case pascal => exact concat_ok hC
  case screamingSnake => exact joinWith_ok s95 hU
  case title => exact joinWith_ok s32 hC
  case train => exact joinWith_ok s45 hC
  case screamingTrain => exact joinWith_ok s45 hU
  case dot => exact joinWith_ok s46 h
  case lowerFlat => exact concat_ok h
  case upperFlat => exact concat_ok hU
  case sentence =>
    cases ts with
    | nil => intro c hc; cases hc
    | cons t rest =>
      apply joinWith_ok s32
      intro x hx
      rcases List.mem_cons.mp hx with rfl | hx
      · exact alnumWord_capitalize (h t List.mem_cons_self)
      · exact h x (List.mem_cons_of_mem _ hx)
  case lowerSentence => exact joinWith_ok s32 h
  case upperSentence => exact joinWith_ok s32 hU
  case mixed => exact joinWith_ok s95 h

/-- … and, when there is at least one word, a letter or digit -/
theorem renderTokens_has_alnum {ts : List Bytes} (h : ∀ t ∈ ts, AlnumWord t) (hne : ts ≠ []) (st : CStyle) :
    ∃ c ∈ renderTokens ts st, isAlnum c = true := by
  obtain ⟨t, rest, rfl⟩ := List.exists_cons_of_ne_nil hne
  have ht := h t List.mem_cons_self
  obtain ⟨a, as, hta⟩ := List.exists_cons_of_ne_nil ht.1
  have ha : isAlnum a = true := ht.2 a (by rw [hta]; exact List.mem_cons_self)
  have hmem : a ∈ t := by rw [hta]; exact List.mem_cons_self
  -- first byte of the first word, as is / upper-cased
  have hUm : toUpper a ∈ upper t := List.mem_map.mpr ⟨a, hmem, rfl⟩
  have hCm : toUpper a ∈ capitalize t := by rw [hta]; simp [capitalize]
  have hUa := isAlnum_toUpper a ha
  cases st <;> simp only [renderTokens]
  case snake => exact ⟨a, joinWith_head rfl hmem, ha⟩
  case kebab => exact ⟨a, joinWith_head rfl hmem, ha⟩
  case camel => exact ⟨a, List.mem_append.mpr (Or.inl hmem), ha⟩
  case pascal => exact ⟨toUpper a, by simp only [List.map_cons]; exact concat_head hCm, hUa⟩
  case screamingSnake => exact ⟨toUpper a, joinWith_head (by simp) hUm, hUa⟩
  case title => exact ⟨toUpper a, joinWith_head (by simp) hCm, hUa⟩
  case train => exact ⟨toUpper a, joinWith_head (by simp) hCm, hUa⟩
  case screamingTrain => exact ⟨toUpper a, joinWith_head (by simp) hUm, hUa⟩
  case dot => exact ⟨a, joinWith_head rfl hmem, ha⟩
  case lowerFlat => exact ⟨a, concat_head hmem, ha⟩
  case upperFlat => exact ⟨toUpper a, by simp only [List.map_cons]; exact concat_head hUm, hUa⟩
  case sentence => exact ⟨toUpper a, joinWith_head rfl hCm, hUa⟩
  case lowerSentence => exact ⟨a, joinWith_head rfl hmem, ha⟩
  case upperSentence => exact ⟨toUpper a, joinWith_head (by simp) hUm, hUa⟩
  case mixed => exact ⟨a, joinWith_head rfl hmem, ha⟩

-- replace_case_insensitive ----------------------------------------------------------------------------------------------------

/-- the result only has bytes of the text or of the replacement -/
theorem replaceCIGo_mem (pl r : Bytes) : ∀ (s : Bytes) (skip : Nat), ∀ c ∈ replaceCIGo pl r s skip, c ∈ s ∨ c ∈ r
  | [], _, c, hc => by simp [replaceCIGo] at hc
  | x :: xs, skip + 1, c, hc => by
    simp only [replaceCIGo] at hc
    rcases replaceCIGo_mem pl r xs skip c hc with h | h
    · exact Or.inl (List.mem_cons_of_mem _ h)
    · exact Or.inr h
  | x :: xs, 0, c, hc => by
    simp only [replaceCIGo] at hc
    split at hc
    · rcases List.mem_append.mp hc with h | h
      · exact Or.inr h
      · rcases replaceCIGo_mem pl r xs _ c h with h | h
        · exact Or.inl (List.mem_cons_of_mem _ h)
        · exact Or.inr h
    · rcases List.mem_cons.mp hc with h | h
      · exact Or.inl (by rw [h]; exact List.mem_cons_self)
      · rcases replaceCIGo_mem pl r xs 0 c h with h | h
        · exact Or.inl (List.mem_cons_of_mem _ h)
        · exact Or.inr h

theorem lower_cons (c : UInt8) (cs : Bytes) : lower (c :: cs) = toLower c :: lower cs := rfl

/-- when the (lower-cased) pattern occurs in the lower-cased text, the replacement is inserted at least once -/
theorem replaceCIGo_inserts (pl r : Bytes) : ∀ (s : Bytes), (find.go pl (lower s) 0).isSome = true → pl ≠ [] →
    ∀ c ∈ r, c ∈ replaceCIGo pl r s 0 := by
  -- `find.go` with any start index succeeds or fails alike
  have shift : ∀ (s : Bytes) (i j : Nat), (find.go pl s i).isSome = (find.go pl s j).isSome := by
    intro s
    induction s with
    | nil => intro i j; simp only [find.go]; split <;> rfl
    | cons x xs ih =>
      intro i j
      simp only [find.go]
      split
      · rfl
      · exact ih _ _
  intro s
  induction s with
  | nil =>
    intro h hne
    simp only [lower, List.map_nil, find.go] at h
    split at h
    · rename_i he; exact absurd (List.isEmpty_iff.mp he) hne
    · cases h
  | cons x xs ih =>
    intro h hne c hc
    simp only [replaceCIGo]
    rw [lower_cons] at h
    simp only [find.go] at h
    rw [← lower_cons] at h
    split at h
    · rename_i hp
      rw [if_pos hp]
      exact List.mem_append.mpr (Or.inl hc)
    · rename_i hp
      rw [if_neg hp]
      rw [shift _ 1 0] at h
      exact List.mem_cons_of_mem _ (ih h hne c hc)

end CoerceSafeL

namespace CoerceSafeL
open B RenamePlan CaseModel RenamePlanL

theorem extractPrefix_split (s : Bytes) :
    s = (extractPrefix s).1 ++ (extractPrefix s).2 ∧ (∀ c ∈ (extractPrefix s).1, c = 95) := by
  unfold extractPrefix
  split
  · exact ⟨rfl, fun c hc => by simp at hc; exact hc⟩
  · exact ⟨rfl, fun c hc => by simp at hc; exact hc⟩
  · exact ⟨rfl, fun c hc => by cases hc⟩

/-- the shape every successful exit of `apply_coercion` has: prefix ++ case-insensitive replacement by a rendering of
    the words of `new` — is a usable file name -/
theorem coerced_safe {name old new : Bytes} (hs : (47 : UInt8) ∉ name) (hold : old ≠ [])
    (hnew : new.any isAlnum = true) (st : CStyle)
    (hocc : containsSub (lower (extractPrefix name).2) (lower old) = true) :
    SafeName ((extractPrefix name).1 ++ replaceCI (extractPrefix name).2 old (renderTokens (tokenize new) st)) := by
  obtain ⟨hsplit, hpfx⟩ := extractPrefix_split name
  have hbody : (47 : UInt8) ∉ (extractPrefix name).2 := by
    intro h; apply hs; rw [hsplit]; exact List.mem_append.mpr (Or.inr h)
  have hwords := tokenize_words new
  have hne := tokenize_ne_nil hnew
  obtain ⟨a, ha, haa⟩ := renderTokens_has_alnum hwords hne st
  have hok := renderTokens_ok hwords st
  have hlne : lower old ≠ [] := by intro h0; exact hold (List.map_eq_nil_iff.mp h0)
  have hrep : replaceCI (extractPrefix name).2 old (renderTokens (tokenize new) st) =
      replaceCIGo (lower old) (renderTokens (tokenize new) st) (extractPrefix name).2 0 := by
    unfold replaceCI
    rw [if_neg (by intro h; exact hold (List.isEmpty_iff.mp h))]
  have hin : a ∈ replaceCI (extractPrefix name).2 old (renderTokens (tokenize new) st) := by
    rw [hrep]
    exact replaceCIGo_inserts _ _ _ (by simpa [containsSub, find] using hocc) hlne a ha
  have hin' : a ∈ (extractPrefix name).1 ++ replaceCI (extractPrefix name).2 old (renderTokens (tokenize new) st) :=
    List.mem_append.mpr (Or.inr hin)
  refine ⟨?_, ?_, ?_⟩
  · intro h0; rw [h0] at hin'; cases hin'
  · intro hm
    rcases List.mem_append.mp hm with hm | hm
    · have := hpfx _ hm; exact absurd this (by decide)
    · rw [hrep] at hm
      rcases replaceCIGo_mem _ _ _ _ _ hm with hm | hm
      · exact hbody hm
      · exact okByte_ne_slash (hok _ hm) rfl
  · intro h1
    rw [h1] at hin'
    have : a = 46 := by simpa using hin'
    rw [this] at haa
    exact absurd haa (by decide)

/-- `apply_coercion` never returns an unusable file name -/
theorem applyCoercion_safe (T : Tables) {name old new n : Bytes} (hs : (47 : UInt8) ∉ name) (hold : old ≠ [])
    (hnew : new.any isAlnum = true) (h : applyCoercion T name old new = some n) : SafeName n := by
  unfold applyCoercion at h
  simp only at h
  split at h
  · cases h
  · split at h
    · cases h
    · rename_i hocc
      have hocc' : containsSub (lower (extractPrefix name).2) (lower old) = true := by simpa using hocc
      split at h
      · split at h
        · cases h
        · cases h; exact coerced_safe hs hold hnew _ hocc'
      · split at h
        · cases h
        · cases h; exact coerced_safe hs hold hnew _ hocc'

end CoerceSafeL
