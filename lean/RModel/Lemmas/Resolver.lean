import RModel.Model.Resolver
import RModel.Lemmas.LineResolver
/-
  C06 lemmas, part 3: the context heuristics of the resolver (Model/Resolver.lean) pick from the list they are given
  (level 1 by the reflective guard check `Block.wellGuarded` on the decision trees parsed from `languages/*.rs`) —
  the contract `HeurOk` that `resolve_mem` asks of its parameter — and facts about the file-context level:
  every answer for every `HashMap` iteration order lies in `fileChoices`, and whether the level answers at all does not
  depend on the order; the cross-file level is irrelevant when `project_root` is `None`.
-/
open B CaseModel

namespace Resolver

/-- a true condition makes every one of its `possible_styles.contains` conjuncts true -/
theorem Cond.facts_sound {ctx : Bytes} {possible : List Style} : ∀ {c : Cond}, c.eval ctx possible = true →
    ∀ s ∈ c.facts, s ∈ possible
  | .poss x, h, s, hs => by
    simp only [Cond.facts, List.mem_singleton] at hs
    subst hs
    simpa [Cond.eval] using h
  | .and a b, h, s, hs => by
    simp only [Cond.eval, Bool.and_eq_true] at h
    simp only [Cond.facts, List.mem_append] at hs
    rcases hs with hs | hs
    · exact Cond.facts_sound h.1 s hs
    · exact Cond.facts_sound h.2 s hs
  | .ew _, _, _, hs | .has _, _, _, hs | .sw _, _, _, hs | .allCapsAssign, _, _, hs | .lettersAllUpper, _, _, hs
  | .afterLettersAllUpper _, _, _, hs | .afterHasLetter _, _, _, hs | .tt, _, _, hs | .not _, _, _, hs
  | .or _ _, _, _, hs => by simp [Cond.facts] at hs

/-- THE soundness of the guard check: a well-guarded decision tree only answers possible styles — for every context -/
theorem Block.eval_mem {ctx : Bytes} {possible : List Style} : ∀ {b : Block} {known : List Style} {s : Style},
    b.wellGuarded known = true → (∀ x ∈ known, x ∈ possible) → b.eval ctx possible = some s → s ∈ possible
  | .none, _, _, _, _, h => by simp [Block.eval] at h
  | .ret x, known, s, hw, hk, h => by
    simp only [Block.eval, Option.some.injEq] at h
    subst h
    exact hk _ (by simpa [Block.wellGuarded] using hw)
  | .ite c t e, known, s, hw, hk, h => by
    simp only [Block.wellGuarded, Bool.and_eq_true] at hw
    simp only [Block.eval] at h
    split at h
    · rename_i hc
      refine Block.eval_mem hw.1 ?_ h
      intro x hx
      rcases List.mem_append.mp hx with hx | hx
      · exact Cond.facts_sound hc x hx
      · exact hk x hx
    · exact Block.eval_mem hw.2 hk h

/-- the decidable fact about the generated tables that level 1 rests on -/
def RulesGuarded : Prop := ∀ r ∈ Gen.languageRules, r.2.wellGuarded [] = true

instance : Decidable RulesGuarded := by unfold RulesGuarded; infer_instance

theorem rulesOfExt_guarded (hg : RulesGuarded) {e : Bytes} {rules : Block} (h : rulesOfExt e = some rules) :
    rules.wellGuarded [] = true := by
  unfold rulesOfExt at h
  split at h
  · rename_i row _
    have hm := List.lookup_eq_some_iff.mp h
    obtain ⟨l₁, l₂, hl, _⟩ := hm
    exact hg (row.2, rules) (by rw [hl]; simp)
  · exact absurd h (by simp)

/-- level 1: whatever the extension, the line and the language module, the answer is one of the possible styles -/
theorem langSuggest_mem (hg : RulesGuarded) {path pre : Bytes} {possible : List Style} {s : Style}
    (h : langSuggest path pre possible = some s) : s ∈ possible := by
  unfold langSuggest at h
  split at h
  · exact absurd h (by simp)
  · split at h
    · exact absurd h (by simp)
    · rename_i rules hr
      exact Block.eval_mem (rulesOfExt_guarded hg hr) (fun _ hx => by cases hx) h

/-- level 2, for EVERY iteration order of the `HashMap` -/
theorem fileSuggestTags_mem {ord tags possible : List Style} {s : Style}
    (h : fileSuggestTags ord tags possible = some s) : s ∈ possible := by
  unfold fileSuggestTags at h
  simp only [] at h
  split at h
  · exact absurd h (by simp)
  · split at h
    · exact absurd h (by simp)
    · split at h
      · exact absurd h (by simp)
      · split at h
        · rename_i hc
          cases h
          simpa using hc
        · have := List.find?_some h
          simpa using this

theorem fileSuggest_mem {A : Acr} {ord : List Style} {content : Bytes} {possible : List Style} {s : Style}
    (h : fileSuggest A ord content possible = some s) : s ∈ possible := fileSuggestTags_mem h

theorem tryLanguage_mem (hg : RulesGuarded) {c : Ctx} {possible : List Style} {s : Style}
    (h : tryLanguage c possible = some s) : s ∈ possible := by
  unfold tryLanguage at h
  split at h
  · exact langSuggest_mem hg h
  · exact absurd h (by simp)

theorem tryFile_mem {A : Acr} {ord : List Style} {c : Ctx} {possible : List Style} {s : Style}
    (h : tryFile A ord c possible = some s) : s ∈ possible := by
  unfold tryFile at h
  split at h
  · exact fileSuggest_mem h
  · exact absurd h (by simp)

/-- the contract of the cross-file level (it is not modelled): `pick_best_style_from_patterns` only returns a style for
    which `possible_styles.contains` holds -/
def CrossOk (cross : Bytes → Bytes → Bytes → List Style → Option Style) : Prop :=
  ∀ root e w l s, cross root e w l = some s → s ∈ l

theorem tryCross_mem {cross : Bytes → Bytes → Bytes → List Style → Option Style} (hc : CrossOk cross) {c : Ctx}
    {possible : List Style} {s : Style} (h : tryCross cross c possible = some s) : s ∈ possible := by
  unfold tryCross at h
  split at h
  · split at h
    · exact absurd h (by simp)
    · dsimp only at h
      split at h
      · exact absurd h (by simp)
      · exact hc _ _ _ _ _ h
  · exact absurd h (by simp)

/-- levels 1–3 together satisfy `HeurOk` -/
theorem heurCtx_ok (hg : RulesGuarded) {A : Acr} {ord : List Style}
    {cross : Bytes → Bytes → Bytes → List Style → Option Style} (hc : CrossOk cross) (c : Ctx) : ∀ l s, heurCtx A ord cross c l = some s → s ∈ l := by
  intro l s h
  unfold heurCtx at h
  split at h
  · rename_i s' hs; cases h; exact tryLanguage_mem hg hs
  · split at h
    · rename_i s' hs; cases h; exact tryFile_mem hs
    · exact tryCross_mem hc h

/-- `project_root: None` ⇒ `try_cross_file_context` returns at its first `?`: the level never answers, whatever it is -/
theorem tryCross_root_none {cross : Bytes → Bytes → Bytes → List Style → Option Style} {c : Ctx} (h : c.root = none)
    (possible : List Style) : tryCross cross c possible = none := by
  unfold tryCross
  rw [h]

theorem heurCtx_root_none {A : Acr} {ord : List Style} (cross : Bytes → Bytes → Bytes → List Style → Option Style)
    {c : Ctx} (h : c.root = none) : heurCtx A ord cross c = heurCtx A ord (fun _ _ _ _ => none) c := by
  funext possible
  unfold heurCtx
  rw [tryCross_root_none h, tryCross_root_none h]

/-- the heuristics as `generate_hunks` instantiates them: for every iteration order, every path, file, line and column,
    whatever they return is a member of the list they are given — no hypothesis left -/
theorem heurReal_ok (hg : RulesGuarded) (A : Acr) (ord : List Style) (path content line : Bytes) (pos : Nat) :
    ∀ l s, heurReal A ord path content line pos l = some s → s ∈ l :=
  heurCtx_ok hg (fun _ _ _ _ _ h => absurd h (by simp)) _

/-- … and they are what `resolve_with_styles` does on the scanner's context, whatever the cross-file analyzer is -/
theorem heurReal_eq_heurCtx (A : Acr) (ord : List Style) (cross : Bytes → Bytes → Bytes → List Style → Option Style)
    (path content line : Bytes) (pos : Nat) :
    heurCtx A ord cross (hunkCtx path content line pos) = heurReal A ord path content line pos :=
  heurCtx_root_none cross rfl

/-- the context of a path component (rename.rs: every field `None`): all three levels are silent, the resolver is its
    fallback chain — what the `resolve` driver op and C08's path model run -/
theorem heurCtx_pathCtx (A : Acr) (ord : List Style) (cross : Bytes → Bytes → Bytes → List Style → Option Style) :
    heurCtx A ord cross pathCtx = fun _ => none := by
  funext possible
  rfl

/-- a file whose extension selects no language module and which has fewer counted identifiers than the threshold: both
    levels are silent for every line and column — the one-line `a.txt` files of the `rewriteline` correspondence -/
theorem heurReal_silent {A : Acr} (ord : List Style) {path content : Bytes} (line : Bytes) (pos : Nat)
    (hext : (extension path).bind rulesOfExt = none) (hfew : (styleTags A content).length < minIdentifiers) :
    heurReal A ord path content line pos = fun _ => none := by
  funext possible
  have h1 : tryLanguage (hunkCtx path content line pos) possible = none := by
    simp only [tryLanguage, hunkCtx, langSuggest]
    cases he : extension path with
    | none => rfl
    | some e =>
      rw [he] at hext
      simp only [Option.bind_some] at hext
      simp only [hext]
  have h2 : tryFile A ord (hunkCtx path content line pos) possible = none := by
    simp only [tryFile, hunkCtx, fileSuggest, fileSuggestTags, hfew, ↓reduceIte]
  simp only [heurReal, heurCtx, h1, h2, tryCross_root_none (c := hunkCtx path content line pos) rfl]

/-- `resolveWhy` (what the driver runs) chooses the style of `LinePipeline.resolve` with `heur := heurCtx …` -/
theorem resolveWhy_style (A : Acr) (ord : List Style) (cross : Bytes → Bytes → Bytes → List Style → Option Style) (c : Ctx)
    (matched repl : Bytes) (rp : List Style) :
    (resolveWhy A ord cross c matched repl rp).2 = LinePipeline.resolve A (heurCtx A ord cross c) matched repl rp := rfl

-- ---------------------------------------------------------------------------------------------------------------------
-- the file-context level over all iteration orders

theorem mem_allStyles (s : Style) : s ∈ Gen.allStyles := by cases s <;> decide

theorem mem_keysOf {ord tags : List Style} {s : Style} : s ∈ keysOf ord tags ↔ tags.count s > 0 := by
  unfold keysOf
  simp only [List.mem_filter, List.mem_append, decide_eq_true_eq, Bool.not_eq_true', and_iff_right_iff_imp]
  intro _
  by_cases h : s ∈ ord
  · exact Or.inl h
  · exact Or.inr ⟨mem_allStyles s, by simpa using h⟩

theorem lastMax_spec {f : Style → Nat} : ∀ {l : List Style} {d : Style}, lastMax f l = some d →
    d ∈ l ∧ ∀ k ∈ l, f k ≤ f d
  | [], _, h => by simp [lastMax] at h
  | s :: rest, d, h => by
    unfold lastMax at h
    split at h
    · rename_i hn
      cases h
      refine ⟨List.mem_cons_self .., ?_⟩
      intro k hk
      rcases List.mem_cons.mp hk with rfl | hk
      · exact Nat.le_refl _
      · cases rest with
        | nil => cases hk
        | cons a r =>
          exfalso
          unfold lastMax at hn
          split at hn <;> (try split at hn) <;> simp at hn
    · rename_i m hm
      have ih := lastMax_spec hm
      split at h
      · rename_i hgt
        cases h
        refine ⟨List.mem_cons_self .., ?_⟩
        intro k hk
        rcases List.mem_cons.mp hk with rfl | hk
        · exact Nat.le_refl _
        · exact Nat.le_of_lt (Nat.lt_of_le_of_lt (ih.2 k hk) hgt)
      · rename_i hgt
        cases h
        refine ⟨List.mem_cons_of_mem _ ih.1, ?_⟩
        intro k hk
        rcases List.mem_cons.mp hk with rfl | hk
        · exact Nat.le_of_not_gt hgt
        · exact ih.2 k hk

theorem lastMax_none {f : Style → Nat} {l : List Style} (h : lastMax f l = none) : l = [] := by
  cases l with
  | nil => rfl
  | cons a r =>
    unfold lastMax at h
    split at h <;> (try split at h) <;> simp at h

theorem mem_insertDesc {f : Style → Nat} {s t : Style} : ∀ {l : List Style}, t ∈ insertDesc f s l ↔ t = s ∨ t ∈ l
  | [] => by simp [insertDesc]
  | x :: xs => by
    unfold insertDesc
    split
    · simp
    · simp only [List.mem_cons, mem_insertDesc (l := xs)]
      constructor
      · rintro (h | h | h)
        · exact Or.inr (Or.inl h)
        · exact Or.inl h
        · exact Or.inr (Or.inr h)
      · rintro (h | h | h)
        · exact Or.inr (Or.inl h)
        · exact Or.inl h
        · exact Or.inr (Or.inr h)

theorem mem_sortDesc {f : Style → Nat} {t : Style} : ∀ {l : List Style}, t ∈ sortDesc f l ↔ t ∈ l
  | [] => by simp [sortDesc]
  | x :: xs => by
    have ih := mem_sortDesc (f := f) (t := t) (l := xs)
    unfold sortDesc at ih ⊢
    simp only [List.foldr_cons, mem_insertDesc, List.mem_cons, ih]

theorem insertDesc_sorted {f : Style → Nat} {s : Style} : ∀ {l : List Style},
    l.Pairwise (fun a b => f b ≤ f a) → (insertDesc f s l).Pairwise (fun a b => f b ≤ f a)
  | [], _ => by simp [insertDesc]
  | x :: xs, h => by
    unfold insertDesc
    have hx := List.pairwise_cons.mp h
    split
    · rename_i hlt
      refine List.pairwise_cons.mpr ⟨?_, h⟩
      intro b hb
      rcases List.mem_cons.mp hb with rfl | hb
      · exact hlt
      · exact Nat.le_trans (hx.1 b hb) hlt
    · rename_i hlt
      refine List.pairwise_cons.mpr ⟨?_, insertDesc_sorted hx.2⟩
      intro b hb
      rcases mem_insertDesc.mp hb with rfl | hb
      · exact Nat.le_of_lt (Nat.lt_of_not_le hlt)
      · exact hx.1 b hb

theorem sortDesc_sorted {f : Style → Nat} : ∀ (l : List Style), (sortDesc f l).Pairwise (fun a b => f b ≤ f a)
  | [] => by simp [sortDesc]
  | x :: xs => by
    have ih := sortDesc_sorted (f := f) xs
    unfold sortDesc at ih ⊢
    simp only [List.foldr_cons]
    exact insertDesc_sorted ih

/-- in a list ordered by `f` descending, the first element that satisfies `p` has the largest `f` among those that do -/
theorem find?_sorted_max {f : Style → Nat} {p : Style → Bool} : ∀ {l : List Style} {s : Style},
    l.Pairwise (fun a b => f b ≤ f a) → l.find? p = some s → ∀ t ∈ l, p t = true → f t ≤ f s
  | [], _, _, h => by simp at h
  | x :: xs, s, hs, h => by
    intro t ht hpt
    have hx := List.pairwise_cons.mp hs
    rw [List.find?_cons] at h
    split at h
    · cases h
      rcases List.mem_cons.mp ht with rfl | ht
      · exact Nat.le_refl _
      · exact hx.1 t ht
    · rename_i hpx
      rcases List.mem_cons.mp ht with rfl | ht
      · rw [hpt] at hpx; exact absurd hpx (by decide)
      · exact find?_sorted_max hx.2 h t ht hpt

/-- EVERY answer of the file-context level, for every iteration order, is one of `fileChoices` -/
theorem fileSuggestTags_mem_choices {ord tags possible : List Style} {s : Style}
    (h : fileSuggestTags ord tags possible = some s) : s ∈ fileChoicesTags tags possible := by
  unfold fileSuggestTags at h
  simp only [] at h
  split at h
  · exact absurd h (by simp)
  rename_i htot
  split at h
  · exact absurd h (by simp)
  rename_i dom hdom
  have hd := lastMax_spec hdom
  split at h
  · exact absurd h (by simp)
  rename_i hlow
  have hgate : (decide (tags.length < minIdentifiers) ||
      Gen.allStyles.all (fun s => decide (mediumDen * tags.count s < mediumNum * tags.length))) = false := by
    rw [Bool.or_eq_false_iff]
    refine ⟨by simpa using htot, ?_⟩
    rw [List.all_eq_false]
    exact ⟨dom, mem_allStyles dom, by simpa using hlow⟩
  have key : s ∈ possible ∧ tags.count s > 0 ∧
      ∀ t, possible.contains t = true → tags.count t > 0 → tags.count t ≤ tags.count s := by
    split at h
    · rename_i hc
      cases h
      exact ⟨by simpa using hc, mem_keysOf.mp hd.1, fun t _ ht => hd.2 t (mem_keysOf.mpr ht)⟩
    · have hmem := List.mem_of_find?_eq_some h
      have hp := List.find?_some h
      refine ⟨by simpa using hp, mem_keysOf.mp (mem_sortDesc.mp hmem), ?_⟩
      intro t hpt ht
      exact find?_sorted_max (sortDesc_sorted _) h t (mem_sortDesc.mpr (mem_keysOf.mpr ht)) hpt
  unfold fileChoicesTags
  simp only [hgate, Bool.false_eq_true, ↓reduceIte]
  rw [List.mem_filter]
  refine ⟨List.mem_filter.mpr ⟨mem_allStyles s, ?_⟩, ?_⟩
  · simp only [Bool.and_eq_true, decide_eq_true_eq]
    exact ⟨by simpa using key.1, key.2.1⟩
  · rw [List.all_eq_true]
    intro t ht
    have ht' := (List.mem_filter.mp ht).2
    simp only [Bool.and_eq_true, decide_eq_true_eq] at ht'
    simpa using key.2.2 t ht'.1 ht'.2

/-- … and when the level is silent for one iteration order there is no choice at all: WHETHER the file context answers
    does not depend on the order (only WHICH of the equally counted styles it names does) -/
theorem fileSuggestTags_none {ord tags possible : List Style}
    (h : fileSuggestTags ord tags possible = none) : fileChoicesTags tags possible = [] := by
  unfold fileSuggestTags at h
  simp only [] at h
  unfold fileChoicesTags
  simp only []
  split at h
  · rename_i htot
    simp [htot]
  rename_i htot
  have nocand : (∀ t, possible.contains t = true → ¬ tags.count t > 0) →
      (if (decide (tags.length < minIdentifiers) ||
          Gen.allStyles.all (fun s => decide (mediumDen * tags.count s < mediumNum * tags.length))) = true then []
       else
        (Gen.allStyles.filter (fun s => possible.contains s && decide (tags.count s > 0))).filter
          (fun s => (Gen.allStyles.filter (fun s => possible.contains s && decide (tags.count s > 0))).all
            (fun t => decide (tags.count t ≤ tags.count s)))) = [] := by
    intro hno
    split
    · rfl
    · have : Gen.allStyles.filter (fun s => possible.contains s && decide (tags.count s > 0)) = [] := by
        rw [List.filter_eq_nil_iff]
        intro t _
        simp only [Bool.and_eq_true, decide_eq_true_eq, not_and]
        exact hno t
      rw [this]
      rfl
  split at h
  · rename_i hnone
    have hk := lastMax_none hnone
    apply nocand
    intro t _ ht
    have := (mem_keysOf (ord := ord)).mpr ht
    rw [hk] at this
    cases this
  rename_i dom hdom
  have hd := lastMax_spec hdom
  split at h
  · rename_i hlow
    have hall : Gen.allStyles.all (fun s => decide (mediumDen * tags.count s < mediumNum * tags.length)) = true := by
      rw [List.all_eq_true]
      intro t _
      simp only [decide_eq_true_eq]
      by_cases ht : tags.count t > 0
      · have := hd.2 t (mem_keysOf.mpr ht)
        exact Nat.lt_of_le_of_lt (Nat.mul_le_mul_left _ this) hlow
      · have h0 : tags.count t = 0 := by omega
        rw [h0, Nat.mul_zero]
        exact Nat.lt_of_le_of_lt (Nat.zero_le _) hlow
    simp [hall]
  · split at h
    · exact absurd h (by simp)
    · rename_i hnc
      apply nocand
      intro t hpt ht
      have := List.find?_eq_none.mp h t (mem_sortDesc.mpr (mem_keysOf.mpr ht))
      exact this hpt

theorem fileSuggest_mem_choices {A : Acr} {ord : List Style} {content : Bytes} {possible : List Style} {s : Style}
    (h : fileSuggest A ord content possible = some s) : s ∈ fileChoices A content possible :=
  fileSuggestTags_mem_choices h

theorem fileSuggest_none {A : Acr} {ord : List Style} {content : Bytes} {possible : List Style}
    (h : fileSuggest A ord content possible = none) : fileChoices A content possible = [] :=
  fileSuggestTags_none h

end Resolver
