import RModel.Lemmas.UndoB
open Fs Apply RenamePhase Undo Patch
namespace UndoLemmas

/-- undo STEP 1 applied to the moved tree gives the tree back (lemma-level guards) -/
theorem undo_paths_core (t : Tree) (rs : List Ren) (g : Guards t rs) :
    undoRenames rs (moveAll rs t) = (t, none) := by
  have hfl := fileLeaf_of_guards g.wf g.lo g.ko
  -- the two halves of the plan
  let leD : Ren → Ren → Bool := fun a b => decide (depth (mp a).2 ≤ depth (mp b).2)
  let leF : Ren → Ren → Bool := fun a b => decide (depth (mp b).2 ≤ depth (mp a).2)
  let D := rs.filter (fun r => r.kind == .dir)
  let F := rs.filter (fun r => r.kind == .file)
  let S := sortBy leD D
  let S2 := sortBy leF F
  have hD : ∀ r ∈ D, r ∈ rs ∧ r.kind = .dir := by
    intro r hr; have := List.mem_filter.1 hr; exact ⟨this.1, by simpa using this.2⟩
  have hF : ∀ r ∈ F, r ∈ rs ∧ r.kind = .file := by
    intro r hr; have := List.mem_filter.1 hr; exact ⟨this.1, by simpa using this.2⟩
  have hSD : ∀ r, r ∈ S ↔ r ∈ D := fun r => (sortBy_perm leD D).mem_iff
  have hS2F : ∀ r, r ∈ S2 ↔ r ∈ F := fun r => (sortBy_perm leF F).mem_iff
  have hperm : List.Perm rs (S ++ F) := by
    have hFe : F = rs.filter (fun r => !(r.kind == Kind.dir)) := List.filter_congr (fun r _ => kind_file_iff r)
    have : List.Perm (D ++ F) rs := by rw [hFe]; exact List.filter_append_perm _ rs
    exact this.symm.trans ((sortBy_perm leD D).symm.append_right F)
  have hdm : sortDirs (dirMappings rs) = S.map mp := sortM_map _ D
  -- directory loop
  have gSF : Guards t (S ++ F) := g.of_mem (Distinct.perm hperm g.ds) (fun r hr => hperm.mem_iff.2 hr)
  have hloop1 : renameBack (moveAll rs t) (S.map mp) = (moveAll F t, none) := by
    rw [← moveAll_perm g.ds hperm t]
    apply renameBack_loop t F S gSF
    · have hs : S.Pairwise (fun a b => leD a b = true) :=
        sortBy_sorted leD (by intro a b h; simp only [leD, decide_eq_false_iff_not, decide_eq_true_eq] at h ⊢; omega)
          (by intro a b c h1 h2; simp only [leD, decide_eq_true_eq] at h1 h2 ⊢; omega) D
      refine hs.imp_of_mem ?_
      intro x y hx hy hle hpre
      have hxr := (hD x ((hSD x).1 hx)).1
      have hyr := (hD y ((hSD y).1 hy)).1
      have hle' : x.newPath.length ≤ y.newPath.length := of_decide_eq_true hle
      rw [lastOnly_length g.lo hxr, lastOnly_length g.lo hyr] at hle'
      exact pre_eq_of_length hpre hle'
    · intro x hx k hk hpre
      exact hfl k (hF k hk).1 (hF k hk).2 x (hD x ((hSD x).1 hx)).1 hpre
  -- file loop
  have hfr : fileRenames (S.map mp) rs = F.map mp := by
    unfold fileRenames
    apply List.map_congr_left
    intro r hr
    apply adjust_noop g _ _ (hF r hr).1 (hF r hr).2
    intro d hd
    obtain ⟨x, hx, rfl⟩ := List.mem_map.1 hd
    exact ⟨x, (hD x ((hSD x).1 hx)).1, (hD x ((hSD x).1 hx)).2, rfl⟩
  have hsf : sortFiles (F.map mp) = S2.map mp := sortM_map _ F
  have gF : Guards t F := g.of_mem (g.ds.sublist List.filter_sublist) (fun r hr => (hF r hr).1)
  have hp2 : List.Perm F (S2 ++ []) := by simpa using (sortBy_perm leF F).symm
  have gS2 : Guards t (S2 ++ []) := gF.of_mem (Distinct.perm hp2 gF.ds) (fun r hr => hp2.mem_iff.2 hr)
  have hloop2 : renameBack (moveAll F t) (S2.map mp) = (t, none) := by
    rw [← moveAll_perm gF.ds hp2 t]
    have := renameBack_loop t [] S2 gS2
      (pairwise_of_forall S2 (by
        intro x hx y hy hpre
        exact hfl y (hF y ((hS2F y).1 hy)).1 (hF y ((hS2F y).1 hy)).2 x (hF x ((hS2F x).1 hx)).1 hpre))
      (by intro x _ k hk; cases hk)
    rw [this]
    have := mapTree_nil t
    simp only [mapTree] at this
    simp only [moveAll, this]
  unfold renameBack at hloop1 hloop2
  unfold undoRenames undoRenamesWith
  simp only [hdm, hloop1, hfr, hsf, hloop2]


theorem patchFor_orig (cfg : Cfg) (t0 : Tree) (r : Result) (f : Path) (pr : PatchRec)
    (h : patchFor cfg t0 r f = some pr) : pr.orig = f := by
  unfold patchFor at h
  cases h0 : readStr t0 f with
  | none => simp [h0] at h
  | some c0 =>
    simp only [h0] at h
    cases h1 : readStr r.tree (currentPath r.performed f) with
    | none => simp [h1] at h
    | some c1 =>
      simp only [h1] at h
      split at h
      · cases h
      · injection h with h; rw [← h]


end UndoLemmas
