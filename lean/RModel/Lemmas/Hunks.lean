import RModel.Model.Hunks
import RModel.Lemmas.Edits
import RModel.Lemmas.Matcher
/- helper lemmas for C15: the right-to-left merge of render_diff against the left-to-right splice -/
namespace Hunks
open Edits

/-- the edit a hunk describes, in line coordinates -/
def toEdit (h : Hunk) : Edit :=
  { before := h.content, after := h.replace, start := h.byteOffset, stop := h.byteOffset + h.content.length }

theorem mergeRun_append (a : Bytes) (xs ys : List Hunk) :
    mergeRun a (xs ++ ys) =
      match mergeRun a xs with
      | none => none
      | some a' => mergeRun a' ys := by
  induction xs generalizing a with
  | nil => simp [mergeRun]
  | cons x xs ih =>
    simp only [List.cons_append, mergeRun]
    cases mergeStep a x with
    | none => rfl
    | some a' => exact ih a'

theorem mergeRun_reverse_cons (a : Bytes) (h : Hunk) (hs : List Hunk) :
    mergeRun a (h :: hs).reverse =
      match mergeRun a hs.reverse with
      | none => none
      | some m => mergeStep m h := by
  rw [List.reverse_cons, mergeRun_append]
  cases mergeRun a hs.reverse with
  | none => rfl
  | some m =>
    simp only [mergeRun]
    cases mergeStep m h <;> rfl

theorem step_ok_replaceRange {orig m : Bytes} {e : Edit} {r : Bytes} (h : step orig m e = .ok r) :
    replaceRange m e.start e.stop e.after = some r := by
  change stepG true orig m e = .ok r at h
  unfold stepG at h
  split at h
  · cases h
  · split at h
    · cases h
    · split at h
      · cases h
      · rename_i hr
        cases h
        exact hr

theorem replaceRange_guard {m r : Bytes} {a b : Nat} {out : Bytes} (h : replaceRange m a b r = some out) :
    a ≤ b ∧ b ≤ m.length ∧ isCharBoundary m a = true ∧ isCharBoundary m b = true := by
  unfold replaceRange at h
  split at h
  · assumption
  · cases h

/-- one step of the merge does what one step of the apply loop does, on the state the apply loop is in -/
theorem mergeStep_of_consistent (line : Bytes) (off : Nat) (h : Hunk) (hs : List Hunk)
    (hne : h.content ≠ [])
    (hc : Consistent line off (toEdit h :: hs.map toEdit)) :
    mergeStep (line.take (toEdit h).stop ++ spec line (toEdit h).stop (hs.map toEdit)) h
      = some (line.take off ++ spec line off (toEdit h :: hs.map toEdit)) := by
  have hrest : Consistent line (toEdit h).stop (hs.map toEdit) := hc.2.2.2.2.2.2.2
  obtain ⟨h1, h2, h3, _, _, hbefore, _, _⟩ := hc
  have hA := applyEdits_prefix line off (toEdit h :: hs.map toEdit) ⟨h1, h2, h3, ‹_›, ‹_›, hbefore, ‹_›, hrest⟩
  have hB := applyEdits_prefix line (toEdit h).stop (hs.map toEdit) hrest
  rw [applyEdits_cons, hB] at hA
  simp only at hA
  have hrr := step_ok_replaceRange hA
  obtain ⟨g1, g2, g3, g4⟩ := replaceRange_guard hrr
  have hlen : 0 < h.content.length := List.length_pos_iff.mpr hne
  have hstop : (toEdit h).stop = h.byteOffset + h.content.length := rfl
  have hstart : (toEdit h).start = h.byteOffset := rfl
  simp only [hstart, hstop] at g1 g2 g3 g4 hrr h3 hbefore
  unfold mergeStep startsWithAt
  rw [hstop]
  have hlt : h.byteOffset < (List.take (h.byteOffset + h.content.length) line ++
      spec line (h.byteOffset + h.content.length) (List.map toEdit hs)).length := by omega
  rw [if_pos hlt, g3]
  simp only [if_true]
  have hpre : h.content.isPrefixOf (List.drop h.byteOffset (List.take (h.byteOffset + h.content.length) line ++
      spec line (h.byteOffset + h.content.length) (List.map toEdit hs))) = true := by
    rw [List.isPrefixOf_iff_prefix, List.drop_append_of_le_length (by simp; omega), hbefore]
    exact List.prefix_append _ _
  rw [hpre]
  exact hrr

/-- right-to-left merge over consistent, non-empty hunks = left-to-right splice of the line -/
theorem mergeRun_reverse_eq_spec (line : Bytes) (off : Nat) (hs : List Hunk)
    (hne : ∀ h ∈ hs, h.content ≠ [])
    (hc : Consistent line off (hs.map toEdit)) :
    mergeRun line hs.reverse = some (line.take off ++ spec line off (hs.map toEdit)) := by
  induction hs generalizing off with
  | nil =>
    have : off ≤ line.length := by simpa [Consistent] using hc
    simp [mergeRun, spec]
  | cons h hs ih =>
    have hc' : Consistent line off (toEdit h :: hs.map toEdit) := hc
    have hrest : Consistent line (toEdit h).stop (hs.map toEdit) := hc'.2.2.2.2.2.2.2
    rw [mergeRun_reverse_cons, ih (toEdit h).stop (fun x hx => hne x (List.mem_cons_of_mem _ hx)) hrest]
    exact mergeStep_of_consistent line off h hs (hne h List.mem_cons_self) hc'

-- the stable descending sort of an ascending list is its reverse ----------------------------------

theorem insertDesc_append_of_lt (x : Hunk) (l : List Hunk) (h : ∀ y ∈ l, x.byteOffset < y.byteOffset) :
    insertDesc x l = l ++ [x] := by
  induction l with
  | nil => rfl
  | cons y ys ih =>
    have hy := h y List.mem_cons_self
    simp only [insertDesc]
    rw [if_neg (by omega), ih (fun z hz => h z (List.mem_cons_of_mem _ hz))]
    rfl

theorem sortDesc_of_ascending (hs : List Hunk) (h : hs.Pairwise (fun a b => a.byteOffset < b.byteOffset)) :
    sortDesc hs = hs.reverse := by
  induction hs with
  | nil => rfl
  | cons x xs ih =>
    obtain ⟨hx, hxs⟩ := List.pairwise_cons.mp h
    simp only [sortDesc, ih hxs, List.reverse_cons]
    exact insertDesc_append_of_lt x xs.reverse (fun y hy => hx y (List.mem_reverse.mp hy))

/-- consistent hunks with non-empty text are strictly ascending in their column -/
theorem ascending_of_consistent (line : Bytes) (off : Nat) (hs : List Hunk)
    (hne : ∀ h ∈ hs, h.content ≠ [])
    (hc : Consistent line off (hs.map toEdit)) :
    hs.Pairwise (fun a b => a.byteOffset < b.byteOffset) ∧ ∀ h ∈ hs, off ≤ h.byteOffset := by
  induction hs generalizing off with
  | nil => simp
  | cons h hs ih =>
    have hc' : Consistent line off (toEdit h :: hs.map toEdit) := hc
    obtain ⟨h1, _, _, _, _, _, _, hrest⟩ := hc'
    obtain ⟨ihp, ihb⟩ := ih (toEdit h).stop (fun x hx => hne x (List.mem_cons_of_mem _ hx)) hrest
    have hlen : 0 < h.content.length := List.length_pos_iff.mpr (hne h List.mem_cons_self)
    have hs' : (toEdit h).stop = h.byteOffset + h.content.length := rfl
    have hst : (toEdit h).start = h.byteOffset := rfl
    refine ⟨List.pairwise_cons.mpr ⟨?_, ihp⟩, ?_⟩
    · intro b hb
      have := ihb b hb
      omega
    · intro b hb
      rcases List.mem_cons.mp hb with rfl | hb
      · omega
      · have := ihb b hb
        omega

end Hunks

namespace Hunks
open Edits

/-- edits of a later part of the file, moved to file coordinates -/
def shift (k : Nat) (es : List Edit) : List Edit :=
  es.map (fun e => { e with start := k + e.start, stop := k + e.stop })

theorem spec_shift (A R : Bytes) (k : Nat) (es : List Edit) :
    spec (A ++ R) (A.length + k) (shift A.length es) = spec R k es := by
  induction es generalizing k with
  | nil => simp [spec, shift, List.drop_append]
  | cons e es ih =>
    simp only [shift, List.map_cons, spec]
    have := ih e.stop
    simp only [shift] at this
    rw [this]
    congr 2
    rw [List.drop_append]
    simp only [Nat.add_sub_cancel_left, List.drop_eq_nil_of_le (Nat.le_add_right _ _), List.nil_append]
    congr 1
    omega

theorem spec_append_aux (A R : Bytes) (off : Nat) (hoff : off ≤ A.length) (es : List Edit) :
    spec (A ++ R) off (shift A.length es) = A.drop off ++ spec R 0 es := by
  cases es with
  | nil => simp [spec, shift, List.drop_append_of_le_length hoff]
  | cons e es =>
    simp only [shift, List.map_cons, spec]
    have := spec_shift A R e.stop es
    simp only [shift] at this
    rw [this]
    rw [List.drop_append_of_le_length hoff, List.take_append]
    simp only [List.length_drop, List.drop_zero, Nat.sub_zero, List.append_assoc]
    congr 1
    · rw [List.take_of_length_le (by simp; omega)]
    · congr 1
      congr 1
      omega

/-- the splice distributes over a cut of the file that no edit crosses -/
theorem spec_append (A R : Bytes) (off : Nat) (EA ER : List Edit) (h : Consistent A off EA) :
    spec (A ++ R) off (EA ++ shift A.length ER) = spec A off EA ++ spec R 0 ER := by
  induction EA generalizing off with
  | nil =>
    have : off ≤ A.length := by simpa [Consistent] using h
    simp only [List.nil_append, spec]
    exact spec_append_aux A R off this ER
  | cons e es ih =>
    obtain ⟨h1, h2, h3, _, _, _, _, hrest⟩ := h
    simp only [List.cons_append, spec, ih e.stop hrest, List.append_assoc]
    congr 1
    have hle : off ≤ A.length := by omega
    rw [List.drop_append_of_le_length hle, List.take_append_of_le_length (by simp; omega)]

end Hunks
