import RModel.Model.Matcher
import RModel.Model.LinePipeline
import RModel.Lemmas.Matcher
import RModel.Lemmas.LineMatch
/-
  INTERNAL CONSISTENCY of the model: `pattern.rs` (`build_pattern`, `find_matches`, `is_boundary`) is modelled twice, by hand,
  for two groups of properties — `Matcher.findMatches` (C03 / C15 / C14: whole files, offsets, lines) and
  `LinePipeline.exactMatches` (C06 / C07: one line, keys of the variant table).  Each is compared with the real code on its
  own request stream; this file proves that they are THE SAME FUNCTION wherever both are defined (non-empty keys), so a
  theorem about one is a theorem about the other and a divergence of the two hand-written texts cannot hide behind two
  separately passing correspondences.

  The two even ORDER equal-length alternatives differently (`insertByLen` puts a key behind its equals, `insertAlt` in front):
  irrelevant, because two different keys that both match at one position are prefixes of one another and therefore have
  different (escaped) lengths — which is also why the regex's leftmost-first alternation is leftmost-longest.
-/
namespace ExactPass
open B

-- the alternation at one position -------------------------------------------------------------------------------------------

theorem escLen_lt_of_prefix {a b : Bytes} (hp : a <+: b) (hne : a.length < b.length) :
    LinePipeline.escLen a < LinePipeline.escLen b := by
  obtain ⟨s, rfl⟩ := hp
  rw [LinePipeline.escLen_append]
  have hs : s ≠ [] := by
    intro h0; rw [h0] at hne; simp at hne
  have := LinePipeline.escLen_pos hs
  omega

theorem eq_of_prefix_same_length {a b s : Bytes} (ha : a <+: s) (hb : b <+: s) (hl : a.length = b.length) : a = b := by
  have h1 : a <+: b := List.prefix_of_prefix_length_le ha hb (by omega)
  exact h1.eq_of_length hl

/-- the two alternations pick the same key at every position, for every list of non-empty keys -/
theorem firstAlt_agree (ks : List Bytes) (hne : ∀ k ∈ ks, k ≠ []) (rest : Bytes) :
    LinePipeline.firstAlt (LinePipeline.sortKeys ks) rest = Matcher.firstAlt (Matcher.orderAlts ks) rest := by
  cases h1 : LinePipeline.firstAlt (LinePipeline.sortKeys ks) rest with
  | none =>
    cases h2 : Matcher.firstAlt (Matcher.orderAlts ks) rest with
    | none => rfl
    | some a =>
      obtain ⟨ham, hane, hap⟩ := Matcher.firstAlt_some h2
      have := LinePipeline.firstAlt_isSome (Matcher.mem_orderAlts.mp ham) hane hap
      rw [h1] at this; cases this
  | some k =>
    obtain ⟨hk, hkne, hkp, hmax⟩ := LinePipeline.firstAlt_spec h1
    cases h2 : Matcher.firstAlt (Matcher.orderAlts ks) rest with
    | none =>
      -- k matches, so the other alternation finds something too
      exfalso
      unfold Matcher.firstAlt at h2
      have := List.find?_eq_none.mp h2 k (Matcher.mem_orderAlts.mpr hk)
      simp [hkne, List.isPrefixOf_iff_prefix, hkp] at this
    | some a =>
      obtain ⟨ham, hane, hap⟩ := Matcher.firstAlt_some h2
      have h3 : k.length ≤ a.length := Matcher.firstAlt_longest h2 hk hkne hkp
      have h4 : a.length ≤ k.length := by
        by_cases hle : a.length ≤ k.length
        · exact hle
        · exfalso
          have hka : k <+: a := List.prefix_of_prefix_length_le hkp hap (by omega)
          have := escLen_lt_of_prefix hka (by omega)
          have := hmax a (Matcher.mem_orderAlts.mp ham) hane hap
          omega
      rw [eq_of_prefix_same_length hkp hap (by omega)]

-- find_iter -----------------------------------------------------------------------------------------------------------------

/-- the raw regex matches of the two models are the same spans -/
theorem findIter_eq_scan (ks : List Bytes) (hne : ∀ k ∈ ks, k ≠ []) : ∀ (content : Bytes) (pos skip : Nat),
    (LinePipeline.findIter (LinePipeline.sortKeys ks) pos skip content).map (fun m => (m.1, m.1 + m.2.length)) =
      Matcher.scan (Matcher.orderAlts ks) content pos skip := by
  intro content
  induction content with
  | nil => intro pos skip; simp [LinePipeline.findIter, Matcher.scan]
  | cons c cs ih =>
    intro pos skip
    cases skip with
    | succ n => simp only [LinePipeline.findIter, Matcher.scan]; exact ih (pos + 1) n
    | zero =>
      simp only [LinePipeline.findIter, Matcher.scan]
      rw [firstAlt_agree ks hne (c :: cs)]
      cases Matcher.firstAlt (Matcher.orderAlts ks) (c :: cs) with
      | none => exact ih (pos + 1) 0
      | some a => simp only [List.map_cons]; rw [ih (pos + 1) (a.length - 1)]

-- is_boundary ---------------------------------------------------------------------------------------------------------------

theorem isWhitespace_eq (c : UInt8) : LinePipeline.isWhitespace c = Matcher.isWs c := by
  simp only [LinePipeline.isWhitespace, Matcher.isWs]
  cases h1 : decide (c.toNat = 32) <;> cases h2 : decide (c.toNat = 9) <;> cases h3 : decide (c.toNat = 10) <;>
    cases h4 : decide (c.toNat = 12) <;> cases h5 : decide (c.toNat = 13) <;>
    simp_all [beq_iff_eq]

theorem isPunct_eq (c : UInt8) : LinePipeline.isPunct c = Matcher.isPunct c := rfl

theorem ne_iff_toNat (c : UInt8) (n : Nat) (hn : n < 256) : (c != UInt8.ofNat n) = (c.toNat != n) := by
  cases h : c.toNat != n with
  | true =>
    simp only [bne_iff_ne, ne_eq] at h ⊢
    intro hc; apply h; rw [hc]; simp [UInt8.toNat_ofNat, Nat.mod_eq_of_lt hn]
  | false =>
    have h' : c.toNat = n := by simpa using h
    have : c = UInt8.ofNat n := by
      apply UInt8.toNat_inj.mp
      rw [h']; simp [UInt8.toNat_ofNat, Nat.mod_eq_of_lt hn]
    simp [this]

theorem spaceSide_eq (c : UInt8) : LinePipeline.spaceSide c = Matcher.spaceSide c := by
  unfold LinePipeline.spaceSide Matcher.spaceSide
  rw [isWhitespace_eq, isPunct_eq]
  have h45 : (c != 45) = (c.toNat != 45) := ne_iff_toNat c 45 (by omega)
  have h95 : (c != 95) = (c.toNat != 95) := ne_iff_toNat c 95 (by omega)
  rw [h45, h95]

theorem contains_space_eq (m : Bytes) : contains m 32 = m.any (fun b => b.toNat == 32) := by
  unfold contains
  congr 1
  funext b
  cases h : b.toNat == 32 with
  | true =>
    have : b.toNat = 32 := by simpa using h
    have hb : b = 32 := UInt8.toNat_inj.mp (by rw [this]; rfl)
    simp [hb]
  | false =>
    have : b.toNat ≠ 32 := by simpa using h
    simp only [beq_eq_false_iff_ne, ne_eq]
    intro hb; apply this; rw [hb]; rfl

/-- the two boundary tests agree on every span the regex can report (`start < stop ≤ length`) -/
theorem isBoundary_agree (bytes : Bytes) (s e : Nat) (h1 : s < e) (h2 : e ≤ bytes.length) :
    (Matcher.isBoundary bytes s e == some true) = LinePipeline.isBoundary bytes s e := by
  unfold Matcher.isBoundary LinePipeline.isBoundary
  have hin : (s ≤ e ∧ e ≤ bytes.length) := ⟨by omega, h2⟩
  simp only [hin, and_self, not_true_eq_false, ↓reduceIte]
  rw [← contains_space_eq]
  have hs : s < bytes.length := by omega
  have hcur : bytes[s]? = some bytes[s] := List.getElem?_eq_getElem hs
  have hprev : e - 1 < bytes.length := by omega
  have hpe : bytes[e - 1]? = some bytes[e - 1] := List.getElem?_eq_getElem hprev
  have he0 : 0 < e := by omega
  by_cases h0 : s = 0
  · subst h0
    simp only [↓reduceIte]
    cases hn : bytes[e]? with
    | none => simp
    | some nx =>
      simp only [hpe, he0, decide_true, Bool.and_true, Option.map_some, Option.getD_some, spaceSide_eq]
      cases contains ((bytes.take e).drop 0) 32 <;> simp
      · cases B.isAlnum nx <;> simp
  · have hs1 : s - 1 < bytes.length := by omega
    have hp : bytes[s - 1]? = some bytes[s - 1] := List.getElem?_eq_getElem hs1
    simp only [h0, ↓reduceIte, hp, hcur, Option.map_some, Option.getD_some, spaceSide_eq]
    cases hsp : contains ((bytes.take e).drop s) 32
    · simp only [Bool.false_eq_true, ↓reduceIte]
      cases hal : B.isAlnum bytes[s - 1]
      · simp only [Bool.not_false, ↓reduceIte, Bool.true_or]
        cases hn : bytes[e]? with
        | none => simp
        | some nx =>
          simp only [hpe, he0, decide_true, Bool.and_true, Option.map_some, Option.getD_some]
          cases B.isAlnum nx <;> simp
      · simp only [Bool.not_true, Bool.false_eq_true, ↓reduceIte, Bool.false_or]
        cases hn : bytes[e]? with
        | none => simp
        | some nx =>
          simp only [hpe, he0, decide_true, Bool.and_true, Option.map_some, Option.getD_some]
          cases B.isAlnum nx <;> cases (B.isUpper bytes[s] && B.isLower bytes[s - 1]) <;> simp
    · simp only [↓reduceIte]
      cases hn : bytes[e]? with
      | none => simp
      | some nx => simp

-- the exact pass ------------------------------------------------------------------------------------------------------------

/-- THE TWO MODELS OF THE EXACT PASS AGREE: for every content and every list of non-empty keys, the spans
    `LinePipeline.exactMatches` reports are exactly the spans of `Matcher.findMatches`. -/
theorem exactMatches_eq_findMatches (content : Bytes) (ks : List Bytes) (hks : ks ≠ []) (hne : ∀ k ∈ ks, k ≠ []) :
    (LinePipeline.exactMatches content ks).map (fun m => (m.1, m.1 + m.2.length)) =
      (Matcher.findMatches ks content).map (fun m => (m.start, m.stop)) := by
  unfold LinePipeline.exactMatches Matcher.findMatches
  have he : ks.isEmpty = false := by
    cases ks with
    | nil => exact absurd rfl hks
    | cons _ _ => rfl
  simp only [he, Bool.false_eq_true, ↓reduceIte, List.map_map]
  have hcomp : ((fun m : Matcher.Match => (m.start, m.stop)) ∘ Matcher.mkMatch ks content) = id := by
    funext se; simp [Matcher.mkMatch]
  rw [hcomp, List.map_id]
  have hscan := findIter_eq_scan ks hne content 0 0
  have hspec := Matcher.scan_spec ks content
  rw [← hscan] at hspec ⊢
  rw [List.filter_map]
  congr 1
  apply List.filter_congr
  intro m hm
  have hmem : (m.1, m.1 + m.2.length) ∈
      (LinePipeline.findIter (LinePipeline.sortKeys ks) 0 0 content).map (fun m => (m.1, m.1 + m.2.length)) :=
    List.mem_map.mpr ⟨m, hm, rfl⟩
  obtain ⟨h1, h2, _⟩ := hspec _ hmem
  simp only [Function.comp_def]
  exact (isBoundary_agree content m.1 (m.1 + m.2.length) h1 h2).symm

end ExactPass
