import RModel.Model.RenamePlan
import RModel.Lemmas.RenamePhase
/-
  Helper lemmas for the rename planner (`RModel/Model/RenamePlan.lean`): what `str::replace` can
  produce, `with_file_name` on a slash-free name, what `collect` contains, that sorting and the
  conflict filter only reorder / drop, and what an empty conflict list means.
  Property theorems are in `RModel/Props/C08.lean`.
-/
namespace RenamePlanL
open B Fs Apply RenamePlan

-- str::replace ---------------------------------------------------------------------------------------------

theorem replaceGo_mem (p r : Bytes) : ∀ (s : Bytes) (k : Nat) (x : UInt8),
    x ∈ replaceGo p r s k → x ∈ s ∨ x ∈ r := by
  intro s
  induction s with
  | nil => intro k x h; cases k <;> simp [replaceGo] at h
  | cons c cs ih =>
    intro k x h
    cases k with
    | succ k =>
      simp only [replaceGo] at h
      rcases ih k x h with h | h
      · exact Or.inl (List.mem_cons_of_mem _ h)
      · exact Or.inr h
    | zero =>
      simp only [replaceGo] at h
      split at h
      · rcases List.mem_append.1 h with h | h
        · exact Or.inr h
        · rcases ih _ x h with h | h
          · exact Or.inl (List.mem_cons_of_mem _ h)
          · exact Or.inr h
      · rcases List.mem_cons.1 h with h | h
        · exact Or.inl (h ▸ List.mem_cons_self)
        · rcases ih 0 x h with h | h
          · exact Or.inl (List.mem_cons_of_mem _ h)
          · exact Or.inr h

theorem replaceAll_mem {s p r : Bytes} {x : UInt8} (h : x ∈ replaceAll s p r) : x ∈ s ∨ x ∈ r := by
  unfold replaceAll at h
  split at h
  · exact Or.inl h
  · exact replaceGo_mem p r s 0 x h

/-- when the pattern occurs, the whole replacement text shows up in the result -/
theorem replaceGo_has (p r : Bytes) (hp : p ≠ []) : ∀ (s : Bytes) (i : Nat),
    (find.go p s i).isSome = true → ∀ x ∈ r, x ∈ replaceGo p r s 0 := by
  intro s
  induction s with
  | nil =>
    intro i h
    simp only [find.go] at h
    cases p with
    | nil => exact absurd rfl hp
    | cons a as => simp at h
  | cons c cs ih =>
    intro i h x hx
    simp only [find.go] at h
    simp only [replaceGo]
    split
    · exact List.mem_append_left _ hx
    · rename_i hpre
      rw [if_neg hpre] at h
      exact List.mem_cons_of_mem _ (ih (i + 1) h x hx)

theorem replaceAll_has {s p r : Bytes} (hp : p ≠ []) (h : containsSub s p = true) :
    ∀ x ∈ r, x ∈ replaceAll s p r := by
  intro x hx
  unfold replaceAll
  have : p.isEmpty = false := by cases p with
    | nil => exact absurd rfl hp
    | cons _ _ => rfl
  rw [this]
  exact replaceGo_has p r hp s 0 h x hx

/-- bytes of an occurrence that are still to be skipped are skipped -/
theorem replaceGo_skip (p r : Bytes) : ∀ (a s : Bytes), replaceGo p r (a ++ s) a.length = replaceGo p r s 0 := by
  intro a
  induction a with
  | nil => intro s; rfl
  | cons x a ih => intro s; simp only [List.cons_append, List.length_cons, replaceGo]; exact ih s

/-- no occurrence: nothing changes -/
theorem replaceGo_noOcc (p r : Bytes) : ∀ (s : Bytes) (i : Nat), find.go p s i = none → replaceGo p r s 0 = s := by
  intro s
  induction s with
  | nil => intro i _; rfl
  | cons c cs ih =>
    intro i h
    simp only [find.go] at h
    simp only [replaceGo]
    split
    · rename_i hpre; rw [if_pos hpre] at h; cases h
    · rename_i hpre; rw [if_neg hpre] at h; rw [ih (i + 1) h]

/-- no occurrence starts inside `a`: `a` is copied -/
theorem replaceGo_prefix (p r : Bytes) : ∀ (a rest : Bytes),
    (∀ k, k < a.length → p.isPrefixOf ((a ++ rest).drop k) = false) →
    replaceGo p r (a ++ rest) 0 = a ++ replaceGo p r rest 0 := by
  intro a
  induction a with
  | nil => intro rest _; rfl
  | cons c a ih =>
    intro rest h
    have h0 : p.isPrefixOf (c :: (a ++ rest)) = false := by simpa using h 0 (by simp)
    simp only [List.cons_append, replaceGo, h0, Bool.false_eq_true, if_false]
    rw [ih rest (fun k hk => by simpa using h (k + 1) (by simpa using hk))]

/-- a single occurrence of the key is replaced and everything around it is kept -/
theorem replaceAll_single (a key val b : Bytes) (hk : key ≠ [])
    (hearly : ∀ k, k < a.length → key.isPrefixOf ((a ++ (key ++ b)).drop k) = false)
    (hlate : containsSub b key = false) :
    replaceAll (a ++ (key ++ b)) key val = a ++ (val ++ b) := by
  unfold replaceAll
  have e : key.isEmpty = false := by cases key with
    | nil => exact absurd rfl hk
    | cons _ _ => rfl
  rw [e]
  simp only [Bool.false_eq_true, if_false]
  rw [replaceGo_prefix key val a (key ++ b) hearly]
  congr 1
  cases key with
  | nil => exact absurd rfl hk
  | cons k0 ks =>
    have hp : (k0 :: ks).isPrefixOf (k0 :: (ks ++ b)) = true := by
      exact List.isPrefixOf_iff_prefix.2 (List.prefix_append (k0 :: ks) b)
    simp only [List.cons_append, replaceGo, hp, if_true, List.length_cons, Nat.add_sub_cancel]
    rw [replaceGo_skip]
    have : find.go (k0 :: ks) b 0 = none := by
      unfold containsSub find at hlate
      cases hf : find.go (k0 :: ks) b 0 with
      | none => rfl
      | some _ => rw [hf] at hlate; cases hlate
    rw [replaceGo_noOcc _ _ b 0 this]

-- the scan over all variants (patched `determine_filename_replacement`) ---------------------------------------------------

theorem startsHere_some {vmap : List VEntry} {s : Bytes} {v : VEntry} (h : startsHere vmap s = some v) :
    v ∈ vmap ∧ v.key ≠ [] ∧ v.key.isPrefixOf s = true := by
  unfold startsHere at h
  have hm := List.mem_of_find?_eq_some h
  have hp := List.find?_some h
  simp only [Bool.and_eq_true, Bool.not_eq_true'] at hp
  refine ⟨hm, ?_, hp.2⟩
  intro h0; rw [h0] at hp; simp at hp

theorem startsHere_none {vmap : List VEntry} {s : Bytes} (h : startsHere vmap s = none) :
    ∀ v ∈ vmap, v.key ≠ [] → v.key.isPrefixOf s = false := by
  intro v hv hk
  unfold startsHere at h
  rw [List.find?_eq_none] at h
  have := h v hv
  have e : v.key.isEmpty = false := by cases hkk : v.key with
    | nil => exact absurd hkk hk
    | cons _ _ => rfl
  rw [e] at this
  cases hp : v.key.isPrefixOf s with
  | false => rfl
  | true => rw [hp] at this; simp at this

theorem rewriteGo_mem (vmap : List VEntry) : ∀ (s : Bytes) (k : Nat) (x : UInt8),
    x ∈ rewriteGo vmap s k → x ∈ s ∨ ∃ v ∈ vmap, x ∈ replOf v := by
  intro s
  induction s with
  | nil => intro k x h; cases k <;> simp [rewriteGo] at h
  | cons c cs ih =>
    intro k x h
    cases k with
    | succ k =>
      simp only [rewriteGo] at h
      rcases ih k x h with h | h
      · exact Or.inl (List.mem_cons_of_mem _ h)
      · exact Or.inr h
    | zero =>
      simp only [rewriteGo] at h
      split at h
      · rename_i v hv
        rcases List.mem_append.1 h with h | h
        · exact Or.inr ⟨v, (startsHere_some hv).1, h⟩
        · rcases ih _ x h with h | h
          · exact Or.inl (List.mem_cons_of_mem _ h)
          · exact Or.inr h
      · rcases List.mem_cons.1 h with h | h
        · exact Or.inl (h ▸ List.mem_cons_self)
        · rcases ih 0 x h with h | h
          · exact Or.inl (List.mem_cons_of_mem _ h)
          · exact Or.inr h

/-- when some variant occurs, the replacement text of some variant shows up in the result -/
theorem rewriteGo_has (vmap : List VEntry) (v : VEntry) (hv : v ∈ vmap) (hk : v.key ≠ []) :
    ∀ (s : Bytes) (i : Nat), (find.go v.key s i).isSome = true →
      ∃ w ∈ vmap, ∀ x ∈ replOf w, x ∈ rewriteGo vmap s 0 := by
  intro s
  induction s with
  | nil =>
    intro i h
    simp only [find.go] at h
    cases hkk : v.key with
    | nil => exact absurd hkk hk
    | cons a as => rw [hkk] at h; simp at h
  | cons c cs ih =>
    intro i h
    simp only [rewriteGo]
    cases hs : startsHere vmap (c :: cs) with
    | some w =>
      exact ⟨w, (startsHere_some hs).1, fun x hx => List.mem_append_left _ hx⟩
    | none =>
      simp only [find.go] at h
      have hnp := startsHere_none hs v hv hk
      rw [if_neg (by simp [hnp])] at h
      obtain ⟨w, hw, hx⟩ := ih (i + 1) h
      exact ⟨w, hw, fun x hxx => List.mem_cons_of_mem _ (hx x hxx)⟩

theorem rewriteGo_skip (vmap : List VEntry) : ∀ (a s : Bytes),
    rewriteGo vmap (a ++ s) a.length = rewriteGo vmap s 0 := by
  intro a
  induction a with
  | nil => intro s; rfl
  | cons x a ih => intro s; simp only [List.cons_append, List.length_cons, rewriteGo]; exact ih s

/-- one step of the scan at an occurrence -/
theorem rewriteGo_occ (vmap : List VEntry) (v : VEntry) (c : UInt8) (cs : Bytes)
    (h : startsHere vmap (c :: cs) = some v) :
    ∃ rest, c :: cs = v.key ++ rest ∧ rewriteGo vmap (c :: cs) 0 = replOf v ++ rewriteGo vmap rest 0 := by
  obtain ⟨_, hk, hp⟩ := startsHere_some h
  obtain ⟨rest, hrest⟩ := List.isPrefixOf_iff_prefix.1 hp
  refine ⟨rest, hrest.symm, ?_⟩
  simp only [rewriteGo, h]
  cases hkk : v.key with
  | nil => exact absurd hkk hk
  | cons k0 ks =>
    rw [hkk] at hrest
    have : cs = ks ++ rest := by
      have := hrest; simp only [List.cons_append, List.cons.injEq] at this; exact this.2.symm
    rw [this]
    simp only [List.length_cons, Nat.add_sub_cancel]
    rw [rewriteGo_skip]

/-- what the scan guarantees: the input is cut into occurrences of variants, each replaced by its text, and
    single bytes that are copied — and a byte is copied only where no variant starts -/
inductive Rewritten (vmap : List VEntry) : Bytes → Bytes → Prop
  | nil : Rewritten vmap [] []
  | occ (v : VEntry) (rest out : Bytes) : v ∈ vmap → v.key ≠ [] → Rewritten vmap rest out →
      Rewritten vmap (v.key ++ rest) (replOf v ++ out)
  | copy (c : UInt8) (rest out : Bytes) : (∀ v ∈ vmap, v.key ≠ [] → v.key.isPrefixOf (c :: rest) = false) →
      Rewritten vmap rest out → Rewritten vmap (c :: rest) (c :: out)

theorem rewriteAll_spec (vmap : List VEntry) : ∀ (n : Nat) (s : Bytes), s.length ≤ n →
    Rewritten vmap s (rewriteGo vmap s 0) := by
  intro n
  induction n with
  | zero =>
    intro s hs
    have : s = [] := List.eq_nil_of_length_eq_zero (Nat.le_zero.1 hs)
    subst this; exact Rewritten.nil
  | succ n ih =>
    intro s hs
    cases s with
    | nil => exact Rewritten.nil
    | cons c cs =>
      cases h : startsHere vmap (c :: cs) with
      | some v =>
        obtain ⟨rest, hcut, hrw⟩ := rewriteGo_occ vmap v c cs h
        obtain ⟨hv, hk, _⟩ := startsHere_some h
        rw [hrw, hcut]
        refine Rewritten.occ v rest _ hv hk (ih rest ?_)
        have hl : (c :: cs).length = v.key.length + rest.length := by rw [hcut]; simp
        have hkl : 0 < v.key.length := List.length_pos_iff.2 hk
        simp only [List.length_cons] at hl hs
        omega
      | none =>
        simp only [rewriteGo, h]
        exact Rewritten.copy c cs _ (startsHere_none h) (ih cs (by simpa using hs))

/-- no variant starts inside `a`: `a` is copied -/
theorem rewriteGo_prefix (vmap : List VEntry) : ∀ (a rest : Bytes),
    (∀ k, k < a.length → startsHere vmap ((a ++ rest).drop k) = none) →
    rewriteGo vmap (a ++ rest) 0 = a ++ rewriteGo vmap rest 0 := by
  intro a
  induction a with
  | nil => intro rest _; rfl
  | cons c a ih =>
    intro rest h
    have h0 : startsHere vmap (c :: (a ++ rest)) = none := by simpa using h 0 (by simp)
    simp only [List.cons_append, rewriteGo, h0]
    rw [ih rest (fun k hk => by simpa using h (k + 1) (by simpa using hk))]

theorem rewriteGo_noOcc (vmap : List VEntry) : ∀ (s : Bytes),
    (∀ k, k < s.length → startsHere vmap (s.drop k) = none) → rewriteGo vmap s 0 = s := by
  intro s h
  have := rewriteGo_prefix vmap s [] (by simpa using h)
  simpa [rewriteGo] using this

-- with_file_name -------------------------------------------------------------------------------------------------

theorem splitOn_go_noSep (d : UInt8) : ∀ (s cur : Bytes), d ∉ s → splitOn.go d s cur = [cur.reverse ++ s] := by
  intro s
  induction s with
  | nil => intro cur _; simp [splitOn.go]
  | cons c cs ih =>
    intro cur h
    have hc : (c == d) = false := by
      cases hcd : c == d with
      | false => rfl
      | true => exact absurd (by rw [← (beq_iff_eq.1 hcd)]; exact List.mem_cons_self) h
    simp only [splitOn.go, hc, Bool.false_eq_true, if_false]
    rw [ih (c :: cur) (fun hm => h (List.mem_cons_of_mem _ hm))]
    simp

/-- a name one may give to `with_file_name` without changing anything but the last component -/
def SafeName (n : Bytes) : Prop := n ≠ [] ∧ (47 : UInt8) ∉ n ∧ n ≠ [46]

instance (n : Bytes) : Decidable (SafeName n) := by unfold SafeName; infer_instance

theorem splitPath_safe {n : Bytes} (h : SafeName n) : splitPath n = [n] := by
  obtain ⟨h1, h2, h3⟩ := h
  unfold splitPath splitOn
  rw [splitOn_go_noSep 47 n [] h2]
  have e1 : n.isEmpty = false := by cases n with
    | nil => exact absurd rfl h1
    | cons _ _ => rfl
  have e2 : (n != [46]) = true := by simpa using h3
  simp [e1, e2]

theorem withFileName_safe (p : Path) {n : Bytes} (h : SafeName n) : withFileName p n = p.dropLast ++ [n] := by
  unfold withFileName; rw [splitPath_safe h]

-- planEntry / collect ----------------------------------------------------------------------------------------------

theorem planEntry_some {T : Tables} {o : Opts} {vmap : List VEntry} {e : Entry} {r : Ren}
    (h : planEntry T o vmap e = some r) :
    r.path = e.1 ∧ r.kind = kindOf e.2 ∧
    ¬ (e.2 = .dir ∧ o.renameDirs = false) ∧ ¬ (e.2 ≠ .dir ∧ o.renameFiles = false) ∧
    ∃ name n, e.1.getLast? = some name ∧ newNameFor T o vmap name = some n ∧
      r.newPath = withFileName e.1 n := by
  unfold planEntry at h
  split at h
  · cases h
  · rename_i h1
    split at h
    · cases h
    · rename_i h2
      split at h
      · cases h
      · rename_i name hname
        split at h
        · cases h
        · rename_i n hn
          cases h
          refine ⟨rfl, rfl, ?_, ?_, name, n, hname, hn, rfl⟩
          · intro ⟨ha, hb⟩; apply h1; simp [ha, hb]
          · intro ⟨ha, hb⟩; apply h2; simp [ha, hb]

theorem planEntry_of {T : Tables} {o : Opts} {vmap : List VEntry} {e : Entry} {name n : Bytes}
    (h1 : ¬ (e.2 = .dir ∧ o.renameDirs = false)) (h2 : ¬ (e.2 ≠ .dir ∧ o.renameFiles = false))
    (hname : e.1.getLast? = some name) (hn : newNameFor T o vmap name = some n) :
    planEntry T o vmap e = some { path := e.1, newPath := withFileName e.1 n, kind := kindOf e.2 } := by
  unfold planEntry
  have c1 : (e.2 == EKind.dir && !o.renameDirs) = false := by
    cases hk : e.2 <;> cases hd : o.renameDirs <;> simp_all
  have c2 : (e.2 != EKind.dir && !o.renameFiles) = false := by
    cases hk : e.2 <;> cases hd : o.renameFiles <;> simp_all
  simp [c1, c2, hname, hn]

theorem planEntry_none_of_name {T : Tables} {o : Opts} {vmap : List VEntry} {e : Entry}
    (h : ∀ name, e.1.getLast? = some name → newNameFor T o vmap name = none) :
    planEntry T o vmap e = none := by
  cases hp : planEntry T o vmap e with
  | none => rfl
  | some r =>
    obtain ⟨_, _, _, _, name, n, hname, hn, _⟩ := planEntry_some hp
    rw [h name hname] at hn; cases hn

theorem pairwise_fst_inj {l : List Entry} (h : l.Pairwise (fun a b => a.1 ≠ b.1)) {a b : Entry}
    (ha : a ∈ l) (hb : b ∈ l) (hab : a.1 = b.1) : a = b := by
  induction l with
  | nil => cases ha
  | cons x xs ih =>
    have hc := List.pairwise_cons.1 h
    rcases List.mem_cons.1 ha with rfl | ha' <;> rcases List.mem_cons.1 hb with rfl | hb'
    · rfl
    · exact absurd hab (hc.1 b hb')
    · exact absurd hab.symm (hc.1 a ha')
    · exact ih hc.2 ha' hb'

theorem mem_collect {T : Tables} {o : Opts} {vmap : List VEntry} {es : List Entry} {r : Ren} :
    r ∈ collect T o vmap es ↔ ∃ e ∈ es, planEntry T o vmap e = some r := by
  unfold collect; exact List.mem_filterMap

theorem collect_distinct (T : Tables) (o : Opts) (vmap : List VEntry) (es : List Entry)
    (h : es.Pairwise (fun a b => a.1 ≠ b.1)) :
    (collect T o vmap es).Pairwise (fun a b => a.path ≠ b.path) := by
  unfold collect
  induction es with
  | nil => simp
  | cons e es ih =>
    have hc := List.pairwise_cons.1 h
    rw [List.filterMap_cons]
    cases hp : planEntry T o vmap e with
    | none => exact ih hc.2
    | some r =>
      refine List.pairwise_cons.2 ⟨?_, ih hc.2⟩
      intro r' hr'
      obtain ⟨e', he', hp'⟩ := List.mem_filterMap.1 hr'
      rw [(planEntry_some hp).1, (planEntry_some hp').1]
      exact hc.1 e' he'

-- sorting and filtering only reorder / drop ----------------------------------------------------------------------------

theorem sortPlan_perm (rs : List Ren) : List.Perm (sortPlan rs) rs := by
  unfold sortPlan
  refine ((RenamePhase.sortBy_perm _ _).append (RenamePhase.sortBy_perm _ _)).trans ?_
  have : rs.filter (fun r => r.kind == Kind.file) = rs.filter (fun r => !(r.kind == Kind.dir)) :=
    List.filter_congr (fun r _ => RenamePhase.kind_file_iff r)
  rw [this]
  exact List.filter_append_perm _ rs

theorem mem_sortPlan {rs : List Ren} {r : Ren} : r ∈ sortPlan rs ↔ r ∈ rs := (sortPlan_perm rs).mem_iff

theorem distinct_perm {l1 l2 : List Ren} (p : List.Perm l1 l2)
    (h : l1.Pairwise (fun a b => a.path ≠ b.path)) : l2.Pairwise (fun a b => a.path ≠ b.path) :=
  (p.pairwise_iff (fun {_ _} hab => Ne.symm hab)).1 h

-- conflicts ---------------------------------------------------------------------------------------------------------------

theorem mem_dedup_aux (acc ps : List Path) (x : Path) :
    x ∈ ps.foldl (fun acc p => if acc.contains p then acc else acc ++ [p]) acc ↔ x ∈ acc ∨ x ∈ ps := by
  induction ps generalizing acc with
  | nil => simp
  | cons p ps ih =>
    rw [List.foldl_cons, ih]
    by_cases hc : acc.contains p = true
    · rw [if_pos hc]
      have : p ∈ acc := by simpa using hc
      constructor
      · rintro (h | h)
        · exact Or.inl h
        · exact Or.inr (List.mem_cons_of_mem _ h)
      · rintro (h | h)
        · exact Or.inl h
        · rcases List.mem_cons.1 h with h | h
          · exact Or.inl (h ▸ this)
          · exact Or.inr h
    · rw [if_neg hc]
      simp only [List.mem_append, List.mem_cons, List.not_mem_nil, or_false]
      exact or_assoc

theorem mem_dedup {ps : List Path} {x : Path} : x ∈ dedup ps ↔ x ∈ ps := by
  unfold dedup; rw [mem_dedup_aux]; simp

/-- no conflicts: nothing is reserved and no two planned renames share a destination -/
theorem no_conflicts {T : Tables} {rs : List Ren} (h : conflictsOf T rs = []) :
    (∀ r ∈ rs, reservedRen T r = false) ∧
    (∀ r ∈ rs, ∀ r' ∈ rs, r.newPath = r'.newPath →
      ((rs.filter (fun x => !reservedRen T x)).filter (fun x => x.newPath == r.newPath)).length ≤ 1) := by
  unfold conflictsOf at h
  simp only [List.append_eq_nil_iff, List.map_eq_nil_iff] at h
  obtain ⟨hres, hmulti⟩ := h
  have hnr : ∀ r ∈ rs, reservedRen T r = false := by
    intro r hr
    cases hx : reservedRen T r with
    | false => rfl
    | true =>
      have : r ∈ rs.filter (reservedRen T) := List.mem_filter.2 ⟨hr, hx⟩
      rw [hres] at this; cases this
  refine ⟨hnr, ?_⟩
  intro r hr r' _ _
  have hmem : r.newPath ∈ dedup ((rs.filter (fun x => !reservedRen T x)).map (·.newPath)) := by
    rw [mem_dedup]
    exact List.mem_map.2 ⟨r, List.mem_filter.2 ⟨hr, by simp [hnr r hr]⟩, rfl⟩
  have := (List.filterMap_eq_nil_iff.1 hmulti) _ hmem
  simp only [List.length_map] at this
  split at this
  · cases this
  · rename_i hle
    simpa using hle

theorem filter_length_le_one_eq {α : Type _} {l : List α} {f : α → Bool} (h : (l.filter f).length ≤ 1)
    {a b : α} (ha : a ∈ l) (hb : b ∈ l) (fa : f a = true) (fb : f b = true) : a = b := by
  have ha' : a ∈ l.filter f := List.mem_filter.2 ⟨ha, fa⟩
  have hb' : b ∈ l.filter f := List.mem_filter.2 ⟨hb, fb⟩
  match hl : l.filter f, h with
  | [], _ => rw [hl] at ha'; cases ha'
  | [x], _ =>
    rw [hl] at ha' hb'
    rw [List.mem_singleton.1 ha', List.mem_singleton.1 hb']
  | _ :: _ :: _, h => simp at h

/-- an accepted plan has pairwise distinct destinations -/
theorem no_conflicts_distinctDests {T : Tables} {rs : List Ren} (h : conflictsOf T rs = []) :
    ∀ r ∈ rs, ∀ r' ∈ rs, r.newPath = r'.newPath → r = r' := by
  obtain ⟨hnr, hle⟩ := no_conflicts h
  intro r hr r' hr' heq
  have := hle r hr r' hr' heq
  refine filter_length_le_one_eq this
    (List.mem_filter.2 ⟨hr, by simp [hnr r hr]⟩) (List.mem_filter.2 ⟨hr', by simp [hnr r' hr']⟩) (by simp) ?_
  simp [heq]

theorem planRoot_accepted {T : Tables} {o : Opts} {vmap : List VEntry} {es : List Entry}
    (h : (planRoot T o vmap es).conflicts = []) :
    (planRoot T o vmap es).renames =
      sortPlan (if o.renameRoot then collect T o vmap es
                else (collect T o vmap es).filter (fun r => !(r.path == o.cwd))) := by
  unfold planRoot at h ⊢
  simp only at h ⊢
  rw [h]
  simp

-- accepted plans ------------------------------------------------------------------------------------------------------------

/-- an accepted plan is the collected list (minus the working directory), reordered -/
theorem accepted_perm (T : Tables) (o : Opts) (vmap : List VEntry) (es : List Entry) (rs : List Ren)
    (h : planWithSearch T o vmap es = .ok rs) :
    List.Perm rs (if o.renameRoot then collect T o vmap es
                  else (collect T o vmap es).filter (fun r => !(r.path == o.cwd))) ∧
    conflictsOf T rs = [] := by
  unfold planWithSearch at h
  simp only at h
  split at h
  · rename_i hemp
    have hnil : (planRoot T o vmap es).conflicts = [] := by simpa using hemp
    have := planRoot_accepted hnil
    cases h
    refine ⟨by rw [this]; exact sortPlan_perm _, ?_⟩
    rw [this]
    unfold planRoot at hnil
    simpa using hnil
  · cases h

theorem accepted_subset (T : Tables) (o : Opts) (vmap : List VEntry) (es : List Entry) (rs : List Ren)
    (h : planWithSearch T o vmap es = .ok rs) : ∀ r ∈ rs, r ∈ collect T o vmap es := by
  intro r hr
  have := (accepted_perm T o vmap es rs h).1.mem_iff.1 hr
  split at this
  · exact this
  · exact (List.mem_filter.1 this).1


theorem entriesOf_distinct (t : Tree) (root : Path) (hd : t.Pairwise (fun a b => a.1 ≠ b.1)) :
    (entriesOf t root).Pairwise (fun a b => a.1 ≠ b.1) := by
  unfold entriesOf
  rw [List.pairwise_map]
  exact (List.Pairwise.sublist List.filter_sublist hd)

-- several roots -------------------------------------------------------------------------------------------------------------

/-- every rename the per-root loop returns comes from the accepted plan of one of the roots -/
theorem planLoop_mem (T : Tables) (o : Opts) (vmap : List VEntry) :
    ∀ (ess : List (List Entry)) (rs : List Ren), planLoop T o vmap ess = .ok rs →
      ∀ r ∈ rs, ∃ es ∈ ess, ∃ rs0, planWithSearch T o vmap es = .ok rs0 ∧ r ∈ rs0 := by
  intro ess
  induction ess with
  | nil => intro rs h r hr; simp only [planLoop] at h; cases h; cases hr
  | cons es rest ih =>
    intro rs h r hr
    simp only [planLoop] at h
    split at h
    · cases h; cases hr
    · split at h
      · cases h
      · rename_i rs0 h0
        split at h
        · cases h
        · rename_i rs1 h1
          cases h
          rcases List.mem_append.1 hr with hr | hr
          · exact ⟨es, List.mem_cons_self, rs0, h0, hr⟩
          · obtain ⟨es', hes', rs0', h0', hr'⟩ := ih rs1 h1 r hr
            exact ⟨es', List.mem_cons_of_mem _ hes', rs0', h0', hr'⟩

/-- … and conversely the loop leaves no root out: with at least one of the two flags on, every root has an accepted
    plan and all of it is in the loop's output -/
theorem planLoop_complete (T : Tables) (o : Opts) (vmap : List VEntry) (hfl : (o.renameFiles || o.renameDirs) = true) :
    ∀ (ess : List (List Entry)) (rs : List Ren), planLoop T o vmap ess = .ok rs →
      ∀ es ∈ ess, ∃ rs0, planWithSearch T o vmap es = .ok rs0 ∧ ∀ r ∈ rs0, r ∈ rs := by
  intro ess
  induction ess with
  | nil => intro rs _ es hes; cases hes
  | cons e0 rest ih =>
    intro rs h es hes
    simp only [planLoop, hfl, Bool.not_true, Bool.false_eq_true, if_false] at h
    split at h
    · cases h
    · rename_i rs0 h0
      split at h
      · cases h
      · rename_i rs1 h1
        cases h
        rcases List.mem_cons.1 hes with rfl | hes'
        · exact ⟨rs0, h0, fun r hr => List.mem_append_left _ hr⟩
        · obtain ⟨rs0', h0', hsub⟩ := ih rs1 h1 es hes'
          exact ⟨rs0', h0', fun r hr => List.mem_append_right _ (hsub r hr)⟩

theorem dedupRens_sublist : ∀ (rs : List Ren), List.Sublist (dedupRens rs) rs := by
  intro rs
  induction rs with
  | nil => exact List.Sublist.refl _
  | cons r rs ih =>
    simp only [dedupRens]
    exact List.Sublist.cons_cons r (List.filter_sublist.trans ih)

/-- after `dedup_renames` no node is scheduled twice -/
theorem dedupRens_distinct : ∀ (rs : List Ren), (dedupRens rs).Pairwise (fun a b => a.path ≠ b.path) := by
  intro rs
  induction rs with
  | nil => exact List.Pairwise.nil
  | cons r rs ih =>
    simp only [dedupRens]
    refine List.pairwise_cons.2 ⟨?_, List.Pairwise.sublist List.filter_sublist ih⟩
    intro x hx
    have := (List.mem_filter.1 hx).2
    intro h; simp [h] at this

/-- … and no scheduled node is lost -/
theorem dedupRens_cover : ∀ (rs : List Ren) (r : Ren), r ∈ rs → ∃ r' ∈ dedupRens rs, r'.path = r.path := by
  intro rs
  induction rs with
  | nil => intro r hr; cases hr
  | cons x rs ih =>
    intro r hr
    simp only [dedupRens]
    rcases List.mem_cons.1 hr with rfl | hr
    · exact ⟨r, List.mem_cons_self, rfl⟩
    · obtain ⟨r', hr', hp⟩ := ih r hr
      by_cases hx : r'.path = x.path
      · exact ⟨x, List.mem_cons_self, by rw [← hx, hp]⟩
      · exact ⟨r', List.mem_cons_of_mem _ (List.mem_filter.2 ⟨hr', by simpa using hx⟩), hp⟩

theorem mem_filterRoots {cn : Path → Path} {roots : List Path} {b : Bool} {rs : List Ren} {r : Ren}
    (h : r ∈ filterRootsBy cn roots b rs) : r ∈ rs ∧ (b = false → ∀ root ∈ roots, r.path ≠ root) := by
  unfold filterRootsBy at h
  cases b with
  | true =>
    simp only [if_true] at h
    refine ⟨?_, fun hb => by cases hb⟩
    rcases List.mem_append.1 h with h | h <;> exact (List.mem_filter.1 h).1
  | false =>
    simp only [Bool.false_eq_true, if_false] at h
    obtain ⟨h1, h2⟩ := List.mem_filter.1 h
    refine ⟨h1, fun _ root hroot heq => ?_⟩
    have : (roots.any fun root => cn r.path == cn root) = true :=
      List.any_eq_true.2 ⟨root, hroot, by simp [heq]⟩
    simp [this] at h2

theorem filterRoots_distinct {cn : Path → Path} {roots : List Path} {b : Bool} {rs : List Ren}
    (h : rs.Pairwise (fun a b => a.path ≠ b.path)) :
    (filterRootsBy cn roots b rs).Pairwise (fun a b => a.path ≠ b.path) := by
  unfold filterRootsBy
  cases b with
  | true =>
    simp only [if_true]
    exact distinct_perm (List.filter_append_perm _ rs).symm h
  | false =>
    simp only [Bool.false_eq_true, if_false]
    exact List.Pairwise.sublist List.filter_sublist h

/-- an accepted multi-root scan is the de-duplicated output of the loop, and (with the cross-root check) no two of
    its renames with different sources share a destination -/
theorem planMulti_ok {T : Tables} {o : Opts} {vmap : List VEntry} {ess : List (List Entry)} {rs : List Ren}
    (h : planMulti T o vmap ess = .ok rs) :
    ∃ raw, planLoop T o vmap ess = .ok raw ∧ rs = dedupRens raw := by
  unfold planMulti at h
  split at h
  · cases h
  · rename_i raw hraw
    simp only at h
    split at h
    · cases h
    · cases h; exact ⟨raw, hraw, rfl⟩

theorem planMulti_checked {T : Tables} {o : Opts} {vmap : List VEntry} {ess : List (List Entry)} {rs : List Ren}
    (hc : T.crossRootCheck = true) (h : planMulti T o vmap ess = .ok rs) : sharedDest rs = false := by
  unfold planMulti at h
  split at h
  · cases h
  · simp only at h
    split at h
    · cases h
    · rename_i hn
      cases h
      rw [hc] at hn
      simpa using hn

theorem sharedDest_false {rs : List Ren} (h : sharedDest rs = false) :
    ∀ r ∈ rs, ∀ r' ∈ rs, r.newPath ≠ [] → r.newPath = r'.newPath → r.path = r'.path := by
  intro r hr r' hr' hne heq
  unfold sharedDest at h
  rw [List.any_eq_false] at h
  have h1 := h r hr
  have hemp : r.newPath.isEmpty = false := by
    cases hnp : r.newPath with
    | nil => exact absurd hnp hne
    | cons _ _ => rfl
  rw [hemp] at h1
  simp only [Bool.not_false, Bool.true_and, Bool.not_eq_true] at h1
  rw [List.any_eq_false] at h1
  have h2 := h1 r' hr'
  cases hp : (r'.path == r.path) with
  | true => exact (by simpa using hp : r'.path = r.path).symm
  | false =>
    rw [hp] at h2
    simp [heq] at h2

/-- the plan of `renamify rename … <roots…>`: no node twice; every rename belongs to the accepted plan of a root
    and (without `--rename-root`) is not a root itself -/
theorem planRenames_mem (T : Tables) (o : Opts) (vmap : List VEntry) (t : Tree) (roots : List Path) (b : Bool)
    (rs : List Ren) (h : planRenames T o vmap t roots b = .ok rs) :
    rs.Pairwise (fun a b => a.path ≠ b.path) ∧
    ∀ r ∈ rs, (∃ root ∈ roots, ∃ rs0, planWithSearch T o vmap (entriesOf t root) = .ok rs0 ∧ r ∈ rs0) ∧
      (b = false → ∀ root ∈ roots, r.path ≠ root) := by
  unfold planRenames planRenamesWith at h
  split at h
  · cases h
  · rename_i rs1 h1
    obtain ⟨rs2, h2, hd⟩ := planMulti_ok h1
    cases h
    subst hd
    refine ⟨filterRoots_distinct (dedupRens_distinct rs2), ?_⟩
    intro r hr
    obtain ⟨hr1, hr2⟩ := mem_filterRoots hr
    obtain ⟨es, hes, rs0, h0, hr0⟩ := planLoop_mem T o vmap _ rs2 h2 r ((dedupRens_sublist rs2).subset hr1)
    obtain ⟨root, hroot, rfl⟩ := List.mem_map.1 hes
    exact ⟨⟨root, hroot, rs0, h0, hr0⟩, hr2⟩

/-- membership in an accepted per-root plan -/
theorem mem_accepted {T : Tables} {o : Opts} {vmap : List VEntry} {es : List Entry} {rs : List Ren}
    (h : planWithSearch T o vmap es = .ok rs) (r : Ren) :
    r ∈ rs ↔ r ∈ collect T o vmap es ∧ (o.renameRoot = true ∨ r.path ≠ o.cwd) := by
  rw [(accepted_perm T o vmap es rs h).1.mem_iff]
  split
  · rename_i hrr; simp [hrr]
  · rename_i hrr
    rw [List.mem_filter]
    simp [hrr]

-- prefixes ------------------------------------------------------------------------------------------------------------------------

theorem pre_comparable {a b q : Path} (ha : pre a q = true) (hb : pre b q = true) :
    pre a b = true ∨ pre b a = true := by
  obtain ⟨s, hs⟩ := RenamePhase.pre_iff.1 ha
  obtain ⟨s', hs'⟩ := RenamePhase.pre_iff.1 hb
  rcases Nat.le_total a.length b.length with hl | hl
  · left
    have h1 : q.take a.length = a := by rw [hs]; simp
    have h2 : q.take a.length = b.take a.length := by rw [hs', List.take_append_of_le_length hl]
    have ha' : b.take a.length = a := h2.symm.trans h1
    refine RenamePhase.pre_iff.2 ⟨b.drop a.length, ?_⟩
    calc b = b.take a.length ++ b.drop a.length := (List.take_append_drop _ _).symm
      _ = a ++ b.drop a.length := by rw [ha']
  · right
    have h1 : q.take b.length = b := by rw [hs']; simp
    have h2 : q.take b.length = a.take b.length := by rw [hs, List.take_append_of_le_length hl]
    have hb' : a.take b.length = b := h2.symm.trans h1
    refine RenamePhase.pre_iff.2 ⟨a.drop b.length, ?_⟩
    calc a = a.take b.length ++ a.drop b.length := (List.take_append_drop _ _).symm
      _ = b ++ a.drop b.length := by rw [hb']

/-- a proper extension of `a`: `a` is also a prefix of the parent -/
theorem pre_dropLast {a q : Path} (h : pre a q = true) (hne : q ≠ a) : pre a q.dropLast = true := by
  obtain ⟨s, hs⟩ := RenamePhase.pre_iff.1 h
  have hs0 : s ≠ [] := by intro h0; apply hne; rw [hs, h0]; simp
  rw [hs, List.dropLast_append_of_ne_nil hs0]
  exact RenamePhase.pre_append _ _

theorem mem_entriesOf {t : Tree} {root : Path} {e : Entry} (h : e ∈ entriesOf t root) :
    pre root e.1 = true ∧ ∃ x ∈ t, e = (x.1, ekindOf x.2) ∧
      ((x.1.drop root.length).contains [46, 103, 105, 116]) = false := by
  unfold entriesOf at h
  obtain ⟨x, hx, rfl⟩ := List.mem_map.1 h
  obtain ⟨hx1, hx2⟩ := List.mem_filter.1 hx
  simp only [Bool.and_eq_true, Bool.not_eq_true'] at hx2
  exact ⟨hx2.1, x, hx1, rfl, hx2.2⟩

/-- a root below another root (no `.git` component in it) is walked by the outer root as well -/
theorem entriesOf_mono {t : Tree} {a b : Path} (hab : pre a b = true)
    (hgit : b.contains [46, 103, 105, 116] = false) {e : Entry} (h : e ∈ entriesOf t b) : e ∈ entriesOf t a := by
  obtain ⟨hp, x, hx, rfl, hg⟩ := mem_entriesOf h
  unfold entriesOf
  refine List.mem_map.2 ⟨x, List.mem_filter.2 ⟨hx, ?_⟩, rfl⟩
  simp only [Bool.and_eq_true, Bool.not_eq_true']
  refine ⟨RenamePhase.pre_trans hab hp, ?_⟩
  obtain ⟨s, hs⟩ := RenamePhase.pre_iff.1 hab
  obtain ⟨s', hs'⟩ := RenamePhase.pre_iff.1 hp
  simp only at hs'
  have e1 : x.1.drop a.length = s ++ s' := by rw [hs', hs]; simp
  have e2 : x.1.drop b.length = s' := by rw [hs']; simp
  rw [e2] at hg
  rw [e1]
  have hs_git : s.contains [46, 103, 105, 116] = false := by
    cases hc : s.contains [46, 103, 105, 116] with
    | false => rfl
    | true =>
      have : b.contains [46, 103, 105, 116] = true := by
        rw [hs]; simp only [List.contains_eq_mem, List.mem_append, decide_eq_true_eq] at hc ⊢
        exact Or.inr hc
      rw [this] at hgit; cases hgit
  simp only [List.contains_eq_mem, List.mem_append, decide_eq_false_iff_not, not_or] at hs_git hg ⊢
  exact ⟨hs_git, hg⟩

-- trees ------------------------------------------------------------------------------------------------------------------------

theorem lookup_of_mem {t : Tree} (hd : t.Pairwise (fun a b => a.1 ≠ b.1)) {e : Path × Node} (he : e ∈ t) :
    lookup t e.1 = some e.2 := by
  unfold lookup
  induction t with
  | nil => cases he
  | cons x t ih =>
    have hc := List.pairwise_cons.1 hd
    rw [List.find?_cons]
    rcases List.mem_cons.1 he with rfl | he'
    · simp
    · have : (x.1 == e.1) = false := by simpa using hc.1 e he'
      rw [this]
      exact ih hc.2 he'

end RenamePlanL
