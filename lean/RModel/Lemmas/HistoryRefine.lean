import RModel.Model.History
import RModel.Model.HistorySpec
import RModel.Lemmas.History
import RModel.Lemmas.HistoryStatus
/- the invariant behind `C10.refines_spec_partial` and its preservation by every guarded command -/

namespace History
open HistorySpec

section
variable {Tree Plan Backup H : Type} [DecidableEq H]

-- stores ------------------------------------------------------------------------------------------

theorem lookup_put_same {α : Type} (m : List (EId H × α)) (i : EId H) (a : α) : lookup (put m i a) i = some a := by
  unfold lookup put
  rw [List.find?_append]
  have h1 : List.find? (fun e => e.1 == i) (List.filter (fun e => !(e.1 == i)) m) = none := by
    rw [List.find?_eq_none]
    intro x hx
    simp at hx
    simp [hx.2]
  simp [h1]

theorem lookup_put_other {α : Type} (m : List (EId H × α)) (i j : EId H) (a : α) (h : j ≠ i) :
    lookup (put m i a) j = lookup m j := by
  unfold lookup put
  rw [List.find?_append, List.find?_filter]
  have hp : (fun (a : EId H × α) => decide ((!a.fst == i) = true ∧ (a.fst == j) = true)) = (fun a => a.1 == j) := by
    funext a
    by_cases haj : a.1 = j
    · simp [haj]
      intro hji; exact h hji
    · simp [haj]
  rw [hp]
  have h2 : List.find? (fun e => e.1 == j) [(i, a)] = none := by
    simp; exact fun hh => h hh.symm
  rw [h2]
  cases List.find? (fun e => e.1 == j) m <;> rfl

theorem hasId_true_iff (es : List (Entry H)) (i : EId H) : hasId es i = true ↔ ∃ e ∈ es, e.id = i := by
  simp [hasId]

theorem hasId_append (es : List (Entry H)) (e : Entry H) (i : EId H) (h : hasId es i = true) :
    hasId (es ++ [e]) i = true := by
  simp [hasId] at *
  exact Or.inl h

theorem hasId_append_new (es : List (Entry H)) (e : Entry H) : hasId (es ++ [e]) e.id = true := by
  simp [hasId]

theorem findEntry_some (es : List (Entry H)) (i : EId H) (e : Entry H) (h : findEntry es i = some e) :
    e ∈ es ∧ e.id = i := by
  unfold findEntry at h
  exact ⟨List.mem_of_find?_eq_some h, by simpa using List.find?_some h⟩

-- spec ---------------------------------------------------------------------------------------------

omit [DecidableEq H] in
theorem root_plan (h : H) : (EId.plan h : EId H).root = .plan h := rfl

omit [DecidableEq H] in
theorem root_redo (i : EId H) (c : Nat) : (EId.redo i c).root = i.root := rfl

omit [DecidableEq H] in
theorem root_revert (i : EId H) (c : Nat) : (EId.revert i c).root = .revert i c := rfl

theorem find_some (s : Spec Tree H) (r : EId H) (o : Op Tree H) (h : find s r = some o) : o ∈ s ∧ o.root = r := by
  unfold find at h
  exact ⟨List.mem_of_find?_eq_some h, by simpa using List.find?_some h⟩

theorem find_push_old (s : Spec Tree H) (r r' : EId H) (pre post : Tree) (o : Op Tree H) (h : find s r = some o) :
    find (push s r' pre post) r = some o := by
  unfold find push at *
  rw [List.find?_append, h]; rfl

theorem find_push_new (s : Spec Tree H) (r : EId H) (pre post : Tree) (h : ∀ o ∈ s, o.root ≠ r) :
    find (push s r pre post) r = some { root := r, applied := true, pre := pre, post := post } := by
  unfold find push
  rw [List.find?_append]
  have : List.find? (fun o => o.root == r) s = none := by
    rw [List.find?_eq_none]; intro x hx; simpa using h x hx
  simp [this]

theorem find_setApplied (s : Spec Tree H) (r x : EId H) (b : Bool) (o : Op Tree H) (h : find s x = some o) :
    ∃ o', find (setApplied s r b) x = some o' ∧ o'.pre = o.pre ∧ o'.post = o.post ∧ o'.root = o.root ∧
      (o.root = r → o'.applied = b) := by
  unfold find setApplied at *
  rw [List.find?_map]
  have hc : ((fun (o : Op Tree H) => o.root == x) ∘ fun o => if (o.root == r) = true then { o with applied := b } else o)
      = (fun o => o.root == x) := by
    funext o
    simp only [Function.comp]
    by_cases hr : (o.root == r) = true <;> simp [hr]
  rw [hc, h]
  refine ⟨_, rfl, ?_⟩
  by_cases hr : (o.root == r) = true
  · simp [hr]
  · simp [hr]
    intro hh; simp [hh] at hr

theorem mem_setApplied (s : Spec Tree H) (r : EId H) (b : Bool) (o' : Op Tree H) (h : o' ∈ setApplied s r b) :
    ∃ o ∈ s, o'.root = o.root := by
  unfold setApplied at h
  simp at h
  obtain ⟨o, ho, heq⟩ := h
  refine ⟨o, ho, ?_⟩
  by_cases hr : o.root = r
  · simp [hr] at heq; rw [← heq]; exact hr.symm
  · simp [hr] at heq; rw [← heq]

-- the invariant --------------------------------------------------------------------------------------

/-- What links a world reached inside the guard to its abstract history. -/
structure Inv (ops : Ops Tree Plan Backup H) (w : World Tree Plan Backup H) (s : Spec Tree H) : Prop where
  /-- every non-revert entry has its operation in the abstract history, its stored plan and its reverse patches,
      and these are exactly what applying the plan on the operation's pre-state produces -/
  stored : ∀ e ∈ w.entries, e.revertOf = none → ∃ o p b, find s e.id.root = some o ∧ lookup w.plans e.id = some p ∧
    lookup w.backups e.id = some b ∧ ops.apply o.pre p = .ok o.post b
  roots : ∀ o ∈ s, hasId w.entries o.root = true ∧ ∃ h, o.root = .plan h
  revForm : ∀ e ∈ w.entries, ∀ j c, e.id = .revert j c → e.revertOf = some j
  revOnly : ∀ e ∈ w.entries, ∀ j, e.revertOf = some j → ∃ c, e.id = .revert j c
  backupsIds : ∀ i, lookup w.backups i ≠ none → hasId w.entries i = true
  /-- what the eligibility scans say about applied / undone (Lemmas/HistoryStatus.lean) -/
  status : Status w.entries s

theorem inv_init (ops : Ops Tree Plan Backup H) (t : Tree) (clock : Nat) :
    Inv ops (init t clock : World Tree Plan Backup H) ([] : Spec Tree H) where
  stored := by intro e he; simp [init] at he
  roots := by intro o ho; simp at ho
  revForm := by intro e he; simp [init] at he
  revOnly := by intro e he; simp [init] at he
  backupsIds := by intro i h; simp [init, lookup] at h
  status := by simpa [init] using (status_init : Status ([] : List (Entry H)) ([] : Spec Tree H))

-- closed forms of the successful steps -------------------------------------------------------------------

theorem applyWithId_ok (cfg : Cfg) (ops : Ops Tree Plan Backup H) (w : World Tree Plan Backup H) (id : EId H) (p : Plan)
    (t' : Tree) (b : Backup) (ha : ops.apply w.tree p = .ok t' b) (hf : hasId w.entries id = false)
    (hb : lookup w.backups id = none) :
    applyWithId cfg ops w id p =
      ({ clock := w.clock, tree := t', entries := w.entries ++ [{ id := id, revertOf := none }],
         plans := put w.plans id p, backups := put w.backups id b }, .ok) := by
  unfold applyWithId
  simp [ha, addEntry, hf, hb]

theorem applyWithId_rejected (cfg : Cfg) (ops : Ops Tree Plan Backup H) (w : World Tree Plan Backup H) (id : EId H) (p : Plan)
    (ha : ops.apply w.tree p = .rejected) : applyWithId cfg ops w id p = (w, .rejected) := by
  unfold applyWithId
  by_cases hc : (cfg.earlyDupCheck && hasId w.entries id) = true <;> simp [ha, hc]

/-- c3d511b: an id that is already in the history is refused before anything is touched -/
theorem applyWithId_dup (cfg : Cfg) (hE : cfg.earlyDupCheck = true) (ops : Ops Tree Plan Backup H) (w : World Tree Plan Backup H) (id : EId H) (p : Plan)
    (hd : hasId w.entries id = true) : applyWithId cfg ops w id p = (w, .rejected) := by
  unfold applyWithId
  simp [hd, hE]

theorem stepUndo_ineligible (cfg : Cfg) (ops : Ops Tree Plan Backup H) (w : World Tree Plan Backup H) (t : Target H) (i : EId H)
    (hr : resolve w.entries true t = some i) (he : undoEligible w.entries i = false) :
    stepUndo cfg ops w t = (w, .rejected) := by
  unfold stepUndo
  simp only [hr]
  unfold undoEligible at he
  cases hf : findEntry w.entries i with
  | none => rfl
  | some e =>
    simp only []
    by_cases h1 : e.revertOf.isSome = true
    · simp [h1]
    · by_cases h2 : hasRevertOf w.entries i = true
      · simp [h1, h2]
      · exfalso
        have h1' : e.revertOf.isNone = true := by
          cases hh : e.revertOf with
          | none => rfl
          | some x => simp [hh] at h1
        simp [hf, h1'] at he
        exact h2 he

theorem stepUndo_ok (cfg : Cfg) (hRI : cfg.revertIdOfRoot = false) (ops : Ops Tree Plan Backup H) (w : World Tree Plan Backup H) (t : Target H) (i : EId H)
    (e : Entry H) (p : Plan) (b : Backup) (t' : Tree)
    (hr : resolve w.entries true t = some i) (hf : findEntry w.entries i = some e) (h1 : e.revertOf = none)
    (h2 : hasRevertOf w.entries i = false) (hp : lookup w.plans i = some p) (hb : lookup w.backups i = some b)
    (hv : ops.revert w.tree p b = .ok t') (hd : hasId w.entries (.revert i w.clock) = false) :
    stepUndo cfg ops w t =
      ({ w with tree := t', entries := w.entries ++ [{ id := .revert i w.clock, revertOf := some i }] }, .ok) := by
  unfold stepUndo
  have hd' : hasId w.entries (revertId cfg i w.clock) = false := by simpa [revertId, hRI] using hd
  simp [hr, hf, h1, h2, hp, hb, hv, addEntry, hd, revertId, hRI]

theorem stepRedo_ineligible (cfg : Cfg) (hR : cfg.redoOnce = true) (ops : Ops Tree Plan Backup H) (w : World Tree Plan Backup H) (t : Target H) (i : EId H)
    (hr : resolve w.entries false t = some i) (he : redoEligible w.entries i = false) :
    stepRedo cfg ops w t = (w, .rejected) := by
  unfold stepRedo
  simp only [hr]
  unfold redoEligible at he
  by_cases h1 : hasId w.entries i = true
  · by_cases h2 : hasRevertOf w.entries i = true
    · have h3 : hasRedoOf w.entries i = true := by simpa [h1, h2] using he
      simp [h1, h2, h3, hR]
    · simp [h1, h2]
  · simp [h1]

theorem stepRedo_eligible (cfg : Cfg) (ops : Ops Tree Plan Backup H) (w : World Tree Plan Backup H) (t : Target H) (i : EId H)
    (p : Plan) (hr : resolve w.entries false t = some i) (h1 : hasId w.entries i = true)
    (h2 : hasRevertOf w.entries i = true) (h3 : hasRedoOf w.entries i = false) (hp : lookup w.plans i = some p)
    (hok : (ops.apply w.tree p).isOk = true) :
    stepRedo cfg ops w t = applyWithId cfg ops w (.redo i w.clock) p := by
  unfold stepRedo
  simp [hr, h1, h2, h3, hp, hok]

-- preservation ---------------------------------------------------------------------------------------

variable [DecidableEq Tree]

theorem inv_rename (cfg : Cfg) (hE : cfg.earlyDupCheck = true) (ops : Ops Tree Plan Backup H) (w : World Tree Plan Backup H) (s : Spec Tree H) (se re : Bytes)
    (hI : Inv ops w s) (hG : G10 ops w s (.rename se re) = true) :
    Conforms cfg ops w s (.rename se re) ∧
      Inv ops (step cfg ops w (.rename se re)).1 (specStep cfg ops s w (.rename se re)) := by
  have hstep : step cfg ops w (.rename se re) = stepRename cfg ops w se re := rfl
  by_cases he : ops.isEmpty (ops.scan w.tree se re) = true
  · have heq : stepRename cfg ops w se re = (w, .noop) := by unfold stepRename; simp [he]
    have hs : specStep cfg ops s w (.rename se re) = s := by unfold specStep; simp [hstep, heq]
    rw [hs]
    refine ⟨?_, ?_⟩
    · unfold Conforms; simp [hstep, heq]
    · rw [hstep, heq]; exact hI
  · by_cases hdup : hasId w.entries (.plan (ops.hash (se ++ re) w.clock)) = true
    · -- the id is already there: refused before anything is touched
      have heq : stepRename cfg ops w se re = (w, .rejected) := by
        unfold stepRename; simp [he, applyWithId_dup cfg hE ops w _ _ hdup]
      have hs : specStep cfg ops s w (.rename se re) = s := by unfold specStep; simp [hstep, heq]
      rw [hs]
      refine ⟨?_, ?_⟩
      · unfold Conforms; simp [hstep, heq]
      · rw [hstep, heq]; exact hI
    have hfresh : hasId w.entries (.plan (ops.hash (se ++ re) w.clock)) = false := by simpa using hdup
    have hG' : hasId w.entries (.plan (ops.hash (se ++ re) w.clock)) = false ∧
        isPartly (ops.apply w.tree (ops.scan w.tree se re)) = false := by
      refine ⟨hfresh, ?_⟩
      simpa [G10, he, hfresh] using hG
    cases ha : ops.apply w.tree (ops.scan w.tree se re) with
    | rejected =>
      have heq : stepRename cfg ops w se re = (w, .rejected) := by
        unfold stepRename; simp [he, applyWithId_rejected cfg ops w _ _ ha]
      have hs : specStep cfg ops s w (.rename se re) = s := by unfold specStep; simp [hstep, heq]
      rw [hs]
      refine ⟨?_, ?_⟩
      · unfold Conforms; simp [hstep, heq]
      · rw [hstep, heq]; exact hI
    | partly t' => simp [ha, isPartly] at hG'
    | ok t' b =>
      have hb : lookup w.backups (.plan (ops.hash (se ++ re) w.clock)) = none := by
        cases hl : lookup w.backups (.plan (ops.hash (se ++ re) w.clock)) with
        | none => rfl
        | some v =>
          have := hI.backupsIds (.plan (ops.hash (se ++ re) w.clock)) (by simp [hl])
          rw [hG'.1] at this; cases this
      have heq : stepRename cfg ops w se re =
          ({ clock := w.clock, tree := t',
             entries := w.entries ++ [{ id := .plan (ops.hash (se ++ re) w.clock), revertOf := none }],
             plans := put w.plans (.plan (ops.hash (se ++ re) w.clock)) (ops.scan w.tree se re),
             backups := put w.backups (.plan (ops.hash (se ++ re) w.clock)) b }, .ok) := by
        unfold stepRename; simp [he, applyWithId_ok cfg ops w _ _ t' b ha hG'.1 hb]
      have hs : specStep cfg ops s w (.rename se re) = push s (.plan (ops.hash (se ++ re) w.clock)) w.tree t' := by
        unfold specStep; simp [hstep, heq]
      rw [hs]
      have hnew : ∀ o ∈ s, o.root ≠ .plan (ops.hash (se ++ re) w.clock) := by
        intro o ho hne
        have := (hI.roots o ho).1
        rw [hne, hG'.1] at this; cases this
      refine ⟨?_, ?_⟩
      · unfold Conforms; simp only [hstep, heq]
        exact Or.inl ⟨by simp, _, rfl, hG'.1⟩
      · rw [hstep, heq]
        constructor
        · intro e he' hrev
          simp only [List.mem_append, List.mem_singleton] at he'
          rcases he' with he' | he'
          · obtain ⟨o, p, b', h1, h2, h3, h4⟩ := hI.stored e he' hrev
            have hne : e.id ≠ .plan (ops.hash (se ++ re) w.clock) := by
              intro hh
              have := (hasId_true_iff w.entries e.id).2 ⟨e, he', rfl⟩
              rw [hh, hG'.1] at this; cases this
            exact ⟨o, p, b', find_push_old s _ _ _ _ o h1, by rw [lookup_put_other _ _ _ _ hne]; exact h2,
              by rw [lookup_put_other _ _ _ _ hne]; exact h3, h4⟩
          · subst he'
            exact ⟨_, _, _, by rw [root_plan]; exact find_push_new s _ _ _ hnew, lookup_put_same _ _ _,
              lookup_put_same _ _ _, ha⟩
        · intro o ho
          unfold push at ho
          simp only [List.mem_append, List.mem_singleton] at ho
          rcases ho with ho | ho
          · exact ⟨hasId_append _ _ _ (hI.roots o ho).1, (hI.roots o ho).2⟩
          · subst ho
            exact ⟨hasId_append_new w.entries { id := .plan (ops.hash (se ++ re) w.clock), revertOf := none }, _, rfl⟩
        · intro e he' j c hid
          simp only [List.mem_append, List.mem_singleton] at he'
          rcases he' with he' | he'
          · exact hI.revForm e he' j c hid
          · subst he'; cases hid
        · intro e he' j hrev
          simp only [List.mem_append, List.mem_singleton] at he'
          rcases he' with he' | he'
          · exact hI.revOnly e he' j hrev
          · subst he'; cases hrev
        · intro i hi
          by_cases hii : i = .plan (ops.hash (se ++ re) w.clock)
          · subst hii
            exact hasId_append_new w.entries { id := .plan (ops.hash (se ++ re) w.clock), revertOf := none }
          · rw [lookup_put_other _ _ _ _ hii] at hi
            exact hasId_append _ _ _ (hI.backupsIds i hi)
        · exact status_rename w.entries s hI.status _ w.tree t' hG'.1 hnew

theorem inv_undo (cfg : Cfg) (hRI : cfg.revertIdOfRoot = false) (ops : Ops Tree Plan Backup H) (hRT : RoundTrip ops) (w : World Tree Plan Backup H) (s : Spec Tree H)
    (t : Target H) (hI : Inv ops w s) (hG : G10 ops w s (.undo t) = true) :
    Conforms cfg ops w s (.undo t) ∧ Inv ops (step cfg ops w (.undo t)).1 (specStep cfg ops s w (.undo t)) := by
  have hstep : step cfg ops w (.undo t) = stepUndo cfg ops w t := rfl
  have rejected : stepUndo cfg ops w t = (w, .rejected) →
      Conforms cfg ops w s (.undo t) ∧ Inv ops (step cfg ops w (.undo t)).1 (specStep cfg ops s w (.undo t)) := by
    intro heq
    have hs : specStep cfg ops s w (.undo t) = s := by unfold specStep; simp [hstep, heq]
    rw [hs]
    refine ⟨?_, ?_⟩
    · unfold Conforms; simp [hstep, heq]
    · rw [hstep, heq]; exact hI
  cases hr : resolve w.entries true t with
  | none => exact rejected (by unfold stepUndo; simp [hr])
  | some i =>
    by_cases hel : undoEligible w.entries i = true
    · -- the guard gives the abstract operation
      cases hfs : find s i.root with
      | none => simp [G10, hr, hel, hfs] at hG
      | some o =>
        have htree : w.tree = o.post := by simpa [G10, hr, hel, hfs] using hG
        -- the implementation's view
        unfold undoEligible at hel
        cases hf : findEntry w.entries i with
        | none => simp [hf] at hel
        | some e =>
          simp [hf] at hel
          obtain ⟨hnone, hnorev⟩ := hel
          have h1 : e.revertOf = none := by
            cases hh : e.revertOf with
            | none => rfl
            | some x => simp [hh] at hnone
          obtain ⟨hemem, heid⟩ := findEntry_some _ _ _ hf
          obtain ⟨o', p, b, ho', hp, hb, hap⟩ := hI.stored e hemem h1
          rw [heid, hfs] at ho'
          have : o' = o := by cases ho'; rfl
          subst this
          rw [heid] at hp hb
          -- an entry without a revert carries an applied operation: proved, not assumed
          have happ : o'.applied = true :=
            hI.status.unrevApplied e hemem h1 (by rw [heid]; exact hnorev) o' (by rw [heid]; exact hfs)
          have hv : ops.revert w.tree p b = .ok o'.pre := by rw [htree]; exact hRT _ _ _ _ hap
          have hd : hasId w.entries (.revert i w.clock) = false := by
            cases hh : hasId w.entries (.revert i w.clock) with
            | false => rfl
            | true =>
              obtain ⟨e', he', hid'⟩ := (hasId_true_iff _ _).1 hh
              have := hI.revForm e' he' i w.clock hid'
              have hr' : hasRevertOf w.entries i = true := by
                simp [hasRevertOf]; exact ⟨e', he', this⟩
              rw [hnorev] at hr'; cases hr'
          have heq := stepUndo_ok cfg hRI ops w t i e p b o'.pre hr hf h1 hnorev hp hb hv hd
          have hs : specStep cfg ops s w (.undo t) = setApplied s i.root false := by
            unfold specStep; simp [hstep, heq, hr]
          rw [hs]
          refine ⟨?_, ?_⟩
          · unfold Conforms; simp only [hstep, heq]
            exact Or.inl ⟨by simp, ⟨_, rfl, hd⟩, i, o', hr, hfs, happ, rfl⟩
          · rw [hstep, heq]
            constructor
            · intro e2 he2 hrev2
              simp only [List.mem_append, List.mem_singleton] at he2
              rcases he2 with he2 | he2
              · obtain ⟨o2, p2, b2, g1, g2, g3, g4⟩ := hI.stored e2 he2 hrev2
                obtain ⟨o3, k1, k2, k3, _, _⟩ := find_setApplied s i.root e2.id.root false o2 g1
                exact ⟨o3, p2, b2, k1, g2, g3, by rw [k2, k3]; exact g4⟩
              · subst he2; cases hrev2
            · intro o2 ho2
              obtain ⟨o3, ho3, hroot⟩ := mem_setApplied s _ _ o2 ho2
              rw [hroot]
              exact ⟨hasId_append _ _ _ (hI.roots o3 ho3).1, (hI.roots o3 ho3).2⟩
            · intro e2 he2 j c hid
              simp only [List.mem_append, List.mem_singleton] at he2
              rcases he2 with he2 | he2
              · exact hI.revForm e2 he2 j c hid
              · subst he2; cases hid; rfl
            · intro e2 he2 j hrev2
              simp only [List.mem_append, List.mem_singleton] at he2
              rcases he2 with he2 | he2
              · exact hI.revOnly e2 he2 j hrev2
              · subst he2; cases hrev2; exact ⟨_, rfl⟩
            · intro k hk
              exact hasId_append _ _ _ (hI.backupsIds k hk)
            · exact status_undo w.entries s hI.status i w.clock e hemem heid h1 hnorev
    · exact rejected (stepUndo_ineligible cfg ops w t i hr (by simpa using hel))

theorem inv_redo (cfg : Cfg) (hE : cfg.earlyDupCheck = true) (hR : cfg.redoOnce = true) (ops : Ops Tree Plan Backup H) (w : World Tree Plan Backup H) (s : Spec Tree H)
    (t : Target H) (hI : Inv ops w s) (hG : G10 ops w s (.redo t) = true) :
    Conforms cfg ops w s (.redo t) ∧ Inv ops (step cfg ops w (.redo t)).1 (specStep cfg ops s w (.redo t)) := by
  have hstep : step cfg ops w (.redo t) = stepRedo cfg ops w t := rfl
  have rejected : stepRedo cfg ops w t = (w, .rejected) →
      Conforms cfg ops w s (.redo t) ∧ Inv ops (step cfg ops w (.redo t)).1 (specStep cfg ops s w (.redo t)) := by
    intro heq
    have hs : specStep cfg ops s w (.redo t) = s := by unfold specStep; simp [hstep, heq]
    rw [hs]
    refine ⟨?_, ?_⟩
    · unfold Conforms; simp [hstep, heq]
    · rw [hstep, heq]; exact hI
  cases hr : resolve w.entries false t with
  | none => exact rejected (by unfold stepRedo; simp [hr])
  | some i =>
    by_cases hel : redoEligible w.entries i = true
    · cases hfs : find s i.root with
      | none => simp [G10, hr, hel, hfs] at hG
      | some o =>
        have htree : w.tree = o.pre := by simpa [G10, hr, hel, hfs] using hG
        unfold redoEligible at hel
        simp at hel
        obtain ⟨⟨hid, hrev⟩, hnoredo⟩ := hel
        obtain ⟨e, hemem, heid⟩ := (hasId_true_iff _ _).1 hid
        -- the addressed entry is not a revert: the abstract history has only plan ids as roots
        have h1 : e.revertOf = none := by
          cases hh : e.revertOf with
          | none => rfl
          | some j =>
            exfalso
            obtain ⟨c, hc⟩ := hI.revOnly e hemem j hh
            have hi : i = .revert j c := heid ▸ hc
            obtain ⟨hom, horoot⟩ := find_some s _ o hfs
            obtain ⟨_, h, hpl⟩ := hI.roots o hom
            rw [hi, root_revert] at horoot
            rw [horoot] at hpl; cases hpl
        obtain ⟨o', p, b, ho', hp, hb, hap⟩ := hI.stored e hemem h1
        rw [heid, hfs] at ho'
        have : o' = o := by cases ho'; rfl
        subst this
        rw [heid] at hp
        have ha : ops.apply w.tree p = .ok o'.post b := by rw [htree]; exact hap
        -- reverted and not redone since: the operation is undone — proved, not assumed
        have happ : o'.applied = false :=
          hI.status.revUndone e hemem h1 (by rw [heid]; exact hrev) (by rw [heid]; exact hnoredo) o'
            (by rw [heid]; exact hfs)
        by_cases hdup : hasId w.entries (.redo i w.clock) = true
        · -- same-second repetition: `redo-<id>-<sec>` is already there, refused before anything is touched
          exact rejected ((stepRedo_eligible cfg ops w t i p hr hid hrev hnoredo hp (by rw [ha]; rfl)).trans
            (applyWithId_dup cfg hE ops w _ p hdup))
        have hfresh : hasId w.entries (.redo i w.clock) = false := by simpa using hdup
        have hbk : lookup w.backups (.redo i w.clock) = none := by
          cases hl : lookup w.backups (.redo i w.clock) with
          | none => rfl
          | some v =>
            have := hI.backupsIds (.redo i w.clock) (by simp [hl])
            rw [hfresh] at this; cases this
        have heq : stepRedo cfg ops w t = _ :=
          (stepRedo_eligible cfg ops w t i p hr hid hrev hnoredo hp (by rw [ha]; rfl)).trans (applyWithId_ok cfg ops w _ p _ b ha hfresh hbk)
        have hs : specStep cfg ops s w (.redo t) = setApplied s i.root true := by
          unfold specStep; simp [hstep, heq, hr]
        rw [hs]
        refine ⟨?_, ?_⟩
        · unfold Conforms; simp only [hstep, heq]
          exact Or.inl ⟨by simp, ⟨_, rfl, hfresh⟩, i, o', hr, hfs, by simpa using happ, rfl⟩
        · rw [hstep, heq]
          constructor
          · intro e2 he2 hrev2
            simp only [List.mem_append, List.mem_singleton] at he2
            rcases he2 with he2 | he2
            · obtain ⟨o2, p2, b2, g1, g2, g3, g4⟩ := hI.stored e2 he2 hrev2
              obtain ⟨o3, k1, k2, k3, _, _⟩ := find_setApplied s i.root e2.id.root true o2 g1
              have hne : e2.id ≠ .redo i w.clock := by
                intro hh
                have := (hasId_true_iff w.entries e2.id).2 ⟨e2, he2, rfl⟩
                rw [hh, hfresh] at this; cases this
              exact ⟨o3, p2, b2, k1, by rw [lookup_put_other _ _ _ _ hne]; exact g2,
                by rw [lookup_put_other _ _ _ _ hne]; exact g3, by rw [k2, k3]; exact g4⟩
            · subst he2
              obtain ⟨o3, k1, k2, k3, _, _⟩ := find_setApplied s i.root i.root true o' hfs
              exact ⟨o3, p, b, by rw [root_redo]; exact k1, lookup_put_same _ _ _, lookup_put_same _ _ _,
                by rw [k2, k3]; exact hap⟩
          · intro o2 ho2
            obtain ⟨o3, ho3, hroot⟩ := mem_setApplied s _ _ o2 ho2
            rw [hroot]
            exact ⟨hasId_append _ _ _ (hI.roots o3 ho3).1, (hI.roots o3 ho3).2⟩
          · intro e2 he2 j c hid2
            simp only [List.mem_append, List.mem_singleton] at he2
            rcases he2 with he2 | he2
            · exact hI.revForm e2 he2 j c hid2
            · subst he2; cases hid2
          · intro e2 he2 j hrev2
            simp only [List.mem_append, List.mem_singleton] at he2
            rcases he2 with he2 | he2
            · exact hI.revOnly e2 he2 j hrev2
            · subst he2; cases hrev2
          · intro k hk
            by_cases hkk : k = .redo i w.clock
            · subst hkk
              exact hasId_append_new w.entries { id := .redo i w.clock, revertOf := none }
            · rw [lookup_put_other _ _ _ _ hkk] at hk
              exact hasId_append _ _ _ (hI.backupsIds k hk)
          · exact status_redo w.entries s hI.status i w.clock e hemem heid h1 hrev hnoredo hfresh
    · exact rejected (stepRedo_ineligible cfg hR ops w t i hr (by simpa using hel))

/-- every guarded command conforms and keeps the invariant -/
theorem inv_step (cfg : Cfg) (hE : cfg.earlyDupCheck = true) (hR : cfg.redoOnce = true) (hRI : cfg.revertIdOfRoot = false) (ops : Ops Tree Plan Backup H) (hRT : RoundTrip ops) (w : World Tree Plan Backup H) (s : Spec Tree H)
    (c : Cmd H) (hI : Inv ops w s) (hG : G10 ops w s c = true) :
    Conforms cfg ops w s c ∧ Inv ops (step cfg ops w c).1 (specStep cfg ops s w c) := by
  cases c with
  | rename se re => exact inv_rename cfg hE ops w s se re hI hG
  | undo t => exact inv_undo cfg hRI ops hRT w s t hI hG
  | redo t => exact inv_redo cfg hE hR ops w s t hI hG
  | tick =>
    refine ⟨by unfold Conforms; simp [step], ?_⟩
    have hs : specStep cfg ops s w .tick = s := by unfold specStep; simp [step]
    rw [hs]
    exact { stored := hI.stored, roots := hI.roots, revForm := hI.revForm, revOnly := hI.revOnly,
            backupsIds := hI.backupsIds, status := hI.status }

theorem guarded_conform (cfg : Cfg) (hE : cfg.earlyDupCheck = true) (hR : cfg.redoOnce = true) (hRI : cfg.revertIdOfRoot = false) (ops : Ops Tree Plan Backup H) (hRT : RoundTrip ops) (cs : List (Cmd H)) :
    ∀ (w : World Tree Plan Backup H) (s : Spec Tree H), Inv ops w s → Guarded cfg ops w s cs = true → AllConform cfg ops w s cs := by
  induction cs with
  | nil => intro w s _ _; trivial
  | cons c cs ih =>
    intro w s hI hG
    unfold Guarded at hG
    simp only [Bool.and_eq_true] at hG
    obtain ⟨h1, h2⟩ := inv_step cfg hE hR hRI ops hRT w s c hI hG.1
    exact ⟨h1, ih _ _ h2 hG.2⟩

end
end History
