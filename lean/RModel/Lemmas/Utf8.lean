import RModel.Base.Utf8
import RModel.Model.Edits
/- In valid UTF-8 the byte after an ASCII byte is never a continuation byte (so a match that ends in an
   ASCII byte ends on a character boundary). -/
namespace Utf8
open Edits

theorem inR_ge {b : UInt8} {lo hi : Nat} (h : inR b lo hi = true) : lo ≤ b.toNat ∧ b.toNat ≤ hi := by
  simpa [inR] using h

theorem ge128_of_inR {b : UInt8} {lo hi : Nat} (h : inR b lo hi = true) (hlo : 128 ≤ lo) : 128 ≤ b.toNat := by
  have := (inR_ge h).1
  omega

theorem stepLen_facts (b0 : UInt8) (rest : Bytes) (n : Nat) (h : stepLen (b0 :: rest) = .ok n) :
    1 ≤ n ∧ isCont b0 = false ∧ (b0.toNat < 128 → n = 1) ∧
    (∀ j x, 1 ≤ j → j < n → (b0 :: rest)[j]? = some x → 128 ≤ x.toNat) := by
  have hnc : ∀ {lo hi : Nat}, inR b0 lo hi = true → 0xC2 ≤ lo → isCont b0 = false ∧ ¬ b0.toNat < 128 := by
    intro lo hi hr hlo
    have := inR_ge hr
    constructor
    · simp [isCont]; omega
    · omega
  by_cases h1 : b0.toNat < 128
  · simp [stepLen, h1] at h
    subst h
    refine ⟨by omega, by simp [isCont]; omega, fun _ => rfl, by intro j x h1 h2; omega⟩
  · by_cases h2 : inR b0 0xC2 0xDF = true
    · obtain ⟨c1, c2⟩ := hnc h2 (by omega)
      cases rest with
      | nil => simp [stepLen, h1, h2] at h
      | cons b1 r1 =>
        by_cases hb1 : inR b1 0x80 0xBF = true
        · simp [stepLen, h1, h2, hb1] at h
          subst h
          refine ⟨by omega, c1, by intro hh; exact absurd hh c2, ?_⟩
          intro j x g1 g2 hx
          have : j = 1 := by omega
          subst this
          simp at hx; subst hx
          exact ge128_of_inR hb1 (by omega)
        · simp [stepLen, h1, h2, hb1] at h
    · by_cases h3 : inR b0 0xE0 0xEF = true
      · obtain ⟨c1, c2⟩ := hnc h3 (by omega)
        cases rest with
        | nil => simp [stepLen, h1, h2, h3] at h
        | cons b1 r1 =>
          by_cases hb1 : inR b1 (if b0.toNat = 0xE0 then 0xA0 else 0x80) (if b0.toNat = 0xED then 0x9F else 0xBF) = true
          · have g128 : 128 ≤ b1.toNat := ge128_of_inR hb1 (by split <;> omega)
            cases r1 with
            | nil => simp [stepLen, h1, h2, h3, hb1] at h
            | cons b2 r2 =>
              by_cases hb2 : inR b2 0x80 0xBF = true
              · simp [stepLen, h1, h2, h3, hb1, hb2] at h
                subst h
                refine ⟨by omega, c1, by intro hh; exact absurd hh c2, ?_⟩
                intro j x g1 g2 hx
                rcases (by omega : j = 1 ∨ j = 2) with rfl | rfl
                · simp at hx; subst hx; exact g128
                · simp at hx; subst hx; exact ge128_of_inR hb2 (by omega)
              · simp [stepLen, h1, h2, h3, hb1, hb2] at h
          · simp [stepLen, h1, h2, h3, hb1] at h
      · by_cases h4 : inR b0 0xF0 0xF4 = true
        · obtain ⟨c1, c2⟩ := hnc h4 (by omega)
          cases rest with
          | nil => simp [stepLen, h1, h2, h3, h4] at h
          | cons b1 r1 =>
            by_cases hb1 : inR b1 (if b0.toNat = 0xF0 then 0x90 else 0x80) (if b0.toNat = 0xF4 then 0x8F else 0xBF) = true
            · have g128 : 128 ≤ b1.toNat := ge128_of_inR hb1 (by split <;> omega)
              cases r1 with
              | nil => simp [stepLen, h1, h2, h3, h4, hb1] at h
              | cons b2 r2 =>
                by_cases hb2 : inR b2 0x80 0xBF = true
                · cases r2 with
                  | nil => simp [stepLen, h1, h2, h3, h4, hb1, hb2] at h
                  | cons b3 r3 =>
                    by_cases hb3 : inR b3 0x80 0xBF = true
                    · simp [stepLen, h1, h2, h3, h4, hb1, hb2, hb3] at h
                      subst h
                      refine ⟨by omega, c1, by intro hh; exact absurd hh c2, ?_⟩
                      intro j x g1 g2 hx
                      rcases (by omega : j = 1 ∨ j = 2 ∨ j = 3) with rfl | rfl | rfl
                      · simp at hx; subst hx; exact g128
                      · simp at hx; subst hx; exact ge128_of_inR hb2 (by omega)
                      · simp at hx; subst hx; exact ge128_of_inR hb3 (by omega)
                    · simp [stepLen, h1, h2, h3, h4, hb1, hb2, hb3] at h
                · simp [stepLen, h1, h2, h3, h4, hb1, hb2] at h
            · simp [stepLen, h1, h2, h3, h4, hb1] at h
        · simp [stepLen, h1, h2, h3, h4] at h

/-- the first byte of valid text is not a continuation byte -/
theorem validAux_head (fuel : Nat) (t : Bytes) (h : validAux fuel t = true) (b : UInt8) (hb : t[0]? = some b) :
    isCont b = false := by
  cases t with
  | nil => simp at hb
  | cons b0 rest =>
    simp at hb; subst hb
    cases fuel with
    | zero => simp [validAux] at h
    | succ f =>
      simp only [validAux] at h
      split at h
      · rename_i n hn
        exact (stepLen_facts _ _ _ hn).2.1
      · cases h

theorem validAux_after_ascii (fuel : Nat) (s : Bytes) (h : validAux fuel s = true) :
    ∀ i a b, s[i]? = some a → a.toNat < 128 → s[i + 1]? = some b → isCont b = false := by
  induction fuel generalizing s with
  | zero =>
    intro i a b ha
    simp only [validAux, List.isEmpty_iff] at h
    subst h
    simp at ha
  | succ f ih =>
    intro i a b ha hlt hb
    cases s with
    | nil => simp at ha
    | cons b0 rest =>
      simp only [validAux] at h
      split at h
      · rename_i n hn
        obtain ⟨f1, f2, f3, f4⟩ := stepLen_facts _ _ _ hn
        by_cases hin : i + 1 < n
        · -- both inside the first character
          by_cases hi0 : i = 0
          · subst hi0
            simp at ha; subst ha
            have := f3 hlt
            omega
          · have := f4 i a (by omega) (by omega) ha
            omega
        · by_cases hlast : i + 1 = n
          · by_cases hi0 : i = 0
            · subst hi0
              have hn1 : n = 1 := by omega
              subst hn1
              have : (List.drop 1 (b0 :: rest))[0]? = some b := by
                simpa using hb
              exact validAux_head f _ h b this
            · have := f4 i a (by omega) (by omega) ha
              omega
          · have hge : n ≤ i := by omega
            have ha' : (List.drop n (b0 :: rest))[i - n]? = some a := by
              rw [List.getElem?_drop]; rw [show n + (i - n) = i by omega]; exact ha
            have hb' : (List.drop n (b0 :: rest))[i - n + 1]? = some b := by
              rw [List.getElem?_drop]; rw [show n + (i - n + 1) = i + 1 by omega]; exact hb
            exact ih _ h (i - n) a b ha' hlt hb'
      · cases h

/-- In valid UTF-8, the byte that follows an ASCII byte starts a character. -/
theorem valid_after_ascii {s : Bytes} (h : valid s = true) (i : Nat) (a b : UInt8)
    (ha : s[i]? = some a) (hlt : a.toNat < 128) (hb : s[i + 1]? = some b) : isCont b = false :=
  validAux_after_ascii _ _ h i a b ha hlt hb

end Utf8
