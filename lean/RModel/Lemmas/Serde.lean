import RModel.Model.Serde
/- helper lemmas for Props/C17: the round-trip characterisation of the schema-driven (de)serialiser -/
namespace Serde

theorem skipped_value {k : Skip} {v : RVal} (h : skipped k v = true) : k.value = some v := by
  unfold skipped at h
  split at h <;> simp_all [Skip.value]

theorem skipped_never (v : RVal) : skipped .never v = false := by
  unfold skipped; split <;> simp_all

theorem mapE_ok_iff {α β ε} (f : α → Except ε β) (g : β → α) :
    ∀ (l : List β), mapE f (l.map g) = .ok l ↔ ∀ v ∈ l, f (g v) = .ok v
  | [] => by simp [mapE]
  | a :: as => by
    have ih := mapE_ok_iff f g as
    simp only [List.map, mapE, List.mem_cons, forall_eq_or_imp]
    cases hfa : f (g a) with
    | error e => simp
    | ok b =>
      cases hm : mapE f (as.map g) with
      | error e =>
        simp only [reduceCtorEq, false_iff, not_and]
        intro _ hall
        rw [ih.mpr hall] at hm
        cases hm
      | ok bs =>
        simp only [Except.ok.injEq, List.cons.injEq]
        constructor
        · rintro ⟨rfl, rfl⟩; exact ⟨rfl, ih.mp hm⟩
        · rintro ⟨h1, h2⟩
          have := ih.mpr h2
          rw [this] at hm
          cases hm
          exact ⟨h1, rfl⟩

def keys (kvs : List (Bytes × J)) : List Bytes := kvs.map Prod.fst

theorem lookup_append_hit (n : Bytes) (j : J) (pre rest : List (Bytes × J)) (h : n ∉ keys pre) :
    lookup n (pre ++ (n, j) :: rest) = some j := by
  induction pre with
  | nil => simp [lookup]
  | cons p pre ih =>
    obtain ⟨k, x⟩ := p
    simp only [keys, List.map, List.mem_cons, not_or] at h
    have hk : (k == n) = false := by
      simp only [beq_eq_false_iff_ne, ne_eq]; exact fun e => h.1 e.symm
    simp only [List.cons_append, lookup, hk]
    exact ih h.2

theorem lookup_none (n : Bytes) (kvs : List (Bytes × J)) (h : n ∉ keys kvs) : lookup n kvs = none := by
  induction kvs with
  | nil => simp [lookup]
  | cons p kvs ih =>
    obtain ⟨k, x⟩ := p
    simp only [keys, List.map, List.mem_cons, not_or] at h
    have hk : (k == n) = false := by
      simp only [beq_eq_false_iff_ne, ne_eq]; exact fun e => h.1 e.symm
    simp only [lookup, hk]
    exact ih h.2

theorem keys_serFields_subset : ∀ (fs : List Field) (vs : List RVal) (k : Bytes),
    k ∈ keys (serFields fs vs) → k ∈ fieldNames fs
  | [], _, k, h => by simp [serFields, keys] at h
  | .mk n t s m :: fs, [], k, h => by simp [serFields, keys] at h
  | .mk n t s m :: fs, v :: vs, k, h => by
    simp only [serFields] at h
    simp only [fieldNames, Field.name, List.mem_cons]
    split at h
    · exact Or.inr (keys_serFields_subset fs vs k h)
    · simp only [keys, List.map, List.mem_cons] at h
      cases h with
      | inl h => exact Or.inl h
      | inr h => exact Or.inr (keys_serFields_subset fs vs k h)

theorem unknownKey_none (names : List Bytes) :
    ∀ (kvs : List (Bytes × J)), (∀ k ∈ keys kvs, k ∈ names) → unknownKey names kvs = none
  | [], _ => rfl
  | (k, j) :: rest, h => by
    have hk : names.contains k = true := by
      simp only [List.contains_eq_mem, decide_eq_true_eq]
      exact h k (by simp [keys])
    simp only [unknownKey, hk, if_true]
    exact unknownKey_none names rest (fun k' hk' => h k' (by simp only [keys, List.map, List.mem_cons]; exact Or.inr hk'))

theorem nodupB_cons {x : Bytes} {xs : List Bytes} (h : nodupB (x :: xs) = true) : x ∉ xs ∧ nodupB xs = true := by
  simp only [nodupB, Bool.and_eq_true, Bool.not_eq_true', List.contains_eq_mem, decide_eq_false_iff_not] at h
  exact h

theorem indexOf_getD : ∀ (names : List Bytes) (i : Nat), nodupB names = true → i < names.length →
    indexOf (names.getD i []) names = some i
  | [], i, _, h => by simp at h
  | x :: xs, 0, _, _ => by simp [indexOf]
  | x :: xs, i + 1, hn, hi => by
    obtain ⟨hx, hxs⟩ := nodupB_cons hn
    have hi' : i < xs.length := by simpa using hi
    have ih := indexOf_getD xs i hxs hi'
    have hmem : xs.getD i [] ∈ xs := by
      rw [List.getD_eq_getElem?_getD, List.getElem?_eq_getElem hi']
      simp
    have hne : (x == xs.getD i []) = false := by
      simp only [beq_eq_false_iff_ne, ne_eq]
      intro e; exact hx (e ▸ hmem)
    simp only [List.getD_cons_succ, indexOf, hne, ih]
    simp

theorem ser_not_null (t : Ty) (v : RVal) (ht : t.isOpt = false) (hw : wellTyped t v = true) :
    (ser t v).isNull = false := by
  cases t <;> simp only [Ty.isOpt, Bool.true_eq_false] at ht <;>
    (unfold wellTyped at hw; unfold ser; split at hw <;> simp_all [J.isNull])

theorem keys_append (a b : List (Bytes × J)) : keys (a ++ b) = keys a ++ keys b := by
  simp [keys]

theorem okMap_eq_iff {α β ε} (x : Except ε α) (f : α → β) (hf : ∀ a b, f a = f b → a = b) (a0 : α) :
    okMap f x = .ok (f a0) ↔ x = .ok a0 := by
  cases x with
  | error e => simp [okMap]
  | ok a =>
    simp only [okMap, Except.ok.injEq]
    exact ⟨hf a a0, fun h => by rw [h]⟩

theorem okMap_cons_iff {α ε} (x : Except ε (List α)) (v v0 : α) (vs0 : List α) :
    okMap (v :: ·) x = .ok (v0 :: vs0) ↔ v = v0 ∧ x = .ok vs0 := by
  cases x with
  | error e => simp [okMap]
  | ok a => simp [okMap]

mutual
theorem roundtrip_iff : ∀ (t : Ty) (v : RVal), wf t = true → wellTyped t v = true →
    (de t (ser t v) = .ok v ↔ guard t v = true)
  | .str, v, _, hw => by cases v <;> simp_all [wellTyped, ser, de, guard]
  | .path, v, _, hw => by cases v <;> simp_all [wellTyped, ser, de, guard]
  | .num, v, _, hw => by cases v <;> simp_all [wellTyped, ser, de, guard]
  | .bool, v, _, hw => by cases v <;> simp_all [wellTyped, ser, de, guard]
  | .enum _ names, v, hwf, hw => by
    cases v <;> simp only [wellTyped, Bool.false_eq_true, decide_eq_true_eq] at hw
    simp only [wf] at hwf
    simp only [ser, de, guard]
    rw [indexOf_getD names _ hwf hw]
    simp
  | .opt t, v, hwf, hw => by
    simp only [wf, Bool.and_eq_true, Bool.not_eq_true'] at hwf
    cases v <;> simp only [wellTyped, Bool.false_eq_true] at hw
    · simp [ser, de, guard, J.isNull]
    · rename_i x
      have ih := roundtrip_iff t x hwf.2 hw
      have hnn := ser_not_null t x hwf.1 hw
      simp only [ser, de, guard, hnn, Bool.false_eq_true, if_false]
      rw [← ih]
      exact okMap_eq_iff (de t (ser t x)) RVal.some (fun a b h => by cases h; rfl) x
  | .vec t, v, hwf, hw => by
    simp only [wf] at hwf
    cases v <;> simp only [wellTyped, Bool.false_eq_true, List.all_eq_true] at hw
    rename_i vs
    simp only [ser, de, guard, List.all_eq_true]
    rw [okMap_eq_iff (mapE (de t) (vs.map (ser t))) RVal.list (fun a b h => by cases h; rfl) vs,
        mapE_ok_iff]
    exact ⟨fun h x hx => (roundtrip_iff t x hwf (hw x hx)).mp (h x hx),
           fun h x hx => (roundtrip_iff t x hwf (hw x hx)).mpr (h x hx)⟩
  | .map t, v, hwf, hw => by
    simp only [wf] at hwf
    cases v <;> simp only [wellTyped, Bool.false_eq_true, Bool.and_eq_true, beq_iff_eq, List.all_eq_true] at hw
    rename_i ks vs
    have h1 : (ks.zip (vs.map (ser t))).map Prod.snd = vs.map (ser t) :=
      List.map_snd_zip (by simp [hw.1])
    have h2 : (ks.zip (vs.map (ser t))).map Prod.fst = ks :=
      List.map_fst_zip (by simp [hw.1])
    simp only [ser, de, guard, List.all_eq_true, h1, h2]
    rw [okMap_eq_iff (mapE (de t) (vs.map (ser t))) (RVal.map ks) (fun a b h => by cases h; rfl) vs,
        mapE_ok_iff]
    exact ⟨fun h x hx => (roundtrip_iff t x hwf (hw.2 x hx)).mp (h x hx),
           fun h x hx => (roundtrip_iff t x hwf (hw.2 x hx)).mpr (h x hx)⟩
  | .pair a b, v, hwf, hw => by
    simp only [wf, Bool.and_eq_true] at hwf
    unfold wellTyped at hw
    split at hw
    · rename_i x y
      simp only [Bool.and_eq_true] at hw
      have iha := roundtrip_iff a x hwf.1 hw.1
      have ihb := roundtrip_iff b y hwf.2 hw.2
      simp only [ser, de, guard, Bool.and_eq_true, ← iha, ← ihb]
      cases hx : de a (ser a x) with
      | error e => simp
      | ok x' =>
        cases hy : de b (ser b y) with
        | error e => simp
        | ok y' => simp
    · cases hw
  | .struct _ deny fs, v, hwf, hw => by
    simp only [wf, Bool.and_eq_true] at hwf
    cases v <;> simp only [wellTyped, Bool.false_eq_true] at hw
    rename_i vs
    have hu : (if deny = true then unknownKey (fieldNames fs) (serFields fs vs) else none) = none := by
      split
      · exact unknownKey_none _ _ (keys_serFields_subset fs vs)
      · rfl
    have ih := fields_iff fs vs [] hwf.1 hwf.2 hw (by simp [keys])
    simp only [List.nil_append] at ih
    simp only [ser, de, guard, hu, ← ih]
    exact okMap_eq_iff (deFields fs (serFields fs vs)) RVal.record (fun a b h => by cases h; rfl) vs
theorem fields_iff : ∀ (fs : List Field) (vs : List RVal) (pre : List (Bytes × J)),
    nodupB (fieldNames fs) = true → wfFields fs = true → wellTypedFields fs vs = true →
    (∀ k ∈ keys pre, k ∉ fieldNames fs) →
    (deFields fs (pre ++ serFields fs vs) = .ok vs ↔ guardFields fs vs = true)
  | [], vs, pre, _, _, hw, _ => by
    simp only [wellTypedFields, List.isEmpty_iff] at hw
    simp [hw, deFields, guardFields]
  | .mk n t k m :: fs, [], pre, _, _, hw, _ => by simp [wellTypedFields] at hw
  | .mk n t k m :: fs, v :: vs, pre, hnd, hwf, hw, hpre => by
    simp only [fieldNames, Field.name] at hnd hpre
    obtain ⟨hn, hnd'⟩ := nodupB_cons hnd
    simp only [wfFields, wellTypedFields, Bool.and_eq_true] at hwf hw
    have hnpre : n ∉ keys pre := fun h => hpre n h (by simp)
    cases hs : skipped k v with
    | true =>
      have hl : lookup n (pre ++ serFields fs vs) = none := by
        apply lookup_none
        rw [keys_append, List.mem_append, not_or]
        exact ⟨hnpre, fun h => hn (keys_serFields_subset fs vs n h)⟩
      have ih := fields_iff fs vs pre hnd' hwf.2 hw.2
        (fun k hk hk' => hpre k hk (by simp only [List.mem_cons]; exact Or.inr hk'))
      simp only [serFields, hs, if_true, deFields, hl, guardFields, Bool.and_eq_true, decide_eq_true_eq, ← ih]
      cases hm : missingValue t m with
      | none => simp
      | some mv =>
        simp only [Option.some.injEq]
        exact okMap_cons_iff _ mv v vs
    | false =>
      have hl : lookup n (pre ++ (n, ser t v) :: serFields fs vs) = some (ser t v) :=
        lookup_append_hit n _ pre _ hnpre
      have ih := fields_iff fs vs (pre ++ [(n, ser t v)]) hnd' hwf.2 hw.2 (by
        intro k hk hk'
        rw [keys_append, List.mem_append] at hk
        cases hk with
        | inl hk => exact hpre k hk (by simp only [List.mem_cons]; exact Or.inr hk')
        | inr hk =>
          simp only [keys, List.map, List.mem_cons, List.not_mem_nil, or_false] at hk
          exact hn (hk ▸ hk'))
      rw [List.append_assoc, List.singleton_append] at ih
      have iht := roundtrip_iff t v hwf.1 hw.1
      simp only [serFields, hs, Bool.false_eq_true, if_false, deFields, hl, guardFields, Bool.and_eq_true,
        ← ih, ← iht]
      cases hd : de t (ser t v) with
      | error e => simp
      | ok v' =>
        simp only [Except.ok.injEq]
        exact okMap_cons_iff _ v' v vs
end


/-- unfolding of `fieldOk` at a skipped, well-typed value -/
theorem fieldOk_skipped {t : Ty} {k : Skip} {m : Missing} {v : RVal}
    (hok : fieldOk t k m = true) (hs : skipped k v = true) (hw : wellTyped t v = true) :
    missingValue t m = some v := by
  have hv := skipped_value hs
  simp only [fieldOk, hv, hw, Bool.not_true, Bool.false_or, decide_eq_true_eq] at hok
  exact hok

mutual
theorem guard_of_guardOn (bad : List (Bytes × Bytes)) : ∀ (t : Ty) (v : RVal),
    (∀ p ∈ offending t, bad.contains p = true) → wellTyped t v = true → guardOn bad t v = true →
    guard t v = true
  | .str, v, _, _, _ => by simp [guard]
  | .path, v, _, _, _ => by simp [guard]
  | .num, v, _, _, _ => by simp [guard]
  | .bool, v, _, _, _ => by simp [guard]
  | .enum _ _, v, _, _, _ => by simp [guard]
  | .opt t, v, ho, hw, hg => by
    simp only [offending] at ho
    cases v <;> simp only [guard]
    rename_i x
    simp only [wellTyped] at hw
    simp only [guardOn] at hg
    exact guard_of_guardOn bad t x ho hw hg
  | .vec t, v, ho, hw, hg => by
    simp only [offending] at ho
    cases v <;> simp only [guard]
    rename_i vs
    simp only [wellTyped, List.all_eq_true] at hw
    simp only [guardOn, List.all_eq_true] at hg
    simp only [List.all_eq_true]
    exact fun x hx => guard_of_guardOn bad t x ho (hw x hx) (hg x hx)
  | .map t, v, ho, hw, hg => by
    simp only [offending] at ho
    cases v <;> simp only [guard]
    rename_i ks vs
    simp only [wellTyped, Bool.and_eq_true, List.all_eq_true] at hw
    simp only [guardOn, List.all_eq_true] at hg
    simp only [List.all_eq_true]
    exact fun x hx => guard_of_guardOn bad t x ho (hw.2 x hx) (hg x hx)
  | .pair a b, v, ho, hw, hg => by
    simp only [offending, List.mem_append] at ho
    unfold guard
    split
    · rename_i x y
      simp only [wellTyped, Bool.and_eq_true] at hw
      simp only [guardOn, Bool.and_eq_true] at hg
      simp only [Bool.and_eq_true]
      exact ⟨guard_of_guardOn bad a x (fun p hp => ho p (Or.inl hp)) hw.1 hg.1,
             guard_of_guardOn bad b y (fun p hp => ho p (Or.inr hp)) hw.2 hg.2⟩
    · rfl
  | .struct sn _ fs, v, ho, hw, hg => by
    simp only [offending] at ho
    cases v <;> simp only [guard]
    rename_i vs
    simp only [wellTyped] at hw
    simp only [guardOn] at hg
    exact guardFields_of_guardOn bad sn fs vs ho hw hg
theorem guardFields_of_guardOn (bad : List (Bytes × Bytes)) (sn : Bytes) : ∀ (fs : List Field) (vs : List RVal),
    (∀ p ∈ offendingFields sn fs, bad.contains p = true) → wellTypedFields fs vs = true →
    guardOnFields bad sn fs vs = true → guardFields fs vs = true
  | [], _, _, _, _ => by simp [guardFields]
  | .mk n t k m :: fs, [], _, _, _ => by simp [guardFields]
  | .mk n t k m :: fs, v :: vs, ho, hw, hg => by
    simp only [offendingFields, List.mem_append] at ho
    simp only [wellTypedFields, Bool.and_eq_true] at hw
    simp only [guardOnFields, Bool.and_eq_true] at hg
    simp only [guardFields, Bool.and_eq_true]
    refine ⟨?_, guardFields_of_guardOn bad sn fs vs (fun p hp => ho p (Or.inr (Or.inr hp))) hw.2 hg.2⟩
    cases hs : skipped k v with
    | true =>
      simp only [hs, if_true, Bool.not_eq_true'] at hg
      simp only [if_true, decide_eq_true_eq]
      cases hok : fieldOk t k m with
      | true => exact fieldOk_skipped hok hs hw.1
      | false =>
        have := ho (sn, n) (Or.inl (by simp [hok]))
        rw [this] at hg
        cases hg.1
    | false =>
      simp only [hs, Bool.false_eq_true, if_false] at hg
      simp only [Bool.false_eq_true, if_false]
      exact guard_of_guardOn bad t v (fun p hp => ho p (Or.inr (Or.inl hp))) hw.1 hg.1
end

mutual
theorem guardOn_nil : ∀ (t : Ty) (v : RVal), guardOn [] t v = true
  | .str, v | .path, v | .num, v | .bool, v | .enum _ _, v => by simp [guardOn]
  | .opt t, v => by
    cases v <;> simp only [guardOn]
    exact guardOn_nil t _
  | .vec t, v => by
    cases v <;> simp only [guardOn, List.all_eq_true]
    exact fun x _ => guardOn_nil t x
  | .map t, v => by
    cases v <;> simp only [guardOn, List.all_eq_true]
    exact fun x _ => guardOn_nil t x
  | .pair a b, v => by
    unfold guardOn
    split
    · simp only [Bool.and_eq_true]; exact ⟨guardOn_nil a _, guardOn_nil b _⟩
    · rfl
  | .struct sn _ fs, v => by
    cases v <;> simp only [guardOn]
    exact guardOnFields_nil sn fs _
theorem guardOnFields_nil (sn : Bytes) : ∀ (fs : List Field) (vs : List RVal), guardOnFields [] sn fs vs = true
  | [], _ => by simp [guardOnFields]
  | .mk n t k m :: fs, [] => by simp [guardOnFields]
  | .mk n t k m :: fs, v :: vs => by
    simp only [guardOnFields, Bool.and_eq_true]
    refine ⟨?_, guardOnFields_nil sn fs vs⟩
    split
    · simp
    · exact guardOn_nil t v
end

/-- the guarded round-trip: schema fine except for the fields in `bad`, and none of those is skipped in `v` -/
theorem roundtrip_of_schemaOkExcept (bad : List (Bytes × Bytes)) (t : Ty) (v : RVal)
    (hs : SchemaOkExcept bad t = true) (hw : wellTyped t v = true) (hg : guardOn bad t v = true) :
    de t (ser t v) = .ok v := by
  simp only [SchemaOkExcept, Bool.and_eq_true, List.all_eq_true] at hs
  exact (roundtrip_iff t v hs.1 hw).mpr (guard_of_guardOn bad t v hs.2 hw hg)

theorem schemaOkExcept_nil (t : Ty) : SchemaOkExcept [] t = SchemaOk t := by
  simp only [SchemaOkExcept, SchemaOk]
  cases offending t <;> simp

theorem roundtrip_of_schemaOk (t : Ty) (hs : SchemaOk t = true) (v : RVal) (hw : wellTyped t v = true) :
    de t (ser t v) = .ok v :=
  roundtrip_of_schemaOkExcept [] t v (by rw [schemaOkExcept_nil]; exact hs) hw (guardOn_nil t v)

end Serde
