import RModel.Lemmas.LineMatch
/-
  C06 lemmas, part 5: the scanner's `VariantMap` (lookup after a sequence of inserts, `get`), the boundary test and the
  immediate context on neutral delimiters, `str::find`, the first-letter fix-up.
-/
open B CaseModel

namespace LinePipeline

-- VariantMap ---------------------------------------------------------------------------------------------------------------

/-- the entries stored under a key (`[]` when the key is absent) -/
def SMap.entries (m : SMap) (k : Bytes) : List (Option Style × Bytes) := (m.lookup k).getD []

theorem entries_insert (m : SMap) (k : Bytes) (st : Option Style) (v : Bytes) (k' : Bytes) :
    (m.insert k st v).entries k' = if k' == k then m.entries k ++ [(st, v)] else m.entries k' := by
  induction m with
  | nil =>
    by_cases h : (k' == k) = true
    · simp [SMap.insert, SMap.entries, List.lookup, h]
    · simp [SMap.insert, SMap.entries, List.lookup, h]
  | cons e m ih =>
    obtain ⟨k0, l⟩ := e
    simp only [SMap.insert]
    by_cases h0 : (k == k0) = true
    · have hk : k = k0 := by simpa using h0
      subst hk
      by_cases h : (k' == k) = true
      · simp [SMap.entries, List.lookup, h]
      · simp [SMap.entries, List.lookup, h]
    · simp only [h0, Bool.false_eq_true, ↓reduceIte]
      by_cases h : (k' == k) = true
      · have hk : k' = k := by simpa using h
        subst hk
        simp only [SMap.entries, List.lookup, h0, beq_self_eq_true, ↓reduceIte] at ih ⊢
        exact ih
      · simp only [h, Bool.false_eq_true, ↓reduceIte] at ih ⊢
        by_cases h1 : (k' == k0) = true
        · simp [SMap.entries, List.lookup, h1]
        · simp only [SMap.entries, List.lookup, h1] at ih ⊢
          exact ih

def entriesOf (k : Bytes) (ins : List (Bytes × Option Style × Bytes)) : List (Option Style × Bytes) :=
  (ins.filter (fun e => k == e.1)).map (fun e => (e.2.1, e.2.2))

theorem entries_foldl (k : Bytes) : ∀ (ins : List (Bytes × Option Style × Bytes)) (m : SMap),
    (ins.foldl (fun m e => m.insert e.1 e.2.1 e.2.2) m).entries k = m.entries k ++ entriesOf k ins
  | [], m => by simp [entriesOf]
  | e :: ins, m => by
    rw [List.foldl_cons, entries_foldl k ins, entries_insert]
    by_cases h : (k == e.1) = true
    · have : k = e.1 := by simpa using h
      simp [entriesOf, List.filter_cons, h, this]
    · simp [entriesOf, List.filter_cons, h]

theorem keys_insert (m : SMap) (k : Bytes) (st : Option Style) (v : Bytes) (k' : Bytes) :
    k' ∈ (m.insert k st v).map (·.1) ↔ k' = k ∨ k' ∈ m.map (·.1) := by
  induction m with
  | nil => simp [SMap.insert]
  | cons e m ih =>
    obtain ⟨k0, l⟩ := e
    simp only [SMap.insert]
    by_cases h0 : (k == k0) = true
    · have hk : k = k0 := by simpa using h0
      subst hk
      simp
    · simp only [h0, Bool.false_eq_true, ↓reduceIte, List.map_cons, List.mem_cons, ih]
      constructor
      · rintro (h | h | h)
        · exact Or.inr (Or.inl h)
        · exact Or.inl h
        · exact Or.inr (Or.inr h)
      · rintro (h | h | h)
        · exact Or.inr (Or.inl h)
        · exact Or.inl h
        · exact Or.inr (Or.inr h)

theorem keys_foldl (k : Bytes) : ∀ (ins : List (Bytes × Option Style × Bytes)) (m : SMap),
    k ∈ (ins.foldl (fun m e => m.insert e.1 e.2.1 e.2.2) m).map (·.1) ↔ k ∈ m.map (·.1) ∨ ∃ e ∈ ins, e.1 = k
  | [], m => by simp
  | e :: ins, m => by
    rw [List.foldl_cons, keys_foldl k ins, keys_insert]
    constructor
    · rintro ((h | h) | ⟨e', he', h⟩)
      · exact Or.inr ⟨e, List.mem_cons_self .., h.symm⟩
      · exact Or.inl h
      · exact Or.inr ⟨e', List.mem_cons_of_mem _ he', h⟩
    · rintro (h | ⟨e', he', h⟩)
      · exact Or.inl (Or.inr h)
      · rcases List.mem_cons.mp he' with rfl | he'
        · exact Or.inl (Or.inl h.symm)
        · exact Or.inr ⟨e', he', h⟩

theorem mem_insertSorted {k x : Bytes} : ∀ {l : List Bytes}, x ∈ insertSorted k l ↔ x = k ∨ x ∈ l
  | [] => by simp [insertSorted]
  | y :: ys => by
    simp only [insertSorted]
    split
    · simp
    · simp only [List.mem_cons, mem_insertSorted (l := ys)]
      constructor
      · rintro (h | h | h)
        · exact Or.inr (Or.inl h)
        · exact Or.inl h
        · exact Or.inr (Or.inr h)
      · rintro (h | h | h)
        · exact Or.inr (Or.inl h)
        · exact Or.inl h
        · exact Or.inr (Or.inr h)

theorem mem_keys {m : SMap} {k : Bytes} : k ∈ m.keys ↔ k ∈ m.map (·.1) := by
  unfold SMap.keys
  generalize m.map (·.1) = l
  induction l with
  | nil => simp
  | cons a l ih => rw [List.foldr_cons, mem_insertSorted, ih, List.mem_cons]

/-- `get` returns the common value of the entries of a key -/
theorem get_of_entries {m : SMap} {k v : Bytes} (hne : m.entries k ≠ []) (hall : ∀ e ∈ m.entries k, e.2 = v) :
    m.get k = some v := by
  unfold SMap.entries at hne hall
  unfold SMap.get
  cases hl : m.lookup k with
  | none => rw [hl] at hne; exact absurd rfl hne
  | some l =>
    rw [hl] at hne hall
    simp only [Option.getD_some] at hne hall
    match l, hne, hall with
    | [e], _, hall => simp [hall e (List.mem_singleton.mpr rfl)]
    | e :: e' :: l', _, hall =>
      simp only []
      split
      · rename_i e'' hf
        rw [hall e'' (List.mem_of_find?_eq_some hf)]
      · simp [hall e (List.mem_cons_self ..)]

-- boundary ---------------------------------------------------------------------------------------------------------------------

theorem neutral_facts {c : UInt8} (h : neutralByte c = true) :
    spaceSide c = true ∧ isAlnum c = false ∧ isIdentChar c = false := by
  simp only [neutralByte, Bool.and_eq_true, decide_eq_true_eq, Bool.not_eq_true', bne_iff_ne, ne_eq] at h
  obtain ⟨⟨h2, h3⟩, h4⟩ := h
  refine ⟨?_, h2, ?_⟩
  · simp only [spaceSide, h2, Bool.not_false, Bool.true_and, Bool.or_eq_true, Bool.and_eq_true, bne_iff_ne, ne_eq]
    exact Or.inr ⟨h3, h4⟩
  · simp only [isIdentChar, h2, Bool.false_or, Bool.or_eq_false_iff, beq_eq_false_iff_ne, ne_eq]
    exact ⟨h4, h3⟩

theorem isBoundary_of_sides {bytes : Bytes} {start stop : Nat}
    (hl : start = 0 ∨ ∃ p, bytes[start - 1]? = some p ∧ neutralByte p = true)
    (hr : bytes[stop]? = none ∨ ∃ n, bytes[stop]? = some n ∧ neutralByte n = true) :
    isBoundary bytes start stop = true := by
  unfold isBoundary
  simp only [Bool.and_eq_true]
  constructor
  · rcases hl with h0 | ⟨p, hp, hn⟩
    · simp [h0]
    · obtain ⟨h1, h2, _⟩ := neutral_facts hn
      by_cases h0 : start = 0
      · simp [h0]
      · simp only [h0, ↓reduceIte, hp]
        split <;> simp [h1, h2]
  · rcases hr with h0 | ⟨n, hp, hn⟩
    · simp [h0]
    · obtain ⟨h1, h2, _⟩ := neutral_facts hn
      simp only [hp]
      split <;> simp [h1, h2]

theorem getElem?_mid (d₁ x d₂ : Bytes) : (d₁ ++ x ++ d₂)[d₁.length + x.length]? = d₂.head? := by
  rw [List.append_assoc, List.getElem?_append_right (by omega)]
  rw [show d₁.length + x.length - d₁.length = x.length by omega, List.getElem?_append_right (by omega)]
  simp [List.head?_eq_getElem?]

theorem isBoundary_neutral {d₁ x d₂ : Bytes} (h1 : NeutralDelim d₁) (h2 : NeutralDelim d₂) :
    isBoundary (d₁ ++ x ++ d₂) d₁.length (d₁.length + x.length) = true := by
  apply isBoundary_of_sides
  · by_cases h0 : d₁.length = 0
    · exact Or.inl h0
    · right
      have hlt : d₁.length - 1 < d₁.length := by omega
      refine ⟨d₁[d₁.length - 1], ?_, h1 _ (List.getElem_mem hlt)⟩
      rw [List.append_assoc, List.getElem?_append_left hlt, List.getElem?_eq_getElem hlt]
  · rw [getElem?_mid]
    cases d₂ with
    | nil => exact Or.inl rfl
    | cons c d => exact Or.inr ⟨c, rfl, h2 c (List.mem_cons_self ..)⟩

-- immediate context, str::find -------------------------------------------------------------------------------------------------

theorem takeWhile_nil_of_all {p : UInt8 → Bool} : ∀ {l : Bytes}, (∀ c ∈ l, p c = false) → l.takeWhile p = []
  | [], _ => rfl
  | c :: l, h => by simp [List.takeWhile, h c (List.mem_cons_self ..)]

theorem immediateContext_neutral {d₁ x d₂ : Bytes} (h1 : NeutralDelim d₁) (h2 : NeutralDelim d₂) :
    immediateContext (d₁ ++ x ++ d₂) d₁.length (d₁.length + x.length) = x := by
  unfold immediateContext
  have t1 : (d₁ ++ x ++ d₂).take d₁.length = d₁ := by rw [List.append_assoc, List.take_left']; rfl
  have t2 : (d₁ ++ x ++ d₂).take (d₁.length + x.length) = d₁ ++ x := by
    rw [← List.length_append, List.take_left']; rfl
  have t3 : (d₁ ++ x ++ d₂).drop (d₁.length + x.length) = d₂ := by
    rw [← List.length_append, List.drop_left']; rfl
  simp only [t1, t2, t3, List.drop_left']
  rw [takeWhile_nil_of_all (fun c hc => (neutral_facts (h1 c (List.mem_reverse.mp hc))).2.2),
    takeWhile_nil_of_all (fun c hc => (neutral_facts (h2 c hc)).2.2)]
  simp

theorem find_go_skip {x : Bytes} (hne : x ≠ []) : ∀ (d rest : Bytes) (i : Nat), (∀ c ∈ d, x.head? ≠ some c) →
    find.go x (d ++ rest) i = find.go x rest (i + d.length)
  | [], _, _, _ => by simp
  | c :: d, rest, i, h => by
    obtain ⟨a, x', rfl⟩ := List.exists_cons_of_ne_nil hne
    have hca : ¬ a = c := fun hac => h c (List.mem_cons_self ..) (by rw [hac]; rfl)
    rw [List.cons_append, find.go]
    have : (a :: x').isPrefixOf (c :: (d ++ rest)) = false := by
      simp [List.isPrefixOf, hca]
    simp only [this, Bool.false_eq_true, ↓reduceIte]
    rw [find_go_skip (by simp) d rest (i + 1) (fun c' hc' => h c' (List.mem_cons_of_mem _ hc'))]
    simp only [List.length_cons]; congr 1; omega

theorem findSub_occurrence {d₁ x d₂ : Bytes} (hne : x ≠ []) (h : ∀ c ∈ d₁, x.head? ≠ some c) :
    findSub (d₁ ++ x ++ d₂) x = some d₁.length := by
  unfold findSub find
  rw [List.append_assoc, find_go_skip hne d₁ _ 0 h]
  obtain ⟨a, x', rfl⟩ := List.exists_cons_of_ne_nil hne
  rw [List.cons_append, find.go]
  have : (a :: x').isPrefixOf (a :: (x' ++ d₂)) = true := by
    rw [← List.cons_append]; exact List.isPrefixOf_iff_prefix.mpr (List.prefix_append _ _)
  simp [this]

/-- the coercion context is looked up at the occurrence, whichever of the two lookups the source uses -/
theorem contextPos_occurrence {d₁ x d₂ : Bytes} (hne : x ≠ []) (h : ∀ c ∈ d₁, x.head? ≠ some c) :
    contextPos (d₁ ++ x ++ d₂) d₁.length x = some d₁.length := by
  unfold contextPos
  have hp : x.isPrefixOf ((d₁ ++ x ++ d₂).drop d₁.length) = true := by
    rw [List.append_assoc, List.drop_left']
    · rw [List.isPrefixOf_iff_prefix]; exact List.prefix_append x d₂
    · rfl
  rw [hp, Bool.and_true]
  split
  · rfl
  · exact findSub_occurrence hne h

-- first-letter fix-up ------------------------------------------------------------------------------------------------------

/-- same style on both sides: the fix-up has nothing to do -/
theorem fixFirst_same_style {A : Acr} {c d : UInt8} {w v : Bytes} {ws vs : List Bytes} (st : Style)
    (hc : isAlpha c = true) (hd : isAlpha d = true) :
    fixFirst (toStyle A ((c :: w) :: ws) st) (toStyle A ((d :: v) :: vs) st) = toStyle A ((d :: v) :: vs) st := by
  obtain ⟨e, r, he, hu⟩ := toStyle_first (A := A) w ws st hc
  obtain ⟨e', r', he', hu'⟩ := toStyle_first (A := A) v vs st hd
  rw [he, he']
  unfold fixFirst
  simp only [List.head?_cons]
  by_cases hs : styleUpper st = true
  · rw [hs] at hu'
    simp [upper_not_lower hu']
  · simp only [Bool.not_eq_true] at hs
    rw [hs] at hu
    simp [hu]

end LinePipeline
