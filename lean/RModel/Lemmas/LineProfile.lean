import RModel.Lemmas.LineResolver
/-
  C06 lemmas, part 3: the *profile* of a text (which separators, upper/lower-case letters, first letter, an upper-case letter
  after the first) decides, through the generated constraint table, which styles can be compatible with it.  The renderings
  of a multi-word term have a fixed profile per style, so "how many styles are compatible with the rendering in style `st`"
  becomes a finite computation over the table.
-/
open B CaseModel

namespace LinePipeline

structure Profile where
  u : Bool        -- contains `_`
  h : Bool        -- contains `-`
  d : Bool        -- contains `.`
  s : Bool        -- contains a space
  up : Bool       -- some upper-case letter
  lo : Bool       -- some lower-case letter
  firstUp : Bool
  firstLo : Bool
  tailUp : Bool   -- some upper-case letter after the first byte
  deriving DecidableEq, Repr

def HasProfile (x : Bytes) (p : Profile) : Prop :=
  contains x 95 = p.u ∧ contains x 45 = p.h ∧ contains x 46 = p.d ∧ contains x 32 = p.s ∧
  x.any isUpper = p.up ∧ x.any isLower = p.lo ∧
  ∃ c cs, x = c :: cs ∧ isUpper c = p.firstUp ∧ isLower c = p.firstLo ∧ cs.any isUpper = p.tailUp

def Profile.has (p : Profile) (s : UInt8) : Bool :=
  if s == 95 then p.u else if s == 45 then p.h else if s == 46 then p.d else if s == 32 then p.s else false

/-- necessary condition for `check_separator_constraints` -/
def sepNec (p : Profile) (sep : Option UInt8) : Bool :=
  Gen.allSeparators.all (fun s => (sep == some s) || !p.has s)

/-- scanning a text word by word (words = maximal space-free runs): some byte after the first is an upper-case letter
    inside a word, or a byte right after a space is not an upper-case letter.  `a` is the preceding byte. -/
def badAfter (a : UInt8) : Bytes → Bool
  | [] => false
  | b :: r => (if a == 32 then !isUpper b else isUpper b) || badAfter b r

/-- the *word bit* of a text: it cannot be a sequence of capitalised words -/
def wordBadOf : Bytes → Bool
  | [] => false
  | c :: cs => badAfter c cs

/-- the per-word test of `TitleWordsPattern` -/
def okWord (w : Bytes) : Bool :=
  match w with
  | [] => false
  | c :: cs => isUpper c && cs.all (fun x => isLower x || !isAlpha x)

theorem okWord_head {b : UInt8} {post : Bytes} (h : okWord (b :: post) = true) : isUpper b = true := by
  simp only [okWord, Bool.and_eq_true] at h; exact h.1

theorem okWord_mid {pre post : Bytes} {b : UInt8} (hne : pre ≠ []) (h : okWord (pre ++ b :: post) = true) :
    isUpper b = false := by
  obtain ⟨p, pre', rfl⟩ := List.exists_cons_of_ne_nil hne
  simp only [List.cons_append, okWord, Bool.and_eq_true, List.all_eq_true] at h
  have := h.2 b (by simp)
  simp only [Bool.or_eq_true, Bool.not_eq_true'] at this
  cases hu : isUpper b with
  | false => rfl
  | true =>
    rcases this with hl | ha
    · rw [upper_not_lower hu] at hl; exact absurd hl (by decide)
    · simp only [isAlpha, hu, Bool.true_or] at ha; exact absurd ha (by decide)

/-- `TitleWordsPattern` on the pieces of `split(' ')` forces the word bit to be clear -/
theorem titleWords_go : ∀ (s cur : Bytes), (∀ x ∈ cur, (x == 32) = false) →
    (splitOn.go 32 s cur).all okWord = true → badAfter (cur.head?.getD 32) s = false
  | [], _, _, _ => rfl
  | b :: r, cur, hcur, h => by
    by_cases hb : (b == 32) = true
    · have hb32 : b = 32 := by simpa using hb
      subst hb32
      have hgo : splitOn.go 32 (32 :: r) cur = cur.reverse :: splitOn.go 32 r [] := by simp [splitOn.go]
      rw [hgo, List.all_cons, Bool.and_eq_true] at h
      have ih := titleWords_go r [] (by simp) h.2
      simp only [List.head?_nil, Option.getD_none] at ih
      cases cur with
      | nil => exact absurd h.1 (by simp [okWord])
      | cons a cur' =>
        have ha : (a == 32) = false := hcur a (List.mem_cons_self ..)
        simp only [badAfter, List.head?_cons, Option.getD_some, ha, Bool.false_eq_true, ↓reduceIte, ih, Bool.or_false]
        decide
    · have hb' : (b == 32) = false := by simpa using hb
      have hgo : splitOn.go 32 (b :: r) cur = splitOn.go 32 r (b :: cur) := by simp [splitOn.go, hb']
      rw [hgo] at h
      have hcur' : ∀ x ∈ b :: cur, (x == 32) = false := by
        intro x hx
        rcases List.mem_cons.mp hx with rfl | hx
        · exact hb'
        · exact hcur x hx
      have ih := titleWords_go r (b :: cur) hcur' h
      simp only [List.head?_cons, Option.getD_some] at ih
      obtain ⟨ps, hp⟩ := splitOn_go_first r (b :: cur)
      rw [hp, List.all_cons, Bool.and_eq_true] at h
      have hpiece := h.1
      rw [List.reverse_cons, List.append_assoc, List.singleton_append] at hpiece
      cases cur with
      | nil =>
        simp only [List.reverse_nil, List.nil_append] at hpiece
        simp only [badAfter, List.head?_nil, Option.getD_none, beq_self_eq_true, ↓reduceIte, okWord_head hpiece,
          Bool.not_true, Bool.false_or, ih]
      | cons a cur' =>
        have ha : (a == 32) = false := hcur a (List.mem_cons_self ..)
        have hne : (a :: cur').reverse ≠ [] := by simp
        simp only [badAfter, List.head?_cons, Option.getD_some, ha, Bool.false_eq_true, ↓reduceIte,
          okWord_mid hne hpiece, Bool.false_or, ih]

theorem checkCase_titleWords_wordBad {A : Acr} {text : Bytes} (h : checkCase A text .titleWordsPattern = true) :
    wordBadOf text = false := by
  cases text with
  | nil => rfl
  | cons c cs =>
    have h' : (splitOn.go 32 (c :: cs) []).all okWord = true := h
    have := titleWords_go (c :: cs) [] (by simp) h'
    simp only [List.head?_nil, Option.getD_none, badAfter, beq_self_eq_true, ↓reduceIte, Bool.or_eq_false_iff] at this
    exact this.2

/-- necessary condition for `check_case_constraint`; `wb` = the word bit of the text -/
def caseNec (p : Profile) (wb : Bool) : CaseConstraint → Bool
  | .allUppercase => !p.lo
  | .allLowercase => !p.up
  | .titlePattern => p.firstUp && !p.tailUp
  | .camelPattern => p.firstLo
  | .pascalPattern => p.firstUp
  | .titleWordsPattern => p.firstUp && !wb

def nec (p : Profile) (wb : Bool) (st : Style) : Bool :=
  caseNec p wb (Gen.styleConstraints st).1 && sepNec p (Gen.styleConstraints st).2

theorem has_le_contains {x : Bytes} {p : Profile} (hp : HasProfile x p) (s : UInt8) (h : p.has s = true) :
    contains x s = true := by
  obtain ⟨h1, h2, h3, h4, _⟩ := hp
  unfold Profile.has at h
  split at h
  · rename_i hs; rw [beq_iff_eq] at hs; subst hs; rw [h1]; exact h
  · split at h
    · rename_i hs; rw [beq_iff_eq] at hs; subst hs; rw [h2]; exact h
    · split at h
      · rename_i hs; rw [beq_iff_eq] at hs; subst hs; rw [h3]; exact h
      · split at h
        · rename_i hs; rw [beq_iff_eq] at hs; subst hs; rw [h4]; exact h
        · exact absurd h (by decide)

theorem canMatch_nec {A : Acr} {x : Bytes} {p : Profile} {wb : Bool} (hp : HasProfile x p) (hw : wordBadOf x = wb)
    {st : Style} (h : canMatchStyle A x st = true) : nec p wb st = true := by
  simp only [canMatchStyle, Bool.and_eq_true] at h
  simp only [nec, Bool.and_eq_true]
  constructor
  · obtain ⟨_, _, _, _, h5, h6, c, cs, rfl, h7, h8, h9⟩ := hp
    generalize (Gen.styleConstraints st).1 = k at h
    cases k with
    | allUppercase => have := checkCase_allUpper h.1; simp only [caseNec, ← h6]; simpa [hasLower] using this
    | allLowercase => have := checkCase_allLower h.1; simp only [caseNec, ← h5]; simpa [hasUpper] using this
    | titlePattern =>
      have := checkCase_title h.1
      simp only [caseNec, ← h7, ← h9, this.1, this.2, Bool.not_false, Bool.and_self]
    | camelPattern => simp only [caseNec, ← h8]; exact checkCase_camel h.1
    | pascalPattern => simp only [caseNec, ← h7]; exact (checkCase_pascal h.1).1
    | titleWordsPattern =>
      simp only [caseNec, ← h7, ← hw, checkCase_titleWords h.1, checkCase_titleWords_wordBad h.1, Bool.not_false,
        Bool.and_self]
  · have hs := h.2
    simp only [checkSep, sepNec, List.all_eq_true, Bool.or_eq_true, Bool.not_eq_true'] at hs ⊢
    intro s hsm
    rcases hs s hsm with h1 | h1
    · exact Or.inl h1
    · right
      cases hh : p.has s with
      | false => rfl
      | true => rw [has_le_contains hp s hh] at h1; exact absurd h1 (by decide)

/-- at most `n` styles are compatible with a text whose profile admits at most `n` -/
theorem filterCompatible_length_le {A : Acr} {x : Bytes} {p : Profile} {wb : Bool} (hp : HasProfile x p)
    (hw : wordBadOf x = wb) (styles : List Style) :
    (filterCompatible A x styles).length ≤ (styles.filter (nec p wb)).length := by
  induction styles with
  | nil => exact Nat.le_refl _
  | cons st l ih =>
    simp only [filterCompatible, List.filter_cons] at ih ⊢
    by_cases hc : canMatchStyle A x st = true
    · simp only [hc, canMatch_nec hp hw hc, ↓reduceIte, List.length_cons]; omega
    · simp only [hc, Bool.false_eq_true, ↓reduceIte]
      split
      · simp only [List.length_cons]; omega
      · exact ih

-- the profiles of joined / concatenated words ------------------------------------------------------------------------------

theorem profile_join (d : UInt8) (hda : isAlpha d = false) {c : UInt8} {a' b : Bytes} {l : List Bytes}
    (hal : AlphaWords ((c :: a') :: b :: l)) {up lo tu : Bool}
    (hu : ((c :: a') :: b :: l).any (fun r => r.any isUpper) = up)
    (hl : ((c :: a') :: b :: l).any (fun r => r.any isLower) = lo)
    (htu : (a'.any isUpper || (b :: l).any (fun r => r.any isUpper)) = tu) :
    HasProfile (joinWith [d] ((c :: a') :: b :: l))
      ⟨d == 95, d == 45, d == 46, d == 32, up, lo, isUpper c, isLower c, tu⟩ := by
  obtain ⟨f1, f2, f3, f4, f5, f6⟩ := sep_flags d hda (rs := (c :: a') :: b :: l) (by simp) hal hu hl
  refine ⟨f1, f2, f3, f4, f5, f6, c, a' ++ [d] ++ joinWith [d] (b :: l), rfl, rfl, rfl, ?_⟩
  have hdu : isUpper d = false := by
    cases h : isUpper d with
    | false => rfl
    | true => simp only [isAlpha, h, Bool.true_or] at hda; exact absurd hda (by decide)
  rw [List.any_append, List.any_append, any_joinWith_of_not_sep isUpper hdu]
  simp only [List.any_cons, List.any_nil, hdu, Bool.or_false]
  exact htu

theorem profile_concat {c : UInt8} {a' : Bytes} {l : List Bytes}
    (hal : AlphaWords ((c :: a') :: l)) {up lo tu : Bool}
    (hu : ((c :: a') :: l).any (fun r => r.any isUpper) = up)
    (hl : ((c :: a') :: l).any (fun r => r.any isLower) = lo)
    (htu : (a'.any isUpper || l.any (fun r => r.any isUpper)) = tu) :
    HasProfile (concat ((c :: a') :: l)) ⟨false, false, false, false, up, lo, isUpper c, isLower c, tu⟩ := by
  obtain ⟨f1, f2, f3, f4, f5, f6⟩ := concat_flags hal hu hl
  refine ⟨f1, f2, f3, f4, f5, f6, c, a' ++ concat l, rfl, rfl, rfl, ?_⟩
  rw [List.any_append, any_concat]
  exact htu

-- the profile of each rendering of a multi-word term -----------------------------------------------------------------------

def profileOf : Style → Profile
  | .snake => ⟨true, false, false, false, false, true, false, true, false⟩
  | .kebab => ⟨false, true, false, false, false, true, false, true, false⟩
  | .dot => ⟨false, false, true, false, false, true, false, true, false⟩
  | .lowerSentence => ⟨false, false, false, true, false, true, false, true, false⟩
  | .screamingSnake => ⟨true, false, false, false, true, false, true, false, true⟩
  | .screamingTrain => ⟨false, true, false, false, true, false, true, false, true⟩
  | .upperSentence => ⟨false, false, false, true, true, false, true, false, true⟩
  | .title => ⟨false, false, false, true, true, true, true, false, true⟩
  | .train => ⟨false, true, false, false, true, true, true, false, true⟩
  | .pascal => ⟨false, false, false, false, true, true, true, false, true⟩
  | .camel => ⟨false, false, false, false, true, true, false, true, true⟩
  | .sentence => ⟨false, false, false, true, true, true, true, false, false⟩
  | .lowerFlat => ⟨false, false, false, false, false, true, false, true, false⟩
  | .upperFlat => ⟨false, false, false, false, true, false, true, false, true⟩

theorem any_upper_of_lower {w : Bytes} (h : ∀ c ∈ w, isLower c = true) : w.any isUpper = false := by
  rw [List.any_eq_false]; intro x hx; rw [lower_not_upper (h x hx)]; decide

theorem profile_lower_sep (d : UInt8) (hda : isAlpha d = false) {ws : List Bytes} (h2 : 2 ≤ ws.length)
    (h : LowerWords ws) :
    HasProfile (joinWith [d] ws) ⟨d == 95, d == 45, d == 46, d == 32, false, true, false, true, false⟩ := by
  match ws, h2 with
  | w :: b :: l, _ =>
    obtain ⟨c, a', rfl⟩ := List.exists_cons_of_ne_nil (h w (List.mem_cons_self ..)).1
    have hc := (h _ (List.mem_cons_self ..)).2 c (List.mem_cons_self ..)
    have := profile_join d hda (alpha_lowerWords h) (anyU_lowerWords h) (anyL_lowerWords (by simp) h)
      (tu := false) (by
        rw [any_upper_of_lower (fun x hx => (h _ (List.mem_cons_self ..)).2 x (List.mem_cons_of_mem _ hx)),
          anyU_lowerWords h.tail]; rfl)
    rw [lower_not_upper hc, hc] at this
    exact this

theorem profile_upper_sep (d : UInt8) (hda : isAlpha d = false) {ws : List Bytes} (h2 : 2 ≤ ws.length)
    (h : Words ws) :
    HasProfile (joinWith [d] (ws.map upper)) ⟨d == 95, d == 45, d == 46, d == 32, true, false, true, false, true⟩ := by
  have hl := h.lowerWords
  match ws, h2 with
  | w :: b :: l, _ =>
    obtain ⟨hlen, hw⟩ := h w (List.mem_cons_self ..)
    match w, hlen, hw with
    | c0 :: c1 :: w', _, hw =>
      have hc0 := hw c0 (List.mem_cons_self ..)
      have hc1 := hw c1 (List.mem_cons_of_mem _ (List.mem_cons_self ..))
      have := profile_join d hda (c := toUpper c0) (a' := toUpper c1 :: upper w') (b := upper b) (l := l.map upper)
        (alpha_upperWords hl) (anyU_upperWords (by simp) hl) (anyL_upperWords hl) (tu := true)
        (by simp only [List.any_cons, toUpper_of_lower hc1, Bool.true_or])
      rw [toUpper_of_lower hc0, upper_not_lower (toUpper_of_lower hc0)] at this
      exact this

theorem profile_cap_sep (d : UInt8) (hda : isAlpha d = false) {rs : List Bytes} (h2 : 2 ≤ rs.length)
    (h : ∀ r ∈ rs, IsCap r) :
    HasProfile (joinWith [d] rs) ⟨d == 95, d == 45, d == 46, d == 32, true, true, true, false, true⟩ := by
  match rs, h2 with
  | r :: b :: l, _ =>
    obtain ⟨u, l0, l', rfl, hu, _⟩ := h r (List.mem_cons_self ..)
    have := profile_join d hda (c := u) (a' := l0 :: l') (b := b) (l := l) (alpha_capWords h)
      (anyU_of_cap (List.mem_cons_self ..) (h _ (List.mem_cons_self ..)))
      (anyL_of_cap (List.mem_cons_self ..) (h _ (List.mem_cons_self ..))) (tu := true)
      (by rw [anyU_of_cap (List.mem_cons_self ..) (h b (List.mem_cons_of_mem _ (List.mem_cons_self ..)))]
          exact Bool.or_true _)
    rw [hu, upper_not_lower hu] at this
    exact this

theorem profile_pascal {rs : List Bytes} (h2 : 2 ≤ rs.length) (h : ∀ r ∈ rs, IsCap r) :
    HasProfile (concat rs) ⟨false, false, false, false, true, true, true, false, true⟩ := by
  match rs, h2 with
  | r :: b :: l, _ =>
    obtain ⟨u, l0, l', rfl, hu, _⟩ := h r (List.mem_cons_self ..)
    have := profile_concat (c := u) (a' := l0 :: l') (l := b :: l) (alpha_capWords h)
      (anyU_of_cap (List.mem_cons_self ..) (h _ (List.mem_cons_self ..)))
      (anyL_of_cap (List.mem_cons_self ..) (h _ (List.mem_cons_self ..))) (tu := true)
      (by rw [anyU_of_cap (List.mem_cons_self ..) (h b (List.mem_cons_of_mem _ (List.mem_cons_self ..)))]
          exact Bool.or_true _)
    rw [hu, upper_not_lower hu] at this
    exact this

theorem profile_camel {w b : Bytes} {l : List Bytes} (hw : LowerWord w) (h : ∀ r ∈ b :: l, IsCap r) :
    HasProfile (w ++ concat (b :: l)) ⟨false, false, false, false, true, true, false, true, true⟩ := by
  obtain ⟨c, a', rfl⟩ := List.exists_cons_of_ne_nil hw.1
  have hc := hw.2 c (List.mem_cons_self ..)
  have hal : AlphaWords ((c :: a') :: b :: l) := by
    intro r hr
    rcases List.mem_cons.mp hr with rfl | hr
    · exact fun x hx => lower_alpha (hw.2 x hx)
    · exact alpha_cap (h r hr)
  have hb : (b :: l).any (fun r => r.any isUpper) = true := anyU_of_cap (List.mem_cons_self ..) (h b (List.mem_cons_self ..))
  have := profile_concat (c := c) (a' := a') (l := b :: l) hal (up := true) (lo := true) (tu := true)
    (by rw [List.any_cons, hb]; exact Bool.or_true _)
    (any_any_true (List.mem_cons_self ..) (List.mem_cons_self ..) hc)
    (by rw [hb]; exact Bool.or_true _)
  rw [lower_not_upper hc, hc] at this
  exact this

theorem profile_sentence {r w : Bytes} {l : List Bytes} (hr : IsCap r) (h : LowerWords (w :: l)) :
    HasProfile (joinWith [32] (r :: w :: l)) ⟨false, false, false, true, true, true, true, false, false⟩ := by
  obtain ⟨u, l0, l', rfl, hu, hlo⟩ := hr
  have hal : AlphaWords ((u :: l0 :: l') :: w :: l) := by
    intro x hx
    rcases List.mem_cons.mp hx with rfl | hx
    · exact alpha_cap ⟨u, l0, l', rfl, hu, hlo⟩
    · exact alpha_lowerWords h x hx
  have := profile_join 32 (by decide) (c := u) (a' := l0 :: l') (b := w) (l := l) hal (up := true) (lo := true)
    (tu := false)
    (any_any_true (List.mem_cons_self ..) (List.mem_cons_self ..) hu)
    (any_any_true (List.mem_cons_self ..) (List.mem_cons_of_mem _ (List.mem_cons_self ..)) (hlo l0 (List.mem_cons_self ..)))
    (by rw [any_upper_of_lower hlo, anyU_lowerWords h]; rfl)
  rw [hu, upper_not_lower hu] at this
  exact this

/-- the rendering of a term of at least two words in a boundary-visible style has the profile listed for that style -/
theorem render_profile (A : Acr) {ws : List Bytes} (h2 : 2 ≤ ws.length) (hw : Words ws) {st : Style} (hst : st ∈ V12) :
    HasProfile (toStyle A ws st) (profileOf st) := by
  have hl := hw.lowerWords
  have hcap := caps_of_words hw
  have h2c : 2 ≤ (ws.map capitalizeFirst).length := by rw [List.length_map]; exact h2
  rw [toStyle_words A hl]
  cases st <;> first
    | exact absurd hst (by decide)
    | exact profile_lower_sep _ (by decide) h2 hl
    | exact profile_upper_sep _ (by decide) h2 hw
    | exact profile_cap_sep _ (by decide) h2c hcap
    | exact profile_pascal h2c hcap
    | (match ws, h2 with
       | w :: b :: l, _ =>
         exact profile_camel (hl w (List.mem_cons_self ..)) (caps_of_words hw.tail))
    | (match ws, h2 with
       | w :: b :: l, _ =>
         exact profile_sentence (isCap_capitalizeFirst (hw w (List.mem_cons_self ..))) hl.tail)

-- the word bit of each rendering ---------------------------------------------------------------------------------------------

/-- in a text without spaces the word bit is "an upper-case letter after the first byte" -/
theorem badAfter_no_space : ∀ (s : Bytes) (a : UInt8), (a == 32) = false → (∀ x ∈ s, (x == 32) = false) →
    badAfter a s = s.any isUpper
  | [], _, _, _ => rfl
  | b :: r, a, ha, hs => by
    simp only [badAfter, ha, Bool.false_eq_true, ↓reduceIte, List.any_cons]
    rw [badAfter_no_space r b (hs b (List.mem_cons_self ..)) (fun x hx => hs x (List.mem_cons_of_mem _ hx))]

theorem wordBadOf_no_space {x : Bytes} {p : Profile} (hp : HasProfile x p) (hs : p.s = false) :
    wordBadOf x = p.tailUp := by
  obtain ⟨_, _, _, h4, _, _, c, cs, rfl, _, _, h9⟩ := hp
  rw [hs] at h4
  have hall : ∀ y ∈ c :: cs, (y == 32) = false := by
    intro y hy
    cases hy32 : y == 32 with
    | false => rfl
    | true =>
      have : contains (c :: cs) 32 = true := List.any_eq_true.mpr ⟨y, hy, hy32⟩
      rw [h4] at this; exact absurd this (by decide)
  show badAfter c cs = p.tailUp
  rw [badAfter_no_space cs c (hall c (List.mem_cons_self ..)) (fun y hy => hall y (List.mem_cons_of_mem _ hy)), h9]

/-- the last byte of `a :: s` -/
def lastD (a : UInt8) : Bytes → UInt8
  | [] => a
  | b :: r => lastD b r

theorem lastD_ne_space : ∀ (s : Bytes) (a : UInt8), (a == 32) = false → (∀ x ∈ s, (x == 32) = false) →
    (lastD a s == 32) = false
  | [], _, ha, _ => ha
  | b :: r, _, _, hs => lastD_ne_space r b (hs b (List.mem_cons_self ..)) (fun x hx => hs x (List.mem_cons_of_mem _ hx))

/-- a defect further right stays a defect -/
theorem badAfter_append_right : ∀ (s t : Bytes) (a : UInt8), badAfter (lastD a s) t = true → badAfter a (s ++ t) = true
  | [], _, _, h => h
  | b :: r, t, a, h => by
    simp only [List.cons_append, badAfter, Bool.or_eq_true]
    exact Or.inr (badAfter_append_right r t b h)

theorem lower_ne_space {x : UInt8} (h : isLower x = true) : (x == 32) = false := by
  cases h32 : x == 32 with
  | false => rfl
  | true => rw [beq_iff_eq] at h32; subst h32; exact absurd h (by decide)

theorem upper_ne_space {x : UInt8} (h : isUpper x = true) : (x == 32) = false := by
  cases h32 : x == 32 with
  | false => rfl
  | true => rw [beq_iff_eq] at h32; subst h32; exact absurd h (by decide)

/-- a run of lower-case letters is transparent -/
theorem badAfter_lowers : ∀ (s t : Bytes) (a : UInt8), (a == 32) = false → (∀ x ∈ s, isLower x = true) →
    badAfter a (s ++ t) = badAfter (lastD a s) t
  | [], _, _, _, _ => rfl
  | b :: r, t, a, ha, hs => by
    have hb := hs b (List.mem_cons_self ..)
    simp only [List.cons_append, badAfter, ha, Bool.false_eq_true, ↓reduceIte, lower_not_upper hb, Bool.false_or, lastD]
    exact badAfter_lowers r t b (lower_ne_space hb) (fun x hx => hs x (List.mem_cons_of_mem _ hx))

theorem isUpper_space : isUpper (32 : UInt8) = false := by decide

/-- what follows a word in a space-joined list -/
def tailJoin : List Bytes → Bytes
  | [] => []
  | r :: rs => 32 :: joinWith [32] (r :: rs)

/-- capitalised words joined by spaces have a clear word bit -/
theorem badAfter_caps : ∀ (rs : List Bytes), (∀ r ∈ rs, IsCap r) → ∀ (u : UInt8) (t : Bytes), isUpper u = true →
    (∀ x ∈ t, isLower x = true) →
    badAfter u (t ++ tailJoin rs) = false
  | [], _, u, t, hu, ht => by
    simp only [tailJoin, List.append_nil]
    rw [badAfter_no_space t u (upper_ne_space hu) (fun x hx => lower_ne_space (ht x hx))]
    exact any_upper_of_lower ht
  | r :: rs, h, u, t, hu, ht => by
    obtain ⟨v, l0, l', rfl, hv, hl⟩ := h r (List.mem_cons_self ..)
    have hlast := lastD_ne_space t u (upper_ne_space hu) (fun x hx => lower_ne_space (ht x hx))
    have ih := badAfter_caps rs (fun x hx => h x (List.mem_cons_of_mem _ hx)) v (l0 :: l') hv hl
    have hX : (32 :: joinWith [32] ((v :: l0 :: l') :: rs)) =
        32 :: v :: ((l0 :: l') ++ tailJoin rs) := by
      cases rs with
      | nil => simp [joinWith, tailJoin]
      | cons r2 rs2 => simp [joinWith_cons_cons, tailJoin]
    show badAfter u (t ++ (32 :: joinWith [32] ((v :: l0 :: l') :: rs))) = false
    rw [badAfter_lowers t _ u (upper_ne_space hu) ht, hX]
    simp only [badAfter, hlast, Bool.false_eq_true, ↓reduceIte, isUpper_space, Bool.false_or, beq_self_eq_true, hv,
      Bool.not_true]
    exact ih

/-- the word bit of a multi-word rendering, style by style -/
def styleWordBad : Style → Bool
  | .title => false
  | .sentence | .lowerSentence | .upperSentence => true
  | st => (profileOf st).tailUp

/-- a word that does not start with a capital right after the first space -/
theorem badAfter_second_word {a b0 : UInt8} (pre post : Bytes) (hb0 : isUpper b0 = false) :
    badAfter a (pre ++ 32 :: b0 :: post) = true := by
  apply badAfter_append_right
  simp only [badAfter, beq_self_eq_true, ↓reduceIte, hb0, Bool.not_false, Bool.true_or, Bool.or_true]

theorem join_second (a : Bytes) (b0 : UInt8) (b' : Bytes) (l : List Bytes) :
    ∃ post, joinWith [32] (a :: (b0 :: b') :: l) = a ++ 32 :: b0 :: post := by
  cases l with
  | nil => exact ⟨b', by simp [joinWith]⟩
  | cons l1 l2 => exact ⟨b' ++ [32] ++ joinWith [32] (l1 :: l2), by simp [joinWith_cons_cons]⟩

theorem wordBad_lowerSentence {ws : List Bytes} (h2 : 2 ≤ ws.length) (h : LowerWords ws) :
    wordBadOf (joinWith [32] ws) = true := by
  match ws, h2 with
  | w :: b :: l, _ =>
    obtain ⟨c, a', rfl⟩ := List.exists_cons_of_ne_nil (h w (List.mem_cons_self ..)).1
    obtain ⟨b0, b', rfl⟩ := List.exists_cons_of_ne_nil (h b (List.mem_cons_of_mem _ (List.mem_cons_self ..))).1
    obtain ⟨post, hp⟩ := join_second (c :: a') b0 b' l
    rw [hp]
    exact badAfter_second_word a' post
      (lower_not_upper ((h _ (List.mem_cons_of_mem _ (List.mem_cons_self ..))).2 b0 (List.mem_cons_self ..)))

theorem wordBad_sentence {r w : Bytes} {l : List Bytes} (hr : IsCap r) (h : LowerWords (w :: l)) :
    wordBadOf (joinWith [32] (r :: w :: l)) = true := by
  obtain ⟨u, l0, l', rfl, _, _⟩ := hr
  obtain ⟨b0, b', rfl⟩ := List.exists_cons_of_ne_nil (h w (List.mem_cons_self ..)).1
  obtain ⟨post, hp⟩ := join_second (u :: l0 :: l') b0 b' l
  rw [hp]
  exact badAfter_second_word (l0 :: l') post (lower_not_upper ((h _ (List.mem_cons_self ..)).2 b0 (List.mem_cons_self ..)))

theorem wordBad_upperSentence {ws : List Bytes} (h2 : 2 ≤ ws.length) (h : Words ws) :
    wordBadOf (joinWith [32] (ws.map upper)) = true := by
  match ws, h2 with
  | w :: b :: l, _ =>
    obtain ⟨hlen, hw⟩ := h w (List.mem_cons_self ..)
    match w, hlen, hw with
    | c0 :: c1 :: w', _, hw =>
      have hc0 := hw c0 (List.mem_cons_self ..)
      have hc1 := hw c1 (List.mem_cons_of_mem _ (List.mem_cons_self ..))
      show badAfter (toUpper c0) ((toUpper c1 :: upper w') ++ [32] ++ joinWith [32] (upper b :: l.map upper)) = true
      simp only [List.cons_append, badAfter, upper_ne_space (toUpper_of_lower hc0), Bool.false_eq_true, ↓reduceIte,
        toUpper_of_lower hc1, Bool.true_or]

theorem wordBad_title {rs : List Bytes} (h2 : 2 ≤ rs.length) (h : ∀ r ∈ rs, IsCap r) :
    wordBadOf (joinWith [32] rs) = false := by
  match rs, h2 with
  | r :: b :: l, _ =>
    obtain ⟨u, l0, l', rfl, hu, hlo⟩ := h r (List.mem_cons_self ..)
    have := badAfter_caps (b :: l) (fun x hx => h x (List.mem_cons_of_mem _ hx)) u (l0 :: l') hu hlo
    rw [joinWith_cons_cons]
    simpa [wordBadOf, tailJoin, List.append_assoc] using this

theorem render_wordBad (A : Acr) {ws : List Bytes} (h2 : 2 ≤ ws.length) (hw : Words ws) {st : Style} (hst : st ∈ V12) :
    wordBadOf (toStyle A ws st) = styleWordBad st := by
  have hp := render_profile A h2 hw hst
  have hl := hw.lowerWords
  by_cases hs : (profileOf st).s = false
  · rw [wordBadOf_no_space hp hs]
    cases st <;> first
      | rfl
      | exact absurd hs (by decide)
  · rw [toStyle_words A hl]
    have h2c : 2 ≤ (ws.map capitalizeFirst).length := by rw [List.length_map]; exact h2
    cases st <;> first
      | exact absurd rfl hs
      | exact absurd hst (by decide)
      | exact wordBad_lowerSentence h2 hl
      | exact wordBad_upperSentence h2 hw
      | exact wordBad_title h2c (caps_of_words hw)
      | (match ws, h2 with
         | w :: b :: l, _ =>
           exact wordBad_sentence (isCap_capitalizeFirst (hw w (List.mem_cons_self ..))) hl.tail)

end LinePipeline
