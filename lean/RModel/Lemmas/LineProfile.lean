import RModel.Lemmas.LineResolver
/-
  C06 lemmas, part 3: the *profile* of a text (which separators, upper/lower-case letters, first letter, an upper-case letter
  after the first) decides, through the generated constraint table, which styles can be compatible with it.  The renderings
  of a multi-word term have a fixed profile per style, so "how many styles are compatible with the rendering in style `st`"
  becomes a finite computation over the table.
-/
open B CaseModel

namespace LinePipeline

structure Profile where
  u : Bool        -- contains `_`
  h : Bool        -- contains `-`
  d : Bool        -- contains `.`
  s : Bool        -- contains a space
  up : Bool       -- some upper-case letter
  lo : Bool       -- some lower-case letter
  firstUp : Bool
  firstLo : Bool
  tailUp : Bool   -- some upper-case letter after the first byte
  deriving DecidableEq, Repr

def HasProfile (x : Bytes) (p : Profile) : Prop :=
  contains x 95 = p.u ∧ contains x 45 = p.h ∧ contains x 46 = p.d ∧ contains x 32 = p.s ∧
  x.any isUpper = p.up ∧ x.any isLower = p.lo ∧
  ∃ c cs, x = c :: cs ∧ isUpper c = p.firstUp ∧ isLower c = p.firstLo ∧ cs.any isUpper = p.tailUp

def Profile.has (p : Profile) (s : UInt8) : Bool :=
  if s == 95 then p.u else if s == 45 then p.h else if s == 46 then p.d else if s == 32 then p.s else false

/-- necessary condition for `check_separator_constraints` -/
def sepNec (p : Profile) (sep : Option UInt8) : Bool :=
  Gen.allSeparators.all (fun s => (sep == some s) || !p.has s)

/-- necessary condition for `check_case_constraint` -/
def caseNec (p : Profile) : CaseConstraint → Bool
  | .allUppercase => !p.lo
  | .allLowercase => !p.up
  | .titlePattern => p.firstUp && !p.tailUp
  | .camelPattern => p.firstLo
  | .pascalPattern => p.firstUp
  | .titleWordsPattern => p.firstUp

def nec (p : Profile) (st : Style) : Bool :=
  caseNec p (Gen.styleConstraints st).1 && sepNec p (Gen.styleConstraints st).2

theorem has_le_contains {x : Bytes} {p : Profile} (hp : HasProfile x p) (s : UInt8) (h : p.has s = true) :
    contains x s = true := by
  obtain ⟨h1, h2, h3, h4, _⟩ := hp
  unfold Profile.has at h
  split at h
  · rename_i hs; rw [beq_iff_eq] at hs; subst hs; rw [h1]; exact h
  · split at h
    · rename_i hs; rw [beq_iff_eq] at hs; subst hs; rw [h2]; exact h
    · split at h
      · rename_i hs; rw [beq_iff_eq] at hs; subst hs; rw [h3]; exact h
      · split at h
        · rename_i hs; rw [beq_iff_eq] at hs; subst hs; rw [h4]; exact h
        · exact absurd h (by decide)

theorem canMatch_nec {A : Acr} {x : Bytes} {p : Profile} (hp : HasProfile x p) {st : Style}
    (h : canMatchStyle A x st = true) : nec p st = true := by
  simp only [canMatchStyle, Bool.and_eq_true] at h
  simp only [nec, Bool.and_eq_true]
  constructor
  · obtain ⟨_, _, _, _, h5, h6, c, cs, rfl, h7, h8, h9⟩ := hp
    generalize (Gen.styleConstraints st).1 = k at h
    cases k with
    | allUppercase => have := checkCase_allUpper h.1; simp only [caseNec, ← h6]; simpa [hasLower] using this
    | allLowercase => have := checkCase_allLower h.1; simp only [caseNec, ← h5]; simpa [hasUpper] using this
    | titlePattern =>
      have := checkCase_title h.1
      simp only [caseNec, ← h7, ← h9, this.1, this.2, Bool.not_false, Bool.and_self]
    | camelPattern => simp only [caseNec, ← h8]; exact checkCase_camel h.1
    | pascalPattern => simp only [caseNec, ← h7]; exact (checkCase_pascal h.1).1
    | titleWordsPattern => simp only [caseNec, ← h7]; exact checkCase_titleWords h.1
  · have hs := h.2
    simp only [checkSep, sepNec, List.all_eq_true, Bool.or_eq_true, Bool.not_eq_true'] at hs ⊢
    intro s hsm
    rcases hs s hsm with h1 | h1
    · exact Or.inl h1
    · right
      cases hh : p.has s with
      | false => rfl
      | true => rw [has_le_contains hp s hh] at h1; exact absurd h1 (by decide)

/-- at most `n` styles are compatible with a text whose profile admits at most `n` -/
theorem filterCompatible_length_le {A : Acr} {x : Bytes} {p : Profile} (hp : HasProfile x p) (styles : List Style) :
    (filterCompatible A x styles).length ≤ (styles.filter (nec p)).length := by
  induction styles with
  | nil => exact Nat.le_refl _
  | cons st l ih =>
    simp only [filterCompatible, List.filter_cons] at ih ⊢
    by_cases hc : canMatchStyle A x st = true
    · simp only [hc, canMatch_nec hp hc, ↓reduceIte, List.length_cons]; omega
    · simp only [hc, Bool.false_eq_true, ↓reduceIte]
      split
      · simp only [List.length_cons]; omega
      · exact ih

-- the profiles of joined / concatenated words ------------------------------------------------------------------------------

theorem profile_join (d : UInt8) (hda : isAlpha d = false) {c : UInt8} {a' b : Bytes} {l : List Bytes}
    (hal : AlphaWords ((c :: a') :: b :: l)) {up lo tu : Bool}
    (hu : ((c :: a') :: b :: l).any (fun r => r.any isUpper) = up)
    (hl : ((c :: a') :: b :: l).any (fun r => r.any isLower) = lo)
    (htu : (a'.any isUpper || (b :: l).any (fun r => r.any isUpper)) = tu) :
    HasProfile (joinWith [d] ((c :: a') :: b :: l))
      ⟨d == 95, d == 45, d == 46, d == 32, up, lo, isUpper c, isLower c, tu⟩ := by
  obtain ⟨f1, f2, f3, f4, f5, f6⟩ := sep_flags d hda (rs := (c :: a') :: b :: l) (by simp) hal hu hl
  refine ⟨f1, f2, f3, f4, f5, f6, c, a' ++ [d] ++ joinWith [d] (b :: l), rfl, rfl, rfl, ?_⟩
  have hdu : isUpper d = false := by
    cases h : isUpper d with
    | false => rfl
    | true => simp only [isAlpha, h, Bool.true_or] at hda; exact absurd hda (by decide)
  rw [List.any_append, List.any_append, any_joinWith_of_not_sep isUpper hdu]
  simp only [List.any_cons, List.any_nil, hdu, Bool.or_false]
  exact htu

theorem profile_concat {c : UInt8} {a' : Bytes} {l : List Bytes}
    (hal : AlphaWords ((c :: a') :: l)) {up lo tu : Bool}
    (hu : ((c :: a') :: l).any (fun r => r.any isUpper) = up)
    (hl : ((c :: a') :: l).any (fun r => r.any isLower) = lo)
    (htu : (a'.any isUpper || l.any (fun r => r.any isUpper)) = tu) :
    HasProfile (concat ((c :: a') :: l)) ⟨false, false, false, false, up, lo, isUpper c, isLower c, tu⟩ := by
  obtain ⟨f1, f2, f3, f4, f5, f6⟩ := concat_flags hal hu hl
  refine ⟨f1, f2, f3, f4, f5, f6, c, a' ++ concat l, rfl, rfl, rfl, ?_⟩
  rw [List.any_append, any_concat]
  exact htu

-- the profile of each rendering of a multi-word term -----------------------------------------------------------------------

def profileOf : Style → Profile
  | .snake => ⟨true, false, false, false, false, true, false, true, false⟩
  | .kebab => ⟨false, true, false, false, false, true, false, true, false⟩
  | .dot => ⟨false, false, true, false, false, true, false, true, false⟩
  | .lowerSentence => ⟨false, false, false, true, false, true, false, true, false⟩
  | .screamingSnake => ⟨true, false, false, false, true, false, true, false, true⟩
  | .screamingTrain => ⟨false, true, false, false, true, false, true, false, true⟩
  | .upperSentence => ⟨false, false, false, true, true, false, true, false, true⟩
  | .title => ⟨false, false, false, true, true, true, true, false, true⟩
  | .train => ⟨false, true, false, false, true, true, true, false, true⟩
  | .pascal => ⟨false, false, false, false, true, true, true, false, true⟩
  | .camel => ⟨false, false, false, false, true, true, false, true, true⟩
  | .sentence => ⟨false, false, false, true, true, true, true, false, false⟩
  | .lowerFlat => ⟨false, false, false, false, false, true, false, true, false⟩
  | .upperFlat => ⟨false, false, false, false, true, false, true, false, true⟩

theorem any_upper_of_lower {w : Bytes} (h : ∀ c ∈ w, isLower c = true) : w.any isUpper = false := by
  rw [List.any_eq_false]; intro x hx; rw [lower_not_upper (h x hx)]; decide

theorem profile_lower_sep (d : UInt8) (hda : isAlpha d = false) {ws : List Bytes} (h2 : 2 ≤ ws.length)
    (h : LowerWords ws) :
    HasProfile (joinWith [d] ws) ⟨d == 95, d == 45, d == 46, d == 32, false, true, false, true, false⟩ := by
  match ws, h2 with
  | w :: b :: l, _ =>
    obtain ⟨c, a', rfl⟩ := List.exists_cons_of_ne_nil (h w (List.mem_cons_self ..)).1
    have hc := (h _ (List.mem_cons_self ..)).2 c (List.mem_cons_self ..)
    have := profile_join d hda (alpha_lowerWords h) (anyU_lowerWords h) (anyL_lowerWords (by simp) h)
      (tu := false) (by
        rw [any_upper_of_lower (fun x hx => (h _ (List.mem_cons_self ..)).2 x (List.mem_cons_of_mem _ hx)),
          anyU_lowerWords h.tail]; rfl)
    rw [lower_not_upper hc, hc] at this
    exact this

theorem profile_upper_sep (d : UInt8) (hda : isAlpha d = false) {ws : List Bytes} (h2 : 2 ≤ ws.length)
    (h : Words ws) :
    HasProfile (joinWith [d] (ws.map upper)) ⟨d == 95, d == 45, d == 46, d == 32, true, false, true, false, true⟩ := by
  have hl := h.lowerWords
  match ws, h2 with
  | w :: b :: l, _ =>
    obtain ⟨hlen, hw⟩ := h w (List.mem_cons_self ..)
    match w, hlen, hw with
    | c0 :: c1 :: w', _, hw =>
      have hc0 := hw c0 (List.mem_cons_self ..)
      have hc1 := hw c1 (List.mem_cons_of_mem _ (List.mem_cons_self ..))
      have := profile_join d hda (c := toUpper c0) (a' := toUpper c1 :: upper w') (b := upper b) (l := l.map upper)
        (alpha_upperWords hl) (anyU_upperWords (by simp) hl) (anyL_upperWords hl) (tu := true)
        (by simp only [List.any_cons, toUpper_of_lower hc1, Bool.true_or])
      rw [toUpper_of_lower hc0, upper_not_lower (toUpper_of_lower hc0)] at this
      exact this

theorem profile_cap_sep (d : UInt8) (hda : isAlpha d = false) {rs : List Bytes} (h2 : 2 ≤ rs.length)
    (h : ∀ r ∈ rs, IsCap r) :
    HasProfile (joinWith [d] rs) ⟨d == 95, d == 45, d == 46, d == 32, true, true, true, false, true⟩ := by
  match rs, h2 with
  | r :: b :: l, _ =>
    obtain ⟨u, l0, l', rfl, hu, _⟩ := h r (List.mem_cons_self ..)
    have := profile_join d hda (c := u) (a' := l0 :: l') (b := b) (l := l) (alpha_capWords h)
      (anyU_of_cap (List.mem_cons_self ..) (h _ (List.mem_cons_self ..)))
      (anyL_of_cap (List.mem_cons_self ..) (h _ (List.mem_cons_self ..))) (tu := true)
      (by rw [anyU_of_cap (List.mem_cons_self ..) (h b (List.mem_cons_of_mem _ (List.mem_cons_self ..)))]
          exact Bool.or_true _)
    rw [hu, upper_not_lower hu] at this
    exact this

theorem profile_pascal {rs : List Bytes} (h2 : 2 ≤ rs.length) (h : ∀ r ∈ rs, IsCap r) :
    HasProfile (concat rs) ⟨false, false, false, false, true, true, true, false, true⟩ := by
  match rs, h2 with
  | r :: b :: l, _ =>
    obtain ⟨u, l0, l', rfl, hu, _⟩ := h r (List.mem_cons_self ..)
    have := profile_concat (c := u) (a' := l0 :: l') (l := b :: l) (alpha_capWords h)
      (anyU_of_cap (List.mem_cons_self ..) (h _ (List.mem_cons_self ..)))
      (anyL_of_cap (List.mem_cons_self ..) (h _ (List.mem_cons_self ..))) (tu := true)
      (by rw [anyU_of_cap (List.mem_cons_self ..) (h b (List.mem_cons_of_mem _ (List.mem_cons_self ..)))]
          exact Bool.or_true _)
    rw [hu, upper_not_lower hu] at this
    exact this

theorem profile_camel {w b : Bytes} {l : List Bytes} (hw : LowerWord w) (h : ∀ r ∈ b :: l, IsCap r) :
    HasProfile (w ++ concat (b :: l)) ⟨false, false, false, false, true, true, false, true, true⟩ := by
  obtain ⟨c, a', rfl⟩ := List.exists_cons_of_ne_nil hw.1
  have hc := hw.2 c (List.mem_cons_self ..)
  have hal : AlphaWords ((c :: a') :: b :: l) := by
    intro r hr
    rcases List.mem_cons.mp hr with rfl | hr
    · exact fun x hx => lower_alpha (hw.2 x hx)
    · exact alpha_cap (h r hr)
  have hb : (b :: l).any (fun r => r.any isUpper) = true := anyU_of_cap (List.mem_cons_self ..) (h b (List.mem_cons_self ..))
  have := profile_concat (c := c) (a' := a') (l := b :: l) hal (up := true) (lo := true) (tu := true)
    (by rw [List.any_cons, hb]; exact Bool.or_true _)
    (any_any_true (List.mem_cons_self ..) (List.mem_cons_self ..) hc)
    (by rw [hb]; exact Bool.or_true _)
  rw [lower_not_upper hc, hc] at this
  exact this

theorem profile_sentence {r w : Bytes} {l : List Bytes} (hr : IsCap r) (h : LowerWords (w :: l)) :
    HasProfile (joinWith [32] (r :: w :: l)) ⟨false, false, false, true, true, true, true, false, false⟩ := by
  obtain ⟨u, l0, l', rfl, hu, hlo⟩ := hr
  have hal : AlphaWords ((u :: l0 :: l') :: w :: l) := by
    intro x hx
    rcases List.mem_cons.mp hx with rfl | hx
    · exact alpha_cap ⟨u, l0, l', rfl, hu, hlo⟩
    · exact alpha_lowerWords h x hx
  have := profile_join 32 (by decide) (c := u) (a' := l0 :: l') (b := w) (l := l) hal (up := true) (lo := true)
    (tu := false)
    (any_any_true (List.mem_cons_self ..) (List.mem_cons_self ..) hu)
    (any_any_true (List.mem_cons_self ..) (List.mem_cons_of_mem _ (List.mem_cons_self ..)) (hlo l0 (List.mem_cons_self ..)))
    (by rw [any_upper_of_lower hlo, anyU_lowerWords h]; rfl)
  rw [hu, upper_not_lower hu] at this
  exact this

/-- the rendering of a term of at least two words in a boundary-visible style has the profile listed for that style -/
theorem render_profile (A : Acr) {ws : List Bytes} (h2 : 2 ≤ ws.length) (hw : Words ws) {st : Style} (hst : st ∈ V12) :
    HasProfile (toStyle A ws st) (profileOf st) := by
  have hl := hw.lowerWords
  have hcap := caps_of_words hw
  have h2c : 2 ≤ (ws.map capitalizeFirst).length := by rw [List.length_map]; exact h2
  rw [toStyle_words A hl]
  cases st <;> first
    | exact absurd hst (by decide)
    | exact profile_lower_sep _ (by decide) h2 hl
    | exact profile_upper_sep _ (by decide) h2 hw
    | exact profile_cap_sep _ (by decide) h2c hcap
    | exact profile_pascal h2c hcap
    | (match ws, h2 with
       | w :: b :: l, _ =>
         exact profile_camel (hl w (List.mem_cons_self ..)) (caps_of_words hw.tail))
    | (match ws, h2 with
       | w :: b :: l, _ =>
         exact profile_sentence (isCap_capitalizeFirst (hw w (List.mem_cons_self ..))) hl.tail)

end LinePipeline
