import RModel.Model.Scan
/-
  Insertion sort on lists with a Boolean order: it yields a sorted permutation, and two sorted permutations of
  one another are equal when the order is antisymmetric on their elements — hence sorting is invariant under
  permutation of the input.  Core only (`List.Perm`, `List.Pairwise`, `List.Perm.eq_of_pairwise`).
-/

namespace SortPerm
open Scan

variable {α : Type}

/-- what the proofs need of the order -/
structure TotalPreorder (le : α → α → Bool) : Prop where
  total : ∀ a b, le a b = true ∨ le b a = true
  trans : ∀ a b c, le a b = true → le b c = true → le a c = true

theorem insertBy_perm (le : α → α → Bool) (x : α) (l : List α) : (insertBy le x l).Perm (x :: l) := by
  induction l with
  | nil => exact List.Perm.refl _
  | cons y ys ih =>
    unfold insertBy
    split
    · exact List.Perm.refl _
    · exact (List.Perm.cons y ih).trans (List.Perm.swap x y ys)

theorem sortBy_perm (le : α → α → Bool) (l : List α) : (sortBy le l).Perm l := by
  induction l with
  | nil => exact List.Perm.refl _
  | cons x xs ih => exact (insertBy_perm le x _).trans (List.Perm.cons x ih)

theorem mem_insertBy (le : α → α → Bool) (x z : α) (l : List α) : z ∈ insertBy le x l ↔ z = x ∨ z ∈ l := by
  have := (insertBy_perm le x l).mem_iff (a := z)
  simpa using this

theorem insertBy_sorted {le : α → α → Bool} (ord : TotalPreorder le) (x : α) (l : List α)
    (h : l.Pairwise (fun a b => le a b = true)) : (insertBy le x l).Pairwise (fun a b => le a b = true) := by
  induction l with
  | nil => simp [insertBy]
  | cons y ys ih =>
    rw [List.pairwise_cons] at h
    unfold insertBy
    split
    · rename_i hxy
      rw [List.pairwise_cons]
      refine ⟨?_, List.pairwise_cons.mpr h⟩
      intro z hz
      rcases List.mem_cons.mp hz with rfl | hz
      · exact hxy
      · exact ord.trans _ _ _ hxy (h.1 z hz)
    · rename_i hxy
      have hyx : le y x = true := by
        rcases ord.total x y with h1 | h1
        · exact absurd h1 hxy
        · exact h1
      rw [List.pairwise_cons]
      refine ⟨?_, ih h.2⟩
      intro z hz
      rcases (mem_insertBy le x z ys).mp hz with rfl | hz
      · exact hyx
      · exact h.1 z hz

theorem sortBy_sorted {le : α → α → Bool} (ord : TotalPreorder le) (l : List α) :
    (sortBy le l).Pairwise (fun a b => le a b = true) := by
  induction l with
  | nil => simp [sortBy]
  | cons x xs ih => exact insertBy_sorted ord x _ ih

/-- Sorting is invariant under permutation of the input when the order is antisymmetric on the elements. -/
theorem sortBy_perm_invariant {le : α → α → Bool} (ord : TotalPreorder le) (l l' : List α) (hp : l'.Perm l)
    (anti : ∀ a b, a ∈ l → b ∈ l → le a b = true → le b a = true → a = b) :
    sortBy le l' = sortBy le l := by
  have p : (sortBy le l').Perm (sortBy le l) := (sortBy_perm le l').trans (hp.trans (sortBy_perm le l).symm)
  refine List.Perm.eq_of_pairwise (le := fun a b => le a b = true) ?_ (sortBy_sorted ord l') (sortBy_sorted ord l) p
  intro a b ha hb hab hba
  have ha' : a ∈ l := hp.subset ((sortBy_perm le l').subset ha)
  have hb' : b ∈ l := (sortBy_perm le l).subset hb
  exact anti a b ha' hb' hab hba

/-- inserting into a list: a class `p` of mutually tied elements keeps its order -/
theorem insertBy_filter_class (le : α → α → Bool) (p : α → Bool)
    (tie : ∀ a b, p a = true → p b = true → le a b = true) (x : α) (l : List α) :
    (insertBy le x l).filter p = (x :: l).filter p := by
  induction l with
  | nil => rfl
  | cons y ys ih =>
    unfold insertBy
    split
    · rfl
    · rename_i hxy
      by_cases hx : p x = true
      · have hy : p y = false := by
          cases hpy : p y with
          | false => rfl
          | true => exact absurd (tie x y hx hpy) hxy
        simp only [List.filter_cons, hy, hx, if_true] at ih ⊢
        simpa using ih
      · have hx' : p x = false := by simpa using hx
        simp only [List.filter_cons, hx'] at ih ⊢
        simp [ih]

/-- **Stability on ties.**  If all elements of a class `p` compare `≤` each other, sorting keeps their input order. -/
theorem sortBy_filter_class (le : α → α → Bool) (p : α → Bool)
    (tie : ∀ a b, p a = true → p b = true → le a b = true) (l : List α) :
    (sortBy le l).filter p = l.filter p := by
  induction l with
  | nil => rfl
  | cons x xs ih =>
    simp only [sortBy]
    rw [insertBy_filter_class le p tie, List.filter_cons, List.filter_cons, ih]

end SortPerm
