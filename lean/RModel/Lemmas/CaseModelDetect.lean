import RModel.Lemmas.CaseModelWords
/-
  C18 lemmas, part 4: `detect_style` on rendered multi-word names — which of `_ - . space upper lower` occur in a
  rendering, `str::split` undoing `join`, and the Title / Sentence / Train word tests.
-/
open B

namespace CaseModel

-- character occurrence in joined / concatenated words ---------------------------------------------------------

theorem any_any_true {p : UInt8 → Bool} {rs : List Bytes} {r : Bytes} {x : UInt8} (hr : r ∈ rs) (hx : x ∈ r)
    (hp : p x = true) : rs.any (fun r => r.any p) = true := by
  rw [List.any_eq_true]; exact ⟨r, hr, by rw [List.any_eq_true]; exact ⟨x, hx, hp⟩⟩

theorem any_any_false {p : UInt8 → Bool} {rs : List Bytes} (h : ∀ r ∈ rs, ∀ x ∈ r, p x = false) :
    rs.any (fun r => r.any p) = false := by
  rw [List.any_eq_false]; intro r hr
  simp only [Bool.not_eq_true]
  rw [List.any_eq_false]; intro x hx
  simp only [Bool.not_eq_true]; exact h r hr x hx

theorem any_joinWith_of_not_sep (p : UInt8 → Bool) {d : UInt8} (hd : p d = false) : ∀ (rs : List Bytes),
    (joinWith [d] rs).any p = rs.any (fun r => r.any p)
  | [] => rfl
  | [r] => by simp only [joinWith, List.any_cons, List.any_nil, Bool.or_false]
  | a :: b :: l => by
    rw [joinWith_cons_cons, List.any_append, List.any_append, any_joinWith_of_not_sep p hd (b :: l)]
    simp only [List.any_cons, List.any_nil, hd, Bool.or_false]

theorem any_joinWith_of_sep (p : UInt8 → Bool) {d : UInt8} (hd : p d = true) {rs : List Bytes}
    (h2 : 2 ≤ rs.length) : (joinWith [d] rs).any p = true := by
  match rs, h2 with
  | a :: b :: l, _ =>
    rw [joinWith_cons_cons, List.any_append, List.any_append]
    simp only [List.any_cons, hd, Bool.true_or, Bool.or_true]

theorem any_concat (p : UInt8 → Bool) : ∀ (rs : List Bytes), (concat rs).any p = rs.any (fun r => r.any p)
  | [] => rfl
  | r :: rs => by rw [concat_cons, List.any_append, any_concat p rs, List.any_cons]

/-- words made of ASCII letters -/
def AlphaWords (rs : List Bytes) : Prop := ∀ r ∈ rs, ∀ x ∈ r, isAlpha x = true

theorem contains_words_false {c : UInt8} (hc : isAlpha c = false) {rs : List Bytes} (h : AlphaWords rs) :
    rs.any (fun r => r.any (· == c)) = false := by
  apply any_any_false
  intro r hr x hx
  cases hxc : x == c with
  | false => rfl
  | true =>
    rw [beq_iff_eq] at hxc
    rw [← hxc, h r hr x hx] at hc
    exact absurd hc (by decide)

theorem contains_joinWith {c d : UInt8} (hc : isAlpha c = false) {rs : List Bytes} (h2 : 2 ≤ rs.length)
    (h : AlphaWords rs) : contains (joinWith [d] rs) c = (d == c) := by
  cases hdc : d == c with
  | true => exact any_joinWith_of_sep (· == c) hdc h2
  | false =>
    show (joinWith [d] rs).any (· == c) = false
    rw [any_joinWith_of_not_sep (· == c) hdc, contains_words_false hc h]

theorem contains_concat {c : UInt8} (hc : isAlpha c = false) {rs : List Bytes} (h : AlphaWords rs) :
    contains (concat rs) c = false := by
  show (concat rs).any (· == c) = false
  rw [any_concat, contains_words_false hc h]

theorem isEmpty_of_any {p : UInt8 → Bool} {s : Bytes} (h : s.any p = true) : s.isEmpty = false := by
  cases s with
  | nil => exact absurd h (by simp)
  | cons _ _ => rfl

theorem head?_joinWith {sep : Bytes} {r : Bytes} (rs : List Bytes) (hr : r ≠ []) :
    (joinWith sep (r :: rs)).head? = r.head? := by
  obtain ⟨c, r', rfl⟩ := List.exists_cons_of_ne_nil hr
  cases rs with
  | nil => rfl
  | cons b l => rfl

theorem head?_concat {r : Bytes} (rs : List Bytes) (hr : r ≠ []) : (concat (r :: rs)).head? = r.head? := by
  obtain ⟨c, r', rfl⟩ := List.exists_cons_of_ne_nil hr
  rfl

-- `split` undoes `join` ----------------------------------------------------------------------------------------------

theorem splitOn_go_append (d : UInt8) : ∀ (r t cur : Bytes), (∀ x ∈ r, (x == d) = false) →
    splitOn.go d (r ++ t) cur = splitOn.go d t (r.reverse ++ cur)
  | [], _, _, _ => rfl
  | c :: r, t, cur, h => by
    have hc : (c == d) = false := h c (List.mem_cons_self ..)
    rw [List.cons_append, splitOn.go]
    simp only [hc, Bool.false_eq_true, ↓reduceIte]
    rw [splitOn_go_append d r t (c :: cur) (fun x hx => h x (List.mem_cons_of_mem _ hx))]
    simp only [List.reverse_cons, List.append_assoc, List.singleton_append]

theorem splitOn_joinWith (d : UInt8) : ∀ (rs : List Bytes), rs ≠ [] → (∀ r ∈ rs, ∀ x ∈ r, (x == d) = false) →
    splitOn (joinWith [d] rs) d = rs
  | [], h, _ => absurd rfl h
  | [r], _, h => by
    have := splitOn_go_append d r [] [] (h r (List.mem_singleton.mpr rfl))
    simp only [List.append_nil] at this
    simp only [splitOn, joinWith, this, splitOn.go, List.reverse_reverse]
  | a :: b :: l, _, h => by
    have ih := splitOn_joinWith d (b :: l) (by simp) (fun r hr => h r (List.mem_cons_of_mem _ hr))
    simp only [splitOn] at ih ⊢
    rw [joinWith_cons_cons, List.append_assoc, splitOn_go_append d a _ [] (h a (List.mem_cons_self ..))]
    simp only [List.singleton_append, List.append_nil, splitOn.go, beq_self_eq_true, ↓reduceIte,
      List.reverse_reverse, ih]

theorem alpha_ne_sep {c : UInt8} (hc : isAlpha c = false) {rs : List Bytes} (h : AlphaWords rs) :
    ∀ r ∈ rs, ∀ x ∈ r, (x == c) = false := by
  intro r hr x hx
  cases hxc : x == c with
  | false => rfl
  | true =>
    rw [beq_iff_eq] at hxc
    rw [← hxc, h r hr x hx] at hc
    exact absurd hc (by decide)

-- the word tests --------------------------------------------------------------------------------------------------------

theorem isTitleWord_cap {r : Bytes} (h : IsCap r) : isTitleWord r = true := by
  obtain ⟨u, l0, l', rfl, hu, hl⟩ := h
  simp only [isTitleWord, hu, Bool.true_and, List.all_eq_true]
  exact hl

theorem isTitleWord_lower {w : Bytes} (h : ∀ c ∈ w, isLower c = true) : isTitleWord w = false := by
  cases w with
  | nil => rfl
  | cons c cs => simp only [isTitleWord, lower_not_upper (h c (List.mem_cons_self ..)), Bool.false_and]

end CaseModel
