import RModel.Lemmas.PatchText
/-
  Lemmas for C01: the quoted header names written by `replace_patch_headers` are read back unchanged by diffy's
  `parse_filename`, and parsing a patch whose two header lines were rewritten differs from parsing the original
  text in the two names only.
-/
namespace PatchParse
open Patch PatchText

theorem escChar_not (c x : UInt8) (hx : x = 9 ∨ x = 10) : x ∉ escChar c := by
  unfold escChar
  intro h
  rcases hx with rfl | rfl <;>
    (repeat' split at h) <;> simp at h <;> (try subst h) <;> simp_all

theorem flatMap_esc_not (n : Bytes) (x : UInt8) (hx : x = 9 ∨ x = 10) : x ∉ n.flatMap escChar := by
  intro h
  obtain ⟨c, _, hc⟩ := List.mem_flatMap.1 h
  exact escChar_not c x hx hc

theorem quoteName_not (n : Bytes) (x : UInt8) (hx : x = 9 ∨ x = 10) : x ∉ quoteName n := by
  unfold quoteName
  split
  · intro h
    simp only [List.mem_append, List.mem_singleton] at h
    rcases h with (h | h) | h
    · rcases hx with rfl | rfl <;> simp at h
    · exact flatMap_esc_not n x hx h
    · rcases hx with rfl | rfl <;> simp at h
  · rename_i hany
    intro h
    apply hany
    rw [List.any_eq_true]
    refine ⟨x, h, ?_⟩
    rcases hx with rfl | rfl <;> simp [isEscaped]

theorem splitAtSub_single_none (c : UInt8) (s : Bytes) (h : c ∉ s) : splitAtSub [c] s = none := by
  induction s with
  | nil => simp [splitAtSub]
  | cons x xs ih =>
    have hx : c ≠ x := fun e => h (by simp [e])
    have hxs : c ∉ xs := fun e => h (List.mem_cons_of_mem _ e)
    simp [splitAtSub, List.isPrefixOf, hx, ih hxs]

theorem splitAtSub_single (c : UInt8) (s t : Bytes) (h : c ∉ s) :
    splitAtSub [c] (s ++ c :: t) = some (s, t) := by
  induction s with
  | nil => simp [splitAtSub, List.isPrefixOf]
  | cons x xs ih =>
    have hx : c ≠ x := fun e => h (by simp [e])
    have hxs : c ∉ xs := fun e => h (List.mem_cons_of_mem _ e)
    simp [splitAtSub, List.isPrefixOf, hx, ih hxs]

theorem stripPrefix_append (p x : Bytes) : stripPrefix p (p ++ x) = some x := by
  unfold stripPrefix
  have : p.isPrefixOf (p ++ x) = true := List.isPrefixOf_iff_prefix.2 (List.prefix_append p x)
  simp [this]

theorem stripSuffix_append (x p : Bytes) : stripSuffix p (x ++ p) = some x := by
  unfold stripSuffix
  have : p.isSuffixOf (x ++ p) = true := List.isSuffixOf_iff_suffix.2 (List.suffix_append x p)
  simp [this]

theorem unescape_esc (c : UInt8) (h : isEscaped c = true) :
    ∃ x, escChar c = [92, x] ∧ unescape x = some c := by
  simp only [isEscaped, Bool.or_eq_true, decide_eq_true_eq] at h
  rcases h with ((((h | h) | h) | h) | h) | h <;> subst h
  · exact ⟨110, by decide, by decide⟩
  · exact ⟨116, by decide, by decide⟩
  · exact ⟨48, by decide, by decide⟩
  · exact ⟨114, by decide, by decide⟩
  · exact ⟨34, by decide, by decide⟩
  · exact ⟨92, by decide, by decide⟩

theorem escaped_flatMap (n : Bytes) : escapedFilename (n.flatMap escChar) = .ok n := by
  induction n with
  | nil => rfl
  | cons c n ih =>
    simp only [List.flatMap_cons]
    by_cases he : isEscaped c = true
    · obtain ⟨x, hx, hu⟩ := unescape_esc c he
      rw [hx]
      simp only [List.cons_append, List.nil_append, escapedFilename, if_true, hu, ih]
    · have hne : c ≠ 92 := by intro h; subst h; exact he (by decide)
      have hesc : escChar c = [c] := by
        simp only [isEscaped, Bool.or_eq_true, decide_eq_true_eq, not_or] at he
        simp [escChar, he.1.1.1.1.1, he.1.1.1.1.2, he.1.1.1.2, he.1.1.2, he.1.2, he.2]
      have he' : isEscaped c = false := by simpa using he
      rw [hesc]
      simp only [List.cons_append, List.nil_append]
      rw [escapedFilename.eq_def]
      simp [hne, he', ih]

/-- diffy's `parse_filename` reads back exactly the name `replace_patch_headers` wrote — for EVERY name -/
theorem parseFilename_quoted (pfx n : Bytes) : parseFilename pfx (pfx ++ quoteName n ++ [10]) = .ok n := by
  unfold parseFilename
  rw [List.append_assoc, stripPrefix_append]
  have h9 := quoteName_not n 9 (Or.inl rfl)
  have h10 := quoteName_not n 10 (Or.inr rfl)
  have e9 : splitAtSub [9] (quoteName n ++ [10]) = none := by
    apply splitAtSub_single_none
    intro h
    rcases List.mem_append.1 h with h | h
    · exact h9 h
    · simp at h
  have e10 : splitAtSub [10] (quoteName n ++ [10]) = some (quoteName n, []) := splitAtSub_single 10 _ [] h10
  simp only [e9, e10]
  by_cases hany : n.any isEscaped = true
  · have hqn : quoteName n = [34] ++ n.flatMap escChar ++ [34] := by unfold quoteName; rw [if_pos hany]
    have hq : isQuoted ([34] ++ n.flatMap escChar ++ [34]) = some (n.flatMap escChar) := by
      unfold isQuoted
      rw [List.append_assoc, stripPrefix_append]
      exact stripSuffix_append _ _
    rw [hqn]
    simp only [hq, escaped_flatMap]
  · have hqn : quoteName n = n := by unfold quoteName; rw [if_neg hany]
    have hany' : n.any isEscaped = false := by simpa using hany
    have hq : isQuoted n = none := by
      unfold isQuoted stripPrefix
      cases n with
      | nil => rfl
      | cons c cs =>
        have : c ≠ 34 := by
          intro h; subst h
          simp [isEscaped] at hany'
        simp [List.isPrefixOf, this, Ne.symm this]
    rw [hqn]
    simp only [hq, unescapedFilename, hany']
    rfl

/-- the two header lines `replace_patch_headers` writes (LF endings, as in diffy's output) -/
def hdr (a b : Bytes) : Bytes := (b!"--- " ++ quoteName a ++ [10]) ++ (b!"+++ " ++ quoteName b ++ [10])

theorem lines_body (body : Bytes) (h : sw body b!"@@" = true) :
    ∃ l ls, lines body = (64 :: 64 :: l) :: ls := by
  match body, h with
  | [], h => simp [sw, List.isPrefixOf] at h
  | [_], h => simp [sw, List.isPrefixOf] at h
  | c1 :: c2 :: rest, h =>
    have h12 : c1 = 64 ∧ c2 = 64 := by
      simp [sw, List.isPrefixOf] at h; exact ⟨h.1.symm, h.2.symm⟩
    obtain ⟨h1, h2⟩ := h12
    subst h1; subst h2
    rw [lines_cons_ne _ _ (by decide), lines_cons_ne _ _ (by decide)]
    cases lines rest with
    | nil => exact ⟨[], [], rfl⟩
    | cons l' ls' => exact ⟨l', ls', rfl⟩

theorem lines_hdr (a b body : Bytes) :
    lines (hdr a b ++ body) = (b!"--- " ++ quoteName a ++ [10]) :: (b!"+++ " ++ quoteName b ++ [10]) :: lines body := by
  have n1 : (10 : UInt8) ∉ b!"--- " ++ quoteName a := by
    intro h; rcases List.mem_append.1 h with h | h
    · revert h; decide
    · exact quoteName_not a 10 (Or.inr rfl) h
  have n2 : (10 : UInt8) ∉ b!"+++ " ++ quoteName b := by
    intro h; rcases List.mem_append.1 h with h | h
    · revert h; decide
    · exact quoteName_not b 10 (Or.inr rfl) h
  unfold hdr
  have e : (b!"--- " ++ quoteName a ++ [10]) ++ (b!"+++ " ++ quoteName b ++ [10]) ++ body
      = (b!"--- " ++ quoteName a) ++ [10] ++ ((b!"+++ " ++ quoteName b) ++ [10] ++ body) := by simp
  rw [e, lines_line_append _ _ n1, lines_line_append _ _ n2]

/-- parsing a text that starts with the two header lines: the names are `a`, `b`, the rest is the hunk parser on `body` -/
theorem parse_hdr (a b body : Bytes) (hb : sw body b!"@@" = true) :
    parse (hdr a b ++ body) =
      (match hunksLoop ((lines body).length + 1) (lines body) with
       | .error e => .error e
       | .ok hs => if inOrder hs then .ok { old := some a, new := some b, hunks := hs } else .error .order) := by
  obtain ⟨l, ls, hl⟩ := lines_body body hb
  unfold parse
  rw [lines_hdr, hl]
  have s1 : sw (b!"--- " ++ quoteName a ++ [10]) b!"--- " = true := by simp [sw, List.isPrefixOf]
  have s2 : sw (b!"+++ " ++ quoteName b ++ [10]) b!"--- " = false := by simp [sw, List.isPrefixOf]
  have s3 : sw (b!"+++ " ++ quoteName b ++ [10]) b!"+++ " = true := by simp [sw, List.isPrefixOf]
  have s4 : sw (64 :: 64 :: l) b!"--- " = false := by simp [sw, List.isPrefixOf]
  have s5 : sw (64 :: 64 :: l) b!"+++ " = false := by simp [sw, List.isPrefixOf]
  have hsk : skipPreamble ((b!"--- " ++ quoteName a ++ [10]) :: (b!"+++ " ++ quoteName b ++ [10]) :: (64 :: 64 :: l) :: ls)
      = (b!"--- " ++ quoteName a ++ [10]) :: (b!"+++ " ++ quoteName b ++ [10]) :: (64 :: 64 :: l) :: ls := by
    simp only [skipPreamble, isHeaderStart, s1, Bool.true_or, if_true]
  rw [hsk]
  have hph : patchHeader ((b!"--- " ++ quoteName a ++ [10]) :: (b!"+++ " ++ quoteName b ++ [10]) :: (64 :: 64 :: l) :: ls) none none
      = .ok (some a, some b, (64 :: 64 :: l) :: ls) := by
    simp only [patchHeader, s1, s2, s3, s4, s5, if_true, Option.isSome_none, Bool.false_eq_true, if_false,
      parseFilename_quoted]
  rw [hph]
  rfl

theorem fmt_eq_hdr (p : Patch.Patch) (ho : p.old = some b!"original") (hn : p.new = some b!"modified") :
    fmt p = hdr b!"original" b!"modified" ++ p.hunks.flatMap fmtHunk := by
  have q1 : quoteName b!"original" = b!"original" := by decide
  have q2 : quoteName b!"modified" = b!"modified" := by decide
  have f1 : fmtName b!"original" = b!"original" := by decide
  have f2 : fmtName b!"modified" = b!"modified" := by decide
  unfold fmt fmtHeader hdr
  rw [ho, hn, q1, q2]
  simp only [f1, f2]

theorem body_starts (hs : List Patch.Hunk) (h : hs ≠ []) : sw (hs.flatMap fmtHunk) b!"@@" = true := by
  cases hs with
  | nil => exact absurd rfl h
  | cons x xs => simp [List.flatMap_cons, fmtHunk, sw, List.isPrefixOf]

theorem rewrite_hdr (a b body : Bytes) (hb : sw body b!"@@" = true) :
    rewriteHeaders (hdr b!"original" b!"modified" ++ body) a b = hdr a b ++ body := by
  have q1 : quoteName b!"original" = b!"original" := by decide
  have q2 : quoteName b!"modified" = b!"modified" := by decide
  unfold hdr rewriteHeaders
  rw [q1, q2]
  have := rewriteGo_shape (b!"--- " ++ b!"original" ++ [10]) (b!"+++ " ++ b!"modified" ++ [10]) body
    (quoteName a) (quoteName b) ⟨_, rfl, by decide⟩ ⟨_, rfl, by decide⟩ (by decide) (by decide) hb
  rw [this]
  have e1 : eol (b!"--- " ++ b!"original" ++ [10]) = [10] := by decide
  have e2 : eol (b!"+++ " ++ b!"modified" ++ [10]) = [10] := by decide
  rw [e1, e2]
  simp

/-- PARSING A REWRITTEN PATCH.  If diffy parses its own text `fmt p` back to `p` (generic header, at least one hunk),
    then it parses the text with renamify's header lines to the same patch with the two paths as names —
    for every pair of paths. -/
theorem parse_rewrite (p : Patch.Patch) (a b : Bytes) (ho : p.old = some b!"original")
    (hn : p.new = some b!"modified") (hh : p.hunks ≠ []) (hp : parse (fmt p) = .ok p) :
    parse (rewriteHeaders (fmt p) a b) = .ok { p with old := some a, new := some b } := by
  have hb := body_starts p.hunks hh
  rw [fmt_eq_hdr p ho hn] at hp ⊢
  rw [rewrite_hdr a b _ hb, parse_hdr a b _ hb]
  rw [parse_hdr _ _ _ hb] at hp
  cases hl : hunksLoop ((lines (p.hunks.flatMap fmtHunk)).length + 1) (lines (p.hunks.flatMap fmtHunk)) with
  | error e => rw [hl] at hp; cases hp
  | ok hs =>
    rw [hl] at hp
    simp only at hp ⊢
    by_cases hio : inOrder hs = true
    · simp only [hio, if_true] at hp ⊢
      injection hp with hp
      rw [← hp]
    · simp only [hio] at hp; cases hp

end PatchParse
