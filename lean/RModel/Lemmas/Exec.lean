import RModel.Model.Exec
import RModel.Lemmas.RenamePhase
/-
  Helper lemmas for the operation-level model: `lookup` through the tree updates of `execOp`, and a small
  program logic for `Exec.M`:

      Safe R P x Q   :=  from every state whose tree satisfies P, under EVERY injection spec and counter value,
                          a normal end of x satisfies Q, and a reported error or a crash — wherever it
                          happens — leaves a tree satisfying R.

  Because `St.inj` and `St.n` are universally quantified, a `Safe` statement speaks about every fault index k
  and every crash prefix at once; it is proved by structural induction over the program.
  Property theorems are in `RModel/Props/C04.lean` and `RModel/Props/C11.lean`.
-/

namespace ExecL
open Fs Apply Exec RenamePhase

-- lookup through updates -----------------------------------------------------------------------------------

theorem lookup_append_single (t : Tree) (p : Path) (n : Node) (q : Path) :
    lookup (t ++ [(p, n)]) q = match lookup t q with
      | some x => some x
      | none => if p = q then some n else none := by
  unfold lookup
  rw [List.find?_append]
  cases h : t.find? (fun e => e.1 == q) with
  | some e => simp
  | none =>
    by_cases hp : p = q
    · simp [hp]
    · have : (p == q) = false := by simpa using hp
      simp [List.find?_cons, this, hp]

theorem lookup_removeKey (t : Tree) (a q : Path) :
    lookup (removeKey t a) q = if q = a then none else lookup t q := by
  unfold lookup removeKey
  induction t with
  | nil => simp
  | cons e t ih =>
    by_cases hea : e.1 = a
    · have h1 : (!(e.1 == a)) = false := by simp [hea]
      rw [List.filter_cons_of_neg (by simp [hea])]
      rw [ih]
      by_cases hq : q = a
      · simp [hq]
      · have : (e.1 == q) = false := by
          simp only [beq_eq_false_iff_ne, ne_eq]; intro h; exact hq (h ▸ hea)
        simp [hq, List.find?_cons, this]
    · rw [List.filter_cons_of_pos (by simp [hea])]
      simp only [List.find?_cons]
      by_cases heq : e.1 = q
      · have hqa : ¬ q = a := fun h => hea (heq.trans h)
        simp [heq, hqa]
      · have : (e.1 == q) = false := by simpa using heq
        rw [this]; exact ih

def putG (b : Path) (n : Node) (k : Path) (x : Node) : Node := if k == b then n else x

theorem putNode_eq (t : Tree) (b : Path) (n : Node) :
    putNode t b n = t.map (fun e => (e.1, putG b n e.1 e.2)) := by
  unfold putNode
  apply List.map_congr_left
  intro e _
  unfold putG
  by_cases h : (e.1 == b) = true
  · rw [if_pos h, if_pos h]
  · rw [if_neg h, if_neg h]

theorem lookup_putNode (t : Tree) (b : Path) (n : Node) (q : Path) :
    lookup (putNode t b n) q = if q = b then (lookup t b).map (fun _ => n) else lookup t q := by
  rw [putNode_eq, lookup_map_node]
  by_cases h : q = b
  · subst h
    cases lookup t q <;> simp [putG]
  · have : (q == b) = false := by simpa using h
    cases lookup t q <;> simp [putG, this, h]

def modeG (p : Path) (m : Nat) (k : Path) (x : Node) : Node :=
  if k == p then (match x with | .file c _ => .file c m | .dir _ => .dir m | n => n) else x

theorem setMode_eq (t : Tree) (p : Path) (m : Nat) :
    setMode t p m = t.map (fun e => (e.1, modeG p m e.1 e.2)) := by
  unfold setMode
  apply List.map_congr_left
  intro e _
  unfold modeG
  by_cases h : (e.1 == p) = true
  · rw [if_pos h, if_pos h]; cases e.2 <;> rfl
  · rw [if_neg h, if_neg h]

theorem lookup_setMode (t : Tree) (p : Path) (m : Nat) (q : Path) :
    lookup (setMode t p m) q = (lookup t q).map (modeG p m q) := by
  rw [setMode_eq, lookup_map_node]

theorem lookup_setContent (t : Tree) (p : Path) (c : Bytes) (q : Path) :
    lookup (setContent t p c) q = (lookup t q).map (setNode p c q) := by
  rw [setContent_eq, lookup_map_node]

theorem lookup_setContent_ne (t : Tree) (p : Path) (c : Bytes) (q : Path) (h : q ≠ p) :
    lookup (setContent t p c) q = lookup t q := by
  rw [lookup_setContent]
  have : (q == p) = false := by simpa using h
  cases lookup t q <;> simp [setNode, this]

theorem lookup_setContent_self (t : Tree) (p : Path) (c c0 : Bytes) (m : Nat)
    (h : lookup t p = some (.file c0 m)) : lookup (setContent t p c) p = some (.file c m) := by
  rw [lookup_setContent, h]; simp [setNode]

theorem lookup_setMode_ne (t : Tree) (p : Path) (m : Nat) (q : Path) (h : q ≠ p) :
    lookup (setMode t p m) q = lookup t q := by
  rw [lookup_setMode]
  have : (q == p) = false := by simpa using h
  cases lookup t q <;> simp [modeG, this]

theorem lookup_setMode_self (t : Tree) (p : Path) (m m0 : Nat) (c : Bytes)
    (h : lookup t p = some (.file c m0)) : lookup (setMode t p m) p = some (.file c m) := by
  rw [lookup_setMode, h]; simp [modeG]

-- frames ----------------------------------------------------------------------------------------------------

/-- `t'` agrees with `t` everywhere except possibly at `x` -/
def Frame (x : Path) (t t' : Tree) : Prop := ∀ q, q ≠ x → lookup t' q = lookup t q

theorem Frame.refl (x : Path) (t : Tree) : Frame x t t := fun _ _ => rfl

theorem frame_openw {t t' : Tree} {p : Path} {tr ex : Bool} (h : execOp t (.openw p tr ex) = .ok t') :
    Frame p t t' ∧ (∃ c m, lookup t' p = some (.file c m)) ∧ (tr = true → ∃ m, lookup t' p = some (.file [] m)) := by
  unfold execOp at h
  cases hp : parentOk t p with
  | error e => simp [hp] at h
  | ok u =>
    simp only [hp] at h
    cases hl : lookup t p with
    | none =>
      simp only [hl] at h
      by_cases hpe : p.isEmpty = true
      · simp [hpe] at h
      · simp only [hpe, Bool.false_eq_true, if_false] at h
        cases h
        refine ⟨?_, ?_, ?_⟩
        · intro q hq
          rw [lookup_append_single]
          cases lookup t q with
          | some x => rfl
          | none =>
            have : ¬ p = q := fun h => hq h.symm
            simp [this]
        · refine ⟨[], 0o644, ?_⟩
          rw [lookup_append_single, hl]; simp
        · intro _; refine ⟨0o644, ?_⟩
          rw [lookup_append_single, hl]; simp
    | some n =>
      cases n with
      | dir m => simp [hl] at h
      | link x => simp [hl] at h
      | file c m =>
        simp only [hl] at h
        by_cases hex : ex = true
        · simp [hex] at h
        · simp only [hex, Bool.false_eq_true, if_false] at h
          by_cases htr : tr = true
          · simp only [htr, if_true] at h
            cases h
            refine ⟨fun q hq => lookup_setContent_ne t p [] q hq, ⟨[], m, lookup_setContent_self t p [] c m hl⟩, ?_⟩
            intro _; exact ⟨m, lookup_setContent_self t p [] c m hl⟩
          · simp only [htr, Bool.false_eq_true, if_false] at h
            cases h
            refine ⟨Frame.refl p t, ⟨c, m, hl⟩, fun h => absurd h htr⟩

theorem frame_write {t t' : Tree} {p : Path} {c : Bytes} (h : execOp t (.write p c) = .ok t') :
    Frame p t t' ∧ ∃ c0 m, lookup t p = some (.file c0 m) ∧ lookup t' p = some (.file (c0 ++ c) m) := by
  unfold execOp at h
  cases hl : lookup t p with
  | none => simp [hl] at h
  | some n =>
    cases n with
    | dir m => simp [hl] at h
    | link x => simp [hl] at h
    | file c0 m =>
      simp only [hl] at h
      cases h
      exact ⟨fun q hq => lookup_setContent_ne t p _ q hq, c0, m, rfl, lookup_setContent_self t p _ c0 m hl⟩

theorem frame_chmod {t t' : Tree} {p : Path} {m : Nat} (h : execOp t (.chmod p m) = .ok t') :
    Frame p t t' ∧ ∀ c m0, lookup t p = some (.file c m0) → lookup t' p = some (.file c m) := by
  unfold execOp at h
  cases hl : lookup t p with
  | none => simp [hl] at h
  | some n =>
    cases n with
    | link x => simp [hl] at h
    | dir m0 =>
      simp only [hl] at h; cases h
      exact ⟨fun q hq => lookup_setMode_ne t p m q hq, fun c m1 hc => by cases hc⟩
    | file c0 m0 =>
      simp only [hl] at h; cases h
      refine ⟨fun q hq => lookup_setMode_ne t p m q hq, fun c m1 hc => ?_⟩
      cases hc
      exact lookup_setMode_self t p m m0 c0 hl

theorem frame_partial_write (t : Tree) (p : Path) (c : Bytes) : Frame p t (partialOp t (.write p c)) := by
  unfold partialOp
  by_cases hl : c.length < 2
  · simp only [hl, if_true]; exact Frame.refl p t
  · simp only [hl, if_false]
    cases h : execOp t (.write p (c.take (c.length / 2))) with
    | error e => exact Frame.refl p t
    | ok t' => exact (frame_write h).1

/-- a regular file renamed onto an existing regular file: the destination gets the source's node, the source
    name disappears, nothing else moves -/
theorem rename_file_over_file {t t' : Tree} {a b : Path} {c cb : Bytes} {m mb : Nat}
    (ha : lookup t a = some (.file c m)) (hb : lookup t b = some (.file cb mb)) (hab : a ≠ b)
    (h : execOp t (.rename a b false false) = .ok t') :
    lookup t' b = some (.file c m) ∧ lookup t' a = none ∧ ∀ q, q ≠ a → q ≠ b → lookup t' q = lookup t q := by
  unfold execOp at h
  simp only [ha, hb, Bool.or_self, Bool.false_eq_true, if_false] at h
  have : (a == b) = false := by simpa using hab
  simp only [this, Bool.false_eq_true, if_false] at h
  cases h
  have hba : ¬ b = a := fun h => hab h.symm
  refine ⟨?_, ?_, ?_⟩
  · rw [lookup_putNode, lookup_removeKey]
    simp [hba, hb]
  · rw [lookup_putNode]
    simp only [hab, if_false]
    rw [lookup_removeKey]; simp
  · intro q hqa hqb
    rw [lookup_putNode]
    simp only [hqb, if_false]
    rw [lookup_removeKey]; simp [hqa]

-- program logic -----------------------------------------------------------------------------------------------

/-- what a result has to satisfy: `Q` after a normal end, `R` after a reported error or a crash -/
def Sat {α : Type} (R : Tree → Prop) (Q : α → Tree → Prop) : Res α → Prop
  | .ok a s' => Q a s'.t
  | .err _ s' => R s'.t
  | .crash s' => R s'.t

def Safe {α : Type} (R : Tree → Prop) (P : Tree → Prop) (x : M α) (Q : α → Tree → Prop) : Prop :=
  ∀ s : St, P s.t → Sat R Q (x s)

theorem safe_pure {α : Type} {R P : Tree → Prop} {Q : α → Tree → Prop} (a : α) (h : ∀ t, P t → Q a t) :
    Safe R P (pure a : M α) Q := by
  intro s hp
  exact h _ hp

theorem safe_bind {α β : Type} {R P : Tree → Prop} {x : M α} {f : α → M β} {Q : α → Tree → Prop}
    {Q' : β → Tree → Prop} (hx : Safe R P x Q) (hf : ∀ a, Safe R (Q a) (f a) Q') : Safe R P (x >>= f) Q' := by
  intro s hp
  have h1 := hx s hp
  show Sat R Q' (M.bind x f s)
  unfold M.bind
  cases hxs : x s with
  | ok a s' =>
    rw [hxs] at h1
    exact hf a s' h1
  | err e s' => rw [hxs] at h1; exact h1
  | crash s' => rw [hxs] at h1; exact h1

theorem safe_weaken {α : Type} {R P P' : Tree → Prop} {x : M α} {Q Q' : α → Tree → Prop}
    (h : Safe R P x Q) (hp : ∀ t, P' t → P t) (hq : ∀ a t, Q a t → Q' a t) : Safe R P' x Q' := by
  intro s hs
  have := h s (hp _ hs)
  cases hx : x s with
  | ok a s' => rw [hx] at this; exact hq _ _ this
  | err e s' => rw [hx] at this; exact this
  | crash s' => rw [hx] at this; exact this

theorem safe_throw {α : Type} {R P : Tree → Prop} {Q : α → Tree → Prop} (f : Fail) (h : ∀ t, P t → R t) :
    Safe R P (throw f : M α) Q := by
  intro s hp
  exact h _ hp

theorem safe_getTree {R P : Tree → Prop} : Safe R P getTree (fun a t => a = t ∧ P t) := by
  intro s hp
  exact ⟨rfl, hp⟩

theorem sat_stepOp {R P : Tree → Prop} {Q : Unit → Tree → Prop} (op : Op) (s : St) (hp : P s.t)
    (h0 : ∀ t, P t → R t) (h1 : ∀ t t', P t → execOp t op = .ok t' → Q () t' ∧ R t') :
    Sat R Q (stepOp op s) := by
  unfold stepOp
  cases he : execOp s.t op with
  | ok t' => exact (h1 _ _ hp he).1
  | error e => exact h0 _ hp

/-- the rule for one mutating call: the state before it, the state after it and the half-done state must all be
    acceptable places to stop -/
theorem safe_doOp {R P : Tree → Prop} {Q : Unit → Tree → Prop} (op : Op)
    (h0 : ∀ t, P t → R t)
    (h1 : ∀ t t', P t → execOp t op = .ok t' → Q () t' ∧ R t')
    (h2 : ∀ t, P t → R (partialOp t op)) : Safe R P (doOp op) Q := by
  intro s hp
  have hstep := sat_stepOp (Q := Q) op s hp h0 h1
  unfold doOp
  cases hi : s.inj with
  | none => exact hstep
  | fail j e =>
    by_cases hj : j = s.n
    · simp only [hj, if_true]; exact h0 _ hp
    · simp only [hj, if_false]; exact hstep
  | crashBefore j =>
    by_cases hj : j = s.n
    · simp only [hj, if_true]; exact h0 _ hp
    · simp only [hj, if_false]; exact hstep
  | crashAfter j =>
    by_cases hj : j = s.n
    · simp only [hj, if_true]
      cases he : execOp s.t op with
      | ok t' => exact (h1 _ _ hp he).2
      | error e => exact h0 _ hp
    · simp only [hj, if_false]; exact hstep
  | crashMid j =>
    by_cases hj : j = s.n
    · simp only [hj, if_true]; exact h2 _ hp
    · simp only [hj, if_false]; exact hstep

theorem safe_tryCatch {R P : Tree → Prop} {x : M Unit} {Q : Unit → Tree → Prop} (h : Safe R P x Q) :
    Safe R P (tryCatch x) (fun r t => match r with | none => Q () t | some _ => R t) := by
  intro s hp
  have := h s hp
  unfold Exec.tryCatch
  cases hx : x s with
  | ok a s' => rw [hx] at this; exact this
  | crash s' => rw [hx] at this; exact this
  | err f s' =>
    rw [hx] at this
    cases f <;> exact this

theorem safe_tryOp {R P : Tree → Prop} {op : Op} {Q : Unit → Tree → Prop} (h : Safe R P (doOp op) Q) :
    Safe R P (tryOp op) (fun r t => match r with | none => Q () t | some _ => R t) := by
  intro s hp
  have := h s hp
  unfold tryOp
  cases hx : doOp op s with
  | ok a s' => rw [hx] at this; exact this
  | crash s' => rw [hx] at this; exact this
  | err f s' =>
    rw [hx] at this
    cases f <;> exact this

theorem doOp_log_cases (s : St) :
    (∃ s', doOp .logLine s = .ok () s' ∧ s'.t = s.t ∧ s'.inj = s.inj ∧ s'.n = s.n + 1) ∨
    (∃ e s', doOp .logLine s = .err (.io e) s' ∧ s'.t = s.t ∧ s'.inj = s.inj ∧ s'.n = s.n + 1) ∨
    (∃ s', doOp .logLine s = .crash s' ∧ s'.t = s.t) := by
  unfold doOp stepOp
  simp only [execOp]
  cases hi : s.inj with
  | none => exact Or.inl ⟨_, rfl, rfl, by simp [Exec.rec, hi], rfl⟩
  | fail j e =>
    by_cases hj : j = s.n
    · simp only [hj, if_true]; exact Or.inr (Or.inl ⟨e, _, rfl, rfl, by simp [Exec.rec, hi, hj], rfl⟩)
    · simp only [hj, if_false]; exact Or.inl ⟨_, rfl, rfl, by simp [Exec.rec, hi], rfl⟩
  | crashBefore j =>
    by_cases hj : j = s.n
    · simp only [hj, if_true]; exact Or.inr (Or.inr ⟨_, rfl, rfl⟩)
    · simp only [hj, if_false]; exact Or.inl ⟨_, rfl, rfl, by simp [Exec.rec, hi], rfl⟩
  | crashAfter j =>
    by_cases hj : j = s.n
    · simp only [hj, if_true]; exact Or.inr (Or.inr ⟨_, rfl, rfl⟩)
    · simp only [hj, if_false]; exact Or.inl ⟨_, rfl, rfl, by simp [Exec.rec, hi], rfl⟩
  | crashMid j =>
    by_cases hj : j = s.n
    · simp only [hj, if_true]; exact Or.inr (Or.inr ⟨_, rfl, rfl⟩)
    · simp only [hj, if_false]; exact Or.inl ⟨_, rfl, rfl, by simp [Exec.rec, hi], rfl⟩

/-- a log line whose error is ignored: it ends normally or the process is killed, and the tree is the same -/
theorem ignored_log_cases (s : St) :
    (∃ s', ignoreErr (doOp .logLine) s = .ok () s' ∧ s'.t = s.t ∧ s'.inj = s.inj ∧ s'.n = s.n + 1) ∨
    (∃ s', ignoreErr (doOp .logLine) s = .crash s' ∧ s'.t = s.t) := by
  have hunf : ignoreErr (doOp .logLine) s =
      M.bind (Exec.tryCatch (doOp .logLine)) (fun _ => (pure () : M Unit)) s := rfl
  rw [hunf]
  unfold M.bind Exec.tryCatch
  rcases doOp_log_cases s with ⟨s', h, h1, h2, h3⟩ | ⟨e, s', h, h1, h2, h3⟩ | ⟨s', h, h1⟩
  · rw [h]; exact Or.inl ⟨s', rfl, h1, h2, h3⟩
  · rw [h]; exact Or.inl ⟨s', rfl, h1, h2, h3⟩
  · rw [h]; exact Or.inr ⟨s', rfl, h1⟩

/-- a log line changes nothing (both variants: error propagated / error ignored) -/
theorem safe_logM {R P : Tree → Prop} (cfg : Cfg) (h : ∀ t, P t → R t) : Safe R P (logM cfg) (fun _ t => P t) := by
  unfold logM logMF
  by_cases hl : cfg.log.isSome = true
  · simp only [hl, if_true]
    cases ExecFlags.logErrorsIgnored with
    | false =>
      simp only [Bool.false_eq_true, if_false]
      refine safe_doOp .logLine h ?_ ?_
      · intro t t' hp he
        simp only [execOp] at he
        cases he
        exact ⟨hp, h _ hp⟩
      · intro t hp
        exact h _ hp
    | true =>
      simp only [if_true]
      intro s hp
      rcases ignored_log_cases s with ⟨s', h1, h2, _, _⟩ | ⟨s', h1, h2⟩
      · rw [h1]; show P s'.t; rw [h2]; exact hp
      · rw [h1]; show R s'.t; rw [h2]; exact h _ hp
  · simp only [hl, Bool.false_eq_true, if_false]
    exact safe_pure () (fun _ hp => hp)

theorem safe_assume {α : Type} {R P : Tree → Prop} {x : M α} {Q : α → Tree → Prop} (H : Prop)
    (h1 : ∀ t, P t → H) (h2 : H → Safe R P x Q) : Safe R P x Q := by
  intro s hp
  exact h2 (h1 _ hp) s hp

-- the content phase ---------------------------------------------------------------------------------------------

/-- every regular file of `orig` is, at its path and with its mode, either untouched or holds the complete
    planned content -/
def Whole (orig : Tree) (hs : List Hunk) (t : Tree) : Prop :=
  ∀ p c m, lookup orig p = some (.file c m) →
    lookup t p = some (.file c m) ∨
    ∃ c', Edits.applyEdits c (editsFor hs p) = .ok c' ∧ lookup t p = some (.file c' m)

/-- `Whole`, and the files still to be processed are exactly as in `orig` -/
def Keep (orig : Tree) (hs : List Hunk) (l : List Path) (t : Tree) : Prop :=
  Whole orig hs t ∧ ∀ g ∈ l, lookup t g = lookup orig g

theorem keep_frame {orig : Tree} {hs : List Hunk} {l : List Path} {t t' : Tree} {x : Path}
    (hx1 : ∀ c m, lookup orig x ≠ some (.file c m)) (hx2 : ∀ g ∈ l, g ≠ x)
    (hk : Keep orig hs l t) (hf : Frame x t t') : Keep orig hs l t' := by
  refine ⟨?_, ?_⟩
  · intro p c m hp
    have hpx : p ≠ x := fun h => hx1 c m (h ▸ hp)
    rw [hf p hpx]
    exact hk.1 p c m hp
  · intro g hg
    rw [hf g (hx2 g hg)]
    exact hk.2 g hg

theorem partialOp_not_write (t : Tree) (op : Op) (h : ∀ p c, op ≠ .write p c) : partialOp t op = t := by
  cases op <;> first | rfl | exact absurd rfl (h _ _)

theorem whole_frame {orig : Tree} {hs : List Hunk} {t t' : Tree} {x : Path}
    (hx1 : ∀ c m, lookup orig x ≠ some (.file c m)) (hw : Whole orig hs t) (hf : Frame x t t') : Whole orig hs t' := by
  intro p c m hp
  have hpx : p ≠ x := fun h => hx1 c m (h ▸ hp)
  rw [hf p hpx]
  exact hw p c m hp

theorem frame_unlink {t t' : Tree} {p : Path} (h : execOp t (.unlink p) = .ok t') : Frame p t t' := by
  simp only [execOp] at h
  cases hl : lookup t p with
  | none => simp [hl] at h
  | some n =>
    cases n with
    | dir m => simp [hl] at h
    | file c m =>
      simp only [hl] at h; cases h
      intro q hq; rw [lookup_removeKey]; simp [hq]
    | link x =>
      simp only [hl] at h; cases h
      intro q hq; rw [lookup_removeKey]; simp [hq]

theorem safe_ignoreErr {R P : Tree → Prop} {x : M Unit} (h : Safe R P x (fun _ t => R t)) :
    Safe R P (ignoreErr x) (fun _ t => R t) := by
  unfold ignoreErr
  refine safe_bind (safe_tryCatch h) (fun r => ?_)
  cases r <;> exact safe_pure () (fun _ h => h)

/-- the atomic replace of one file, under every fault and crash point -/
theorem safe_replaceFile (orig : Tree) (hs : List Hunk) (f : Path) (fs : List Path) (c c' : Bytes) (m : Nat)
    (hfo : lookup orig f = some (.file c m)) (hnd : f ∉ fs)
    (hx1 : ∀ c m, lookup orig (tmpPath f) ≠ some (.file c m)) (hx2 : ∀ g ∈ f :: fs, g ≠ tmpPath f)
    (happ : Edits.applyEdits c (editsFor hs f) = .ok c') :
    Safe (Whole orig hs) (Keep orig hs (f :: fs)) (replaceFile f c' m) (fun _ t => Keep orig hs fs t) := by
  have hW : ∀ t, Keep orig hs (f :: fs) t → Whole orig hs t := fun _ h => h.1
  have htf : (tmpPath f) ≠ f := fun h => hx2 f (List.mem_cons_self) h.symm
  unfold replaceFile replaceFileX
  -- open(O_TRUNC) of the temp file
  refine safe_bind (Q := fun _ t => Keep orig hs (f :: fs) t ∧ ∃ mt, lookup t (tmpPath f) = some (.file [] mt))
    (safe_doOp _ hW ?_ ?_) (fun _ => ?_)
  · intro t t' hk he
    obtain ⟨hfr, _, htr⟩ := frame_openw he
    have hk' := keep_frame hx1 hx2 hk hfr
    exact ⟨⟨hk', htr rfl⟩, hk'.1⟩
  · intro t hk
    rw [partialOp_not_write _ _ (by intro p c h; cases h)]
    exact hk.1
  -- write_all
  refine safe_bind (Q := fun _ t => Keep orig hs (f :: fs) t ∧ ∃ mt, lookup t (tmpPath f) = some (.file c' mt)) ?_ (fun _ => ?_)
  · unfold writeAll
    by_cases hce : c'.isEmpty = true
    · simp only [hce, if_true]
      refine safe_pure () ?_
      intro t ⟨hk, mt, hl⟩
      have : c' = [] := by simpa using hce
      exact ⟨hk, mt, this ▸ hl⟩
    · simp only [hce, Bool.false_eq_true, if_false]
      refine safe_doOp _ (fun t h => h.1.1) ?_ ?_
      · intro t t' ⟨hk, mt, hl⟩ he
        obtain ⟨hfr, c0, m0, h0, h1⟩ := frame_write he
        have hk' := keep_frame hx1 hx2 hk hfr
        rw [hl] at h0
        cases h0
        exact ⟨⟨hk', mt, by simpa using h1⟩, hk'.1⟩
      · intro t ⟨hk, _⟩
        exact (keep_frame hx1 hx2 hk (frame_partial_write t (tmpPath f) c')).1
  -- chmod
  refine safe_bind (Q := fun _ t => Keep orig hs (f :: fs) t ∧ lookup t (tmpPath f) = some (.file c' m))
    (safe_doOp _ (fun t h => h.1.1) ?_ ?_) (fun _ => ?_)
  · intro t t' ⟨hk, mt, hl⟩ he
    obtain ⟨hfr, hm⟩ := frame_chmod he
    have hk' := keep_frame hx1 hx2 hk hfr
    exact ⟨⟨hk', hm c' mt hl⟩, hk'.1⟩
  · intro t ⟨hk, _⟩
    rw [partialOp_not_write _ _ (by intro p c h; cases h)]
    exact hk.1
  -- the atomic replace
  refine safe_doOp _ (fun t h => h.1.1) ?_ ?_
  · intro t t' ⟨hk, hl⟩ he
    have hlf : lookup t f = some (.file c m) := by rw [hk.2 f List.mem_cons_self]; exact hfo
    obtain ⟨hb, ha, hrest⟩ := rename_file_over_file hl hlf htf he
    have hk' : Keep orig hs fs t' := by
      refine ⟨?_, ?_⟩
      · intro p cp mp hp
        by_cases hpf : p = f
        · subst hpf
          rw [hfo] at hp
          cases hp
          exact Or.inr ⟨c', happ, hb⟩
        · have hpt : p ≠ (tmpPath f) := fun h => hx1 cp mp (h ▸ hp)
          rw [hrest p hpt hpf]
          exact hk.1 p cp mp hp
      · intro g hg
        have hgf : g ≠ f := fun h => hnd (h ▸ hg)
        have hgt : g ≠ (tmpPath f) := hx2 g (List.mem_cons_of_mem _ hg)
        rw [hrest g hgt hgf]
        exact hk.2 g (List.mem_cons_of_mem _ hg)
    exact ⟨hk', hk'.1⟩
  · intro t ⟨hk, _⟩
    rw [partialOp_not_write _ _ (by intro p c h; cases h)]
    exact hk.1

theorem safe_replaceFileF (clean : Bool) (orig : Tree) (hs : List Hunk) (f : Path) (fs : List Path) (c c' : Bytes)
    (m : Nat) (hfo : lookup orig f = some (.file c m)) (hnd : f ∉ fs)
    (hx1 : ∀ c m, lookup orig (tmpPath f) ≠ some (.file c m)) (hx2 : ∀ g ∈ f :: fs, g ≠ tmpPath f)
    (happ : Edits.applyEdits c (editsFor hs f) = .ok c') :
    Safe (Whole orig hs) (Keep orig hs (f :: fs)) (replaceFileF clean f c' m) (fun _ t => Keep orig hs fs t) := by
  have h := safe_replaceFile orig hs f fs c c' m hfo hnd hx1 hx2 happ
  unfold replaceFileF replaceFileFX
  cases clean with
  | false => exact h
  | true =>
    simp only [if_true]
    refine safe_bind (safe_tryCatch h) (fun r => ?_)
    cases r with
    | none => exact safe_pure () (fun _ h => h)
    | some e =>
      refine safe_bind (Q := fun _ t => Whole orig hs t) (safe_ignoreErr (safe_doOp _ (fun _ h => h) ?_ ?_)) (fun _ => ?_)
      · intro t t' hw he
        have := whole_frame hx1 hw (frame_unlink he)
        exact ⟨this, this⟩
      · intro t hw
        rw [partialOp_not_write _ _ (by intro p c h; cases h)]
        exact hw
      · exact safe_throw _ (fun _ h => h)

theorem safe_editOne (clean : Bool) (orig : Tree) (hs : List Hunk) (cfg : Cfg) (f : Path) (fs : List Path) (c : Bytes)
    (m : Nat) (hfo : lookup orig f = some (.file c m)) (hnd : f ∉ fs)
    (hx1 : ∀ c m, lookup orig (tmpPath f) ≠ some (.file c m)) (hx2 : ∀ g ∈ f :: fs, g ≠ tmpPath f) :
    Safe (Whole orig hs) (Keep orig hs (f :: fs)) (editOneF clean cfg hs f c m) (fun _ t => Keep orig hs fs t) := by
  have hW : ∀ t, Keep orig hs (f :: fs) t → Whole orig hs t := fun _ h => h.1
  unfold editOneF
  refine safe_bind (safe_logM cfg hW) (fun _ => ?_)
  cases happ : Edits.applyEdits c (editsFor hs f) with
  | error e => cases e <;> exact safe_throw _ hW
  | ok c' =>
    refine safe_bind (safe_replaceFileF clean orig hs f fs c c' m hfo hnd hx1 hx2 happ) (fun _ => ?_)
    exact safe_logM cfg (fun t h => h.1)

theorem safe_rollback_nil {R : Tree → Prop} (cfg : Cfg) : Safe R R (rollbackM cfg []) (fun _ t => R t) := by
  unfold rollbackM
  refine safe_bind (safe_logM cfg (fun _ h => h)) (fun _ => ?_)
  simp only [List.reverse_nil, rollbackLoop]
  refine safe_bind (Q := fun _ t => R t) (safe_pure false (fun _ h => h)) (fun b => ?_)
  cases b with
  | false => exact safe_logM cfg (fun _ h => h)
  | true => exact safe_throw _ (fun _ h => h)

/-- THE content-phase theorem: from a tree in which the files to be edited are as in `orig`, every way the loop
    can end — normally, with a reported error, or killed before / after / in the middle of ANY of its calls —
    leaves every file of `orig` whole -/
theorem safe_contentLoop (clean : Bool) (orig : Tree) (hs : List Hunk) (cfg : Cfg) : ∀ fs : List Path, fs.Nodup →
    (∀ f ∈ fs, (∀ g ∈ fs, g ≠ tmpPath f) ∧ ∀ c m, lookup orig (tmpPath f) ≠ some (.file c m)) →
    Safe (Whole orig hs) (Keep orig hs fs) (contentLoopF clean cfg hs fs) (fun _ t => Whole orig hs t) := by
  intro fs
  induction fs with
  | nil =>
    intro _ _
    unfold contentLoopF
    exact safe_pure () (fun _ h => h.1)
  | cons f fs ih =>
    intro hnd hfresh
    have hnd' : f ∉ fs ∧ fs.Nodup := by simpa using hnd
    have hf := hfresh f List.mem_cons_self
    have hfresh' : ∀ g ∈ fs, (∀ g' ∈ fs, g' ≠ tmpPath g) ∧ ∀ c m, lookup orig (tmpPath g) ≠ some (.file c m) :=
      fun g hg => ⟨fun g' hg' => (hfresh g (List.mem_cons_of_mem _ hg)).1 g' (List.mem_cons_of_mem _ hg'),
                   (hfresh g (List.mem_cons_of_mem _ hg)).2⟩
    have hW : ∀ t, Keep orig hs (f :: fs) t → Whole orig hs t := fun _ h => h.1
    unfold contentLoopF
    refine safe_bind safe_getTree (fun a => ?_)
    refine safe_assume (Keep orig hs (f :: fs) a) (fun t h => h.1 ▸ h.2) (fun hka => ?_)
    refine safe_weaken (P := Keep orig hs (f :: fs)) (Q := fun _ t => Whole orig hs t) ?_ (fun t h => h.2) (fun _ _ h => h)
    cases hl : lookup a f with
    | none => exact safe_throw _ hW
    | some n =>
      cases n with
      | dir m => exact safe_throw _ hW
      | link x => exact safe_throw _ hW
      | file c m =>
        have hfo : lookup orig f = some (.file c m) := by rw [← hka.2 f List.mem_cons_self]; exact hl
        by_cases hv : (!Utf8.valid c) = true
        · simp only [hv, if_true]
          exact safe_throw _ hW
        · simp only [hv, Bool.false_eq_true, if_false]
          refine safe_bind (safe_tryCatch (safe_editOne clean orig hs cfg f fs c m hfo hnd'.1 hf.2 hf.1)) (fun r => ?_)
          cases r with
          | none => exact ih hnd'.2 hfresh'
          | some e =>
            refine safe_bind (safe_logM cfg (fun _ h => h)) (fun _ => ?_)
            refine safe_bind (safe_rollback_nil cfg) (fun _ => ?_)
            exact safe_throw _ (fun _ h => h)

-- fault-free runs (inj = none): exact refinement -----------------------------------------------------------------

def Sat0 {α : Type} (Q : α → Tree → Prop) : Res α → Prop
  | .ok a s' => s'.inj = .none ∧ Q a s'.t
  | .err _ _ => True
  | .crash _ => True

/-- with no injection, a normal end of `x` from a tree satisfying `P` satisfies `Q` (errors: nothing claimed) -/
def Safe0 {α : Type} (P : Tree → Prop) (x : M α) (Q : α → Tree → Prop) : Prop :=
  ∀ s : St, s.inj = .none → P s.t → Sat0 Q (x s)

theorem safe0_pure {α : Type} {P : Tree → Prop} {Q : α → Tree → Prop} (a : α) (h : ∀ t, P t → Q a t) :
    Safe0 P (pure a : M α) Q := by
  intro s hi hp
  exact ⟨hi, h _ hp⟩

theorem safe0_bind {α β : Type} {P : Tree → Prop} {x : M α} {f : α → M β} {Q : α → Tree → Prop}
    {Q' : β → Tree → Prop} (hx : Safe0 P x Q) (hf : ∀ a, Safe0 (Q a) (f a) Q') : Safe0 P (x >>= f) Q' := by
  intro s hi hp
  have h1 := hx s hi hp
  show Sat0 Q' (M.bind x f s)
  unfold M.bind
  cases hxs : x s with
  | ok a s' =>
    rw [hxs] at h1
    exact hf a s' h1.1 h1.2
  | err e s' => trivial
  | crash s' => trivial

theorem safe0_weaken {α : Type} {P P' : Tree → Prop} {x : M α} {Q Q' : α → Tree → Prop}
    (h : Safe0 P x Q) (hp : ∀ t, P' t → P t) (hq : ∀ a t, Q a t → Q' a t) : Safe0 P' x Q' := by
  intro s hi hs
  have := h s hi (hp _ hs)
  cases hx : x s with
  | ok a s' => rw [hx] at this; exact ⟨this.1, hq _ _ this.2⟩
  | err e s' => trivial
  | crash s' => trivial

theorem safe0_assume {α : Type} {P : Tree → Prop} {x : M α} {Q : α → Tree → Prop} (H : Prop)
    (h1 : ∀ t, P t → H) (h2 : H → Safe0 P x Q) : Safe0 P x Q := by
  intro s hi hp
  exact h2 (h1 _ hp) s hi hp

theorem safe0_throw {α : Type} {P : Tree → Prop} {Q : α → Tree → Prop} (f : Fail) : Safe0 P (throw f : M α) Q := by
  intro s _ _
  trivial

theorem safe0_getTree {P : Tree → Prop} : Safe0 P getTree (fun a t => a = t ∧ P t) := by
  intro s hi hp
  exact ⟨hi, rfl, hp⟩

theorem safe0_doOp {P : Tree → Prop} {Q : Unit → Tree → Prop} (op : Op)
    (h1 : ∀ t t', P t → execOp t op = .ok t' → Q () t') : Safe0 P (doOp op) Q := by
  intro s hi hp
  have : doOp op s = stepOp op s := by unfold doOp; rw [hi]
  rw [this]
  unfold stepOp
  cases he : execOp s.t op with
  | ok t' => exact ⟨hi, h1 _ _ hp he⟩
  | error e => trivial

theorem safe0_logM {P : Tree → Prop} (cfg : Cfg) : Safe0 P (logM cfg) (fun _ t => P t) := by
  unfold logM logMF
  by_cases hl : cfg.log.isSome = true
  · simp only [hl, if_true]
    cases ExecFlags.logErrorsIgnored with
    | false =>
      simp only [Bool.false_eq_true, if_false]
      refine safe0_doOp .logLine ?_
      intro t t' hp he
      simp only [execOp] at he
      cases he
      exact hp
    | true =>
      simp only [if_true]
      intro s hi hp
      rcases ignored_log_cases s with ⟨s', h1, h2, h3, _⟩ | ⟨s', h1, h2⟩
      · rw [h1]; show _ ∧ P s'.t; rw [h2, h3]; exact ⟨hi, hp⟩
      · rw [h1]; trivial
  · simp only [hl, Bool.false_eq_true, if_false]
    exact safe0_pure () (fun _ hp => hp)

/-- `tryCatch x` followed by a handler that always re-raises: only the normal end of `x` continues -/
theorem safe0_tryCatch {P : Tree → Prop} {x : M Unit} {Q : Unit → Tree → Prop} {β : Type} {k : Option Fail → M β}
    {Q' : β → Tree → Prop} (h : Safe0 P x Q) (hk : Safe0 (Q ()) (k none) Q')
    (hraise : ∀ e (s : St), ∀ b s', k (some e) s ≠ .ok b s') :
    Safe0 P (Exec.tryCatch x >>= k) Q' := by
  intro s hi hp
  have := h s hi hp
  show Sat0 Q' (M.bind (Exec.tryCatch x) k s)
  unfold M.bind Exec.tryCatch
  cases hx : x s with
  | ok a s' => rw [hx] at this; exact hk s' this.1 this.2
  | crash s' => trivial
  | err f s' =>
    cases f with
    | panic => trivial
    | _ =>
      simp only
      cases hks : k (some _) s' with
      | ok b s'' => exact absurd hks (hraise _ _ _ _)
      | err _ _ => trivial
      | crash _ => trivial

-- keys ------------------------------------------------------------------------------------------------------------

def NodupKeys (t : Tree) : Prop := (t.map (·.1)).Nodup

theorem no_key_of_lookup_none {t : Tree} {p : Path} (h : lookup t p = none) : ∀ e ∈ t, e.1 ≠ p := by
  intro e he hp
  obtain ⟨n, hn⟩ := lookup_some_of_mem t p ⟨e, he, hp⟩
  rw [h] at hn; cases hn

theorem map_id_of_no_key (t : Tree) (p : Path) (g : Path × Node → Path × Node)
    (hg : ∀ e, e.1 ≠ p → g e = e) (h : ∀ e ∈ t, e.1 ≠ p) : t.map g = t := by
  induction t with
  | nil => rfl
  | cons e t ih =>
    simp only [List.map_cons]
    rw [hg e (h e (by simp)), ih (fun e' he' => h e' (List.mem_cons_of_mem _ he'))]

theorem setContent_no_key (t : Tree) (p : Path) (c : Bytes) (h : ∀ e ∈ t, e.1 ≠ p) : setContent t p c = t := by
  unfold setContent
  apply map_id_of_no_key t p _ _ h
  intro e he
  have : (e.1 == p) = false := by simpa using he
  simp [this]

theorem setMode_no_key (t : Tree) (p : Path) (m : Nat) (h : ∀ e ∈ t, e.1 ≠ p) : setMode t p m = t := by
  unfold setMode
  apply map_id_of_no_key t p _ _ h
  intro e he
  have : (e.1 == p) = false := by simpa using he
  simp [this]

theorem removeKey_no_key (t : Tree) (p : Path) (h : ∀ e ∈ t, e.1 ≠ p) : removeKey t p = t := by
  unfold removeKey
  rw [List.filter_eq_self]
  intro e he
  simpa using h e he

theorem entry_of_lookup {t : Tree} {f : Path} {n : Node} (hn : NodupKeys t) (hl : lookup t f = some n) :
    ∀ e ∈ t, e.1 = f → e.2 = n := by
  unfold lookup at hl
  unfold NodupKeys at hn
  induction t with
  | nil => intro e he; cases he
  | cons x t ih =>
    intro e he hef
    simp only [List.find?_cons] at hl
    simp only [List.map_cons, List.nodup_cons] at hn
    by_cases hx : (x.1 == f) = true
    · simp only [hx] at hl
      rcases List.mem_cons.mp he with h | h
      · subst h; simpa using hl
      · exfalso
        apply hn.1
        have : x.1 = f := by simpa using hx
        rw [this, ← hef]
        exact List.mem_map_of_mem h
    · simp only [hx] at hl
      rcases List.mem_cons.mp he with h | h
      · subst h
        exact absurd (by simpa using hef) hx
      · exact ih hn.2 hl e h hef

/-- with unique keys, overwriting the node at `f` by `(file c' m)` is `setContent` when `f` holds a file of mode `m` -/
theorem putNode_eq_setContent (t : Tree) (f : Path) (c c' : Bytes) (m : Nat) (hn : NodupKeys t)
    (hl : lookup t f = some (.file c m)) : putNode t f (.file c' m) = setContent t f c' := by
  unfold putNode setContent
  apply List.map_congr_left
  intro e he
  by_cases hk : (e.1 == f) = true
  · simp only [hk, if_true]
    have hef : e.1 = f := by simpa using hk
    rw [entry_of_lookup hn hl e he hef]
  · simp only [hk, Bool.false_eq_true, if_false]

theorem nodupKeys_setContent {t : Tree} (p : Path) (c : Bytes) (h : NodupKeys t) : NodupKeys (setContent t p c) := by
  unfold NodupKeys
  rw [(sameShape_setContent t p c).1]
  exact h

-- the content phase, fault-free: exact refinement of `Apply.contentPhase` ------------------------------------------

theorem openw_new {t t' : Tree} {p : Path} {tr ex : Bool} (hl : lookup t p = none)
    (h : execOp t (.openw p tr ex) = .ok t') : t' = t ++ [(p, .file [] 0o644)] := by
  unfold execOp at h
  cases hp : parentOk t p with
  | error e => simp [hp] at h
  | ok u =>
    simp only [hp, hl] at h
    by_cases hpe : p.isEmpty = true
    · simp [hpe] at h
    · simp only [hpe, Bool.false_eq_true, if_false] at h
      cases h; rfl

theorem lookup_snoc_self (t : Tree) (p : Path) (n : Node) (h : lookup t p = none) :
    lookup (t ++ [(p, n)]) p = some n := by
  rw [lookup_append_single, h]; simp

theorem lookup_snoc_other (t : Tree) (p q : Path) (n x : Node) (h : lookup t q = some x) :
    lookup (t ++ [(p, n)]) q = some x := by
  rw [lookup_append_single, h]

theorem setContent_snoc (t : Tree) (p : Path) (c0 c : Bytes) (m : Nat) (h : ∀ e ∈ t, e.1 ≠ p) :
    setContent (t ++ [(p, .file c0 m)]) p c = t ++ [(p, .file c m)] := by
  have h1 := setContent_no_key t p c h
  unfold setContent at h1 ⊢
  rw [List.map_append, h1]
  simp

theorem setMode_snoc (t : Tree) (p : Path) (c : Bytes) (m0 m : Nat) (h : ∀ e ∈ t, e.1 ≠ p) :
    setMode (t ++ [(p, .file c m0)]) p m = t ++ [(p, .file c m)] := by
  have h1 := setMode_no_key t p m h
  unfold setMode at h1 ⊢
  rw [List.map_append, h1]
  simp

theorem removeKey_snoc (t : Tree) (p : Path) (n : Node) (h : ∀ e ∈ t, e.1 ≠ p) :
    removeKey (t ++ [(p, n)]) p = t := by
  have h1 := removeKey_no_key t p h
  unfold removeKey at h1 ⊢
  rw [List.filter_append, h1]
  simp

theorem safe0_replaceFile (f : Path) (c c' : Bytes) (m : Nat) (t0 : Tree)
    (hn : NodupKeys t0) (hl : lookup t0 f = some (.file c m)) (hfresh : lookup t0 (tmpPath f) = none) :
    Safe0 (fun t => t = t0) (replaceFile f c' m) (fun _ t => t = setContent t0 f c') := by
  have hnk := no_key_of_lookup_none hfresh
  have htf : tmpPath f ≠ f := by
    intro h; rw [h] at hfresh; rw [hfresh] at hl; cases hl
  unfold replaceFile replaceFileX
  refine safe0_bind (Q := fun _ t => t = t0 ++ [(tmpPath f, .file [] 0o644)]) (safe0_doOp _ ?_) (fun _ => ?_)
  · intro t t' ht he
    subst ht
    exact openw_new hfresh he
  refine safe0_bind (Q := fun _ t => t = t0 ++ [(tmpPath f, .file c' 0o644)]) ?_ (fun _ => ?_)
  · unfold writeAll
    by_cases hce : c'.isEmpty = true
    · simp only [hce, if_true]
      refine safe0_pure () ?_
      intro t ht
      have : c' = [] := by simpa using hce
      rw [this]; exact ht
    · simp only [hce, Bool.false_eq_true, if_false]
      refine safe0_doOp _ ?_
      intro t t' ht he
      subst ht
      simp only [execOp, lookup_snoc_self _ _ _ hfresh] at he
      cases he
      rw [setContent_snoc _ _ _ _ _ hnk]
      simp
  refine safe0_bind (Q := fun _ t => t = t0 ++ [(tmpPath f, .file c' m)]) (safe0_doOp _ ?_) (fun _ => ?_)
  · intro t t' ht he
    subst ht
    simp only [execOp, lookup_snoc_self _ _ _ hfresh] at he
    cases he
    exact setMode_snoc _ _ _ _ _ hnk
  refine safe0_doOp _ ?_
  · intro t t' ht he
    subst ht
    have : (tmpPath f == f) = false := by simpa using htf
    simp only [execOp, lookup_snoc_self _ _ _ hfresh, lookup_snoc_other _ _ _ _ _ hl, Bool.or_self,
      Bool.false_eq_true, if_false, this] at he
    cases he
    rw [removeKey_snoc _ _ _ hnk]
    exact putNode_eq_setContent t0 f c c' m hn hl

theorem bind_throw_ne_ok {α β : Type} (x : M α) (e : Fail) (s : St) (b : β) (s' : St) :
    (x >>= fun _ => (Exec.throw e : M β)) s ≠ .ok b s' := by
  show M.bind x _ s ≠ _
  unfold M.bind
  cases x s <;> simp [Exec.throw]

theorem safe0_replaceFileF (clean : Bool) (f : Path) (c c' : Bytes) (m : Nat) (t0 : Tree)
    (hn : NodupKeys t0) (hl : lookup t0 f = some (.file c m)) (hfresh : lookup t0 (tmpPath f) = none) :
    Safe0 (fun t => t = t0) (replaceFileF clean f c' m) (fun _ t => t = setContent t0 f c') := by
  have h := safe0_replaceFile f c c' m t0 hn hl hfresh
  unfold replaceFileF replaceFileFX
  cases clean with
  | false => exact h
  | true =>
    simp only [if_true]
    refine safe0_tryCatch h (safe0_pure () (fun _ h => h)) ?_
    intro e s b s'
    exact bind_throw_ne_ok _ _ _ _ _

theorem safe0_editOne (clean : Bool) (cfg : Cfg) (hs : List Hunk) (f : Path) (c : Bytes) (m : Nat) (t0 : Tree)
    (hn : NodupKeys t0) (hl : lookup t0 f = some (.file c m)) (hfresh : lookup t0 (tmpPath f) = none) :
    Safe0 (fun t => t = t0) (editOneF clean cfg hs f c m)
      (fun _ t => ∃ c', Edits.applyEdits c (editsFor hs f) = .ok c' ∧ t = setContent t0 f c') := by
  unfold editOneF
  refine safe0_bind (safe0_logM cfg) (fun _ => ?_)
  cases happ : Edits.applyEdits c (editsFor hs f) with
  | error e => cases e <;> exact safe0_throw _
  | ok c' =>
    refine safe0_bind (safe0_replaceFileF clean f c c' m t0 hn hl hfresh) (fun _ => ?_)
    exact safe0_weaken (safe0_logM cfg) (fun _ h => h) (fun _ t h => ⟨c', rfl, h⟩)

theorem bind_ne_ok {α β : Type} (x : M α) (f : α → M β) (s : St) (b : β) (s' : St)
    (h : ∀ a s1, f a s1 ≠ .ok b s') : (x >>= f) s ≠ .ok b s' := by
  show M.bind x f s ≠ _
  unfold M.bind
  cases hx : x s with
  | ok a s1 => exact h a s1
  | err _ _ => simp
  | crash _ => simp

/-- fault-free, the operation-level content loop computes exactly `Apply.contentPhase` (whenever it ends normally) -/
theorem safe0_contentLoop (clean : Bool) (cfg : Cfg) (hs : List Hunk) : ∀ (fs : List Path) (t0 : Tree), NodupKeys t0 →
    (∀ f ∈ fs, lookup t0 (tmpPath f) = none) →
    Safe0 (fun t => t = t0) (contentLoopF clean cfg hs fs) (fun _ t => contentPhase hs t0 fs = (.ok, t)) := by
  intro fs
  induction fs with
  | nil =>
    intro t0 _ _
    unfold contentLoopF
    exact safe0_pure () (fun t h => by subst h; rfl)
  | cons f fs ih =>
    intro t0 hn hfresh
    unfold contentLoopF
    refine safe0_bind safe0_getTree (fun a => ?_)
    refine safe0_assume (a = t0) (fun t h => h.1.trans h.2) (fun ha => ?_)
    subst ha
    refine safe0_weaken (P := fun t => t = a) (Q := fun _ t => contentPhase hs a (f :: fs) = (.ok, t)) ?_
      (fun t h => h.2) (fun _ _ h => h)
    cases hl : lookup a f with
    | none => exact safe0_throw _
    | some n =>
      cases n with
      | dir m => exact safe0_throw _
      | link x => exact safe0_throw _
      | file c m =>
        by_cases hv : (!Utf8.valid c) = true
        · simp only [hv, if_true]
          exact safe0_throw _
        · simp only [hv, Bool.false_eq_true, if_false]
          refine safe0_tryCatch (safe0_editOne clean cfg hs f c m a hn hl (hfresh f List.mem_cons_self)) ?_ ?_
          · -- the normal continuation
            refine safe0_assume (∃ c', Edits.applyEdits c (editsFor hs f) = .ok c') (fun t h => ⟨h.choose, h.choose_spec.1⟩)
              (fun hc => ?_)
            obtain ⟨c', hc'⟩ := hc
            have hfr' : ∀ g ∈ fs, lookup (setContent a f c') (tmpPath g) = none := by
              intro g hg
              rw [lookup_setContent, hfresh g (List.mem_cons_of_mem _ hg)]; rfl
            refine safe0_weaken (ih (setContent a f c') (nodupKeys_setContent f c' hn) hfr') ?_ ?_
            · intro t ⟨c'', h1, h2⟩
              rw [hc'] at h1; cases h1; exact h2
            · intro _ t h
              unfold contentPhase
              simp only [hl, hv, hc']
              exact h
          · intro e s b s'
            exact bind_ne_ok _ _ _ _ _ (fun _ s1 => bind_throw_ne_ok _ _ _ _ _)

-- the rename phase, fault-free ---------------------------------------------------------------------------------------

/-- along the execution of the rename phase every (re-based) destination is free when its rename is issued -/
def FreeAlong : Tree → List (Path × Path) → List Ren → Prop
  | _, _, [] => True
  | t, perf, r :: rs =>
    lookup t (rebase perf r.newPath) = none ∧
    ∀ t', renameTS t (rebase perf r.path) (trailingSlash perf r.path) (rebase perf r.newPath)
        (trailingSlash perf r.newPath) = .ok t' →
      FreeAlong t' (perf ++ [(r.path, rebase perf r.newPath)]) rs

theorem execOp_rename_free {t : Tree} {a b : Path} {sa sb : Bool} (h : lookup t b = none) :
    execOp t (.rename a b sa sb) = renameTS t a sa b sb := by
  simp only [execOp, h]
  cases lookup t a with
  | none => rfl
  | some n => cases n <;> rfl

theorem safe0_repeat_log {P : Tree → Prop} (cfg : Cfg) : ∀ n, Safe0 P (Exec.repeatM n (logM cfg)) (fun _ t => P t) := by
  intro n
  induction n with
  | zero => unfold Exec.repeatM; exact safe0_pure () (fun _ h => h)
  | succ n ih =>
    unfold Exec.repeatM
    exact safe0_bind (safe0_logM cfg) (fun _ => ih)

/-- fault-free, the operation-level rename loop computes exactly `Apply.renamePhase` (whenever it ends normally) -/
theorem safe0_renameLoop (real : Bool) (cfg : Cfg) : ∀ (rs : List Ren) (perf exec : List (Path × Path)) (t0 : Tree),
    FreeAlong t0 perf rs →
    Safe0 (fun t => t = t0) (renameLoopF real cfg perf exec rs)
      (fun perf' t => renamePhase t0 perf rs = { outcome := .ok, tree := t, performed := perf' }) := by
  intro rs
  induction rs with
  | nil =>
    intro perf exec t0 _
    unfold renameLoopF
    exact safe0_pure perf (fun t h => by subst h; rfl)
  | cons r rs ih =>
    intro perf exec t0 hfree
    obtain ⟨hdest, hnext⟩ := hfree
    unfold renameLoopF
    refine safe0_bind (safe0_repeat_log cfg _) (fun _ => ?_)
    dsimp only
    refine safe0_tryCatch
      (Q := fun _ t => renameTS t0 (rebase perf r.path) (trailingSlash perf r.path) (rebase perf r.newPath)
        (trailingSlash perf r.newPath) = .ok t) ?_ ?_ ?_
    · refine safe0_bind (safe0_logM cfg) (fun _ => ?_)
      refine safe0_doOp _ ?_
      intro t t' ht he
      subst ht
      rw [execOp_rename_free hdest] at he
      exact he
    · refine safe0_tryCatch (Q := fun _ t => renameTS t0 (rebase perf r.path) (trailingSlash perf r.path)
          (rebase perf r.newPath) (trailingSlash perf r.newPath) = .ok t) (safe0_logM cfg) ?_ ?_
      · intro s hi hp
        have h := ih (perf ++ [(r.path, rebase perf r.newPath)]) (exec ++ [(rebase perf r.path, rebase perf r.newPath)]) s.t (hnext _ hp) s hi rfl
        show Sat0 _ (renameLoopF real cfg (perf ++ [(r.path, rebase perf r.newPath)]) (exec ++ [(rebase perf r.path, rebase perf r.newPath)]) rs s)
        cases hx : renameLoopF real cfg (perf ++ [(r.path, rebase perf r.newPath)]) (exec ++ [(rebase perf r.path, rebase perf r.newPath)]) rs s with
        | ok a s' =>
          rw [hx] at h
          show _ ∧ _
          refine ⟨h.1, ?_⟩
          unfold renamePhase
          simp only [hp]
          exact h.2
        | err _ _ => show True; trivial
        | crash _ => show True; trivial
      · intro e s b s'
        exact bind_ne_ok _ _ _ _ _ (fun _ s1 => bind_throw_ne_ok _ _ _ _ _)
    · intro e s b s'
      exact bind_ne_ok _ _ _ _ _ (fun _ s1 => bind_throw_ne_ok _ _ _ _ _)

-- the rename phase under faults and crashes: no node is ever altered ---------------------------------------------------

def nodes (t : Tree) : List Node := t.map (·.2)

theorem removeKey_length_lt {t : Tree} {p : Path} {n : Node} (h : lookup t p = some n) :
    (removeKey t p).length < t.length := by
  obtain ⟨e, he, hp⟩ := mem_of_lookup_some h
  unfold removeKey
  rw [List.length_filter_lt_length_iff_exists]
  exact ⟨e, he, by simp [hp]⟩

theorem fsrename_keeps_or_shrinks {t t' : Tree} {a b : Path} (h : rename t a b = .ok t') :
    nodes t' = nodes t ∨ t'.length < t.length := by
  unfold rename at h
  cases hla : lookup t a with
  | none => simp [hla] at h
  | some na =>
    simp only [hla] at h
    cases hp : parentOk t b with
    | error e => simp [hp] at h
    | ok u =>
      simp only [hp] at h
      by_cases hab : (a == b) = true
      · simp only [hab, if_true] at h
        cases h; exact Or.inl rfl
      · simp only [hab, Bool.false_eq_true, if_false] at h
        by_cases hpre : pre a b = true
        · simp [hpre] at h
        · simp only [hpre, Bool.false_eq_true, if_false] at h
          cases hlb : lookup t b with
          | none =>
            simp only [hlb] at h
            cases h
            exact Or.inl (by simp [nodes, List.map_map, Function.comp_def])
          | some nb =>
            simp only [hlb] at h
            have hlt := removeKey_length_lt hlb
            right
            cases na <;> cases nb <;> simp only at h <;>
              first
              | (cases h; simpa using hlt)
              | (split at h <;> first | (cases h; simpa using hlt) | cases h)
              | cases h

theorem rename_keeps_or_shrinks {t t' : Tree} {a b : Path} {sa sb : Bool}
    (h : execOp t (.rename a b sa sb) = .ok t') : nodes t' = nodes t ∨ t'.length < t.length := by
  simp only [execOp] at h
  split at h
  · rename_i c m cb mb ha hb
    by_cases hs : (sa || sb) = true
    · simp [hs] at h
    · simp only [hs, Bool.false_eq_true, if_false] at h
      by_cases hab : (a == b) = true
      · simp only [hab, if_true] at h
        cases h; exact Or.inl rfl
      · simp only [hab, Bool.false_eq_true, if_false] at h
        cases h
        right
        have := removeKey_length_lt ha
        simpa [putNode] using this
  · unfold renameTS at h
    split at h
    · cases h
    · exact fsrename_keeps_or_shrinks h

/-- nothing altered, or something was overwritten (a strictly shorter tree — what the pre-flight of C05 excludes) -/
def NodesKept (orig : Tree) (t : Tree) : Prop := nodes t = nodes orig ∨ t.length < orig.length

theorem nodesKept_rename {orig t t' : Tree} {a b : Path} {sa sb : Bool} (hi : NodesKept orig t)
    (h : execOp t (.rename a b sa sb) = .ok t') : NodesKept orig t' := by
  have hlen : t.length ≤ orig.length := by
    rcases hi with h1 | h1
    · have := congrArg List.length h1
      simp [nodes] at this; omega
    · omega
  rcases rename_keeps_or_shrinks h with h2 | h2
  · rcases hi with h1 | h1
    · exact Or.inl (h2.trans h1)
    · right
      have := congrArg List.length h2
      simp [nodes] at this; omega
  · right; omega

theorem safe_rename_op {orig : Tree} (a b : Path) (sa sb : Bool) :
    Safe (NodesKept orig) (NodesKept orig) (doOp (.rename a b sa sb)) (fun _ t => NodesKept orig t) := by
  refine safe_doOp _ (fun _ h => h) ?_ ?_
  · intro t t' hi he
    exact ⟨nodesKept_rename hi he, nodesKept_rename hi he⟩
  · intro t hi
    rw [partialOp_not_write _ _ (by intro p c h; cases h)]
    exact hi

theorem safe_rollbackLoop {orig : Tree} (cfg : Cfg) : ∀ (l : List (Path × Path)) (b : Bool),
    Safe (NodesKept orig) (NodesKept orig) (rollbackLoop cfg l b) (fun _ t => NodesKept orig t) := by
  intro l
  induction l with
  | nil => intro b; unfold rollbackLoop; exact safe_pure b (fun _ h => h)
  | cons x l ih =>
    intro b
    obtain ⟨f, to⟩ := x
    unfold rollbackLoop
    refine safe_bind (safe_logM cfg (fun _ h => h)) (fun _ => ?_)
    refine safe_bind (safe_tryOp (safe_rename_op to f false false)) (fun r => ?_)
    refine safe_weaken (ih _) ?_ (fun _ _ h => h)
    intro t h
    cases r <;> exact h

theorem safe_rollbackM {orig : Tree} (cfg : Cfg) (perf : List (Path × Path)) :
    Safe (NodesKept orig) (NodesKept orig) (rollbackM cfg perf) (fun _ t => NodesKept orig t) := by
  unfold rollbackM
  refine safe_bind (safe_logM cfg (fun _ h => h)) (fun _ => ?_)
  refine safe_bind (safe_rollbackLoop cfg _ _) (fun b => ?_)
  cases b with
  | false => exact safe_logM cfg (fun _ h => h)
  | true => exact safe_throw _ (fun _ h => h)

theorem safe_repeat_log {R : Tree → Prop} (cfg : Cfg) : ∀ n, Safe R R (Exec.repeatM n (logM cfg)) (fun _ t => R t) := by
  intro n
  induction n with
  | zero => unfold Exec.repeatM; exact safe_pure () (fun _ h => h)
  | succ n ih =>
    unfold Exec.repeatM
    exact safe_bind (safe_logM cfg (fun _ h => h)) (fun _ => ih)

/-- the rename phase with its rollback, under EVERY fault and crash point: no node (content, mode) is ever altered -/
theorem safe_renameLoop {orig : Tree} (real : Bool) (cfg : Cfg) : ∀ (rs : List Ren) (perf exec : List (Path × Path)),
    Safe (NodesKept orig) (NodesKept orig) (renameLoopF real cfg perf exec rs) (fun _ t => NodesKept orig t) := by
  intro rs
  induction rs with
  | nil => intro perf exec; unfold renameLoopF; exact safe_pure perf (fun _ h => h)
  | cons r rs ih =>
    intro perf exec
    unfold renameLoopF
    refine safe_bind (safe_repeat_log cfg _) (fun _ => ?_)
    dsimp only
    refine safe_bind (safe_tryCatch (Q := fun _ t => NodesKept orig t)
      (safe_bind (safe_logM cfg (fun _ h => h)) (fun _ => safe_rename_op _ _ _ _))) (fun res => ?_)
    cases res with
    | some e =>
      refine safe_bind (safe_logM cfg (fun _ h => h)) (fun _ => ?_)
      refine safe_bind (safe_rollbackM cfg _) (fun _ => ?_)
      exact safe_throw _ (fun _ h => h)
    | none =>
      refine safe_bind (safe_tryCatch (Q := fun _ t => NodesKept orig t) (safe_logM cfg (fun _ h => h))) (fun res2 => ?_)
      cases res2 with
      | some e =>
        refine safe_bind (safe_logM cfg (fun _ h => h)) (fun _ => ?_)
        refine safe_bind (safe_rollbackM cfg _) (fun _ => ?_)
        exact safe_throw _ (fun _ h => h)
      | none => exact ih _ _

-- recording: history entry and stored plan ----------------------------------------------------------------------------

/-- an invariant that no successful `mkdir` can break -/
def MkdirStable (I : Tree → Prop) : Prop := ∀ t t' q, I t → execOp t (.mkdir q) = .ok t' → I t'

theorem safe_mkdir_try {I : Tree → Prop} (hI : MkdirStable I) (q : Path) :
    Safe I I (tryOp (.mkdir q)) (fun _ t => I t) := by
  refine safe_weaken (safe_tryOp (Q := fun _ t => I t) (safe_doOp _ (fun _ h => h) ?_ ?_)) (fun _ h => h) ?_
  · intro t t' hi he; exact ⟨hI _ _ _ hi he, hI _ _ _ hi he⟩
  · intro t hi
    rw [partialOp_not_write _ _ (by intro p c h; cases h)]
    exact hi
  · intro r t h; cases r <;> exact h

theorem safe_mkdirUp {I : Tree → Prop} (hI : MkdirStable I) : ∀ (fuel : Nat) (p : Path),
    Safe I I (mkdirUp fuel p) (fun _ t => I t) := by
  intro fuel
  induction fuel with
  | zero => intro p; unfold mkdirUp; exact safe_pure _ (fun _ h => h)
  | succ n ih =>
    intro p
    unfold mkdirUp
    by_cases hp : p.isEmpty = true
    · simp only [hp, if_true]; exact safe_pure _ (fun _ h => h)
    · simp only [hp, Bool.false_eq_true, if_false]
      refine safe_bind (safe_mkdir_try hI p) (fun r => ?_)
      cases r with
      | none => exact safe_pure _ (fun _ h => h)
      | some e =>
        cases e <;> first
          | exact safe_throw _ (fun _ h => h)
          | exact safe_bind (ih _) (fun _ => safe_pure _ (fun _ h => h))
          | (refine safe_bind safe_getTree (fun a => ?_)
             by_cases hd : isDir a p = true
             · simp only [hd, if_true]; exact safe_pure _ (fun _ h => h.2)
             · simp only [hd, Bool.false_eq_true, if_false]; exact safe_throw _ (fun _ h => h.2))

theorem safe_mkdirDown {I : Tree → Prop} (hI : MkdirStable I) : ∀ (l : List Path),
    Safe I I (mkdirDown l) (fun _ t => I t) := by
  intro l
  induction l with
  | nil => unfold mkdirDown; exact safe_pure _ (fun _ h => h)
  | cons p ps ih =>
    unfold mkdirDown
    refine safe_bind (safe_mkdir_try hI p) (fun r => ?_)
    cases r with
    | none => exact ih
    | some e =>
      cases e <;> first
        | exact safe_throw _ (fun _ h => h)
        | (refine safe_bind safe_getTree (fun a => ?_)
           by_cases hd : isDir a p = true
           · simp only [hd, if_true]; exact safe_weaken ih (fun _ h => h.2) (fun _ _ h => h)
           · simp only [hd, Bool.false_eq_true, if_false]; exact safe_throw _ (fun _ h => h.2))

theorem safe_mkdirs {I : Tree → Prop} (hI : MkdirStable I) (p : Path) : Safe I I (mkdirs p) (fun _ t => I t) := by
  unfold mkdirs
  exact safe_bind (safe_mkdirUp hI _ _) (fun _ => safe_mkdirDown hI _)

/-- `mkdir` succeeds only on a free name, so it cannot change what an existing path holds -/
theorem mkdir_keeps_existing {t t' : Tree} {q x : Path} {n : Node} (hx : lookup t x = some n)
    (h : execOp t (.mkdir q) = .ok t') : lookup t' x = some n := by
  simp only [execOp] at h
  cases hp : parentOk t q with
  | error e => simp [hp] at h
  | ok u =>
    simp only [hp] at h
    by_cases he : exists_ t q = true
    · simp [he] at h
    · simp only [he, Bool.false_eq_true, if_false] at h
      cases h
      exact lookup_snoc_other _ _ _ _ _ hx

theorem parseHist_encode (es : Bytes) : parseHist (encodeHist es) = some es := by
  unfold parseHist encodeHist
  simp

theorem safe_mono_R {α : Type} {R R' P : Tree → Prop} {x : M α} {Q : α → Tree → Prop}
    (h : Safe R' P x Q) (hr : ∀ t, R' t → R t) : Safe R P x Q := by
  intro s hp
  have := h s hp
  cases hx : x s with
  | ok a s' => rw [hx] at this; exact this
  | err e s' => rw [hx] at this; exact hr _ this
  | crash s' => rw [hx] at this; exact hr _ this

/-- the states the history file can be seen in while `History::save` runs -/
def HistStates (c0 new : Bytes) (t : Tree) : Prop :=
  ∃ c m, lookup t pHist = some (.file c m) ∧ (c = c0 ∨ c = [] ∨ c = new.take (new.length / 2) ∨ c = new)

/-- `History::save` under EVERY fault and crash point, starting from an existing history file with content `c0`:
    the file holds the old content, the complete new content, or — only between the `open(O_TRUNC)` and the end of the
    `write` — nothing / the first half -/
theorem safe_saveHist (entry : UInt8) (c0 : Bytes) (m0 : Nat) :
    Safe (HistStates c0 (encodeHist ((parseHist c0).getD [] ++ [entry])))
      (fun t => lookup t pHist = some (.file c0 m0)) (saveHistF false entry)
      (fun _ t => HistStates c0 (encodeHist ((parseHist c0).getD [] ++ [entry])) t) := by
  have hstable : MkdirStable (fun t => lookup t pHist = some (.file c0 m0)) :=
    fun t t' q hi he => mkdir_keeps_existing hi he
  have hR : ∀ t, lookup t pHist = some (.file c0 m0) → HistStates c0 (encodeHist ((parseHist c0).getD [] ++ [entry])) t :=
    fun t h => ⟨c0, m0, h, Or.inl rfl⟩
  unfold saveHistF
  refine safe_bind safe_getTree (fun a => ?_)
  refine safe_assume (loadHist a = (parseHist c0).getD []) ?_ (fun hload => ?_)
  · intro t h
    unfold loadHist
    rw [h.1, h.2]
  rw [hload]
  refine safe_bind (Q := fun _ t => lookup t pHist = some (.file c0 m0))
    (safe_weaken (safe_mono_R (safe_mkdirs hstable pR) hR) (fun _ h => h.2) (fun _ _ h => h)) (fun _ => ?_)
  refine safe_bind (Q := fun _ t => ∃ m, lookup t pHist = some (.file [] m)) (safe_doOp _ hR ?_ ?_) (fun _ => ?_)
  · intro t t' hi he
    obtain ⟨_, _, htr⟩ := frame_openw he
    obtain ⟨m, hm⟩ := htr rfl
    exact ⟨⟨m, hm⟩, [], m, hm, Or.inr (Or.inl rfl)⟩
  · intro t hi
    rw [partialOp_not_write _ _ (by intro p c h; cases h)]
    exact hR _ hi
  -- the write whose error is lost
  unfold ignoreErr
  refine safe_bind (Q := fun _ t => HistStates c0 (encodeHist ((parseHist c0).getD [] ++ [entry])) t) ?_
    (fun _ => safe_pure () (fun _ h => h))
  have hw : Safe (HistStates c0 (encodeHist ((parseHist c0).getD [] ++ [entry])))
      (fun t => ∃ m, lookup t pHist = some (.file [] m))
      (writeAll pHist (encodeHist ((parseHist c0).getD [] ++ [entry])))
      (fun _ t => HistStates c0 (encodeHist ((parseHist c0).getD [] ++ [entry])) t) := by
    unfold writeAll
    have hne : (encodeHist ((parseHist c0).getD [] ++ [entry])).isEmpty = false := by simp [encodeHist]
    simp only [hne, Bool.false_eq_true, if_false]
    refine safe_doOp _ ?_ ?_ ?_
    · intro t ⟨m, hm⟩; exact ⟨[], m, hm, Or.inr (Or.inl rfl)⟩
    · intro t t' ⟨m, hm⟩ he
      obtain ⟨_, c1, m1, h0, h1⟩ := frame_write he
      rw [hm] at h0; cases h0
      have : HistStates c0 (encodeHist ((parseHist c0).getD [] ++ [entry])) t' :=
        ⟨_, m, by simpa using h1, Or.inr (Or.inr (Or.inr rfl))⟩
      exact ⟨this, this⟩
    · intro t ⟨m, hm⟩
      unfold partialOp
      by_cases hl : (encodeHist ((parseHist c0).getD [] ++ [entry])).length < 2
      · simp only [hl, if_true]; exact ⟨[], m, hm, Or.inr (Or.inl rfl)⟩
      · simp only [hl, if_false]
        cases he : execOp t (.write pHist ((encodeHist ((parseHist c0).getD [] ++ [entry])).take
            ((encodeHist ((parseHist c0).getD [] ++ [entry])).length / 2))) with
        | error e => exact ⟨[], m, hm, Or.inr (Or.inl rfl)⟩
        | ok t' =>
          obtain ⟨_, c1, m1, h0, h1⟩ := frame_write he
          rw [hm] at h0; cases h0
          exact ⟨_, m, by simpa using h1, Or.inr (Or.inr (Or.inl rfl))⟩
  refine safe_weaken (safe_tryCatch hw) (fun _ h => h) ?_
  intro r t h
  cases r <;> exact h

-- the atomic variant of `History::save` -------------------------------------------------------------------------------

/-- the history file holds the old bytes or the complete new bytes -/
def HistOldOrNew (c0 new : Bytes) (t : Tree) : Prop :=
  (∃ m, lookup t pHist = some (.file c0 m)) ∨ ∃ m, lookup t pHist = some (.file new m)

theorem histTmp_ne : pHistTmp ≠ pHist := by decide

theorem oldOrNew_frame {c0 new : Bytes} {t t' : Tree} (h : HistOldOrNew c0 new t) (hf : Frame pHistTmp t t') :
    HistOldOrNew c0 new t' := by
  unfold HistOldOrNew at *
  rw [hf pHist (fun h => histTmp_ne h.symm)]
  exact h

theorem safe_write_tmp {c0 new : Bytes} (c : Bytes) :
    Safe (HistOldOrNew c0 new) (HistOldOrNew c0 new) (writeAll pHistTmp c) (fun _ t => HistOldOrNew c0 new t) := by
  unfold writeAll
  by_cases hc : c.isEmpty = true
  · simp only [hc, if_true]; exact safe_pure () (fun _ h => h)
  · simp only [hc, Bool.false_eq_true, if_false]
    refine safe_doOp _ (fun _ h => h) ?_ ?_
    · intro t t' h he
      have := oldOrNew_frame h (frame_write he).1
      exact ⟨this, this⟩
    · intro t h
      exact oldOrNew_frame h (frame_partial_write t pHistTmp c)

/-- `saveHistF true` (temp file + flush + rename) under EVERY fault and crash point: history.json always holds the
    complete old or the complete new bytes — there is no window -/
theorem safe_saveHist_atomic (entry : UInt8) (c0 : Bytes) (m0 : Nat) :
    Safe (HistOldOrNew c0 (encodeHist ((parseHist c0).getD [] ++ [entry])))
      (fun t => lookup t pHist = some (.file c0 m0)) (saveHistF true entry)
      (fun _ t => HistOldOrNew c0 (encodeHist ((parseHist c0).getD [] ++ [entry])) t) := by
  have hstable : MkdirStable (fun t => lookup t pHist = some (.file c0 m0)) :=
    fun t t' q hi he => mkdir_keeps_existing hi he
  have hR : ∀ t, lookup t pHist = some (.file c0 m0) →
      HistOldOrNew c0 (encodeHist ((parseHist c0).getD [] ++ [entry])) t := fun t h => Or.inl ⟨m0, h⟩
  unfold saveHistF
  refine safe_bind safe_getTree (fun a => ?_)
  refine safe_assume (loadHist a = (parseHist c0).getD []) ?_ (fun hload => ?_)
  · intro t h
    unfold loadHist
    rw [h.1, h.2]
  rw [hload]
  refine safe_bind (Q := fun _ t => lookup t pHist = some (.file c0 m0))
    (safe_weaken (safe_mono_R (safe_mkdirs hstable pR) hR) (fun _ h => h.2) (fun _ _ h => h)) (fun _ => ?_)
  simp only [if_true]
  -- the body that is wrapped in the cleanup handler
  have hbody : Safe (HistOldOrNew c0 (encodeHist ((parseHist c0).getD [] ++ [entry])))
      (fun t => lookup t pHist = some (.file c0 m0))
      (do
        doOp (.openw pHistTmp true false)
        let w ← Exec.tryCatch (writeAll pHistTmp (encodeHist ((parseHist c0).getD [] ++ [entry])))
        match w with
        | none => pure ()
        | some e => do
          ignoreErr (writeAll pHistTmp (encodeHist ((parseHist c0).getD [] ++ [entry])))
          Exec.throw e
        doOp (.rename pHistTmp pHist false false))
      (fun _ t => HistOldOrNew c0 (encodeHist ((parseHist c0).getD [] ++ [entry])) t) := by
    refine safe_bind (Q := fun _ t => lookup t pHist = some (.file c0 m0) ∧ ∃ mt, lookup t pHistTmp = some (.file [] mt))
      (safe_doOp _ hR ?_ ?_) (fun _ => ?_)
    · intro t t' h he
      obtain ⟨hfr, _, htr⟩ := frame_openw he
      have h' : lookup t' pHist = some (.file c0 m0) := by rw [hfr pHist (fun h => histTmp_ne h.symm)]; exact h
      exact ⟨⟨h', htr rfl⟩, hR _ h'⟩
    · intro t h
      rw [partialOp_not_write _ _ (by intro p c h; cases h)]
      exact hR _ h
    -- the write: on success the temp file holds the complete new bytes
    have hw : Safe (HistOldOrNew c0 (encodeHist ((parseHist c0).getD [] ++ [entry])))
        (fun t => lookup t pHist = some (.file c0 m0) ∧ ∃ mt, lookup t pHistTmp = some (.file [] mt))
        (writeAll pHistTmp (encodeHist ((parseHist c0).getD [] ++ [entry])))
        (fun _ t => lookup t pHist = some (.file c0 m0) ∧
          ∃ mt, lookup t pHistTmp = some (.file (encodeHist ((parseHist c0).getD [] ++ [entry])) mt)) := by
      unfold writeAll
      have hne : (encodeHist ((parseHist c0).getD [] ++ [entry])).isEmpty = false := by simp [encodeHist]
      simp only [hne, Bool.false_eq_true, if_false]
      refine safe_doOp _ (fun t h => hR _ h.1) ?_ ?_
      · intro t t' ⟨h, mt, hl⟩ he
        obtain ⟨hfr, c1, m1, h0, h1⟩ := frame_write he
        rw [hl] at h0; cases h0
        have h' : lookup t' pHist = some (.file c0 m0) := by rw [hfr pHist (fun h => histTmp_ne h.symm)]; exact h
        exact ⟨⟨h', mt, by simpa using h1⟩, hR _ h'⟩
      · intro t ⟨h, _⟩
        exact oldOrNew_frame (hR _ h) (frame_partial_write t pHistTmp _)
    refine safe_bind (safe_tryCatch hw) (fun w => ?_)
    cases w with
    | some e =>
      dsimp only
      refine safe_bind (safe_ignoreErr (safe_write_tmp _)) (fun _ => ?_)
      refine safe_bind (Q := fun _ _ => False) (safe_throw _ (fun _ h => h)) (fun _ => ?_)
      intro s hp
      exact absurd hp id
    | none =>
      dsimp only
      refine safe_doOp _ (fun t h => hR _ h.1) ?_ ?_
      · intro t t' ⟨h, mt, hl⟩ he
        obtain ⟨hb, _, _⟩ := rename_file_over_file hl h histTmp_ne he
        have : HistOldOrNew c0 (encodeHist ((parseHist c0).getD [] ++ [entry])) t' := Or.inr ⟨mt, hb⟩
        exact ⟨this, this⟩
      · intro t ⟨h, _⟩
        rw [partialOp_not_write _ _ (by intro p c h; cases h)]
        exact hR _ h
  refine safe_bind (safe_tryCatch hbody) (fun r => ?_)
  cases r with
  | none => exact safe_pure () (fun _ h => h)
  | some e =>
    refine safe_bind (Q := fun _ t => HistOldOrNew c0 (encodeHist ((parseHist c0).getD [] ++ [entry])) t)
      (safe_ignoreErr (safe_doOp _ (fun _ h => h) ?_ ?_)) (fun _ => safe_throw _ (fun _ h => h))
    · intro t t' h he
      have := oldOrNew_frame h (frame_unlink he)
      exact ⟨this, this⟩
    · intro t h
      rw [partialOp_not_write _ _ (by intro p c h; cases h)]
      exact h

-- an injected failure is not swallowed --------------------------------------------------------------------------------

/-- `Reports k x`: under the injection `fail k e` (e an I/O error other than the two that `create_dir_all` interprets),
    started before the fault point, a NORMAL end of `x` means the fault point has not been reached — an injected
    error inside `x` is never turned into success -/
def Reports {α : Type} (k : Nat) (x : M α) : Prop :=
  ∀ (s : St) (e : Errno) (a : α) (s' : St), s.inj = .fail k e → e ≠ .ENOENT → e ≠ .EEXIST → s.n ≤ k →
    x s = .ok a s' → s'.n ≤ k ∧ s'.inj = s.inj

theorem reports_pure {α : Type} (k : Nat) (a : α) : Reports k (pure a : M α) := by
  intro s e a' s' hi _ _ hn h
  cases h
  exact ⟨hn, rfl⟩

theorem reports_bind {α β : Type} {k : Nat} {x : M α} {f : α → M β} (hx : Reports k x) (hf : ∀ a, Reports k (f a)) :
    Reports k (x >>= f) := by
  intro s e b s' hi h1 h2 hn h
  change M.bind x f s = _ at h
  unfold M.bind at h
  cases hxs : x s with
  | ok a s1 =>
    rw [hxs] at h
    obtain ⟨hn1, hi1⟩ := hx s e a s1 hi h1 h2 hn hxs
    obtain ⟨hn2, hi2⟩ := hf a s1 e b s' (hi1.trans hi) h1 h2 hn1 h
    exact ⟨hn2, hi2.trans hi1⟩
  | err f' s1 => rw [hxs] at h; cases h
  | crash s1 => rw [hxs] at h; cases h

theorem reports_throw {α : Type} (k : Nat) (f : Fail) : Reports k (Exec.throw f : M α) := by
  intro s e a s' _ _ _ _ h
  cases h

theorem reports_getTree (k : Nat) : Reports k getTree := by
  intro s e a s' _ _ _ hn h
  cases h
  exact ⟨hn, rfl⟩

theorem reports_doOp (k : Nat) (op : Op) : Reports k (doOp op) := by
  intro s e a s' hi _ _ hn h
  unfold doOp at h
  rw [hi] at h
  by_cases hk : k = s.n
  · simp [hk] at h
  · simp only [hk, if_false] at h
    unfold stepOp at h
    cases he : execOp s.t op with
    | ok t' =>
      rw [he] at h
      cases h
      exact ⟨by simp [Exec.rec]; omega, rfl⟩
    | error e' => rw [he] at h; cases h

/-- whether log-write errors count as failures of the command: they do when `state.log(…)?` propagates them, and there
    are none when the command has no log file -/
def LogReports (cfg : Cfg) : Prop := ExecFlags.logErrorsIgnored = false ∨ cfg.log.isSome = false

theorem reports_logM (k : Nat) (cfg : Cfg) (hlog : LogReports cfg) : Reports k (logM cfg) := by
  unfold logM logMF
  by_cases hl : cfg.log.isSome = true
  · simp only [hl, if_true]
    rcases hlog with h | h
    · rw [h]; simp only [Bool.false_eq_true, if_false]; exact reports_doOp k _
    · rw [hl] at h; cases h
  · simp only [hl, Bool.false_eq_true, if_false]; exact reports_pure k ()

/-- `if let Err(e) = x() { …; return Err(e) }`: the handler re-raises, so only the normal end of `x` continues -/
theorem reports_tryCatch {β : Type} {k : Nat} {x : M Unit} {h : Option Fail → M β} (hx : Reports k x)
    (hnone : Reports k (h none)) (hraise : ∀ e (s : St) b s', h (some e) s ≠ .ok b s') :
    Reports k (Exec.tryCatch x >>= h) := by
  intro s e b s' hi h1 h2 hn hr
  change M.bind (Exec.tryCatch x) h s = _ at hr
  unfold M.bind Exec.tryCatch at hr
  cases hxs : x s with
  | ok a s1 =>
    rw [hxs] at hr
    obtain ⟨hn1, hi1⟩ := hx s e a s1 hi h1 h2 hn hxs
    obtain ⟨hn2, hi2⟩ := hnone s1 e b s' (hi1.trans hi) h1 h2 hn1 hr
    exact ⟨hn2, hi2.trans hi1⟩
  | crash s1 => rw [hxs] at hr; cases hr
  | err f s1 =>
    rw [hxs] at hr
    cases f <;> first | (exact absurd hr (hraise _ _ _ _)) | cases hr

theorem reports_writeAll (k : Nat) (p : Path) (c : Bytes) : Reports k (writeAll p c) := by
  unfold writeAll
  by_cases hc : c.isEmpty = true
  · simp only [hc, if_true]; exact reports_pure k ()
  · simp only [hc, Bool.false_eq_true, if_false]; exact reports_doOp k _

theorem reports_replaceFile (k : Nat) (f : Path) (c' : Bytes) (m : Nat) : Reports k (replaceFile f c' m) := by
  unfold replaceFile replaceFileX
  exact reports_bind (reports_doOp k _) (fun _ => reports_bind (reports_writeAll k _ _) (fun _ =>
    reports_bind (reports_doOp k _) (fun _ => reports_doOp k _)))

theorem reports_replaceFileF (k : Nat) (clean : Bool) (f : Path) (c' : Bytes) (m : Nat) :
    Reports k (replaceFileF clean f c' m) := by
  unfold replaceFileF replaceFileFX
  cases clean with
  | false => exact reports_replaceFile k f c' m
  | true =>
    simp only [if_true]
    exact reports_tryCatch (reports_replaceFile k f c' m) (reports_pure k ())
      (fun e s b s' => bind_throw_ne_ok _ _ _ _ _)

theorem reports_editOne (k : Nat) (clean : Bool) (cfg : Cfg) (hlog : LogReports cfg) (hs : List Hunk) (f : Path) (c : Bytes) (m : Nat) :
    Reports k (editOneF clean cfg hs f c m) := by
  unfold editOneF
  refine reports_bind (reports_logM k cfg hlog) (fun _ => ?_)
  cases Edits.applyEdits c (editsFor hs f) with
  | error e => cases e <;> exact reports_throw k _
  | ok c' => exact reports_bind (reports_replaceFileF k clean f c' m) (fun _ => reports_logM k cfg hlog)

theorem reports_contentLoop (k : Nat) (clean : Bool) (cfg : Cfg) (hlog : LogReports cfg) (hs : List Hunk) : ∀ fs : List Path,
    Reports k (contentLoopF clean cfg hs fs) := by
  intro fs
  induction fs with
  | nil => unfold contentLoopF; exact reports_pure k ()
  | cons f fs ih =>
    unfold contentLoopF
    refine reports_bind (reports_getTree k) (fun a => ?_)
    cases lookup a f with
    | none => exact reports_throw k _
    | some n =>
      cases n with
      | dir m => exact reports_throw k _
      | link x => exact reports_throw k _
      | file c m =>
        by_cases hv : (!Utf8.valid c) = true
        · simp only [hv, if_true]; exact reports_throw k _
        · simp only [hv, Bool.false_eq_true, if_false]
          exact reports_tryCatch (reports_editOne k clean cfg hlog hs f c m) ih
            (fun e s b s' => bind_ne_ok _ _ _ _ _ (fun _ s1 => bind_throw_ne_ok _ _ _ _ _))

theorem reports_repeat_log (k : Nat) (cfg : Cfg) (hlog : LogReports cfg) : ∀ n, Reports k (Exec.repeatM n (logM cfg)) := by
  intro n
  induction n with
  | zero => unfold Exec.repeatM; exact reports_pure k ()
  | succ n ih => unfold Exec.repeatM; exact reports_bind (reports_logM k cfg hlog) (fun _ => ih)

theorem reports_renameLoop (k : Nat) (real : Bool) (cfg : Cfg) (hlog : LogReports cfg) : ∀ (rs : List Ren) (perf exec : List (Path × Path)),
    Reports k (renameLoopF real cfg perf exec rs) := by
  intro rs
  induction rs with
  | nil => intro perf exec; unfold renameLoopF; exact reports_pure k perf
  | cons r rs ih =>
    intro perf exec
    unfold renameLoopF
    refine reports_bind (reports_repeat_log k cfg hlog _) (fun _ => ?_)
    dsimp only
    refine reports_tryCatch (reports_bind (reports_logM k cfg hlog) (fun _ => reports_doOp k _)) ?_
      (fun e s b s' => bind_ne_ok _ _ _ _ _ (fun _ s1 => bind_throw_ne_ok _ _ _ _ _))
    exact reports_tryCatch (reports_logM k cfg hlog) (ih _ _)
      (fun e s b s' => bind_ne_ok _ _ _ _ _ (fun _ s1 => bind_throw_ne_ok _ _ _ _ _))

-- no panic ---------------------------------------------------------------------------------------------------------------

theorem runG_true_ne_panic (orig : Bytes) : ∀ (es : List Edits.Edit) (m : Bytes), Edits.runG true orig m es ≠ .error .panic := by
  intro es
  induction es with
  | nil => intro m h; cases h
  | cons e es ih =>
    intro m h
    unfold Edits.runG at h
    cases hs : Edits.stepG true orig m e with
    | ok m' => rw [hs] at h; exact ih m' h
    | error x =>
      rw [hs] at h
      cases h
      unfold Edits.stepG at hs
      cases h1 : Edits.sliceStr orig e.start e.stop with
      | none => simp [h1] at hs
      | some actual =>
        simp only [h1] at hs
        by_cases h2 : actual ≠ e.before
        · simp [h2] at hs
        · simp only [h2, if_false] at hs
          cases h3 : Edits.replaceRange m e.start e.stop e.after with
          | none => simp [h3] at hs
          | some m' => simp [h3] at hs

theorem applyEdits_ne_panic (c : Bytes) (es : List Edits.Edit) : Edits.applyEdits c es ≠ .error .panic :=
  runG_true_ne_panic c es.reverse c

/-- `x` never ends in a panic, whatever the state (every injection spec included) -/
def NoPanic {α : Type} (x : M α) : Prop := ∀ s s', x s ≠ .err .panic s'

theorem np_pure {α : Type} (a : α) : NoPanic (pure a : M α) := by
  intro s s' h; cases h

theorem np_bind {α β : Type} {x : M α} {f : α → M β} (hx : NoPanic x) (hf : ∀ a, NoPanic (f a)) : NoPanic (x >>= f) := by
  intro s s' h
  change M.bind x f s = _ at h
  unfold M.bind at h
  cases hxs : x s with
  | ok a s1 => rw [hxs] at h; exact hf a s1 s' h
  | err e s1 => rw [hxs] at h; cases h; exact hx s s' hxs
  | crash s1 => rw [hxs] at h; cases h

theorem np_throw {α : Type} (f : Fail) (hf : f ≠ .panic) : NoPanic (Exec.throw f : M α) := by
  intro s s' h; cases h; exact hf rfl

theorem np_getTree : NoPanic getTree := by
  intro s s' h; cases h

theorem np_doOp (op : Op) : NoPanic (doOp op) := by
  intro s s' h
  unfold doOp stepOp at h
  cases hi : s.inj <;> rw [hi] at h <;> simp only at h <;>
    (try split at h) <;> (try split at h) <;> (try split at h) <;> first | cases h | skip

theorem np_tryCatch {x : M Unit} (hx : NoPanic x) : NoPanic (Exec.tryCatch x) := by
  intro s s' h
  unfold Exec.tryCatch at h
  cases hxs : x s with
  | ok a s1 => rw [hxs] at h; cases h
  | crash s1 => rw [hxs] at h; cases h
  | err f s1 =>
    rw [hxs] at h
    cases f with
    | panic => exact hx s s1 hxs
    | _ => cases h

theorem np_logM (cfg : Cfg) : NoPanic (logM cfg) := by
  unfold logM logMF
  by_cases hl : cfg.log.isSome = true
  · simp only [hl, if_true]
    cases ExecFlags.logErrorsIgnored with
    | false => simp only [Bool.false_eq_true, if_false]; exact np_doOp _
    | true =>
      simp only [if_true]
      intro s s' h
      rcases ignored_log_cases s with ⟨s1, h1, _⟩ | ⟨s1, h1, _⟩ <;> rw [h1] at h <;> cases h
  · simp only [hl, Bool.false_eq_true, if_false]; exact np_pure ()

theorem np_writeAll (p : Path) (c : Bytes) : NoPanic (writeAll p c) := by
  unfold writeAll
  by_cases hc : c.isEmpty = true
  · simp only [hc, if_true]; exact np_pure ()
  · simp only [hc, Bool.false_eq_true, if_false]; exact np_doOp _

theorem np_ignoreErr {x : M Unit} (hx : NoPanic x) : NoPanic (ignoreErr x) := by
  unfold ignoreErr
  exact np_bind (np_tryCatch hx) (fun _ => np_pure ())

theorem np_replaceFile (f : Path) (c' : Bytes) (m : Nat) : NoPanic (replaceFile f c' m) := by
  unfold replaceFile replaceFileX
  exact np_bind (np_doOp _) (fun _ => np_bind (np_writeAll _ _) (fun _ => np_bind (np_doOp _) (fun _ => np_doOp _)))

theorem np_tryCatch_bind {β : Type} {x : M Unit} {k : Option Fail → M β} (hx : NoPanic x) (hnone : NoPanic (k none))
    (hsome : ∀ e, e ≠ .panic → NoPanic (k (some e))) : NoPanic (Exec.tryCatch x >>= k) := by
  intro s s' h
  change M.bind (Exec.tryCatch x) k s = _ at h
  unfold M.bind Exec.tryCatch at h
  cases hxs : x s with
  | ok a s1 => rw [hxs] at h; exact hnone s1 s' h
  | crash s1 => rw [hxs] at h; cases h
  | err f s1 =>
    rw [hxs] at h
    cases f with
    | panic => exact hx s s1 hxs
    | io e => exact hsome (.io e) (by simp) s1 s' h
    | mismatch => exact hsome .mismatch (by simp) s1 s' h
    | unreadable => exact hsome .unreadable (by simp) s1 s' h
    | destExists => exact hsome .destExists (by simp) s1 s' h
    | rollbackErr => exact hsome .rollbackErr (by simp) s1 s' h
    | patchFailed => exact hsome .patchFailed (by simp) s1 s' h
    | dupId => exact hsome .dupId (by simp) s1 s' h

theorem np_tryOp (op : Op) : NoPanic (tryOp op) := by
  intro s s' h
  unfold tryOp at h
  cases hxs : doOp op s with
  | ok a s1 => rw [hxs] at h; cases h
  | crash s1 => rw [hxs] at h; cases h
  | err f s1 =>
    rw [hxs] at h
    cases f with
    | panic => exact np_doOp op s s1 hxs
    | _ => cases h

theorem np_replaceFileF (clean : Bool) (f : Path) (c' : Bytes) (m : Nat) : NoPanic (replaceFileF clean f c' m) := by
  unfold replaceFileF replaceFileFX
  cases clean with
  | false => exact np_replaceFile f c' m
  | true =>
    simp only [if_true]
    refine np_tryCatch_bind (np_replaceFile f c' m) (np_pure ()) (fun e he => ?_)
    exact np_bind (np_ignoreErr (np_doOp _)) (fun _ => np_throw e he)

theorem np_editOne (clean : Bool) (cfg : Cfg) (hs : List Hunk) (f : Path) (c : Bytes) (m : Nat) :
    NoPanic (editOneF clean cfg hs f c m) := by
  unfold editOneF
  refine np_bind (np_logM cfg) (fun _ => ?_)
  cases h : Edits.applyEdits c (editsFor hs f) with
  | error e =>
    cases e with
    | panic => exact absurd h (applyEdits_ne_panic _ _)
    | mismatch => exact np_throw _ (by simp)
  | ok c' => exact np_bind (np_replaceFileF clean f c' m) (fun _ => np_logM cfg)

theorem np_rollbackLoop (cfg : Cfg) : ∀ (l : List (Path × Path)) (b : Bool), NoPanic (rollbackLoop cfg l b) := by
  intro l
  induction l with
  | nil => intro b; unfold rollbackLoop; exact np_pure b
  | cons x l ih =>
    intro b
    obtain ⟨f, to⟩ := x
    unfold rollbackLoop
    exact np_bind (np_logM cfg) (fun _ => np_bind (np_tryOp _) (fun _ => ih _))

theorem np_rollbackM (cfg : Cfg) (perf : List (Path × Path)) : NoPanic (rollbackM cfg perf) := by
  unfold rollbackM
  refine np_bind (np_logM cfg) (fun _ => np_bind (np_rollbackLoop cfg _ _) (fun b => ?_))
  cases b with
  | false => exact np_logM cfg
  | true => exact np_throw _ (by simp)

theorem np_contentLoop (clean : Bool) (cfg : Cfg) (hs : List Hunk) : ∀ fs : List Path, NoPanic (contentLoopF clean cfg hs fs) := by
  intro fs
  induction fs with
  | nil => unfold contentLoopF; exact np_pure ()
  | cons f fs ih =>
    unfold contentLoopF
    refine np_bind np_getTree (fun a => ?_)
    cases lookup a f with
    | none => exact np_throw _ (by simp)
    | some n =>
      cases n with
      | dir m => exact np_throw _ (by simp)
      | link x => exact np_throw _ (by simp)
      | file c m =>
        by_cases hv : (!Utf8.valid c) = true
        · simp only [hv, if_true]; exact np_throw _ (by simp)
        · simp only [hv, Bool.false_eq_true, if_false]
          refine np_tryCatch_bind (np_editOne clean cfg hs f c m) ih (fun e he => ?_)
          exact np_bind (np_logM cfg) (fun _ => np_bind (np_rollbackM cfg []) (fun _ => np_throw e he))

theorem np_repeat_log (cfg : Cfg) : ∀ n, NoPanic (Exec.repeatM n (logM cfg)) := by
  intro n
  induction n with
  | zero => unfold Exec.repeatM; exact np_pure ()
  | succ n ih => unfold Exec.repeatM; exact np_bind (np_logM cfg) (fun _ => ih)

theorem np_renameLoop (real : Bool) (cfg : Cfg) : ∀ (rs : List Ren) (perf exec : List (Path × Path)), NoPanic (renameLoopF real cfg perf exec rs) := by
  intro rs
  induction rs with
  | nil => intro perf exec; unfold renameLoopF; exact np_pure perf
  | cons r rs ih =>
    intro perf exec
    unfold renameLoopF
    refine np_bind (np_repeat_log cfg _) (fun _ => ?_)
    dsimp only
    refine np_tryCatch_bind (np_bind (np_logM cfg) (fun _ => np_doOp _)) ?_ (fun e he => ?_)
    · refine np_tryCatch_bind (np_logM cfg) (ih _ _) (fun e he => ?_)
      exact np_bind (np_logM cfg) (fun _ => np_bind (np_rollbackM cfg _) (fun _ => np_throw e he))
    · exact np_bind (np_logM cfg) (fun _ => np_bind (np_rollbackM cfg _) (fun _ => np_throw e he))

-- the lock file published by hard link ----------------------------------------------------------------------------------

/-- what the lock path can hold while `acquire` runs: what it held before (`l0`), nothing, or the COMPLETE content -/
def LockStates (l0 : Option Node) (t : Tree) : Prop :=
  lookup t pLock = l0 ∨ lookup t pLock = none ∨ ∃ m, lookup t pLock = some (.file lockText m)

theorem lockTmp_ne : pLockTmp ≠ pLock := by decide

theorem lockStates_frame {l0 : Option Node} {t t' : Tree} {x : Path} (h : LockStates l0 t) (hf : Frame x t t')
    (hx : x ≠ pLock) : LockStates l0 t' := by
  unfold LockStates at *
  rw [hf pLock (fun h => hx h.symm)]
  exact h

theorem mkdir_frame {t t' : Tree} {q x : Path} (hq : q ≠ x) (h : execOp t (.mkdir q) = .ok t') :
    lookup t' x = lookup t x := by
  simp only [execOp] at h
  cases hp : parentOk t q with
  | error e => simp [hp] at h
  | ok u =>
    simp only [hp] at h
    by_cases he : exists_ t q = true
    · simp [he] at h
    · simp only [he, Bool.false_eq_true, if_false] at h
      cases h
      rw [lookup_append_single]
      cases lookup t x with
      | some n => rfl
      | none => simp [hq]

def MkdirStableUpTo (n : Nat) (I : Tree → Prop) : Prop :=
  ∀ t t' q, q.length ≤ n → I t → execOp t (.mkdir q) = .ok t' → I t'

theorem safe_mkdir_try' {n : Nat} {I : Tree → Prop} (hI : MkdirStableUpTo n I) (q : Path) (hq : q.length ≤ n) :
    Safe I I (tryOp (.mkdir q)) (fun _ t => I t) := by
  refine safe_weaken (safe_tryOp (Q := fun _ t => I t) (safe_doOp _ (fun _ h => h) ?_ ?_)) (fun _ h => h) ?_
  · intro t t' hi he; exact ⟨hI _ _ _ hq hi he, hI _ _ _ hq hi he⟩
  · intro t hi
    rw [partialOp_not_write _ _ (by intro p c h; cases h)]
    exact hi
  · intro r t h; cases r <;> exact h

theorem safe_mkdirUp' {n : Nat} {I : Tree → Prop} (hI : MkdirStableUpTo n I) : ∀ (fuel : Nat) (p : Path),
    p.length ≤ n → Safe I I (mkdirUp fuel p) (fun l t => I t ∧ ∀ q ∈ l, q.length ≤ n) := by
  intro fuel
  induction fuel with
  | zero => intro p _; unfold mkdirUp; exact safe_pure _ (fun _ h => ⟨h, by simp⟩)
  | succ k ih =>
    intro p hpn
    unfold mkdirUp
    by_cases hp : p.isEmpty = true
    · simp only [hp, if_true]; exact safe_pure _ (fun _ h => ⟨h, by simp⟩)
    · simp only [hp, Bool.false_eq_true, if_false]
      refine safe_bind (safe_mkdir_try' hI p hpn) (fun r => ?_)
      cases r with
      | none => exact safe_pure _ (fun _ h => ⟨h, by simp⟩)
      | some e =>
        have hdl : p.dropLast.length ≤ n := by simp; omega
        cases e <;> first
          | exact safe_throw _ (fun _ h => h)
          | (refine safe_bind (ih _ hdl) (fun rest => ?_)
             refine safe_pure _ ?_
             intro t h
             refine ⟨h.1, ?_⟩
             intro q hq
             rcases List.mem_cons.mp hq with h1 | h1
             · rw [h1]; exact hpn
             · exact h.2 q h1)
          | (refine safe_bind safe_getTree (fun a => ?_)
             by_cases hd : isDir a p = true
             · simp only [hd, if_true]; exact safe_pure _ (fun _ h => ⟨h.2, by simp⟩)
             · simp only [hd, Bool.false_eq_true, if_false]; exact safe_throw _ (fun _ h => h.2))

theorem safe_mkdirDown' {n : Nat} {I : Tree → Prop} (hI : MkdirStableUpTo n I) : ∀ (l : List Path),
    (∀ q ∈ l, q.length ≤ n) → Safe I I (mkdirDown l) (fun _ t => I t) := by
  intro l
  induction l with
  | nil => intro _; unfold mkdirDown; exact safe_pure _ (fun _ h => h)
  | cons p ps ih =>
    intro hl
    have hps : ∀ q ∈ ps, q.length ≤ n := fun q hq => hl q (List.mem_cons_of_mem _ hq)
    unfold mkdirDown
    refine safe_bind (safe_mkdir_try' hI p (hl p List.mem_cons_self)) (fun r => ?_)
    cases r with
    | none => exact ih hps
    | some e =>
      cases e <;> first
        | exact safe_throw _ (fun _ h => h)
        | (refine safe_bind safe_getTree (fun a => ?_)
           by_cases hd : isDir a p = true
           · simp only [hd, if_true]; exact safe_weaken (ih hps) (fun _ h => h.2) (fun _ _ h => h)
           · simp only [hd, Bool.false_eq_true, if_false]; exact safe_throw _ (fun _ h => h.2))

theorem safe_mkdirs' {n : Nat} {I : Tree → Prop} (hI : MkdirStableUpTo n I) (p : Path) (hp : p.length ≤ n) :
    Safe I I (mkdirs p) (fun _ t => I t) := by
  unfold mkdirs
  refine safe_bind (safe_mkdirUp' hI _ p hp) (fun l => ?_)
  refine safe_assume (∀ q ∈ l, q.length ≤ n) (fun _ h => h.2) (fun hl => ?_)
  refine safe_weaken (safe_mkdirDown' hI l.reverse (fun q hq => hl q (List.mem_reverse.mp hq))) (fun _ h => h.1)
    (fun _ _ h => h)

theorem link_ok {t t' : Tree} {a b : Path} (h : execOp t (.link a b) = .ok t') :
    (∃ c m, lookup t a = some (.file c m) ∧ lookup t' b = some (.file c m)) ∧ Frame b t t' := by
  simp only [execOp] at h
  cases hla : lookup t a with
  | none => simp [hla] at h
  | some n =>
    cases n with
    | dir m => simp [hla] at h
    | link x => simp [hla] at h
    | file c m =>
      simp only [hla] at h
      cases hp : parentOk t b with
      | error e => simp [hp] at h
      | ok u =>
        simp only [hp] at h
        by_cases he : exists_ t b = true
        · simp [he] at h
        · simp only [he, Bool.false_eq_true, if_false] at h
          cases h
          have hnone : lookup t b = none := by
            unfold exists_ at he
            cases hl : lookup t b with
            | none => rfl
            | some x => simp [hl] at he
          refine ⟨⟨c, m, rfl, lookup_snoc_self _ _ _ hnone⟩, ?_⟩
          intro q hq
          rw [lookup_append_single]
          cases lookup t q with
          | some x => rfl
          | none =>
            have : ¬ b = q := fun h => hq h.symm
            simp [this]

/-- `acquire` in the publish-by-hard-link variant, under EVERY fault and crash point: the lock path holds what it
    held before, nothing, or the complete content — it is never observed empty or half written -/
theorem safe_acquire_link (stale cleans : Bool) (l0 : Option Node) :
    Safe (LockStates l0) (fun t => lookup t pLock = l0) (acquireF true stale cleans) (fun _ t => LockStates l0 t) := by
  have hR : ∀ t, lookup t pLock = l0 → LockStates l0 t := fun _ h => Or.inl h
  have hst : MkdirStableUpTo 1 (LockStates l0) := by
    intro t t' q hq hi he
    have hne : q ≠ pLock := by
      intro h; rw [h] at hq; simp [pLock] at hq
    unfold LockStates at *
    rw [mkdir_frame hne he]
    exact hi
  unfold acquireF
  -- remove an old lock file (or leave it)
  refine safe_bind (Q := fun _ t => LockStates l0 t) ?_ (fun _ => ?_)
  · unfold removeOldLock
    refine safe_bind safe_getTree (fun a => ?_)
    have hunlink : Safe (LockStates l0) (fun t => a = t ∧ lookup t pLock = l0) (doOp (.unlink pLock))
        (fun _ t => LockStates l0 t) := by
      refine safe_doOp _ (fun t h => hR _ h.2) ?_ ?_
      · intro t t' _ he
        simp only [execOp] at he
        have hn : lookup t' pLock = none := by
          cases hl : lookup t pLock with
          | none => simp [hl] at he
          | some n =>
            cases n with
            | dir m => simp [hl] at he
            | file c m => simp only [hl] at he; cases he; rw [lookup_removeKey]; simp
            | link x => simp only [hl] at he; cases he; rw [lookup_removeKey]; simp
        exact ⟨Or.inr (Or.inl hn), Or.inr (Or.inl hn)⟩
      · intro t h
        rw [partialOp_not_write _ _ (by intro p c h; cases h)]
        exact hR _ h.2
    cases lookup a pLock with
    | none => exact safe_pure () (fun t h => hR _ h.2)
    | some n =>
      cases n with
      | dir m => exact safe_pure () (fun t h => hR _ h.2)
      | link x => exact safe_pure () (fun t h => hR _ h.2)
      | file c m =>
        by_cases hc : (!c.isEmpty || stale) = true
        · simp only [hc, if_true]; exact hunlink
        · simp only [hc, Bool.false_eq_true, if_false]; exact safe_pure () (fun t h => hR _ h.2)
  refine safe_bind (safe_mkdirs' hst pR (by simp [pR])) (fun _ => ?_)
  simp only [if_true]
  -- write the private temp file
  refine safe_bind (Q := fun _ t => LockStates l0 t ∧ ∃ m, lookup t pLockTmp = some (.file [] m))
    (safe_doOp _ (fun _ h => h) ?_ ?_) (fun _ => ?_)
  · intro t t' h he
    obtain ⟨hfr, _, htr⟩ := frame_openw he
    have := lockStates_frame h hfr lockTmp_ne
    exact ⟨⟨this, htr rfl⟩, this⟩
  · intro t h
    rw [partialOp_not_write _ _ (by intro p c h; cases h)]
    exact h
  refine safe_bind (Q := fun _ t => LockStates l0 t ∧ ∃ m, lookup t pLockTmp = some (.file lockText m)) ?_ (fun _ => ?_)
  · unfold writeAll
    have hne : lockText.isEmpty = false := by decide
    simp only [hne, Bool.false_eq_true, if_false]
    refine safe_doOp _ (fun _ h => h.1) ?_ ?_
    · intro t t' ⟨h, m, hl⟩ he
      obtain ⟨hfr, c1, m1, h0, h1⟩ := frame_write he
      rw [hl] at h0; cases h0
      have := lockStates_frame h hfr lockTmp_ne
      exact ⟨⟨this, m, by simpa using h1⟩, this⟩
    · intro t ⟨h, _⟩
      exact lockStates_frame h (frame_partial_write t pLockTmp lockText) lockTmp_ne
  -- publish it
  refine safe_bind (Q := fun _ t => LockStates l0 t) ?_ (fun r => ?_)
  · refine safe_weaken (safe_tryOp (Q := fun _ t => LockStates l0 t) (safe_doOp _ (fun _ h => h.1) ?_ ?_)) (fun _ h => h) ?_
    · intro t t' ⟨h, m, hl⟩ he
      obtain ⟨⟨c, m', ha, hb⟩, _⟩ := link_ok he
      rw [hl] at ha; cases ha
      have : LockStates l0 t' := Or.inr (Or.inr ⟨m, hb⟩)
      exact ⟨this, this⟩
    · intro t ⟨h, _⟩
      rw [partialOp_not_write _ _ (by intro p c h; cases h)]
      exact h
    · intro r t h; cases r <;> exact h
  refine safe_bind (Q := fun _ t => LockStates l0 t) (safe_ignoreErr (safe_doOp _ (fun _ h => h) ?_ ?_)) (fun _ => ?_)
  · intro t t' h he
    have := lockStates_frame h (frame_unlink he) lockTmp_ne
    exact ⟨this, this⟩
  · intro t h
    rw [partialOp_not_write _ _ (by intro p c h; cases h)]
    exact h
  cases r with
  | none => exact safe_pure () (fun _ h => h)
  | some e => exact safe_throw _ (fun _ h => h)

-- a rename onto a free name is undone by the opposite rename ------------------------------------------------------------

theorem subst_base (a b : Path) : subst a b a = b := by
  have := subst_append a b []
  simpa using this

/-- `rename a b` onto a free name `b` under which nothing lives, followed by `rename b a`, gives back the SAME tree -/
theorem rename_inverse {t t' : Tree} {a b : Path} (h : rename t a b = .ok t') (hab : a ≠ b)
    (hfree : lookup t b = none) (hunder : ∀ e ∈ t, pre b e.1 = false) (hpar : parentOk t' a = .ok ()) :
    rename t' b a = .ok t := by
  unfold rename at h
  cases hla : lookup t a with
  | none => simp [hla] at h
  | some na =>
    simp only [hla] at h
    cases hp : parentOk t b with
    | error e => simp [hp] at h
    | ok u =>
      have habb : (a == b) = false := by simpa using hab
      simp only [hp, habb, Bool.false_eq_true, if_false] at h
      by_cases hpre : pre a b = true
      · simp [hpre] at h
      · simp only [hpre, Bool.false_eq_true, if_false, hfree] at h
        cases h
        -- facts about the keys
        obtain ⟨ea, hea, heak⟩ := mem_of_lookup_some hla
        have hba : pre b a = false := by rw [← heak]; exact hunder ea hea
        have hFa : subst a b a = b := subst_base a b
        have hlb : lookup (t.map (fun e => (subst a b e.1, e.2))) b = some na := by
          have := lookup_map_inj (subst a b) t a (by
            intro e he hEq
            rw [hFa] at hEq
            cases hq : pre a e.1 with
            | true =>
              obtain ⟨r, hr⟩ := pre_iff.1 hq
              rw [hr, subst_append] at hEq
              have : r = [] := by
                have := congrArg List.length hEq
                simpa using this
              rw [hr, this]; simp
            | false =>
              rw [subst_of_not_pre hq] at hEq
              have := hunder e he
              rw [hEq, pre_refl] at this
              cases this)
          rw [hFa] at this
          rw [this]; exact hla
        have hla' : lookup (t.map (fun e => (subst a b e.1, e.2))) a = none := by
          apply lookup_map_none
          intro e he hEq
          cases hq : pre a e.1 with
          | true =>
            obtain ⟨r, hr⟩ := pre_iff.1 hq
            rw [hr, subst_append] at hEq
            have : pre b a = true := pre_iff.2 ⟨r, hEq.symm⟩
            rw [hba] at this; cases this
          | false =>
            rw [subst_of_not_pre hq] at hEq
            rw [hEq, pre_refl] at hq
            cases hq
        unfold rename
        have hbaa : (b == a) = false := by simpa using fun h : b = a => hab h.symm
        simp only [hlb, hpar, hbaa, Bool.false_eq_true, if_false, hba, hla']
        congr 1
        rw [List.map_map]
        conv => rhs; rw [← List.map_id t]
        apply List.map_congr_left
        intro e he
        simp only [Function.comp, id]
        cases hq : pre a e.1 with
        | true =>
          obtain ⟨r, hr⟩ := pre_iff.1 hq
          have : subst b a (subst a b e.1) = e.1 := by rw [hr, subst_append, subst_append]
          rw [this]
        | false =>
          rw [subst_of_not_pre hq, subst_of_not_pre (hunder e he)]

/-- execute a list of renames in order -/
def execAll : Tree → List (Path × Path) → Option Tree
  | t, [] => some t
  | t, (a, b) :: rest =>
    match rename t a b with
    | .ok t' => execAll t' rest
    | .error _ => none

/-- the decidable-by-running guard of the rollback theorem: every executed rename went onto a free name under which
    nothing lives, and the source's parent directory is still there afterwards (all true when the pre-flight passed
    on a well-formed tree) -/
def revAlongB : Tree → List (Path × Path) → Bool
  | _, [] => true
  | t, (a, b) :: rest =>
    !(a == b) && (lookup t b).isNone && t.all (fun e => !pre b e.1) &&
    (match rename t a b with
     | .ok t' => decide (parentOk t' a = .ok ()) && revAlongB t' rest
     | .error _ => true)

def RevAlong (t : Tree) (l : List (Path × Path)) : Prop := revAlongB t l = true

theorem rollback_append (t : Tree) (l1 l2 : List (Path × Path)) (err : Option Errno) :
    Apply.rollback t (l1 ++ l2) err = Apply.rollback (Apply.rollback t l1 err).1 l2 (Apply.rollback t l1 err).2 := by
  induction l1 generalizing t err with
  | nil => rfl
  | cons x l1 ih =>
    obtain ⟨f, to⟩ := x
    simp only [List.cons_append, Apply.rollback]
    cases rename t to f with
    | ok t' => exact ih t' err
    | error e => exact ih t _

/-- rollback_restores_paths: reverting the renames AS THEY WERE EXECUTED, in reverse order, restores the tree exactly —
    for every tree and every list of renames (nested directories included) that satisfies the guard -/
theorem rollback_restores (l : List (Path × Path)) : ∀ (t tn : Tree), execAll t l = some tn → RevAlong t l →
    Apply.rollback tn l.reverse none = (t, none) := by
  induction l with
  | nil => intro t tn h _; simp [execAll] at h; subst h; rfl
  | cons x rest ih =>
    intro t tn h hg
    obtain ⟨a, b⟩ := x
    unfold RevAlong revAlongB at hg
    simp only [Bool.and_eq_true, Bool.not_eq_true', beq_eq_false_iff_ne, ne_eq, Option.isNone_iff_eq_none,
      List.all_eq_true] at hg
    obtain ⟨⟨⟨hab, hfree⟩, hunder⟩, hnext⟩ := hg
    simp only [execAll] at h
    cases hr : rename t a b with
    | error e => rw [hr] at h; cases h
    | ok t1 =>
      rw [hr] at h
      rw [hr] at hnext
      simp only [Bool.and_eq_true, decide_eq_true_eq] at hnext
      obtain ⟨hpar, hg1⟩ := hnext
      have h1 := ih t1 tn h hg1
      rw [List.reverse_cons, rollback_append, h1]
      simp only [Apply.rollback]
      rw [rename_inverse hr hab hfree (fun e he => by simpa using hunder e he) hpar]

end ExecL
