import RModel.Lemmas.Undo
import RModel.Lemmas.PatchParse
open Fs Apply RenamePhase Undo Patch
namespace UndoLemmas

def setFile (c : Bytes) : Node → Node
  | .file _ m => .file c m
  | n => n

theorem lookup_setContent (T : Tree) (f : Path) (c : Bytes) (k : Path) :
    lookup (setContent T f c) k = if k = f then (lookup T k).map (setFile c) else lookup T k := by
  rw [setContent_eq, lookup_map_node]
  by_cases h : k = f
  · subst h
    simp only [if_true]
    cases lookup T k with
    | none => rfl
    | some n => simp [setNode, setFile]; cases n <;> rfl
  · have : (k == f) = false := by simpa using h
    simp only [h, if_false]
    cases lookup T k with
    | none => rfl
    | some n => simp [setNode, this]

theorem keys_setContent (T : Tree) (f : Path) (c : Bytes) : (setContent T f c).map (·.1) = T.map (·.1) := by
  rw [setContent_eq]; simp [List.map_map, Function.comp_def]

/-- trees with the same key list, distinct keys and the same lookups are equal -/
theorem tree_ext : ∀ (t t' : Tree), t'.map (·.1) = t.map (·.1) → t.Pairwise (fun a b => a.1 ≠ b.1) →
    (∀ k, lookup t' k = lookup t k) → t' = t := by
  intro t
  induction t with
  | nil => intro t' hk _ _; simpa using hk
  | cons e t ih =>
    intro t' hk hd hl
    cases t' with
    | nil => simp at hk
    | cons e' t' =>
      simp only [List.map_cons, List.cons.injEq] at hk
      have hc := List.pairwise_cons.1 hd
      have h1 := hl e.1
      have he' : e'.2 = e.2 := by
        simp [lookup, List.find?_cons, hk.1] at h1; exact h1
      have hee : e' = e := Prod.ext hk.1 he'
      subst hee
      congr 1
      apply ih t' hk.2 hc.2
      intro k
      by_cases hke : e'.1 = k
      · -- k is the head key: it occurs in neither tail
        have n1 : lookup t k = none := by
          unfold lookup
          have : t.find? (fun x => x.1 == k) = none := by
            rw [List.find?_eq_none]; intro x hx; have := hc.1 x hx; simpa [← hke] using fun h => this h.symm
          rw [this]
        have n2 : lookup t' k = none := by
          unfold lookup
          have : t'.find? (fun x => x.1 == k) = none := by
            rw [List.find?_eq_none]; intro x hx
            have hxk : x.1 ∈ t'.map (·.1) := List.mem_map.2 ⟨x, hx, rfl⟩
            rw [hk.2] at hxk
            obtain ⟨y, hy, hyx⟩ := List.mem_map.1 hxk
            have := hc.1 y hy
            simpa [← hke, ← hyx] using fun h => this h.symm
          rw [this]
        rw [n1, n2]
      · have := hl k
        have hb : (e'.1 == k) = false := by simpa using hke
        simp only [lookup, List.find?_cons, hb] at this
        exact this



/-- what is assumed about the diff library (never an axiom: a hypothesis of the theorems) -/
structure Contract (cfg : Cfg) : Prop where
  roundtrip : ∀ a b, cfg.patchApply (cfg.diff a b) a = some b
  emptyId : ∀ p a, p.hunks = [] → cfg.patchApply p a = some a
  nameBlind : ∀ (p : Patch.Patch) n1 n2 a, cfg.patchApply { p with old := n1, new := n2 } a = cfg.patchApply p a
  names : ∀ a b, (cfg.diff a b).old = some b!"original" ∧ (cfg.diff a b).new = some b!"modified"
  selfParse : ∀ a b, Patch.parse (fmt (cfg.diff a b)) = .ok (cfg.diff a b)

theorem Contract.eq_of_noHunks {cfg : Cfg} (hc : Contract cfg) {a b : Bytes} (h : (cfg.diff a b).hunks = []) :
    a = b := by
  have h1 := hc.roundtrip a b
  rw [hc.emptyId _ a h] at h1
  exact Option.some.inj h1

theorem applyOne_good (cfg : Cfg) (hc : Contract cfg) (T : Tree) (f cur : Path) (c1 c0 : Bytes) (m : Nat)
    (hl : lookup T f = some (.file c1 m)) (hv : Utf8.valid c1 = true)
    (hh : (cfg.diff c1 c0).hunks ≠ []) :
    applyOne cfg T { orig := f, cur := cur,
                     text := rewriteHeaders (fmt (cfg.diff c1 c0)) (joinPath cur) (joinPath f) }
      = (setContent T f c0, false) := by
  unfold applyOne readStr
  have hp := PatchParse.parse_rewrite (cfg.diff c1 c0) (joinPath cur) (joinPath f) (hc.names c1 c0).1 (hc.names c1 c0).2 hh
    (hc.selfParse c1 c0)
  simp only [hl, hv, if_true, hp, hc.nameBlind, hc.roundtrip]

/-- what the content phase does, lookup-wise -/
theorem contentPhase_lookup (hs : List Apply.Hunk) (fs : List Path) : ∀ (t t1 : Tree),
    contentPhase hs t fs = (.ok, t1) →
    t1.map (·.1) = t.map (·.1) ∧
    (∀ k, k ∉ fs → lookup t1 k = lookup t k) ∧
    (∀ f ∈ fs, ∃ c0 m c1, lookup t f = some (.file c0 m) ∧ Utf8.valid c0 = true ∧
        lookup t1 f = some (.file c1 m)) ∧
    (∀ k tg, lookup t1 k = some (.link tg) ↔ lookup t k = some (.link tg)) := by
  induction fs with
  | nil =>
    intro t t1 h
    simp only [contentPhase, Prod.mk.injEq, true_and] at h
    subst h
    exact ⟨rfl, fun _ _ => rfl, fun f hf => absurd hf (by simp), fun _ _ => Iff.rfl⟩
  | cons f fs ih =>
    intro t t1 h
    simp only [contentPhase] at h
    cases hl : lookup t f with
    | none => simp [hl] at h
    | some n =>
      cases n with
      | dir m => simp [hl] at h
      | link tg => simp [hl] at h
      | file c m =>
        simp only [hl] at h
        by_cases hv : Utf8.valid c = true
        · simp only [hv, Bool.not_true, Bool.false_eq_true, if_false] at h
          cases he : Edits.applyEdits c (editsFor hs f) with
          | error e => rw [he] at h; cases e <;> simp at h
          | ok c' =>
            rw [he] at h
            simp only at h
            obtain ⟨hk, hout, hin, hlink⟩ := ih _ _ h
            have hlf : lookup (setContent t f c') f = some (.file c' m) := by
              rw [lookup_setContent]; simp [hl, setFile]
            refine ⟨hk.trans (keys_setContent t f c'), ?_, ?_, ?_⟩
            · intro k hk'
              have hkf : k ≠ f := fun e => hk' (by rw [e]; exact List.mem_cons_self)
              rw [hout k (fun h' => hk' (List.mem_cons_of_mem _ h')), lookup_setContent, if_neg hkf]
            · intro g hg
              by_cases hgf : g = f
              · subst hgf
                by_cases hgin : g ∈ fs
                · obtain ⟨c0', m', c1, h1, _, h3⟩ := hin g hgin
                  rw [hlf] at h1
                  have hm : m = m' := by injection h1 with h1; injection h1 with _ h1
                  exact ⟨c, m, c1, hl, hv, by rw [h3, hm]⟩
                · exact ⟨c, m, c', hl, hv, by rw [hout g hgin, hlf]⟩
              · have hgin : g ∈ fs := by
                  rcases List.mem_cons.1 hg with h' | h'
                  · exact absurd h' hgf
                  · exact h'
                obtain ⟨c0', m', c1, h1, h2, h3⟩ := hin g hgin
                rw [lookup_setContent, if_neg hgf] at h1
                exact ⟨c0', m', c1, h1, h2, h3⟩
            · intro k tg
              rw [hlink k tg, lookup_setContent]
              by_cases hkf : k = f
              · subst hkf; simp [hl, setFile]
              · simp [hkf]
        · have : Utf8.valid c = false := by simpa using hv
          simp [this] at h


def GoodAt (cfg : Cfg) (C0 : Path → Bytes) (T : Tree) (pr : PatchRec) : Prop :=
  ∃ c1 m, lookup T pr.orig = some (.file c1 m) ∧ Utf8.valid c1 = true ∧
    (cfg.diff c1 (C0 pr.orig)).hunks ≠ [] ∧
    pr.text = rewriteHeaders (fmt (cfg.diff c1 (C0 pr.orig))) (joinPath pr.cur) (joinPath pr.orig)

/-- STEP 2 of undo over patches that are all applicable: every patched file gets its original content -/
theorem applyPatches_good (cfg : Cfg) (hc : Contract cfg) (C0 : Path → Bytes) :
    ∀ (ps : List PatchRec) (T : Tree) (n : Nat),
    ps.Pairwise (fun a b => a.orig ≠ b.orig) → (∀ pr ∈ ps, GoodAt cfg C0 T pr) →
    ∃ T', applyPatches cfg T ps n = (T', n) ∧ T'.map (·.1) = T.map (·.1) ∧
      ∀ k, lookup T' k = if k ∈ ps.map (·.orig) then (lookup T k).map (setFile (C0 k)) else lookup T k := by
  intro ps
  induction ps with
  | nil => intro T n _ _; exact ⟨T, rfl, rfl, fun k => by simp⟩
  | cons pr ps ih =>
    intro T n hd hg
    have hc' := List.pairwise_cons.1 hd
    obtain ⟨c1, m, hl, hv, hh, htext⟩ := hg pr List.mem_cons_self
    have hone : applyOne cfg T pr = (setContent T pr.orig (C0 pr.orig), false) := by
      have := applyOne_good cfg hc T pr.orig pr.cur c1 (C0 pr.orig) m hl hv hh
      rw [← htext] at this
      exact this
    have hg2 : ∀ pr' ∈ ps, GoodAt cfg C0 (setContent T pr.orig (C0 pr.orig)) pr' := by
      intro pr' hpr'
      obtain ⟨c1', m', hl', rest⟩ := hg pr' (List.mem_cons_of_mem _ hpr')
      refine ⟨c1', m', ?_, rest⟩
      rw [lookup_setContent, if_neg (fun h => hc'.1 pr' hpr' h.symm)]
      exact hl'
    obtain ⟨T', h1, h2, h3⟩ := ih (setContent T pr.orig (C0 pr.orig)) n hc'.2 hg2
    refine ⟨T', ?_, h2.trans (keys_setContent _ _ _), ?_⟩
    · simp only [applyPatches, hone, Bool.false_eq_true, if_false]
      exact h1
    · intro k
      rw [h3 k, lookup_setContent]
      by_cases hk : k = pr.orig
      · subst hk
        have hnot : pr.orig ∉ ps.map (·.orig) := by
          intro hmem
          obtain ⟨pr', hpr', he⟩ := List.mem_map.1 hmem
          exact hc'.1 pr' hpr' he.symm
        simp [hnot]
      · have : (k ∈ (pr :: ps).map (·.orig)) ↔ (k ∈ ps.map (·.orig)) := by
          simp [hk]
        by_cases hin : k ∈ ps.map (·.orig)
        · rw [if_pos hin, if_neg hk, if_pos (this.2 hin)]
        · rw [if_neg hin, if_neg hk, if_neg (fun h => hin (this.1 h))]

end UndoLemmas
