import RModel.Lemmas.LineKeys
import RModel.Lemmas.Edits
/-
  C06 lemmas, part 7: composition — the variant map of a term pair typed in boundary-visible styles, and the whole
  one-line pipeline on `d₁ ++ render st ws_s ++ d₂`.
-/
open B CaseModel

namespace LinePipeline

variable {A : Acr}

/-- the inserts, with the tokenizer round trip applied -/
theorem variantInserts_words (hA : AcrOk A) (hS : AcrStable A) {ws_s ws_r : List Bytes} {sst rst : Style}
    (hws : Words ws_s) (hwr : Words ws_r) (hNs : Neutral A ws_s) (hNr : Neutral A ws_r)
    (hsst : sst ∈ V12) (hrst : rst ∈ V12)
    (hUs : sst ∈ upperStyles → UpperSafe A ws_s) (hUr : rst ∈ upperStyles → UpperSafe A ws_r)
    (styles : List Style) (sing plur : Bytes → Option Bytes) :
    variantInserts A (some styles) false sing plur (toStyle A ws_s sst) (toStyle A ws_r rst) =
      styles.map (fun st' => (toStyle A ws_s st', some st', toStyle A ws_r st')) := by
  simp only [variantInserts, Option.isNone_some, Bool.false_eq_true, ↓reduceIte, List.nil_append, Option.getD_some,
    variantModels, List.map_cons, List.map_nil, toStyle_parse_toStyle hA hS hws hNs hsst hUs,
    toStyle_parse_toStyle hA hS hwr hNr hrst hUr]
  induction styles with
  | nil => rfl
  | cons st' l ih => simp only [List.flatMap_cons, List.map_cons, List.singleton_append, ih]

theorem isCont_of_lt {b : UInt8} (h : b.toNat < 128) : Edits.isCont b = false := by
  simp only [Edits.isCont, Bool.and_eq_false_iff, decide_eq_false_iff_not]; left; omega

theorem alpha_lt {c : UInt8} (h : isAlpha c = true) : c.toNat < 128 := by
  simp only [isAlpha, isUpper, isLower, Bool.or_eq_true, Bool.and_eq_true, decide_eq_true_eq] at h; omega

/-- one edit at the occurrence turns `d₁ ++ x ++ d₂` into `d₁ ++ r ++ d₂` -/
theorem applyEdits_occurrence {d₁ x d₂ r : Bytes} (hx : ∃ c cs, x = c :: cs ∧ isAlpha c = true)
    (hr : ∀ b, r.head? = some b → b.toNat < 128) (h2 : CharStart d₂) :
    Edits.applyEdits (d₁ ++ x ++ d₂)
      [{ before := x, after := r, start := d₁.length, stop := d₁.length + x.length }] = .ok (d₁ ++ r ++ d₂) := by
  obtain ⟨c, cs, rfl, hc⟩ := hx
  have t2 : (d₁ ++ (c :: cs) ++ d₂).take (d₁.length + (c :: cs).length) = d₁ ++ (c :: cs) := by
    rw [← List.length_append, List.take_left']; rfl
  have t3 : (d₁ ++ (c :: cs) ++ d₂).drop (d₁.length + (c :: cs).length) = d₂ := by
    rw [← List.length_append, List.drop_left']; rfl
  have t1 : (d₁ ++ (c :: cs) ++ d₂).take d₁.length = d₁ := by rw [List.append_assoc, List.take_left']; rfl
  rw [Edits.applyEdits_eq_spec]
  · simp only [Edits.spec, List.drop_zero, Nat.sub_zero, t1, t3]
  · simp only [Edits.Consistent, Nat.zero_le, true_and, List.length_append, t2, List.drop_left']
    refine ⟨by omega, by omega, ?_, ?_, ?_, by omega⟩
    · unfold Edits.isCharBoundary
      split
      · rfl
      · have : (d₁ ++ (c :: cs) ++ d₂)[d₁.length]? = some c := by
          rw [List.append_assoc, List.getElem?_append_right (Nat.le_refl _)]; simp
        rw [this]
        simp only [isCont_of_lt (alpha_lt hc), Bool.not_false]
    · unfold Edits.isCharBoundary
      split
      · rfl
      · rw [getElem?_mid]
        cases d₂ with
        | nil => simp
        | cons z d =>
          simp only [List.head?_cons]
          rw [h2 z rfl]; rfl
    · intro b hb; exact isCont_of_lt (hr b hb)

-- the CLI's variant table (case_model.rs, converted pair by pair) -------------------------------------------------------------

theorem lookup_map_single (k : Bytes) : ∀ (m : List (Bytes × Bytes)),
    (m.map (fun e => (e.1, [((none : Option Style), e.2)]))).lookup k = (m.lookup k).map (fun v => [(none, v)])
  | [] => rfl
  | e :: m => by
    simp only [List.map_cons, List.lookup]
    cases h : k == e.1 with
    | true => simp
    | false => simpa using lookup_map_single k m

theorem lookup_filter_nonempty {k : Bytes} (hk : k ≠ []) : ∀ (m : List (Bytes × Bytes)),
    (m.filter (fun e => !e.1.isEmpty)).lookup k = m.lookup k
  | [] => rfl
  | e :: m => by
    by_cases he : e.1.isEmpty = true
    · have hke : (k == e.1) = false := by
        cases h : k == e.1 with
        | false => rfl
        | true =>
          rw [beq_iff_eq] at h
          rw [List.isEmpty_iff] at he
          exact absurd (h.trans he) hk
      simp only [List.filter_cons, he, Bool.not_true, Bool.false_eq_true, ↓reduceIte, List.lookup, hke]
      exact lookup_filter_nonempty hk m
    · simp only [List.filter_cons, he, Bool.not_false, ↓reduceIte, List.lookup]
      cases h : k == e.1 with
      | true => rfl
      | false => exact lookup_filter_nonempty hk m

theorem mem_keys_of_lookup {α} {k : Bytes} : ∀ {m : List (Bytes × α)} {v : α}, m.lookup k = some v → k ∈ m.map (·.1)
  | [], _, h => by simp at h
  | e :: m, v, h => by
    simp only [List.lookup] at h
    cases hk : k == e.1 with
    | true => rw [beq_iff_eq] at hk; simp [hk]
    | false => rw [hk] at h; exact List.mem_cons_of_mem _ (mem_keys_of_lookup h)

theorem keys_insertIfAbsent {k : Bytes} (m : List (Bytes × Bytes)) (k' v : Bytes)
    (h : k ∈ (insertIfAbsent m k' v).map (·.1)) : k ∈ m.map (·.1) ∨ k = k' := by
  unfold insertIfAbsent at h
  split at h
  · exact Or.inl h
  · simp only [List.map_append, List.map_cons, List.map_nil, List.mem_append, List.mem_singleton] at h
    exact h

theorem keys_buildMap_foldl {k : Bytes} : ∀ (rows m : List (Bytes × Bytes)),
    k ∈ (rows.foldl (fun m e => insertIfAbsent m e.1 e.2) m).map (·.1) → k ∈ m.map (·.1) ∨ k ∈ rows.map (·.1)
  | [], _, h => Or.inl h
  | e :: rows, m, h => by
    rcases keys_buildMap_foldl rows _ h with h' | h'
    · rcases keys_insertIfAbsent m e.1 e.2 h' with h'' | h''
      · exact Or.inl h''
      · exact Or.inr (by simp [h''])
    · exact Or.inr (List.mem_cons_of_mem _ h')

/-- the CLI table of a term pair typed in boundary-visible styles, explicit style list, plural variants off:
    its keys are renderings of the search words, and the rendering in an enabled boundary-visible style `st` maps to the
    replacement words in `st` — whatever style the replacement was TYPED in -/
theorem cli_map_words (hA : AcrOk A) (hS : AcrStable A) {ws_s ws_r : List Bytes} {sst rst st : Style}
    (h2 : 2 ≤ ws_s.length) (hws : Words ws_s) (hwr : Words ws_r) (hNs : Neutral A ws_s) (hNr : Neutral A ws_r)
    (hsst : sst ∈ V12) (hrst : rst ∈ V12)
    (hUs : sst ∈ upperStyles → UpperSafe A ws_s) (hUr : rst ∈ upperStyles → UpperSafe A ws_r)
    (styles : List Style) (sing plur : Bytes → Option Bytes) (hst : st ∈ styles) (hst12 : st ∈ V12) :
    let vm := cliVariantMap A (some styles) false sing plur (toStyle A ws_s sst) (toStyle A ws_r rst)
    (∀ k ∈ vm.keys, ∃ st', k = toStyle A ws_s st') ∧ toStyle A ws_s st ∈ vm.keys ∧
      vm.get (toStyle A ws_s st) = some (toStyle A ws_r st) := by
  intro vm
  have hne : toStyle A ws_s st ≠ [] := by
    obtain ⟨⟨c, cs, h, _⟩, _⟩ := render_ends A (ne_nil_of_two h2) hws st
    rw [h]; simp
  have hlk := variant_lookup (A := A) hA hS (styles := some styles) (plurals := false) (sing := sing) (plur := plur)
    (isAmb := isAmbiguous A (toStyle A ws_s sst) Gen.allStyles) h2 hws hwr hNs hNr hsst hrst hUs hUr
    (by simpa using hst) hst12 (fun _ _ m hm => absurd hm (by simp [variantModels])) (by simp)
  have hvl : vm.lookup (toStyle A ws_s st) = some [(none, toStyle A ws_r st)] := by
    show (List.map _ (List.filter _ _)).lookup _ = _
    rw [lookup_map_single, lookup_filter_nonempty hne, hlk]; rfl
  refine ⟨?_, mem_keys.mpr (mem_keys_of_lookup hvl), ?_⟩
  · intro k hk
    have hk' : k ∈ (variantMap A (some styles) false sing plur (isAmbiguous A (toStyle A ws_s sst) Gen.allStyles)
        (toStyle A ws_s sst) (toStyle A ws_r rst)).map (·.1) := by
      have := mem_keys.mp hk
      simp only [vm, cliVariantMap, List.map_map, List.mem_map, List.mem_filter, Function.comp] at this ⊢
      obtain ⟨e, ⟨he, _⟩, rfl⟩ := this
      exact ⟨e, he, rfl⟩
    simp only [variantMap, Option.isNone_some, Bool.false_and, Bool.false_eq_true, ↓reduceIte, Option.getD_some,
      buildMap] at hk'
    rcases keys_buildMap_foldl _ _ hk' with h0 | h0
    · simp at h0
    · simp only [List.mem_map] at h0
      obtain ⟨e, he, rfl⟩ := h0
      obtain ⟨st', _, m, hm, rfl⟩ := mem_variantRows.mp he
      simp only [variantModels, Bool.false_eq_true, ↓reduceIte, List.mem_cons, List.not_mem_nil, or_false] at hm
      subst hm
      exact ⟨st', toStyle_parse_toStyle hA hS hws hNs hsst hUs st'⟩
  · simp only [SMap.get, hvl]

end LinePipeline
