import RModel.Lemmas.LineKeys
import RModel.Lemmas.Edits
/-
  C06 lemmas, part 7: composition — the variant map of a term pair typed in boundary-visible styles, and the whole
  one-line pipeline on `d₁ ++ render st ws_s ++ d₂`.
-/
open B CaseModel

namespace LinePipeline

variable {A : Acr}

/-- the inserts, with the tokenizer round trip applied -/
theorem variantInserts_words (hA : AcrOk A) (hS : AcrStable A) {ws_s ws_r : List Bytes} {sst rst : Style}
    (hws : Words ws_s) (hwr : Words ws_r) (hNs : Neutral A ws_s) (hNr : Neutral A ws_r)
    (hsst : sst ∈ V12) (hrst : rst ∈ V12)
    (hUs : sst ∈ upperStyles → UpperSafe A ws_s) (hUr : rst ∈ upperStyles → UpperSafe A ws_r)
    (styles : List Style) (sing plur : Bytes → Option Bytes) :
    variantInserts A (some styles) false sing plur (toStyle A ws_s sst) (toStyle A ws_r rst) =
      styles.map (fun st' => (toStyle A ws_s st', some st', toStyle A ws_r st')) := by
  simp only [variantInserts, Option.isNone_some, Bool.false_eq_true, ↓reduceIte, List.nil_append, Option.getD_some,
    variantModels, List.map_cons, List.map_nil, toStyle_parse_toStyle hA hS hws hNs hsst hUs,
    toStyle_parse_toStyle hA hS hwr hNr hrst hUr]
  induction styles with
  | nil => rfl
  | cons st' l ih => simp only [List.flatMap_cons, List.map_cons, List.singleton_append, ih]

theorem isCont_of_lt {b : UInt8} (h : b.toNat < 128) : Edits.isCont b = false := by
  simp only [Edits.isCont, Bool.and_eq_false_iff, decide_eq_false_iff_not]; left; omega

theorem alpha_lt {c : UInt8} (h : isAlpha c = true) : c.toNat < 128 := by
  simp only [isAlpha, isUpper, isLower, Bool.or_eq_true, Bool.and_eq_true, decide_eq_true_eq] at h; omega

/-- one edit at the occurrence turns `d₁ ++ x ++ d₂` into `d₁ ++ r ++ d₂` -/
theorem applyEdits_occurrence {d₁ x d₂ r : Bytes} (hx : ∃ c cs, x = c :: cs ∧ isAlpha c = true)
    (hr : ∀ b, r.head? = some b → b.toNat < 128) (h2 : NeutralDelim d₂) :
    Edits.applyEdits (d₁ ++ x ++ d₂)
      [{ before := x, after := r, start := d₁.length, stop := d₁.length + x.length }] = .ok (d₁ ++ r ++ d₂) := by
  obtain ⟨c, cs, rfl, hc⟩ := hx
  have t2 : (d₁ ++ (c :: cs) ++ d₂).take (d₁.length + (c :: cs).length) = d₁ ++ (c :: cs) := by
    rw [← List.length_append, List.take_left']; rfl
  have t3 : (d₁ ++ (c :: cs) ++ d₂).drop (d₁.length + (c :: cs).length) = d₂ := by
    rw [← List.length_append, List.drop_left']; rfl
  have t1 : (d₁ ++ (c :: cs) ++ d₂).take d₁.length = d₁ := by rw [List.append_assoc, List.take_left']; rfl
  rw [Edits.applyEdits_eq_spec]
  · simp only [Edits.spec, List.drop_zero, Nat.sub_zero, t1, t3]
  · simp only [Edits.Consistent, Nat.zero_le, true_and, List.length_append, t2, List.drop_left']
    refine ⟨by omega, by omega, ?_, ?_, ?_, by omega⟩
    · unfold Edits.isCharBoundary
      split
      · rfl
      · have : (d₁ ++ (c :: cs) ++ d₂)[d₁.length]? = some c := by
          rw [List.append_assoc, List.getElem?_append_right (Nat.le_refl _)]; simp
        rw [this]
        simp only [isCont_of_lt (alpha_lt hc), Bool.not_false]
    · unfold Edits.isCharBoundary
      split
      · rfl
      · rw [getElem?_mid]
        cases d₂ with
        | nil => simp
        | cons z d =>
          simp only [List.head?_cons]
          rw [isCont_of_lt (neutral_facts (h2 z (List.mem_cons_self ..))).2.2.2]; rfl
    · intro b hb; exact isCont_of_lt (hr b hb)

end LinePipeline
