import RModel.Base.Bytes
import RModel.Model.CliLit
import RModel.Model.Wrappers
import RModel.Model.WrappersKnown
import RModel.Gen.CliGrammar
import RModel.Gen.Wrappers
import RModel.Gen.WrappersVerdict
/- C20: the definitions shared by the property file and by the table lemmas (`Lemmas/C20Table*.lean`), which
   are separate modules only so that lake checks the kernel-evaluated tables in parallel. -/
namespace C20
open Wrap Cli

abbrev G : Grammar := Gen.CliGrammar.grammar

/-- slugs of the findings in force (generated verdict) -/
abbrev live : List Str := Gen.WrappersVerdict.liveSlugs

def inForce (slug : Str) : Bool := anyIs live slug

/-- the guard: the valuation falls under a finding that is in force -/
def guard (b : Builder) (v : Valuation) : Bool := usesBad live b v

/-- the kernel-evaluated part of the enumerated space -/
def space (b : Builder) : List Valuation := core live b

/-- one row of the decision table: outside the guard the command line works, inside it does not -/
def rowOk (b : Builder) (v : Valuation) : Bool := guard b v != okFor G b v

/-- the table restricted to some of the builders -/
def tableOn (bs : List Builder) : Bool := bs.all (fun b => (space b).all (rowOk b))

-- the three parts the builder list is cut into (any cut is sound: `take n ++ drop n`)
def cutA : Nat := 3
def cutB : Nat := 8

end C20
