import RModel.Model.Hunks
import RModel.Lemmas.Matcher
/- helper lemmas for the literal planner (`process_file_content`) -/
namespace Hunks

theorem linesWT_flatten (s : Bytes) : (linesWT s).flatten = s := by
  induction s with
  | nil => rfl
  | cons c cs ih =>
    simp only [linesWT]
    split
    · simp [ih]
    · split
      · rename_i h
        rw [h] at ih
        simp at ih
        simp [← ih]
      · rename_i l ls h
        rw [h] at ih
        simp only [List.flatten_cons] at ih ⊢
        simp [ih]

theorem stripTerm_prefix (l : Bytes) : stripTerm l <+: l := by
  unfold stripTerm
  split
  · rename_i r h
    have : l = r.reverse ++ [13, 10] := by
      have := congrArg List.reverse h
      simpa using this
    rw [this]
    exact List.prefix_append _ _
  · rename_i r _ h
    have : l = r.reverse ++ [10] := by
      have := congrArg List.reverse h
      simpa using this
    rw [this]
    exact List.prefix_append _ _
  · exact List.prefix_refl _

/-- every stripped line is a prefix of the text at its recorded offset -/
theorem strLinesFrom_spec (pre : Bytes) (ls : List Bytes) :
    ∀ ol ∈ strLinesFrom ls pre.length, ol.2 <+: (pre ++ ls.flatten).drop ol.1 := by
  induction ls generalizing pre with
  | nil => intro ol h; simp [strLinesFrom] at h
  | cons l rest ih =>
    intro ol h
    simp only [strLinesFrom, List.mem_cons] at h
    rcases h with rfl | h
    · simp only [List.flatten_cons]
      rw [List.drop_append_of_le_length (Nat.le_refl _), List.drop_length, List.nil_append]
      exact (stripTerm_prefix l).trans (List.prefix_append _ _)
    · have := ih (pre ++ l) ol (by simpa using h)
      simpa [List.append_assoc] using this

theorem strLines_spec (s : Bytes) : ∀ ol ∈ strLines s, ol.2 <+: s.drop ol.1 := by
  intro ol h
  have := strLinesFrom_spec [] (linesWT s) ol (by simpa [strLines] using h)
  simpa [linesWT_flatten] using this

theorem findAll_spec (pat : Bytes) (rest : Bytes) (pos skip : Nat) :
    ∀ col ∈ findAll pat rest pos skip, pos + skip ≤ col ∧ pat <+: rest.drop (col - pos) := by
  induction rest generalizing pos skip with
  | nil => intro col h; simp [findAll] at h
  | cons c cs ih =>
    intro col h
    have lift : ∀ k, (pos + 1 + k ≤ col ∧ pat <+: cs.drop (col - (pos + 1))) →
        (pos + (k + 1) ≤ col ∧ pat <+: (c :: cs).drop (col - pos)) := by
      intro k ⟨hb, hp⟩
      refine ⟨by omega, ?_⟩
      have : col - pos = (col - (pos + 1)) + 1 := by omega
      rw [this, List.drop_succ_cons]
      exact hp
    cases skip with
    | succ k =>
      simp only [findAll] at h
      exact lift k (ih (pos + 1) k col h)
    | zero =>
      simp only [findAll] at h
      split at h
      · rename_i hp
        rcases List.mem_cons.mp h with rfl | h
        · exact ⟨by simp, by simpa using List.isPrefixOf_iff_prefix.mp hp⟩
        · have := lift (pat.length - 1) (ih (pos + 1) (pat.length - 1) col h)
          exact ⟨by omega, this.2⟩
      · have := lift 0 (ih (pos + 1) 0 col h)
        exact ⟨by omega, this.2⟩

theorem literalLines_line_ge (fr : Bool) (pat repl : Bytes) (lines : List (Nat × Bytes)) (n : Nat) :
    ∀ h ∈ literalLines fr pat repl lines n, n ≤ h.line := by
  induction lines generalizing n with
  | nil => intro h hh; simp [literalLines] at hh
  | cons ol rest ih =>
    obtain ⟨off, l⟩ := ol
    intro h hh
    simp only [literalLines, List.mem_append] at hh
    rcases hh with hh | hh
    · simp only [literalLine, List.mem_map] at hh
      obtain ⟨col, _, rfl⟩ := hh
      exact Nat.le_refl _
    · have := ih (n + 1) h hh
      omega

/-- what every hunk of the literal planner satisfies: the pattern stands in the text at (line offset + column),
    `start` is the column plus the line offset only if the planner adds it -/
theorem literalLines_spec (fr : Bool) (pat repl T : Bytes) (hpat : pat ≠ []) (lines : List (Nat × Bytes)) (n : Nat)
    (hl : ∀ ol ∈ lines, ol.2 <+: T.drop ol.1) :
    ∀ h ∈ literalLines fr pat repl lines n, ∃ off,
      pat <+: T.drop (off + h.byteOffset) ∧
      h.start = (if fr then off else 0) + h.byteOffset ∧ h.stop = h.start + pat.length ∧ h.content = pat ∧
      (h.line = n → ∃ l rest, lines = (off, l) :: rest) := by
  induction lines generalizing n with
  | nil => intro h hh; simp [literalLines] at hh
  | cons ol rest ih =>
    obtain ⟨off, l⟩ := ol
    intro h hh
    simp only [literalLines, List.mem_append] at hh
    rcases hh with hh | hh
    · simp only [literalLine, List.mem_map] at hh
      obtain ⟨col, hcol, rfl⟩ := hh
      refine ⟨off, ?_, rfl, rfl, rfl, fun _ => ⟨l, rest, rfl⟩⟩
      have hp := (findAll_spec pat l 0 0 col hcol).2
      simp only [Nat.sub_zero] at hp
      obtain ⟨t, ht⟩ := hl (off, l) List.mem_cons_self
      simp only at ht
      have hcl : col ≤ l.length := by
        have := hp.length_le
        have hpl : 0 < pat.length := List.length_pos_iff.mpr hpat
        simp at this
        omega
      have : T.drop (off + col) = l.drop col ++ t := by
        rw [← List.drop_drop, ← ht, List.drop_append_of_le_length hcl]
      simp only
      rw [this]
      exact hp.trans (List.prefix_append _ _)
    · obtain ⟨o, h1, h2, h3, h4, _⟩ := ih (n + 1) (fun x hx => hl x (List.mem_cons_of_mem _ hx)) h hh
      refine ⟨o, h1, h2, h3, h4, ?_⟩
      intro hn
      have := literalLines_line_ge fr pat repl rest (n + 1) h hh
      omega

theorem strLinesFrom_head (ls : List Bytes) (off o : Nat) (l : Bytes) (rest : List (Nat × Bytes))
    (h : strLinesFrom ls off = (o, l) :: rest) : o = off := by
  cases ls with
  | nil => simp [strLinesFrom] at h
  | cons x xs => simp only [strLinesFrom, List.cons.injEq, Prod.mk.injEq] at h; exact h.1.1.symm

end Hunks
