import RModel.Model.Compound
import RModel.Lemmas.CaseModelStyles
/-
  Lemmas about the compound matcher model (C07).
-/
open B CaseModel

namespace Compound

-- the re-join guard on regular renderings ---------------------------------------------------------------------

/-- text after the first word of a `sep`-joined word list -/
def tailOf (sep : Bytes) : List Bytes → Bytes
  | [] => []
  | t :: ts => sep ++ t ++ tailOf sep ts

theorem joinWith_eq_tailOf (sep : Bytes) : ∀ (t : Bytes) (ts : List Bytes), joinWith sep (t :: ts) = t ++ tailOf sep ts
  | t, [] => by simp [joinWith, tailOf]
  | t, u :: ts => by
    rw [joinWith_cons_cons, joinWith_eq_tailOf sep u ts]
    simp only [tailOf, List.append_assoc]

theorem concat_eq_tailOf : ∀ (ts : List Bytes), concat ts = tailOf [] ts
  | [] => rfl
  | t :: ts => by rw [concat_cons, concat_eq_tailOf ts]; simp [tailOf]

theorem takeWhile_gap {pre t r : Bytes} (hpre : ∀ c ∈ pre, isAlnum c = false) (hne : t ≠ [])
    (ht : ∀ c ∈ t, isAlnum c = true) :
    (pre ++ t ++ r).takeWhile (fun c => !isAlnum c) = pre ∧ (pre ++ t ++ r).dropWhile (fun c => !isAlnum c) = t ++ r := by
  obtain ⟨c, cs, rfl⟩ := List.exists_cons_of_ne_nil hne
  have hc : isAlnum c = true := ht c (List.mem_cons_self ..)
  induction pre with
  | nil => simp [hc]
  | cons p pre ih =>
    have hp : isAlnum p = false := hpre p (List.mem_cons_self ..)
    have := ih (fun x hx => hpre x (List.mem_cons_of_mem _ hx))
    simp only [List.cons_append, List.takeWhile, List.dropWhile, hp, Bool.not_false] at this ⊢
    exact ⟨by rw [this.1], this.2⟩

/-- one step of the token walk on `gap ++ token ++ rest` -/
theorem gapsOk_step (sep : Bytes) (W : List (Nat × Nat)) (idx : Nat) {pre t r : Bytes} (ts : List Bytes)
    (hpre : ∀ c ∈ pre, isAlnum c = false) (hne : t ≠ []) (ht : ∀ c ∈ t, isAlnum c = true) :
    gapsOk sep W idx (pre ++ t ++ r) (t :: ts) =
      ((if idx == 0 then pre.isEmpty else (insideWindow W idx || pre == sep)) && gapsOk sep W (idx + 1) r ts) := by
  obtain ⟨h1, h2⟩ := takeWhile_gap (r := r) hpre hne ht
  simp only [gapsOk, h1, h2, List.drop_left']

/-- regular rendering: every gap is the separator, so the walk succeeds whatever the windows are -/
theorem gapsOk_tailOf (sep : Bytes) (W : List (Nat × Nat)) (hsep : ∀ c ∈ sep, isAlnum c = false) :
    ∀ (ts : List Bytes) (idx : Nat), (∀ t ∈ ts, t ≠ [] ∧ ∀ c ∈ t, isAlnum c = true) →
      gapsOk sep W (idx + 1) (tailOf sep ts) ts = true
  | [], _, _ => by simp [gapsOk, tailOf]
  | t :: ts, idx, h => by
    have ht := h t (List.mem_cons_self ..)
    rw [tailOf, gapsOk_step sep W (idx + 1) ts hsep ht.1 ht.2,
      gapsOk_tailOf sep W hsep ts (idx + 1) (fun x hx => h x (List.mem_cons_of_mem _ hx))]
    simp

theorem gapsOk_regular (sep : Bytes) (W : List (Nat × Nat)) (hsep : ∀ c ∈ sep, isAlnum c = false)
    (t : Bytes) (ts : List Bytes) (h : ∀ x ∈ t :: ts, x ≠ [] ∧ ∀ c ∈ x, isAlnum c = true) :
    gapsOk sep W 0 (t ++ tailOf sep ts) (t :: ts) = true := by
  have ht := h t (List.mem_cons_self ..)
  have := gapsOk_step sep W 0 (pre := []) (r := tailOf sep ts) ts (by simp) ht.1 ht.2
  simp only [List.nil_append] at this
  rw [this, gapsOk_tailOf sep W hsep ts 0 (fun x hx => h x (List.mem_cons_of_mem _ hx))]
  simp


/-- `pat` occurs in `toks` as a contiguous window, token by token up to ASCII case -/
def HasWindow (toks pat : List Bytes) : Prop :=
  ∃ l w r, toks = l ++ w ++ r ∧ tokensMatch w pat = true

theorem hasWindow_cons {t : Bytes} {ts pat : List Bytes} (h : HasWindow ts pat) : HasWindow (t :: ts) pat := by
  obtain ⟨l, w, r, rfl, hm⟩ := h
  exact ⟨t :: l, w, r, by simp, hm⟩

/-- a replacement was made only if some window of the token list matches the pattern -/
theorem spliceAll_count (A : Acr) (pat nt : List Bytes) (ident rest : Bytes) :
    ∀ (ts : List Bytes) (k : Nat), (spliceAll A pat nt ident rest k ts).2 ≠ 0 → HasWindow ts pat := by
  intro ts
  induction ts with
  | nil => intro k h; cases k <;> simp [spliceAll] at h
  | cons t ts ih =>
    intro k h
    cases k with
    | succ k =>
      rw [spliceAll] at h
      exact hasWindow_cons (ih k h)
    | zero =>
      rw [spliceAll] at h
      by_cases hm : tokensMatch ((t :: ts).take pat.length) pat = true
      · exact ⟨[], (t :: ts).take pat.length, (t :: ts).drop pat.length, by simp, hm⟩
      · simp only [hm] at h
        exact hasWindow_cons (ih 0 h)

theorem isPrefixOf_drop : ∀ {p s : Bytes}, p.isPrefixOf s = true → s = p ++ s.drop p.length
  | [], s, _ => by simp
  | a :: p, [], h => by simp [List.isPrefixOf] at h
  | a :: p, b :: s, h => by
    simp only [List.isPrefixOf, Bool.and_eq_true, beq_iff_eq] at h
    obtain ⟨rfl, h⟩ := h
    simp only [List.length_cons, List.drop_succ_cons, List.cons_append, List.cons.injEq, true_and]
    exact isPrefixOf_drop h

theorem shortcutCond_shape {rest old : Bytes} (h : shortcutCond rest old = true) :
    ∃ c tail, rest = old ++ c :: tail ∧ (c = 95 ∨ c = 45 ∨ c = 46) := by
  simp only [shortcutCond, Bool.and_eq_true, decide_eq_true_eq] at h
  obtain ⟨⟨⟨_, hp⟩, _⟩, hc⟩ := h
  have := isPrefixOf_drop hp
  split at hc
  · rename_i c tl hd
    refine ⟨c, tl, ?_, ?_⟩
    · rw [hd] at this; exact this
    · simp only [Bool.or_eq_true, beq_iff_eq] at hc
      rcases hc with (h | h) | h <;> simp [h]
  · cases hc

theorem findCompoundG_sound {A : Acr} {g : Bool} {ident old new : Bytes} {styles : List Style} {m : CMatch}
    (h : findCompoundG A g ident old new styles = some m) :
    m.full = ident ∧
    (shortcutCond (extractPrefix ident).2 old = true ∨
     HasWindow (parse A (extractPrefix ident).2) (parse A old)) := by
  unfold findCompoundG at h
  simp only [] at h
  by_cases h1 : tokensMatch (parse A (extractPrefix ident).2) (parse A old) = true
  · simp only [h1, if_true] at h; cases h
  simp only [h1] at h
  by_cases h2 : shortcutCond (extractPrefix ident).2 old = true
  · simp only [h2, if_true] at h
    cases h
    exact ⟨rfl, Or.inl h2⟩
  simp only [h2] at h
  by_cases h3 : decide ((parse A old).length > (parse A (extractPrefix ident).2).length) = true
  · simp only [h3, if_true] at h; cases h
  simp only [h3] at h
  by_cases h4 : ((parse A old).isEmpty || (parse A (extractPrefix ident).2).isEmpty) = true
  · simp only [h4, if_true] at h; cases h
  simp only [h4] at h
  by_cases h5 : (parse A new).isEmpty = true
  · simp only [h5, if_true] at h; cases h
  simp only [h5] at h
  by_cases hcount : ((spliceAll A (parse A old) (parse A new) ident (extractPrefix ident).2 0
      (parse A (extractPrefix ident).2)).2 == 0) = true
  · simp only [hcount, if_true] at h; cases h
  simp only [hcount] at h
  cases hinf : inferStyle A (extractPrefix ident).2 with
  | none => simp only [hinf] at h; cases h
  | some style =>
  simp only [hinf] at h
  by_cases hst : (!styles.contains style) = true
  · simp only [hst, if_true] at h; cases h
  simp only [hst] at h
  by_cases hg : (g && !survivesRejoin (extractPrefix ident).2 (parse A (extractPrefix ident).2)
      (matchedWindows (parse A old) 0 0 (parse A (extractPrefix ident).2)) style) = true
  · simp only [hg, if_true] at h; cases h
  simp only [hg] at h
  cases h
  refine ⟨rfl, Or.inr ?_⟩
  apply spliceAll_count A (parse A old) (parse A new) ident (extractPrefix ident).2 _ 0
  intro h0
  apply hcount
  simp [h0]

theorem findCompound_sound {A : Acr} {ident old new : Bytes} {styles : List Style} {m : CMatch}
    (h : findCompound A ident old new styles = some m) :
    m.full = ident ∧
    (shortcutCond (extractPrefix ident).2 old = true ∨
     HasWindow (parse A (extractPrefix ident).2) (parse A old)) := findCompoundG_sound h

/-- an answer of the matcher passed the re-join guard -/
theorem findCompound_guard {A : Acr} {ident old new : Bytes} {styles : List Style} {m : CMatch}
    (h : findCompound A ident old new styles = some m) (hs : shortcutCond (extractPrefix ident).2 old = false) :
    survivesRejoin (extractPrefix ident).2 (parse A (extractPrefix ident).2)
      (matchedWindows (parse A old) 0 0 (parse A (extractPrefix ident).2)) m.style = true := by
  unfold findCompound findCompoundG at h
  simp only [hs, Bool.false_eq_true, if_false] at h
  split at h; · cases h
  split at h; · cases h
  split at h; · cases h
  split at h; · cases h
  split at h; · cases h
  cases hinf : inferStyle A (extractPrefix ident).2 with
  | none => simp only [hinf] at h; cases h
  | some style =>
    simp only [hinf] at h
    split at h; · cases h
    split at h
    · cases h
    · rename_i hg
      cases h
      simpa using hg

theorem mem_insertM {m x : M} : ∀ {l : List M}, x ∈ insertM m l ↔ x = m ∨ x ∈ l
  | [] => by simp [insertM]
  | y :: l => by
    unfold insertM
    split
    · simp only [List.mem_cons, mem_insertM (l := l)]
      constructor
      · rintro (h | h | h) <;> simp [h]
      · rintro (h | h | h) <;> simp [h]
    · simp only [List.mem_cons]

theorem mem_sortM {x : M} : ∀ {l : List M}, x ∈ sortM l ↔ x ∈ l
  | [] => by simp [sortM]
  | y :: l => by
    have ih := mem_sortM (x := x) (l := l)
    simp only [sortM, List.foldr_cons] at ih ⊢
    rw [mem_insertM, ih, List.mem_cons]

theorem mem_setAt {x m : M} : ∀ {l : List M} {i : Nat}, x ∈ setAt l i m → x = m ∨ x ∈ l
  | [], _, h => by simp [setAt] at h
  | y :: l, 0, h => by
    simp only [setAt, List.mem_cons] at h ⊢
    rcases h with h | h <;> simp [h]
  | y :: l, i + 1, h => by
    simp only [setAt, List.mem_cons] at h ⊢
    rcases h with h | h
    · simp [h]
    · rcases mem_setAt h with h | h <;> simp [h]

theorem mem_ite {α} {c : Prop} [Decidable c] {a b : List α} {x : α} (h : x ∈ (if c then a else b)) : x ∈ a ∨ x ∈ b := by
  split at h
  · exact Or.inl h
  · exact Or.inr h

theorem mem_resolveStep {p : List (Nat × Nat)} {final : List M} {cand x : M}
    (h : x ∈ resolveStep p final cand) : x = cand ∨ x ∈ final := by
  unfold resolveStep at h
  simp only [] at h
  split at h
  · simp only [List.mem_append, List.mem_singleton] at h
    rcases h with h | h <;> simp [h]
  · split at h
    · exact Or.inr h
    · rcases mem_ite h with h | h
      · exact mem_setAt h
      · exact Or.inr h

theorem mem_foldl_resolve {p : List (Nat × Nat)} {x : M} : ∀ {l init : List M},
    x ∈ l.foldl (resolveStep p) init → x ∈ init ∨ x ∈ l
  | [], init, h => Or.inl h
  | c :: l, init, h => by
    simp only [List.foldl_cons] at h
    rcases mem_foldl_resolve h with h | h
    · rcases mem_resolveStep h with h | h
      · exact Or.inr (by simp [h])
      · exact Or.inl h
    · exact Or.inr (List.mem_cons_of_mem _ h)

/-- the match came from the exact pass: a variant hit that satisfies `is_boundary` -/
def ExactOrigin (content : Bytes) (variants : List Bytes) (m : M) : Prop :=
  ∃ s e, (s, e) ∈ scanExact variants 0 0 content ∧
    isBoundary (content.take s) ((content.drop s).take (e - s)) (content.drop e) = true ∧
    m.start = s ∧ m.stop = e ∧ m.variant = (content.drop s).take (e - s) ∧ m.text = m.variant

/-- the match came from the compound pass: `find_compound_variants` answered for some identifier -/
def CompoundOrigin (A : Acr) (search replace : Bytes) (styles : List Style) (m : M) : Prop :=
  ∃ ident c, findCompound A ident search replace styles = some c ∧ m.variant = ident ∧ m.text = c.replacement

theorem findEnhancedG_origin {trim : Bool} {A : Acr} {content search replace : Bytes} {variants : List Bytes}
    {styles : List Style} {m : M} (h : m ∈ findEnhancedG trim A content search replace variants styles) :
    ExactOrigin content variants m ∨ CompoundOrigin A search replace styles m := by
  unfold findEnhancedG at h
  simp only [] at h
  rcases mem_foldl_resolve h with h | h
  · cases h
  rw [mem_sortM, List.mem_append] at h
  rcases h with h | h
  · left
    simp only [exactMsOf, List.mem_map] at h
    obtain ⟨⟨s, e⟩, hse, rfl⟩ := h
    unfold exactSpansOf at hse
    simp only [] at hse
    rcases mem_ite hse with hse | hse
    · cases hse
    · simp only [List.mem_filter] at hse
      exact ⟨s, e, hse.1, hse.2, rfl, rfl, rfl, rfl⟩
  · right
    simp only [List.mem_filterMap] at h
    obtain ⟨⟨s, e, ident⟩, _, hm⟩ := h
    unfold compoundOf at hm
    simp only [] at hm
    cases hfc : findCompound A ident search replace styles with
    | none =>
      simp only [hfc] at hm
      split at hm <;> cases hm
    | some c =>
      simp only [hfc] at hm
      split at hm
      · cases hm
      · cases hm
        exact ⟨ident, c, hfc, (findCompound_sound hfc).1, rfl⟩

theorem findEnhanced_origin {A : Acr} {content search replace : Bytes} {variants : List Bytes} {styles : List Style}
    {m : M} (h : m ∈ findEnhanced A content search replace variants styles) :
    ExactOrigin content variants m ∨ CompoundOrigin A search replace styles m := findEnhancedG_origin h

/-- an exact hit followed by an alphanumeric byte is rejected unless that byte is an upper-case letter right after a
    lower-case one (a hump boundary) -/
theorem isBoundary_glued_right {before m after : Bytes} {c : UInt8} (hsp : contains m 32 = false)
    (hc : isAlnum c = true)
    (hcase : isUpper c = false ∨ ∃ l, m.getLast? = some l ∧ isLower l = false) :
    isBoundary before m (c :: after) = false := by
  unfold isBoundary
  simp only [hsp, hc, Bool.false_eq_true, if_false, Bool.not_true, Bool.false_or]
  rcases hcase with h | ⟨l, hl, hlo⟩
  · simp [h]
  · simp [hl, hlo]

/-- an exact hit preceded by an alphanumeric byte is rejected unless the hit starts with an upper-case letter right after
    a lower-case one -/
theorem isBoundary_glued_left {before m after : Bytes} {p : UInt8} (hsp : contains m 32 = false)
    (hp : isAlnum p = true)
    (hcase : isLower p = false ∨ ∃ c cs, m = c :: cs ∧ isUpper c = false) :
    isBoundary (before ++ [p]) m after = false := by
  unfold isBoundary
  simp only [hsp, List.getLast?_append, List.getLast?_singleton, Option.some_or, hp, Bool.false_eq_true, if_false,
    Bool.not_true, Bool.false_or]
  rcases hcase with h | ⟨c, cs, rfl, hc⟩
  · simp [h]
  · simp [hc]

/-- specification: replace every non-overlapping occurrence of the word sequence `pat`, left to right -/
def substAll (pat rep : List Bytes) : Nat → List Bytes → List Bytes
  | _, [] => []
  | k + 1, _ :: ws => substAll pat rep k ws
  | 0, w :: ws =>
    if (w :: ws).take pat.length = pat then rep ++ substAll pat rep (pat.length - 1) ws
    else w :: substAll pat rep 0 ws

/-- number of occurrences replaced by `substAll` -/
def occCount (pat : List Bytes) : Nat → List Bytes → Nat
  | _, [] => 0
  | k + 1, _ :: ws => occCount pat k ws
  | 0, w :: ws =>
    if (w :: ws).take pat.length = pat then occCount pat (pat.length - 1) ws + 1
    else occCount pat 0 ws

theorem tokensMatch_map {f : Bytes → Bytes} : ∀ (ws pat : List Bytes), (∀ w ∈ ws, lower (f w) = w) →
    (∀ p ∈ pat, lower p = p) → tokensMatch (ws.map f) pat = decide (ws = pat)
  | [], [], _, _ => by simp [tokensMatch]
  | [], p :: ps, _, _ => by simp [tokensMatch]
  | w :: ws, [], _, _ => by simp [tokensMatch]
  | w :: ws, p :: ps, hw, hp => by
    simp only [List.map_cons, tokensMatch, hw w (List.mem_cons_self ..), hp p (List.mem_cons_self ..),
      tokensMatch_map ws ps (fun x hx => hw x (List.mem_cons_of_mem _ hx)) (fun x hx => hp x (List.mem_cons_of_mem _ hx)),
      List.cons.injEq, Bool.decide_and]
    by_cases h : w = p
    · simp [h]
    · simp [h]

theorem spliceAll_map (A : Acr) (f : Bytes → Bytes) (pat nt rep : List Bytes) (ident rest : Bytes) (P : Bytes → Prop)
    (hpat : ∀ p ∈ pat, lower p = p)
    (hsty : ∀ w' : List Bytes, (∀ t ∈ w', P t) → w'.length = pat.length →
      styledTokens A (finalStyle A w' ident rest) nt w' = rep.map f) :
    ∀ (ws : List Bytes) (k : Nat), (∀ w ∈ ws, lower (f w) = w ∧ P (f w)) →
      spliceAll A pat nt ident rest k (ws.map f) = ((substAll pat rep k ws).map f, occCount pat k ws) := by
  intro ws
  induction ws with
  | nil => intro k _; cases k <;> simp [spliceAll, substAll, occCount]
  | cons w ws ih =>
    intro k hw
    have hws : ∀ x ∈ ws, lower (f x) = x ∧ P (f x) := fun x hx => hw x (List.mem_cons_of_mem _ hx)
    cases k with
    | succ k => simp only [List.map_cons, spliceAll, substAll, occCount, ih k hws]
    | zero =>
      have htake : ((w :: ws).map f).take pat.length = ((w :: ws).take pat.length).map f := by
        rw [List.map_take]
      have hm : tokensMatch (((w :: ws).map f).take pat.length) pat = decide ((w :: ws).take pat.length = pat) := by
        rw [htake]
        exact tokensMatch_map _ _ (fun x hx => (hw x (List.mem_of_mem_take hx)).1) hpat
      rw [List.map_cons, spliceAll, ← List.map_cons, hm, substAll, occCount]
      by_cases heq : (w :: ws).take pat.length = pat
      · have hst := hsty (((w :: ws).map f).take pat.length)
          (by
            intro t ht
            rw [htake, List.mem_map] at ht
            obtain ⟨x, hx, rfl⟩ := ht
            exact (hw x (List.mem_of_mem_take hx)).2)
          (by rw [htake, List.length_map, heq])
        simp only [heq, decide_true, if_true, hst, ih _ hws, List.map_append]
      · simp only [heq, decide_false, Bool.false_eq_true, if_false, ih 0 hws, List.map_cons]

theorem mem_substAll {pat rep : List Bytes} {x : Bytes} : ∀ {ws : List Bytes} {k : Nat},
    x ∈ substAll pat rep k ws → x ∈ ws ∨ x ∈ rep
  | [], k, h => by cases k <;> simp [substAll] at h
  | w :: ws, k + 1, h => by
    simp only [substAll] at h
    rcases mem_substAll h with h | h
    · exact Or.inl (List.mem_cons_of_mem _ h)
    · exact Or.inr h
  | w :: ws, 0, h => by
    simp only [substAll] at h
    split at h
    · rw [List.mem_append] at h
      rcases h with h | h
      · exact Or.inr h
      · rcases mem_substAll h with h | h
        · exact Or.inl (List.mem_cons_of_mem _ h)
        · exact Or.inr h
    · rw [List.mem_cons] at h
      rcases h with h | h
      · exact Or.inl (by simp [h])
      · rcases mem_substAll h with h | h
        · exact Or.inl (List.mem_cons_of_mem _ h)
        · exact Or.inr h

theorem occCount_le_length {pat : List Bytes} : ∀ {ws : List Bytes} {k : Nat}, 0 < occCount pat k ws → pat.length ≤ ws.length + k
  | [], k, h => by cases k <;> simp [occCount] at h
  | w :: ws, k + 1, h => by
    simp only [occCount] at h
    have := occCount_le_length h
    simp only [List.length_cons]; omega
  | w :: ws, 0, h => by
    simp only [occCount] at h
    split at h
    · rename_i heq
      have : pat.length = ((w :: ws).take pat.length).length := by rw [heq]
      rw [List.length_take] at this
      omega
    · have := occCount_le_length h
      simp only [List.length_cons]; omega

theorem getLast?_joinWith {d : UInt8} : ∀ (rs : List Bytes), rs ≠ [] → (∀ r ∈ rs, r ≠ []) →
    ∃ c, (joinWith [d] rs).getLast? = some c ∧ ∃ r ∈ rs, c ∈ r
  | [], h, _ => absurd rfl h
  | [r], _, h => by
    have hr := h r (List.mem_singleton.mpr rfl)
    refine ⟨r.getLast hr, ?_, r, List.mem_singleton.mpr rfl, List.getLast_mem hr⟩
    simp only [joinWith, List.getLast?_eq_some_getLast hr]
  | a :: b :: l, _, h => by
    obtain ⟨c, hc, r, hr, hcr⟩ := getLast?_joinWith (d := d) (b :: l) (by simp) (fun r hr => h r (List.mem_cons_of_mem _ hr))
    refine ⟨c, ?_, r, List.mem_cons_of_mem _ hr, hcr⟩
    rw [joinWith_cons_cons, List.getLast?_append, hc]
    rfl

theorem restoreTrailing_alpha {rest repl : Bytes} {c : UInt8} (h : rest.getLast? = some c) (hc : isAlpha c = true) :
    restoreTrailing rest repl = repl := by
  have h1 : (some c == some (95 : UInt8)) = false := by
    cases hb : (some c == some (95 : UInt8)) with
    | false => rfl
    | true => rw [beq_iff_eq] at hb; cases hb; exact absurd hc (by decide)
  have h2 : (some c == some (45 : UInt8)) = false := by
    cases hb : (some c == some (45 : UInt8)) with
    | false => rfl
    | true => rw [beq_iff_eq] at hb; cases hb; exact absurd hc (by decide)
  have h3 : (some c == some (46 : UInt8)) = false := by
    cases hb : (some c == some (46 : UInt8)) with
    | false => rfl
    | true => rw [beq_iff_eq] at hb; cases hb; exact absurd hc (by decide)
  simp only [restoreTrailing, endsWith, h, h1, h2, h3, Bool.false_and, Bool.false_eq_true, if_false]

theorem extractPrefix_lead {lead rest : Bytes} {c : UInt8} (hl : lead = [] ∨ lead = [95] ∨ lead = [95, 95])
    (h : rest.head? = some c) (hc : isAlpha c = true) : extractPrefix (lead ++ rest) = (lead, rest) := by
  obtain ⟨r', rfl⟩ : ∃ r', rest = c :: r' := by
    cases rest with
    | nil => cases h
    | cons x r' => simp only [List.head?_cons, Option.some.injEq] at h; exact ⟨r', by rw [h]⟩
  have hne : c ≠ 95 := by intro h; rw [h] at hc; exact absurd hc (by decide)
  rcases hl with rfl | rfl | rfl
  · simp only [List.nil_append]
    unfold extractPrefix
    split
    · rename_i heq; simp only [List.cons.injEq] at heq; exact absurd heq.1 hne
    · rename_i heq; simp only [List.cons.injEq] at heq; exact absurd heq.1 hne
    · rfl
  · simp only [List.cons_append, List.nil_append]
    unfold extractPrefix
    split
    · rename_i heq; simp only [List.cons.injEq] at heq; exact absurd heq.2.1 hne
    · rename_i heq; simp only [List.cons.injEq] at heq; rw [heq.2]
    · rename_i h1 h2; exact absurd rfl (h2 _)
  · rfl

theorem survivesRejoin_sep {d : UInt8} (hd : d = 95 ∨ d = 45) {rs : List Bytes} (h2 : 2 ≤ rs.length)
    (ha : AlphaWords rs) (hne : ∀ r ∈ rs, r ≠ []) (W : List (Nat × Nat)) (st : Style) :
    survivesRejoin (joinWith [d] rs) rs W st = true := by
  have f1 : contains (joinWith [d] rs) 95 = (d == 95) := contains_joinWith (by decide) h2 ha
  have f2 : contains (joinWith [d] rs) 45 = (d == 45) := contains_joinWith (by decide) h2 ha
  obtain ⟨t, ts, rfl⟩ := List.exists_cons_of_ne_nil (ne_nil_of_two h2)
  have hw : ∀ x ∈ t :: ts, x ≠ [] ∧ ∀ c ∈ x, isAlnum c = true :=
    fun x hx => ⟨hne x hx, fun c hc => by have := ha x hx c hc; simp only [isAlnum, this, Bool.true_or]⟩
  rcases hd with rfl | rfl
  · have := gapsOk_regular [95] W (by decide) t ts hw
    rw [← joinWith_eq_tailOf] at this
    simp [survivesRejoin, f1, f2, this]
  · have := gapsOk_regular [45] W (by decide) t ts hw
    rw [← joinWith_eq_tailOf] at this
    simp [survivesRejoin, f1, f2, this]

theorem joinTokens_sep (A : Acr) {d : UInt8} (hd : d = 95 ∨ d = 45) {rs : List Bytes} (h2 : 2 ≤ rs.length)
    (ha : AlphaWords rs) (toks : List Bytes) (st : Style) :
    joinTokens A (joinWith [d] rs) toks st = joinWith [d] toks := by
  have f1 : contains (joinWith [d] rs) 95 = (d == 95) := contains_joinWith (by decide) h2 ha
  have f2 : contains (joinWith [d] rs) 45 = (d == 45) := contains_joinWith (by decide) h2 ha
  rcases hd with rfl | rfl
  · simp [joinTokens, f1, f2]
  · simp [joinTokens, f1, f2]

theorem shortcutCond_sep {d : UInt8} (hd : d = 95 ∨ d = 45) {rs : List Bytes} (h2 : 2 ≤ rs.length)
    (ha : AlphaWords rs) (old : Bytes) : shortcutCond (joinWith [d] rs) old = false := by
  have f1 : contains (joinWith [d] rs) 95 = (d == 95) := contains_joinWith (by decide) h2 ha
  have f2 : contains (joinWith [d] rs) 45 = (d == 45) := contains_joinWith (by decide) h2 ha
  have f3 : contains (joinWith [d] rs) 46 = (d == 46) := contains_joinWith (by decide) h2 ha
  rcases hd with rfl | rfl
  · simp [shortcutCond, f1, f2, f3]
  · simp [shortcutCond, f1, f2, f3]

theorem findCompound_sep_core (A : Acr) (d : UInt8) (f : Bytes → Bytes) (P : Bytes → Prop) (st : Style)
    {lead : Bytes} {ws pat rep : List Bytes} {old new : Bytes} {styles : List Style}
    (hlead : lead = [] ∨ lead = [95] ∨ lead = [95, 95])
    (hd : d = 95 ∨ d = 45)
    (hparse : parse A (joinWith [d] (ws.map f)) = ws.map f)
    (hold : parse A old = pat) (hnew : parse A new = rep)
    (hf : ∀ w ∈ ws, lower (f w) = w ∧ P (f w))
    (hpat : ∀ p ∈ pat, lower p = p)
    (halpha : AlphaWords (ws.map f)) (hwne : ∀ r ∈ ws.map f, r ≠ [])
    (hdet : detectStyle A (joinWith [d] (ws.map f)) = some st)
    (hsty : ∀ w' : List Bytes, (∀ t ∈ w', P t) → w'.length = pat.length →
      styledTokens A (finalStyle A w' (lead ++ joinWith [d] (ws.map f)) (joinWith [d] (ws.map f))) rep w' = rep.map f)
    (h2 : 2 ≤ ws.length) (hpne : pat ≠ []) (hrne : rep ≠ [])
    (hne : ws ≠ pat) (hocc : 0 < occCount pat 0 ws) (hmem : st ∈ styles) :
    findCompound A (lead ++ joinWith [d] (ws.map f)) old new styles =
      some ⟨lead ++ joinWith [d] (ws.map f), lead ++ joinWith [d] ((substAll pat rep 0 ws).map f), st⟩ := by
  have h2' : 2 ≤ (ws.map f).length := by rw [List.length_map]; exact h2
  obtain ⟨w0, ws', rfl⟩ := List.exists_cons_of_ne_nil (ne_nil_of_two h2)
  have hw0 : f w0 ≠ [] := hwne _ (by simp)
  obtain ⟨c0, hc0, hc0m⟩ : ∃ c, (joinWith [d] ((w0 :: ws').map f)).head? = some c ∧ c ∈ f w0 := by
    rw [List.map_cons, head?_joinWith _ hw0]
    obtain ⟨c, r, hr⟩ := List.exists_cons_of_ne_nil hw0
    exact ⟨c, by rw [hr]; rfl, by rw [hr]; simp⟩
  have hc0a : isAlpha c0 = true := halpha (f w0) (by simp) c0 hc0m
  have hex := extractPrefix_lead hlead hc0 hc0a
  obtain ⟨cl, hcl, rl, hrl, hclm⟩ := getLast?_joinWith (d := d) ((w0 :: ws').map f) (by simp) hwne
  have hcla : isAlpha cl = true := halpha rl hrl cl hclm
  have hlen : pat.length ≤ (w0 :: ws').length := by
    have := occCount_le_length hocc; omega
  have hsp := spliceAll_map A f pat rep rep (lead ++ joinWith [d] ((w0 :: ws').map f)) (joinWith [d] ((w0 :: ws').map f))
    P hpat hsty (w0 :: ws') 0 hf
  unfold findCompound findCompoundG
  simp only [hex, hparse, hold, hnew]
  rw [tokensMatch_map _ _ (fun w hw => (hf w hw).1) hpat]
  simp only [hne, decide_false, Bool.false_eq_true, if_false, shortcutCond_sep hd h2' halpha]
  have hl : decide (pat.length > ((w0 :: ws').map f).length) = false := by
    rw [List.length_map]; simp only [decide_eq_false_iff_not]; omega
  have hpe : pat.isEmpty = false := by cases pat with | nil => exact absurd rfl hpne | cons _ _ => rfl
  have hre : rep.isEmpty = false := by cases rep with | nil => exact absurd rfl hrne | cons _ _ => rfl
  simp only [hpe, hre, List.map_cons, List.isEmpty_cons, Bool.or_self, Bool.false_eq_true, if_false]
  rw [← List.map_cons, hsp]
  have hcnt : (occCount pat 0 (w0 :: ws') == 0) = false := by
    cases h : occCount pat 0 (w0 :: ws') with
    | zero => rw [h] at hocc; exact absurd hocc (by decide)
    | succ n => rfl
  simp only [hcnt, Bool.false_eq_true, if_false, inferStyle, hdet]
  have hc : styles.contains st = true := by simp [hmem]
  simp only [hc, Bool.not_true, Bool.false_eq_true, if_false, joinTokens_sep A hd h2' halpha,
    restoreTrailing_alpha hcl hcla, survivesRejoin_sep hd h2' halpha hwne, Bool.and_false]
  rw [hl]
  rfl

/-- window of lower-case words inside an identifier detected as a lower-case separator style -/
theorem finalStyle_lower (A : Acr) {w' : List Bytes} {ident rest : Bytes} {st : Style}
    (hw : ∀ t ∈ w', LowerWord t) (h2 : 2 ≤ w'.length) (hdet : detectStyle A rest = some st)
    (hnt : (some st == some Style.train) = false) : finalStyle A w' ident rest = some st := by
  obtain ⟨a, b, c, rfl⟩ : ∃ a b c, w' = a :: b :: c := by
    match w', h2 with
    | a :: b :: c, _ => exact ⟨a, b, c, rfl⟩
  have ha : isTitleWord a = false := isTitleWord_lower (hw a (by simp)).2
  have hall : (a :: b :: c).all (fun t => t.all isLower) = true := by
    rw [List.all_eq_true]; intro t ht; rw [List.all_eq_true]; exact (hw t ht).2
  simp only [finalStyle, hdet, hnt, Bool.false_eq_true, if_false, portionStyle, List.all_cons, ha, Bool.false_and,
    if_false]
  simp only [List.all_cons] at hall
  simp only [hall, if_true]

theorem detect_concat_upper (A : Acr) {rs : List Bytes} (hne : rs ≠ [])
    (h : ∀ r ∈ rs, r ≠ [] ∧ ∀ c ∈ r, isUpper c = true) : detectStyle A (concat rs) = none := by
  have ha : AlphaWords rs := fun r hr x hx => upper_alpha ((h r hr).2 x hx)
  have hu : rs.any (fun r => r.any isUpper) = true := by
    obtain ⟨r, rs', rfl⟩ := List.exists_cons_of_ne_nil hne
    obtain ⟨c, cs, hc⟩ := List.exists_cons_of_ne_nil (h r (by simp)).1
    exact any_any_true (List.mem_cons_self ..) (x := c) (by rw [hc]; simp) ((h r (by simp)).2 c (by rw [hc]; simp))
  have hl : rs.any (fun r => r.any isLower) = false :=
    any_any_false (fun r hr x hx => upper_not_lower ((h r hr).2 x hx))
  obtain ⟨f1, f2, f3, f4, f5, f6⟩ := concat_flags ha hu hl
  simp only [detectStyle, isEmpty_of_any f5, f1, f2, f3, f4, f5, f6, Bool.false_and, Bool.false_eq_true, ↓reduceIte]

/-- the upper-case word shape of SCREAMING_SNAKE tokens -/
def UpperTok (t : Bytes) : Prop := 2 ≤ t.length ∧ ∀ c ∈ t, isUpper c = true

theorem finalStyle_upper (A : Acr) {w' : List Bytes} {ident rest : Bytes} {st : Style}
    (hw : ∀ t ∈ w', UpperTok t) (h2 : 2 ≤ w'.length) (hdet : detectStyle A rest = some st)
    (hnt : (some st == some Style.train) = false) : finalStyle A w' ident rest = some st := by
  obtain ⟨a, b, c, rfl⟩ : ∃ a b c, w' = a :: b :: c := by
    match w', h2 with
    | a :: b :: c, _ => exact ⟨a, b, c, rfl⟩
  obtain ⟨u1, u2, r, rfl⟩ : ∃ u1 u2 r, a = u1 :: u2 :: r := by
    have := (hw a (by simp)).1
    match a, this with
    | u1 :: u2 :: r, _ => exact ⟨u1, u2, r, rfl⟩
  have hu1 : isUpper u1 = true := (hw _ (List.mem_cons_self ..)).2 u1 (by simp)
  have hu2 : isUpper u2 = true := (hw _ (List.mem_cons_self ..)).2 u2 (by simp)
  have ha : isTitleWord (u1 :: u2 :: r) = false := by
    simp only [isTitleWord, List.all_cons, upper_not_lower hu2, Bool.false_and, Bool.and_false]
  have hlo : (u1 :: u2 :: r).all isLower = false := by
    simp only [List.all_cons, upper_not_lower hu1, Bool.false_and]
  have hcat : detectStyle A (concat ((u1 :: u2 :: r) :: b :: c)) = none :=
    detect_concat_upper A (by simp) (fun t ht => ⟨by
      have := (hw t ht).1
      intro h; rw [h] at this; simp at this, (hw t ht).2⟩)
  simp only [finalStyle, hdet, hnt, Bool.false_eq_true, if_false, portionStyle, List.all_cons, ha, hlo, Bool.false_and,
    if_false, hcat]

theorem substAll_skip (pat rep : List Bytes) : ∀ (xs ys : List Bytes) (k : Nat), xs.length = k →
    substAll pat rep k (xs ++ ys) = substAll pat rep 0 ys ∧ occCount pat k (xs ++ ys) = occCount pat 0 ys
  | [], ys, k, h => by simp only [List.length_nil] at h; subst h; simp
  | x :: xs, ys, k, h => by
    cases k with
    | zero => simp at h
    | succ k =>
      simp only [List.length_cons, Nat.add_right_cancel_iff] at h
      simp only [List.cons_append, substAll, occCount]
      exact substAll_skip pat rep xs ys k h

theorem substAll_none (pat rep : List Bytes) : ∀ (ws : List Bytes), occCount pat 0 ws = 0 → substAll pat rep 0 ws = ws
  | [], _ => by simp [substAll]
  | w :: ws, h => by
    simp only [occCount] at h
    simp only [substAll]
    split at h
    · exact absurd h (by omega)
    · rename_i hn
      simp only [hn, if_false, substAll_none pat rep ws h]

/-- the term occurs exactly once: no window starting inside the prefix words matches, none inside the suffix words -/
def OccursOnce (pre pat suf : List Bytes) : Prop :=
  (∀ i, i < pre.length → ((pre ++ pat ++ suf).drop i).take pat.length ≠ pat) ∧ occCount pat 0 suf = 0

theorem substAll_once {pat rep : List Bytes} (hp : pat ≠ []) : ∀ (pre suf : List Bytes), OccursOnce pre pat suf →
    substAll pat rep 0 (pre ++ pat ++ suf) = pre ++ rep ++ suf ∧ occCount pat 0 (pre ++ pat ++ suf) = 1
  | [], suf, h => by
    obtain ⟨p, ps, rfl⟩ := List.exists_cons_of_ne_nil hp
    have ht : ((p :: ps) ++ suf).take (p :: ps).length = p :: ps := by simp
    have hs := substAll_skip (p :: ps) rep ps suf ((p :: ps).length - 1) (by simp)
    simp only [List.nil_append, List.cons_append] at ht ⊢
    simp only [substAll, occCount, ht, if_true, hs.1, hs.2, substAll_none _ rep suf h.2, h.2, and_self]
  | a :: pre, suf, h => by
    have h0 := h.1 0 (by simp)
    simp only [List.drop_zero, List.cons_append] at h0
    have ih := substAll_once (rep := rep) hp pre suf ⟨fun i hi => by
      have := h.1 (i + 1) (by simp only [List.length_cons]; omega)
      simpa only [List.cons_append, List.drop_succ_cons] using this, h.2⟩
    have e : (a :: pre) ++ pat ++ suf = a :: (pre ++ pat ++ suf) := by simp
    have e2 : (a :: pre) ++ rep ++ suf = a :: (pre ++ rep ++ suf) := by simp
    rw [e, e2]
    simp only [substAll, occCount, h0, if_false]
    exact ⟨by rw [ih.1], ih.2⟩

/-- variant of `spliceAll_map` for the hump styles, where a replaced window becomes ONE token: the concatenation of
    the resulting tokens is the concatenation of the specification's words -/
theorem spliceAll_concat (A : Acr) (f : Bytes → Bytes) (pat nt rep : List Bytes) (ident rest : Bytes) (P : Bytes → Prop)
    (hpat : ∀ p ∈ pat, lower p = p)
    (hsty : ∀ w' : List Bytes, (∀ t ∈ w', P t) → w'.length = pat.length →
      concat (styledTokens A (finalStyle A w' ident rest) nt w') = concat (rep.map f)) :
    ∀ (ws : List Bytes) (k : Nat), (∀ w ∈ ws, lower (f w) = w ∧ P (f w)) →
      concat (spliceAll A pat nt ident rest k (ws.map f)).1 = concat ((substAll pat rep k ws).map f) ∧
      (spliceAll A pat nt ident rest k (ws.map f)).2 = occCount pat k ws := by
  intro ws
  induction ws with
  | nil => intro k _; cases k <;> simp [spliceAll, substAll, occCount]
  | cons w ws ih =>
    intro k hw
    have hws : ∀ x ∈ ws, lower (f x) = x ∧ P (f x) := fun x hx => hw x (List.mem_cons_of_mem _ hx)
    cases k with
    | succ k => simp only [List.map_cons, spliceAll, substAll, occCount]; exact ih k hws
    | zero =>
      have htake : ((w :: ws).map f).take pat.length = ((w :: ws).take pat.length).map f := by
        rw [List.map_take]
      have hm : tokensMatch (((w :: ws).map f).take pat.length) pat = decide ((w :: ws).take pat.length = pat) := by
        rw [htake]
        exact tokensMatch_map _ _ (fun x hx => (hw x (List.mem_of_mem_take hx)).1) hpat
      rw [List.map_cons, spliceAll, ← List.map_cons, hm, substAll, occCount]
      by_cases heq : (w :: ws).take pat.length = pat
      · have hst := hsty (((w :: ws).map f).take pat.length)
          (by
            intro t ht
            rw [htake, List.mem_map] at ht
            obtain ⟨x, hx, rfl⟩ := ht
            exact (hw x (List.mem_of_mem_take hx)).2)
          (by rw [htake, List.length_map, heq])
        simp only [heq, decide_true, if_true, List.map_append, concat_append, hst, (ih _ hws).1, (ih _ hws).2, and_self]
      · simp only [heq, decide_false, Bool.false_eq_true, if_false, List.map_cons, concat_cons, (ih 0 hws).1,
          (ih 0 hws).2, and_self]

theorem upFirst_lowerWord {w : Bytes} (h : LowerWord w) : upFirst w = capitalizeFirst w := by
  obtain ⟨c, cs, rfl⟩ := List.exists_cons_of_ne_nil h.1
  rw [capitalizeFirst_lower_cons h.2]
  rfl

theorem humpJoin_pascal : ∀ (rep : List Bytes) (i : Nat), LowerWords rep →
    humpJoin false i rep = concat (rep.map capitalizeFirst)
  | [], _, _ => rfl
  | r :: rep, i, h => by
    simp only [humpJoin, Bool.false_and, Bool.false_eq_true, if_false, List.map_cons, concat_cons,
      upFirst_lowerWord (h r (List.mem_cons_self ..)), humpJoin_pascal rep (i + 1) h.tail]

theorem getLast?_concat : ∀ (rs : List Bytes), rs ≠ [] → (∀ r ∈ rs, r ≠ []) →
    ∃ c, (concat rs).getLast? = some c ∧ ∃ r ∈ rs, c ∈ r
  | [], h, _ => absurd rfl h
  | [r], _, h => by
    have hr := h r (List.mem_singleton.mpr rfl)
    refine ⟨r.getLast hr, ?_, r, List.mem_singleton.mpr rfl, List.getLast_mem hr⟩
    simp only [concat, List.foldr_cons, List.foldr_nil, List.append_nil, List.getLast?_eq_some_getLast hr]
  | a :: b :: l, _, h => by
    obtain ⟨c, hc, r, hr, hcr⟩ := getLast?_concat (b :: l) (by simp) (fun r hr => h r (List.mem_cons_of_mem _ hr))
    refine ⟨c, ?_, r, List.mem_cons_of_mem _ hr, hcr⟩
    rw [concat_cons, List.getLast?_append, hc]
    rfl

theorem survivesRejoin_pascal {rs : List Bytes} (hne0 : rs ≠ []) (ha : AlphaWords rs) (hne : ∀ r ∈ rs, r ≠ [])
    (W : List (Nat × Nat)) : survivesRejoin (concat rs) rs W .pascal = true := by
  obtain ⟨g1, g2, g3, g4, _, _⟩ := concat_flags ha (up := rs.any (fun r => r.any isUpper))
    (lo := rs.any (fun r => r.any isLower)) rfl rfl
  obtain ⟨t, ts, rfl⟩ := List.exists_cons_of_ne_nil hne0
  have hw : ∀ x ∈ t :: ts, x ≠ [] ∧ ∀ c ∈ x, isAlnum c = true :=
    fun x hx => ⟨hne x hx, fun c hc => by have := ha x hx c hc; simp only [isAlnum, this, Bool.true_or]⟩
  have := gapsOk_regular [] W (by simp) t ts hw
  rw [← concat_eq_tailOf, ← concat_cons] at this
  simp [survivesRejoin, g1, g2, g3, g4, this]

/-- PascalCase identifiers: `lead` + capitalised words, term anywhere -/
theorem findCompound_pascal_core {A : Acr} (hA : AcrOk A) (hS : AcrStable A)
    {lead : Bytes} {ws pat rep : List Bytes} {old new : Bytes} {styles : List Style}
    (hlead : lead = [] ∨ lead = [95] ∨ lead = [95, 95])
    (hws : Words ws) (hN : ∀ w ∈ ws, NeutralCap A w) (hpat : Words pat) (hrep : Words rep)
    (hold : parse A old = pat) (hnew : parse A new = rep)
    (h2 : 2 ≤ pat.length) (hrne : rep ≠ [])
    (hne : ws ≠ pat) (hocc : 0 < occCount pat 0 ws) (hmem : Style.pascal ∈ styles) :
    findCompound A (lead ++ concat (ws.map capitalizeFirst)) old new styles =
      some ⟨lead ++ concat (ws.map capitalizeFirst),
            lead ++ concat ((substAll pat rep 0 ws).map capitalizeFirst), .pascal⟩ := by
  have hl := hws.lowerWords
  have hcaps := caps_of_words hws
  have hpne : pat ≠ [] := by intro h; rw [h] at h2; simp at h2
  have hlen : pat.length ≤ ws.length := by have := occCount_le_length hocc; omega
  obtain ⟨w0, ws', rfl⟩ : ∃ w0 ws', ws = w0 :: ws' := by
    cases ws with
    | nil => simp only [List.length_nil] at hlen; omega
    | cons a b => exact ⟨a, b, rfl⟩
  have hne' : (w0 :: ws').map capitalizeFirst ≠ [] := by simp
  have halpha := alpha_capWords hcaps
  have hwne : ∀ r ∈ (w0 :: ws').map capitalizeFirst, r ≠ [] := fun r hr => isCap_ne_nil (hcaps r hr)
  have hparse : parse A (concat ((w0 :: ws').map capitalizeFirst)) = (w0 :: ws').map capitalizeFirst := by
    rw [List.map_cons]
    exact parse_pascal hA hS (hcaps _ (by simp)) (hN w0 (by simp)) (fun x hx => hcaps x (by simp [hx]))
  have hdet : detectStyle A (concat ((w0 :: ws').map capitalizeFirst)) = some .pascal := detect_pascal A hne' hcaps
  have hc0w := hcaps (capitalizeFirst w0) (by simp)
  obtain ⟨c0, hc0, hc0m⟩ : ∃ c, (concat ((w0 :: ws').map capitalizeFirst)).head? = some c ∧ c ∈ capitalizeFirst w0 := by
    rw [List.map_cons, head?_concat _ (isCap_ne_nil hc0w)]
    obtain ⟨c, r, hr⟩ := List.exists_cons_of_ne_nil (isCap_ne_nil hc0w)
    exact ⟨c, by rw [hr]; rfl, by rw [hr]; simp⟩
  have hc0a : isAlpha c0 = true := halpha _ (by simp) c0 hc0m
  have hex := extractPrefix_lead hlead hc0 hc0a
  obtain ⟨cl, hcl, rl, hrl, hclm⟩ := getLast?_concat ((w0 :: ws').map capitalizeFirst) hne' hwne
  have hcla : isAlpha cl = true := halpha rl hrl cl hclm
  obtain ⟨g1, g2, g3, g4, _, _⟩ := concat_flags halpha (up := ((w0 :: ws').map capitalizeFirst).any (fun r => r.any isUpper))
    (lo := ((w0 :: ws').map capitalizeFirst).any (fun r => r.any isLower)) rfl rfl
  have hsp32 : contains (lead ++ concat ((w0 :: ws').map capitalizeFirst)) 32 = false := by
    have : contains lead 32 = false := by rcases hlead with rfl | rfl | rfl <;> decide
    simp only [contains, List.any_append] at this g4 ⊢
    rw [this, g4]; rfl
  have hsty : ∀ w' : List Bytes, (∀ t ∈ w', IsCap t) → w'.length = pat.length →
      concat (styledTokens A (finalStyle A w' (lead ++ concat ((w0 :: ws').map capitalizeFirst))
        (concat ((w0 :: ws').map capitalizeFirst))) rep w') = concat (rep.map capitalizeFirst) := by
    intro w' hw' hlen'
    obtain ⟨a, b, c, rfl⟩ : ∃ a b c, w' = a :: b :: c := by
      match w', (show 2 ≤ w'.length by omega) with
      | a :: b :: c, _ => exact ⟨a, b, c, rfl⟩
    have hall : (a :: b :: c).all isTitleWord = true := by
      rw [List.all_eq_true]; exact fun t ht => isTitleWord_cap (hw' t ht)
    have hfs : finalStyle A (a :: b :: c) (lead ++ concat ((w0 :: ws').map capitalizeFirst))
        (concat ((w0 :: ws').map capitalizeFirst)) = some .pascal := by
      simp only [finalStyle, hdet, portionStyle, hall, hsp32, Bool.and_false, Bool.false_eq_true, if_false, if_true]
      rfl
    rw [hfs]
    simp only [styledTokens, concat_cons, concat_nil, List.append_nil, humpJoin_pascal rep 0 hrep.lowerWords]
  have hsp := spliceAll_concat A capitalizeFirst pat rep rep (lead ++ concat ((w0 :: ws').map capitalizeFirst))
    (concat ((w0 :: ws').map capitalizeFirst)) IsCap (fun p hp => lower_of_lower (hpat p hp).2) hsty (w0 :: ws') 0
    (fun w hw => ⟨lower_capitalizeFirst (hl w hw).2, isCap_capitalizeFirst (hws w hw)⟩)
  unfold findCompound findCompoundG
  simp only [hex, hparse, hold, hnew]
  rw [tokensMatch_map _ _ (fun w hw => lower_capitalizeFirst (hl w hw).2) (fun p hp => lower_of_lower (hpat p hp).2)]
  have hsc : shortcutCond (concat ((w0 :: ws').map capitalizeFirst)) old = false := by
    simp only [shortcutCond, g1, g2, g3, Bool.and_self, Bool.or_self, Bool.false_and]
  simp only [hne, decide_false, Bool.false_eq_true, if_false, hsc]
  have hl' : decide (pat.length > ((w0 :: ws').map capitalizeFirst).length) = false := by
    rw [List.length_map]; simp only [decide_eq_false_iff_not]; omega
  have hpe : pat.isEmpty = false := by cases pat with | nil => exact absurd rfl hpne | cons _ _ => rfl
  have hre : rep.isEmpty = false := by cases rep with | nil => exact absurd rfl hrne | cons _ _ => rfl
  have hcnt : ((spliceAll A pat rep (lead ++ concat ((w0 :: ws').map capitalizeFirst))
      (concat ((w0 :: ws').map capitalizeFirst)) 0 ((w0 :: ws').map capitalizeFirst)).2 == 0) = false := by
    rw [hsp.2]
    cases h : occCount pat 0 (w0 :: ws') with
    | zero => rw [h] at hocc; exact absurd hocc (by decide)
    | succ n => rfl
  have hc : styles.contains Style.pascal = true := by simp [hmem]
  have hjoin : ∀ toks, joinTokens A (concat ((w0 :: ws').map capitalizeFirst)) toks .pascal = concat toks := by
    intro toks
    simp only [joinTokens, g1, g2, g3, g4, Bool.and_self, Bool.false_eq_true, if_false]
  rw [hl']
  simp only [hpe, hre, List.isEmpty_cons, List.map_cons, Bool.or_self, Bool.false_eq_true, if_false]
  rw [← List.map_cons, hcnt]
  simp only [Bool.false_eq_true, if_false, inferStyle, hdet, hc, Bool.not_true, hjoin, hsp.1,
    restoreTrailing_alpha hcl hcla, survivesRejoin_pascal hne' halpha hwne, Bool.and_false]

theorem longestVariant_foldl {s : Bytes} : ∀ (vs : List Bytes) (best : Option Bytes) (v : Bytes),
    (∀ b, best = some b → b ≠ [] ∧ b.isPrefixOf s = true) →
    vs.foldl (fun best v =>
      if !v.isEmpty && v.isPrefixOf s then
        (match best with
         | some b => if b.length < v.length then some v else some b
         | none => some v)
      else best) best = some v →
    (best = some v ∨ v ∈ vs) ∧ v ≠ [] ∧ v.isPrefixOf s = true
  | [], best, v, hb, h => by
    simp only [List.foldl_nil] at h
    exact ⟨Or.inl h, hb v h⟩
  | x :: vs, best, v, hb, h => by
    simp only [List.foldl_cons] at h
    have := longestVariant_foldl vs _ v (by
      intro b hbb
      split at hbb
      · rename_i hx
        simp only [Bool.and_eq_true, Bool.not_eq_true', List.isEmpty_eq_false_iff] at hx
        cases best with
        | none => simp only [Option.some.injEq] at hbb; subst hbb; exact hx
        | some b0 =>
          simp only at hbb
          split at hbb
          · simp only [Option.some.injEq] at hbb; subst hbb; exact hx
          · simp only [Option.some.injEq] at hbb; subst hbb; exact hb _ rfl
      · exact hb b hbb) h
    refine ⟨?_, this.2⟩
    rcases this.1 with h1 | h1
    · split at h1
      · cases best with
        | none => simp only [Option.some.injEq] at h1; subst h1; exact Or.inr (List.mem_cons_self ..)
        | some b0 =>
          simp only at h1
          split at h1
          · simp only [Option.some.injEq] at h1; subst h1; exact Or.inr (List.mem_cons_self ..)
          · exact Or.inl h1
      · exact Or.inl h1
    · exact Or.inr (List.mem_cons_of_mem _ h1)

theorem longestVariant_sound {vs : List Bytes} {s v : Bytes} (h : longestVariant vs s = some v) :
    v ∈ vs ∧ v ≠ [] ∧ v.isPrefixOf s = true := by
  have := longestVariant_foldl vs none v (by intro b hb; cases hb) h
  rcases this.1 with h1 | h1
  · cases h1
  · exact ⟨h1, this.2⟩

/-- every hit of the exact pass is a (non-empty) variant, located where the hit says -/
theorem scanExact_sound {vs : List Bytes} : ∀ (cs : Bytes) (skip pos s e : Nat), (s, e) ∈ scanExact vs skip pos cs →
    ∃ v ∈ vs, v ≠ [] ∧ pos ≤ s ∧ e = s + v.length ∧ v.isPrefixOf (cs.drop (s - pos)) = true
  | [], _, _, _, _, h => by simp [scanExact] at h
  | c :: cs, skip + 1, pos, s, e, h => by
    rw [scanExact] at h
    obtain ⟨v, hv, hne, hp, he, hpre⟩ := scanExact_sound cs skip (pos + 1) s e h
    refine ⟨v, hv, hne, by omega, he, ?_⟩
    have : s - pos = (s - (pos + 1)) + 1 := by omega
    rw [this, List.drop_succ_cons]; exact hpre
  | c :: cs, 0, pos, s, e, h => by
    rw [scanExact] at h
    split at h
    · rename_i v hv
      rw [List.mem_cons] at h
      rcases h with h | h
      · simp only [Prod.mk.injEq] at h
        obtain ⟨rfl, rfl⟩ := h
        obtain ⟨h1, h2, h3⟩ := longestVariant_sound hv
        exact ⟨v, h1, h2, Nat.le_refl _, rfl, by simpa using h3⟩
      · obtain ⟨v', hv', hne, hp, he, hpre⟩ := scanExact_sound cs _ (pos + 1) s e h
        refine ⟨v', hv', hne, by omega, he, ?_⟩
        have : s - pos = (s - (pos + 1)) + 1 := by omega
        rw [this, List.drop_succ_cons]; exact hpre
    · obtain ⟨v', hv', hne, hp, he, hpre⟩ := scanExact_sound cs _ (pos + 1) s e h
      refine ⟨v', hv', hne, by omega, he, ?_⟩
      have : s - pos = (s - (pos + 1)) + 1 := by omega
      rw [this, List.drop_succ_cons]; exact hpre

theorem take_of_isPrefixOf : ∀ {p s : Bytes}, p.isPrefixOf s = true → s.take p.length = p
  | [], s, _ => by simp
  | a :: p, [], h => by simp [List.isPrefixOf] at h
  | a :: p, b :: s, h => by
    simp only [List.isPrefixOf, Bool.and_eq_true, beq_iff_eq] at h
    obtain ⟨rfl, h⟩ := h
    simp only [List.length_cons, List.take_succ_cons, take_of_isPrefixOf h]

-- identifiers with any separator multiplicity --------------------------------------------------------------------

theorem tok_join_then {A : Acr} {d : UInt8} (hd : isDelim d = true) : ∀ (rs : List Bytes), rs ≠ [] →
    (∀ r ∈ rs, Good A r) → ∀ (prev : Option UInt8) (acc : List Bytes) (rest : Bytes),
    tok A prev [] 0 (joinWith [d] rs ++ d :: rest) acc = tok A (some d) [] 0 rest (acc ++ rs)
  | [], h, _, _, _, _ => absurd rfl h
  | [r], _, h, prev, acc, rest => by
    simp only [joinWith]
    exact tok_good_delim (h r (List.mem_singleton.mpr rfl)) hd rest prev acc
  | a :: b :: l, _, h, prev, acc, rest => by
    rw [joinWith_cons_cons, List.append_assoc, List.append_assoc, List.singleton_append,
      tok_good_delim (h a (List.mem_cons_self ..)) hd,
      tok_join_then hd (b :: l) (by simp) (fun r hr => h r (List.mem_cons_of_mem _ hr))]
    simp only [List.append_assoc, List.singleton_append]

theorem tok_delims {A : Acr} {d : UInt8} (hd : isDelim d = true) : ∀ (n : Nat) (prev : Option UInt8) (acc : List Bytes)
    (rest : Bytes), ∃ p, tok A prev [] 0 (List.replicate n d ++ rest) acc = tok A p [] 0 rest acc ∧ (n = 0 → p = prev) ∧ (0 < n → p = some d)
  | 0, prev, acc, rest => ⟨prev, by simp, fun _ => rfl, fun h => absurd h (by decide)⟩
  | n + 1, prev, acc, rest => by
    obtain ⟨p, hp, h0, h1⟩ := tok_delims hd n (some d) acc rest
    refine ⟨some d, ?_, fun h => absurd h (by omega), fun _ => rfl⟩
    rw [List.replicate_succ, List.cons_append, tok_delim hd, flush_nil, hp]
    cases n with
    | zero => rw [h0 rfl]
    | succ k => rw [h1 (by omega)]

/-- three blocks of good words, `n1 ≥ 1` / `n2 ≥ 1` delimiters between the blocks: the tokens are the words -/
theorem parse_three_blocks {A : Acr} {d : UInt8} (hd : isDelim d = true) {xs ys zs : List Bytes}
    (hx : xs ≠ []) (hy : ys ≠ []) (_hz : zs ≠ []) (hg : ∀ r ∈ xs ++ ys ++ zs, Good A r) {n1 n2 : Nat} (h1 : 1 ≤ n1) (h2 : 1 ≤ n2) :
    parse A (joinWith [d] xs ++ List.replicate n1 d ++ joinWith [d] ys ++ List.replicate n2 d ++ joinWith [d] zs) =
      xs ++ ys ++ zs := by
  obtain ⟨k1, rfl⟩ : ∃ k, n1 = k + 1 := ⟨n1 - 1, by omega⟩
  obtain ⟨k2, rfl⟩ : ∃ k, n2 = k + 1 := ⟨n2 - 1, by omega⟩
  have gx : ∀ r ∈ xs, Good A r := fun r hr => hg r (by simp [hr])
  have gy : ∀ r ∈ ys, Good A r := fun r hr => hg r (by simp [hr])
  have gz : ∀ r ∈ zs, Good A r := fun r hr => hg r (by simp [hr])
  simp only [parse, List.replicate_succ, List.append_assoc, List.cons_append]
  rw [tok_join_then hd xs hx gx]
  obtain ⟨p1, e1, _, _⟩ := tok_delims (A := A) hd k1 (some d) ([] ++ xs)
    (joinWith [d] ys ++ d :: (List.replicate k2 d ++ joinWith [d] zs))
  rw [e1, tok_join_then hd ys hy gy]
  obtain ⟨p2, e2, _, _⟩ := tok_delims (A := A) hd k2 (some d) ([] ++ xs ++ ys) (joinWith [d] zs)
  rw [e2, tok_join hd zs p2 _ gz]
  simp

/-- the token walk over a regular block of words: only the gap in front of the block is examined -/
theorem gapsOk_block (sep : Bytes) (W : List (Nat × Nat)) (hsep : ∀ c ∈ sep, isAlnum c = false) :
    ∀ (xs : List Bytes) (idx : Nat) (r : Bytes) (ts : List Bytes), (∀ t ∈ xs, t ≠ [] ∧ ∀ c ∈ t, isAlnum c = true) →
      gapsOk sep W (idx + 1) (tailOf sep xs ++ r) (xs ++ ts) = gapsOk sep W (idx + 1 + xs.length) r ts
  | [], idx, r, ts, _ => by simp [tailOf]
  | t :: xs, idx, r, ts, h => by
    have ht := h t (List.mem_cons_self ..)
    have := gapsOk_step sep W (idx + 1) (pre := sep) (t := t) (r := tailOf sep xs ++ r) (xs ++ ts) hsep ht.1 ht.2
    simp only [tailOf, List.append_assoc, List.cons_append] at this ⊢
    rw [this, gapsOk_block sep W hsep xs (idx + 1) r ts (fun x hx => h x (List.mem_cons_of_mem _ hx))]
    simp only [Nat.succ_ne_zero, beq_self_eq_true, Bool.or_true, Bool.true_and,
      List.length_cons, beq_iff_eq, if_false]
    congr 1
    omega

theorem tokensMatch_lower {w pat : List Bytes} (hw : ∀ x ∈ w, lower x = x) (hp : ∀ p ∈ pat, lower p = p) :
    tokensMatch w pat = decide (w = pat) := by
  have := tokensMatch_map (f := id) w pat hw hp
  rwa [List.map_id] at this

theorem mw_skip (pat : List Bytes) : ∀ (xs ys : List Bytes) (k idx : Nat), xs.length = k →
    matchedWindows pat k idx (xs ++ ys) = matchedWindows pat 0 (idx + k) ys
  | [], ys, k, idx, h => by simp only [List.length_nil] at h; subst h; simp
  | x :: xs, ys, k, idx, h => by
    cases k with
    | zero => simp at h
    | succ k =>
      simp only [List.length_cons, Nat.add_right_cancel_iff] at h
      simp only [List.cons_append, matchedWindows]
      rw [mw_skip pat xs ys k (idx + 1) h]
      congr 1; omega

theorem mw_none {pat : List Bytes} (hp : ∀ p ∈ pat, lower p = p) : ∀ (ws : List Bytes) (idx : Nat),
    (∀ w ∈ ws, lower w = w) → occCount pat 0 ws = 0 → matchedWindows pat 0 idx ws = []
  | [], _, _, _ => by simp [matchedWindows]
  | w :: ws, idx, hw, h => by
    have hm := tokensMatch_lower (w := (w :: ws).take pat.length) (pat := pat)
      (fun x hx => hw x (List.mem_of_mem_take hx)) hp
    simp only [occCount] at h
    simp only [matchedWindows, hm]
    split at h
    · exact absurd h (by omega)
    · rename_i hn
      simp only [hn, decide_false, Bool.false_eq_true, if_false]
      exact mw_none hp ws (idx + 1) (fun x hx => hw x (List.mem_cons_of_mem _ hx)) h

theorem mw_once {pat : List Bytes} (hpne : pat ≠ []) (hp : ∀ p ∈ pat, lower p = p) : ∀ (pre suf : List Bytes) (idx : Nat),
    (∀ w ∈ pre ++ suf, lower w = w) → OccursOnce pre pat suf →
    matchedWindows pat 0 idx (pre ++ pat ++ suf) = [(idx + pre.length, idx + pre.length + pat.length)]
  | [], suf, idx, hw, h => by
    obtain ⟨p, ps, rfl⟩ := List.exists_cons_of_ne_nil hpne
    have ht : ((p :: ps) ++ suf).take (p :: ps).length = p :: ps := by simp
    have hm : tokensMatch (p :: ps) (p :: ps) = true := by
      rw [tokensMatch_lower hp hp]; simp
    simp only [List.nil_append, List.cons_append] at ht ⊢
    simp only [matchedWindows, ht, hm, if_true, List.length_nil, Nat.add_zero]
    rw [mw_skip (p :: ps) ps suf ((p :: ps).length - 1) (idx + 1) (by simp),
      mw_none hp suf _ (fun x hx => hw x (by simp [hx])) h.2]
  | a :: pre, suf, idx, hw, h => by
    have h0 := h.1 0 (by simp)
    simp only [List.drop_zero, List.cons_append] at h0
    have hm := tokensMatch_lower (w := (a :: (pre ++ pat ++ suf)).take pat.length) (pat := pat)
      (fun x hx => by
        have := List.mem_of_mem_take hx
        simp only [List.mem_cons, List.mem_append] at this
        rcases this with rfl | (h1 | h1) | h1
        · exact hw _ (by simp)
        · exact hw _ (by simp [h1])
        · exact hp _ h1
        · exact hw _ (by simp [h1])) hp
    have ih := mw_once hpne hp pre suf (idx + 1) (fun x hx => hw x (by
        simp only [List.mem_append] at hx
        rcases hx with h1 | h1
        · simp [h1]
        · simp [h1])) ⟨fun i hi => by
      have := h.1 (i + 1) (by simp only [List.length_cons]; omega)
      simpa only [List.cons_append, List.drop_succ_cons] using this, h.2⟩
    have e : (a :: pre) ++ pat ++ suf = a :: (pre ++ pat ++ suf) := by simp
    rw [e]
    simp only [matchedWindows, hm, h0, decide_false, Bool.false_eq_true, if_false, ih, List.length_cons]
    congr 2 <;> omega

theorem replicate_beq_single (n : Nat) : (List.replicate n (95 : UInt8) == [95]) = (n == 1) := by
  match n with
  | 0 => rfl
  | 1 => rfl
  | n + 2 => simp [List.replicate_succ]

theorem replicate_not_alnum (n : Nat) : ∀ c ∈ List.replicate n (95 : UInt8), isAlnum c = false := by
  intro c hc
  rw [List.mem_replicate] at hc
  rw [hc.2]; decide

/-- the token walk over prefix words / term / suffix words with `n1`, `n2` underscores between the blocks -/
theorem gapsOk_three_blocks (W : List (Nat × Nat)) {p0 q0 s0 : Bytes} {ps qs ss : List Bytes}
    (h : ∀ t ∈ (p0 :: ps) ++ (q0 :: qs) ++ (s0 :: ss), t ≠ [] ∧ ∀ c ∈ t, isAlnum c = true) (n1 n2 : Nat) :
    gapsOk [95] W 0
      (joinWith [95] (p0 :: ps) ++ List.replicate n1 95 ++ joinWith [95] (q0 :: qs) ++ List.replicate n2 95 ++
        joinWith [95] (s0 :: ss))
      ((p0 :: ps) ++ (q0 :: qs) ++ (s0 :: ss)) =
    ((insideWindow W (ps.length + 1) || n1 == 1) && (insideWindow W (ps.length + 1 + (qs.length + 1)) || n2 == 1)) := by
  have hsep : ∀ c ∈ ([95] : Bytes), isAlnum c = false := by decide
  have hp0 := h p0 (by simp)
  have hq0 := h q0 (by simp)
  have hs0 := h s0 (by simp)
  have hps : ∀ t ∈ ps, t ≠ [] ∧ ∀ c ∈ t, isAlnum c = true := fun t ht => h t (by simp [ht])
  have hqs : ∀ t ∈ qs, t ≠ [] ∧ ∀ c ∈ t, isAlnum c = true := fun t ht => h t (by simp [ht])
  have hss : ∀ t ∈ ss, t ≠ [] ∧ ∀ c ∈ t, isAlnum c = true := fun t ht => h t (by simp [ht])
  rw [joinWith_eq_tailOf, joinWith_eq_tailOf, joinWith_eq_tailOf]
  -- block 1
  have e1 : p0 ++ tailOf [95] ps ++ List.replicate n1 95 ++ (q0 ++ tailOf [95] qs) ++ List.replicate n2 95 ++ (s0 ++ tailOf [95] ss)
      = [] ++ p0 ++ (tailOf [95] ps ++ (List.replicate n1 95 ++ q0 ++ (tailOf [95] qs ++ (List.replicate n2 95 ++ s0 ++ (tailOf [95] ss ++ []))))) := by
    simp only [List.append_assoc, List.nil_append, List.append_nil]
  have t1 : (p0 :: ps) ++ (q0 :: qs) ++ (s0 :: ss) = p0 :: (ps ++ (q0 :: (qs ++ (s0 :: (ss ++ []))))) := by simp
  rw [e1, t1, gapsOk_step [95] W 0 _ (by simp) hp0.1 hp0.2]
  have b1 := gapsOk_block [95] W hsep ps 0 (List.replicate n1 95 ++ q0 ++ (tailOf [95] qs ++ (List.replicate n2 95 ++ s0 ++ (tailOf [95] ss ++ []))))
    (q0 :: (qs ++ (s0 :: (ss ++ [])))) hps
  rw [b1, gapsOk_step [95] W _ _ (replicate_not_alnum n1) hq0.1 hq0.2]
  have b2 := gapsOk_block [95] W hsep qs (0 + 1 + ps.length) (List.replicate n2 95 ++ s0 ++ (tailOf [95] ss ++ []))
    (s0 :: (ss ++ [])) hqs
  rw [b2, gapsOk_step [95] W _ _ (replicate_not_alnum n2) hs0.1 hs0.2]
  have b3 := gapsOk_block [95] W hsep ss (0 + 1 + ps.length + 1 + qs.length) [] [] hss
  rw [b3]
  simp only [gapsOk, replicate_beq_single, List.isEmpty_nil, beq_self_eq_true, Bool.true_or, Bool.and_true, Bool.true_and,
    if_true]
  have i1 : (0 + 1 + ps.length == 0) = false := by simp
  have i2 : (0 + 1 + ps.length + 1 + qs.length == 0) = false := by simp
  simp only [i1, i2, Bool.false_eq_true, if_false]
  simp only [Nat.add_comm, Nat.add_left_comm]

theorem joinWith_append (d : UInt8) : ∀ (xs ys : List Bytes), xs ≠ [] → ys ≠ [] →
    joinWith [d] (xs ++ ys) = joinWith [d] xs ++ [d] ++ joinWith [d] ys
  | [], _, h, _ => absurd rfl h
  | [x], y :: ys, _, _ => by simp [joinWith_cons_cons, joinWith]
  | x :: x' :: xs, ys, _, hy => by
    have := joinWith_append d (x' :: xs) ys (by simp) hy
    simp only [List.cons_append] at this ⊢
    rw [joinWith_cons_cons, this, joinWith_cons_cons]
    simp only [List.append_assoc]
  | [x], [], _, h => absurd rfl h

theorem any_block {p : UInt8 → Bool} (hp : p 95 = false) {xs : List Bytes} (h : ∀ r ∈ xs, ∀ x ∈ r, p x = false) :
    (joinWith [95] xs).any p = false := by
  rw [any_joinWith_of_not_sep p hp]; exact any_any_false h

/-- the body of `snakeIdent` contains neither `c` when `c` is not a letter and not `_` -/
theorem contains_body_false {c : UInt8} (hc : isAlpha c = false) (h95 : ((95 : UInt8) == c) = false)
    {xs ys zs : List Bytes} (ha : AlphaWords (xs ++ ys ++ zs)) (n1 n2 : Nat) :
    contains (joinWith [95] xs ++ List.replicate n1 95 ++ joinWith [95] ys ++ List.replicate n2 95 ++ joinWith [95] zs) c = false := by
  have hw : ∀ {l : List Bytes}, (∀ r ∈ l, r ∈ xs ++ ys ++ zs) → (joinWith [95] l).any (· == c) = false := by
    intro l hl
    apply any_block h95
    intro r hr x hx
    exact alpha_ne_sep hc ha r (hl r hr) x hx
  have hr : ∀ n, (List.replicate n (95 : UInt8)).any (· == c) = false := by
    intro n
    induction n with
    | zero => rfl
    | succ k ih => simp only [List.replicate_succ, List.any_cons, h95, ih, Bool.or_self]
  simp only [contains, List.any_append, hw (l := xs) (fun r hr => by simp [hr]), hw (l := ys) (fun r hr => by simp [hr]),
    hw (l := zs) (fun r hr => by simp [hr]), hr, Bool.or_self]

theorem dropWhile_hyphen_head (p : Bytes) : (p.dropWhile (· == 45)).head? ≠ some 45 := by
  induction p with
  | nil => simp
  | cons c cs ih =>
    by_cases h : c = 45
    · subst h; simpa [List.dropWhile] using ih
    · have : (c == 45) = false := by simpa using h
      simp [List.dropWhile, this, h]

end Compound
