import RModel.Model.Matcher
import RModel.Model.Edits
import RModel.Model.Hunks
/- helper lemmas for C03: matches as edit lists, injectivity of starts, counters -/
namespace C03
open Matcher

/-- the edits a list of matches describes, with any choice of replacement texts -/
def toEdits (repl : Match → Bytes) (ms : List Match) : List Edits.Edit :=
  ms.map (fun m => { before := m.text, after := repl m, start := m.start, stop := m.stop })

theorem consistent_of_sorted (c : Bytes) (repl : Match → Bytes) (ms : List Match) (off : Nat)
    (hoff : off ≤ c.length)
    (hlo : ∀ m ∈ ms, off ≤ m.start)
    (hsorted : ms.Pairwise (fun a b => a.stop ≤ b.start))
    (hP : ∀ m ∈ ms, m.start ≤ m.stop ∧ m.stop ≤ c.length ∧ Edits.isCharBoundary c m.start = true ∧
      Edits.isCharBoundary c m.stop = true ∧ (c.take m.stop).drop m.start = m.text ∧
      (∀ b, (repl m).head? = some b → Edits.isCont b = false)) :
    Edits.Consistent c off (toEdits repl ms) := by
  induction ms generalizing off with
  | nil => simpa [toEdits, Edits.Consistent] using hoff
  | cons m ms ih =>
    obtain ⟨p1, p2, p3, p4, p5, p6⟩ := hP m List.mem_cons_self
    obtain ⟨s1, s2⟩ := List.pairwise_cons.mp hsorted
    refine ⟨hlo m List.mem_cons_self, p1, p2, p3, p4, p5, p6, ?_⟩
    exact ih m.stop p2 (fun x hx => s1 x hx) s2 (fun x hx => hP x (List.mem_cons_of_mem _ hx))

theorem starts_injective (ms : List Match) (h : ms.Pairwise (fun a b => a.stop ≤ b.start))
    (hne : ∀ m ∈ ms, m.start < m.stop) : ∀ a ∈ ms, ∀ b ∈ ms, a.start = b.start → a = b := by
  induction ms with
  | nil => intro a ha; simp at ha
  | cons x xs ih =>
    obtain ⟨hx, hxs⟩ := List.pairwise_cons.mp h
    intro a ha b hb hab
    rcases List.mem_cons.mp ha with rfl | ha' <;> rcases List.mem_cons.mp hb with rfl | hb'
    · rfl
    · have := hx b hb'; have := hne a List.mem_cons_self; omega
    · have := hx a ha'; have := hne b List.mem_cons_self; omega
    · exact ih hxs (fun m hm => hne m (List.mem_cons_of_mem _ hm)) a ha' b hb' hab

end C03

namespace C03
open Hunks

theorem totalOf_bump (v : Bytes) (t : List (Bytes × Nat)) : totalOf (bump v t) = totalOf t + 1 := by
  induction t with
  | nil => simp [bump, totalOf]
  | cons kv rest ih =>
    obtain ⟨k, n⟩ := kv
    simp only [bump]
    split
    · simp [totalOf]; omega
    · simp only [totalOf, List.map_cons, List.sum_cons] at ih ⊢
      omega

theorem totalOf_foldl (vs : List Bytes) (acc : List (Bytes × Nat)) :
    totalOf (vs.foldl (fun acc v => bump v acc) acc) = totalOf acc + vs.length := by
  induction vs generalizing acc with
  | nil => simp
  | cons v vs ih => simp only [List.foldl_cons, ih, totalOf_bump, List.length_cons]; omega

end C03
