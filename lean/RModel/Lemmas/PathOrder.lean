import RModel.Model.Apply
/-
  The order of `PathBuf` keys in the `BTreeMap` that groups the content edits by file (`apply.rs`, STEP 2):
  `Apply.bytesLt` / `Apply.pathLt` are strict total orders (lexicographic over a strict total order), hence
  `Apply.insertPath` keeps a list strictly ascending and `Apply.sortedFiles` has no duplicates — for EVERY list of hunks.
  Used by `Props/C01.lean` (the clause `filesDistinct` of `G01` is a theorem, not a hypothesis) and `Props/Compose.lean`.
-/
namespace PathOrder
open Apply Fs

/-- the shape shared by `bytesLt` and `pathLt` -/
def lexLt {α : Type} (lt : α → α → Bool) : List α → List α → Bool
  | [], [] => false
  | [], _ :: _ => true
  | _ :: _, [] => false
  | a :: as, b :: bs => if lt a b then true else if lt b a then false else lexLt lt as bs

structure StrictTotal {α : Type} (lt : α → α → Bool) : Prop where
  irrefl : ∀ a, lt a a = false
  trans : ∀ a b c, lt a b = true → lt b c = true → lt a c = true
  total : ∀ a b, lt a b = false → lt b a = false → a = b

theorem StrictTotal.asymm {α : Type} {lt : α → α → Bool} (h : StrictTotal lt) {a b : α} (hab : lt a b = true) :
    lt b a = false := by
  cases hba : lt b a with
  | false => rfl
  | true => have := h.trans a b a hab hba; rw [h.irrefl] at this; cases this

theorem lexLt_irrefl {α : Type} {lt : α → α → Bool} (h : StrictTotal lt) : ∀ l : List α, lexLt lt l l = false
  | [] => rfl
  | a :: as => by simp only [lexLt, h.irrefl, Bool.false_eq_true, if_false]; exact lexLt_irrefl h as

theorem lexLt_cons_iff {α : Type} {lt : α → α → Bool} (h : StrictTotal lt) (a b : α) (as bs : List α) :
    lexLt lt (a :: as) (b :: bs) = true ↔ lt a b = true ∨ (a = b ∧ lexLt lt as bs = true) := by
  simp only [lexLt]
  constructor
  · intro hx
    by_cases h1 : lt a b = true
    · exact Or.inl h1
    · rw [if_neg h1] at hx
      by_cases h2 : lt b a = true
      · rw [if_pos h2] at hx; cases hx
      · rw [if_neg h2] at hx
        exact Or.inr ⟨h.total a b (by simpa using h1) (by simpa using h2), hx⟩
  · rintro (h1 | ⟨rfl, h2⟩)
    · rw [if_pos h1]
    · simp only [h.irrefl, Bool.false_eq_true, if_false]; exact h2

theorem lexLt_trans {α : Type} {lt : α → α → Bool} (h : StrictTotal lt) :
    ∀ (x y z : List α), lexLt lt x y = true → lexLt lt y z = true → lexLt lt x z = true
  | [], [], _, h1, _ => by simp [lexLt] at h1
  | [], _ :: _, [], _, h2 => by simp [lexLt] at h2
  | [], _ :: _, _ :: _, _, _ => rfl
  | _ :: _, [], _, h1, _ => by simp [lexLt] at h1
  | _ :: _, _ :: _, [], _, h2 => by simp [lexLt] at h2
  | a :: as, b :: bs, c :: cs, h1, h2 => by
    rw [lexLt_cons_iff h] at h1 h2 ⊢
    rcases h1 with h1 | ⟨rfl, h1⟩
    · rcases h2 with h2 | ⟨rfl, _⟩
      · exact Or.inl (h.trans a b c h1 h2)
      · exact Or.inl h1
    · rcases h2 with h2 | ⟨rfl, h2⟩
      · exact Or.inl h2
      · exact Or.inr ⟨rfl, lexLt_trans h as bs cs h1 h2⟩

theorem lexLt_total {α : Type} {lt : α → α → Bool} (h : StrictTotal lt) :
    ∀ (x y : List α), lexLt lt x y = false → lexLt lt y x = false → x = y
  | [], [], _, _ => rfl
  | [], _ :: _, h1, _ => by simp [lexLt] at h1
  | _ :: _, [], _, h2 => by simp [lexLt] at h2
  | a :: as, b :: bs, h1, h2 => by
    simp only [lexLt] at h1 h2
    by_cases hab : lt a b = true
    · rw [if_pos hab] at h1; cases h1
    · by_cases hba : lt b a = true
      · rw [if_pos hba] at h2; cases h2
      · rw [if_neg hab, if_neg hba] at h1
        rw [if_neg hba, if_neg hab] at h2
        have := h.total a b (by simpa using hab) (by simpa using hba)
        subst this
        rw [lexLt_total h as bs h1 h2]

theorem lexLt_strictTotal {α : Type} {lt : α → α → Bool} (h : StrictTotal lt) : StrictTotal (lexLt lt) :=
  ⟨lexLt_irrefl h, lexLt_trans h, lexLt_total h⟩

-- the two instances -------------------------------------------------------------------------------------------------------

def byteLt (a b : UInt8) : Bool := decide (a.toNat < b.toNat)

theorem byteLt_strictTotal : StrictTotal byteLt :=
  ⟨fun a => by simp [byteLt],
   fun a b c h1 h2 => by simp only [byteLt, decide_eq_true_eq] at *; omega,
   fun a b h1 h2 => by
     simp only [byteLt, decide_eq_false_iff_not] at h1 h2
     exact UInt8.toNat_inj.mp (by omega)⟩

theorem bytesLt_eq : ∀ (a b : Bytes), bytesLt a b = lexLt byteLt a b
  | [], [] => rfl
  | [], _ :: _ => rfl
  | _ :: _, [] => rfl
  | a :: as, b :: bs => by
    simp only [bytesLt, lexLt, byteLt, decide_eq_true_eq]
    rw [bytesLt_eq as bs]

theorem bytesLt_strictTotal : StrictTotal bytesLt := by
  have h := lexLt_strictTotal byteLt_strictTotal
  have he : bytesLt = lexLt byteLt := by funext a b; exact bytesLt_eq a b
  rw [he]; exact h

theorem pathLt_eq : ∀ (a b : Path), pathLt a b = lexLt bytesLt a b
  | [], [] => rfl
  | [], _ :: _ => rfl
  | _ :: _, [] => rfl
  | a :: as, b :: bs => by
    simp only [pathLt, lexLt]
    rw [pathLt_eq as bs]

/-- `PathBuf`'s `Ord` (component-wise, components bytewise) is a strict total order -/
theorem pathLt_strictTotal : StrictTotal pathLt := by
  have h := lexLt_strictTotal bytesLt_strictTotal
  have he : pathLt = lexLt bytesLt := by funext a b; exact pathLt_eq a b
  rw [he]; exact h

-- BTreeMap keys --------------------------------------------------------------------------------------------------------------

def Asc (l : List Path) : Prop := l.Pairwise (fun a b => pathLt a b = true)

theorem mem_insertPath {p x : Path} : ∀ {l : List Path}, x ∈ insertPath p l → x = p ∨ x ∈ l
  | [], h => by simp [insertPath] at h; exact Or.inl h
  | q :: qs, h => by
    simp only [insertPath] at h
    split at h
    · exact Or.inr h
    · split at h
      · rcases List.mem_cons.mp h with h | h
        · exact Or.inl h
        · exact Or.inr h
      · rcases List.mem_cons.mp h with h | h
        · exact Or.inr (List.mem_cons.mpr (Or.inl h))
        · rcases mem_insertPath h with h | h
          · exact Or.inl h
          · exact Or.inr (List.mem_cons_of_mem _ h)

theorem insertPath_asc (p : Path) : ∀ {l : List Path}, Asc l → Asc (insertPath p l)
  | [], _ => by simp [insertPath, Asc]
  | q :: qs, h => by
    have hq := List.pairwise_cons.mp h
    simp only [insertPath]
    split
    · exact h
    · rename_i hne
      split
      · rename_i hlt
        refine List.pairwise_cons.mpr ⟨?_, h⟩
        intro x hx
        rcases List.mem_cons.mp hx with rfl | hx
        · exact hlt
        · exact pathLt_strictTotal.trans _ _ _ hlt (hq.1 x hx)
      · rename_i hnlt
        refine List.pairwise_cons.mpr ⟨?_, insertPath_asc p hq.2⟩
        intro x hx
        rcases mem_insertPath hx with rfl | hx
        · -- q < p by totality
          cases hqp : pathLt q x with
          | true => rfl
          | false =>
            have := pathLt_strictTotal.total x q (by simpa using hnlt) hqp
            exact absurd (by rw [this]; exact beq_self_eq_true _) hne
        · exact hq.1 x hx

theorem foldl_insertPath_asc (hs : List Hunk) : ∀ (acc : List Path), Asc acc →
    Asc (hs.foldl (fun acc h => insertPath h.file acc) acc) := by
  induction hs with
  | nil => intro acc h; exact h
  | cons x xs ih => intro acc h; exact ih _ (insertPath_asc x.file h)

/-- the files of a plan, as STEP 2 iterates over them, are strictly ascending … -/
theorem sortedFiles_asc (hs : List Hunk) : Asc (sortedFiles hs) :=
  foldl_insertPath_asc hs [] List.Pairwise.nil

/-- … hence pairwise distinct: every edited file is visited exactly once, for EVERY list of hunks -/
theorem sortedFiles_nodup (hs : List Hunk) : (sortedFiles hs).Pairwise (fun a b => a ≠ b) :=
  (sortedFiles_asc hs).imp (fun {a b} h hab => by
    rw [hab, pathLt_strictTotal.irrefl] at h; cases h)

-- every file named by a hunk is a key ----------------------------------------------------------------------------------------

theorem self_mem_insertPath (p : Path) : ∀ (l : List Path), p ∈ insertPath p l
  | [] => by simp [insertPath]
  | q :: qs => by
    simp only [insertPath]
    split
    · rename_i h; rw [beq_iff_eq.mp h]; exact List.mem_cons_self
    · split
      · exact List.mem_cons_self
      · exact List.mem_cons_of_mem _ (self_mem_insertPath p qs)

theorem mem_insertPath_of_mem {p x : Path} : ∀ {l : List Path}, x ∈ l → x ∈ insertPath p l
  | [], h => by cases h
  | q :: qs, h => by
    simp only [insertPath]
    split
    · exact h
    · split
      · exact List.mem_cons_of_mem _ h
      · rcases List.mem_cons.mp h with rfl | h
        · exact List.mem_cons_self
        · exact List.mem_cons_of_mem _ (mem_insertPath_of_mem h)

theorem foldl_insertPath_keeps (hs : List Hunk) : ∀ (acc : List Path) (x : Path), x ∈ acc →
    x ∈ hs.foldl (fun acc h => insertPath h.file acc) acc := by
  induction hs with
  | nil => intro acc x h; exact h
  | cons h0 hs ih => intro acc x h; exact ih _ x (mem_insertPath_of_mem h)

theorem foldl_insertPath_has (hs : List Hunk) : ∀ (acc : List Path) (h : Hunk), h ∈ hs →
    h.file ∈ hs.foldl (fun acc h => insertPath h.file acc) acc := by
  induction hs with
  | nil => intro acc h hm; cases hm
  | cons h0 hs ih =>
    intro acc h hm
    simp only [List.foldl_cons]
    rcases List.mem_cons.mp hm with rfl | hm
    · exact foldl_insertPath_keeps hs _ _ (self_mem_insertPath _ _)
    · exact ih _ h hm

/-- the file of every hunk is one of the files STEP 2 visits -/
theorem file_mem_sortedFiles {hs : List Hunk} {h : Hunk} (hm : h ∈ hs) : h.file ∈ sortedFiles hs :=
  foldl_insertPath_has hs [] h hm

end PathOrder
