import RModel.Model.Matcher
/- helper lemmas for C03: ordering of alternatives, the leftmost-first scan, lossy decoding of valid text -/
namespace Matcher

theorem escapeLen_append (a b : Bytes) : escapeLen (a ++ b) = escapeLen a + escapeLen b := by
  induction a with
  | nil => simp [escapeLen]
  | cons c cs ih => simp only [List.cons_append, escapeLen, ih]; omega

theorem escapeLen_pos {a : Bytes} (h : a ≠ []) : 0 < escapeLen a := by
  cases a with
  | nil => exact absurd rfl h
  | cons c cs => simp only [escapeLen]; split <;> omega

/-- a proper prefix has a strictly smaller escaped length -/
theorem escapeLen_lt_of_prefix {a b : Bytes} (hp : a <+: b) (hne : a.length < b.length) :
    escapeLen a < escapeLen b := by
  obtain ⟨t, rfl⟩ := hp
  rw [escapeLen_append]
  have : t ≠ [] := by
    intro h; subst h; simp at hne
  have := escapeLen_pos this
  omega

theorem mem_insertAlt {x a : Bytes} {l : List Bytes} : a ∈ insertAlt x l ↔ a = x ∨ a ∈ l := by
  induction l with
  | nil => simp [insertAlt]
  | cons y ys ih =>
    simp only [insertAlt]
    split
    · simp
    · simp only [List.mem_cons, ih]
      constructor
      · rintro (h | h | h) <;> simp [h]
      · rintro (h | h | h) <;> simp [h]

theorem mem_orderAlts {a : Bytes} {vs : List Bytes} : a ∈ orderAlts vs ↔ a ∈ vs := by
  induction vs with
  | nil => simp [orderAlts]
  | cons x xs ih => simp only [orderAlts, mem_insertAlt, ih, List.mem_cons]

theorem pairwise_insertAlt {x : Bytes} {l : List Bytes}
    (h : l.Pairwise (fun a b => escapeLen b ≤ escapeLen a)) :
    (insertAlt x l).Pairwise (fun a b => escapeLen b ≤ escapeLen a) := by
  induction l with
  | nil => simp [insertAlt]
  | cons y ys ih =>
    simp only [insertAlt]
    have hy := (List.pairwise_cons.mp h)
    split
    · rename_i hle
      refine List.pairwise_cons.mpr ⟨?_, h⟩
      intro b hb
      rcases List.mem_cons.mp hb with rfl | hb
      · exact hle
      · exact Nat.le_trans (hy.1 b hb) hle
    · rename_i hgt
      refine List.pairwise_cons.mpr ⟨?_, ih hy.2⟩
      intro b hb
      rcases mem_insertAlt.mp hb with rfl | hb
      · omega
      · exact hy.1 b hb

/-- the alternation is in descending escaped length -/
theorem pairwise_orderAlts (vs : List Bytes) :
    (orderAlts vs).Pairwise (fun a b => escapeLen b ≤ escapeLen a) := by
  induction vs with
  | nil => simp [orderAlts]
  | cons x xs ih => exact pairwise_insertAlt ih

theorem firstAlt_some {alts : List Bytes} {s a : Bytes} (h : firstAlt alts s = some a) :
    a ∈ alts ∧ a ≠ [] ∧ a <+: s := by
  unfold firstAlt at h
  have hm := List.mem_of_find?_eq_some h
  have hp := List.find?_some h
  simp only [Bool.and_eq_true, Bool.not_eq_eq_eq_not, Bool.not_true, List.isEmpty_eq_false_iff,
    List.isPrefixOf_iff_prefix] at hp
  exact ⟨hm, by simpa using hp.1, hp.2⟩

/-- Leftmost-first over the escaped-length order IS leftmost-longest: alternatives that match at one
    position are prefixes of the input there, hence of each other, and a proper prefix has a strictly
    smaller escaped length (every byte escapes to at least one byte). -/
theorem firstAlt_longest {vs : List Bytes} {s a : Bytes} (h : firstAlt (orderAlts vs) s = some a)
    {v : Bytes} (hv : v ∈ vs) (hne : v ≠ []) (hp : v <+: s) : v.length ≤ a.length := by
  obtain ⟨_, _, hap⟩ := firstAlt_some h
  unfold firstAlt at h
  obtain ⟨_, l1, l2, hsplit, hnot⟩ := List.find?_eq_some_iff_append.mp h
  have hvm : v ∈ orderAlts vs := mem_orderAlts.mpr hv
  rw [hsplit] at hvm
  have hpred : (!v.isEmpty && v.isPrefixOf s) = true := by
    simp [hne, List.isPrefixOf_iff_prefix, hp]
  rcases List.mem_append.mp hvm with h1 | h2
  · have := hnot v h1
    simp [hpred] at this
  · rcases List.mem_cons.mp h2 with rfl | h3
    · exact Nat.le_refl _
    · -- v comes later: its escaped length is not larger
      have hpw := pairwise_orderAlts vs
      rw [hsplit] at hpw
      have hpw2 := (List.pairwise_append.mp hpw).2.1
      have hle : escapeLen v ≤ escapeLen a := (List.pairwise_cons.mp hpw2).1 v h3
      by_cases hlen : v.length ≤ a.length
      · exact hlen
      · have hav : a <+: v := List.prefix_of_prefix_length_le hap hp (by omega)
        have := escapeLen_lt_of_prefix hav (by omega)
        omega

-- the scan -------------------------------------------------------------------------------------

/-- what every raw match satisfies, relative to the unread input `rest` that starts at `pos` -/
def Good (alts : List Bytes) (rest : Bytes) (pos : Nat) (se : Nat × Nat) : Prop :=
  pos ≤ se.1 ∧ ∃ a, a ∈ alts ∧ a ≠ [] ∧ se.2 = se.1 + a.length ∧ a <+: rest.drop (se.1 - pos)

theorem scan_good (alts : List Bytes) (rest : Bytes) (pos skip : Nat) :
    ∀ se ∈ scan alts rest pos skip, pos + skip ≤ se.1 ∧ Good alts rest pos se := by
  induction rest generalizing pos skip with
  | nil => intro se h; simp [scan] at h
  | cons c cs ih =>
    intro se h
    have lift : ∀ k, (pos + 1 + k ≤ se.1 ∧ Good alts cs (pos + 1) se) →
        (pos + (k + 1) ≤ se.1 ∧ Good alts (c :: cs) pos se) := by
      intro k ⟨hb, hge, a, ha, hne, he, hpre⟩
      refine ⟨by omega, by omega, a, ha, hne, he, ?_⟩
      have : se.1 - pos = (se.1 - (pos + 1)) + 1 := by omega
      rw [this, List.drop_succ_cons]
      exact hpre
    cases skip with
    | succ k =>
      simp only [scan] at h
      exact lift k (ih (pos + 1) k se h)
    | zero =>
      simp only [scan] at h
      split at h
      · rename_i a hfa
        obtain ⟨ham, hane, hap⟩ := firstAlt_some hfa
        rcases List.mem_cons.mp h with rfl | h
        · refine ⟨by simp, by simp, a, ham, hane, rfl, ?_⟩
          simpa using hap
        · have := lift (a.length - 1) (ih (pos + 1) (a.length - 1) se h)
          exact ⟨by omega, this.2⟩
      · have := lift 0 (ih (pos + 1) 0 se h)
        exact ⟨by omega, this.2⟩

theorem scan_pairwise (alts : List Bytes) (rest : Bytes) (pos skip : Nat) :
    (scan alts rest pos skip).Pairwise (fun x y => x.2 ≤ y.1) := by
  induction rest generalizing pos skip with
  | nil => simp [scan]
  | cons c cs ih =>
    cases skip with
    | succ k => simp only [scan]; exact ih (pos + 1) k
    | zero =>
      simp only [scan]
      split
      · rename_i a hfa
        obtain ⟨_, hane, _⟩ := firstAlt_some hfa
        have hlen : 0 < a.length := List.length_pos_iff.mpr hane
        refine List.pairwise_cons.mpr ⟨?_, ih (pos + 1) (a.length - 1)⟩
        intro se hse
        have := (scan_good alts cs (pos + 1) (a.length - 1) se hse).1
        simp only
        omega
      · exact ih (pos + 1) 0

-- lossy decoding of valid text is the identity ---------------------------------------------------

theorem lossyAux_of_validAux (fuel : Nat) (s : Bytes) (h : Utf8.validAux fuel s = true) :
    Utf8.lossyAux fuel s = s := by
  induction fuel generalizing s with
  | zero =>
    simp only [Utf8.validAux, List.isEmpty_iff] at h
    subst h
    simp [Utf8.lossyAux]
  | succ n ih =>
    cases s with
    | nil => simp [Utf8.lossyAux]
    | cons b bs =>
      simp only [Utf8.validAux] at h
      simp only [Utf8.lossyAux]
      split at h
      · rename_i k hk
        rw [ih _ h, List.take_append_drop]
      · exact absurd h (by simp)

theorem lossy_of_valid {s : Bytes} (h : Utf8.valid s = true) : Utf8.lossy s = s :=
  lossyAux_of_validAux _ _ h

end Matcher

namespace Matcher

theorem slice_of_prefix_drop {a c : Bytes} {s : Nat} (h : a <+: c.drop s) :
    (c.take (s + a.length)).drop s = a := by
  obtain ⟨t, ht⟩ := h
  rw [List.drop_take, ← ht]
  simp

theorem prefix_drop_bound {a c : Bytes} {s : Nat} (h : a <+: c.drop s) (hne : a ≠ []) :
    s + a.length ≤ c.length := by
  have h1 := h.length_le
  have h2 : 0 < a.length := List.length_pos_iff.mpr hne
  simp only [List.length_drop] at h1
  omega

/-- raw matches of the whole content: in range, non-empty, the bytes of a variant -/
theorem scan_spec (vs : List Bytes) (c : Bytes) :
    ∀ se ∈ scan (orderAlts vs) c 0 0,
      se.1 < se.2 ∧ se.2 ≤ c.length ∧ (c.take se.2).drop se.1 ∈ vs := by
  intro se hse
  obtain ⟨_, _, a, ha, hne, he, hp⟩ := scan_good _ _ _ _ se hse
  simp only [Nat.sub_zero] at hp
  have hlen : 0 < a.length := List.length_pos_iff.mpr hne
  refine ⟨by omega, ?_, ?_⟩
  · rw [he]; exact prefix_drop_bound hp hne
  · rw [he, slice_of_prefix_drop hp]; exact mem_orderAlts.mp ha

-- identify_variant ------------------------------------------------------------------------------

theorem longestPrefix_fold (vs : List Bytes) (s : Bytes) (best : Option Bytes)
    (hb : ∀ b, best = some b → b <+: s) :
    ∀ r, vs.foldl (fun best v =>
        if v.isPrefixOf s then
          match best with
          | none => some v
          | some b => if b.length < v.length then some v else some b
        else best) best = r →
      (∀ b, r = some b → b <+: s) ∧
      (∀ v, v ∈ vs → v <+: s → ∃ b, r = some b ∧ v.length ≤ b.length) ∧
      (∀ b0, best = some b0 → ∃ b, r = some b ∧ b0.length ≤ b.length) := by
  induction vs generalizing best with
  | nil =>
    intro r hr
    simp only [List.foldl_nil] at hr
    subst hr
    exact ⟨hb, by simp, fun b0 h => ⟨b0, h, Nat.le_refl _⟩⟩
  | cons x xs ih =>
    intro r hr
    simp only [List.foldl_cons] at hr
    by_cases hx : x.isPrefixOf s = true
    · have hxp : x <+: s := List.isPrefixOf_iff_prefix.mp hx
      simp only [hx, if_true] at hr
      cases hbest : best with
      | none =>
        rw [hbest] at hr
        obtain ⟨h1, h2, h3⟩ := ih (some x) (by intro b hb'; cases hb'; exact hxp) r hr
        refine ⟨h1, ?_, by simp⟩
        intro v hv hvp
        rcases List.mem_cons.mp hv with rfl | hv
        · exact h3 v rfl
        · exact h2 v hv hvp
      | some b0 =>
        rw [hbest] at hr
        simp only at hr
        by_cases hlt : b0.length < x.length
        · simp only [hlt, if_true] at hr
          obtain ⟨h1, h2, h3⟩ := ih (some x) (by intro b hb'; cases hb'; exact hxp) r hr
          refine ⟨h1, ?_, ?_⟩
          · intro v hv hvp
            rcases List.mem_cons.mp hv with rfl | hv
            · exact h3 v rfl
            · exact h2 v hv hvp
          · intro b1 hb1
            cases hb1
            obtain ⟨b, hb, hle⟩ := h3 x rfl
            exact ⟨b, hb, by omega⟩
        · simp only [hlt, if_false] at hr
          obtain ⟨h1, h2, h3⟩ := ih (some b0) (by intro b hb'; cases hb'; exact hb b0 hbest) r hr
          refine ⟨h1, ?_, ?_⟩
          · intro v hv hvp
            rcases List.mem_cons.mp hv with rfl | hv
            · obtain ⟨b, hb, hle⟩ := h3 b0 rfl
              exact ⟨b, hb, by omega⟩
            · exact h2 v hv hvp
          · intro b1 hb1
            cases hb1
            exact h3 b0 rfl
    · have hx' : x.isPrefixOf s = false := by
        cases hh : x.isPrefixOf s with
        | true => exact absurd hh hx
        | false => rfl
      simp only [hx', Bool.false_eq_true, if_false] at hr
      obtain ⟨h1, h2, h3⟩ := ih best hb r hr
      refine ⟨h1, ?_, h3⟩
      intro v hv hvp
      rcases List.mem_cons.mp hv with rfl | hv
      · have := List.isPrefixOf_iff_prefix.mpr hvp
        simp [this] at hx'
      · exact h2 v hv hvp

/-- the text of a match (a non-empty variant) identifies itself -/
theorem identifyVariant_self {vs : List Bytes} {a : Bytes} (ha : a ∈ vs) (hne : a ≠ []) :
    identifyVariant vs a = some a := by
  cases a with
  | nil => exact absurd rfl hne
  | cons c cs =>
    obtain ⟨h1, h2, _⟩ := longestPrefix_fold vs (c :: cs) none (by simp) _ rfl
    obtain ⟨b, hb, hle⟩ := h2 (c :: cs) ha (List.prefix_refl _)
    have hbp := h1 b hb
    have : b = c :: cs := by
      obtain ⟨t, ht⟩ := hbp
      have hl := congrArg List.length ht
      simp only [List.length_append] at hl
      have : t = [] := List.length_eq_zero_iff.mp (by omega)
      subst this
      simpa using ht
    subst this
    have hlp : longestPrefix vs (c :: cs) = some (c :: cs) := hb
    simp only [identifyVariant, hlp]

end Matcher
