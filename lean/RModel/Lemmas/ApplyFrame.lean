import RModel.Model.Apply
/-
  Frame lemmas for `Apply.applyPlan` (used by Props/C09.lean): a path that is neither a planned file nor at/below a
  planned rename source or destination keeps its node through the content phase, the rename phase (including
  re-basing and rollback) and the backup step.
-/
namespace ApplyFrame
open Fs Apply

theorem pre_append_left {a s q : Path} (h : pre (a ++ s) q = true) : pre a q = true := by
  unfold pre at *
  rw [List.isPrefixOf_iff_prefix] at *
  exact List.IsPrefix.trans (List.prefix_append a s) h

theorem pre_refl (a : Path) : pre a a = true := by
  unfold pre; rw [List.isPrefixOf_iff_prefix]; exact List.prefix_refl a

/-- mapping keys with a function that neither creates nor destroys the key `q` keeps the lookup at `q` -/
theorem lookup_map_keys (t : Tree) (g : Path → Path) (q : Path) (hg : ∀ k, (g k == q) = (k == q)) :
    lookup (t.map (fun e => (g e.1, e.2))) q = lookup t q := by
  unfold lookup
  induction t with
  | nil => rfl
  | cons e t ih =>
    simp only [List.map_cons, List.find?_cons, hg]
    cases (e.1 == q) with
    | true => rfl
    | false => exact ih

theorem find_filter {α} (t : List α) (P Q : α → Bool) (hPQ : ∀ e, Q e = true → P e = true) :
    (t.filter P).find? Q = t.find? Q := by
  induction t with
  | nil => rfl
  | cons e t ih =>
    by_cases hP : P e = true
    · simp [hP, List.find?_cons, ih]
    · have hQ : Q e = false := by
        cases hq : Q e with
        | false => rfl
        | true => exact absurd (hPQ e hq) hP
      simp [hP, hQ, ih]

theorem lookup_removeKey (t : Tree) (b q : Path) (h : q ≠ b) : lookup (removeKey t b) q = lookup t q := by
  unfold lookup removeKey
  rw [find_filter]
  intro e he
  have : e.1 = q := by simpa using he
  simp [this, h]

theorem subst_key (a b q k : Path) (ha : pre a q = false) (hb : pre b q = false) :
    (subst a b k == q) = (k == q) := by
  unfold subst
  by_cases hk : pre a k = true
  · rw [if_pos hk]
    have h1 : (b ++ k.drop a.length == q) = false := by
      apply beq_false_of_ne; intro hh
      have : pre b q = true := by rw [← hh]; exact pre_append_left (pre_refl _)
      rw [hb] at this; cases this
    have h2 : (k == q) = false := by
      apply beq_false_of_ne; intro hh
      rw [hh, ha] at hk; cases hk
    rw [h1, h2]
  · rw [if_neg hk]

/-- rename(2) changes nothing outside the subtrees of its two arguments -/
theorem rename_frame (t t' : Tree) (a b q : Path) (h : rename t a b = .ok t')
    (ha : pre a q = false) (hb : pre b q = false) : lookup t' q = lookup t q := by
  have hqb : q ≠ b := by intro hh; rw [hh, pre_refl] at hb; cases hb
  unfold rename at h
  split at h
  · cases h
  · split at h
    · cases h
    · split at h
      · cases h; rfl
      · split at h
        · cases h
        · split at h
          · cases h
            exact lookup_map_keys t (subst a b) q (fun k => subst_key a b q k ha hb)
          · split at h
            · split at h
              · cases h
              · cases h
                rw [lookup_map_keys _ (subst a b) q (fun k => subst_key a b q k ha hb)]
                exact lookup_removeKey t b q hqb
            · cases h
            · cases h
            · cases h
              rw [lookup_map_keys _ (subst a b) q (fun k => subst_key a b q k ha hb)]
              exact lookup_removeKey t b q hqb

theorem renameTS_frame (t t' : Tree) (a b q : Path) (sa sb : Bool) (h : renameTS t a sa b sb = .ok t')
    (ha : pre a q = false) (hb : pre b q = false) : lookup t' q = lookup t q := by
  unfold renameTS at h
  split at h
  · cases h
  · exact rename_frame t t' a b q h ha hb

/-- both ends of a recorded rename are away from `q` -/
def clean (q : Path) (pr : Path × Path) : Prop := pre pr.1 q = false ∧ pre pr.2 q = false

theorem rollback_frame (q : Path) : ∀ (l : List (Path × Path)) (t : Tree) (err : Option Errno),
    (∀ pr ∈ l, clean q pr) → lookup (rollback t l err).1 q = lookup t q := by
  intro l
  induction l with
  | nil => intro t err _; rfl
  | cons pr rest ih =>
    intro t err hc
    obtain ⟨f, to⟩ := pr
    have hpr := hc (f, to) (List.mem_cons_self ..)
    have hrest : ∀ pr ∈ rest, clean q pr := fun pr hm => hc pr (List.mem_cons_of_mem _ hm)
    unfold rollback
    cases hr : rename t to f with
    | ok t' =>
      simp only
      rw [ih t' err hrest]
      exact rename_frame t t' to f q hr hpr.2 hpr.1
    | error e => simp only; exact ih t _ hrest

theorem foldl_rebase_cases (p : Path) : ∀ (perf : List (Path × Path)) (cur : Path),
    perf.foldl (fun cur pr => if pre pr.1 p then pr.2 ++ p.drop pr.1.length else cur) cur = cur ∨
    ∃ pr ∈ perf, perf.foldl (fun cur pr => if pre pr.1 p then pr.2 ++ p.drop pr.1.length else cur) cur
      = pr.2 ++ p.drop pr.1.length := by
  intro perf
  induction perf with
  | nil => intro cur; exact Or.inl rfl
  | cons pr rest ih =>
    intro cur
    simp only [List.foldl_cons]
    by_cases hp : pre pr.1 p = true
    · rw [if_pos hp]
      rcases ih (pr.2 ++ p.drop pr.1.length) with h | ⟨pr', hm, h⟩
      · exact Or.inr ⟨pr, List.mem_cons_self .., h⟩
      · exact Or.inr ⟨pr', List.mem_cons_of_mem _ hm, h⟩
    · rw [if_neg hp]
      rcases ih cur with h | ⟨pr', hm, h⟩
      · exact Or.inl h
      · exact Or.inr ⟨pr', List.mem_cons_of_mem _ hm, h⟩

/-- re-basing a path that is away from `q` on clean renames stays away from `q` -/
theorem rebase_clean (q p : Path) (perf : List (Path × Path)) (hc : ∀ pr ∈ perf, clean q pr)
    (hp : pre p q = false) : pre (rebase perf p) q = false := by
  unfold rebase
  rcases foldl_rebase_cases p perf p with h | ⟨pr, hm, h⟩
  · rw [h]; exact hp
  · rw [h]
    cases hh : pre (pr.2 ++ p.drop pr.1.length) q with
    | false => rfl
    | true =>
      have := pre_append_left hh
      rw [(hc pr hm).2] at this; cases this

theorem executedFrom_clean (q : Path) : ∀ (perf acc : List (Path × Path)),
    (∀ pr ∈ acc, clean q pr) → (∀ pr ∈ perf, clean q pr) → ∀ pr ∈ executedFrom acc perf, clean q pr := by
  intro perf
  induction perf with
  | nil => intro acc _ _ pr hm; cases hm
  | cons x rest ih =>
    intro acc hacc hperf pr hm
    have hx := hperf x (List.mem_cons_self ..)
    unfold executedFrom at hm
    rcases List.mem_cons.mp hm with h | h
    · rw [h]; exact ⟨rebase_clean q x.1 acc hacc hx.1, hx.2⟩
    · refine ih (acc ++ [x]) ?_ (fun pr hm => hperf pr (List.mem_cons_of_mem _ hm)) pr h
      intro pr hm
      rcases List.mem_append.mp hm with hm | hm
      · exact hacc pr hm
      · rw [List.mem_singleton.mp hm]; exact hx

theorem rollbackList_clean (q : Path) (perf : List (Path × Path)) (hc : ∀ pr ∈ perf, clean q pr) :
    ∀ pr ∈ rollbackList perf, clean q pr := by
  unfold rollbackList
  split
  · exact executedFrom_clean q perf [] (by intro pr hm; cases hm) hc
  · exact hc

theorem renamePhase_frame (q : Path) : ∀ (rs : List Ren) (t : Tree) (perf : List (Path × Path)),
    (∀ pr ∈ perf, clean q pr) → (∀ r ∈ rs, pre r.path q = false ∧ pre r.newPath q = false) →
    lookup (renamePhase t perf rs).tree q = lookup t q := by
  intro rs
  induction rs with
  | nil => intro t perf _ _; rfl
  | cons r rs ih =>
    intro t perf hc hr
    have hr0 := hr r (List.mem_cons_self ..)
    have hrs : ∀ r ∈ rs, pre r.path q = false ∧ pre r.newPath q = false := fun r hm => hr r (List.mem_cons_of_mem _ hm)
    have haf := rebase_clean q r.path perf hc hr0.1
    have hat := rebase_clean q r.newPath perf hc hr0.2
    unfold renamePhase
    simp only
    cases hres : renameTS t (rebase perf r.path) (trailingSlash perf r.path) (rebase perf r.newPath)
        (trailingSlash perf r.newPath) with
    | ok t' =>
      simp only
      have hc' : ∀ pr ∈ perf ++ [(r.path, rebase perf r.newPath)], clean q pr := by
        intro pr hm
        rcases List.mem_append.mp hm with hm | hm
        · exact hc pr hm
        · rw [List.mem_singleton.mp hm]; exact ⟨hr0.1, hat⟩
      rw [ih t' _ hc' hrs]
      exact renameTS_frame t t' _ _ q _ _ hres haf hat
    | error e =>
      simp only
      have hrev : ∀ pr ∈ (rollbackList perf).reverse, clean q pr :=
        fun pr hm => rollbackList_clean q perf hc pr (List.mem_reverse.mp hm)
      have := rollback_frame q (rollbackList perf).reverse t none hrev
      cases hrb : rollback t (rollbackList perf).reverse none with
      | mk t' oe =>
        rw [hrb] at this
        cases oe <;> simpa using this

theorem renamePhase_performed_clean (q : Path) : ∀ (rs : List Ren) (t : Tree) (perf : List (Path × Path)),
    (∀ pr ∈ perf, clean q pr) → (∀ r ∈ rs, pre r.path q = false ∧ pre r.newPath q = false) →
    ∀ pr ∈ (renamePhase t perf rs).performed, clean q pr := by
  intro rs
  induction rs with
  | nil => intro t perf hc _; exact hc
  | cons r rs ih =>
    intro t perf hc hr
    have hr0 := hr r (List.mem_cons_self ..)
    have hrs : ∀ r ∈ rs, pre r.path q = false ∧ pre r.newPath q = false := fun r hm => hr r (List.mem_cons_of_mem _ hm)
    have hat := rebase_clean q r.newPath perf hc hr0.2
    unfold renamePhase
    simp only
    cases hres : renameTS t (rebase perf r.path) (trailingSlash perf r.path) (rebase perf r.newPath)
        (trailingSlash perf r.newPath) with
    | ok t' =>
      simp only
      have hc' : ∀ pr ∈ perf ++ [(r.path, rebase perf r.newPath)], clean q pr := by
        intro pr hm
        rcases List.mem_append.mp hm with hm | hm
        · exact hc pr hm
        · rw [List.mem_singleton.mp hm]; exact ⟨hr0.1, hat⟩
      exact ih t' _ hc' hrs
    | error e =>
      simp only
      cases hrb : rollback t (rollbackList perf).reverse none with
      | mk t' oe => cases oe <;> exact hc

-- content phase -----------------------------------------------------------------------------------------

theorem find_map_key (f : Path × Node → Path × Node) (hf : ∀ e, (f e).1 = e.1) (t : Tree) (q : Path) :
    (t.map f).find? (fun e => e.1 == q) = (t.find? (fun e => e.1 == q)).map f := by
  induction t with
  | nil => rfl
  | cons e t ih =>
    simp only [List.map_cons, List.find?_cons, hf]
    cases (e.1 == q) with
    | true => rfl
    | false => exact ih

theorem setContent_frame (t : Tree) (p q : Path) (c : Bytes) (h : q ≠ p) :
    lookup (setContent t p c) q = lookup t q := by
  unfold lookup setContent
  rw [find_map_key]
  · cases hf : List.find? (fun e => e.1 == q) t with
    | none => rfl
    | some e =>
      have hq : e.1 = q := by
        have := List.find?_some hf
        simpa using this
      have hp : ¬ (e.1 = p) := by rw [hq]; exact h
      simp [hp]
  · intro e
    by_cases hp : (e.1 == p) = true
    · rw [if_pos hp]; cases e.2 <;> rfl
    · rw [if_neg hp]

theorem contentPhase_frame (hs : List Hunk) (q : Path) : ∀ (fs : List Path) (t : Tree),
    (∀ f ∈ fs, f ≠ q) → lookup (contentPhase hs t fs).2 q = lookup t q := by
  intro fs
  induction fs with
  | nil => intro t _; rfl
  | cons f fs ih =>
    intro t hf
    have hq : q ≠ f := fun hh => hf f (List.mem_cons_self ..) hh.symm
    have hfs : ∀ f ∈ fs, f ≠ q := fun f hm => hf f (List.mem_cons_of_mem _ hm)
    unfold contentPhase
    split
    · split
      · rfl
      · split
        · rw [ih _ hfs]; exact setContent_frame t f q _ hq
        · rfl
        · rfl
    · rfl

-- membership through the two sorts ------------------------------------------------------------------------

theorem mem_insertPath {x p : Path} : ∀ {l : List Path}, x ∈ insertPath p l → x = p ∨ x ∈ l := by
  intro l
  induction l with
  | nil => intro h; simp [insertPath] at h; exact Or.inl h
  | cons y ys ih =>
    intro h
    unfold insertPath at h
    split at h
    · exact Or.inr h
    · split at h
      · rcases List.mem_cons.mp h with h | h
        · exact Or.inl h
        · exact Or.inr h
      · rcases List.mem_cons.mp h with h | h
        · exact Or.inr (h ▸ List.mem_cons_self ..)
        · rcases ih h with h | h
          · exact Or.inl h
          · exact Or.inr (List.mem_cons_of_mem _ h)

theorem mem_sortedFiles_aux (x : Path) : ∀ (hs : List Hunk) (acc : List Path),
    x ∈ hs.foldl (fun acc h => insertPath h.file acc) acc → x ∈ acc ∨ ∃ h ∈ hs, h.file = x := by
  intro hs
  induction hs with
  | nil => intro acc h; exact Or.inl h
  | cons h0 hs ih =>
    intro acc h
    simp only [List.foldl_cons] at h
    rcases ih _ h with h | ⟨h', hm, he⟩
    · rcases mem_insertPath h with h | h
      · exact Or.inr ⟨h0, List.mem_cons_self .., h.symm⟩
      · exact Or.inl h
    · exact Or.inr ⟨h', List.mem_cons_of_mem _ hm, he⟩

theorem mem_sortedFiles {x : Path} {hs : List Hunk} (h : x ∈ sortedFiles hs) : ∃ h ∈ hs, h.file = x := by
  rcases mem_sortedFiles_aux x hs [] h with h | h
  · cases h
  · exact h

theorem mem_insertBy {le : Ren → Ren → Bool} {x r : Ren} : ∀ {l : List Ren}, r ∈ insertBy le x l → r = x ∨ r ∈ l := by
  intro l
  induction l with
  | nil => intro h; simp [insertBy] at h; exact Or.inl h
  | cons y ys ih =>
    intro h
    unfold insertBy at h
    split at h
    · rcases List.mem_cons.mp h with h | h
      · exact Or.inl h
      · exact Or.inr h
    · rcases List.mem_cons.mp h with h | h
      · exact Or.inr (h ▸ List.mem_cons_self ..)
      · rcases ih h with h | h
        · exact Or.inl h
        · exact Or.inr (List.mem_cons_of_mem _ h)

theorem mem_sortBy {le : Ren → Ren → Bool} {r : Ren} : ∀ {l : List Ren}, r ∈ sortBy le l → r ∈ l := by
  intro l
  induction l with
  | nil => intro h; exact h
  | cons y ys ih =>
    intro h
    unfold sortBy at h
    rcases mem_insertBy h with h | h
    · exact h ▸ List.mem_cons_self ..
    · exact List.mem_cons_of_mem _ (ih h)

theorem mem_sortRens {r : Ren} {rs : List Ren} (h : r ∈ sortRens rs) : r ∈ rs := by
  unfold sortRens at h
  rcases List.mem_append.mp h with h | h
  · exact (List.mem_filter.mp (mem_sortBy h)).1
  · exact (List.mem_filter.mp (mem_sortBy h)).1

-- the whole command ---------------------------------------------------------------------------------------

/-- `q` is named by the plan: a file with hunks, or at/below the source or destination of a planned rename -/
def planned (p : Plan) (q : Path) : Bool :=
  p.hunks.any (fun h => h.file == q) || p.rens.any (fun r => pre r.path q || pre r.newPath q)

theorem applyPlan_frame (t : Tree) (p : Plan) (q : Path) (h : planned p q = false) :
    lookup (applyPlan t p).tree q = lookup t q := by
  unfold planned at h
  rw [Bool.or_eq_false_iff] at h
  obtain ⟨hh, hr⟩ := h
  have hfiles : ∀ f ∈ sortedFiles p.hunks, f ≠ q := by
    intro f hm hq
    obtain ⟨h', hm', he⟩ := mem_sortedFiles hm
    have := List.any_eq_false.mp hh h' hm'
    rw [he, hq] at this
    simp at this
  have hrens : ∀ r ∈ sortRens p.rens, pre r.path q = false ∧ pre r.newPath q = false := by
    intro r hm
    have := List.any_eq_false.mp hr r (mem_sortRens hm)
    rw [Bool.or_eq_true, not_or] at this
    exact ⟨by simpa using this.1, by simpa using this.2⟩
  have hc := contentPhase_frame p.hunks q (sortedFiles p.hunks) t hfiles
  cases hpf : preflight t [] p.rens with
  | some o => unfold applyPlan; rw [hpf]
  | none =>
    unfold applyPlan; rw [hpf]; simp only
    unfold applyCore
    cases hcp : contentPhase p.hunks t (sortedFiles p.hunks) with
    | mk o t1 =>
      rw [hcp] at hc
      have hrp := renamePhase_frame q (sortRens p.rens) t1 [] (by intro pr hm; cases hm) hrens
      cases o <;> simp only <;> try exact hc
      -- outcome ok: rename phase then backup step
      split
      · unfold backupPhase
        split
        · rw [hrp]; exact hc
        · have hpc := renamePhase_performed_clean q (sortRens p.rens) t1 [] (by intro pr hm; cases hm) hrens
          have hrev : ∀ pr ∈ (rollbackList (renamePhase t1 [] (sortRens p.rens)).performed).reverse, clean q pr :=
            fun pr hm => rollbackList_clean q _ hpc pr (List.mem_reverse.mp hm)
          have hrb := rollback_frame q _ (renamePhase t1 [] (sortRens p.rens)).tree none hrev
          split
          · split <;> (simp only; rename_i heq; rw [heq] at hrb; simp only at hrb; rw [hrb, hrp]; exact hc)
          · simp only; rw [hrp]; exact hc
      · rw [hrp]; exact hc

end ApplyFrame
