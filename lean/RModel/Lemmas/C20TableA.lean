import RModel.Lemmas.C20Base
/- C20: part A of the decision table, kernel-evaluated (`decide +kernel`, no `native_decide`). -/
namespace C20
open Wrap Cli

set_option maxRecDepth 1000000 in
theorem tableA : tableOn (Gen.Wrappers.builders.take cutA) = true := by decide +kernel

end C20
