import RModel.Base.Bytes
/-
  UTF-8 well-formedness exactly as `core::str::from_utf8` decides it (Unicode table 3-7),
  and lossy decoding as `String::from_utf8_lossy` performs it (one U+FFFD per maximal
  invalid subpart).
-/
namespace Utf8

@[inline] def inR (b : UInt8) (lo hi : Nat) : Bool := decide (lo ≤ b.toNat) && decide (b.toNat ≤ hi)

/-- Length of the well-formed sequence at the head of the input, or `none` together with the
    number of bytes that form the maximal invalid subpart (≥ 1). -/
def stepLen : Bytes → Except Nat Nat
  | [] => .ok 0
  | b0 :: rest =>
    if b0.toNat < 128 then .ok 1
    else if inR b0 0xC2 0xDF then
      match rest with
      | b1 :: _ => if inR b1 0x80 0xBF then .ok 2 else .error 1
      | [] => .error 1
    else if inR b0 0xE0 0xEF then
      let lo := if b0.toNat = 0xE0 then 0xA0 else 0x80
      let hi := if b0.toNat = 0xED then 0x9F else 0xBF
      match rest with
      | b1 :: rest' =>
        if inR b1 lo hi then
          match rest' with
          | b2 :: _ => if inR b2 0x80 0xBF then .ok 3 else .error 2
          | [] => .error 2
        else .error 1
      | [] => .error 1
    else if inR b0 0xF0 0xF4 then
      let lo := if b0.toNat = 0xF0 then 0x90 else 0x80
      let hi := if b0.toNat = 0xF4 then 0x8F else 0xBF
      match rest with
      | b1 :: rest' =>
        if inR b1 lo hi then
          match rest' with
          | b2 :: rest'' =>
            if inR b2 0x80 0xBF then
              match rest'' with
              | b3 :: _ => if inR b3 0x80 0xBF then .ok 4 else .error 3
              | [] => .error 3
            else .error 2
          | [] => .error 2
        else .error 1
      | [] => .error 1
    else .error 1

/-- fuel-driven scan; fuel = length suffices because every step consumes ≥ 1 byte -/
def validAux : Nat → Bytes → Bool
  | 0, s => s.isEmpty
  | fuel + 1, s =>
    match s with
    | [] => true
    | _ =>
      match stepLen s with
      | .ok n => validAux fuel (s.drop n)
      | .error _ => false

def valid (s : Bytes) : Bool := validAux s.length s

def fffd : Bytes := [0xEF, 0xBF, 0xBD]

def lossyAux : Nat → Bytes → Bytes
  | 0, _ => []
  | fuel + 1, s =>
    match s with
    | [] => []
    | _ =>
      match stepLen s with
      | .ok n => s.take n ++ lossyAux fuel (s.drop n)
      | .error n => fffd ++ lossyAux fuel (s.drop n)

/-- `String::from_utf8_lossy(s)` as bytes -/
def lossy (s : Bytes) : Bytes := lossyAux s.length s

/-- number of characters (`chars().count()`) of a valid string = number of non-continuation bytes -/
def charCount (s : Bytes) : Nat := (s.filter (fun b => !(inR b 0x80 0xBF))).length

end Utf8
