/-
  Base layer: byte strings and ASCII character classes.

  One text representation everywhere: `Bytes = List UInt8`, because every offset in the
  Rust code is a byte offset.  ASCII predicates are written over `c.toNat` so that
  `simp [isLower, ...]; omega` closes the character-class side goals.
  This file imports nothing, so the driver executable links.
-/

abbrev Bytes := List UInt8

instance {ε α} [DecidableEq ε] [DecidableEq α] : DecidableEq (Except ε α)
  | .ok a, .ok b => if h : a = b then isTrue (by rw [h]) else isFalse (by intro hh; cases hh; exact h rfl)
  | .error a, .error b => if h : a = b then isTrue (by rw [h]) else isFalse (by intro hh; cases hh; exact h rfl)
  | .ok _, .error _ => isFalse (by intro hh; cases hh)
  | .error _, .ok _ => isFalse (by intro hh; cases hh)

namespace B

@[inline] def isUpper (c : UInt8) : Bool := decide (65 ≤ c.toNat) && decide (c.toNat ≤ 90)
@[inline] def isLower (c : UInt8) : Bool := decide (97 ≤ c.toNat) && decide (c.toNat ≤ 122)
@[inline] def isDigit (c : UInt8) : Bool := decide (48 ≤ c.toNat) && decide (c.toNat ≤ 57)
@[inline] def isAlpha (c : UInt8) : Bool := isUpper c || isLower c
@[inline] def isAlnum (c : UInt8) : Bool := isAlpha c || isDigit c

/-- the four delimiters of `parse_to_tokens`: `_ - . space` -/
@[inline] def isDelim (c : UInt8) : Bool :=
  decide (c.toNat = 95) || decide (c.toNat = 45) || decide (c.toNat = 46) || decide (c.toNat = 32)

def toLower (c : UInt8) : UInt8 := if isUpper c then c + 32 else c
def toUpper (c : UInt8) : UInt8 := if isLower c then c - 32 else c

def lower (s : Bytes) : Bytes := s.map toLower
def upper (s : Bytes) : Bytes := s.map toUpper

/-- `Vec<String>::join(sep)` -/
def joinWith (sep : Bytes) : List Bytes → Bytes
  | [] => []
  | [w] => w
  | w :: ws => w ++ sep ++ joinWith sep ws

def concat (ws : List Bytes) : Bytes := ws.foldr (· ++ ·) []

def startsWith (s p : Bytes) : Bool := p.isPrefixOf s

/-- first index at which `p` occurs in `s` (naive search), as `str::find` -/
def find (s p : Bytes) : Option Nat :=
  go s 0
where
  go : Bytes → Nat → Option Nat
    | [], i => if p.isEmpty then some i else none
    | c :: cs, i => if p.isPrefixOf (c :: cs) then some i else go cs (i + 1)

def contains (s : Bytes) (c : UInt8) : Bool := s.any (· == c)

/-- split on a single byte, like `str::split(ch)`: always at least one piece -/
def splitOn (s : Bytes) (d : UInt8) : List Bytes :=
  go s []
where
  go : Bytes → Bytes → List Bytes
    | [], cur => [cur.reverse]
    | c :: cs, cur => if c == d then cur.reverse :: go cs [] else go cs (c :: cur)

-- hex coding for the driver line protocol --------------------------------------------------

def hexDigit (n : Nat) : Char :=
  if n < 10 then Char.ofNat (48 + n) else Char.ofNat (87 + n)

def toHex (s : Bytes) : String :=
  String.ofList (s.foldr (fun b acc => hexDigit (b.toNat / 16) :: hexDigit (b.toNat % 16) :: acc) [])

def hexVal (c : Char) : Option Nat :=
  let n := c.toNat
  if 48 ≤ n && n ≤ 57 then some (n - 48)
  else if 97 ≤ n && n ≤ 102 then some (n - 87)
  else if 65 ≤ n && n ≤ 70 then some (n - 55)
  else none

def ofHexChars : List Char → Option Bytes
  | [] => some []
  | [_] => none
  | a :: b :: rest =>
    match hexVal a, hexVal b, ofHexChars rest with
    | some x, some y, some r => some (UInt8.ofNat (x * 16 + y) :: r)
    | _, _, _ => none

/-- `-` stands for the empty string so that fields are never empty on a line -/
def ofHex (s : String) : Option Bytes :=
  if s == "-" then some [] else ofHexChars s.toList

def hexOrDash (s : Bytes) : String := if s.isEmpty then "-" else toHex s

def ofString (s : String) : Bytes := s.toUTF8.toList

end B
