import RModel.Base.Bytes
/- `b!"text"` elaborates to a literal byte list, because string literals do not reduce in the kernel. -/
open Lean in
macro:max "b!" s:str : term => do
  let bytes := s.getString.toUTF8.toList
  let elems ← bytes.mapM (fun b => `(($(Syntax.mkNumLit (toString b.toNat)) : UInt8)))
  `(([$(elems.toArray),*] : Bytes))

example : b!"foo" = [102, 111, 111] := by decide
