import RModel.Base.Lit
import RModel.Base.Utf8
import RModel.Model.Edits
import RModel.Model.Fs
import RModel.Model.Apply
import RModel.Gen.ExecFlags
/-
  L5 (operation level): the commands `rename -y`, `apply`, `redo`, `replace`, `undo` as programs that issue
  one mutating file-system call at a time.  Every call goes through `doOp`, which counts it, logs it and
  consults the injection spec (`fail k errno | crashBefore k | crashAfter k | crashMid k`).  On `fail` the
  Rust error path is followed (`?`, `rollback`, `let _ =`, the Drop of the lock, the BufWriter whose flush
  error is lost); on a crash execution stops with the world as it is.

  World = ONE `Fs.Tree`.  Paths below `.renamify` are part of it; `userTree` filters them out, so the user
  part is exactly the tree of `Fs`/`Apply`.  File contents below `.renamify` are abstract:
    history.json   '[' ++ one byte per entry ++ ']'   (parses iff it has that shape; an empty or half
                   written file does not parse, and `History::load` then silently starts empty)
    renamify.lock  "LL" when written, "L" when half written (`pid:timestamp` of a process that is gone by the
                   time anybody looks: any non-empty content splits into two parts and is removed as stale or
                   orphaned), [] when only created
    patches, plans, logs: opaque blobs; run-specific names are the placeholders of the trace abstraction
    (`<ID>`, `<HASH>.patch`, `a.PID.renamify.tmp`, `.tmpRAND`).
  A log line (`state.log`, five write(2) calls on an O_APPEND descriptor) is one op `logLine` without effect.

  Mirrors: apply.rs (apply_plan, apply_content_edits_with_content, perform_rename, rollback,
  generate_reverse_patches), history.rs (load_from_path, save), lock.rs (acquire, Drop), undo.rs
  (undo_renaming, apply_single_patch), operations/{rename,apply,undo}.rs, renamify-cli/src/replace.rs,
  rename.rs::detect_case_insensitive_fs, std::fs::create_dir_all.
  Four places exist in two variants, selected by the flags that translate/execflags.py reads from the source
  (RModel/Gen/ExecFlags.lean): in-place vs. temp+rename `History::save`, empty lock file fatal vs. stale, lock
  content write failure leaving vs. removing the file, in-place vs. temp+rename `apply_single_patch`, temp file
  kept vs. removed when a step of the atomic replace fails.  (`ExecFlags.offsetsChecked` records that the edit loop
  slices with `str::get`; the model uses `Edits.applyEdits = applyEditsG true`, and `C04.offsets_checked_flag` breaks
  if the source stops checking.)  The functions take the flag as a parameter
  (`…F`), so theorems can speak about either variant.
  Not modelled: case-only renames (second probe file), `--commit`, created_directories, fsync.
-/

namespace Exec
open Fs Apply

-- names -------------------------------------------------------------------------------------------
def dotR : Bytes := b!".renamify"
def pR : Path := [dotR]
def pLock : Path := [dotR, b!"renamify.lock"]
def pLockTmp : Path := [dotR, b!"renamify.lock.PID.tmp"]
def pHist : Path := [dotR, b!"history.json"]
def pPlanJson : Path := [dotR, b!"plan.json"]
def pApplyLog : Path := [dotR, b!"apply.log"]
def pLogFile (id : Bytes) : Path := [dotR, b!"logs", id ++ b!".log"]
def pPatchDir (id : Bytes) : Path := [dotR, b!"backups", id, b!"reverse_patches"]
def pPatch (id : Bytes) : Path := pPatchDir id ++ [b!"<HASH>.patch"]
def pPlans : Path := [dotR, b!"plans"]
def pStored (id : Bytes) : Path := [dotR, b!"plans", id ++ b!".json"]
def pProbe : Path := [b!".tmpRAND"]
def pProbeFile : Path := [b!".tmpRAND", b!"test_case_a"]
def idNew : Bytes := b!"<ID>"
def idOld : Bytes := b!"<OLD>"
def idRedo : Bytes := b!"redo-<ID>-<TS>"
def blob : Bytes := b!"BB"
def lockText : Bytes := b!"LL"

def isMeta (p : Path) : Bool := p.head? == some dotR
def userTree (t : Tree) : Tree := t.filter (fun e => !isMeta e.1)

/-- `Path::with_extension("<pid>.renamify.tmp")` on the last component -/
def stem (name : Bytes) : Bytes :=
  match (name.reverse.dropWhile (· != 46)) with
  | [] => name                       -- no dot
  | _ :: revStem => if revStem.isEmpty then name else revStem.reverse   -- ".hidden" keeps its name
/-- the temp sibling of a file: `<stem>.<pid>.renamify.tmp` (placeholder `PID`; `ExecFlags.tempNamePerPid`), or the
    fixed `<stem>.renamify.tmp` -/
def tmpName (name : Bytes) : Bytes :=
  stem name ++ (if ExecFlags.tempNamePerPid then b!".PID.renamify.tmp" else b!".renamify.tmp")
def tmpPath (f : Path) : Path :=
  match f.getLast? with
  | none => f
  | some n => f.dropLast ++ [tmpName n]
def rejPath (f : Path) : Path :=
  match f.getLast? with
  | none => f
  | some n => f.dropLast ++ [n ++ b!".rej"]

-- history file ---------------------------------------------------------------------------------------
def encodeHist (es : Bytes) : Bytes := [91] ++ es ++ [93]
def parseHist (c : Bytes) : Option Bytes :=
  match c with
  | 91 :: rest => if rest.getLast? == some 93 then some rest.dropLast else none
  | _ => none
/-- `History::load`: missing file or unparsable content ⇒ empty history (the latter with a warning only) -/
def loadHist (t : Tree) : Bytes :=
  match lookup t pHist with
  | some (.file c _) => (parseHist c).getD []
  | _ => []
def histParses (t : Tree) : Bool :=
  match lookup t pHist with
  | some (.file c _) => (parseHist c).isSome
  | none => true
  | _ => false

-- operations -----------------------------------------------------------------------------------------
inductive Op where
  | mkdir (p : Path)
  | openw (p : Path) (trunc excl : Bool)
  | write (p : Path) (c : Bytes)
  | chmod (p : Path) (m : Nat)
  | rename (a b : Path) (sa sb : Bool)
  | link (a b : Path)
  | unlink (p : Path)
  | rmdir (p : Path)
  | logLine
  deriving DecidableEq, Repr

def setMode (t : Tree) (p : Path) (m : Nat) : Tree :=
  t.map (fun e => if e.1 == p then
    (match e.2 with | .file c _ => (e.1, .file c m) | .dir _ => (e.1, .dir m) | n => (e.1, n)) else e)

/-- put node `n` at key `b` (keeping the position of `b` in the list) -/
def putNode (t : Tree) (b : Path) (n : Node) : Tree :=
  t.map (fun e => if e.1 == b then (e.1, n) else e)

/-- POSIX semantics of one mutating call.  A regular file renamed onto an existing regular file replaces it
    (the list position of the destination is kept — list order carries no meaning); every other rename is
    `Apply.renameTS`. -/
def execOp (t : Tree) : Op → Except Errno Tree
  | .mkdir p =>
    match parentOk t p with
    | .error e => .error e
    | .ok () => if exists_ t p then .error .EEXIST else .ok (t ++ [(p, .dir 0o755)])
  | .openw p trunc excl =>
    match parentOk t p with
    | .error e => .error e
    | .ok () =>
      match lookup t p with
      | none => if p.isEmpty then .error .EISDIR else .ok (t ++ [(p, .file [] 0o644)])
      | some (.file _ _) => if excl then .error .EEXIST else if trunc then .ok (setContent t p []) else .ok t
      | some (.dir _) => .error .EISDIR
      | some (.link _) => .error .EINVAL
  | .write p c =>
    match lookup t p with
    | some (.file c0 _) => .ok (setContent t p (c0 ++ c))
    | _ => .error .EINVAL
  | .chmod p m =>
    match lookup t p with
    | some (.link _) => .error .EINVAL
    | some _ => .ok (setMode t p m)
    | none => .error .ENOENT
  | .rename a b sa sb =>
    match lookup t a, lookup t b with
    | some (.file c m), some (.file _ _) =>
      if sa || sb then .error .ENOTDIR else if a == b then .ok t else .ok (putNode (removeKey t a) b (.file c m))
    | _, _ => renameTS t a sa b sb
  | .link a b =>
    -- link(2): a second name for the same regular file; fails if the new name exists
    match lookup t a with
    | some (.file c m) =>
      (match parentOk t b with
       | .error e => .error e
       | .ok () => if exists_ t b then .error .EEXIST else .ok (t ++ [(b, .file c m)]))
    | some _ => .error .EINVAL
    | none => .error .ENOENT
  | .unlink p =>
    match lookup t p with
    | none => .error .ENOENT
    | some (.dir _) => .error .EISDIR
    | some _ => .ok (removeKey t p)
  | .rmdir p =>
    match lookup t p with
    | none => .error .ENOENT
    | some (.dir _) => if hasChildren t p then .error .ENOTEMPTY else .ok (removeKey t p)
    | some _ => .error .ENOTDIR
  | .logLine => .ok t

/-- the state a kill in the middle of the call leaves: a write has put down the first half of its bytes,
    everything else has not happened -/
def partialOp (t : Tree) : Op → Tree
  | .write p c =>
    if c.length < 2 then t else
    match execOp t (.write p (c.take (c.length / 2))) with
    | .ok t' => t'
    | .error _ => t
  | _ => t

-- the program monad ------------------------------------------------------------------------------------
inductive Inj where
  | none
  | fail (k : Nat) (e : Errno)
  | crashBefore (k : Nat)
  | crashAfter (k : Nat)
  | crashMid (k : Nat)
  deriving DecidableEq, Repr

inductive Fail where
  | io (e : Errno)
  | mismatch | unreadable | destExists | rollbackErr | patchFailed | dupId
  | panic
  deriving DecidableEq, Repr

structure St where
  t : Tree
  n : Nat := 0
  trace : List (Op × Option Errno) := []      -- newest first
  inj : Inj := .none
  deriving Repr

inductive Res (α : Type) where
  | ok (a : α) (s : St)
  | err (f : Fail) (s : St)
  | crash (s : St)

def Res.st {α} : Res α → St
  | .ok _ s => s
  | .err _ s => s
  | .crash s => s

def M (α : Type) := St → Res α

def M.pure {α} (a : α) : M α := fun s => .ok a s
def M.bind {α β} (x : M α) (f : α → M β) : M β := fun s =>
  match x s with
  | .ok a s' => f a s'
  | .err e s' => .err e s'
  | .crash s' => .crash s'
instance : Monad M where
  pure := M.pure
  bind := M.bind

def throw {α} (f : Fail) : M α := fun s => .err f s
def getTree : M Tree := fun s => .ok s.t s

def rec (s : St) (op : Op) (r : Option Errno) : St := { s with n := s.n + 1, trace := (op, r) :: s.trace }

/-- the normal execution of one call -/
def stepOp (op : Op) (s : St) : Res Unit :=
  match execOp s.t op with
  | .ok t' => .ok () { rec s op none with t := t' }
  | .error e => .err (.io e) (rec s op (some e))

/-- EVERY mutating call of every program goes through here -/
def doOp (op : Op) : M Unit := fun s =>
  match s.inj with
  | .none => stepOp op s
  | .fail j e => if j = s.n then .err (.io e) (rec s op (some e)) else stepOp op s
  | .crashBefore j => if j = s.n then .crash s else stepOp op s
  | .crashAfter j =>
    if j = s.n then
      (match execOp s.t op with
       | .ok t' => .crash { rec s op none with t := t' }
       | .error e => .crash (rec s op (some e)))
    else stepOp op s
  | .crashMid j => if j = s.n then .crash { s with t := partialOp s.t op } else stepOp op s

/-- `match fs_call() { Err(e) => …}`: an I/O error becomes a value; a panic or a crash is not caught -/
def tryOp (op : Op) : M (Option Errno) := fun s =>
  match doOp op s with
  | .ok _ s' => .ok none s'
  | .err (.io e) s' => .ok (some e) s'
  | .err f s' => .err f s'
  | .crash s' => .crash s'

/-- `if let Err(e) = f() {…}`; a panic unwinds through it -/
def tryCatch (x : M Unit) : M (Option Fail) := fun s =>
  match x s with
  | .ok _ s' => .ok none s'
  | .err .panic s' => .err .panic s'
  | .err f s' => .ok (some f) s'
  | .crash s' => .crash s'

/-- `let _ = f();` -/
def ignoreErr (x : M Unit) : M Unit := do
  let _ ← tryCatch x
  pure ()

/-- scope exit: `fin` runs after success, error and panic (unwinding), not after a crash -/
def finallyM (body : M Unit) (fin : M Unit) : M Unit := fun s =>
  match body s with
  | .ok _ s' => fin s'
  | .err f s' =>
    (match fin s' with
     | .ok _ s'' => .err f s''
     | .err _ s'' => .err f s''
     | .crash s'' => .crash s'')
  | .crash s' => .crash s'

def repeatM : Nat → M Unit → M Unit
  | 0, _ => pure ()
  | n + 1, x => do x; repeatM n x

/-- `write_all` issues no system call for an empty buffer -/
def writeAll (p : Path) (c : Bytes) : M Unit := if c.isEmpty then pure () else doOp (.write p c)

/-- `std::fs::create_dir_all` (Rust 1.95): walk up the ancestors until one can be created or exists, … -/
def mkdirUp : Nat → Path → M (List Path)
  | 0, _ => pure []
  | fuel + 1, p =>
    if p.isEmpty then pure [] else do
    let r ← tryOp (.mkdir p)
    match r with
    | none => pure []
    | some .ENOENT => do
      let rest ← mkdirUp fuel p.dropLast
      pure (p :: rest)
    | some .EEXIST => do
      let t ← getTree
      if isDir t p then pure [] else throw (.io .EEXIST)
    | some e => throw (.io e)

/-- … then create the missing ones top down; only `AlreadyExists` on a directory is tolerated -/
def mkdirDown : List Path → M Unit
  | [] => pure ()
  | p :: ps => do
    let r ← tryOp (.mkdir p)
    match r with
    | none => mkdirDown ps
    | some .EEXIST => do
      let t ← getTree
      if isDir t p then mkdirDown ps else throw (.io .EEXIST)
    | some e => throw (.io e)

def mkdirs (p : Path) : M Unit := do
  let missing ← mkdirUp (p.length + 1) p
  mkdirDown missing.reverse

-- lock.rs ------------------------------------------------------------------------------------------------
/-- `LockFile::acquire`.  An existing lock file that holds "pid:timestamp" (even half of it: the first half of the
    16-18 bytes still contains the colon, and the cut timestamp is ancient) belongs to a process that no longer runs
    and is removed.  A file that is NOT of that form (in the model: an empty one) is left alone, so that creating
    the lock then fails for ever (`stale = false`), or is removed as abandoned (`stale = true`).
    `byLink = false`: the lock file is created with `create_new` and written afterwards — it exists EMPTY in
    between; when the write fails the empty file stays (`cleans = false`) or is removed again (`cleans = true`).
    `byLink = true` (repo commit 35d666f): the content goes to the private `renamify.lock.<pid>.tmp` (`fs::write`),
    which is published complete with `hard_link` (fails if the lock exists) and then removed whatever the link
    returned; a failing `fs::write` returns at once and may leave the temporary file. -/
def removeOldLock (stale : Bool) : M Unit := do
  let t ← getTree
  match lookup t pLock with
  | some (.file c _) => if !c.isEmpty || stale then doOp (.unlink pLock) else pure ()
  | _ => pure ()

def acquireF (byLink stale cleans : Bool) : M Unit := do
  removeOldLock stale
  mkdirs pR
  if byLink then do
    doOp (.openw pLockTmp true false)
    writeAll pLockTmp lockText
    let r ← tryOp (.link pLockTmp pLock)
    ignoreErr (doOp (.unlink pLockTmp))
    match r with
    | none => pure ()
    | some e => throw (.io e)
  else do
    doOp (.openw pLock false true)
    if cleans then do
      let r ← tryCatch (writeAll pLock lockText)
      match r with
      | none => pure ()
      | some e => do
        ignoreErr (doOp (.unlink pLock))
        throw e
    else writeAll pLock lockText

def acquire : M Unit :=
  acquireF ExecFlags.publishByLink ExecFlags.emptyLockIsStale ExecFlags.lockWriteFailureCleans

/-- `Drop for LockFile`: remove the file if it exists (`checks = false`) / only if it still holds this process's
    own content, which takes a read but no further mutating call (`checks = true`, repo commit d33e63d) -/
def dropLockF (checks : Bool) : M Unit := do
  let t ← getTree
  if checks then
    (match lookup t pLock with
     | some (.file c _) => if c == lockText then ignoreErr (doOp (.unlink pLock)) else pure ()
     | _ => pure ())
  else if exists_ t pLock then ignoreErr (doOp (.unlink pLock)) else pure ()

def dropLock : M Unit := dropLockF ExecFlags.dropChecksContent

/-- `let _lock = LockFile::acquire(…)?; body` — or just `body` for a command that does not take the lock -/
def withLockF (locks : Bool) (body : M Unit) : M Unit :=
  if locks then do
    acquire
    finallyM body dropLock
  else body

/-- whether `acquire` would succeed from this state (no op is issued) -/
def acquirableF (stale : Bool) (t : Tree) : Bool :=
  match lookup t pLock with
  | none => true
  | some (.file c _) => !c.isEmpty || stale
  | _ => false

def acquirable (t : Tree) : Bool := acquirableF ExecFlags.emptyLockIsStale t

-- rename.rs::detect_case_insensitive_fs -----------------------------------------------------------------
/-- `TempDir::drop` / `TempDir::close` → `remove_dir_all`: the file (if it was created), then the directory; stops at
    the first error.  Returns whether everything was removed. -/
def removeProbe : M Bool := do
  let t ← getTree
  let r ← (if exists_ t pProbeFile then tryOp (.unlink pProbeFile) else pure none)
  match r with
  | some _ => pure false
  | none => do
    let r2 ← tryOp (.rmdir pProbe)
    pure r2.isNone

/-- `retry = false`: the cleanup of the probe directory is left to `TempDir::drop`, which ignores errors.
    `retry = true`: it is closed explicitly and, if that fails, removed once more (then only a warning is printed). -/
def probeF (retry : Bool) : M Unit := do
  let r ← tryOp (.mkdir pProbe)
  match r with
  | some _ => pure ()
  | none => do
    let r1 ← tryOp (.openw pProbeFile true false)
    (match r1 with
     | some _ => pure ()
     | none => do
       let _ ← tryOp (.write pProbeFile b!"test")
       pure ())
    let ok ← removeProbe
    if retry && !ok then do
      let _ ← removeProbe
      pure ()
    else pure ()

def probe : M Unit := probeF ExecFlags.probeCleanupRetried

-- apply.rs ---------------------------------------------------------------------------------------------
structure Cfg where
  log : Option Path
  id : Bytes
  entry : UInt8            -- the byte that stands for the history entry this command appends
  force : Bool := false
  /-- the id of the entry is new by construction (`redo-<id>-<timestamp>`): no duplicate-id check can hit -/
  freshId : Bool := false

/-- one `state.log(…)` line.  `ign = false`: `state.log(…)?` — a write error aborts the caller like any other error;
    `ign = true`: the line is dropped and the operation goes on (a log must never change the course of what it logs) -/
def logMF (ign : Bool) (cfg : Cfg) : M Unit :=
  if cfg.log.isSome then (if ign then ignoreErr (doOp .logLine) else doOp .logLine) else pure ()

def logM (cfg : Cfg) : M Unit := logMF ExecFlags.logErrorsIgnored cfg

def rollbackLoop (cfg : Cfg) : List (Path × Path) → Bool → M Bool
  | [], b => pure b
  | (f, to) :: rest, b => do
    logM cfg
    let r ← tryOp (.rename to f false false)
    rollbackLoop cfg rest (b || r.isSome)

/-- `rollback`: renames only, in reverse order, errors collected -/
def rollbackM (cfg : Cfg) (perf : List (Path × Path)) : M Unit := do
  logM cfg
  let bad ← rollbackLoop cfg perf.reverse false
  if bad then throw .rollbackErr else logM cfg

/-- write `c'` to the temp file next to `f`, give it mode `m`, rename it over `f` -/
def replaceFileX (excl : Bool) (f : Path) (c' : Bytes) (m : Nat) : M Unit := do
  -- `excl = false`: `File::create` (O_CREAT|O_TRUNC: an existing file at the temp name is simply overwritten);
  -- `excl = true`: `create_new` (O_EXCL: an existing file makes the open fail with EEXIST)
  doOp (.openw (tmpPath f) true excl)
  writeAll (tmpPath f) c'
  doOp (.chmod (tmpPath f) m)
  doOp (.rename (tmpPath f) f false false)

def replaceFile (f : Path) (c' : Bytes) (m : Nat) : M Unit := replaceFileX ExecFlags.tempOpenExclusive f c' m

/-- would a later content edit of one of `files` fail only because of a temp file that an earlier, killed process left
    behind?  With per-pid names the leftover has another name; with a truncating create it is overwritten. -/
def leftoverBlocks (files : List Path) (t : Tree) : Bool :=
  ExecFlags.tempOpenExclusive && !ExecFlags.tempNamePerPid && files.any (fun f => exists_ t (tmpPath f))

/-- … and, in the variant `clean = true`, remove the temp file again when one of these steps fails -/
def replaceFileFX (excl clean : Bool) (f : Path) (c' : Bytes) (m : Nat) : M Unit :=
  if clean then do
    let r ← tryCatch (replaceFileX excl f c' m)
    match r with
    | none => pure ()
    | some e => do
      ignoreErr (doOp (.unlink (tmpPath f)))
      throw e
  else replaceFileX excl f c' m

def replaceFileF (clean : Bool) (f : Path) (c' : Bytes) (m : Nat) : M Unit :=
  replaceFileFX ExecFlags.tempOpenExclusive clean f c' m

/-- `apply_content_edits_with_content` for one file whose content `c` and mode `m` have been read -/
def editOneF (clean : Bool) (cfg : Cfg) (hs : List Hunk) (f : Path) (c : Bytes) (m : Nat) : M Unit := do
  logM cfg
  match Edits.applyEdits c (editsFor hs f) with
  | .error .panic => throw .panic
  | .error .mismatch => throw .mismatch
  | .ok c' => do
    replaceFileF clean f c' m
    logM cfg

def editOne (cfg : Cfg) (hs : List Hunk) (f : Path) (c : Bytes) (m : Nat) : M Unit :=
  editOneF ExecFlags.tempRemovedOnFailure cfg hs f c m

def contentLoopF (clean : Bool) (cfg : Cfg) (hs : List Hunk) : List Path → M Unit
  | [] => pure ()
  | f :: fs => do
    let t ← getTree
    match lookup t f with
    | some (.file c m) =>
      if !Utf8.valid c then throw .unreadable
      else do
        let r ← tryCatch (editOneF clean cfg hs f c m)
        match r with
        | none => contentLoopF clean cfg hs fs
        | some e => do
          logM cfg
          rollbackM cfg []
          throw e
    | _ => throw .unreadable

def contentLoop (cfg : Cfg) (hs : List Hunk) : List Path → M Unit :=
  contentLoopF ExecFlags.tempRemovedOnFailure cfg hs

/-- number of "Adjusted rename source/destination" log lines -/
def adjustLogs (perf : List (Path × Path)) (r : Ren) : Nat :=
  perf.foldl (fun n pr => n + (if pre pr.1 r.path then 1 else 0) + (if pre pr.1 r.newPath then 1 else 0)) 0

/-- which pairs `rollback` reverts: the recorded (ORIGINAL from, adjusted to) pairs (`real = false`), or the pairs
    exactly as they were executed (`real = true`) -/
def rollbackPairs (real : Bool) (perf exec : List (Path × Path)) : List (Path × Path) := if real then exec else perf

/-- STEP 3.  `perf` = `state.renames_performed` (original from, adjusted to), `exec` = the renames as executed -/
def renameLoopF (real : Bool) (cfg : Cfg) : List (Path × Path) → List (Path × Path) → List Ren → M (List (Path × Path))
  | perf, _, [] => pure perf
  | perf, exec, r :: rs => do
    repeatM (adjustLogs perf r) (logM cfg)
    let af := rebase perf r.path
    let at' := rebase perf r.newPath
    let res ← tryCatch (do
      logM cfg
      doOp (.rename af at' (trailingSlash perf r.path) (trailingSlash perf r.newPath)))
    match res with
    | some e => do
      logM cfg
      rollbackM cfg (rollbackPairs real perf exec)
      throw e
    | none => do
      let res2 ← tryCatch (logM cfg)
      match res2 with
      | some e => do
        logM cfg
        rollbackM cfg (rollbackPairs real (perf ++ [(af, at')]) (exec ++ [(af, at')]))
        throw e
      | none => renameLoopF real cfg (perf ++ [(r.path, at')]) (exec ++ [(af, at')]) rs

def renameLoop (cfg : Cfg) (perf : List (Path × Path)) (rs : List Ren) : M (List (Path × Path)) :=
  renameLoopF ExecFlags.rollbackRealPairs cfg perf [] rs

/-- the pairs the rename phase executes, as a function of the plan alone -/
def execOf : List (Path × Path) → List Ren → List (Path × Path)
  | _, [] => []
  | perf, r :: rs =>
    (rebase perf r.path, rebase perf r.newPath) :: execOf (perf ++ [(r.path, rebase perf r.newPath)]) rs

def contentOf (t : Tree) (p : Path) : Option Bytes :=
  match lookup t p with
  | some (.file c _) => some c
  | _ => none

def patchLoop (cfg : Cfg) (perf : List (Path × Path)) : List (Path × Bytes) → M Unit
  | [] => pure ()
  | (f, c0) :: rest => do
    let t ← getTree
    let cur := currentPath perf f
    if !readable t cur then throw .unreadable
    else do
      if contentOf t cur != some c0 then do
        doOp (.openw (pPatch cfg.id) true false)
        writeAll (pPatch cfg.id) blob
      else pure ()
      patchLoop cfg perf rest

/-- `generate_reverse_patches` -/
def patchPhase (cfg : Cfg) (perf : List (Path × Path)) (orig : List (Path × Bytes)) : M Unit := do
  mkdirs (pPatchDir cfg.id)
  patchLoop cfg perf orig

def pHistTmp : Path := [dotR, b!"history.json.PID.tmp"]

/-- `History::add_entry` → `save`.
    `atomic = false`: open(O_TRUNC) history.json, then one write(2) from a BufWriter that is flushed when it is
    dropped, so the error of that write is lost.
    `atomic = true`: the bytes go to `history.json.<pid>.tmp`, are flushed explicitly (errors propagate), and the
    temp file is renamed over history.json; on any error the temp file is removed. -/
def saveHistF (atomic : Bool) (entry : UInt8) : M Unit := do
  let t ← getTree
  let es := loadHist t
  mkdirs pR
  if atomic then do
    let r ← tryCatch (do
      doOp (.openw pHistTmp true false)
      let w ← tryCatch (writeAll pHistTmp (encodeHist (es ++ [entry])))
      match w with
      | none => pure ()
      | some e => do
        -- the explicit flush reported the error; `BufWriter::drop` then tries once more and ignores the result
        ignoreErr (writeAll pHistTmp (encodeHist (es ++ [entry])))
        throw e
      doOp (.rename pHistTmp pHist false false))
    match r with
    | none => pure ()
    | some e => do
      ignoreErr (doOp (.unlink pHistTmp))
      throw e
  else do
    doOp (.openw pHist true false)
    ignoreErr (writeAll pHist (encodeHist (es ++ [entry])))

def saveHist (entry : UInt8) : M Unit := saveHistF ExecFlags.atomicHistorySave entry

def originals (t : Tree) (files : List Path) : List (Path × Bytes) :=
  files.filterMap (fun f => match lookup t f with
    | some (.file c _) => if Utf8.valid c then some (f, c) else none
    | _ => none)

/-- `History::add_entry`: a plan id that is already recorded is rejected ("History entry with ID … already exists"),
    otherwise the history is saved with the new entry -/
def addEntry (cfg : Cfg) : M Unit := do
  let t ← getTree
  if !cfg.freshId && (loadHist t).contains cfg.entry then throw .dupId
  else saveHist cfg.entry

/-- everything after the renames, in the order the code had up to repo HEAD e472ec7: patches, history entry, stored
    plan; a failure simply returns (no rollback) -/
def recordLegacy (cfg : Cfg) (perf : List (Path × Path)) (orig : List (Path × Bytes)) : M Unit := do
  logM cfg
  let r ← tryCatch (patchPhase cfg perf orig)
  match r with
  | some e => do
    logM cfg
    if !cfg.force then throw e else pure ()
  | none => pure ()
  logM cfg
  logM cfg
  addEntry cfg
  mkdirs pPlans
  doOp (.openw (pStored cfg.id) true false)
  writeAll (pStored cfg.id) blob
  logM cfg
  logM cfg

/-- … and with the history entry as the commit point: patches, stored plan (removed again if it cannot be written or
    if the entry cannot be recorded), history entry LAST; the caller rolls the renames back when this fails -/
def recordCommit (cfg : Cfg) (perf : List (Path × Path)) (orig : List (Path × Bytes)) : M Unit := do
  logM cfg
  let r ← tryCatch (patchPhase cfg perf orig)
  match r with
  | some e => do
    logM cfg
    if !cfg.force then throw e else pure ()
  | none => pure ()
  logM cfg
  logM cfg
  mkdirs pPlans
  let w ← tryCatch (do
    doOp (.openw (pStored cfg.id) true false)
    writeAll (pStored cfg.id) blob)
  match w with
  | some e => do
    ignoreErr (doOp (.unlink (pStored cfg.id)))
    throw e
  | none => pure ()
  logM cfg
  let h ← tryCatch (addEntry cfg)
  match h with
  | some e => do
    ignoreErr (doOp (.unlink (pStored cfg.id)))
    throw e
  | none => pure ()

/-- `apply_plan` -/
def applyPlanBody (cfg : Cfg) (plan : Plan) : M Unit := do
  match cfg.log with
  | some lp => do
    mkdirs lp.dropLast
    doOp (.openw lp false false)
  | none => pure ()
  logM cfg
  logM cfg
  let t ← getTree
  -- any refusal of the pre-flight loop (occupied or shared destination) is the failure class `destExists`
  if (preflight t [] plan.rens).isSome then throw .destExists
  else do
    let files := sortedFiles plan.hunks
    let orig := originals t files
    contentLoop cfg plan.hunks files
    let perf ← renameLoop cfg [] (sortRens plan.rens)
    if ExecFlags.historyEntryIsCommitPoint then do
      let rec' ← tryCatch (recordCommit cfg perf orig)
      match rec' with
      | none => pure ()
      | some e => do
        logM cfg
        rollbackM cfg (rollbackPairs ExecFlags.rollbackRealPairs perf (execOf [] (sortRens plan.rens)))
        throw e
      logM cfg
    else recordLegacy cfg perf orig

def applyPlanMF (dupUpFront : Bool) (cfg : Cfg) (plan : Plan) : M Unit := do
  -- `dupUpFront` (repo commit c3d511b): a plan whose id is already in the history is refused BEFORE anything is
  -- touched — unconditionally; `add_entry` at the end would reject it anyway, but only after the tree was edited
  let t0 ← getTree
  if dupUpFront && !cfg.freshId && (loadHist t0).contains cfg.entry then throw .dupId
  else applyPlanBody cfg plan

def applyPlanM (cfg : Cfg) (plan : Plan) : M Unit := applyPlanMF ExecFlags.dupIdRefusedUpFront cfg plan

-- the commands -------------------------------------------------------------------------------------------
def entryApply : UInt8 := 65
def entryUndo : UInt8 := 85
def entryRedo : UInt8 := 82
def entryOld : UInt8 := 79

/-- the commands without the lock wrapper -/
def bodyRename (plan : Plan) : M Unit := do
  probe
  mkdirs pR
  applyPlanM { log := some (pLogFile idNew), id := idNew, entry := entryApply } plan

def bodyApply (plan : Plan) : M Unit := do
  applyPlanM { log := some (pLogFile idNew), id := idNew, entry := entryApply } plan
  ignoreErr (doOp (.unlink pPlanJson))

/-- does the recorded text of a hunk still sit at its recorded offsets (`content.get(start..end) == hunk.content`)? -/
def hunkFits (t : Tree) (h : Hunk) : Bool :=
  match lookup t h.file with
  | some (.file c _) => Utf8.valid c && Edits.sliceStr c h.start h.stop == some h.before
  | _ => false

/-- `redo_renaming`; `pre = true` (repo commit 3933d7f): every hunk of the stored plan is compared with the files first,
    and a stale plan is refused with nothing touched -/
def bodyRedoF (pre : Bool) (plan : Plan) : M Unit := do
  let t ← getTree
  if pre && !plan.hunks.all (hunkFits t) then throw .mismatch
  else applyPlanM { log := some pApplyLog, id := idRedo, entry := entryRedo, freshId := true } plan

def bodyRedo (plan : Plan) : M Unit := bodyRedoF ExecFlags.redoPrevalidate plan

def bodyReplace (plan : Plan) : M Unit := do
  let t ← getTree
  if !exists_ t pR then mkdirs pR else pure ()
  applyPlanM { log := none, id := idNew, entry := entryApply } plan

/-- the commands as they are: `rename` has always taken the workspace lock; whether `apply`, `redo`, `replace`
    (and `undo`, below) do is read from the source (translate/execflags.py) -/
def cmdRename (plan : Plan) : M Unit := withLockF true (bodyRename plan)
def cmdApply (plan : Plan) : M Unit := withLockF ExecFlags.lockApply (bodyApply plan)
/-- `apply <id>` / `apply <plan file>`: a stored plan is applied again; no plan.json is removed afterwards -/
def bodyReapply (plan : Plan) : M Unit :=
  applyPlanM { log := some (pLogFile idNew), id := idNew, entry := entryApply } plan

def cmdReapply (plan : Plan) : M Unit := withLockF ExecFlags.lockApply (bodyReapply plan)

def cmdRedo (plan : Plan) : M Unit := withLockF ExecFlags.lockRedo (bodyRedo plan)
def cmdReplace (plan : Plan) : M Unit := withLockF ExecFlags.lockReplace (bodyReplace plan)

-- undo.rs --------------------------------------------------------------------------------------------------
def insertPair (le : (Path × Path) → (Path × Path) → Bool) (x : Path × Path) : List (Path × Path) → List (Path × Path)
  | [] => [x]
  | y :: ys => if le x y then x :: y :: ys else y :: insertPair le x ys

def sortPairs (le : (Path × Path) → (Path × Path) → Bool) : List (Path × Path) → List (Path × Path)
  | [] => []
  | x :: xs => insertPair le x (sortPairs le xs)

def undoDirs (rs : List Ren) : List (Path × Path) :=
  sortPairs (fun a b => decide (depth a.2 ≤ depth b.2))
    ((rs.filter (fun r => r.kind == .dir)).map (fun r => (r.path, r.newPath)))

def undoFiles (rs : List Ren) : List (Path × Path) :=
  let dirs := undoDirs rs
  sortPairs (fun a b => decide (depth b.2 ≤ depth a.2))
    ((rs.filter (fun r => r.kind == .file)).map (fun r =>
      (r.path, dirs.foldl (fun cur d => if pre d.2 r.newPath then d.1 ++ r.newPath.drop d.2.length else cur) r.newPath)))

def renameBack : List (Path × Path) → M Unit
  | [] => pure ()
  | (f, to) :: rest => do
    let t ← getTree
    if exists_ t to then doOp (.rename to f false false) else pure ()
    renameBack rest

/-- `apply_single_patch`: read, patch in memory (the stored reverse patch yields the original content —
    diffy round trip, hypothesis), then `fs::write` IN PLACE and chmod (`viaTemp = false`), or write a temp file,
    chmod it and rename it over the user's file (`viaTemp = true`; `cleans`: the temp file is removed when a step fails) -/
def patchOneF (viaTemp cleans : Bool) (f : Path) (c : Bytes) : M Unit := do
  let t ← getTree
  match lookup t f with
  | some (.file cur m) =>
    if !Utf8.valid cur then throw .unreadable
    else if viaTemp then replaceFileFX false cleans f c m      -- `fs::write(&temp_path, …)`: always a truncating create
    else do
      doOp (.openw f true false)
      writeAll f c
      doOp (.chmod f m)
  | _ => throw .unreadable

def patchOne (f : Path) (c : Bytes) : M Unit :=
  patchOneF ExecFlags.undoViaTemp ExecFlags.undoTempRemovedOnFailure f c

def undoPatches : List (Path × Bytes) → Bool → M Bool
  | [], b => pure b
  | (f, c) :: rest, b => do
    let r ← tryCatch (patchOne f c)
    match r with
    | none => undoPatches rest b
    | some _ => do
      ignoreErr (do
        doOp (.openw (rejPath f) true false)
        writeAll (rejPath f) blob)
      undoPatches rest true

/-- `undo_renaming`; `restore` lists (original path, original content) in the order the patches are applied
    (a `HashMap` in the code: any order) -/
def bodyUndoSteps (plan : Plan) (restore : List (Path × Bytes)) : M Unit := do
  renameBack (undoDirs plan.rens)
  renameBack (undoFiles plan.rens)
  let bad ← undoPatches restore false
  if bad then throw .patchFailed
  else saveHist entryUndo

/-- `state.renames_performed` of the completed apply, as a function of the plan alone -/
def perfOf : List (Path × Path) → List Ren → List (Path × Path)
  | perf, [] => perf
  | perf, r :: rs => perfOf (perf ++ [(r.path, rebase perf r.newPath)]) rs

/-- where an edited file is now (after the apply that is being undone), falling back to its original path -/
def nowAt (t : Tree) (plan : Plan) (f : Path) : Path :=
  let cand := currentPath (perfOf [] (sortRens plan.rens)) f
  if exists_ t cand then cand else f

/-- `undo_renaming`; `pre = true` (repo commit 657a7be): every reverse patch is checked in memory against the file where
    it is now, and if one cannot be applied undo refuses with nothing touched (in the model a patch applies iff the file
    is readable: the diffy round trip is a hypothesis) -/
def bodyUndoF (pre : Bool) (plan : Plan) (restore : List (Path × Bytes)) : M Unit := do
  let t ← getTree
  if pre && !restore.all (fun fc => readable t (nowAt t plan fc.1)) then throw .patchFailed
  else bodyUndoSteps plan restore

def bodyUndo (plan : Plan) (restore : List (Path × Bytes)) : M Unit :=
  bodyUndoF ExecFlags.undoPrevalidate plan restore

def cmdUndo (plan : Plan) (restore : List (Path × Bytes)) : M Unit :=
  withLockF ExecFlags.lockUndo (bodyUndo plan restore)

-- running ----------------------------------------------------------------------------------------------------
inductive Outcome where | ok | fail | panic | crashed
  deriving DecidableEq, Repr

def outcome {α} : Res α → Outcome
  | .ok _ _ => .ok
  | .err .panic _ => .panic
  | .err _ _ => .fail
  | .crash _ => .crashed

def run (prog : M Unit) (t : Tree) (inj : Inj) : Res Unit := prog { t := t, inj := inj }

end Exec
