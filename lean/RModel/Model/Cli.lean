/-
  L6 `Cli` — an executable model of clap 4's argument parser (`clap_builder::parser::Parser`)
  for the feature subset that renamify's derive definitions use; see `accepts`.

  Mirrors, function by function:
    Parser::parse            -> `run`          (main loop: subcommand, `--`, long, short, value, positional)
    Parser::parse_long_arg   -> `stepLong`
    Parser::parse_short_arg  -> `stepShort`
    Parser::parse_opt_value  -> `optValue`
    Parser::react            -> `resolve` / `reactCore`  (num_args check, delimiter split, action)
    Parser::push_arg_values  -> `checkVals`    (value parsers: enum / integer / path / string)
    Parser::add_defaults     -> `valueOf`
    Validator::validate      -> `validate`     (help-on-empty, missing subcommand, conflicts, required, requires)
    ArgMatcher::propagate_globals -> `mergeGlobal`

  Modelled because they change what an accepted argv MEANS: `trailing_var_arg`, `allow_hyphen_values`, `last`.
  Out of model (translate/cli_grammar.py carries them as data, lists them in `Gen.CliGrammar.unmodelled`
  and reports a weakened tie): `env`, `num_args`,
  `allow_negative_numbers`, `require_equals`, groups with
  `required`/`multiple(false)`, `exclusive`, `overrides_with`, `default_missing_value`, value terminators,
  external/flag subcommands, subcommand inference, non-UTF-8 arguments, nested subcommands.
  Everything is structural recursion over the token list, so `decide` evaluates it in the kernel.
-/
namespace Cli

/-- Command-line text inside this model: UTF-8 code units as `Nat`s.  (`Str = List Nat` everywhere
    else; `Nat` literals and `Nat.beq` are evaluated natively by the kernel, which makes the finite
    tables of `Props/C20.lean` about 50x cheaper to check than with `Nat`.  The driver converts.) -/
abbrev Str := List Nat

/-- equality of code-unit strings, written so that the kernel only runs `Nat.beq` -/
def seq : Str → Str → Bool
  | [], [] => true
  | a :: as, b :: bs => Nat.beq a b && seq as bs
  | _, _ => false

def optIs : Option Str → Str → Bool
  | some a, b => seq a b
  | none, _ => false

def optIsC : Option Nat → Nat → Bool
  | some a, b => Nat.beq a b
  | none, _ => false

def anyIs (l : List Str) (n : Str) : Bool := l.any (seq · n)

inductive Action | setTrue | setFalse | count | set | append | help | version
  deriving DecidableEq, Repr

/-- value parsers that occur -/
inductive VType
  | str                                   -- String: anything
  | path                                  -- PathBuf: anything but the empty string
  | nat (bits : Nat)                      -- usize / u64 / u8 ...: `[+]digits`, below 2^bits
  | enum (vals : List (List Str))       -- `value_enum`: per variant its accepted names
  deriving DecidableEq, Repr

inductive ClapError
  | unknownArgument | invalidValue | valueValidation | missingRequiredArgument | argumentConflict
  | tooManyValues | wrongNumberOfValues | invalidSubcommand | missingSubcommand
  | displayHelp | displayVersion | displayHelpOnMissingArgumentOrSubcommand
  deriving DecidableEq, Repr

def ClapError.name : ClapError → String
  | .unknownArgument => "UnknownArgument"
  | .invalidValue => "InvalidValue"
  | .valueValidation => "ValueValidation"
  | .missingRequiredArgument => "MissingRequiredArgument"
  | .argumentConflict => "ArgumentConflict"
  | .tooManyValues => "TooManyValues"
  | .wrongNumberOfValues => "WrongNumberOfValues"
  | .invalidSubcommand => "InvalidSubcommand"
  | .missingSubcommand => "MissingSubcommand"
  | .displayHelp => "DisplayHelp"
  | .displayVersion => "DisplayVersion"
  | .displayHelpOnMissingArgumentOrSubcommand => "DisplayHelpOnMissingArgumentOrSubcommand"

structure Arg where
  id : Str
  long : Option Str := none            -- without the leading `--`
  aliases : List Str := []             -- `alias` / `visible_alias`
  short : Option Nat := none
  action : Action
  positional : Bool := false
  required : Bool := false
  delim : Option Nat := none
  vtype : VType := .str
  default : Option Str := none         -- `default_value` / `default_value_t` (flags: "true")
  conflicts : List Str := []
  requires : List Str := []
  global : Bool := false
  trailingVarArg : Bool := false         -- `trailing_var_arg`: from its first value on, everything is a value
  allowHyphen : Bool := false            -- `allow_hyphen_values`
  last : Bool := false                   -- `last`: only after `--`
  deriving DecidableEq, Repr

structure Cmd where
  name : Str
  aliases : List Str := []
  hidden : Bool := false
  args : List Arg
  deriving DecidableEq, Repr

structure Grammar where
  top : List Arg
  subs : List Cmd
  version : Bool                 -- `#[command(version)]`: `--version` / `-V` at the top level
  subRequired : Bool             -- `#[command(subcommand)] command: Commands` (not `Option`)
  deriving DecidableEq, Repr

def Arg.takesValue (a : Arg) : Bool :=
  match a.action with
  | .set | .append => true
  | _ => false

def Arg.multi (a : Arg) : Bool :=
  match a.action with
  | .append => true
  | _ => false

def helpArg : Arg := { id := [104, 101, 108, 112], long := some [104, 101, 108, 112], short := some 104, action := .help }
def versionArg : Arg :=
  { id := [118, 101, 114, 115, 105, 111, 110], long := some [118, 101, 114, 115, 105, 111, 110], short := some 86,
    action := .version }
def helpName : Str := [104, 101, 108, 112]

/-- arguments visible at the top level -/
def topArgs (g : Grammar) : List Arg :=
  g.top ++ [helpArg] ++ (if g.version then [versionArg] else [])

/-- arguments visible inside a subcommand: its own, then the propagated globals that it does not
    shadow by id (`Command::_propagate_global_args`), then the generated `--help` -/
def subArgs (g : Grammar) (c : Cmd) : List Arg :=
  c.args ++ (g.top.filter (fun a => a.global && !(c.args.any (fun b => seq b.id a.id)))) ++ [helpArg]

def findLong (args : List Arg) (n : Str) : Option Arg :=
  args.find? (fun a => optIs a.long n || anyIs a.aliases n)

def findShort (args : List Arg) (c : Nat) : Option Arg :=
  args.find? (fun a => optIsC a.short c)

def findId (args : List Arg) (id : Str) : Option Arg :=
  args.find? (fun a => seq a.id id)

def positionals (args : List Arg) : List Arg := args.filter (·.positional)

def findSub (subs : List Cmd) (n : Str) : Option Cmd :=
  subs.find? (fun c => seq c.name n || anyIs c.aliases n)

-- values -----------------------------------------------------------------------------------------

def isDigit (c : Nat) : Bool := Nat.ble 48 c && Nat.ble c 57

def digitsVal : Str → Nat → Nat
  | [], acc => acc
  | c :: cs, acc => digitsVal cs (acc * 10 + (c - 48))

/-- Rust `uN::from_str`: optional `+`, at least one digit, no overflow -/
def natOk (bits : Nat) (s : Str) : Bool :=
  let d := match s with
    | 43 :: rest => rest
    | _ => s
  !d.isEmpty && d.all isDigit && decide (digitsVal d 0 < 2 ^ bits)

def checkVal (t : VType) (v : Str) : Except ClapError Unit :=
  match t with
  | .str => .ok ()
  | .path => if v.isEmpty then .error .invalidValue else .ok ()
  | .nat bits => if natOk bits v then .ok () else .error .valueValidation
  | .enum vals => if vals.any (fun names => anyIs names v) then .ok () else .error .invalidValue

def checkVals (t : VType) : List Str → Except ClapError Unit
  | [] => .ok ()
  | v :: vs =>
    match checkVal t v with
    | .error e => .error e
    | .ok () => checkVals t vs

/-- `str::split(ch)`: always at least one piece -/
def splitOn (s : Str) (d : Nat) : List Str :=
  go s []
where
  go : Str → Str → List Str
    | [], cur => [cur.reverse]
    | c :: cs, cur => if Nat.beq c d then cur.reverse :: go cs [] else go cs (c :: cur)

/-- `str::split(delim)` applied to every raw value that contains the delimiter -/
def splitVals (d : Option Nat) (vals : List Str) : List Str :=
  match d with
  | none => vals
  | some c => vals.flatMap (fun v => splitOn v c)

-- matcher ----------------------------------------------------------------------------------------

/-- what the command line has set so far: id ↦ raw values (flags: one value `true`, counters: the count) -/
abbrev Matched := List (Arg × List Str)

def mGet (m : Matched) (id : Str) : Option (List Str) :=
  (m.find? (fun e => seq e.1.id id)).map (·.2)

def mHas (m : Matched) (id : Str) : Bool := m.any (fun e => seq e.1.id id)

def mSet (m : Matched) (a : Arg) (vs : List Str) : Matched :=
  if mHas m a.id then m.map (fun e => if seq e.1.id a.id then (a, vs) else e) else m ++ [(a, vs)]

def mAppend (m : Matched) (a : Arg) (vs : List Str) : Matched :=
  if mHas m a.id then m.map (fun e => if seq e.1.id a.id then (a, e.2 ++ vs) else e) else m ++ [(a, vs)]

inductive PState | done | opt | pos
  deriving DecidableEq, Repr

structure St where
  matched : Matched := []
  pending : Option (Arg × List Str) := none      -- `ArgMatcher::pending`
  pstate : PState := .done
  posIdx : Nat := 0                                -- `pos_counter - 1`
  trailing : Bool := false
  deriving Repr

def bTrue : Str := [116, 114, 117, 101]
def bFalse : Str := [102, 97, 108, 115, 101]

def natToStr (n : Nat) : Str := (Nat.toDigits 10 n).map (fun c => c.toNat)

def isSingle : List Str → Bool
  | [_] => true
  | _ => false

def PState.isDone : PState → Bool
  | .done => true
  | _ => false

def PState.isOpt : PState → Bool
  | .opt => true
  | _ => false

/-- `Parser::react` after the pending argument has been resolved -/
def reactCore (st : St) (a : Arg) (raw : List Str) : Except ClapError St :=
  -- verify_num_args (command line source)
  if a.takesValue && raw.isEmpty then .error .invalidValue
  else if a.takesValue && !a.positional && !(isSingle raw) then .error .wrongNumberOfValues
  else
    let vals := splitVals a.delim raw
    match a.action with
    | .set =>
      if mHas st.matched a.id then .error .argumentConflict
      else match checkVals a.vtype vals with
        | .error e => .error e
        | .ok () => .ok { st with matched := mSet st.matched a vals }
    | .append =>
      match checkVals a.vtype vals with
      | .error e => .error e
      | .ok () => .ok { st with matched := mAppend st.matched a vals }
    | .setTrue =>
      if mHas st.matched a.id then .error .argumentConflict
      else .ok { st with matched := mSet st.matched a [bTrue] }
    | .setFalse =>
      if mHas st.matched a.id then .error .argumentConflict
      else .ok { st with matched := mSet st.matched a [bFalse] }
    | .count =>
      let cur := match mGet st.matched a.id with
        | some [v] => digitsVal v 0
        | _ => 0
      .ok { st with matched := mSet st.matched a [natToStr (min (cur + 1) 255)] }
    | .help => .error .displayHelp
    | .version => .error .displayVersion

/-- `Parser::resolve_pending` -/
def resolve (st : St) : Except ClapError St :=
  match st.pending with
  | none => .ok st
  | some (a, vals) => reactCore { st with pending := none } a vals

/-- `Parser::react` -/
def react (st : St) (a : Arg) (raw : List Str) : Except ClapError St :=
  match resolve st with
  | .error e => .error e
  | .ok st => reactCore st a raw

/-- `Parser::parse_opt_value` without `require_equals` -/
def optValue (st : St) (a : Arg) (attached : Option Str) : Except ClapError St :=
  match attached with
  | some v =>
    match react st a [v] with
    | .error e => .error e
    | .ok st => .ok { st with pstate := .done }
  | none =>
    match resolve st with
    | .error e => .error e
    | .ok st => .ok { st with pending := some (a, []), pstate := .opt }

/-- split `name=value` at the first `=` -/
def splitEq : Str → Str × Option Str
  | [] => ([], none)
  | 61 :: rest => ([], some rest)
  | c :: rest => let r := splitEq rest; (c :: r.1, r.2)

/-- `Parser::parse_long_arg`; `body` is the token without the leading `--` -/
def stepLong (args : List Arg) (st : St) (body : Str) : Except ClapError St :=
  let (name, attached) := splitEq body
  match findLong args name with
  | none => .error .unknownArgument             -- pending errors are discarded (`let _ = resolve_pending`)
  | some a =>
    if a.takesValue then optValue st a attached
    else match attached with
      | some _ => .error .tooManyValues
      | none =>
        match react st a [] with
        | .error e => .error e
        | .ok st => .ok { st with pstate := .done }

/-- `Parser::parse_short_arg`: a cluster `-abc`, `-ovalue`, `-o=value` -/
def stepShort (args : List Arg) : St → Str → Except ClapError St
  | st, [] => .ok { st with pstate := .done }
  | st, c :: rest =>
    match findShort args c with
    | none => .error .unknownArgument
    | some a =>
      if a.takesValue then
        let v := match rest with
          | 61 :: r => r
          | _ => rest
        optValue st a (if rest.isEmpty then none else some v)
      else
        match react st a [] with
        | .error e => .error e
        | .ok st => stepShort args st rest

/-- the positional the next free-standing value goes to: after `--` a `last` positional takes over -/
def posAt (poss : List Arg) (st : St) : Option Arg :=
  if st.trailing && poss.any (·.last) then poss.getLast? else poss[st.posIdx]?

/-- the positional branch of the main loop; `subs` selects the error kind (`match_arg_error`) -/
def stepPositional (poss : List Arg) (subs : List Cmd) (st : St) (tok : Str) : Except ClapError St :=
  match posAt poss st with
  | some a =>
    if a.last && !st.trailing then .error .unknownArgument
    else
    let same := match st.pending with
      | some (p, _) => seq p.id a.id && a.multi
      | none => false
    match (if same then .ok st else resolve st) with
    | .error e => .error e
    | .ok st =>
      let vals := match st.pending with
        | some (_, vs) => vs
        | none => []
      .ok { st with pending := some (a, vals ++ [tok]),
                    posIdx := if a.multi then st.posIdx else st.posIdx + 1,
                    pstate := if a.multi then .pos else .done,
                    trailing := st.trailing || a.trailingVarArg }
  | none =>
    if subs.isEmpty then .error .unknownArgument
    else if st.trailing && ((findSub subs tok).isSome || seq tok helpName) then .error .unknownArgument
    else .error .invalidSubcommand

/-- a token that is taken as a value: of the option waiting for one, else of the next positional -/
def stepValue (poss : List Arg) (subs : List Cmd) (st : St) (tok : Str) : Except ClapError St :=
  if st.pstate.isOpt then
    match st.pending with
    | some (a, vs) => .ok { st with pending := some (a, vs ++ [tok]), pstate := .done }
    | none => .error .unknownArgument     -- unreachable: `.opt` implies a pending option
  else stepPositional poss subs st tok

/-- `ParseResult::MaybeHyphenValue`: a token that looks like a flag is a value after all, because the
    argument being filled (`ParseState::Opt | Pos`) allows hyphen values, or because it names no
    argument and the next positional allows them -/
def hyphenValue (args poss : List Arg) (st : St) (tok : Str) : Bool :=
  (match st.pending with
   | some (a, _) => !st.pstate.isDone && a.allowHyphen
   | none => false) ||
  (match tok with
   | [45, 45] => false
   | 45 :: 45 :: body =>
     (findLong args (splitEq body).1).isNone &&
       (match posAt poss st with | some a => a.allowHyphen && !a.last | none => false)
   | 45 :: c :: body =>
     (c :: body).any (fun ch => (findShort args ch).isNone) &&
       (match posAt poss st with | some a => a.allowHyphen && !a.last | none => false)
   | _ => false)

inductive Outcome
  | finished (st : St)
  | sub (st : St) (c : Cmd) (rest : List Str)
  | helpSub (rest : List Str)

/-- `Parser::parse`: the main loop over the raw arguments of one command level -/
def run (args poss : List Arg) (subs : List Cmd) : St → List Str → Except ClapError Outcome
  | st, [] => .ok (.finished st)
  | st, tok :: rest =>
    if !st.trailing && st.pstate.isDone && !subs.isEmpty && seq tok helpName then .ok (.helpSub rest)
    else match (if !st.trailing && st.pstate.isDone then findSub subs tok else none) with
    | some c => .ok (.sub st c rest)
    | none =>
      if st.trailing then
        match stepPositional poss subs st tok with
        | .error e => .error e
        | .ok st => run args poss subs st rest
      else if hyphenValue args poss st tok then
        match stepValue poss subs st tok with
        | .error e => .error e
        | .ok st => run args poss subs st rest
      else match tok with
      | [45, 45] => run args poss subs { st with trailing := true } rest
      | 45 :: 45 :: body =>
        match stepLong args st body with
        | .error e => .error e
        | .ok st => run args poss subs st rest
      | 45 :: c :: body =>
        match stepShort args st (c :: body) with
        | .error e => .error e
        | .ok st => run args poss subs st rest
      | _ =>
        match stepValue poss subs st tok with
        | .error e => .error e
        | .ok st => run args poss subs st rest

-- validation -------------------------------------------------------------------------------------

/-- `Validator::validate_conflicts`: over the arguments given on the command line; symmetric because
    every present argument's own `conflicts_with` list is consulted -/
def hasConflict (m : Matched) : Bool :=
  m.any (fun x => x.1.conflicts.any (fun c => !(seq c x.1.id) && mHas m c))

/-- `Validator::is_missing_required_ok`: a missing required argument is excused when an argument that
    conflicts with it is present -/
def excused (args : List Arg) (m : Matched) (r : Str) : Bool :=
  m.any (fun x => anyIs x.1.conflicts r ||
    (match findId args r with
     | some a => anyIs a.conflicts x.1.id
     | none => false))

/-- `Validator::validate_required`: required arguments and `requires` of the present ones -/
def missingRequired (args : List Arg) (m : Matched) : Bool :=
  args.any (fun a => a.required && !(mHas m a.id) && !(excused args m a.id)) ||
  m.any (fun x => x.1.requires.any (fun r => !(mHas m r) && !(excused args m r)))

def validate (args : List Arg) (m : Matched) : Except ClapError Unit :=
  if hasConflict m then .error .argumentConflict
  else if missingRequired args m then .error .missingRequiredArgument
  else .ok ()

-- result -----------------------------------------------------------------------------------------

inductive Val
  | flag (b : Bool)
  | count (n : Nat)
  | vals (vs : List Str)         -- `[]` = absent
  deriving DecidableEq, Repr

structure Parsed where
  sub : Str
  top : List (Str × Val)         -- top-level arguments (globals after propagation)
  args : List (Str × Val)        -- the subcommand's own arguments
  deriving DecidableEq, Repr

/-- command line value, else the default (`Parser::add_defaults`) -/
def valueOf (a : Arg) (m : Matched) : Val :=
  let raw := match mGet m a.id with
    | some vs => vs
    | none => match a.default with
      | some d => [d]
      | none => []
  match a.action with
  | .setTrue | .setFalse =>
    .flag (match raw with
      | [v] => seq v bTrue
      | _ => match a.action with
        | .setFalse => true
        | _ => false)
  | .count => .count (match raw with
      | [v] => digitsVal v 0
      | _ => 0)
  | _ => .vals raw

/-- `ArgMatcher::propagate_globals`: a global argument has one value on all levels; the
    subcommand's occurrence wins unless only the parent saw it on the command line -/
def mergeGlobal (a : Arg) (topM subM : Matched) : Val :=
  if mHas subM a.id then valueOf a subM
  else if mHas topM a.id then valueOf a topM
  else valueOf a subM

def isAuto (a : Arg) : Bool :=
  match a.action with
  | .help | .version => true
  | _ => false

def parsedOf (g : Grammar) (c : Cmd) (topM subM : Matched) : Parsed :=
  let globalIds := (g.top.filter (·.global)).map (·.id)
  { sub := c.name
    top := (g.top.filter (!isAuto ·)).map (fun a =>
      (a.id, if a.global then mergeGlobal (match findId c.args a.id with | some b => b | none => a) topM subM
             else valueOf a topM))
    args := (c.args.filter (!isAuto ·)).map (fun a =>
      (a.id, if anyIs globalIds a.id then mergeGlobal a topM subM else valueOf a subM)) }

/-- `Parser::parse_help_subcommand`: every remaining token must name a subcommand of the command reached
    so far; neither a real subcommand nor the generated `help` has children -/
def helpSubcommand (g : Grammar) : List Str → ClapError
  | [] => .displayHelp
  | t :: rest =>
    if (findSub g.subs t).isSome then (match rest with | [] => .displayHelp | _ => .invalidSubcommand)
    else if seq t helpName then (match rest with | [] => .displayHelp | _ => .invalidSubcommand)
    else .invalidSubcommand

/-- `k l`, with the spine of `l` rebuilt first: under the kernel's call-by-name evaluation this computes
    the argument table once per parse instead of once per lookup (`withList l k = k l`) -/
def withList {α β} : List α → (List α → β) → β
  | [], k => k []
  | x :: xs, k => withList xs (fun ys => k (x :: ys))

/-- `Cli::try_parse_from(["renamify"] ++ argv)` -/
def accepts (g : Grammar) (argv : List Str) : Except ClapError Parsed :=
  match run (topArgs g) [] g.subs {} argv with
  | .error e => .error e
  | .ok (.helpSub rest) => .error (helpSubcommand g rest)
  | .ok (.finished st) =>
    match resolve st with
    | .error e => .error e
    | .ok st =>
      if g.subRequired && st.matched.isEmpty then .error .displayHelpOnMissingArgumentOrSubcommand
      else if g.subRequired then .error .missingSubcommand
      else .error .missingSubcommand            -- renamify always requires a subcommand (translator checks)
  | .ok (.sub st c rest) =>
    -- the subcommand is parsed and validated first (`parse_subcommand` inside `parse`)
    withList (subArgs g c) fun sargs =>
    withList (positionals sargs) fun poss =>
    match run sargs poss [] {} rest with
    | .error e => .error e
    | .ok (.helpSub _) => .error .displayHelp
    | .ok (.sub _ _ _) => .error .invalidSubcommand          -- unreachable: no nested subcommands
    | .ok (.finished st2) =>
      match resolve st2 with
      | .error e => .error e
      | .ok st2 =>
        match validate sargs st2.matched with
        | .error e => .error e
        | .ok () =>
          match resolve st with
          | .error e => .error e
          | .ok st =>
            match validate (topArgs g) st.matched with
            | .error e => .error e
            | .ok () => .ok (parsedOf g c st.matched st2.matched)

def accepted (g : Grammar) (argv : List Str) : Bool :=
  match accepts g argv with
  | .ok _ => true
  | .error _ => false

end Cli
