import RModel.Base.Bytes
import RModel.Model.Edits
import RModel.Model.Apply
import RModel.Model.History
/-
  The concrete tree side used by the `histrun` driver operation and by the kernel-evaluated witnesses
  of C10: a flat directory of small text files.

    tree    association list  file name ↦ content, kept in `PathBuf` order (bytewise)
    plan    hunks `(file, before, after, start, stop)` with byte offsets, as in `Plan.matches`
    scan    leftmost, non-overlapping occurrences of the search text (what the real planner finds on the
            check's vocabulary: lower-case snake identifiers whose words never contain a term as a proper
            substring; compared with the real planner on every run)
    apply   `apply_plan` STEP 2 for a flat tree: per file in `BTreeMap` order, `Edits.applyEdits` (validation
            of the recorded text at the recorded offsets); a failure stops the command and the files
            written before it stay written; STEP 4 records for every changed file the pair
            (content after, content before) — the reverse patch
    revert  `undo_renaming` STEP 2: a reverse patch applies iff the file's current content is exactly the
            "content after" it was computed from (true of diffy patches for files of at most four lines and
            an unchanged line count: every hunk then spans the whole file); a patch that does not apply
            leaves `<file>.rej` behind (content canonicalised to `REJ`), the others are applied
  Path renames are not part of this model (C01/C08); the check's workspaces have no term in a file name.
-/

namespace HistoryTree
open History

abbrev Tree := List (Bytes × Bytes)

structure Hunk where
  file   : Bytes
  before : Bytes
  after  : Bytes
  start  : Nat
  stop   : Nat
  deriving DecidableEq, Repr

abbrev Plan := List Hunk

/-- reverse patches: file ↦ (content after the operation, content before it) -/
abbrev Backup := List (Bytes × Bytes × Bytes)

def get : Tree → Bytes → Option Bytes
  | [], _ => none
  | e :: es, f => if e.1 == f then some e.2 else get es f

/-- overwrite the (first) entry named `f` -/
def set : Tree → Bytes → Bytes → Tree
  | [], _, _ => []
  | e :: es, f, c => if e.1 == f then (e.1, c) :: es else e :: set es f c

/-- insert or overwrite, keeping `PathBuf` order -/
def insert (f : Bytes) (c : Bytes) : Tree → Tree
  | [] => [(f, c)]
  | e :: es =>
    if e.1 == f then (f, c) :: es
    else if Apply.bytesLt f e.1 then (f, c) :: e :: es
    else e :: insert f c es

def normalize (t : Tree) : Tree := t.foldl (fun acc e => insert e.1 e.2 acc) []

-- planner -----------------------------------------------------------------------------------------

/-- offsets of the leftmost non-overlapping occurrences of `pat` (non-empty) in `s`, starting at offset `off`;
    `skip` counts the bytes of the current match still to be passed -/
def occurrences (pat : Bytes) : Bytes → Nat → Nat → List Nat
  | [], _, _ => []
  | c :: cs, off, skip + 1 => occurrences pat cs (off + 1) skip
  | c :: cs, off, 0 =>
    if pat.isPrefixOf (c :: cs) then off :: occurrences pat cs (off + 1) (pat.length - 1)
    else occurrences pat cs (off + 1) 0

def scan (t : Tree) (search replace : Bytes) : Plan :=
  if search.isEmpty then []
  else t.flatMap (fun e => (occurrences search e.2 0 0).map (fun o =>
    { file := e.1, before := search, after := replace, start := o, stop := o + search.length }))

-- apply -------------------------------------------------------------------------------------------

def editsFor (p : Plan) (f : Bytes) : List Edits.Edit :=
  (p.filter (fun h => h.file == f)).map
    (fun h => { before := h.before, after := h.after, start := h.start, stop := h.stop })

def insertName (f : Bytes) : List Bytes → List Bytes
  | [] => [f]
  | g :: gs => if f == g then g :: gs else if Apply.bytesLt f g then f :: g :: gs else g :: insertName f gs

/-- files of the plan in `BTreeMap` order -/
def planFiles (p : Plan) : List Bytes := p.foldl (fun acc h => insertName h.file acc) []

/-- STEP 2 + STEP 4 over the files of the plan; `wrote` = some file has been written already -/
def applyFiles (p : Plan) : Tree → Backup → Bool → List Bytes → ApplyRes Tree Backup
  | t, b, _, [] => .ok t b
  | t, b, wrote, f :: fs =>
    match get t f with
    | none => if wrote then .partly t else .rejected          -- "Failed to read …"
    | some c =>
      match Edits.applyEdits c (editsFor p f) with
      | .error _ => if wrote then .partly t else .rejected    -- content mismatch (or panic)
      | .ok c' =>
        applyFiles p (set t f c') (if c' == c then b else b ++ [(f, c', c)]) true fs

def apply (t : Tree) (p : Plan) : ApplyRes Tree Backup := applyFiles p t [] false (planFiles p)

-- revert ------------------------------------------------------------------------------------------

def rejName (f : Bytes) : Bytes := f ++ [46, 114, 101, 106]      -- ".rej"
def rejBody : Bytes := [82, 69, 74]                               -- "REJ" (canonical stand-in for the patch text)

/-- the reverse patches of the files named by the stored plan, each applied to the file at its path
    (the Rust code iterates a `HashMap`; the files are distinct, so the order does not matter — the model
    takes the most recently written patch first) -/
def revertFiles : Tree → Bool → Backup → RevertRes Tree
  | t, ok, [] => if ok then .ok t else .failed t
  | t, ok, (f, after, before) :: rest =>
    if get t f == some after then revertFiles (set t f before) ok rest
    else revertFiles (insert (rejName f) rejBody t) false rest

def revert (t : Tree) (p : Plan) (b : Backup) : RevertRes Tree :=
  revertFiles t true (b.filter (fun e => (planFiles p).contains e.1)).reverse

/-- a second run into the same backup directory overwrites the patch of every file it touches -/
def merge (old new : Backup) : Backup :=
  old.filter (fun e => !(new.any (fun n => n.1 == e.1))) ++ new

/-- the hash is modelled by the pair itself: injective, and equal inputs in the same second collide -/
abbrev H := Bytes × Nat

def ops : Ops Tree Plan Backup H where
  hash := fun k s => (k, s)
  scan := scan
  isEmpty := fun p => p.isEmpty
  apply := apply
  revert := revert
  merge := merge

abbrev World := History.World Tree Plan Backup H

def start (t : Tree) (clock : Nat := 0) : World := History.init (normalize t) clock

end HistoryTree
