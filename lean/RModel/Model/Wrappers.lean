import RModel.Model.Cli
/-
  L6 `Wrap` — the argv builders of the MCP server and the VS Code extension as data (`Builder`,
  filled in by `Gen/Wrappers.lean`) plus their semantics:

    `build b v`      the argument vector the TypeScript code constructs for option valuation `v`
                     (JavaScript truthiness, `=== false`, `!== undefined`, `?.length`, `join`, spread, loops)
    `enumerate b`    the finite space the property quantifies over: every subset of the optional fields,
                     each present field taking its k-th representative value (k ranges over the longest
                     representative list, so every representative of every field occurs with every subset
                     of the other fields), plus one valuation per hostile value (leading `-`, embedded `,`)
    `intent b v`     what the builder evidently means by its pushes (`--flag`, `--opt value`, positionals)
    `means g p es`   the parsed command line `p` satisfies these expectations
-/
namespace Wrap
open Cli (Str seq)

inductive Ty | bool | str | strList | num | enum (lits : List Str)
  deriving DecidableEq, Repr

inductive Value | undef | bool (b : Bool) | str (s : Str) | list (l : List Str) | num (n : Nat)
  deriving DecidableEq, Repr

structure Field where
  name : Str
  ty : Ty
  optional : Bool
  reps : List Value          -- representative defined values
  hostile : List Value       -- values that look like a flag or contain the value delimiter
  deriving DecidableEq, Repr

inductive Cond
  | always
  | truthy (i : Nat)         -- `if (x)`
  | isFalse (i : Nat)        -- `x === false`
  | defined (i : Nat)        -- `x !== undefined`
  | nonEmpty (i : Nat)       -- `x?.length`, `x && x.length > 0`
  | isLit (i : Nat) (s : Str)  -- `x === 'lit'`
  | not (c : Cond)
  | and (a b : Cond)
  | or (a b : Cond)
  deriving DecidableEq, Repr

inductive Tok
  | lit (s : Str)
  | val (i : Nat)                    -- `x`, `x.toString()`
  | joined (i : Nat) (sep : Nat)   -- `x.join(',')`
  | spread (i : Nat)                 -- `...x`
  | elem                             -- loop variable of `for (const p of x)`
  | orLit (i : Nat) (s : Str)      -- `x || 'lit'`
  | attach (name : Str) (t : Tok)  -- `\`--name=${t}\``: one token, option and value joined by `=`
  deriving DecidableEq, Repr

inductive Step
  | push (c : Cond) (toks : List Tok)
  | each (c : Cond) (i : Nat) (toks : List Tok)
  | eachNorm (c : Cond) (i : Nat) (toks : List Tok)   -- `for (const p of x.flatMap(helper))`
  deriving DecidableEq, Repr

structure Builder where
  wrapper : Str
  name : Str
  sub : Str
  fields : List Field
  steps : List Step
  /-- the pure helper of `eachNorm` loops, tabulated by executing the real function on every
      representative element (`translate/wrappers.py: norm_table`): element ↦ what it returns -/
  norm : List (Str × List Str) := []
  deriving DecidableEq, Repr

abbrev Valuation := List Value

def getV (v : Valuation) (i : Nat) : Value := v.getD i .undef

-- JavaScript semantics ---------------------------------------------------------------------------

def truthy : Value → Bool
  | .undef => false
  | .bool b => b
  | .str s => !s.isEmpty
  | .list _ => true
  | .num n => !(Nat.beq n 0)

def hasLength : Value → Bool
  | .list l => !l.isEmpty
  | .str s => !s.isEmpty
  | _ => false

def evalCond (v : Valuation) : Cond → Bool
  | .always => true
  | .truthy i => truthy (getV v i)
  | .isFalse i => (match getV v i with | .bool false => true | _ => false)
  | .defined i => (match getV v i with | .undef => false | _ => true)
  | .nonEmpty i => hasLength (getV v i)
  | .isLit i s => (match getV v i with | .str x => seq x s | _ => false)
  | .not c => !evalCond v c
  | .and a b => evalCond v a && evalCond v b
  | .or a b => evalCond v a || evalCond v b

/-- a pushed token together with the role the builder gives it -/
inductive ITok
  | lit (s : Str)
  | value (s : Str)
  | values (vs : List Str)
  | joined (vs : List Str) (sep : Nat)
  | attached (name : Str) (vs : List Str) (text : Str)   -- `--name=text`, meaning option `name` = `vs`
  deriving DecidableEq, Repr

def bUndefined : Str := [117, 110, 100, 101, 102, 105, 110, 101, 100]

/-- `Array.prototype.join` -/
def joinWith (sep : Str) : List Str → Str
  | [] => []
  | [w] => w
  | w :: ws => w ++ sep ++ joinWith sep ws

def strOf : Value → Str
  | .str s => s
  | .num n => Cli.natToStr n
  | .bool b => if b then Cli.bTrue else Cli.bFalse
  | .list l => joinWith [44] l
  | .undef => bUndefined

def listOf : Value → List Str
  | .list l => l
  | _ => []

def joinWith' (sep : Str) : List Str → Str
  | [] => []
  | [w] => w
  | w :: ws => w ++ sep ++ joinWith' sep ws

def evalTok (v : Valuation) (e : Str) : Tok → ITok
  | .attach name t =>
    match evalTok v e t with
    | .lit s => .attached name [s] s
    | .value s => .attached name [s] s
    | .joined vs sep => .attached name vs (joinWith' [sep] vs)
    | .values vs => .attached name vs (joinWith' [44] vs)
    | .attached _ vs text => .attached name vs text
  | .lit s => .lit s
  | .val i => .value (strOf (getV v i))
  | .joined i sep => .joined (listOf (getV v i)) sep
  | .spread i => .values (listOf (getV v i))
  | .elem => .value e
  | .orLit i s => .value (if truthy (getV v i) then strOf (getV v i) else s)

/-- what the tabulated helper returns for one element (an element outside the table passes unchanged) -/
def normOf (tab : List (Str × List Str)) (e : Str) : List Str :=
  match tab.find? (fun kv => seq kv.1 e) with
  | some kv => kv.2
  | none => [e]

/-- the groups of tokens pushed, one group per executed `args.push(..)` -/
def evalStep (tab : List (Str × List Str)) (v : Valuation) : Step → List (List ITok)
  | .push c toks => if evalCond v c then [toks.map (evalTok v [])] else []
  | .each c i toks => if evalCond v c then (listOf (getV v i)).map (fun e => toks.map (evalTok v e)) else []
  | .eachNorm c i toks =>
    if evalCond v c then ((listOf (getV v i)).flatMap (normOf tab)).map (fun e => toks.map (evalTok v e)) else []

def groups (b : Builder) (v : Valuation) : List (List ITok) := b.steps.flatMap (evalStep b.norm v)

def render : ITok → List Str
  | .lit s => [s]
  | .value s => [s]
  | .values vs => vs
  | .joined vs sep => [joinWith [sep] vs]
  | .attached name _ text => [45 :: 45 :: (name ++ 61 :: text)]

/-- the argument vector (without the program name) -/
def build (b : Builder) (v : Valuation) : List Str := ((groups b v).flatMap id).flatMap render

-- the enumerated space ---------------------------------------------------------------------------

def profiles (b : Builder) : Nat := (b.fields.map (·.reps.length)).foldl max 1

def pick (f : Field) (k : Nat) : Value :=
  if f.reps.isEmpty then .undef else f.reps.getD (k % f.reps.length) .undef

/-- every subset of the optional fields (required fields are always present) -/
def masks : List Field → List (List Bool)
  | [] => [[]]
  | f :: fs =>
    let r := masks fs
    if f.optional then r.map (false :: ·) ++ r.map (true :: ·) else r.map (true :: ·)

def valuationOf : List Field → List Bool → Nat → Valuation
  | f :: fs, m :: ms, k => (if m then pick f k else .undef) :: valuationOf fs ms k
  | _, _, _ => []

def subsetVals (b : Builder) : List Valuation :=
  (masks b.fields).flatMap (fun m => (List.range (profiles b)).map (valuationOf b.fields m))

/-- only the required fields, first representative -/
def baseVal (b : Builder) : Valuation := b.fields.map (fun f => if f.optional then .undef else pick f 0)

def setAt : Valuation → Nat → Value → Valuation
  | [], _, _ => []
  | _ :: vs, 0, x => x :: vs
  | v :: vs, i + 1, x => v :: setAt vs i x

def hostileAt (b : Builder) : List Field → Nat → List Valuation
  | [], _ => []
  | f :: fs, i => f.hostile.map (setAt (baseVal b) i) ++ hostileAt b fs (i + 1)

def hostileVals (b : Builder) : List Valuation := hostileAt b b.fields 0

def enumerate (b : Builder) : List Valuation := subsetVals b ++ hostileVals b

-- intended meaning ------------------------------------------------------------------------------

inductive Expect
  | sub (n : Str)                       -- the subcommand selected
  | pos (k : Nat) (vs : List Str)       -- the k-th positional holds exactly `vs`
  | flag (name : Str)                   -- `--name` arrives as a set flag (counter ≥ 1)
  | short (c : Nat)                     -- `-c` likewise
  | opt (name : Str) (vs : List Str)  -- option `--name` holds exactly `vs` over all its occurrences
  deriving DecidableEq, Repr

/-- after a literal `--` every token is a positional -/
def walkTrailing : Nat → List ITok → List Expect × Nat
  | k, [] => ([], k)
  | k, .lit s :: rest => let r := walkTrailing (k + 1) rest; (.pos k [s] :: r.1, r.2)
  | k, .value x :: rest => let r := walkTrailing (k + 1) rest; (.pos k [x] :: r.1, r.2)
  | k, .values vs :: rest => let r := walkTrailing (k + 1) rest; (.pos k vs :: r.1, r.2)
  | k, .joined vs _ :: rest => let r := walkTrailing (k + 1) rest; (.pos k vs :: r.1, r.2)
  | k, .attached name _ text :: rest =>
    let r := walkTrailing (k + 1) rest; (.pos k [45 :: 45 :: (name ++ 61 :: text)] :: r.1, r.2)

/-- reading of one `args.push(..)` group; `k` = positionals seen so far, `pend` = a `--name` literal
    whose role (flag, or option with the next token as value) is not decided yet.  The third component
    tells whether a literal `--` was met (then the rest, and all later groups, are positionals). -/
def walk : Nat → Option Str → List ITok → List Expect × Nat × Bool
  | k, none, [] => ([], k, false)
  | k, some name, [] => ([.flag name], k, false)
  | k, none, .lit [45, 45] :: rest => let r := walkTrailing k rest; (r.1, r.2, true)
  | k, some name, .lit [45, 45] :: rest => let r := walkTrailing k rest; (.flag name :: r.1, r.2, true)
  | k, some name, .value x :: rest => let r := walk k none rest; (.opt name [x] :: r.1, r.2)
  | k, some name, .joined vs _ :: rest => let r := walk k none rest; (.opt name vs :: r.1, r.2)
  | k, some name, .values vs :: rest => let r := walk (k + 1) none rest; (.flag name :: .pos k vs :: r.1, r.2)
  | k, some name, .attached n2 vs _ :: rest => let r := walk k none rest; (.flag name :: .opt n2 vs :: r.1, r.2)
  | k, some name, .lit (45 :: 45 :: n2) :: rest => let r := walk k (some n2) rest; (.flag name :: r.1, r.2)
  | k, some name, .lit [45, c] :: rest => let r := walk k none rest; (.flag name :: .short c :: r.1, r.2)
  | k, some name, .lit y :: rest => let r := walk k none rest; (.opt name [y] :: r.1, r.2)
  | k, none, .lit (45 :: 45 :: name) :: rest => walk k (some name) rest
  | k, none, .lit [45, c] :: rest => let r := walk k none rest; (.short c :: r.1, r.2)
  | k, none, .lit s :: rest => let r := walk (k + 1) none rest; (.pos k [s] :: r.1, r.2)
  | k, none, .value x :: rest => let r := walk (k + 1) none rest; (.pos k [x] :: r.1, r.2)
  | k, none, .values vs :: rest => let r := walk (k + 1) none rest; (.pos k vs :: r.1, r.2)
  | k, none, .joined vs _ :: rest => let r := walk (k + 1) none rest; (.pos k vs :: r.1, r.2)
  | k, none, .attached name vs _ :: rest => let r := walk k none rest; (.opt name vs :: r.1, r.2)

/-- all groups in order; once `--` was pushed every later token is a positional -/
def walkGroups : Nat → Bool → List (List ITok) → List Expect
  | _, _, [] => []
  | k, true, g :: gs => let r := walkTrailing k g; r.1 ++ walkGroups r.2 true gs
  | k, false, g :: gs => let r := walk k none g; r.1 ++ walkGroups r.2.1 r.2.2 gs

/-- concatenate the expectations about one option (`--include a --include b`) -/
def addOpt (name : Str) (vs : List Str) : List Expect → List Expect
  | [] => [.opt name vs]
  | .opt n ws :: rest => if seq n name then .opt n (ws ++ vs) :: rest else .opt n ws :: addOpt name vs rest
  | e :: rest => e :: addOpt name vs rest

def mergeOpts : List Expect → List Expect → List Expect
  | acc, [] => acc
  | acc, .opt n vs :: rest => mergeOpts (addOpt n vs acc) rest
  | acc, e :: rest => mergeOpts (acc ++ [e]) rest

/-- the first pushed token is the subcommand; the rest is read group by group -/
def intent (b : Builder) (v : Valuation) : List Expect :=
  match groups b v with
  | (.lit s :: g) :: gs => .sub s :: mergeOpts [] (walkGroups 0 false (g :: gs))
  | gs => mergeOpts [] (walkGroups 0 false gs)

def lookup (l : List (Str × Cli.Val)) (id : Str) : Option Cli.Val :=
  (l.find? (fun e => seq e.1 id)).map (·.2)

/-- value of argument `a` in the parse result: the subcommand's own arguments shadow the globals -/
def valIn (c : Cli.Cmd) (p : Cli.Parsed) (a : Cli.Arg) : Option Cli.Val :=
  if c.args.any (fun x => seq x.id a.id) then lookup p.args a.id else lookup p.top a.id

def seqL : List Str → List Str → Bool
  | [], [] => true
  | a :: as, b :: bs => seq a b && seqL as bs
  | _, _ => false

def isVals : Option Cli.Val → List Str → Bool
  | some (.vals ws), vs => seqL ws vs
  | _, _ => false

def isSet : Option Cli.Val → Bool
  | some (.flag b) => b
  | some (.count n) => !(Nat.beq n 0)
  | _ => false

def holds (g : Cli.Grammar) (p : Cli.Parsed) : Expect → Bool
  | .sub n => seq p.sub n
  | .pos k vs =>
    match Cli.findSub g.subs p.sub with
    | none => false
    | some c =>
      match (Cli.positionals c.args)[k]? with
      | none => false
      | some a => isVals (valIn c p a) vs
  | .flag name =>
    match Cli.findSub g.subs p.sub with
    | none => false
    | some c =>
      match Cli.findLong (Cli.subArgs g c) name with
      | none => false
      | some a => isSet (valIn c p a)
  | .short ch =>
    match Cli.findSub g.subs p.sub with
    | none => false
    | some c =>
      match Cli.findShort (Cli.subArgs g c) ch with
      | none => false
      | some a => isSet (valIn c p a)
  | .opt name vs =>
    match Cli.findSub g.subs p.sub with
    | none => false
    | some c =>
      match Cli.findLong (Cli.subArgs g c) name with
      | none => false
      | some a => isVals (valIn c p a) vs

def valEq : Cli.Val → Cli.Val → Bool
  | .flag a, .flag b => a == b
  | .count a, .count b => Nat.beq a b
  | .vals a, .vals b => seqL a b
  | _, _ => false

/-- expectation `e` is about argument `a` -/
def targets (poss : List Cli.Arg) (a : Cli.Arg) : Expect → Bool
  | .sub _ => false
  | .pos k _ => (match poss[k]? with | some b => seq b.id a.id | none => false)
  | .flag n => Cli.optIs a.long n || Cli.anyIs a.aliases n
  | .opt n _ => Cli.optIs a.long n || Cli.anyIs a.aliases n
  | .short c => Cli.optIsC a.short c

/-- nothing else is set: every argument of the subcommand (its own and the globals) that no expectation is
    about holds its default -/
def untouched (g : Cli.Grammar) (p : Cli.Parsed) (es : List Expect) : Bool :=
  match Cli.findSub g.subs p.sub with
  | none => false
  | some c =>
    let poss := Cli.positionals c.args
    (Cli.subArgs g c).all (fun a =>
      Cli.isAuto a || es.any (targets poss a) ||
      (match valIn c p a with
       | some v => valEq v (Cli.valueOf a [])
       | none => false))

/-- the parse result is exactly what the builder's option object calls for: every expectation holds
    (positionals exactly the given terms and paths, every pushed flag set, every pushed option holding
    exactly the given values) and nothing else is set -/
def means (g : Cli.Grammar) (p : Cli.Parsed) (es : List Expect) : Bool :=
  es.all (holds g p) && untouched g p es

/-- accepted with the intended meaning -/
def okFor (g : Cli.Grammar) (b : Builder) (v : Valuation) : Bool :=
  match Cli.accepts g (build b v) with
  | .ok p => means g p (intent b v)
  | .error _ => false

end Wrap
