import RModel.Model.Cli
/-
  L6 `Wrap` — the argv builders of the MCP server and the VS Code extension as data (`Builder`,
  filled in by `Gen/Wrappers.lean`) plus their semantics:

    `build b v`      the argument vector the TypeScript code constructs for option valuation `v`
                     (JavaScript truthiness, `=== false`, `!== undefined`, `?.length`, `join`, spread, loops)
    `enumerate b`    the finite space the property quantifies over: every subset of the optional fields,
                     each present field taking its k-th representative value (k ranges over the longest
                     representative list, so every representative of every field occurs with every subset
                     of the other fields), plus one valuation per hostile value (leading `-`, embedded `,`)
    `intent b v`     what the builder evidently means by its pushes (`--flag`, `--opt value`, positionals)
    `means g p es`   the parsed command line `p` satisfies these expectations
-/
namespace Wrap
open Cli (Str seq)

inductive Ty | bool | str | strList | num | enum (lits : List Str)
  deriving DecidableEq, Repr

inductive Value | undef | bool (b : Bool) | str (s : Str) | list (l : List Str) | num (n : Nat)
  deriving DecidableEq, Repr

structure Field where
  name : Str
  ty : Ty
  optional : Bool
  reps : List Value          -- representative defined values
  hostile : List Value       -- values that look like a flag or contain the value delimiter
  deriving DecidableEq, Repr

inductive Cond
  | always
  | truthy (i : Nat)         -- `if (x)`
  | isFalse (i : Nat)        -- `x === false`
  | defined (i : Nat)        -- `x !== undefined`
  | nonEmpty (i : Nat)       -- `x?.length`, `x && x.length > 0`
  | not (c : Cond)
  | and (a b : Cond)
  | or (a b : Cond)
  deriving DecidableEq, Repr

inductive Tok
  | lit (s : Str)
  | val (i : Nat)                    -- `x`, `x.toString()`
  | joined (i : Nat) (sep : Nat)   -- `x.join(',')`
  | spread (i : Nat)                 -- `...x`
  | elem                             -- loop variable of `for (const p of x)`
  | orLit (i : Nat) (s : Str)      -- `x || 'lit'`
  deriving DecidableEq, Repr

inductive Step
  | push (c : Cond) (toks : List Tok)
  | each (c : Cond) (i : Nat) (toks : List Tok)
  deriving DecidableEq, Repr

structure Builder where
  wrapper : Str
  name : Str
  sub : Str
  fields : List Field
  steps : List Step
  deriving DecidableEq, Repr

abbrev Valuation := List Value

def getV (v : Valuation) (i : Nat) : Value := v.getD i .undef

-- JavaScript semantics ---------------------------------------------------------------------------

def truthy : Value → Bool
  | .undef => false
  | .bool b => b
  | .str s => !s.isEmpty
  | .list _ => true
  | .num n => !(Nat.beq n 0)

def hasLength : Value → Bool
  | .list l => !l.isEmpty
  | .str s => !s.isEmpty
  | _ => false

def evalCond (v : Valuation) : Cond → Bool
  | .always => true
  | .truthy i => truthy (getV v i)
  | .isFalse i => (match getV v i with | .bool false => true | _ => false)
  | .defined i => (match getV v i with | .undef => false | _ => true)
  | .nonEmpty i => hasLength (getV v i)
  | .not c => !evalCond v c
  | .and a b => evalCond v a && evalCond v b
  | .or a b => evalCond v a || evalCond v b

/-- a pushed token together with the role the builder gives it -/
inductive ITok
  | lit (s : Str)
  | value (s : Str)
  | values (vs : List Str)
  | joined (vs : List Str) (sep : Nat)
  deriving DecidableEq, Repr

def bUndefined : Str := [117, 110, 100, 101, 102, 105, 110, 101, 100]

/-- `Array.prototype.join` -/
def joinWith (sep : Str) : List Str → Str
  | [] => []
  | [w] => w
  | w :: ws => w ++ sep ++ joinWith sep ws

def strOf : Value → Str
  | .str s => s
  | .num n => Cli.natToStr n
  | .bool b => if b then Cli.bTrue else Cli.bFalse
  | .list l => joinWith [44] l
  | .undef => bUndefined

def listOf : Value → List Str
  | .list l => l
  | _ => []

def evalTok (v : Valuation) (e : Str) : Tok → ITok
  | .lit s => .lit s
  | .val i => .value (strOf (getV v i))
  | .joined i sep => .joined (listOf (getV v i)) sep
  | .spread i => .values (listOf (getV v i))
  | .elem => .value e
  | .orLit i s => .value (if truthy (getV v i) then strOf (getV v i) else s)

/-- the groups of tokens pushed, one group per executed `args.push(..)` -/
def evalStep (v : Valuation) : Step → List (List ITok)
  | .push c toks => if evalCond v c then [toks.map (evalTok v [])] else []
  | .each c i toks => if evalCond v c then (listOf (getV v i)).map (fun e => toks.map (evalTok v e)) else []

def groups (b : Builder) (v : Valuation) : List (List ITok) := b.steps.flatMap (evalStep v)

def render : ITok → List Str
  | .lit s => [s]
  | .value s => [s]
  | .values vs => vs
  | .joined vs sep => [joinWith [sep] vs]

/-- the argument vector (without the program name) -/
def build (b : Builder) (v : Valuation) : List Str := ((groups b v).flatMap id).flatMap render

-- the enumerated space ---------------------------------------------------------------------------

def profiles (b : Builder) : Nat := (b.fields.map (·.reps.length)).foldl max 1

def pick (f : Field) (k : Nat) : Value :=
  if f.reps.isEmpty then .undef else f.reps.getD (k % f.reps.length) .undef

/-- every subset of the optional fields (required fields are always present) -/
def masks : List Field → List (List Bool)
  | [] => [[]]
  | f :: fs =>
    let r := masks fs
    if f.optional then r.map (false :: ·) ++ r.map (true :: ·) else r.map (true :: ·)

def valuationOf : List Field → List Bool → Nat → Valuation
  | f :: fs, m :: ms, k => (if m then pick f k else .undef) :: valuationOf fs ms k
  | _, _, _ => []

def subsetVals (b : Builder) : List Valuation :=
  (masks b.fields).flatMap (fun m => (List.range (profiles b)).map (valuationOf b.fields m))

/-- only the required fields, first representative -/
def baseVal (b : Builder) : Valuation := b.fields.map (fun f => if f.optional then .undef else pick f 0)

def setAt : Valuation → Nat → Value → Valuation
  | [], _, _ => []
  | _ :: vs, 0, x => x :: vs
  | v :: vs, i + 1, x => v :: setAt vs i x

def hostileAt (b : Builder) : List Field → Nat → List Valuation
  | [], _ => []
  | f :: fs, i => f.hostile.map (setAt (baseVal b) i) ++ hostileAt b fs (i + 1)

def hostileVals (b : Builder) : List Valuation := hostileAt b b.fields 0

def enumerate (b : Builder) : List Valuation := subsetVals b ++ hostileVals b

-- intended meaning ------------------------------------------------------------------------------

inductive Expect
  | sub (n : Str)                       -- the subcommand selected
  | pos (k : Nat) (vs : List Str)       -- the k-th positional holds exactly `vs`
  | flag (name : Str)                   -- `--name` arrives as a set flag (counter ≥ 1)
  | short (c : Nat)                     -- `-c` likewise
  | opt (name : Str) (vs : List Str)  -- option `--name` holds exactly `vs` over all its occurrences
  deriving DecidableEq, Repr

/-- reading of one `args.push(..)` group; `k` = positionals seen so far, `pend` = a `--name` literal
    whose role (flag, or option with the next token as value) is not decided yet -/
def walk : Nat → Option Str → List ITok → List Expect × Nat
  | k, none, [] => ([], k)
  | k, some name, [] => ([.flag name], k)
  | k, some name, .value x :: rest => let r := walk k none rest; (.opt name [x] :: r.1, r.2)
  | k, some name, .joined vs _ :: rest => let r := walk k none rest; (.opt name vs :: r.1, r.2)
  | k, some name, .values vs :: rest => let r := walk (k + 1) none rest; (.flag name :: .pos k vs :: r.1, r.2)
  | k, some name, .lit (45 :: 45 :: n2) :: rest => let r := walk k (some n2) rest; (.flag name :: r.1, r.2)
  | k, some name, .lit [45, c] :: rest => let r := walk k none rest; (.flag name :: .short c :: r.1, r.2)
  | k, some name, .lit y :: rest => let r := walk k none rest; (.opt name [y] :: r.1, r.2)
  | k, none, .lit (45 :: 45 :: name) :: rest => walk k (some name) rest
  | k, none, .lit [45, c] :: rest => let r := walk k none rest; (.short c :: r.1, r.2)
  | k, none, .lit s :: rest => let r := walk (k + 1) none rest; (.pos k [s] :: r.1, r.2)
  | k, none, .value x :: rest => let r := walk (k + 1) none rest; (.pos k [x] :: r.1, r.2)
  | k, none, .values vs :: rest => let r := walk (k + 1) none rest; (.pos k vs :: r.1, r.2)
  | k, none, .joined vs _ :: rest => let r := walk (k + 1) none rest; (.pos k vs :: r.1, r.2)

def walkGroups : Nat → List (List ITok) → List Expect
  | _, [] => []
  | k, g :: gs => let r := walk k none g; r.1 ++ walkGroups r.2 gs

/-- concatenate the expectations about one option (`--include a --include b`) -/
def addOpt (name : Str) (vs : List Str) : List Expect → List Expect
  | [] => [.opt name vs]
  | .opt n ws :: rest => if seq n name then .opt n (ws ++ vs) :: rest else .opt n ws :: addOpt name vs rest
  | e :: rest => e :: addOpt name vs rest

def mergeOpts : List Expect → List Expect → List Expect
  | acc, [] => acc
  | acc, .opt n vs :: rest => mergeOpts (addOpt n vs acc) rest
  | acc, e :: rest => mergeOpts (acc ++ [e]) rest

/-- the first pushed token is the subcommand; the rest is read group by group -/
def intent (b : Builder) (v : Valuation) : List Expect :=
  match groups b v with
  | (.lit s :: g) :: gs => .sub s :: mergeOpts [] (walkGroups 0 (g :: gs))
  | gs => mergeOpts [] (walkGroups 0 gs)

def lookup (l : List (Str × Cli.Val)) (id : Str) : Option Cli.Val :=
  (l.find? (fun e => seq e.1 id)).map (·.2)

/-- value of argument `a` in the parse result: the subcommand's own arguments shadow the globals -/
def valIn (c : Cli.Cmd) (p : Cli.Parsed) (a : Cli.Arg) : Option Cli.Val :=
  if c.args.any (fun x => seq x.id a.id) then lookup p.args a.id else lookup p.top a.id

def seqL : List Str → List Str → Bool
  | [], [] => true
  | a :: as, b :: bs => seq a b && seqL as bs
  | _, _ => false

def isVals : Option Cli.Val → List Str → Bool
  | some (.vals ws), vs => seqL ws vs
  | _, _ => false

def isSet : Option Cli.Val → Bool
  | some (.flag b) => b
  | some (.count n) => !(Nat.beq n 0)
  | _ => false

def holds (g : Cli.Grammar) (p : Cli.Parsed) : Expect → Bool
  | .sub n => seq p.sub n
  | .pos k vs =>
    match Cli.findSub g.subs p.sub with
    | none => false
    | some c =>
      match (Cli.positionals c.args)[k]? with
      | none => false
      | some a => isVals (valIn c p a) vs
  | .flag name =>
    match Cli.findSub g.subs p.sub with
    | none => false
    | some c =>
      match Cli.findLong (Cli.subArgs g c) name with
      | none => false
      | some a => isSet (valIn c p a)
  | .short ch =>
    match Cli.findSub g.subs p.sub with
    | none => false
    | some c =>
      match Cli.findShort (Cli.subArgs g c) ch with
      | none => false
      | some a => isSet (valIn c p a)
  | .opt name vs =>
    match Cli.findSub g.subs p.sub with
    | none => false
    | some c =>
      match Cli.findLong (Cli.subArgs g c) name with
      | none => false
      | some a => isVals (valIn c p a) vs

def means (g : Cli.Grammar) (p : Cli.Parsed) (es : List Expect) : Bool := es.all (holds g p)

/-- accepted with the intended meaning -/
def okFor (g : Cli.Grammar) (b : Builder) (v : Valuation) : Bool :=
  match Cli.accepts g (build b v) with
  | .ok p => means g p (intent b v)
  | .error _ => false

end Wrap
