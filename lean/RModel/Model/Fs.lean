import RModel.Base.Bytes
/-
  L4: a working tree as an association list  path ↦ node, and the POSIX semantics of the
  mutating calls renamify issues (rename, unlink, mkdir, rmdir, write, chmod) with their errno.
  A directory rename is the prefix substitution `subst a b` applied to every key, so the
  composition of renames is pure path algebra.
  Paths are lists of components relative to the working directory; `[]` is the root.
  Not modelled: symlinked directories inside a path (the walker never follows them), hard links,
  ownership, timestamps.
-/

abbrev Path := List Bytes

namespace Fs

inductive Node where
  | file (content : Bytes) (mode : Nat)
  | dir (mode : Nat)
  | link (target : Bytes)
  deriving DecidableEq, Repr

inductive Errno where
  | ENOENT | ENOTDIR | EISDIR | ENOTEMPTY | EEXIST | EINVAL | EIO
  deriving DecidableEq, Repr

abbrev Tree := List (Path × Node)

def lookup (t : Tree) (p : Path) : Option Node :=
  match t.find? (fun e => e.1 == p) with
  | some e => some e.2
  | none => none

def isDir (t : Tree) (p : Path) : Bool :=
  p.isEmpty || (match lookup t p with | some (.dir _) => true | _ => false)

def exists_ (t : Tree) (p : Path) : Bool := p.isEmpty || (lookup t p).isSome

/-- `a` is a (non-strict) prefix of `q` -/
def pre (a q : Path) : Bool := a.isPrefixOf q

/-- the prefix substitution performed by `rename(a, b)` on one key -/
def subst (a b q : Path) : Path := if pre a q then b ++ q.drop a.length else q

def hasChildren (t : Tree) (p : Path) : Bool :=
  t.any (fun e => pre p e.1 && decide (p.length < e.1.length))

def removeKey (t : Tree) (p : Path) : Tree := t.filter (fun e => !(e.1 == p))

def parentOk (t : Tree) (p : Path) : Except Errno Unit :=
  let par := p.dropLast
  if par.isEmpty then .ok ()
  else match lookup t par with
    | none => .error .ENOENT
    | some (.dir _) => .ok ()
    | some _ => .error .ENOTDIR

/-- rename(2) -/
def rename (t : Tree) (a b : Path) : Except Errno Tree :=
  match lookup t a with
  | none => .error .ENOENT
  | some na =>
    match parentOk t b with
    | .error e => .error e
    | .ok () =>
      if a == b then .ok t
      else if pre a b then .error .EINVAL
      else
        let move (t' : Tree) : Tree := t'.map (fun e => (subst a b e.1, e.2))
        match lookup t b with
        | none => .ok (move t)
        | some nb =>
          match na, nb with
          | .dir _, .dir _ => if hasChildren t b then .error .ENOTEMPTY else .ok (move (removeKey t b))
          | .dir _, _ => .error .ENOTDIR
          | _, .dir _ => .error .EISDIR
          | _, _ => .ok (move (removeKey t b))

/-- replace the content of an existing regular file, keeping its mode (temp file + chmod + rename) -/
def setContent (t : Tree) (p : Path) (c : Bytes) : Tree :=
  t.map (fun e => if e.1 == p then
    (match e.2 with | .file _ m => (e.1, .file c m) | n => (e.1, n)) else e)

def splitPath (s : Bytes) : Path := (B.splitOn s 47).filter (fun c => !c.isEmpty && c != [46])

def joinPath (p : Path) : Bytes := B.joinWith [47] p

/-- `Path::components().count()` for a relative path -/
def depth (p : Path) : Nat := p.length

end Fs
