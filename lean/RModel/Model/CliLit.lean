import RModel.Model.Cli
/- `t!"text"` elaborates to the literal list of UTF-8 code units (`Cli.Str = List Nat`). -/
open Lean in
macro:max "t!" s:str : term => do
  let bytes := s.getString.toUTF8.toList
  let elems ← bytes.mapM (fun b => `($(Syntax.mkNumLit (toString b.toNat))))
  `(([$(elems.toArray),*] : Cli.Str))

example : t!"foo" = [102, 111, 111] := by decide
