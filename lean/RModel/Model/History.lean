import RModel.Base.Bytes
import RModel.Gen.HistoryFlags
/-
  L5 (history level): the command layer of `rename`, `undo <id|latest>`, `redo <id|latest>` over
  `.renamify/history.json`, `.renamify/plans/<id>.json` and `.renamify/backups/<id>/reverse_patches`,
  with the wall clock in whole seconds.

  Mirrors, in the order of effects of the Rust code:
    history.rs      `History::load` / `add_entry` (duplicate-id check, then whole-file save)
    scanner.rs      `generate_plan_id` = sha256(search ++ replace ++ options-debug ++ unix-seconds)[..16]
                    (no separator between search and replace: the hash input is their concatenation)
    apply.rs        `apply_plan`: content edits, reverse patches written below backups/<plan.id>,
                    THEN (since 6667a82) the plan is stored under plans/<plan.id>.json, THEN `History::load` +
                    `add_entry` — the commit point; if that fails the stored plan is removed again
                    (before 6667a82: entry first, then the plan; `Cfg.planBeforeEntry`)
    undo.rs         `undo_renaming` (eligibility: entry is not a revert, no entry has `revert_of == id`),
                    `redo_renaming` (eligibility: some entry has `revert_of == id`; `redo_of` is never written,
                    the revert is not consumed; re-applies the STORED plan under id `redo-<id>-<seconds>`)
    id_resolver.rs  `latest` for undo = most recent entry that is not a revert,
                    `latest` for redo = `revert_of` of the most recent revert entry

  The tree side is a parameter (`Ops`): planner, apply, reverse-patch application.  Everything proved in
  `Props/C10.lean` about the history (`append_only`, fresh ids, eligibility) holds for every `Ops`; the
  refinement theorem states what it assumes about `Ops` as explicit hypotheses.  `Model/HistoryTree.lean`
  gives the concrete `Ops` used by the driver and by the kernel-evaluated witnesses.

  Two repairs are switchable (`Cfg`) so that the behaviour before them stays statable:
    c3d511b  `apply_plan` first refuses a plan whose id is already in the history, before anything is changed
             (redo goes through `apply_plan` too, so a same-second `redo-<id>-<sec>` is refused the same way);
    07a4584  `redo_renaming` refuses an id that already has a `redo-<id>-…` entry ("has already been redone").
  Two more checks are proposed (seeded/_fixes/c10_undo_prevalidate.diff, c10_redo_prevalidate.diff) and modelled as
  switches too: undo validates every reverse patch in memory before it touches anything, redo validates the stored
  plan against every file before it calls `apply_plan`.
  `Cfg.current` is the code as it is — its four flags are REGENERATED from the source (Gen/HistoryFlags.lean);
  `Cfg.beforeFixes`, `Cfg.withoutPrevalidation`, `Cfg.full` are fixed points of comparison.

  Not modelled: an unparsable history.json being replaced by an empty history (`load_from_path`; only reachable
  through a crash, C11), `--commit`, path renames (C01/C08), the lock (C12), log files.
-/

namespace History

/-- Ids as structured values.  `H` is the range of the plan-id hash; `plan h` stands for the 16 hex digits. -/
inductive EId (H : Type) where
  | plan (h : H)
  | revert (of : EId H) (sec : Nat)      -- "revert-<id>-<unix seconds>"
  | redo (of : EId H) (sec : Nat)        -- "redo-<id>-<unix seconds>"
  deriving DecidableEq, Repr

/-- the operation an entry id ultimately re-applies: `redo-…` ids point back at the id they redo -/
def EId.root {H : Type} : EId H → EId H
  | .redo of _ => of.root
  | i => i

structure Entry (H : Type) where
  id : EId H
  revertOf : Option (EId H)
  deriving DecidableEq, Repr

inductive Target (H : Type) where
  | latest
  | id (i : EId H)
  deriving DecidableEq, Repr

inductive Cmd (H : Type) where
  | rename (search replace : Bytes)
  | undo (t : Target H)
  | redo (t : Target H)
  | tick                                 -- the wall clock reaches the next second
  deriving DecidableEq, Repr

inductive Outcome where
  | ok         -- exit 0, exactly one history entry added
  | noop       -- exit 0, nothing to do (no matches) / clock event
  | rejected   -- exit ≠ 0 before anything was written
  | failed     -- exit ≠ 0 after the tree and/or the backup store had been written
  deriving DecidableEq, Repr

/-- which of the history-safety checks are present -/
structure Cfg where
  /-- c3d511b: `apply_plan` refuses an id already in the history before anything is changed -/
  earlyDupCheck : Bool
  /-- 07a4584: `redo_renaming` refuses an id that already has a `redo-<id>-…` entry -/
  redoOnce : Bool
  /-- `undo_renaming` checks in memory that every reverse patch applies before it touches anything -/
  undoPrevalidate : Bool
  /-- `redo_renaming` checks the stored plan against every file before it calls `apply_plan` -/
  redoPrevalidate : Bool
  /-- 6667a82: `apply_plan` stores plans/<id>.json BEFORE the history entry (the entry is the commit point) and removes
      it again when the entry cannot be recorded; false = the entry first, then the plan -/
  planBeforeEntry : Bool
  /-- the revert id is built on the ROOT plan id of the entry (`redo-…-<ts>` wrapping stripped) instead of the entry id;
      false in every version of the code so far — a seeded change (seeded/C10c) has it -/
  revertIdOfRoot : Bool
  deriving DecidableEq, Repr

/-- the code as it is: REGENERATED from the source on every run (`translate/history_flags.py`) -/
def Cfg.current : Cfg :=
  { earlyDupCheck := Gen.HistoryFlags.earlyDupCheck, redoOnce := Gen.HistoryFlags.redoOnce,
    undoPrevalidate := Gen.HistoryFlags.undoPrevalidate, redoPrevalidate := Gen.HistoryFlags.redoPrevalidate,
    planBeforeEntry := Gen.HistoryFlags.planBeforeEntry, revertIdOfRoot := Gen.HistoryFlags.revertIdOfRoot }
/-- the code before c3d511b and 07a4584 -/
def Cfg.beforeFixes : Cfg :=
  { earlyDupCheck := false, redoOnce := false, undoPrevalidate := false, redoPrevalidate := false,
    planBeforeEntry := false, revertIdOfRoot := false }
/-- the code after those two commits, without the pre-validations -/
def Cfg.withoutPrevalidation : Cfg :=
  { earlyDupCheck := true, redoOnce := true, undoPrevalidate := false, redoPrevalidate := false,
    planBeforeEntry := false, revertIdOfRoot := false }
/-- all four checks, the plan stored before the entry (the code since 6667a82) -/
def Cfg.full : Cfg :=
  { earlyDupCheck := true, redoOnce := true, undoPrevalidate := true, redoPrevalidate := true,
    planBeforeEntry := true, revertIdOfRoot := false }

inductive ApplyRes (Tree Backup : Type) where
  | ok (t : Tree) (b : Backup)   -- every file edited; `b` = the reverse patches that were written
  | rejected                     -- the first file failed validation: nothing written
  | partly (t : Tree)            -- a later file failed: earlier files stay edited (no content rollback)

def ApplyRes.isOk {Tree Backup : Type} : ApplyRes Tree Backup → Bool
  | .ok _ _ => true
  | _ => false

inductive RevertRes (Tree : Type) where
  | ok (t : Tree)
  | failed (t : Tree)            -- some patches did not apply: the others were applied, `.rej` files written

/-- the tree side -/
structure Ops (Tree Plan Backup H : Type) where
  /-- `generate_plan_id` on the concatenated terms and the second -/
  hash : Bytes → Nat → H
  /-- the planner (`scan_repository_multi`) -/
  scan : Tree → Bytes → Bytes → Plan
  /-- `total_matches == 0 && paths.is_empty()` -/
  isEmpty : Plan → Bool
  /-- `apply_plan` STEP 1–4 -/
  apply : Tree → Plan → ApplyRes Tree Backup
  /-- `undo_renaming` STEP 1–3 -/
  revert : Tree → Plan → Backup → RevertRes Tree
  /-- writing reverse patches into a directory that already has some: per file, the new one wins -/
  merge : Backup → Backup → Backup

structure World (Tree Plan Backup H : Type) where
  clock : Nat
  tree : Tree
  entries : List (Entry H)                 -- history.json, oldest first
  plans : List (EId H × Plan)               -- plans/<id>.json
  backups : List (EId H × Backup)           -- backups/<id>/reverse_patches/

section
variable {Tree Plan Backup H : Type} [DecidableEq H]

def lookup {α : Type} (m : List (EId H × α)) (i : EId H) : Option α :=
  match m.find? (fun e => e.1 == i) with
  | some e => some e.2
  | none => none

def put {α : Type} (m : List (EId H × α)) (i : EId H) (a : α) : List (EId H × α) :=
  (m.filter (fun e => !(e.1 == i))) ++ [(i, a)]

def del {α : Type} (m : List (EId H × α)) (i : EId H) : List (EId H × α) :=
  m.filter (fun e => !(e.1 == i))

def hasId (es : List (Entry H)) (i : EId H) : Bool := es.any (fun e => e.id == i)

def findEntry (es : List (Entry H)) (i : EId H) : Option (Entry H) := es.find? (fun e => e.id == i)

/-- some entry is a revert of `i` -/
def hasRevertOf (es : List (Entry H)) (i : EId H) : Bool := es.any (fun e => e.revertOf == some i)

/-- some non-revert entry is `redo-<i>-…` (the `starts_with("redo-<id>-")` scan of `redo_renaming`) -/
def isRedoOf (i : EId H) : EId H → Bool
  | .redo j _ => j == i
  | _ => false

def hasRedoOf (es : List (Entry H)) (i : EId H) : Bool :=
  es.any (fun e => e.revertOf.isNone && isRedoOf i e.id)

/-- `resolve_latest_id(Undo)`: the most recent entry that is not a revert -/
def latestUndo (es : List (Entry H)) : Option (EId H) :=
  (es.reverse.find? (fun e => e.revertOf.isNone)).map (·.id)

/-- `resolve_latest_id(Redo)`: `revert_of` of the most recent revert entry -/
def latestRedo (es : List (Entry H)) : Option (EId H) :=
  (es.reverse.find? (fun e => e.revertOf.isSome)).bind (·.revertOf)

/-- `resolve_id`: `latest`, or an id that must exist -/
def resolve (es : List (Entry H)) (forUndo : Bool) : Target H → Option (EId H)
  | .latest => if forUndo then latestUndo es else latestRedo es
  | .id i => if hasId es i then some i else none

abbrev W (Tree Plan Backup H : Type) := World Tree Plan Backup H

/-- `revert-<id>-<unix seconds>`: on the entry id, or (seeded variant) on its root plan id -/
def revertId (cfg : Cfg) (i : EId H) (now : Nat) : EId H :=
  .revert (if cfg.revertIdOfRoot then i.root else i) now

/-- `History::add_entry`: duplicate check, then push and save -/
def addEntry (es : List (Entry H)) (e : Entry H) : Option (List (Entry H)) :=
  if hasId es e.id then none else some (es ++ [e])

/-- `apply_plan` with `plan.id = id` (shared by `rename` and `redo`) -/
def applyWithId (cfg : Cfg) (ops : Ops Tree Plan Backup H) (w : W Tree Plan Backup H) (id : EId H) (p : Plan) :
    W Tree Plan Backup H × Outcome :=
  -- c3d511b: "History entry with ID … already exists", before the log file, the edits, the patches
  if cfg.earlyDupCheck && hasId w.entries id then (w, .rejected) else
  match ops.apply w.tree p with
  | .rejected => (w, .rejected)
  | .partly t' => ({ w with tree := t' }, .failed)
  | .ok t' b =>
    -- STEP 4 has written the reverse patches below backups/<id> before the history is touched
    let old := lookup w.backups id
    let w1 : W Tree Plan Backup H :=
      { w with tree := t', backups := put w.backups id (match old with | some o => ops.merge o b | none => b) }
    match addEntry w.entries { id := id, revertOf := none } with
    | none =>
      -- the same message, after the tree was changed; since 6667a82 the plan file was already written and is
      -- removed again (content edits are not rolled back)
      (if cfg.planBeforeEntry then { w1 with plans := del w.plans id } else w1, .failed)
    | some es => ({ w1 with entries := es, plans := put w.plans id p }, .ok)

def stepRename (cfg : Cfg) (ops : Ops Tree Plan Backup H) (w : W Tree Plan Backup H) (search replace : Bytes) :
    W Tree Plan Backup H × Outcome :=
  let p := ops.scan w.tree search replace
  if ops.isEmpty p then (w, .noop)
  else applyWithId cfg ops w (.plan (ops.hash (search ++ replace) w.clock)) p

def stepUndo (cfg : Cfg) (ops : Ops Tree Plan Backup H) (w : W Tree Plan Backup H) (t : Target H) :
    W Tree Plan Backup H × Outcome :=
  match resolve w.entries true t with
  | none => (w, .rejected)
  | some i =>
    match findEntry w.entries i with
    | none => (w, .rejected)
    | some e =>
      if e.revertOf.isSome then (w, .rejected)                 -- "is already a revert operation"
      else if hasRevertOf w.entries i then (w, .rejected)      -- "has already been reverted"
      else match lookup w.plans i, lookup w.backups i with
        | some p, some b =>
          match ops.revert w.tree p b with
          | .failed t' =>
            -- with the pre-validation the same patches were tried in memory first: refused, nothing touched
            if cfg.undoPrevalidate then (w, .rejected) else ({ w with tree := t' }, .failed)
          | .ok t' =>
            match addEntry w.entries { id := revertId cfg i w.clock, revertOf := some i } with
            | none => ({ w with tree := t' }, .failed)
            | some es => ({ w with tree := t', entries := es }, .ok)
        | _, _ => (w, .rejected)                               -- plan file / reverse patches missing

def stepRedo (cfg : Cfg) (ops : Ops Tree Plan Backup H) (w : W Tree Plan Backup H) (t : Target H) :
    W Tree Plan Backup H × Outcome :=
  match resolve w.entries false t with
  | none => (w, .rejected)
  | some i =>
    if !hasId w.entries i then (w, .rejected)
    else if !hasRevertOf w.entries i then (w, .rejected)       -- "has not been reverted"
    else if cfg.redoOnce && hasRedoOf w.entries i then (w, .rejected)   -- 07a4584: "has already been redone"
    else match lookup w.plans i with
      | none => (w, .rejected)
      | some p =>
        -- pre-validation of the stored plan: some file no longer has the recorded text at the recorded offsets
        if cfg.redoPrevalidate && !(ops.apply w.tree p).isOk then (w, .rejected)
        else applyWithId cfg ops w (.redo i w.clock) p

def step (cfg : Cfg) (ops : Ops Tree Plan Backup H) (w : W Tree Plan Backup H) : Cmd H → W Tree Plan Backup H × Outcome
  | .rename s r => stepRename cfg ops w s r
  | .undo t => stepUndo cfg ops w t
  | .redo t => stepRedo cfg ops w t
  | .tick => ({ w with clock := w.clock + 1 }, .noop)

/-- run a command list; the outcomes are collected oldest first -/
def run (cfg : Cfg) (ops : Ops Tree Plan Backup H) : W Tree Plan Backup H → List (Cmd H) →
    W Tree Plan Backup H × List Outcome
  | w, [] => (w, [])
  | w, c :: cs =>
    let r := step cfg ops w c
    let rest := run cfg ops r.1 cs
    (rest.1, r.2 :: rest.2)

def init (t : Tree) (clock : Nat := 0) : W Tree Plan Backup H :=
  { clock := clock, tree := t, entries := [], plans := [], backups := [] }

end
end History
