import RModel.Base.Bytes
import RModel.Model.History
/-
  The abstract specification C10 refines to: a list of operations, each either applied or undone,
  with the tree just before and just after it.

    apply  X   (X new)            push (X, applied, pre, post)
    undo   i   (root i applied)   root i becomes undone;  the tree the history implies is `pre`
    redo   i   (root i undone)    root i becomes applied; the tree the history implies is `post`

  `root` maps the id of a redo entry to the operation it re-applies, so that `redo X` followed by
  `undo redo-X-…` is an undo of X.
-/

namespace HistorySpec
open History

structure Op (Tree H : Type) where
  root : EId H
  applied : Bool
  pre : Tree
  post : Tree

abbrev Spec (Tree H : Type) := List (Op Tree H)

section
variable {Tree Plan Backup H : Type} [DecidableEq H]

def find (s : Spec Tree H) (r : EId H) : Option (Op Tree H) := s.find? (fun o => o.root == r)

def setApplied (s : Spec Tree H) (r : EId H) (b : Bool) : Spec Tree H :=
  s.map (fun o => if o.root == r then { o with applied := b } else o)

/-- an operation can be undone only while it is applied -/
def canUndo (s : Spec Tree H) (i : EId H) : Bool :=
  match find s i.root with
  | some o => o.applied
  | none => false

/-- … and redone only while it is undone -/
def canRedo (s : Spec Tree H) (i : EId H) : Bool :=
  match find s i.root with
  | some o => !o.applied
  | none => false

def push (s : Spec Tree H) (r : EId H) (pre post : Tree) : Spec Tree H :=
  s ++ [{ root := r, applied := true, pre := pre, post := post }]

/-- the eligibility tests of the implementation, as predicates on the history -/
def undoEligible (es : List (Entry H)) (i : EId H) : Bool :=
  (match findEntry es i with | some e => e.revertOf.isNone | none => false) && !hasRevertOf es i

def redoEligible (es : List (Entry H)) (i : EId H) : Bool := hasId es i && hasRevertOf es i && !hasRedoOf es i

/-- how the specification follows one command of the implementation (for the code with the checks `cfg`): it moves only when the command succeeded -/
def specStep (cfg : Cfg) (ops : Ops Tree Plan Backup H) (s : Spec Tree H) (w : World Tree Plan Backup H) (c : Cmd H) : Spec Tree H :=
  let r := step cfg ops w c
  if r.2 = .ok then
    match c with
    | .rename se re => push s (.plan (ops.hash (se ++ re) w.clock)) w.tree r.1.tree
    | .undo t => (match resolve w.entries true t with | some i => setApplied s i.root false | none => s)
    | .redo t => (match resolve w.entries false t with | some i => setApplied s i.root true | none => s)
    | .tick => s
  else s

/-- exactly one entry with a fresh id is appended, earlier entries untouched -/
def AppendsOne (before after : List (Entry H)) : Prop :=
  ∃ e, after = before ++ [e] ∧ hasId before e.id = false

/-- What C10 demands of one command, given the abstract history `s` before it. -/
def Conforms (cfg : Cfg) (ops : Ops Tree Plan Backup H) (w : World Tree Plan Backup H) (s : Spec Tree H) (c : Cmd H) : Prop :=
  let r := step cfg ops w c
  match c with
  | .tick => r.1.tree = w.tree ∧ r.1.entries = w.entries
  | .rename _ _ =>
    (r.2 = .ok ∧ AppendsOne w.entries r.1.entries) ∨
    (r.2 ≠ .ok ∧ r.1.tree = w.tree ∧ r.1.entries = w.entries)
  | .undo t =>
    (r.2 = .ok ∧ AppendsOne w.entries r.1.entries ∧
      ∃ i o, resolve w.entries true t = some i ∧ find s i.root = some o ∧ o.applied = true ∧ r.1.tree = o.pre) ∨
    (r.2 ≠ .ok ∧ r.1.tree = w.tree ∧ r.1.entries = w.entries)
  | .redo t =>
    (r.2 = .ok ∧ AppendsOne w.entries r.1.entries ∧
      ∃ i o, resolve w.entries false t = some i ∧ find s i.root = some o ∧ o.applied = false ∧ r.1.tree = o.post) ∨
    (r.2 ≠ .ok ∧ r.1.tree = w.tree ∧ r.1.entries = w.entries)

def AllConform (cfg : Cfg) (ops : Ops Tree Plan Backup H) :
    World Tree Plan Backup H → Spec Tree H → List (Cmd H) → Prop
  | _, _, [] => True
  | w, s, c :: cs => Conforms cfg ops w s c ∧ AllConform cfg ops (step cfg ops w c).1 (specStep cfg ops s w c) cs

/-- The round-trip law of the tree side (C01's subject), assumed by the refinement theorem: undoing with the
    reverse patches an apply produced, on the tree it produced, gives back the tree it started from. -/
def RoundTrip (ops : Ops Tree Plan Backup H) : Prop :=
  ∀ t p t' b, ops.apply t p = .ok t' b → ops.revert t' p b = .ok t

def isPartly : ApplyRes Tree Backup → Bool
  | .partly _ => true
  | _ => false

variable [DecidableEq Tree]

/-- The guard of `refines_spec_partial`, evaluated command by command on the current world and abstract history:
    * `noPartial`    a rename's apply does not stop half-way through its files (C04's subject)
    * `undoInPlace`  an undo that passes the implementation's eligibility test finds the tree in the post-state of the
                     operation it addresses (no later operation has changed it since)
    * `redoInPlace`  a redo that passes finds the tree in the pre-state of the operation it addresses
    Nothing is assumed about ids (a rename or redo whose id is already present is refused before anything happens) nor
    about applied / undone (the implementation's eligibility tests are proved to imply the abstract ones).
    A command the implementation's own eligibility tests reject is always inside the guard. -/
def G10 (ops : Ops Tree Plan Backup H) (w : World Tree Plan Backup H) (s : Spec Tree H) : Cmd H → Bool
  | .tick => true
  | .rename se re =>
    let p := ops.scan w.tree se re
    ops.isEmpty p || hasId w.entries (.plan (ops.hash (se ++ re) w.clock)) || !isPartly (ops.apply w.tree p)
  | .undo t =>
    match resolve w.entries true t with
    | none => true
    | some i => !undoEligible w.entries i ||
        (match find s i.root with | some o => decide (w.tree = o.post) | none => false)
  | .redo t =>
    match resolve w.entries false t with
    | none => true
    | some i => !redoEligible w.entries i ||
        (match find s i.root with | some o => decide (w.tree = o.pre) | none => false)

/-- the guard holds at every step of the run -/
def Guarded (cfg : Cfg) (ops : Ops Tree Plan Backup H) :
    World Tree Plan Backup H → Spec Tree H → List (Cmd H) → Bool
  | _, _, [] => true
  | w, s, c :: cs => G10 ops w s c && Guarded cfg ops (step cfg ops w c).1 (specStep cfg ops s w c) cs

end
end HistorySpec
