import RModel.Base.Bytes
import RModel.Model.Fs
import RModel.Model.Apply
/-
  L3 (paths): the rename planner —
    `rename.rs::plan_renames_with_conflicts_and_params`, `determine_filename_replacement`,
    `plan_renames_with_search`, the per-root loop of `scanner.rs::scan_repository_multi`,
    `operations/rename.rs::separate_root_renames` + `filter_renames_by_root_policy`,
    and `coercion.rs::apply_coercion` as the planner uses it on file names
    (`detect_style`, `tokenize`, `render_tokens`, `replace_case_insensitive`, `extract_prefix`).

  State of the source modelled: /repo HEAD 0109402 (with 4d2e5a7 `dedup_renames`, 4ad17ef, ed3f0d7, 0109402); the two
  shape flags of `Tables` are generated from the source.

  Parameters (not modelled here, compared differentially):
   * the walker's entry list per root (`Entry` = path + what `entry.file_type()` says); scope is C09's subject.
     `entriesOf` is the instance used when nothing is ignored: every node at or below the root except what
     lies at or below a component called `.git` (the `filter_entry` of `configure_walker`);
   * the variant map as `List VEntry` **in `BTreeMap` order** (ascending by key); each entry carries, for a
     key that `ambiguity::is_ambiguous` flags, the rendering the ambiguity resolver picks;
   * the acronym test of `coercion::is_train_case` / `is_title_case` (`isAcr`), the extension table of
     `coercion::detect_style` and `WINDOWS_RESERVED` (both regenerated from the source into `Gen/RenameTables`).

  Paths are component lists relative to a base directory that contains the working directory
  (`cwd` is a parameter, so that a root or the working directory itself can carry the term).
  Character classes are ASCII: a byte ≥ 0x80 is neither upper nor lower nor alphanumeric here, whereas
  Rust's `char::is_lowercase` etc. know Unicode — names with the term and non-ASCII letters are outside the
  model.  The filesystem is case-sensitive (`detect_case_insensitive_fs` = false), so the
  `CaseInsensitive` conflict kind never arises.  Variant keys are non-empty.
-/
open B Fs Apply

namespace RenamePlan

-- string primitives --------------------------------------------------------------------------------------

/-- `str::contains` -/
def containsSub (s p : Bytes) : Bool := (find s p).isSome

/-- `str::replace(p, r)` for non-empty `p`: non-overlapping occurrences, left to right
    (`skip` = bytes of the current occurrence still to be dropped) -/
def replaceGo (p r : Bytes) : Bytes → Nat → Bytes
  | [], _ => []
  | _ :: cs, skip + 1 => replaceGo p r cs skip
  | c :: cs, 0 =>
    if p.isPrefixOf (c :: cs) then r ++ replaceGo p r cs (p.length - 1)
    else c :: replaceGo p r cs 0

def replaceAll (s p r : Bytes) : Bytes := if p.isEmpty then s else replaceGo p r s 0

/-- `coercion::replace_case_insensitive` (ASCII): occurrences are searched in the lower-cased text -/
def replaceCIGo (pl r : Bytes) : Bytes → Nat → Bytes
  | [], _ => []
  | _ :: cs, skip + 1 => replaceCIGo pl r cs skip
  | c :: cs, 0 =>
    if pl.isPrefixOf (lower (c :: cs)) then r ++ replaceCIGo pl r cs (pl.length - 1)
    else c :: replaceCIGo pl r cs 0

def replaceCI (s p r : Bytes) : Bytes := if p.isEmpty then s else replaceCIGo (lower p) r s 0

def rfindByte (s : Bytes) (d : UInt8) : Option Nat :=
  (s.zipIdx.foldl (fun acc x => if x.1 == d then some x.2 else acc) none)

-- coercion.rs ---------------------------------------------------------------------------------------------

inductive CStyle where
  | snake | kebab | camel | pascal | screamingSnake | title | train | screamingTrain | dot
  | lowerFlat | upperFlat | sentence | lowerSentence | upperSentence | mixed
  deriving DecidableEq, Repr

structure Tables where
  exts     : List Bytes
  extMax   : Nat
  reserved : List Bytes
  isAcr    : Bytes → Bool
  /-- shape of `determine_filename_replacement` (generated: `Gen.renameAllVariantsInName`): rewrite every occurrence of
      every variant in the name (true) or only the first key found in map order (false) -/
  allVariants : Bool := false
  /-- `scan_repository_multi` checks the merged list of all roots for shared destinations (generated:
      `Gen.crossRootConflictCheck`; true since 0109402) -/
  crossRootCheck : Bool := false

/-- the part of `s` whose style is detected: a known file extension is cut off -/
def styleBase (T : Tables) (s : Bytes) : Bytes :=
  match rfindByte s 46 with
  | none => s
  | some d =>
    if decide (0 < d) && decide (d < s.length - 1) then
      let ext := s.drop (d + 1)
      if decide (ext.length ≤ T.extMax) && ext.all isAlnum && T.exts.contains ext then s.take d else s
    else s

structure Scan where
  hy : Nat := 0
  us : Nat := 0
  dt : Nat := 0
  sp : Nat := 0
  hasU : Bool := false
  hasL : Bool := false
  trans : Nat := 0
  prevL : Bool := false
  prevU : Bool := false

def scanStep (a : Scan) (c : UInt8) : Scan :=
  if c.toNat = 45 then { a with hy := a.hy + 1 }
  else if c.toNat = 95 then { a with us := a.us + 1 }
  else if c.toNat = 46 then { a with dt := a.dt + 1 }
  else if c.toNat = 32 then { a with sp := a.sp + 1 }
  else if isUpper c then
    { a with hasU := true, trans := if a.prevL then a.trans + 1 else a.trans, prevU := true, prevL := false }
  else if isLower c then
    { a with hasL := true, trans := if a.prevU then a.trans + 1 else a.trans, prevL := true, prevU := false }
  else { a with prevL := false, prevU := false }

/-- `coercion::is_train_case` -/
def isTrainCase (T : Tables) (s : Bytes) : Bool :=
  let parts := splitOn s 45
  decide (2 ≤ parts.length) && parts.all (fun part =>
    match part with
    | [] => false
    | c :: rest =>
      isUpper c && (rest.isEmpty || (rest.all isUpper && T.isAcr part) || rest.all isLower))

/-- `str::trim_matches(|c| !c.is_alphanumeric())` -/
def trimNonAlnum (w : Bytes) : Bytes :=
  ((w.dropWhile (fun c => !isAlnum c)).reverse.dropWhile (fun c => !isAlnum c)).reverse

/-- `coercion::is_title_case` -/
def isTitleCase (T : Tables) (s : Bytes) : Bool :=
  let words := ((splitOn s 32).filter (fun w => !w.isEmpty)).map trimNonAlnum |>.filter (fun w => !w.isEmpty)
  !words.isEmpty && words.all (fun w =>
    match w with
    | [] => true
    | c :: rest => isUpper c && (rest.isEmpty || (rest.all isUpper && T.isAcr w) || rest.all isLower))

/-- `coercion::is_sentence_case` -/
def isSentenceCase (s : Bytes) : Bool :=
  match (splitOn s 32).filter (fun w => !w.isEmpty) with
  | [] => false
  | w :: ws =>
    (match w with
     | [] => false
     | c :: rest => isUpper c && rest.all isLower) && ws.all (fun x => x.all isLower)

/-- `coercion::detect_style` -/
def detectStyle (T : Tables) (s : Bytes) : CStyle :=
  let base := styleBase T s
  let a := base.foldl scanStep {}
  if decide (a.hy > 0) && a.us == 0 && a.dt == 0 && a.sp == 0 then
    if a.hasU && !a.hasL then .screamingTrain
    else if isTrainCase T base then .train
    else if a.hasU && a.hasL && decide (a.trans > 0) then
      if (splitOn base 45).all (fun part => !part.isEmpty && part.all (fun c => !isAlpha c || isLower c))
      then .kebab else .mixed
    else .kebab
  else if decide (a.us > 0) && a.hy == 0 && a.dt == 0 && a.sp == 0 then
    if a.hasU && !a.hasL then .screamingSnake else .snake
  else if decide (a.dt > 0) && a.hy == 0 && a.us == 0 && a.sp == 0 then .dot
  else if decide (a.sp > 0) && a.hy == 0 && a.us == 0 && a.dt == 0 then
    if a.hasU && !a.hasL then .upperSentence
    else if !a.hasU && a.hasL then .lowerSentence
    else if isTitleCase T base then .title
    else if isSentenceCase base then .sentence
    else .mixed
  else if a.hy == 0 && a.us == 0 && a.dt == 0 && a.sp == 0 then
    if decide (a.trans > 0) then
      (match base.head? with
       | some c => if isUpper c then .pascal else .camel
       | none => .camel)
    else if a.hasU && !a.hasL then .upperFlat
    else if !a.hasU && a.hasL then .lowerFlat
    else .mixed
  else .mixed

structure TokSt where
  toks : List Bytes := []
  cur  : Bytes := []
  prevL : Bool := false
  prevU : Bool := false
  consU : Nat := 0

def tokFlush (st : TokSt) : List Bytes := if st.cur.isEmpty then st.toks else st.toks ++ [lower st.cur]

def tokStep (st : TokSt) (c : UInt8) : TokSt :=
  if isDelim c then { toks := tokFlush st, cur := [], prevL := false, prevU := false, consU := 0 }
  else if isUpper c then
    let st1 : TokSt := if st.prevL then { st with toks := tokFlush st, cur := [] } else st
    { st1 with cur := st1.cur ++ [c], consU := st.consU + 1, prevU := true, prevL := false }
  else if isLower c then
    let st1 : TokSt :=
      if st.prevU && decide (st.consU > 1) then
        let body := st.cur.dropLast
        { st with toks := (if body.isEmpty then st.toks else st.toks ++ [lower body]),
                  cur := (match st.cur.getLast? with | some l => [l] | none => []) }
      else st
    { st1 with cur := st1.cur ++ [c], consU := 0, prevL := true, prevU := false }
  else if isDigit c then { st with cur := st.cur ++ [c], consU := 0, prevL := false, prevU := false }
  else { toks := tokFlush st, cur := [], prevL := false, prevU := false, consU := 0 }

/-- `coercion::tokenize` (the words, lower-cased) -/
def tokenize (s : Bytes) : List Bytes := tokFlush (s.foldl tokStep {})

/-- `coercion::capitalize` on a lower-cased ASCII word -/
def capitalize : Bytes → Bytes
  | [] => []
  | c :: cs => toUpper c :: cs

/-- `coercion::render_tokens` -/
def renderTokens (ts : List Bytes) : CStyle → Bytes
  | .snake => joinWith [95] ts
  | .kebab => joinWith [45] ts
  | .camel => (match ts with | [] => [] | t :: rest => t ++ concat (rest.map capitalize))
  | .pascal => concat (ts.map capitalize)
  | .screamingSnake => joinWith [95] (ts.map upper)
  | .title => joinWith [32] (ts.map capitalize)
  | .train => joinWith [45] (ts.map capitalize)
  | .screamingTrain => joinWith [45] (ts.map upper)
  | .dot => joinWith [46] ts
  | .lowerFlat => concat ts
  | .upperFlat => concat (ts.map upper)
  | .sentence => (match ts with | [] => [] | t :: rest => joinWith [32] (capitalize t :: rest))
  | .lowerSentence => joinWith [32] ts
  | .upperSentence => joinWith [32] (ts.map upper)
  | .mixed => joinWith [95] ts

/-- `coercion::extract_prefix` -/
def extractPrefix (s : Bytes) : Bytes × Bytes :=
  match s with
  | 95 :: 95 :: rest => ([95, 95], rest)
  | 95 :: rest => ([95], rest)
  | _ => ([], s)

def isFlat : CStyle → Bool
  | .lowerFlat | .upperFlat => true
  | _ => false

/-- `coercion::apply_coercion(container, old, new)` — the coerced container, or `none` -/
def applyCoercion (T : Tables) (container old new : Bytes) : Option Bytes :=
  let (pfx, body) := extractPrefix container
  let bodyL := lower body
  let oldL := lower old
  if bodyL == oldL then none
  else if !containsSub bodyL oldL then none
  else
    let cst := detectStyle T body
    let pst := detectStyle T old
    let pos := (find bodyL oldL).getD 0
    let partial_ :=
      cst == .mixed && contains body 45 && !contains body 95 && !contains body 46 &&
      (let e := pos + oldL.length
       decide (e < body.length) && (body.drop e).head? == some 45)
    if partial_ then
      let part := (body.drop pos).take old.length
      let ps := detectStyle T part
      if ps == .mixed || ps == .dot then none
      else some (pfx ++ replaceCI body old (renderTokens (tokenize new) ps))
    else if cst == .mixed || cst == .dot then none
    else
      let rst := detectStyle T new
      let target :=
        if isFlat cst && !(isFlat rst || rst == .mixed || rst == .dot) then rst
        else if pst == .pascal && (cst == .camel || cst == .pascal) then .pascal
        else cst
      some (pfx ++ replaceCI body old (renderTokens (tokenize new) target))

-- rename.rs -------------------------------------------------------------------------------------------------

/-- what `entry.file_type()` reports (the walker does not follow links) -/
inductive EKind where | file | dir | symlink
  deriving DecidableEq, Repr

abbrev Entry := Path × EKind

/-- one row of the variant map; `amb = some r` when the key is an ambiguous identifier and the
    resolver renders the replacement as `r` -/
structure VEntry where
  key : Bytes
  val : Bytes
  amb : Option Bytes := none
  deriving DecidableEq, Repr

structure Opts where
  renameFiles : Bool := true
  renameDirs  : Bool := true
  renameRoot  : Bool := false     -- `PlanOptions.rename_root` (always false from the CLI)
  coerce      : Bool := true      -- `coerce_separators == Auto`
  withSearch  : Bool := true      -- search and replace both non-empty: the `determine_filename_replacement` branch
  cwd         : Path := []

/-- first key (in map order) contained in the name -/
def firstKey (vmap : List VEntry) (name : Bytes) : Option VEntry :=
  vmap.find? (fun v => containsSub name v.key)

/-- the text that replaces an occurrence of a key in `determine_filename_replacement`: the mapped variant, or for
    an ambiguous key the rendering the resolver picks -/
def replOf (v : VEntry) : Bytes := v.amb.getD v.val

/-- the first variant (map order) that starts at the head of `s` -/
def startsHere (vmap : List VEntry) (s : Bytes) : Option VEntry :=
  vmap.find? (fun v => !v.key.isEmpty && v.key.isPrefixOf s)

/-- the scan of the patched `determine_filename_replacement`: left to right, at each position the first variant in
    map order that starts there is replaced (`skip` = bytes of the current occurrence still to be dropped) -/
def rewriteGo (vmap : List VEntry) : Bytes → Nat → Bytes
  | [], _ => []
  | _ :: cs, skip + 1 => rewriteGo vmap cs skip
  | c :: cs, 0 =>
    match startsHere vmap (c :: cs) with
    | some v => replOf v ++ rewriteGo vmap cs (v.key.length - 1)
    | none => c :: rewriteGo vmap cs 0

def rewriteAll (vmap : List VEntry) (name : Bytes) : Bytes := rewriteGo vmap name 0

/-- the name before coercion.  With search/replace: all variants rewritten (`T.allVariants`) or every occurrence of
    the first key found in map order; without (the compatibility API): the first key, plain value -/
def plainName (T : Tables) (o : Opts) (vmap : List VEntry) (v : VEntry) (name : Bytes) : Bytes :=
  if o.withSearch then
    (if T.allVariants then rewriteAll vmap name else replaceAll name v.key (replOf v))
  else replaceAll name v.key v.val

/-- the candidate new name once the first key `v` is known: `plainName`, overridden by coercion (on the first key)
    when coercion applies -/
def candidate (T : Tables) (o : Opts) (vmap : List VEntry) (v : VEntry) (name : Bytes) : Bytes :=
  let plain := plainName T o vmap v name
  if o.coerce then (applyCoercion T name v.key v.val).getD plain else plain

/-- new name for a file name, `none` = no rename is collected -/
def newNameFor (T : Tables) (o : Opts) (vmap : List VEntry) (name : Bytes) : Option Bytes :=
  match firstKey vmap name with
  | none => none
  | some v =>
    let n := candidate T o vmap v name
    if o.withSearch && n == name then none else some n

def kindOf : EKind → Kind
  | .dir => .dir
  | _ => .file

/-- `PathBuf::with_file_name` -/
def withFileName (p : Path) (n : Bytes) : Path := p.dropLast ++ splitPath n

def planEntry (T : Tables) (o : Opts) (vmap : List VEntry) (e : Entry) : Option Ren :=
  if e.2 == .dir && !o.renameDirs then none
  else if e.2 != .dir && !o.renameFiles then none      -- since 4ad17ef: a symlink counts as a file here
  else match e.1.getLast? with
    | none => none
    | some name =>
      match newNameFor T o vmap name with
      | none => none
      | some n => some { path := e.1, newPath := withFileName e.1 n, kind := kindOf e.2 }

def collect (T : Tables) (o : Opts) (vmap : List VEntry) (es : List Entry) : List Ren :=
  es.filterMap (planEntry T o vmap)

/-- the planner's order: directories deepest first, then files by path (stable) -/
def sortPlan (rs : List Ren) : List Ren :=
  sortBy (fun a b => decide (depth b.path ≤ depth a.path)) (rs.filter (fun r => r.kind == .dir)) ++
  sortBy (fun a b => !pathLt b.path a.path) (rs.filter (fun r => r.kind == .file))

/-- `is_windows_reserved` -/
def isReserved (T : Tables) (name : Bytes) : Bool :=
  T.reserved.contains (upper ((splitOn name 46).headD []))

inductive CKind where | multipleToOne | windowsReserved
  deriving DecidableEq, Repr

structure Conflict where
  kind    : CKind
  target  : Path
  sources : List Path
  deriving DecidableEq, Repr

def reservedRen (T : Tables) (r : Ren) : Bool :=
  match r.newPath.getLast? with
  | some n => isReserved T n
  | none => false

def dedup (ps : List Path) : List Path := ps.foldl (fun acc p => if acc.contains p then acc else acc ++ [p]) []

def conflictsOf (T : Tables) (rs : List Ren) : List Conflict :=
  let res := (rs.filter (reservedRen T)).map (fun r => { kind := .windowsReserved, target := r.newPath, sources := [r.path] })
  let tracked := rs.filter (fun r => !reservedRen T r)
  let targets := dedup (tracked.map (·.newPath))
  let multi := targets.filterMap (fun t =>
    let srcs := (tracked.filter (fun r => r.newPath == t)).map (·.path)
    if decide (srcs.length > 1) then some { kind := .multipleToOne, target := t, sources := srcs } else none)
  res ++ multi

structure RPlan where
  renames   : List Ren
  conflicts : List Conflict

/-- `plan_renames_with_conflicts_and_params` for one root (entries = what the walker yields) -/
def planRoot (T : Tables) (o : Opts) (vmap : List VEntry) (es : List Entry) : RPlan :=
  let c0 := collect T o vmap es
  let c1 := if o.renameRoot then c0 else c0.filter (fun r => !(r.path == o.cwd))
  let c2 := sortPlan c1
  let cs := conflictsOf T c2
  { renames := c2.filter (fun r => !(cs.any (fun c => c.target == r.newPath))), conflicts := cs }

/-- `plan_renames_with_search`: any conflict refuses the plan (`Err`, carrying the number of conflicts) -/
def planWithSearch (T : Tables) (o : Opts) (vmap : List VEntry) (es : List Entry) : Except Nat (List Ren) :=
  let p := planRoot T o vmap es
  if p.conflicts.isEmpty then .ok p.renames else .error p.conflicts.length

/-- the per-root loop of `scan_repository_multi`: the per-root plans appended; the first refusal aborts the scan
    (this was the whole of `paths` before 4d2e5a7) -/
def planLoop (T : Tables) (o : Opts) (vmap : List VEntry) : List (List Entry) → Except Nat (List Ren)
  | [] => .ok []
  | es :: rest =>
    if !(o.renameFiles || o.renameDirs) then .ok []
    else match planWithSearch T o vmap es with
      | .error n => .error n
      | .ok rs =>
        match planLoop T o vmap rest with
        | .error n => .error n
        | .ok rs' => .ok (rs ++ rs')

/-- `scanner.rs::dedup_renames`: keep the first planned rename of every node.  The key is the canonicalised
    parent directory joined with the entry's own name; the walker never descends through a symlink, so for the
    paths of the model (no symlinked directory inside a path) the key is the path itself. -/
def dedupRens : List Ren → List Ren
  | [] => []
  | r :: rs => r :: (dedupRens rs).filter (fun x => !(x.path == r.path))

/-- two planned renames with different sources share a (non-empty) destination -/
def sharedDest (rs : List Ren) : Bool :=
  rs.any (fun r => !r.newPath.isEmpty && rs.any (fun r' => r'.newPath == r.newPath && !(r'.path == r.path)))

/-- the `paths` of `scan_repository_multi`: the loop, then `dedup_renames`, then (since 0109402,
    `T.crossRootCheck`) the merged list is checked once more: every root was checked on its own, renames found under
    different roots can still share a destination — that refuses the scan with one conflict -/
def planMulti (T : Tables) (o : Opts) (vmap : List VEntry) (ess : List (List Entry)) : Except Nat (List Ren) :=
  match planLoop T o vmap ess with
  | .error n => .error n
  | .ok rs =>
    let d := dedupRens rs
    if T.crossRootCheck && sharedDest d then .error 1 else .ok d

/-- `separate_root_renames` + `filter_renames_by_root_policy`, parametric in how a path is located (`loc`):
    a rename whose source is located at one of the search roots is dropped unless `--rename-root` -/
def filterRootsBy (loc : Path → Path) (roots : List Path) (cliRenameRoot : Bool) (rs : List Ren) : List Ren :=
  let isRoot (r : Ren) : Bool := roots.any (fun root => loc r.path == loc root)
  if cliRenameRoot then rs.filter isRoot ++ rs.filter (fun r => !isRoot r)
  else rs.filter (fun r => !isRoot r)

/-- since ed3f0d7 the source is located by `location_of` = canonical parent directory + the entry's own name
    (a final symlink is not followed); the walker never descends through a symlink and the CLI hands over
    canonical roots, so in the model every path is its own location -/
abbrev filterRoots (roots : List Path) (cliRenameRoot : Bool) (rs : List Ren) : List Ren :=
  filterRootsBy (fun p => p) roots cliRenameRoot rs

-- before ed3f0d7 (kept for the before/after theorem of Props/C08): the source was located with
-- `Path::canonicalize`, which follows a final symlink

/-- a symlink whose target resolves (lexically: `.`/`..`/names, relative to the link's directory) to an existing
    node is replaced by that node (followed again if it is a link, up to `fuel` times); anything else, and any
    failure, is the path itself.  Absolute targets are outside the model. -/
def resolveRel : Path → List Bytes → Path
  | cur, [] => cur
  | cur, c :: cs =>
    if c.isEmpty || c == [46] then resolveRel cur cs
    else if c == [46, 46] then resolveRel cur.dropLast cs
    else resolveRel (cur ++ [c]) cs

def canon (t : Tree) : Nat → Path → Path
  | 0, p => p
  | fuel + 1, p =>
    match lookup t p with
    | some (.link tgt) =>
      if tgt.head? == some 47 then p
      else
        let q := resolveRel p.dropLast (splitOn tgt 47)
        if q.isEmpty || (lookup t q).isSome then canon t fuel q else p
    | _ => p

-- the walker when nothing is ignored ---------------------------------------------------------------------------

def ekindOf : Node → EKind
  | .file _ _ => .file
  | .dir _ => .dir
  | .link _ => .symlink

/-- entries of one root: the root itself (when it is a node) and every node below it, except at or
    below a component `.git` beneath the root -/
def entriesOf (t : Tree) (root : Path) : List Entry :=
  (t.filter (fun e => pre root e.1 && !((e.1.drop root.length).contains [46, 103, 105, 116]))).map
    (fun e => (e.1, ekindOf e.2))

/-- `renamify rename <search> <replace> <roots…>` up to the plan's `paths`, for any walker (`walk root` = the
    entries the walk of that root yields): scan every root with its own walk, refuse on conflicts, drop the roots
    themselves -/
def planRenamesWith (T : Tables) (o : Opts) (vmap : List VEntry) (walk : Path → List Entry) (roots : List Path)
    (cliRenameRoot : Bool := false) : Except Nat (List Ren) :=
  match planMulti T o vmap (roots.map walk) with
  | .error n => .error n
  | .ok rs => .ok (filterRoots roots cliRenameRoot rs)

/-- … with the walker that ignores nothing -/
def planRenames (T : Tables) (o : Opts) (vmap : List VEntry) (t : Tree) (roots : List Path)
    (cliRenameRoot : Bool := false) : Except Nat (List Ren) :=
  planRenamesWith T o vmap (entriesOf t) roots cliRenameRoot

end RenamePlan
