import RModel.Gen.DryRunGates
/-
  L3/L5 for planning and previewing (C14).

  Part A — `scanner.rs::scan_repository_multi` as far as ordering goes:
      outcomes = file_entries.par_iter().map(scan one file).collect()      (order of `file_entries`)
      matches  = concat outcomes, then `sort_by` (file, line, byte_offset)
      stats    = counts / sums over the outcomes; `matches_by_variant` is a HashMap (compared as a map)
    The per-file scanner is a parameter; so is the order on files (`PathBuf::cmp`).

  Part B — what plan / search / `--dry-run` commands write, as effect programs over an abstract set of paths.
    Which steps a dry run skips is read from the generated gate table (`Gen.DryRunGates.gates`), so the program
    follows the source: lock acquisition, probe directory of `detect_case_insensitive_fs`, plan file, auto-init.
-/

namespace Scan

-- Part A ------------------------------------------------------------------------------------------

structure Hunk (F : Type) where
  file       : F
  line       : Nat
  byteOffset : Nat
  variant    : Nat      -- index of the matched variant
  payload    : Nat      -- everything else (content, replacement, columns …)
  deriving DecidableEq, Repr

/-- stable insertion sort (Rust's `sort_by` is a stable merge sort; on distinct keys all sorts agree) -/
def insertBy {α : Type} (le : α → α → Bool) (x : α) : List α → List α
  | [] => [x]
  | y :: ys => if le x y then x :: y :: ys else y :: insertBy le x ys

def sortBy {α : Type} (le : α → α → Bool) : List α → List α
  | [] => []
  | x :: xs => insertBy le x (sortBy le xs)

/-- `a.file.cmp(&b.file).then(a.line.cmp(&b.line)).then(a.byte_offset.cmp(&b.byte_offset))` is not `Greater`;
    `fle` is `PathBuf`'s `<=` -/
def hunkLe {F : Type} [DecidableEq F] (fle : F → F → Bool) (a b : Hunk F) : Bool :=
  if a.file = b.file then
    (if a.line = b.line then decide (a.byteOffset ≤ b.byteOffset) else decide (a.line < b.line))
  else fle a.file b.file

def allHunks {F : Type} (scanFile : F → List (Hunk F)) (files : List F) : List (Hunk F) := files.flatMap scanFile

/-- the `matches` of the plan -/
def scanRepository {F : Type} [DecidableEq F] (fle : F → F → Bool) (scanFile : F → List (Hunk F)) (files : List F) :
    List (Hunk F) :=
  sortBy (hunkLe fle) (allHunks scanFile files)

structure Stats where
  filesScanned     : Nat
  totalMatches     : Nat
  filesWithMatches : Nat
  deriving DecidableEq, Repr

/-- `scanned` says whether the file could be read (binary files and read errors are not scanned) -/
def stats {F : Type} (scanned : F → Bool) (scanFile : F → List (Hunk F)) (files : List F) : Stats :=
  { filesScanned := files.countP scanned,
    totalMatches := (files.map (fun f => (scanFile f).length)).sum,
    filesWithMatches := files.countP (fun f => !(scanFile f).isEmpty) }

/-- one entry of the `matches_by_variant` map -/
def matchesByVariant {F : Type} (scanFile : F → List (Hunk F)) (files : List F) (v : Nat) : Nat :=
  (files.map (fun f => (scanFile f).countP (fun h => h.variant == v))).sum

/-- the contract of `PathBuf`'s `Ord` -/
structure FileOrder {F : Type} (fle : F → F → Bool) : Prop where
  total : ∀ a b, fle a b = true ∨ fle b a = true
  trans : ∀ a b c, fle a b = true → fle b c = true → fle a c = true
  antisymm : ∀ a b, fle a b = true → fle b a = true → a = b

/-- (file, line, byte_offset) identifies a hunk of the list -/
def KeyInjective {F : Type} (hs : List (Hunk F)) : Prop :=
  ∀ a ∈ hs, ∀ b ∈ hs, a.file = b.file → a.line = b.line → a.byteOffset = b.byteOffset → a = b

-- the rename list (`plan.paths`) ---------------------------------------------------------------------

/-- a planned rename as far as ordering goes: `path` stands for the PathBuf (any injective numbering that respects
    `PathBuf::cmp`) -/
structure RenameItem where
  isDir : Bool
  depth : Nat
  path  : Nat
  deriving DecidableEq, Repr

/-- rename.rs's comparator is not `Greater`: directories before files; directories deepest first — directories of
    EQUAL depth tie; files by path -/
def renLe (a b : RenameItem) : Bool :=
  match a.isDir, b.isDir with
  | true, false => true
  | false, true => false
  | true, true => decide (b.depth ≤ a.depth)
  | false, false => decide (a.path ≤ b.path)

/-- `renames.retain(|r| seen.insert(key(r)))`: the first occurrence of every key stays, in place -/
def dedupAux {α κ : Type} [DecidableEq κ] (key : α → κ) : List κ → List α → List α
  | _, [] => []
  | seen, x :: xs => if key x ∈ seen then dedupAux key seen xs else x :: dedupAux key (key x :: seen) xs

/-- `plan.paths`: per root the walk-ordered candidates, stably sorted; the per-root lists appended in root order;
    every node kept once -/
def planRenames (perRootWalk : List (List RenameItem)) : List RenameItem :=
  dedupAux (fun r => r.path) [] ((perRootWalk.map (sortBy renLe)).flatten)

-- Part B ------------------------------------------------------------------------------------------

/-- the paths these commands can touch; `user n` stands for any path of the user's tree -/
inductive P where
  | renamifyDir    -- .renamify
  | lock           -- .renamify/renamify.lock
  | lockTmp        -- .renamify/renamify.lock.<pid>.tmp (written, linked to the lock path, removed)
  | planFile       -- .renamify/plan.json (or --plan-out)
  | probeDir       -- .tmpXXXXXX created by TempDir::new_in(root)
  | probeFile      -- .tmpXXXXXX/test_case_a
  | ignoreTmp      -- .gitignore.tmp
  | ignoreFile     -- .gitignore
  | user (n : Nat)
  deriving DecidableEq, Repr

inductive FsOp where
  | mkdir (p : P) | openw (p : P) | write (p : P) | unlink (p : P) | rmdir (p : P) | rename (a b : P)
  | link (a b : P)     -- link(2): `b` becomes a second name of `a`; fails (no effect) if `b` exists
  deriving DecidableEq, Repr

inductive Node where
  | dir | file (version : Nat)
  deriving DecidableEq, Repr

/-- a tree as a function; `none` = absent -/
abbrev T := P → Option Node

def upd (t : T) (p : P) (v : Option Node) : T := fun q => if q = p then v else t q

def applyOp (t : T) : FsOp → T
  | .mkdir p => if t p = none then upd t p (some .dir) else t
  | .openw p => upd t p (some (.file 0))
  | .write p => match t p with
    | some (.file n) => upd t p (some (.file (n + 1)))
    | _ => t
  | .unlink p => upd t p none
  | .rmdir p => upd t p none
  | .rename a b => upd (upd t b (t a)) a none
  | .link a b => if t b = none then upd t b (t a) else t

def exec (t : T) (prog : List FsOp) : T := prog.foldl applyOp t

def written : FsOp → List P
  | .mkdir p => [p] | .openw p => [p] | .write p => [p] | .unlink p => [p] | .rmdir p => [p]
  | .rename a b => [a, b]
  | .link _ b => [b]

inductive Cmd where | plan | search | rename | replace
  deriving DecidableEq, Repr

structure Cfg where
  cmd : Cmd
  dryRun : Bool
  /-- `.renamify/` exists already -/
  renamifyExists : Bool
  /-- this run performs the one-time ignore-file addition (auto-init found nothing ignored yet and was told to) -/
  autoInit : Bool
  /-- rename planning is on (`rename_files || rename_dirs`): the case-sensitivity probe runs -/
  probe : Bool
  deriving DecidableEq, Repr

open Gen.DryRunGates in
def opOf : Cmd → Op
  | .plan => .plan | .search => .plan | .rename => .rename | .replace => .replace

/-- `search` is `plan` with the literal `true` for dry_run -/
def effDry (cmd : Cmd) (dry : Bool) : Bool :=
  match cmd with
  | .search => Gen.DryRunGates.searchPassesDryRunTrue || dry
  | _ => dry

/-- does a statement of this kind run under gate table `gs`? (it exists in the operation and the dry-run gate does
    not skip it) -/
def runsKG (gs : List Gen.DryRunGates.Gate) (cmd : Cmd) (dry : Bool) (k : Gen.DryRunGates.Kind) : Bool :=
  gs.any (fun g => g.op == opOf cmd && g.kind == k && !(g.skippedByDryRun && effDry cmd dry))

/-- … under the generated table -/
def runsK (cmd : Cmd) (dry : Bool) (k : Gen.DryRunGates.Kind) : Bool := runsKG Gen.DryRunGates.gates cmd dry k

/-- how `LockFile::acquire` makes the lock file appear (generated: `Gen.DryRunGates.lockPublish`) -/
def lockSteps : Gen.DryRunGates.LockPublish → List FsOp
  | .tmpLink => [.openw .lockTmp, .write .lockTmp, .link .lockTmp .lock, .unlink .lockTmp]
  | .createNew => [.openw .lock, .write .lock]

def programGP (gs : List Gen.DryRunGates.Gate) (pub : Gen.DryRunGates.LockPublish) (c : Cfg) : List FsOp :=
  (if c.autoInit then [.openw .ignoreTmp, .write .ignoreTmp, .rename .ignoreTmp .ignoreFile] else []) ++
  (if runsKG gs c.cmd c.dryRun .lock then
     (if c.renamifyExists then [] else [.mkdir .renamifyDir]) ++ lockSteps pub else []) ++
  (if c.probe && c.cmd != .replace then
     [.mkdir .probeDir, .openw .probeFile, .write .probeFile, .unlink .probeFile, .rmdir .probeDir] else []) ++
  (if runsKG gs c.cmd c.dryRun .planWrite then [.openw .planFile, .write .planFile] else []) ++
  (if runsKG gs c.cmd c.dryRun .lock then [.unlink .lock] else [])

/-- … with the lock published the way the source does it today -/
def programG (gs : List Gen.DryRunGates.Gate) (c : Cfg) : List FsOp := programGP gs Gen.DryRunGates.lockPublish c

/-- the program of a command, following the gate table generated from the source -/
def program (c : Cfg) : List FsOp := programG Gen.DryRunGates.gates c

/-- the rename gates as they were before commit 055e350 (lock taken before the dry-run gate) -/
def oldRenameGates : List Gen.DryRunGates.Gate :=
  [ { op := .rename, kind := .lock, skippedByDryRun := false, line := 0 },
    { op := .rename, kind := .apply, skippedByDryRun := true, line := 0 } ]

/-- the writes the property permits: the plan file (with its directory, the transient lock and the lock's temp file) when it is not a
    dry run; the transient probe directory; the ignore file when auto-init adds its line -/
def permitted (c : Cfg) : List P :=
  [.probeDir, .probeFile] ++
  (if c.autoInit then [.ignoreTmp, .ignoreFile] else []) ++
  (if c.cmd == .plan && !c.dryRun then [.renamifyDir, .lock, .lockTmp, .planFile] else [])

end Scan
