/-
  Model of the workspace lock (`renamify-core/src/lock.rs`) as a transition system:
  N processes, one lock-file path, an inode table, a seconds clock and process liveness.
  One transition = one system call of one process, in the order the Rust code issues them:

    acquire:  exists → File::open → read_to_string → [clock + kill(pid,0): the decision]
              → (stale | orphaned ⇒ remove_file) → [clock: timestamp] create_dir_all
              → OpenOptions.write.create_new.open (O_CREAT|O_EXCL, file is created EMPTY) → write_all "pid:ts"
    command:  one abstract `work` step (the critical section)
    drop:     exists → remove_file, unconditionally and ignoring errors.
    prompt:   SIGINT while the confirmation prompt waits (the process is inside its command): the handler calls
              `release_held_locks()` = remove_file of every held lock path (no exists, errors ignored), then
              `process::exit(130)` — event `promptInt`.
              (`release()`, which checks the content, has no caller outside `lock.rs`'s own tests.)
    exit:     a finished / failed / panicked process leaves; its pid is dead from then on.

  The file is modelled with inode identity: `cell` is the directory entry (which inode, if any, is linked
  at `.renamify/renamify.lock`), `files` the inode contents.  A reader that opened an inode reads that
  inode even if it was unlinked meanwhile, and a writer writes to the inode it created even if another
  process removed the name.  Inode 0 is the file present initially, inode `p+1` the file process `p` creates.

  Everything is a total computable function; no imports.
-/
namespace Lock

/-- What `content.trim().split(':')` and the two `parse().unwrap_or(0)` make of a lock file. -/
inductive Content
  | empty                       -- "" (or only white space): `split` yields one part
  | garbage                     -- any other text without exactly one ':'  (1 or ≥ 3 parts)
  | pidts (pid : Nat) (ts : Nat) -- exactly two parts; a part that does not parse counts as 0
  | invalid                     -- not UTF-8: `read_to_string` fails
  deriving DecidableEq, Repr, Inhabited

/-- why a process is about to remove the lock file it has read -/
inductive Why
  | stale | orphaned | empty | unparsable
  deriving DecidableEq, Repr, Inhabited

/-- which lock files without a "pid:timestamp" does `acquire` remove as abandoned? -/
inductive Abandon
  | none          -- none: they fall through to `create_new` and fail with EEXIST (the pinned tree, HEAD)
  | empty         -- only an empty one (repo commit 9509d2d, taken back by 1eba07a)
  | unparsable    -- every one that does not split into two parts (proposed fix c12_publish_lock_by_link)
  deriving DecidableEq, Repr, Inhabited

inductive Err
  | readFailed                  -- "Failed to read lock file": ENOENT at `File::open`
  | readInvalid                 -- "Failed to read lock file content": the bytes are not UTF-8
  | removeFailed (why : Why)    -- "Failed to remove stale|orphaned|empty|unparsable lock file": ENOENT
  | alreadyRunning (pid : Nat)  -- "Another renamify process is already running (PID: ..)"
  | createExists                -- "Failed to create lock file": EEXIST at `create_new`
  deriving DecidableEq, Repr, Inhabited

/-- program counter = the NEXT call the process will make -/
inductive Pc
  | start                       -- next: `lock_path.exists()` (guarded shape: `flock(LOCK_EX)` on `.renamify`)
  | locked                      -- guarded shape only: the guard is held; next: `lock_path.exists()`
  | sawPresent                  -- next: `File::open`
  | opened (ino : Nat)          -- next: `read_to_string`
  | readDone (c : Content)      -- next: the decision (SystemTime::now, kill(pid, 0)); no filesystem call
  | unlinkPending (why : Why)   -- next: `fs::remove_file` (stale / orphaned / empty branch)
  | mkdir (ts : Nat)            -- next: `create_dir_all`; `ts` = timestamp already taken
  | create (ts : Nat)           -- next: `open(O_CREAT|O_EXCL)`
  | created (ts : Nat)          -- next: `write_all "pid:ts"`
  | holding                     -- acquire returned Ok; next: the command's work (critical section)
  | dropCheck                   -- next: `self.path.exists()` in `Drop`
  | dropUnlink                  -- next: `fs::remove_file` in `Drop`
  | done                        -- command returned, lock dropped
  | failed (e : Err)            -- acquire returned Err
  | panicked                    -- `current_time - timestamp` overflowed (debug build)
  deriving DecidableEq, Repr, Inhabited

def staleTimeout : Nat := 300

/-- identifiers of the calls in `acquire`, in source order (compared with the generated fingerprint) -/
inductive FsCall
  | exists | fileOpen | readToString | removeFile | createDirAll | openOptionsNew
  | optWrite | optCreateNew | optCreate | optTruncate | optAppend | optOpen | writeAll
  | fsWrite | hardLink
  deriving DecidableEq, Repr

/-- the call sequence of `acquire` for the shapes of the source that the model knows:
    `abandon` = which unparsable lock files are removed, `byLink` = the lock file is published complete
    (`fs::write` of a private temporary file, `fs::hard_link` to the lock path, `remove_file` of the temporary
    file) instead of `create_new` + `write_all` (+ `remove_file` when that write fails), `guarded` = the directory
    is created first (it is what gets flock'ed) instead of just before the publish -/
def expectedAcquireShape (abandon : Abandon) (byLink guarded : Bool) : List FsCall :=
  (if guarded then [.createDirAll] else [])
  ++ [.exists, .fileOpen, .readToString, .removeFile, .removeFile]
  ++ (match abandon with | .none => [] | _ => [.removeFile])
  ++ (if guarded then [] else [.createDirAll])
  ++ (if byLink then [.fsWrite, .hardLink, .removeFile]
      else [.openOptionsNew, .optWrite, .optCreateNew, .optOpen, .writeAll, .removeFile])

def expectedDropShape (checksContent : Bool) : List FsCall :=
  if checksContent then [.removeFile] else [.exists, .removeFile]
def expectedReleaseHeldShape : List FsCall := [.removeFile]

def pidOf (p : Nat) : Nat := p + 2      -- pid 0 = "did not parse", pid 1 = the conventional orphan
def inoOf (p : Nat) : Nat := p + 1      -- inode 0 = the file present initially
def orphanPid : Nat := 1

structure State where
  n : Nat                       -- number of scheduled processes (ids 0 … n-1)
  cell : Option Nat             -- directory entry: inode linked at renamify.lock
  files : Nat → Content         -- inode contents
  now : Nat                     -- wall clock, seconds
  alive : Nat → Bool            -- liveness of pids (what kill(pid, 0) == 0 reports)
  pc : Nat → Pc
  debug : Bool                  -- overflow checks on (debug build) or wrapping (release build)
  exits : Bool                  -- whether terminated processes leave (their pid becomes dead)
  abandon : Abandon             -- which unparsable lock files acquire removes as abandoned
  atomicPublish : Bool          -- the lock file appears at its path complete (hard_link of a temporary file)
  saturating : Bool             -- the age is `current_time.saturating_sub(timestamp)` (no panic, no wrap)
  dropChecks : Bool             -- Drop / release_held_locks remove the file only if its content is still ours
  staleNeedsDead : Bool         -- a lock older than the timeout is removed only if its pid is dead, too
  lossyRead : Bool              -- the lock file is read as bytes and decoded lossily (not UTF-8 = unparsable)
  guarded : Bool                -- acquire's and release's inspect-then-change sequences run under flock(.renamify)
  guard : Option Nat            -- the kernel's advisory lock on `.renamify`: which process holds it
  stolen : Bool                 -- ghost: some process unlinked a file created by another live owner
  deriving Inhabited

def upd {α} (f : Nat → α) (i : Nat) (v : α) : Nat → α := fun j => if j = i then v else f j

/-- the process is past a successful `create_new` and has not finished `Drop` -/
def Pc.owns : Pc → Bool
  | .created _ | .holding | .dropCheck | .dropUnlink => true
  | _ => false

def Pc.terminal : Pc → Bool
  | .done | .failed _ | .panicked => true
  | _ => false

/-- u64 subtraction as the release build does it -/
def wrapSub (a b : Nat) : Nat := if b ≤ a then a - b else a + 2 ^ 64 - b

/-- the decision taken after reading content `c`, at time `now` with liveness `alive` -/
def decide' (debug saturating needsDead : Bool) (abandon : Abandon) (now : Nat) (alive : Nat → Bool) : Content → Pc
  | .empty =>
    match abandon with
    | .none => .mkdir now
    | .empty => .unlinkPending .empty
    | .unparsable => .unlinkPending .unparsable
  | .garbage =>
    match abandon with
    | .unparsable => .unlinkPending .unparsable
    | _ => .mkdir now
  | .invalid => .mkdir now      -- unreachable: `read_to_string` has failed before
  | .pidts pid ts =>
    if needsDead then
      -- liveness first: a live holder is never stale (`pid != 0 && is_process_running(pid)`; pid 0 is dead in `alive`)
      if alive pid then .failed (.alreadyRunning pid)
      else if (if saturating then now - ts else wrapSub now ts) > staleTimeout then .unlinkPending .stale
      else .unlinkPending .orphaned
    else if saturating then
      if now - ts > staleTimeout then .unlinkPending .stale
      else if alive pid then .failed (.alreadyRunning pid)
      else .unlinkPending .orphaned
    else if now < ts ∧ debug then .panicked
    else if wrapSub now ts > staleTimeout then .unlinkPending .stale
    else if alive pid then .failed (.alreadyRunning pid)
    else .unlinkPending .orphaned

/-- ghost bookkeeping for an unlink by `p` of inode `i` -/
def steals (s : State) (p : Nat) (i : Nat) : Bool :=
  match i with
  | 0 => false
  | q + 1 => q ≠ p ∧ (s.pc q).owns ∧ s.alive (pidOf q)

/-- one system call of process `p`; `none` when `p` has nothing left to do -/
def step (s : State) (p : Nat) : Option State :=
  if p < s.n then
    match s.pc p with
    | .start =>
      match s.cell with
      | some _ => some { s with pc := upd s.pc p .sawPresent }
      | none => some { s with pc := upd s.pc p (.mkdir s.now) }
    | .locked => none             -- only in the guarded shape (`gstep`)
    | .sawPresent =>
      match s.cell with
      | some i => some { s with pc := upd s.pc p (.opened i) }
      | none => some { s with pc := upd s.pc p (.failed .readFailed) }
    | .opened i =>
      if s.files i = .invalid then
        if s.lossyRead then some { s with pc := upd s.pc p (.readDone .garbage) }
        else some { s with pc := upd s.pc p (.failed .readInvalid) }
      else some { s with pc := upd s.pc p (.readDone (s.files i)) }
    | .readDone c => some { s with pc := upd s.pc p (decide' s.debug s.saturating s.staleNeedsDead s.abandon s.now s.alive c) }
    | .unlinkPending b =>
      match s.cell with
      | some i => some { s with cell := none, stolen := s.stolen || steals s p i,
                                pc := upd s.pc p (.mkdir s.now) }
      | none => some { s with pc := upd s.pc p (.failed (.removeFailed b)) }
    | .mkdir ts => some { s with pc := upd s.pc p (.create ts) }
    | .create ts =>
      match s.cell with
      | none =>
        if s.atomicPublish then
          -- hard_link of the complete temporary file: the lock appears with its content, acquire returns
          some { s with cell := some (inoOf p), files := upd s.files (inoOf p) (.pidts (pidOf p) ts),
                        pc := upd s.pc p .holding }
        else
          some { s with cell := some (inoOf p), files := upd s.files (inoOf p) .empty,
                        pc := upd s.pc p (.created ts) }
      | some _ => some { s with pc := upd s.pc p (.failed .createExists) }
    | .created ts => some { s with files := upd s.files (inoOf p) (.pidts (pidOf p) ts),
                                   pc := upd s.pc p .holding }
    | .holding => some { s with pc := upd s.pc p .dropCheck }
    | .dropCheck =>
      -- `self.path.exists()`; or, when Drop checks the content, open+read and compare with "pid:timestamp"
      -- (pids are unique, so "the content is ours" = "the inode is the one we created")
      match s.cell with
      | some i =>
        if s.dropChecks ∧ i ≠ inoOf p then some { s with pc := upd s.pc p .done }
        else some { s with pc := upd s.pc p .dropUnlink }
      | none => some { s with pc := upd s.pc p .done }
    | .dropUnlink =>
      match s.cell with
      | some i => some { s with cell := none, stolen := s.stolen || steals s p i, pc := upd s.pc p .done }
      | none => some { s with pc := upd s.pc p .done }
    | .done | .failed _ | .panicked =>
      if s.exits ∧ s.alive (pidOf p) then some { s with alive := upd s.alive (pidOf p) false } else none
  else none

/-- inside one of the guarded sequences (the process holds the flock on `.renamify`) -/
def Pc.sect : Pc → Bool
  | .locked | .sawPresent | .opened _ | .readDone _ | .unlinkPending _ | .mkdir _ | .create _ | .dropUnlink => true
  | _ => false

/-- One call of process `p` in the GUARDED shape of `lock.rs` (seeded/_fixes/c12_1_guard_lock_file_sequences.diff):
      acquire:  create_dir_all (no effect) → flock(.renamify, LOCK_EX) → exists → open → read → decision → (remove)
                → write temp + hard_link publish → flock(LOCK_UN)
      drop:     flock(LOCK_EX) → content check → (remove) → flock(LOCK_UN)
    `flock` is a kernel mutex: a call on a lock held by another process does not return (`none`: the process cannot
    move); it is released by LOCK_UN, which is the process's next call after the last guarded one and is folded
    into it (nobody can observe the difference: every other access to the lock file needs the guard), and by
    the kernel when the holder dies (no process dies inside a guarded sequence in this model: crashes are
    initial states).  The lock file is published complete (this shape has no `created` state). -/
def gstep (s : State) (p : Nat) : Option State :=
  if p < s.n then
    match s.pc p with
    | .start =>
      if s.guard = none then some { s with guard := some p, pc := upd s.pc p .locked } else none
    | .locked =>
      match s.cell with
      | some _ => some { s with pc := upd s.pc p .sawPresent }
      | none => some { s with pc := upd s.pc p (.mkdir s.now) }
    | .sawPresent =>
      match s.cell with
      | some i => some { s with pc := upd s.pc p (.opened i) }
      | none => some { s with guard := none, pc := upd s.pc p (.failed .readFailed) }
    | .opened i =>
      if s.files i = .invalid then
        if s.lossyRead then some { s with pc := upd s.pc p (.readDone .garbage) }
        else some { s with guard := none, pc := upd s.pc p (.failed .readInvalid) }
      else some { s with pc := upd s.pc p (.readDone (s.files i)) }
    | .readDone c =>
      let v := decide' s.debug s.saturating s.staleNeedsDead s.abandon s.now s.alive c
      some { s with guard := if v.terminal then none else s.guard, pc := upd s.pc p v }
    | .unlinkPending w =>
      match s.cell with
      | some i => some { s with cell := none, stolen := s.stolen || steals s p i, pc := upd s.pc p (.mkdir s.now) }
      | none => some { s with guard := none, pc := upd s.pc p (.failed (.removeFailed w)) }
    | .mkdir ts => some { s with pc := upd s.pc p (.create ts) }
    | .create ts =>
      match s.cell with
      | none => some { s with cell := some (inoOf p), files := upd s.files (inoOf p) (.pidts (pidOf p) ts),
                              guard := none, pc := upd s.pc p .holding }
      | some _ => some { s with guard := none, pc := upd s.pc p (.failed .createExists) }
    | .created _ => none
    | .holding => some { s with pc := upd s.pc p .dropCheck }
    | .dropCheck =>
      if s.guard = some p then
        match s.cell with
        | some i =>
          if s.dropChecks ∧ i ≠ inoOf p then some { s with guard := none, pc := upd s.pc p .done }
          else some { s with pc := upd s.pc p .dropUnlink }
        | none => some { s with guard := none, pc := upd s.pc p .done }
      else if s.guard = none then some { s with guard := some p } else none
    | .dropUnlink =>
      match s.cell with
      | some i => some { s with cell := none, stolen := s.stolen || steals s p i, guard := none, pc := upd s.pc p .done }
      | none => some { s with guard := none, pc := upd s.pc p .done }
    | .done | .failed _ | .panicked =>
      if s.exits ∧ s.alive (pidOf p) then some { s with alive := upd s.alive (pidOf p) false } else none
  else none

/-- SIGINT at the confirmation prompt of a process that is inside its command: `release_held_locks`
    unlinks the lock path without looking at it, then the process exits (its next `step` is the exit) -/
def promptExit (s : State) (p : Nat) : State :=
  if p < s.n ∧ s.pc p = .holding ∧ (s.guarded = true → s.guard = none) then
    match s.cell with
    | some i =>
      if s.dropChecks ∧ i ≠ inoOf p then { s with pc := upd s.pc p .done }
      else { s with cell := none, stolen := s.stolen || steals s p i, pc := upd s.pc p .done }
    | none => { s with pc := upd s.pc p .done }
  else s

/-- schedule events: a call of process `p`, the clock advancing, or Ctrl-C at `p`'s confirmation prompt -/
inductive Ev
  | proc (p : Nat)
  | tick (secs : Nat)
  | promptInt (p : Nat)
  deriving DecidableEq, Repr

def stepEv (s : State) : Ev → State
  | .proc p => if s.guarded then (gstep s p).getD s else (step s p).getD s
  | .tick d => { s with now := s.now + d }
  | .promptInt p => promptExit s p

def run (s : State) : List Ev → State
  | [] => s
  | e :: es => run (stepEv s e) es

/-- plain schedules (lists of process ids) -/
def runP (s : State) (sched : List Nat) : State := run s (sched.map .proc)

/-- run every process to completion in index order, round-robin, with fuel -/
def settle : Nat → State → State
  | 0, s => s
  | fuel + 1, s =>
    let s' := (List.range s.n).foldl (fun st p => (step st p).getD st) s
    settle fuel s'

/-! ### initial states -/

def base (n now : Nat) (debug exits : Bool) : State :=
  { n := n, cell := none, files := fun _ => .empty, now := now,
    alive := fun pid => decide (2 ≤ pid ∧ pid < n + 2),
    pc := fun _ => .start, debug := debug, exits := exits, abandon := .none, atomicPublish := false, saturating := false, dropChecks := false,
    staleNeedsDead := false, lossyRead := false, guarded := false, guard := none, stolen := false }

/-- the same state for the source WITH the empty-file branch -/
def withEmptyBranch (s : State) : State := { s with abandon := .empty }

/-- the guarded shape with all repairs (HEAD + seeded/_fixes/c12_1 … c12_3) -/
def withGuard (s : State) : State :=
  { s with guarded := true, atomicPublish := true, abandon := .unparsable, saturating := true, dropChecks := true,
           staleNeedsDead := true, lossyRead := true }

/-- the two small repairs of `lock.rs` -/
def withSaturating (s : State) : State := { s with saturating := true }
def withDropChecks (s : State) : State := { s with dropChecks := true }

/-- … and for the proposed fix: publish by hard link, every unparsable lock file is abandoned -/
def withPublishFix (s : State) : State := { s with abandon := .unparsable, atomicPublish := true }

/-- lock file absent -/
def initAbsent (n now : Nat) (debug exits : Bool) : State := base n now debug exits

/-- lock file present with arbitrary content (inode 0) -/
def initFile (n now : Nat) (debug exits : Bool) (c : Content) : State :=
  { base n now debug exits with cell := some 0, files := upd (fun _ => .empty) 0 c }

/-- process 0 already holds the lock since `ts` -/
def initHeld (n now : Nat) (debug exits : Bool) (ts : Nat) : State :=
  { base n now debug exits with
    cell := some (inoOf 0)
    files := upd (fun _ => .empty) (inoOf 0) (.pidts (pidOf 0) ts)
    pc := upd (fun _ => .start) 0 .holding }

/-! ### observations -/

def holdingList (s : State) : List Nat := (List.range s.n).filter (fun p => s.pc p == .holding)
def ownerList (s : State) : List Nat := (List.range s.n).filter (fun p => (s.pc p).owns)

/-- content currently visible at the lock path -/
def cellContent (s : State) : Option Content := s.cell.map s.files

/-! ### text of a lock file → `Content` (what `acquire` parses) -/

def isWs (b : UInt8) : Bool := b == 32 || (9 ≤ b && b ≤ 13)

def trimLeft : List UInt8 → List UInt8
  | [] => []
  | b :: bs => if isWs b then trimLeft bs else b :: bs

def trim (bs : List UInt8) : List UInt8 := (trimLeft (trimLeft bs).reverse).reverse

def splitColon : List UInt8 → List (List UInt8)
  | [] => [[]]
  | b :: bs =>
    match splitColon bs with
    | [] => [[]]
    | part :: parts => if b == 58 then [] :: part :: parts else (b :: part) :: parts

def digits? : List UInt8 → Option Nat → Option Nat
  | [], acc => acc
  | b :: bs, acc =>
    if 48 ≤ b && b ≤ 57 then digits? bs (some (acc.getD 0 * 10 + (b.toNat - 48))) else none

/-- `str::parse::<uN>()`: optional '+', at least one digit, value below `bound`; otherwise the caller's 0 -/
def parseBounded (bound : Nat) (bs : List UInt8) : Nat :=
  let body := match bs with
    | 43 :: rest => rest
    | _ => bs
  match digits? body none with
  | some v => if v < bound then v else 0
  | none => 0

def parseContent (bs : List UInt8) : Content :=
  match splitColon (trim bs) with
  | [a, b] => .pidts (parseBounded (2 ^ 32) a) (parseBounded (2 ^ 64) b)
  | [[]] => .empty
  | _ => .garbage

end Lock
