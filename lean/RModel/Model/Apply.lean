import RModel.Base.Bytes
import RModel.Base.Utf8
import RModel.Model.Edits
import RModel.Model.Fs
import RModel.Gen.ExecFlags
/-
  L5 (tree level): `apply.rs::apply_plan` as a function on trees.

  STEP 2  content edits, per file in `BTreeMap<PathBuf,_>` order, each through `applyEdits`;
          a failure stops the command (earlier files stay edited; renames are rolled back,
          of which there are none yet).
  STEP 3  renames sorted "directories shallow-first, then files deep-first" (stable), each
          re-based on the directory renames performed so far (last matching prefix wins),
          executed with rename(2); a failure triggers `rollback`, which reverts the recorded
          (original-from, adjusted-to) pairs in reverse order and keeps going on errors.
  What is written below `.renamify` (patches, history, stored plan, log) is not part of the
  user tree and is modelled in `History`/`Patch`.
-/

namespace Apply
open Fs

structure Hunk where
  file   : Path
  before : Bytes
  after  : Bytes
  start  : Nat
  stop   : Nat
  deriving DecidableEq, Repr

inductive Kind where | file | dir
  deriving DecidableEq, Repr

structure Ren where
  path    : Path
  newPath : Path
  kind    : Kind
  deriving DecidableEq, Repr

structure Plan where
  hunks : List Hunk
  rens  : List Ren
  deriving Repr

inductive Outcome where
  | ok
  | mismatch          -- stale plan: recorded text differs
  | panic             -- Rust panics (offsets outside the file or inside a character)
  | unreadable        -- file missing / not UTF-8 / not a regular file
  | renameFailed (e : Errno)        -- rename failed, rollback succeeded
  | rollbackFailed (e : Errno)      -- rename failed and the rollback reported errors
  | backupFailed      -- everything applied, then `generate_reverse_patches` could not read a file
  | destExists        -- pre-flight: a rename destination already exists; nothing was changed
  | sharedDest        -- pre-flight: two renames of the plan share a destination (repo commit 01297aa); nothing was changed
  deriving DecidableEq, Repr

structure Result where
  outcome : Outcome
  tree    : Tree
  /-- renames as recorded in `state.renames_performed` (original from, adjusted to) -/
  performed : List (Path × Path) := []
  deriving Repr

-- ordering of `PathBuf` (component-wise, components bytewise) ----------------------------------

def bytesLt : Bytes → Bytes → Bool
  | [], [] => false
  | [], _ :: _ => true
  | _ :: _, [] => false
  | a :: as, b :: bs => if a.toNat < b.toNat then true else if b.toNat < a.toNat then false else bytesLt as bs

def pathLt : Path → Path → Bool
  | [], [] => false
  | [], _ :: _ => true
  | _ :: _, [] => false
  | a :: as, b :: bs => if bytesLt a b then true else if bytesLt b a then false else pathLt as bs

/-- insert keeping ascending order; an equal key is dropped (set semantics of `BTreeMap` keys) -/
def insertPath (p : Path) : List Path → List Path
  | [] => [p]
  | q :: qs => if p == q then q :: qs else if pathLt p q then p :: q :: qs else q :: insertPath p qs

def sortedFiles (hs : List Hunk) : List Path := hs.foldl (fun acc h => insertPath h.file acc) []

-- STEP 2 ------------------------------------------------------------------------------------------

def editsFor (hs : List Hunk) (f : Path) : List Edits.Edit :=
  (hs.filter (fun h => h.file == f)).map
    (fun h => { before := h.before, after := h.after, start := h.start, stop := h.stop })

def contentPhase (hs : List Hunk) : Tree → List Path → Outcome × Tree
  | t, [] => (.ok, t)
  | t, f :: fs =>
    match lookup t f with
    | some (.file c _) =>
      if !Utf8.valid c then (.unreadable, t)
      else match Edits.applyEdits c (editsFor hs f) with
        | .ok c' => contentPhase hs (setContent t f c') fs
        | .error .mismatch => (.mismatch, t)
        | .error .panic => (.panic, t)
    | _ => (.unreadable, t)

-- STEP 3 ------------------------------------------------------------------------------------------

/-- stable insertion: `x` goes before the first element whose key is not smaller -/
def insertBy (le : Ren → Ren → Bool) (x : Ren) : List Ren → List Ren
  | [] => [x]
  | y :: ys => if le x y then x :: y :: ys else y :: insertBy le x ys

def sortBy (le : Ren → Ren → Bool) : List Ren → List Ren
  | [] => []
  | x :: xs => insertBy le x (sortBy le xs)

/-- the order of STEP 3: directories shallowest first, then files deepest first (stable) -/
def sortRens (rs : List Ren) : List Ren :=
  sortBy (fun a b => decide (depth a.path ≤ depth b.path)) (rs.filter (fun r => r.kind == .dir)) ++
  sortBy (fun a b => decide (depth b.path ≤ depth a.path)) (rs.filter (fun r => r.kind == .file))

/-- re-base a path on the renames performed so far: the last matching prefix wins -/
def rebase (performed : List (Path × Path)) (p : Path) : Path :=
  performed.foldl (fun cur pr => if pre pr.1 p then pr.2 ++ p.drop pr.1.length else cur) p

/-- `prev_to.join("")` leaves a trailing `/` when the last matching prefix is the path itself;
    the kernel then insists on a directory -/
def trailingSlash (performed : List (Path × Path)) (p : Path) : Bool :=
  performed.foldl (fun cur pr => if pre pr.1 p then pr.1 == p else cur) false

/-- rename(2) with the trailing-slash rule -/
def renameTS (t : Tree) (a : Path) (sa : Bool) (b : Path) (sb : Bool) : Except Errno Tree :=
  if (sa || sb) && !(isDir t a) && (lookup t a).isSome then .error .ENOTDIR
  else rename t a b

def rollback : Tree → List (Path × Path) → Option Errno → Tree × Option Errno
  | t, [], err => (t, err)
  | t, (f, to) :: rest, err =>
    match rename t to f with
    | .ok t' => rollback t' rest err
    | .error e => rollback t rest (some (err.getD e))

/-- the renames as they were executed on disk (`state.renames_executed`, repo commit 739fc80): the source of each
    recorded pair re-based on the pairs recorded before it -/
def executedFrom (acc : List (Path × Path)) : List (Path × Path) → List (Path × Path)
  | [] => []
  | pr :: rest => (rebase acc pr.1, pr.2) :: executedFrom (acc ++ [pr]) rest

/-- what `rollback` walks (last first): the executed pairs in the code as it is, the recorded
    (original-from, adjusted-to) pairs before 739fc80 — the flag is read from the source -/
def rollbackList (perf : List (Path × Path)) : List (Path × Path) :=
  if ExecFlags.rollbackRealPairs then executedFrom [] perf else perf

def renamePhase : Tree → List (Path × Path) → List Ren → Result
  | t, perf, [] => { outcome := .ok, tree := t, performed := perf }
  | t, perf, r :: rs =>
    let af := rebase perf r.path
    let at' := rebase perf r.newPath
    match renameTS t af (trailingSlash perf r.path) at' (trailingSlash perf r.newPath) with
    | .ok t' => renamePhase t' (perf ++ [(r.path, at')]) rs
    | .error e =>
      match rollback t (rollbackList perf).reverse none with
      | (t', none) => { outcome := .renameFailed e, tree := t', performed := perf }
      | (t', some e') => { outcome := .rollbackFailed e', tree := t', performed := perf }

/-- where `generate_reverse_patches` looks for an edited file after the renames:
    an exact entry, else the LAST recorded rename whose source is a prefix (the deepest directory) -/
def currentPath (performed : List (Path × Path)) (f : Path) : Path :=
  match performed.find? (fun pr => pr.1 == f) with
  | some pr => pr.2
  | none => performed.foldl (fun cur pr => if pre pr.1 f then pr.2 ++ f.drop pr.1.length else cur) f

def readable (t : Tree) (p : Path) : Bool :=
  match lookup t p with
  | some (.file c _) => Utf8.valid c
  | _ => false

/-- STEP 4 can only fail by not being able to read an edited file at its computed location -/
def backupPhase (r : Result) (files : List Path) : Result :=
  if files.all (fun f => readable r.tree (currentPath r.performed f)) then r
  else if ExecFlags.historyEntryIsCommitPoint then
    -- repo commit 6667a82: a failure after the rename phase rolls the renames back (contents stay edited)
    match rollback r.tree (rollbackList r.performed).reverse none with
    | (t', none) => { r with outcome := .backupFailed, tree := t' }
    | (t', some e') => { r with outcome := .rollbackFailed e', tree := t' }
  else { r with outcome := .backupFailed }

/-- pre-flight of `apply_plan`: no planned destination may exist on disk (`symlink_metadata(new_path).is_ok()`);
    the case-only exception needs both names to be the same file, which on a case-sensitive filesystem
    (the one modelled) never holds for distinct paths -/
def preflightOk (t : Tree) (rs : List Ren) : Bool :=
  rs.all (fun r => r.newPath.isEmpty || r.newPath == r.path || (lookup t r.newPath).isNone)

/-- renames the pre-flight loop of `apply_plan` passes over (`continue`) -/
def skipRen (r : Ren) : Bool := r.newPath.isEmpty || r.newPath == r.path

/-- repo commit 01297aa: an earlier rename of the plan (one the loop did not skip) has the same destination and a
    different source.  The code keeps a `HashMap` destination -> source and compares with the entry it replaces;
    every earlier entry for one destination has the same source (or the loop would have stopped there), so "some
    earlier entry differs" and "the latest earlier entry differs" coincide. -/
def sharesDest (seen : List Ren) (r : Ren) : Bool :=
  ExecFlags.sharedDestRefused && seen.any (fun s => s.newPath == r.newPath && s.path != r.path)

/-- the pre-flight loop of `apply_plan`, in plan order: skip test, shared-destination test, exists test;
    `seen` = the renames already passed (newest first) -/
def preflight (t : Tree) : List Ren → List Ren → Option Outcome
  | _, [] => none
  | seen, r :: rs =>
    if skipRen r then preflight t seen rs
    else if sharesDest seen r then some .sharedDest
    else if (lookup t r.newPath).isSome then some .destExists
    else preflight t (r :: seen) rs

/-- STEP 2 - STEP 4, what `apply_plan` does once the pre-flight loop has passed -/
def applyCore (t : Tree) (p : Plan) : Result :=
  match contentPhase p.hunks t (sortedFiles p.hunks) with
  | (.ok, t1) =>
    let r := renamePhase t1 [] (sortRens p.rens)
    match r.outcome with
    | .ok => backupPhase r (sortedFiles p.hunks)
    | _ => r
  | (o, t1) => { outcome := o, tree := t1 }

def applyPlan (t : Tree) (p : Plan) : Result :=
  match preflight t [] p.rens with
  | some o => { outcome := o, tree := t }
  | none => applyCore t p

end Apply
