import RModel.Base.Bytes
/-
  Types shared by the generated C19 tables (Gen/Bindings.lean, Gen/OutputShapes.lean) and the hand-written model
  (Model/Output.lean).  String literals do not reduce in the kernel, and byte-list comparison is slow there, so a name
  is ONE natural number: the big-endian base-256 value of its UTF-8 bytes, written `n!"text"` (computed at elaboration
  time; equality is a single GMP comparison).  `Output.nameBytes` turns it back into bytes for the driver.
-/
namespace Output

abbrev Name := Nat

open Lean in
macro:max "n!" s:str : term => do
  let v := s.getString.toUTF8.toList.foldl (fun acc b => acc * 256 + b.toNat) 0
  `(($(Syntax.mkNumLit (toString v)) : Nat))

/-- the bytes of a name (most significant first) -/
def nameBytes (n : Name) : Bytes :=
  let rec go : Nat → Nat → Bytes → Bytes
    | 0, _, acc => acc
    | fuel + 1, m, acc => if m = 0 then acc else go fuel (m / 256) (UInt8.ofNat (m % 256) :: acc)
  go 200 n []

def nameOfBytes (b : Bytes) : Name := b.foldl (fun acc c => acc * 256 + c.toNat) 0

example : n!"ab" = 97 * 256 + 98 := by decide
example : nameBytes n!"plan_id" = [112, 108, 97, 110, 95, 105, 100] := by decide

/-- The commands the property quantifies over (fixed by its text). -/
inductive Cmd where
  | plan | search | rename | replace | apply | undo | redo | history | status | version
  deriving DecidableEq, Repr

def Cmd.all : List Cmd := [.plan, .search, .rename, .replace, .apply, .undo, .redo, .history, .status, .version]

/-- The fragment of TypeScript types that occurs in `renamify-core/bindings/*.d.ts` and in the hand-written result
    types of the wrappers.  `obj` fields carry `optional` (`name?: T`). -/
inductive TsType where
  | str | num | bool | null | any
  | lit (s : Name)
  | arr (t : TsType)
  | tuple (ts : List TsType)
  | record (v : TsType)
  | obj (fields : List (Name × Bool × TsType))
  | union (ts : List TsType)
  | ref (n : Name)

/-- When a serialised struct field is present in the document. -/
inductive Presence where
  | always
  | ifSome        -- `skip_serializing_if = "Option::is_none"`
  | ifNonEmpty    -- `skip_serializing_if = "String::is_empty"` / `is_empty_path` / `Vec::is_empty`
  deriving DecidableEq, Repr

/-- The set of documents a Rust value can serialise to, abstracted to a shape. -/
inductive JsonShape where
  | str | num | bool | null | any
  | lit (s : Name)
  | arr (t : JsonShape)
  | tuple (ts : List JsonShape)
  | map (v : JsonShape)
  | obj (fields : List (Name × Presence × JsonShape))
  | oneOf (ts : List JsonShape)
  | ref (n : Name)
  | fallible (s : JsonShape)   -- `serde_json::to_value(&v).unwrap_or(Value::Null)`: `s`, or `null` when `v` cannot be serialised

/-- Conditions that guard stdout emission sites in the handlers (the translator maps the guard text to these). -/
inductive Atom where
  | json              -- `--output json` (arm `OutputFormat::Json`)
  | quiet             -- `--quiet`
  | dryRun            -- `--dry-run` (or forced by the dispatch, e.g. `search`)
  | yes               -- `-y/--yes`
  | planEmpty         -- no matches and no renames
  | previewSome       -- the operation returned preview text
  | declined          -- the answer read from stdin is not `y`
  | commit | large | tooLarge | noRegex | dirMissing
  | previewWithJson   -- handler-level `preview.is_some() && preview != None && output == Json`
  | fixedWidthMisuse  -- `--fixed-table-width` with a non-table preview
  deriving DecidableEq, Repr

structure Lit where
  atom : Atom
  pos : Bool
  deriving DecidableEq, Repr

inductive Payload where
  | jsonOf (t : Name)       -- `T::format_json()`
  | pretty (t : Name)       -- `serde_json::to_string_pretty(&T)`
  | summaryOf (t : Name)    -- `T::format_summary()`
  | preview                 -- rendered preview text
  | text                    -- any other text (prompts, messages)
  deriving DecidableEq, Repr

inductive Ev where
  | out (p : Payload) (newline : Bool)    -- one stdout emission site
  | err                                   -- one stderr emission site
  | ret                                   -- `return Ok(())`
  | fail (site : Nat) (callee : Name)     -- `?` / `return Err(…)`: the handler can leave here with an error
  | call (fn : Name)                      -- call of an operation that has the command's effect
  deriving DecidableEq, Repr

/-- One event of a handler body with the conjunction of conditions under which control reaches it. -/
structure GEv where
  guard : List Lit
  ev : Ev
  deriving DecidableEq, Repr

end Output
