import RModel.Model.CliLit
import RModel.Model.Wrappers
/-
  The guard of C20: the finite list `knownBad` of (wrapper, builder, field[, value]) combinations
  whose command line the CLI rejects or misreads today.  One entry = one `finding:` line of
  KNOWN_FINDINGS.txt (same slug).  `usesBad b v` decides whether valuation `v` of builder `b` falls
  under an entry: every clause names a field that *contributes tokens* under `v` (removing it changes
  the argument vector) and, optionally, a condition on its value.
-/
namespace Wrap
open Cli (Str seq)

inductive VPred
  | any                    -- whatever the field holds, as long as it pushes something
  | eq (v : Value)         -- exactly this value
  | hyphen                 -- a string (or list element) that starts with `-`
  | comma                  -- a list element that contains `,`
  deriving Repr

structure Bad where
  slug : Str
  wrapper : Str
  builder : Option Str                      -- `none`: every builder of the wrapper
  clauses : List (Option Str × VPred)       -- all must hold; field `none`: some field; `[]`: always
  what : String
  deriving Repr

def startsDash : Str → Bool
  | 45 :: _ => true
  | _ => false

def hasComma (s : Str) : Bool := s.any (Nat.beq · 44)

def seqL' : List Str → List Str → Bool
  | [], [] => true
  | a :: as, b :: bs => seq a b && seqL' as bs
  | _, _ => false

def veq : Value → Value → Bool
  | .undef, .undef => true
  | .bool a, .bool b => a == b
  | .str a, .str b => seq a b
  | .list a, .list b => seqL' a b
  | .num a, .num b => Nat.beq a b
  | _, _ => false

def VPred.holds : VPred → Value → Bool
  | .any, _ => true
  | .eq w, v => veq v w
  | .hyphen, .str s => startsDash s
  | .hyphen, .list l => l.any startsDash
  | .hyphen, _ => false
  | .comma, .list l => l.any hasComma
  | .comma, _ => false

/-- the field pushes something: without it the argument vector is different -/
def contributes (b : Builder) (v : Valuation) (i : Nat) : Bool :=
  match getV v i with
  | .undef => false
  | _ => !(seqL' (build b v) (build b (setAt v i .undef)))

def clauseAt (b : Builder) (v : Valuation) (c : Option Str × VPred) : List Field → Nat → Bool
  | [], _ => false
  | f :: fs, i =>
    ((match c.1 with
      | none => true
      | some n => seq f.name n) && c.2.holds (getV v i) && contributes b v i) || clauseAt b v c fs (i + 1)

def Bad.applies (e : Bad) (b : Builder) (v : Valuation) : Bool :=
  seq e.wrapper b.wrapper &&
  (match e.builder with
   | none => true
   | some n => seq n b.name) &&
  e.clauses.all (fun c => clauseAt b v c b.fields 0)

def knownBad : List Bad :=
  [ { slug := t!"mcp-search-styles", wrapper := t!"mcp", builder := some t!"buildSearchArgs",
      clauses := [(some t!"options.styles", .any)], what := "search --styles: no such option" },
    { slug := t!"mcp-search-dry-run", wrapper := t!"mcp", builder := some t!"buildSearchArgs",
      clauses := [(some t!"options.dryRun", .any)], what := "search --dry-run: no such option" },
    { slug := t!"mcp-search-no-rename-files", wrapper := t!"mcp", builder := some t!"buildSearchArgs",
      clauses := [(some t!"options.renameFiles", .any)], what := "search --no-rename-files: no such option" },
    { slug := t!"mcp-search-no-rename-dirs", wrapper := t!"mcp", builder := some t!"buildSearchArgs",
      clauses := [(some t!"options.renameDirs", .any)], what := "search --no-rename-dirs: no such option" },
    { slug := t!"mcp-search-atomic-search", wrapper := t!"mcp", builder := some t!"buildSearchArgs",
      clauses := [(some t!"options.atomicSearch", .any)], what := "search --atomic-search: no such option" },
    { slug := t!"mcp-plan-styles", wrapper := t!"mcp", builder := some t!"buildPlanArgs",
      clauses := [(some t!"options.styles", .any)], what := "plan --styles: no such option" },
    { slug := t!"mcp-apply-plan", wrapper := t!"mcp", builder := some t!"buildApplyArgs",
      clauses := [(some t!"options.planPath", .any)], what := "apply --plan <path>: no such option (the path is a positional)" },
    { slug := t!"mcp-preview-preview-only", wrapper := t!"mcp", builder := some t!"buildPreviewArgs",
      clauses := [], what := "plan --preview-only [--plan <path>]: no such options, and plan's two positionals are missing" },
    { slug := t!"mcp-rename-preview-json", wrapper := t!"mcp", builder := some t!"rename",
      clauses := [(some t!"options.preview", .eq (.str t!"json"))], what := "rename --preview json: not a PreviewArg value" },
    { slug := t!"mcp-replace-preview-json", wrapper := t!"mcp", builder := some t!"replace",
      clauses := [(some t!"options.preview", .eq (.str t!"json"))], what := "replace --preview json: not a PreviewArg value" },
    { slug := t!"mcp-rename-only-with-exclude-styles", wrapper := t!"mcp", builder := some t!"rename",
      clauses := [(some t!"options.onlyStyles", .any), (some t!"options.excludeStyles", .any)],
      what := "rename --only-styles with --exclude-styles: conflicts_with" },
    { slug := t!"mcp-rename-only-with-include-styles", wrapper := t!"mcp", builder := some t!"rename",
      clauses := [(some t!"options.onlyStyles", .any), (some t!"options.includeStyles", .any)],
      what := "rename --only-styles with --include-styles: conflicts_with" },
    { slug := t!"mcp-search-includes-comma", wrapper := t!"mcp", builder := some t!"buildSearchArgs",
      clauses := [(some t!"options.includes", .comma)], what := "search --include 'a,b': one pattern arrives as two (value_delimiter)" },
    { slug := t!"mcp-search-excludes-comma", wrapper := t!"mcp", builder := some t!"buildSearchArgs",
      clauses := [(some t!"options.excludes", .comma)], what := "search --exclude 'a,b': one pattern arrives as two (value_delimiter)" },
    { slug := t!"mcp-plan-includes-comma", wrapper := t!"mcp", builder := some t!"buildPlanArgs",
      clauses := [(some t!"options.includes", .comma)], what := "plan --include 'a,b': one pattern arrives as two (value_delimiter)" },
    { slug := t!"mcp-plan-excludes-comma", wrapper := t!"mcp", builder := some t!"buildPlanArgs",
      clauses := [(some t!"options.excludes", .comma)], what := "plan --exclude 'a,b': one pattern arrives as two (value_delimiter)" },
    -- the next two exist only while the preview builder re-plans with the stored filters through the
    -- unrepaired addIncludeArgs/addExcludeArgs (c20_mcp_wrapper_flags.diff without c20_wrappers_hyphen_and_commas.diff)
    { slug := t!"mcp-preview-includes-comma", wrapper := t!"mcp", builder := some t!"buildPreviewArgs",
      clauses := [(some t!"plan.includes", .comma)], what := "plan --dry-run --include 'a,b' (preview): one stored pattern arrives as two (value_delimiter)" },
    { slug := t!"mcp-preview-excludes-comma", wrapper := t!"mcp", builder := some t!"buildPreviewArgs",
      clauses := [(some t!"plan.excludes", .comma)], what := "plan --dry-run --exclude 'a,b' (preview): one stored pattern arrives as two (value_delimiter)" },
    { slug := t!"mcp-leading-hyphen", wrapper := t!"mcp", builder := none,
      clauses := [(none, .hyphen)], what := "a term, path, pattern or id starting with '-' is pushed without `--` or `=`: parsed as a flag" },
    { slug := t!"vscode-apply-id", wrapper := t!"vscode", builder := some t!"apply",
      clauses := [(some t!"planId", .any)], what := "apply --id <id>: no such option (the id is a positional)" },
    { slug := t!"vscode-search-no-rename-paths", wrapper := t!"vscode", builder := some t!"search",
      clauses := [(some t!"options.renamePaths", .any)], what := "search --no-rename-paths: no such option" },
    { slug := t!"vscode-search-atomic-search", wrapper := t!"vscode", builder := some t!"search",
      clauses := [(some t!"options.atomicSearch", .any)], what := "search --atomic-search: no such option" },
    { slug := t!"vscode-leading-hyphen", wrapper := t!"vscode", builder := none,
      clauses := [(none, .hyphen)], what := "a term, glob or id starting with '-' is pushed without `--` or `=`: parsed as a flag" } ]

/-- the entries that are in force: `live` lists the slugs of the findings that still reproduce
    (`Gen/WrappersVerdict.lean`, recomputed from the current sources on every run) -/
def liveBad (live : List Str) : List Bad := knownBad.filter (fun e => Cli.anyIs live e.slug)

def badFor (live : List Str) (b : Builder) (v : Valuation) : Option Bad :=
  (liveBad live).find? (fun e => e.applies b v)

def usesBad (live : List Str) (b : Builder) (v : Valuation) : Bool :=
  (liveBad live).any (fun e => e.applies b v)

-- the part of the enumerated space on which the kernel evaluates the property (see Props/C20.lean)

/-- add field `i` with its `k`-th representative when the valuation stays outside `knownBad` -/
def greedyAdd (live : List Str) (b : Builder) (k : Nat) (v : Valuation) (i : Nat) : Valuation :=
  match b.fields[i]? with
  | none => v
  | some f =>
    let v' := setAt v i (pick f k)
    if usesBad live b v' then v else v'

/-- as many fields as possible at once (in the given order) without touching `knownBad` -/
def greedy (live : List Str) (b : Builder) (k : Nat) (order : List Nat) : Valuation :=
  order.foldl (greedyAdd live b k) (baseVal b)

def singlesAt (b : Builder) : List Field → Nat → List Valuation
  | [], _ => []
  | f :: fs, i => f.reps.map (setAt (baseVal b) i) ++ singlesAt b fs (i + 1)

def indexOfField (n : Str) : List Field → Nat → Option Nat
  | [], _ => none
  | f :: fs, i => if seq f.name n then some i else indexOfField n fs (i + 1)

/-- a value of field `f` satisfying the clause predicate -/
def valueFor (f : Field) : VPred → Value
  | .eq w => w
  | .any => pick f 0
  | p => (f.hostile.find? p.holds).getD (pick f 0)

def comboOf (b : Builder) : List (Option Str × VPred) → Valuation → Valuation
  | [], v => v
  | (some n, p) :: cs, v =>
    match indexOfField n b.fields 0 with
    | some i => comboOf b cs (setAt v i (valueFor (b.fields.getD i ⟨[], .bool, true, [], []⟩) p))
    | none => comboOf b cs v
  | (none, _) :: cs, v => comboOf b cs v

/-- for every `knownBad` entry of this builder with several clauses: exactly the named fields set -/
def badCombos (b : Builder) : List Valuation :=
  (knownBad.filter (fun e => seq e.wrapper b.wrapper && (match e.builder with | some n => seq n b.name | none => false)
      && Nat.ble 2 e.clauses.length)).map (fun e => comboOf b e.clauses (baseVal b))

def isSmall (b : Builder) : Bool := Nat.ble (masks b.fields).length 64

/-- the part of `core` that does not depend on the verdict: nothing set, every field alone with each
    representative, every hostile value, the field combinations named in `knownBad` -/
def probe (b : Builder) : List Valuation :=
  if isSmall b then enumerate b
  else baseVal b :: singlesAt b b.fields 0 ++ hostileVals b ++ badCombos b

/-- small builders: the whole enumerated space.  Large ones: `probe` plus, per value profile, the two
    maximal combinations of fields outside the entries in force -/
def core (live : List Str) (b : Builder) : List Valuation :=
  if isSmall b then enumerate b
  else
    let idx := List.range b.fields.length
    probe b ++ (List.range (profiles b)).flatMap (fun k => [greedy live b k idx, greedy live b k idx.reverse])

/-- `e` applies to this valuation and no other entry that names a field does (an entry without clauses
    covers a whole builder and does not hide the more specific ones) -/
def appliesAlone (e : Bad) (b : Builder) (v : Valuation) : Bool :=
  e.applies b v && knownBad.all (fun e' => seq e'.slug e.slug || e'.clauses.isEmpty || !(e'.applies b v))

def Bad.concerns (e : Bad) (b : Builder) : Bool :=
  seq e.wrapper b.wrapper &&
  (match e.builder with
   | none => true
   | some n => seq n b.name)

/-- the verdict: slugs of the `knownBad` entries that reproduce, i.e. for which some probed valuation
    falls under this entry and no other, and its command line is rejected or misread -/
def liveSlugsOf (g : Cli.Grammar) (bs : List Builder) : List Str :=
  (knownBad.filter (fun e => bs.any (fun b => e.concerns b &&
    (probe b).any (fun v => appliesAlone e b v && !(okFor g b v))))).map (·.slug)

end Wrap
