import RModel.Base.Bytes
/-
  Model of `apply.rs::apply_content_edits_with_content` (the in-memory part):

      let mut modified = original_content.to_string();
      for (before, after, start, end) in replacements.iter().rev() {
          let actual = &original_content[*start..*end];      // panics: out of range, start > end, not a char boundary
          if actual != before { return Err(mismatch) }
          modified.replace_range(*start..*end, after);        // panics: not a char boundary of `modified`, out of range
      }

  and the independent left-to-right specification `spec` the property C02 talks about
  ("substituting each planned match at its recorded position").
-/

namespace Edits

inductive Err where
  | panic      -- the Rust code panics (exit status 101)
  | mismatch   -- "Content mismatch in …" (stale plan)
  deriving DecidableEq, Repr

structure Edit where
  before : Bytes
  after  : Bytes
  start  : Nat
  stop   : Nat
  deriving DecidableEq, Repr

/-- UTF-8 continuation byte `10xxxxxx` -/
def isCont (b : UInt8) : Bool := decide (128 ≤ b.toNat) && decide (b.toNat < 192)

/-- `str::is_char_boundary` -/
def isCharBoundary (s : Bytes) (i : Nat) : Bool :=
  if i = 0 then true
  else match s[i]? with
    | none => decide (i = s.length)
    | some b => !isCont b

/-- `&s[a..b]` on a `str`: `none` when Rust panics -/
def sliceStr (s : Bytes) (a b : Nat) : Option Bytes :=
  if a ≤ b ∧ b ≤ s.length ∧ isCharBoundary s a = true ∧ isCharBoundary s b = true
  then some ((s.take b).drop a) else none

/-- `String::replace_range(a..b, r)`: `none` when Rust panics -/
def replaceRange (s : Bytes) (a b : Nat) (r : Bytes) : Option Bytes :=
  if a ≤ b ∧ b ≤ s.length ∧ isCharBoundary s a = true ∧ isCharBoundary s b = true
  then some (s.take a ++ r ++ s.drop b) else none

/-- one iteration of the loop body.  `checked = true` is the code as it is (repo commit 29e3f64:
    `original_content.get(start..end)` / `modified.get(start..end)`, a miss is reported as a content mismatch);
    `checked = false` is the code before it (unchecked slices: a miss panics). -/
def stepG (checked : Bool) (orig : Bytes) (modified : Bytes) (e : Edit) : Except Err Bytes :=
  match sliceStr orig e.start e.stop with
  | none => .error (if checked then .mismatch else .panic)
  | some actual =>
    if actual ≠ e.before then .error .mismatch
    else match replaceRange modified e.start e.stop e.after with
      | none => .error (if checked then .mismatch else .panic)
      | some m => .ok m

/-- the loop over an explicit (already reversed) list -/
def runG (checked : Bool) (orig : Bytes) : Bytes → List Edit → Except Err Bytes
  | m, [] => .ok m
  | m, e :: es =>
    match stepG checked orig m e with
    | .error x => .error x
    | .ok m' => runG checked orig m' es

/-- edits are applied back to front -/
def applyEditsG (checked : Bool) (orig : Bytes) (es : List Edit) : Except Err Bytes :=
  runG checked orig orig es.reverse

/-- the code as it is -/
abbrev step := stepG true
abbrev run := runG true
/-- what `apply_content_edits_with_content` computes -/
abbrev applyEdits := applyEditsG true
/-- the code before repo commit 29e3f64 (stale offsets panic) -/
abbrev applyEditsOld := applyEditsG false

/-- Specification: copy the original left to right, substituting each match at its recorded position. -/
def spec (c : Bytes) (off : Nat) : List Edit → Bytes
  | [] => c.drop off
  | e :: es => (c.drop off).take (e.start - off) ++ e.after ++ spec c e.stop es

/-- The decidable guard: ascending, pairwise disjoint, in range, on character boundaries,
    recorded text equals the file, replacements do not start with a continuation byte
    (true of every Rust `String`). -/
def Consistent (c : Bytes) (off : Nat) : List Edit → Prop
  | [] => off ≤ c.length
  | e :: es =>
    off ≤ e.start ∧ e.start ≤ e.stop ∧ e.stop ≤ c.length ∧
    isCharBoundary c e.start = true ∧ isCharBoundary c e.stop = true ∧
    (c.take e.stop).drop e.start = e.before ∧
    (∀ b, e.after.head? = some b → isCont b = false) ∧
    Consistent c e.stop es

instance decConsistent (c : Bytes) : (off : Nat) → (es : List Edit) → Decidable (Consistent c off es)
  | off, [] => by unfold Consistent; exact inferInstance
  | off, e :: es => by
    unfold Consistent
    have := decConsistent c e.stop es
    have : Decidable (∀ b, e.after.head? = some b → isCont b = false) := by
      cases h : e.after.head? with
      | none => exact isTrue (by intro b hb; cases hb)
      | some x =>
        by_cases hx : isCont x = false
        · exact isTrue (by intro b hb; cases hb; exact hx)
        · exact isFalse (by intro hall; exact hx (hall x rfl))
    exact inferInstance

end Edits
