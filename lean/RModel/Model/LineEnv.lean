import RModel.Base.Bytes
import RModel.Model.CaseModel
import RModel.Model.LinePipeline
import RModel.Model.Compound
import RModel.Model.RenamePlan
import RModel.Gen.RenameTables
import RModel.Gen.Acronyms
/-
  L1–L3 for ONE LINE, composed: the three parameters `Env` of `LinePipeline` instantiated with the models of the real code.

    scanner.rs            `scan_repository_multi`: the Aho-Corasick pre-filter (`variant_found || tokens_satisfied`), the call of
                          `find_enhanced_matches` with `styles_slice`;  `generate_hunks`: compound match = a match whose `variant`
                          is no key of the variant map, `apply_coercion` + `apply_coercion_to_variant` on the immediate context of
                          the FIRST occurrence of the match text in the line, the first-letter fix-up (exact AND compound matches)
    compound_scanner.rs   `find_enhanced_matches` (exact pass = `LinePipeline.exactMatches`, identifiers = `Compound.findAll`,
                          `Compound.compoundOf`, sort, `Compound.resolveStep`)
    coercion.rs           `apply_coercion`, `detect_style`, `tokenize`, `render_tokens` (= `RenamePlan.*`, shared with C08)

  `envReal c` is the `Env` whose `compound` field are the hunks of the matches that are no keys of the map, after overlap
  resolution, and whose `coerce` field is the coercion decision of `generate_hunks`.  The overlap resolution can also DROP an
  exact match (an identifier that strictly contains it is rewritten by the compound matcher instead), which the `Env`
  interface cannot express; `lineHunksReal` therefore runs the exact branch on the exact matches that survive
  (`keptExact`) and is `LinePipeline.lineHunks (cfgReal c)` whenever all of them do (`Lemmas/LineEnv.lean`).

  Domain: one line (optionally with its terminator), ASCII plus non-ASCII characters that are neither alphanumeric nor
  white space (Rust's `char::is_alphanumeric` / the regex classes `\w`, `\s`, `\b` are Unicode aware; here every byte ≥ 0x80
  is a non-word, non-space byte), no `--exclude-match`, `CoercionMode::Auto`, no atomic identifiers.
-/
open B CaseModel

namespace LinePipeline

-- ---------------------------------------------------------------------------------------------------------------------
-- scanner.rs: the coercion decision of `generate_hunks`

/-- the tables `coercion::detect_style` uses (its own extension list; `get_default_acronym_set()` whatever the options say) -/
def coerceTables : RenamePlan.Tables :=
  { exts := Gen.coercionExtensions, extMax := Gen.coercionExtMaxLen, reserved := [],
    isAcr := (acrOf Gen.defaultAcronyms).isAcr }

/-- `apply_coercion_to_variant(container, _, new_variant)`: the replacement re-rendered in the container's style -/
def coerceToVariant (T : RenamePlan.Tables) (container new : Bytes) : Option Bytes :=
  let cs := RenamePlan.detectStyle T container
  if cs == .mixed || cs == .dot then none
  else some (RenamePlan.renderTokens (RenamePlan.tokenize new) cs)

/-- `if let Some(_) = apply_coercion(ctx, content, replace) { if let Some(v) = apply_coercion_to_variant(ctx, content, replace)
    { replace = v } }`: only WHETHER `apply_coercion` answers is used, the text comes from `apply_coercion_to_variant` -/
def coerceReal (T : RenamePlan.Tables) (ctx old new : Bytes) : Option Bytes :=
  match RenamePlan.applyCoercion T ctx old new with
  | none => none
  | some _ => coerceToVariant T ctx new

-- ---------------------------------------------------------------------------------------------------------------------
-- scanner.rs: the pre-filter of `scan_repository_multi`

def pushNew (acc : List Bytes) (x : Bytes) : List Bytes := if acc.contains x then acc else acc ++ [x]

/-- first character upper-cased, the rest lower-cased (the `title` form of a token, `capitalize_token`) -/
def capToken : Bytes → Bytes
  | [] => []
  | c :: cs => toUpper c :: lower cs

/-- the four spellings of a text that go into `matcher_patterns` -/
def tokenForms (t : Bytes) : List Bytes := [t, lower t, upper t, capToken t].foldl pushNew []

/-- `enable_singular_variants` (nothing is atomic) -/
def singularEnabled (c : Cfg) : Bool :=
  c.plurals && decide ((parse c.A c.search).length > 1) &&
    decide ((parse c.A c.replace).length > (parse c.A c.search).length)

/-- `matcher_patterns`: the keys of the variant map, the spellings of every search token of three or more bytes and, when
    singular variants are on, the spellings of the singular of the last token -/
def matcherPatterns (c : Cfg) : List Bytes :=
  let toks := parse c.A c.search
  c.vmap.keys ++
  (toks.zipIdx.flatMap (fun (t, i) =>
    if t.length < 3 then []
    else tokenForms t ++
      (if singularEnabled c && i + 1 == toks.length then
        (match c.sing t with
         | some s => (tokenForms s).filter (fun f => !f.isEmpty)
         | none => [])
       else [])))

/-- `variant_found || tokens_satisfied`.  Every spelling that can make `tokens_satisfied` true is itself a member of
    `matcher_patterns`, so the disjunction is `variant_found`: some pattern occurs in the content. -/
def prefilter (c : Cfg) (line : Bytes) : Bool :=
  (matcherPatterns c).any (fun p => (B.find line p).isSome)

-- ---------------------------------------------------------------------------------------------------------------------
-- compound_scanner.rs: find_enhanced_matches on the line

/-- the exact pass (unless skipped) -/
def exactOf (c : Cfg) (line : Bytes) : List (Nat × Bytes) :=
  if skipExact c.A c.search (stylesSlice c.opts) then [] else exactMatches line c.vmap.keys

/-- `processed_ranges` -/
def spansOf (ex : List (Nat × Bytes)) : List (Nat × Nat) := ex.map (fun m => (m.1, m.1 + m.2.length))

/-- the compound candidates: every identifier of the line that no exact match covers and in which the compound matcher
    finds the term (`additional_lines` and the candidate-line window only matter for files of several lines) -/
def compoundCands (c : Cfg) (line : Bytes) (spans : List (Nat × Nat)) : List Compound.M :=
  (Compound.findAll (stylesSlice c.opts) line).filterMap
    (Compound.compoundOf c.A line c.search c.replace (stylesSlice c.opts) spans)

/-- `find_enhanced_matches(content, …, search, replace, variant_map, styles_slice, extractor, _)` -/
def finalMs (c : Cfg) (line : Bytes) : List Compound.M :=
  let ex := exactOf c line
  let spans := spansOf ex
  let exactMs := ex.map (fun m => Compound.mkM line m.1 (m.1 + m.2.length) m.2 m.2)
  (Compound.sortM (exactMs ++ compoundCands c line spans)).foldl (Compound.resolveStep spans) []

/-- the matches `generate_hunks` sends through the exact branch (`variant_map.contains_key(&m.variant)`), as the exact
    pass reports them -/
def keptExact (c : Cfg) (line : Bytes) : List (Nat × Bytes) :=
  ((finalMs c line).filter (fun m => c.vmap.containsKey m.variant)).map (fun m => (m.start, m.variant))

/-- the hunks of the other matches: `content = m.variant`, `replace = m.text` after the first-letter fix-up -/
def compoundHunks (c : Cfg) (line : Bytes) : List (Nat × Nat × Bytes × Bytes) :=
  ((finalMs c line).filter (fun m => !c.vmap.containsKey m.variant)).map
    (fun m => (m.start, m.stop, m.variant, fixFirst m.variant m.text))

/-- the real environment of a call; only the resolver heuristics stay a parameter (`c.env.heur`) -/
def envReal (c : Cfg) : Env :=
  { heur := c.env.heur, coerce := coerceReal coerceTables, compound := compoundHunks c }

def cfgReal (c : Cfg) : Cfg := { c with env := envReal c }

/-- stable insertion sort of the hunks by start offset (`sort_by_key`; structural, so that the kernel evaluates it — on the
    lists of at most one hunk of the one-occurrence theorems it is `List.mergeSort` of `LinePipeline.lineHunks`) -/
def insertEdit (e : Edits.Edit) : List Edits.Edit → List Edits.Edit
  | [] => [e]
  | x :: xs => if e.start ≤ x.start then e :: x :: xs else x :: insertEdit e xs

def sortEdits (es : List Edits.Edit) : List Edits.Edit := es.foldr insertEdit []

/-- the hunks of the line as `scan_repository_multi` produces them -/
def lineHunksReal (c : Cfg) (line : Bytes) : Option (List Edits.Edit) :=
  let cfg := cfgReal c
  if !prefilter c line then some [] else
  match exactHunks cfg cfg.vmap line (keptExact c line) with
  | none => none
  | some hs =>
    let ch := (cfg.env.compound line).map (fun c =>
      ({ before := c.2.2.1, after := c.2.2.2, start := c.1, stop := c.2.1 } : Edits.Edit))
    some (sortEdits (hs ++ ch))

/-- plan + apply on the one-line file with the composed model -/
def rewriteLineReal (c : Cfg) (line : Bytes) : Option Bytes :=
  match lineHunksReal c line with
  | none => none
  | some es =>
    match Edits.applyEdits line es with
    | .ok b => some b
    | .error _ => none

end LinePipeline
